import OnlVerif.Lemmas.WRRKFinal
import OnlVerif.Props.C12
import OnlVerif.Props.C15
/-!
# C15/C12 on the kernel: the WRR scheduler *as processes on the kernel model* refines the MultiQueueServer LTS

`OnlVerif/Net/WRROnK.lean` writes `MultiQueueScheduler.put`, `Scheduler.send_packet`, `WRR.run` (two nested `for` loops: the
entries of `weights`, at most `weight` packets per visit) and a packet source as one program of the kernel model `K`, with the
encoding of `Net/WRROnK.lean` (`Props/C15K.lean`).  Every kernel step of this program is a (possibly empty) sequence of actions
the MultiQueueServer LTS with the WRR record (`Net/Sched/WRR.lean`) *accepts*, commuting with the executable abstraction
`absWRR`; so the C12 theorems hold of kernel runs; and the visit rule of C15 — cyclic declaration order, at most `weight`
packets per visit, a visit ends early only when its class has nothing left — holds of every kernel run, with no admissibility
assumption.

The `queue_count` keys are handled as for RR (the first burst of `run` reads every entry — all weights are positive — in
declaration order; `absWRR` computes the key order from "has `run` started" and the `put` observations).

Scope: one `WRR` whose `weights` dict names the flows `0 … F-1` each once, in an arbitrary order, with positive weights
(`FlowsOK`), an `out` attached, `rate > 0`; one source process with non-negative gaps whose packets belong to these flows;
exact rational time; `fuel + 1` = any positive bound of the `_resume` loop.
-/

namespace C15KW
open WRROnK WRRK MQ

/-- **Refinement, step by step**: let `s` be reachable by kernel steps from the initial state and let the next kernel step
end in `s'`.  Then that step is a normal one (`.ok`: no exception — in particular neither the `AssertionError` of `assert store` nor `Hang` —, no stop), and there is a
(possibly empty) sequence of LTS actions that the MultiQueueServer LTS with the WRR record *accepts* from the abstraction of
`s`, that ends exactly in the abstraction of `s'` (the step commutes with the executable abstraction function `absWRR`), and
in which the packets accepted / sent out are exactly the `put` / `out` observations the kernel step appended to the trace. -/
theorem wrr_on_kernel_step_refines (F : Nat) (flow size : Int → Nat) (cfg : WRR.Cfg ℚ) (arrivals : List (ℚ × Int))
    (hw : WorkOK flow F arrivals) (ht : FlowsOK F cfg) (hr : 0 < cfg.rate) (fuel : Nat) (s s' : KState ℚ (WrrSt ℚ))
    (hreach : KReach (prog F flow size cfg) (fuel + 1) (initState F arrivals) s)
    (hstep : (step (prog F flow size cfg) (fuel + 1) s).state? = some s') :
    step (prog F flow size cfg) (fuel + 1) s = .ok s' ∧
    ∃ new acts, histOf s'.trace = histOf s.trace ++ new ∧
      runActs (WRR.sched cfg) (absWRR cfg.weights flow size s) acts = .ok (absWRR cfg.weights flow size s', putPk flow size new, outPk flow size new) := by
  obtain ⟨a, _, hi, _⟩ := reach_lts (size := size) fuel hw ht hr hreach
  cases hp : popMin s.agenda with
  | none => simp [_root_.step, hp, StepResult.state?] at hstep
  | some qr =>
    obtain ⟨q, rest⟩ := qr
    obtain ⟨s'', a', new, h1, h2, -, -, -, h6, acts, h7⟩ := inv_step_lts (size := size) fuel hi hp
    rw [h1] at hstep
    simp only [StepResult.state?, Option.some.injEq] at hstep
    subst hstep
    exact ⟨h1, new, acts, h6, by rw [absWRR_eq hi, absWRR_eq h2]; exact h7⟩

/-- **Refinement, whole runs**: every state reachable by kernel steps is the image under `absWRR` of an *admissible* run of
the LTS from the state of a fresh `WRR`: the LTS accepts some action sequence that ends in `absSP s` and in
which the packets accepted are the `put` observations and the packets sent out the `out` observations of the kernel trace,
in order — i.e. `absSP s` is `MQ.Reached`, the hypothesis of the C12 theorems. -/
theorem wrr_on_kernel_refines_lts (F : Nat) (flow size : Int → Nat) (cfg : WRR.Cfg ℚ) (arrivals : List (ℚ × Int))
    (hw : WorkOK flow F arrivals) (ht : FlowsOK F cfg) (hr : 0 < cfg.rate) (fuel : Nat) (s : KState ℚ (WrrSt ℚ))
    (hreach : KReach (prog F flow size cfg) (fuel + 1) (initState F arrivals) s) :
    Reached (WRR.sched cfg) (WRR.Pc.at 0 0) 0 [] (absWRR cfg.weights flow size s) (putPk flow size (histOf s.trace))
      (outPk flow size (histOf s.trace)) := by
  obtain ⟨a, acts, hi, hrun⟩ := reach_lts (size := size) fuel hw ht hr hreach
  refine ⟨by intro e he; simp at he, acts, ?_⟩
  rw [absWRR_eq hi]
  exact hrun

/-- **No kernel step ever crashes, and `run()` returns**: for every workload as above, every state reachable by kernel
steps is followed by a normal step or has an empty agenda, and `run()` of the kernel model returns (agenda empty, no
exception) within `10·n + 4` kernel steps, `n` = the number of packets. -/
theorem wrr_on_kernel_run_returns (F : Nat) (flow size : Int → Nat) (cfg : WRR.Cfg ℚ) (arrivals : List (ℚ × Int))
    (hw : WorkOK flow F arrivals) (ht : FlowsOK F cfg) (hr : 0 < cfg.rate) (fuel n : Nat)
    (hn : 10 * arrivals.length + 4 ≤ n) :
    (∀ s, KReach (prog F flow size cfg) (fuel + 1) (initState F arrivals) s →
      (∃ s', step (prog F flow size cfg) (fuel + 1) s = .ok s') ∨ step (prog F flow size cfg) (fuel + 1) s = .empty) ∧
    ∃ sF, runAll (prog F flow size cfg) (fuel + 1) n (initState F arrivals) = .returned .none sF ∧ sF.agenda = [] ∧
      KReach (prog F flow size cfg) (fuel + 1) (initState F arrivals) sF := by
  constructor
  · intro s hs
    obtain ⟨a, hi⟩ := reach_inv (size := size) fuel hw ht hr hs
    cases hp : popMin s.agenda with
    | none => right; simp [_root_.step, hp]
    | some qr =>
      obtain ⟨q, rest⟩ := qr
      obtain ⟨s', _, _, h1, _⟩ := inv_step (size := size) fuel hi hp
      exact Or.inl ⟨s', h1⟩
  · have h0 := inv_init (flow := flow) arrivals hw ht hr
    obtain ⟨sF, aF, h1, -, h3, h4⟩ := run_returns (size := size) fuel (initState F arrivals) n _ _ h0
      (by rw [a0_mu]; omega) KReach.init
    exact ⟨sF, h1, h3, h4⟩

/-! ### the C12/C13 theorems for kernel runs -/

/-- **Work conservation on the kernel** (`C12.mq_never_idle_with_backlog`): in a state reachable by kernel steps, if the
LTS image may let the clock advance and no transmission is in progress, then `total_packets` is 0, every per-flow store is
empty and `run` holds no packet. -/
theorem kernel_never_idle_with_backlog (F : Nat) (flow size : Int → Nat) (cfg : WRR.Cfg ℚ) (arrivals : List (ℚ × Int))
    (hw : WorkOK flow F arrivals) (ht : FlowsOK F cfg) (hr : 0 < cfg.rate) (fuel : Nat) (s : KState ℚ (WrrSt ℚ))
    (hreach : KReach (prog F flow size cfg) (fuel + 1) (initState F arrivals) s) (t : ℚ)
    (htick : ∃ s' o, MQ.step (WRR.sched cfg) (absWRR cfg.weights flow size s) (.tick t) = .ok (s', o))
    (hidle : ∀ p d, (absWRR cfg.weights flow size s).phase ≠ .sending p d) :
    total (absWRR cfg.weights flow size s).queueCount = 0 ∧ inHand (absWRR cfg.weights flow size s) = [] ∧
      ∀ c, storeOf (absWRR cfg.weights flow size s).stores c = [] := by
  have := C12.mq_never_idle_with_backlog (WRR.sched cfg) (WRR.lawful cfg) (WRR.Pc.at 0 0) 0 [] _ _ _
    (wrr_on_kernel_refines_lts F flow size cfg arrivals hw ht hr fuel s hreach) t htick hidle
  exact ⟨this.1, this.2.1, this.2.2.1⟩

/-- **Per-flow FIFO and conservation on the kernel** (`C12.mq_flow_fifo`): at every state reachable by kernel steps the
packets of flow `f` handed to `put` so far are, in order, those of `f` handed to `out.put` followed by those of `f` still
held (in transmission, then waiting in `stores[f]`). -/
theorem kernel_flow_fifo (F : Nat) (flow size : Int → Nat) (cfg : WRR.Cfg ℚ) (arrivals : List (ℚ × Int))
    (hw : WorkOK flow F arrivals) (ht : FlowsOK F cfg) (hr : 0 < cfg.rate) (fuel : Nat) (s : KState ℚ (WrrSt ℚ))
    (hreach : KReach (prog F flow size cfg) (fuel + 1) (initState F arrivals) s) (f : Nat) :
    ofFlow f (putPk flow size (histOf s.trace)) =
      ofFlow f (outPk flow size (histOf s.trace)) ++ ofFlow f (heldC (WRR.sched cfg) (absWRR cfg.weights flow size s) f) :=
  C12.mq_flow_fifo (WRR.sched cfg) (WRR.lawful cfg) (WRR.Pc.at 0 0) 0 [] _ _ _
    (wrr_on_kernel_refines_lts F flow size cfg arrivals hw ht hr fuel s hreach) f f rfl

/-- **The counters are exact on the kernel** (`C12.mq_counters_eq`): `queue_count[f]`, `queue_byte_size[f]` and
`total_packets`, read from the attribute cells of a reachable kernel state, equal the number / bytes of the packets held. -/
theorem kernel_counters_eq (F : Nat) (flow size : Int → Nat) (cfg : WRR.Cfg ℚ) (arrivals : List (ℚ × Int))
    (hw : WorkOK flow F arrivals) (ht : FlowsOK F cfg) (hr : 0 < cfg.rate) (fuel : Nat) (s : KState ℚ (WrrSt ℚ))
    (hreach : KReach (prog F flow size cfg) (fuel + 1) (initState F arrivals) s) (f : Nat) :
    cnt (absWRR cfg.weights flow size s).queueCount f = W (one f) (absWRR cfg.weights flow size s) ∧
    cnt (absWRR cfg.weights flow size s).queueBytes f = W (bytesOf f) (absWRR cfg.weights flow size s) ∧
    total (absWRR cfg.weights flow size s).queueCount = W (fun _ => 1) (absWRR cfg.weights flow size s) :=
  C12.mq_counters_eq (WRR.sched cfg) (WRR.lawful cfg) (WRR.Pc.at 0 0) 0 [] _ _ _
    (wrr_on_kernel_refines_lts F flow size cfg arrivals hw ht hr fuel s hreach) f

/-! ### the direct form: at most `weight` packets per visit, cyclic order, exact service times, work conservation, drain -/

/-- **What the oracle accepts** (`WRROnK.ostep` at exact rational time, spelled out).  A `serve id t` observation is accepted
in oracle state `o` (visit of entry `cm`, `cj` packets sent in it) iff nothing is in transmission, `id` is the oldest waiting
packet of its flow, its flow is entry `j` of `weights`, and

* either the visit goes on: `j = cm` and `cj < weight(cm)` — then the visit becomes `(cm, cj + 1)`;
* or the visit is over — `cj ≥ weight(cm)`, or no packet of entry `cm` waits from an instant before `t` — and every waiting
  packet of an entry the cyclic order visits between `cm` and `j` was put at an instant `≥ t` — then the visit becomes `(j, 1)`;

and `t` is the instant of the last departure or the instant at which every waiting packet was put.  An `out id t` observation is
accepted iff `id` is in transmission since `s` and `t = s + 8·size/rate`; an `idle` observation (the loop waits for the wake-up
token) iff nothing waits and nothing is in transmission — the visit then is `(0, 0)`. -/
theorem oracle_accepts_iff (F : Nat) (flow size : Int → Nat) (cfg : WRR.Cfg ℚ) (o : OSt ℚ) (id : Int) (t : ℚ) :
    ((ostep F flow size cfg o (.serve id t)).isSome ↔
      o.busy = none ∧ (∃ tp rest, o.waiting (flow id) = (id, tp) :: rest) ∧
      (posOf cfg.weights (flow id) < cfg.weights.length ∧
        ((posOf cfg.weights (flow id) = o.cm ∧ o.cj < weightAt cfg.weights o.cm) ∨
          ((weightAt cfg.weights o.cm ≤ o.cj ∨ ∀ x ∈ o.waiting (flowAt cfg.weights o.cm), t ≤ x.2) ∧
            ∀ j' ∈ skipped cfg.weights.length (o.cm + 1) (posOf cfg.weights (flow id)),
              ∀ x ∈ o.waiting (flowAt cfg.weights j'), t ≤ x.2))) ∧
      (o.lastOut = some t ∨ ∀ f, f < F → ∀ x ∈ o.waiting f, x.2 = t)) ∧
    (∀ o', ostep F flow size cfg o (.serve id t) = some o' → o'.busy = some (id, t) ∧
      ((posOf cfg.weights (flow id) = o.cm ∧ o.cj < weightAt cfg.weights o.cm) → o'.cm = o.cm ∧ o'.cj = o.cj + 1) ∧
      (¬ (posOf cfg.weights (flow id) = o.cm ∧ o.cj < weightAt cfg.weights o.cm) →
        o'.cm = posOf cfg.weights (flow id) ∧ o'.cj = 1)) ∧
    ((ostep F flow size cfg o (.out id t)).isSome ↔ ∃ s, o.busy = some (id, s) ∧ t = s + (size id * 8 : ℕ) / cfg.rate) ∧
    ((ostep F flow size cfg o (.idle t)).isSome ↔ o.busy = none ∧ ∀ f, f < F → o.waiting f = []) := by
  refine ⟨?_, ?_, ?_, ?_⟩
  · have hiff : ServeOK F flow cfg.weights o id t ↔
        (o.busy = none ∧ (∃ tp rest, o.waiting (flow id) = (id, tp) :: rest) ∧
        (posOf cfg.weights (flow id) < cfg.weights.length ∧
          ((posOf cfg.weights (flow id) = o.cm ∧ o.cj < weightAt cfg.weights o.cm) ∨
            ((weightAt cfg.weights o.cm ≤ o.cj ∨ ∀ x ∈ o.waiting (flowAt cfg.weights o.cm), t ≤ x.2) ∧
              ∀ j' ∈ skipped cfg.weights.length (o.cm + 1) (posOf cfg.weights (flow id)),
                ∀ x ∈ o.waiting (flowAt cfg.weights j'), t ≤ x.2))) ∧
        (o.lastOut = some t ∨ ∀ f, f < F → ∀ x ∈ o.waiting f, x.2 = t)) := by
      unfold ServeOK Continues
      simp only [not_lt, eqT_iff, List.mem_range]
      refine and_congr ?_ (and_congr ?_ (and_congr Iff.rfl ?_))
      · cases o.busy <;> simp
      · cases hw : o.waiting (flow id) with
        | nil => simp
        | cons x r =>
          obtain ⟨i0, t0⟩ := x
          simp only [List.head?_cons, Option.map_some, Option.some.injEq, List.cons.injEq, Prod.mk.injEq]
          constructor
          · rintro rfl; exact ⟨t0, r, ⟨rfl, rfl⟩, rfl⟩
          · rintro ⟨tp, r', ⟨h1, -⟩, -⟩; exact h1
      · cases hl : o.lastOut with
        | none => simp [lastIs]
        | some d => simp [lastIs, eqT_iff]
    simp only [ostep]
    by_cases hok : ServeOK F flow cfg.weights o id t
    · simp only [hok, if_true]
      have : (if Continues cfg.weights o (posOf cfg.weights (flow id)) then
          some ({ o with waiting := setQ o.waiting (flow id) (o.waiting (flow id)).tail, busy := some (id, t), cj := o.cj + 1 } : OSt ℚ)
        else some { o with waiting := setQ o.waiting (flow id) (o.waiting (flow id)).tail, busy := some (id, t),
                           cm := posOf cfg.weights (flow id), cj := 1 }).isSome = true := by
        split <;> rfl
      simp only [this, true_iff]
      exact hiff.mp hok
    · simp only [hok, if_false, Option.isSome_none, Bool.false_eq_true, false_iff]
      exact fun h => hok (hiff.mpr h)
  · intro o' ho'
    simp only [ostep] at ho'
    by_cases hok : ServeOK F flow cfg.weights o id t
    · simp only [hok, if_true] at ho'
      by_cases hc : Continues cfg.weights o (posOf cfg.weights (flow id))
      · simp only [hc, if_true, Option.some.injEq] at ho'
        subst ho'
        exact ⟨rfl, fun _ => ⟨rfl, rfl⟩, fun hn => absurd hc hn⟩
      · simp only [hc, if_false, Option.some.injEq] at ho'
        subst ho'
        exact ⟨rfl, fun h => absurd h hc, fun _ => ⟨rfl, rfl⟩⟩
    · simp [hok] at ho'
  · have hiff : OutOK size cfg.rate o id t ↔ ∃ s, o.busy = some (id, s) ∧ t = s + (size id * 8 : ℕ) / cfg.rate := by
      unfold OutOK
      cases hb : o.busy with
      | none => simp
      | some x =>
        obtain ⟨id', s0⟩ := x
        simp only [eqT_iff, WRROnK.txTime, Num.ofNat_rat, Option.some.injEq, Prod.mk.injEq]
        constructor
        · rintro ⟨rfl, h⟩; exact ⟨s0, ⟨rfl, rfl⟩, h⟩
        · rintro ⟨s1, ⟨rfl, rfl⟩, h⟩; exact ⟨rfl, h⟩
    simp only [ostep]
    by_cases hok : OutOK size cfg.rate o id t
    · simp only [hok, if_true, Option.isSome_some, true_iff]
      exact hiff.mp hok
    · simp only [hok, if_false, Option.isSome_none, Bool.false_eq_true, false_iff]
      exact fun h => hok (hiff.mpr h)
  · have hiff : IdleOK F o ↔ (o.busy = none ∧ ∀ f, f < F → o.waiting f = []) := by
      unfold IdleOK
      simp only [List.mem_range, List.isEmpty_iff]
      refine and_congr ?_ Iff.rfl
      cases o.busy <;> simp
    simp only [ostep]
    by_cases hok : IdleOK F o
    · simp only [hok, if_true, Option.isSome_some, true_iff]
      exact hiff.mp hok
    · simp only [hok, if_false, Option.isSome_none, Bool.false_eq_true, false_iff]
      exact fun h => hok (hiff.mpr h)

/-- **The history of every kernel run passes the oracle, step by step**: at every state reachable by kernel steps the
`put` / `serve` / `out` / `idle` observations recorded so far are accepted by `WRROnK.orun` from the empty oracle state. -/
theorem wrr_on_kernel_history_accepted (F : Nat) (flow size : Int → Nat) (cfg : WRR.Cfg ℚ) (arrivals : List (ℚ × Int))
    (hw : WorkOK flow F arrivals) (ht : FlowsOK F cfg) (hr : 0 < cfg.rate) (fuel : Nat) (s : KState ℚ (WrrSt ℚ))
    (hreach : KReach (prog F flow size cfg) (fuel + 1) (initState F arrivals) s) :
    ∃ o, orun F flow size cfg oInit (histOf s.trace) = some o := by
  obtain ⟨a, hi⟩ := reach_inv3 (size := size) fuel hw ht hr hreach
  obtain ⟨o, ho⟩ := hi.o
  exact ⟨o, ho.run⟩

/-- **At most `weight` packets per visit, cyclic declaration order, exact service times, work conservation and drain for the
WRR scheduler as kernel processes (direct form, no admissibility assumption).**  For every number of flows `F`, every weight
table over them (each flow once, positive weights, any order), every `rate > 0` and every finite workload with non-negative
gaps whose packets belong to these flows (bursts and arrivals exactly at transmission ends included), `run()` of the kernel
model on the spawned processes

* returns (agenda empty, no exception ever leaves `step()` — `assert store` never fails, the loop never spins) within
  `10·n + 4` kernel steps;
* has handed exactly the workload to `put`: packet `k` at the sum of the first `k + 1` gaps;
* has a `put` / `serve` / `out` / `idle` history that the oracle accepts (`oracle_accepts_iff`): at every service start nothing
  else was in transmission, the packet was the oldest of its flow, **its class either continued its visit with fewer than
  `weight` packets sent in it, or the previous visit was over — allowance used up, or nothing of that class waiting from an
  earlier instant — and the class is the next one in the cyclic declaration order with a packet waiting from an earlier
  instant**; the service started at the instant the previous transmission ended or at the instant the waiting packets arrived;
  every packet left exactly `8·size/rate` after its service start; the loop waited for the wake-up token only with nothing in
  the system;
* ends drained, and for every flow the packets handed to `out.put` are exactly the packets of that flow handed to `put`, in
  the same order. -/
theorem wrr_on_kernel_visit_counts (F : Nat) (flow size : Int → Nat) (cfg : WRR.Cfg ℚ) (arrivals : List (ℚ × Int))
    (hw : WorkOK flow F arrivals) (ht : FlowsOK F cfg) (hr : 0 < cfg.rate) (fuel n : Nat)
    (hn : 10 * arrivals.length + 4 ≤ n) :
    ∃ sF o, runAll (prog F flow size cfg) (fuel + 1) n (initState F arrivals) = .returned .none sF ∧ sF.agenda = [] ∧
      obsPuts (histOf sF.trace) = arrivalsFrom 0 arrivals ∧
      orun F flow size cfg oInit (histOf sF.trace) = some o ∧ drained F o = true ∧
      ∀ f, ofFlow f (outPk flow size (histOf sF.trace)) = ofFlow f (putPk flow size (histOf sF.trace)) := by
  obtain ⟨sF, aF, h1, h2, h3, h4⟩ := run_returns3 fuel (initState F arrivals) n _ _
    (inv3_init (size := size) hw ht hr) (by rw [a0_mu]; omega) KReach.init
  obtain ⟨o, g1, g2, g3, g4⟩ := inv3_final h2 h3
  refine ⟨sF, o, h1, h3, g3, g1, g2, ?_⟩
  intro f
  have := kernel_flow_fifo F flow size cfg arrivals hw ht hr fuel sF h4 f
  rw [absWRR_eq h2.i, g4 f] at this
  simpa [ofFlow] using this.symm

/-- **The visit rule at the decision burst, on kernel states**: let `s` be reachable by kernel steps and let the next kernel
step be one in which `run` takes a packet (the abstraction of the state after it has `run` holding a freshly taken packet `p`
of flow `c` at entry `m`, iteration `jj`; the one before has not).  Then `c` is entry `m` of `weights` with `jj` below its
weight, `p` was the head of `stores[c]` in `s`, and either `(m, jj)` is the resume point — the visit in progress goes on with
its next iteration — or `jj = 0`, the visit at the resume point was over (allowance used up, or its store empty in `s`) and
**the store of every entry the cyclic order visits before `m` is empty in `s`** — read from the `Store` resources of the
kernel state itself. -/
theorem wrr_on_kernel_decision_visit (F : Nat) (flow size : Int → Nat) (cfg : WRR.Cfg ℚ) (arrivals : List (ℚ × Int))
    (hw : WorkOK flow F arrivals) (ht : FlowsOK F cfg) (hr : 0 < cfg.rate) (fuel : Nat) (s s' : KState ℚ (WrrSt ℚ))
    (hreach : KReach (prog F flow size cfg) (fuel + 1) (initState F arrivals) s)
    (hstep : step (prog F flow size cfg) (fuel + 1) s = .ok s') (c : Nat) (p : MPkt)
    (hpost : (absWRR cfg.weights flow size s').phase = .pktHanded c p)
    (hpre : ∀ c p, (absWRR cfg.weights flow size s).phase ≠ .pktHanded c p) :
    ∃ m jj, (absWRR cfg.weights flow size s').ctl = .got m jj ∧ (∃ w, cfg.weights[m]? = some (c, w) ∧ jj < w) ∧
      (∃ id is, (s.res (flowStore c)).items = id :: is ∧ p = pktOf flow size id) ∧
      (WRR.resumePoint (absWRR cfg.weights flow size s) = (m, jj) ∨
        (jj = 0 ∧
          (∀ f0 w0, cfg.weights[(WRR.resumePoint (absWRR cfg.weights flow size s)).1]? = some (f0, w0) →
            w0 ≤ (WRR.resumePoint (absWRR cfg.weights flow size s)).2 ∨ (s.res (flowStore f0)).items = []) ∧
          ∀ j' ∈ skipped cfg.weights.length ((WRR.resumePoint (absWRR cfg.weights flow size s)).1 + 1) m,
            ∀ e, cfg.weights[j']? = some e → (s.res (flowStore e.1)).items = [])) := by
  obtain ⟨a, hi⟩ := reach_inv3 (size := size) fuel hw ht hr hreach
  cases hp : popMin s.agenda with
  | none => simp [_root_.step, hp] at hstep
  | some qr =>
    obtain ⟨q, rest⟩ := qr
    obtain ⟨s'', a', new, h1, h2, -, h4, -⟩ := inv_step_lts (size := size) fuel hi.i hp
    rw [h1] at hstep
    cases hstep
    rw [absWRR_eq h2] at hpost ⊢
    have hpre' : ∀ g m jj id q0, a.run ≠ .H g m jj id q0 := by
      intro g m jj id q0 h
      exact hpre (flow id) (pktOf flow size id) (by rw [absWRR_eq hi.i]; simp [toM, phaseOf, h])
    have hres : WRR.resumePoint (absWRR cfg.weights flow size s) = resumeAt a.run := by
      rw [absWRR_eq hi.i]
      unfold WRR.resumePoint resumeAt
      cases hrun : a.run <;> simp [toM, ctlOf, hrun]
    have hia := hi.i.i.a
    have hst : ∀ f, f < F → (s.res (flowStore f)).items = a.items f := by
      intro f hf; rw [hi.i.i.k.st f hf]; rfl
    cases hrun' : a'.run with
    | H g m jj id q' =>
      simp only [toM, phaseOf, hrun', Phase.pktHanded.injEq] at hpost
      obtain ⟨rfl, rfl⟩ := hpost
      obtain ⟨⟨w, e1, e1'⟩, ⟨is, e3⟩, e4⟩ := astep_decision hia h4 hrun' hpre'
      have hfid : flow id < F := entry_lt hia (List.mem_of_getElem? e1)
      refine ⟨m, jj, by simp [toM, ctlOf, hrun'], ⟨w, e1, e1'⟩, ⟨id, is, by rw [hst _ hfid, e3], rfl⟩, ?_⟩
      rw [hres]
      rcases e4 with ⟨g1, g2⟩ | ⟨g1, g2, g3⟩
      · left; exact Prod.ext g1.symm g2.symm
      · right
        refine ⟨g1, ?_, ?_⟩
        · intro f0 w0 h0
          rcases g2 f0 w0 h0 with g | g
          · exact Or.inl g
          · exact Or.inr (by rw [hst _ (entry_lt hia (List.mem_of_getElem? h0)), g])
        · intro j' hj' e he
          rw [hst _ (entry_lt hia (List.mem_of_getElem? he)), g3 j' hj' e he]
    | init q0 => simp [toM, phaseOf, hrun'] at hpost
    | W g => simp [toM, phaseOf, hrun'] at hpost
    | K g q0 => simp [toM, phaseOf, hrun'] at hpost
    | S p0 m jj id q0 => simp [toM, phaseOf, hrun'] at hpost
    | T p0 t m jj id q0 => simp [toM, phaseOf, hrun'] at hpost
    | F p0 m jj id q0 => simp [toM, phaseOf, hrun'] at hpost

/-! ### concrete runs of the kernel model, evaluated by the kernel of Lean (exact arithmetic) -/

/-- flows 0, 1, 2 declared in the order 2, 0, 1 with weights 1, 2, 1; rate 8 (a packet of size 1 is transmitted in one time
unit) -/
def cfg3 : WRR.Cfg ℚ := { rate := 8, weights := [(2, 1), (0, 2), (1, 1)] }
/-- packet `i` belongs to flow `fl[i]` -/
def flowOf (fl : List Nat) : Int → Nat := fun i => fl.getD i.toNat 0
def unit : Int → Nat := fun _ => 1

/-- what a finished run shows: entries left in the agenda, the service starts and the departures -/
def run3 (fl : List Nat) (n : Nat) (arr : List (ℚ × Int)) : Option (Nat × List (Int × ℚ) × List (Int × ℚ)) :=
  (finalState (runAll (prog 3 (flowOf fl) unit cfg3) 1 n (initState 3 arr))).map fun s =>
    (s.agenda.length, servesOf s.trace, outsOf s.trace)

/-- packets 0, 1, 2 of flow 0 and packet 3 of flow 1 queued at 0; packets 4, 5 of flow 2 arrive at 1 — exactly when the first
transmission ends.  Flow 0 (entry 1, weight 2) sends packets 0 and 1 in one visit; then entry 2 (flow 1: packet 3); the next
pass serves entry 0 (flow 2, weight 1: packet 4), entry 1 (flow 0: packet 2, then its store is empty: `break`), entry 2 (empty),
and the pass after it entry 0 again (packet 5): back to back, each transmission exactly one time unit -/
example : run3 [0, 0, 0, 1, 2, 2] 80 [(0, 0), (0, 1), (0, 2), (0, 3), (1, 4), (0, 5)] =
    some (0, [(0, 0), (1, 1), (3, 2), (4, 3), (2, 4), (5, 5)], [(0, 1), (1, 2), (3, 3), (4, 4), (2, 5), (5, 6)]) := by
  decide +kernel

/-- … and every kernel step of that run (41 of them) is an action sequence the LTS accepts between the abstractions of the
two states (`refineCheck`), and its history is accepted by the oracle and ends drained -/
example : refineCheck 3 (flowOf [0, 0, 0, 1, 2, 2]) unit cfg3 80
      (initState 3 [(0, 0), (0, 1), (0, 2), (0, 3), (1, 4), (0, 5)]) 0 = some 41 ∧
    (finalState (runAll (prog 3 (flowOf [0, 0, 0, 1, 2, 2]) unit cfg3) 1 80
      (initState 3 [(0, 0), (0, 1), (0, 2), (0, 3), (1, 4), (0, 5)]))).map
    (fun s => (orun 3 (flowOf [0, 0, 0, 1, 2, 2]) unit cfg3 oInit (histOf s.trace)).map (drained 3)) = some (some true) := by
  decide +kernel

/-- an idle period inside a visit: flow 0 (weight 2) sends one packet at 0, the loop goes idle; two more packets of flow 0
arrive at 5: the pass restarts at the top and both are sent in one (new) visit, 5→6 and 6→7 -/
example : run3 [0, 0, 0] 60 [(0, 0), (5, 1), (0, 2)] = some (0, [(0, 0), (1, 5), (2, 6)], [(0, 1), (1, 6), (2, 7)]) ∧
    refineCheck 3 (flowOf [0, 0, 0]) unit cfg3 60 (initState 3 [(0, 0), (5, 1), (0, 2)]) 0 = some 25 := by
  decide +kernel

/-- the hypotheses of the theorems are met by that workload (`WorkOK`, `FlowsOK`) -/
example : WorkOK (flowOf [0, 0, 0, 1, 2, 2]) 3 [(0, 0), (0, 1), (0, 2), (0, 3), (1, 4), (0, 5)] ∧ FlowsOK 3 cfg3 := by
  refine ⟨?_, by unfold FlowsOK cfg3; decide⟩
  intro x hx
  simp only [List.mem_cons, List.not_mem_nil, or_false] at hx
  rcases hx with rfl | rfl | rfl | rfl | rfl | rfl <;> exact ⟨by norm_num, by unfold PktOK; decide⟩

/-- the oracle is not vacuous.  Packets 0, 1, 2 of flow 0 (entry 1, weight 2) and packet 3 of flow 1 (entry 2) are put at 0.
Two packets of flow 0, then flow 1, then the third packet of flow 0 is accepted; a third packet of flow 0 in the same visit is
rejected (at most `weight` per visit); flow 1 after only one packet of flow 0 is rejected (the visit is cut short while its
class is backlogged); going idle with a packet waiting is rejected. -/
example : orun 3 (flowOf [0, 0, 0, 1]) unit cfg3 oInit
      [.idle 0, .put 0 0, .put 1 0, .put 2 0, .put 3 0, .serve 0 0, .out 0 1, .serve 1 1, .out 1 2, .serve 3 2, .out 3 3,
       .serve 2 3, .out 2 4, .idle 4] ≠ none ∧
    orun 3 (flowOf [0, 0, 0, 1]) unit cfg3 oInit
      [.idle 0, .put 0 0, .put 1 0, .put 2 0, .put 3 0, .serve 0 0, .out 0 1, .serve 1 1, .out 1 2, .serve 2 2] = none ∧
    orun 3 (flowOf [0, 0, 0, 1]) unit cfg3 oInit
      [.idle 0, .put 0 0, .put 1 0, .put 2 0, .put 3 0, .serve 0 0, .out 0 1, .serve 3 1] = none ∧
    orun 3 (flowOf [0, 0, 0, 1]) unit cfg3 oInit [.idle 0, .put 0 0, .idle 0] = none := by
  decide +kernel

end C15KW
