import OnlVerif.Lemmas.KernelStep
import OnlVerif.Lemmas.KAccess
/-!
# C05 — condition events fire exactly when their predicate first holds, with exact value

Model: `Condition.__init__`, `_check`, `_build_value`, `_populate_value`, `_remove_check_callbacks`,
`all_events`, `any_events` in `OnlVerif/Kernel/Ops.lean`.
-/

namespace C05
variable {σ : Type}

/-- **`all_of` holds when all operands have been counted, `any_of` when at least one has (or there are none).** -/
theorem evaluate_spec (n c : Nat) :
    (evaluate true n c = true ↔ n = c) ∧ (evaluate false n c = true ↔ 0 < c ∨ n = 0) := by
  unfold evaluate
  constructor <;> simp

/-- **An empty operand list triggers at once**, with an empty value and without a value-building callback. -/
theorem cond_empty_immediate (s : KState ℚ σ) (all : Bool) :
    (mkCond s all []).2 = s.events.size ∧
    ((mkCond s all []).1.ev s.events.size).out = some (.ok (.cv [])) ∧
    (mkCond s all []).1.agenda = { time := s.now + Num.zero, prio := NORMAL, eid := s.eid, ev := s.events.size } :: s.agenda := by
  unfold mkCond
  simp only [List.isEmpty_nil, if_true]
  refine ⟨rfl, ?_, rfl⟩
  show ((((s.newLabelled _).1.setOut _ _).schedule _ _ _).ev s.events.size).out = _
  rw [KState.ev_schedule]
  unfold KState.setOut
  rw [KState.ev_setEv, if_pos ⟨rfl, by simp [KState.newLabelled]⟩]

/-- **The condition triggers in exactly the check in which its predicate first holds** — the check for an operand that
was just processed (or was already processed at construction) — never earlier. -/
theorem cond_triggers_when_predicate_first_holds (s : KState ℚ σ) (c e : EvId) (v : Val)
    (hu : s.triggered c = false) (he : (s.ev e).out = some (.ok v)) :
    (evaluate (condOps s c).1 (condOps s c).2.length ((s.ev c).count + 1) = true →
      condCheck s c e = (s.bumpCount c).trigger c (.ok .none)) ∧
    (evaluate (condOps s c).1 (condOps s c).2.length ((s.ev c).count + 1) = false →
      condCheck s c e = s.bumpCount c) := by
  unfold condCheck
  simp only [hu, Bool.false_eq_true, if_false, he]
  constructor <;> intro h <;> simp [h]

/-- **Only once; operands completing after the condition triggered change nothing** (in particular a later failing
operand is *not* defused by the condition). -/
theorem cond_after_trigger_inert (s : KState ℚ σ) (c e : EvId) (h : s.triggered c = true) : condCheck s c e = s := by
  unfold condCheck; simp only [h, if_true]

/-- **An operand failing before the condition is met fails the condition with that operand's exception, and the
operand's failure then counts as handled.** -/
theorem cond_fail_forward (s : KState ℚ σ) (c e : EvId) (x : Exc) (hu : s.triggered c = false)
    (he : (s.ev e).out = some (.fail x)) :
    condCheck s c e = ((s.bumpCount c).defuse e).trigger c (.fail x) := by
  unfold condCheck
  simp only [hu, Bool.false_eq_true, if_false, he]

/-- **The value maps exactly the processed leaf operands, in operand order**: for a condition over plain
(non-condition) operands, `_populate_value` keeps precisely the operands that are processed, in the order given. -/
theorem cond_value_flat (s : KState ℚ σ) (c : EvId) (fuel : Nat)
    (hflat : ∀ e ∈ (condOps s c).2, isCond s e = false) :
    populate (fuel + 1) s c = (condOps s c).2.filter (fun e => s.processed e) := by
  unfold populate
  generalize (condOps s c).2 = ops at hflat
  induction ops with
  | nil => rfl
  | cons e rest ih =>
    have h1 := hflat e List.mem_cons_self
    have h2 := ih (fun e' he' => hflat e' (List.mem_cons_of_mem _ he'))
    simp only [List.flatMap_cons, h1, Bool.false_eq_true, if_false, List.filter_cons]
    rw [h2]
    cases s.processed e <;> simp

/-- nested conditions contribute their own processed leaves, in place -/
theorem cond_value_nested (s : KState ℚ σ) (c : EvId) (fuel : Nat) :
    populate (fuel + 1) s c = (condOps s c).2.flatMap fun e =>
      if isCond s e then populate fuel s e else if s.processed e then [e] else [] := by
  rfl

/-- **When the condition is processed its `_check` callbacks are removed from the operands** and, if it succeeded,
its value becomes the ConditionValue of the leaves processed by then. -/
theorem cond_build (s : KState ℚ σ) (c : EvId) :
    condBuild s c =
      (match ((removeChecks (c + 1) c s).ev c).out with
       | some (.ok _) => (removeChecks (c + 1) c s).setOut c (.ok (.cv (populate (c + 1) (removeChecks (c + 1) c s) c)))
       | _ => removeChecks (c + 1) c s) := by
  unfold condBuild; rfl

/-! non-vacuity -/
example : evaluate true 2 2 = true ∧ evaluate true 2 1 = false ∧ evaluate false 3 1 = true ∧ evaluate false 3 0 = false ∧
    evaluate false 0 0 = true := by decide

end C05
