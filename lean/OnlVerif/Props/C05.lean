import OnlVerif.Lemmas.KernelStep
import OnlVerif.Lemmas.KAccess
import OnlVerif.Lemmas.CondValue
import OnlVerif.Lemmas.CondExamples
/-!
# C05 — condition events fire exactly when their predicate first holds, with exact value

Model: `Condition.__init__`, `_check`, `_build_value`, `_populate_value`, `_remove_check_callbacks`,
`all_events`, `any_events` in `OnlVerif/Kernel/Ops.lean`.

First the *local* theorems (one call of `_check` / `_build_value` / `__init__` at a time).  The delimited block at the end
holds the *global* ones — for every program and every state reachable by `step`: the counting invariant
(`cond_counting_invariant`, `…_midstep`), the trigger instant (`cond_triggers_exactly_when_first_met`,
`cond_constructor_triggers_exactly_when_met`, `cond_triggers_in_step_of_operand`, `cond_outcome_frozen`,
`late_failure_not_defused`), outcome and value (`cond_value_when_processed`, `cond_value_is_processed_leaves`,
`detached_never_triggers`) and nesting (`nested_depth2`); helper lemmas in `Lemmas/Cond*.lean`.
-/

namespace C05
variable {σ : Type}

/-- **`all_of` holds when all operands have been counted, `any_of` when at least one has (or there are none).** -/
theorem evaluate_spec (n c : Nat) :
    (evaluate true n c = true ↔ n = c) ∧ (evaluate false n c = true ↔ 0 < c ∨ n = 0) := by
  unfold evaluate
  constructor <;> simp

/-- **An empty operand list triggers at once**, with an empty value and without a value-building callback. -/
theorem cond_empty_immediate (s : KState ℚ σ) (all : Bool) :
    (mkCond s all []).2 = s.events.size ∧
    ((mkCond s all []).1.ev s.events.size).out = some (.ok (.cv [])) ∧
    (mkCond s all []).1.agenda = { time := s.now + Num.zero, prio := NORMAL, eid := s.eid, ev := s.events.size } :: s.agenda := by
  unfold mkCond
  simp only [List.isEmpty_nil, if_true]
  refine ⟨rfl, ?_, rfl⟩
  show ((((s.newLabelled _).1.setOut _ _).schedule _ _ _).ev s.events.size).out = _
  rw [KState.ev_schedule]
  unfold KState.setOut
  rw [KState.ev_setEv, if_pos ⟨rfl, by simp [KState.newLabelled]⟩]

/-- **The condition triggers in exactly the check in which its predicate first holds** — the check for an operand that
was just processed (or was already processed at construction) — never earlier. -/
theorem cond_triggers_when_predicate_first_holds (s : KState ℚ σ) (c e : EvId) (v : Val)
    (hu : s.triggered c = false) (he : (s.ev e).out = some (.ok v)) :
    (evaluate (condOps s c).1 (condOps s c).2.length ((s.ev c).count + 1) = true →
      condCheck s c e = (s.bumpCount c).trigger c (.ok .none)) ∧
    (evaluate (condOps s c).1 (condOps s c).2.length ((s.ev c).count + 1) = false →
      condCheck s c e = s.bumpCount c) := by
  unfold condCheck
  simp only [hu, Bool.false_eq_true, if_false, he]
  constructor <;> intro h <;> simp [h]

/-- **Only once; operands completing after the condition triggered change nothing** (in particular a later failing
operand is *not* defused by the condition). -/
theorem cond_after_trigger_inert (s : KState ℚ σ) (c e : EvId) (h : s.triggered c = true) : condCheck s c e = s := by
  unfold condCheck; simp only [h, if_true]

/-- **An operand failing before the condition is met fails the condition with that operand's exception, and the
operand's failure then counts as handled.** -/
theorem cond_fail_forward (s : KState ℚ σ) (c e : EvId) (x : Exc) (hu : s.triggered c = false)
    (he : (s.ev e).out = some (.fail x)) :
    condCheck s c e = ((s.bumpCount c).defuse e).trigger c (.fail x) := by
  unfold condCheck
  simp only [hu, Bool.false_eq_true, if_false, he]

/-- **The value maps exactly the processed leaf operands, in operand order**: for a condition over plain
(non-condition) operands, `_populate_value` keeps precisely the operands that are processed, in the order given. -/
theorem cond_value_flat (s : KState ℚ σ) (c : EvId) (fuel : Nat)
    (hflat : ∀ e ∈ (condOps s c).2, isCond s e = false) :
    populate (fuel + 1) s c = (condOps s c).2.filter (fun e => s.processed e) := by
  unfold populate
  generalize (condOps s c).2 = ops at hflat
  induction ops with
  | nil => rfl
  | cons e rest ih =>
    have h1 := hflat e List.mem_cons_self
    have h2 := ih (fun e' he' => hflat e' (List.mem_cons_of_mem _ he'))
    simp only [List.flatMap_cons, h1, Bool.false_eq_true, if_false, List.filter_cons]
    rw [h2]
    cases s.processed e <;> simp

/-- nested conditions contribute their own processed leaves, in place -/
theorem cond_value_nested (s : KState ℚ σ) (c : EvId) (fuel : Nat) :
    populate (fuel + 1) s c = (condOps s c).2.flatMap fun e =>
      if isCond s e then populate fuel s e else if s.processed e then [e] else [] := by
  rfl

/-- **When the condition is processed its `_check` callbacks are removed from the operands** and, if it succeeded,
its value becomes the ConditionValue of the leaves processed by then. -/
theorem cond_build (s : KState ℚ σ) (c : EvId) :
    condBuild s c =
      (match ((removeChecks (c + 1) c s).ev c).out with
       | some (.ok _) => (removeChecks (c + 1) c s).setOut c (.ok (.cv (populate (c + 1) (removeChecks (c + 1) c s) c)))
       | _ => removeChecks (c + 1) c s) := by
  unfold condBuild; rfl

/-! non-vacuity -/
example : evaluate true 2 2 = true ∧ evaluate true 2 1 = false ∧ evaluate false 3 1 = true ∧ evaluate false 3 0 = false ∧
    evaluate false 0 0 = true := by decide

/-! =====================================================================================================================
## Global theorems: every program, every state reachable by `step`  (`Lemmas/Cond*.lean`)

Reachability and domain are those of the "exactly once" engine (`KReach`, `Once.Inv0`, `Once.SafeRun`, DESIGN §8.2), plus
`Cond.DomRun`: no executed `succeed()/fail()` targets a *pending condition* event (a program that triggers a condition by
hand is outside the statement, DESIGN §3), and the operand list handed to `Condition(...)` names existing events (in
Python one cannot hold an event that does not exist yet; in the model ids can be guessed).  Both together are
`Cond.SafeRun`; it is decidable per run (`Cond.SafeUpTo`), automatic for programs whose text satisfies `Cond.DomProg`,
and `Cond.hand_unsafe` shows a program outside it.  `Cond.Inv0` (the counting invariant between steps) holds in the empty
environment and is kept by every API call made from outside (`Cond.Inv0.init`, `Cond.Inv0.outside`, `…until_event`,
`…until_time`).

`Cond.Gone rem s c` ("detached"): `c` lies under a condition whose `_build_value` has run — `_remove_check_callbacks`
has then removed the `_check`s of `c` from its operands, so `c` can never trigger again (as in the library).
===================================================================================================================== -/

section Global
variable (body : σ → Resume → Burst ℚ σ) (fuel : Nat)

/-- **1. The counting invariant** (between two steps): for every pending, attached condition `c` over `ops`,
`_count` is the number of operand positions whose event is processed, no processed operand has failed, the predicate
is false on `_count`, `_check` of `c` sits in the callbacks of every unprocessed event exactly once per position at
which that event occurs in `ops` (so not at all outside `ops`), and the operands are older than `c`. -/
theorem cond_counting_invariant (s0 s : KState ℚ σ) (h0 : Once.Inv0 false s0) (c0 : Cond.Inv0 s0)
    (hsafe : Cond.SafeRun body fuel s0) (hr : KReach body fuel s0 s) (c : EvId) (all : Bool) (ops : List EvId)
    (hk : (s.ev c).kind = .cond all ops) (hu : (s.ev c).out = none) (ha : ¬ Cond.Gone [] s c) :
    (s.ev c).count = ops.countP (fun e => s.processed e) ∧
    (∀ e ∈ ops, s.processed e = true → ∀ x, (s.ev e).out ≠ some (.fail x)) ∧
    evaluate all ops.length (s.ev c).count = false ∧
    (∀ e L, (s.ev e).cbs = some L → L.count (.check c) = ops.count e) ∧
    (∀ e ∈ ops, e < c) := by
  obtain ⟨_, hc, _⟩ := Cond.Inv0.reach body fuel h0 c0 hsafe hr
  obtain ⟨hops, hall, hcond⟩ := Cond.condOps_of_kind hk
  have h1 := hc.cnt c hcond hu ha
  have h2 := hc.nofail c hcond hu ha
  have h3 := hc.unmet c hcond hu
  have h4 := hc.chk_att c ha
  have h5 := hc.older c
  unfold Cond.nProcessed at h1
  rw [hops] at h1 h2 h3 h4 h5
  rw [hall] at h3
  refine ⟨by simpa using h1, ?_, h3, h4, h5⟩
  intro e he hp x hx
  have := (h2 e he hp x hx).2
  cases this

/-- **1, inside a step**: after any prefix `pre` of the callbacks of the event `q.ev` being processed (`post` still to
run), `_count` plus the `_check`s of `c` still to run is the number of processed operand positions; the only processed
operand that may have failed is `q.ev` itself, with a `_check` of `c` still pending; the predicate is false on `_count`;
the subscriptions are as between steps. -/
theorem cond_counting_invariant_midstep (s0 s : KState ℚ σ) (h0 : Once.Inv0 false s0) (c0 : Cond.Inv0 s0)
    (hsafe : Cond.SafeRun body fuel s0) (hr : KReach body fuel s0 s) (q : QEntry ℚ) (rest : List (QEntry ℚ))
    (hq : popMin s.agenda = some (q, rest)) (pre post : List Cb) (hL : (s.ev q.ev).cbs = some (pre ++ post))
    (c : EvId) (all : Bool) (ops : List EvId)
    (hk : ((pre.foldl (runCb body fuel q.ev) { s := openEvent s q rest }).s.ev c).kind = .cond all ops)
    (hu : ((pre.foldl (runCb body fuel q.ev) { s := openEvent s q rest }).s.ev c).out = none)
    (ha : ¬ Cond.Gone post (pre.foldl (runCb body fuel q.ev) { s := openEvent s q rest }).s c) :
    ((pre.foldl (runCb body fuel q.ev) { s := openEvent s q rest }).s.ev c).count + post.count (.check c) =
      ops.countP (fun e => (pre.foldl (runCb body fuel q.ev) { s := openEvent s q rest }).s.processed e) ∧
    (∀ e ∈ ops, (pre.foldl (runCb body fuel q.ev) { s := openEvent s q rest }).s.processed e = true →
      ∀ x, ((pre.foldl (runCb body fuel q.ev) { s := openEvent s q rest }).s.ev e).out = some (.fail x) →
        e = q.ev ∧ Cb.check c ∈ post) ∧
    evaluate all ops.length ((pre.foldl (runCb body fuel q.ev) { s := openEvent s q rest }).s.ev c).count = false ∧
    (∀ e L, ((pre.foldl (runCb body fuel q.ev) { s := openEvent s q rest }).s.ev e).cbs = some L →
      L.count (.check c) = ops.count e) := by
  obtain ⟨hi, hc, _⟩ := Cond.Inv0.reach body fuel h0 c0 hsafe hr
  have hs1 := hsafe.1 s hr
  have hd1 := hsafe.2 s hr
  unfold Once.SafeStep at hs1
  unfold Cond.DomStep at hd1
  rw [hq] at hs1 hd1
  simp only [hL] at hs1 hd1
  have h1 := Once.Inv.openEvent hi q rest hq _ hL
  have c1 : Cond.CInv (pre ++ post) q.ev (openEvent s q rest) := Cond.CInv.openEvent hc hi q rest _ hL
  obtain ⟨_, c2, _⟩ := Cond.CInv.foldCbs_prefix body fuel pre post
    { rem := pre ++ post, e0 := q.ev, run := none, lv := false, strict := false } { s := openEvent s q rest }
    rfl rfl rfl rfl h1 c1 hs1 hd1
  generalize (pre.foldl (runCb body fuel q.ev) { s := openEvent s q rest }).s = x at hk hu ha c2 ⊢
  obtain ⟨hops, hall, hcond⟩ := Cond.condOps_of_kind hk
  have k1 := c2.cnt c hcond hu ha
  have k2 := c2.nofail c hcond hu ha
  have k3 := c2.unmet c hcond hu
  have k4 := c2.chk_att c ha
  unfold Cond.nProcessed at k1
  rw [hops] at k1 k2 k3 k4
  rw [hall] at k3
  exact ⟨k1, k2, k3, k4⟩

/-- **2. A condition is triggered exactly when its predicate first holds** (between two steps).
*Never earlier*: a triggered condition has succeeded only if its predicate holds over the processed operands, and has
failed only if one of its processed operands failed — with exactly that exception, and that operand is defused.
*Never later*: while an attached condition is pending, the predicate is false over the processed operands and none of
them has failed.  (Inside a step the pending `_check`s have to be subtracted: `cond_counting_invariant_midstep`.) -/
theorem cond_triggers_exactly_when_first_met (s0 s : KState ℚ σ) (h0 : Once.Inv0 false s0) (c0 : Cond.Inv0 s0)
    (hsafe : Cond.SafeRun body fuel s0) (hr : KReach body fuel s0 s) (c : EvId) (all : Bool) (ops : List EvId)
    (hk : (s.ev c).kind = .cond all ops) :
    (∀ v, (s.ev c).out = some (.ok v) → evaluate all ops.length (ops.countP (fun e => s.processed e)) = true) ∧
    (∀ x, (s.ev c).out = some (.fail x) →
      ∃ e ∈ ops, s.processed e = true ∧ (s.ev e).out = some (.fail x) ∧ (s.ev e).defused = true) ∧
    ((s.ev c).out = none → ¬ Cond.Gone [] s c →
      evaluate all ops.length (ops.countP (fun e => s.processed e)) = false ∧
      ∀ e ∈ ops, s.processed e = true → ∀ x, (s.ev e).out ≠ some (.fail x)) := by
  obtain ⟨_, hc, _⟩ := Cond.Inv0.reach body fuel h0 c0 hsafe hr
  obtain ⟨hops, hall, hcond⟩ := Cond.condOps_of_kind hk
  refine ⟨?_, ?_, ?_⟩
  · intro v hv
    have := hc.met c v hcond hv
    unfold Cond.nProcessed at this
    rw [hops, hall] at this; exact this
  · intro x hx
    have := hc.failsrc c x hcond hx
    rw [hops] at this; exact this
  · intro hu ha
    obtain ⟨h1, h2, h3, _, _⟩ := cond_counting_invariant body fuel s0 s h0 c0 hsafe hr c all ops hk hu ha
    rw [h1] at h3
    exact ⟨h3, h2⟩

/-- **2, the constructor**: `Condition(all, ops)` over existing events returns with the new condition `c` triggered
exactly when its predicate already holds over the operands processed at construction (or one of them has failed: then
with that exception, the operand defused); otherwise `_count` is the number of processed operand positions, and every
unprocessed operand has got one `_check` of `c` appended per position, in operand order. -/
theorem cond_constructor_triggers_exactly_when_met (s : KState ℚ σ) (all : Bool) (ops : List EvId)
    (hex : ∀ e ∈ ops, e < s.events.size) :
    (((mkCond s all ops).1.ev s.events.size).out = none →
      ((mkCond s all ops).1.ev s.events.size).count = ops.countP (fun e => s.processed e) ∧
      (∀ e ∈ ops, s.processed e = true → ∀ z, (s.ev e).out ≠ some (.fail z)) ∧
      evaluate all ops.length (ops.countP (fun e => s.processed e)) = false) ∧
    (∀ v, ((mkCond s all ops).1.ev s.events.size).out = some (.ok v) →
      evaluate all ops.length (ops.countP (fun e => s.processed e)) = true) ∧
    (∀ z, ((mkCond s all ops).1.ev s.events.size).out = some (.fail z) →
      ∃ e ∈ ops, s.processed e = true ∧ (s.ev e).out = some (.fail z) ∧ ((mkCond s all ops).1.ev e).defused = true) ∧
    (∀ e, e ≠ s.events.size → ((mkCond s all ops).1.ev e).cbs =
      (s.ev e).cbs.map (· ++ List.replicate (ops.count e) (Cb.check s.events.size))) ∧
    (∀ e, e ≠ s.events.size → ((mkCond s all ops).1.ev e).out = (s.ev e).out) := by
  have h := Cond.mkCond_spec s all ops hex
  refine ⟨?_, h.c_ok, h.c_fail, h.cbs_old, h.out_old⟩
  intro hn
  obtain ⟨h1, h2, h3⟩ := h.c_pending hn
  rw [h1] at h3
  exact ⟨h1, h2, h3⟩

/-- **2, as a transition**: if a condition that exists, is pending and attached before a step is triggered after it,
then the event processed in that step is one of its operands — a condition is triggered only by the processing of an
operand (or inside its constructor, for operands already processed then: `Cond.mkCond_spec`). -/
theorem cond_triggers_in_step_of_operand (s0 s s' : KState ℚ σ) (h0 : Once.Inv0 false s0) (c0 : Cond.Inv0 s0)
    (hsafe : Cond.SafeRun body fuel s0) (hr : KReach body fuel s0 s) (hs : (step body fuel s).state? = some s')
    (c : EvId) (all : Bool) (ops : List EvId) (hk : (s.ev c).kind = .cond all ops) (hu : (s.ev c).out = none)
    (ha : ¬ Cond.Gone [] s c) (ht : (s'.ev c).out ≠ none) :
    ∃ q rest, popMin s.agenda = some (q, rest) ∧ q.ev ∈ ops := by
  obtain ⟨hi, hc, _⟩ := Cond.Inv0.reach body fuel h0 c0 hsafe hr
  have hr' : KReach body fuel s0 s' := KReach.step hr hs
  obtain ⟨_, hc', _⟩ := Cond.Inv0.reach body fuel h0 c0 hsafe hr'
  have hlater := Cond.later_of_reach body fuel h0 c0 hsafe hr (KReach.step KReach.init hs)
  obtain ⟨hops, hall, hcond⟩ := Cond.condOps_of_kind hk
  have hclt : c < s.events.size := Once.lt_of_isCond s c hcond
  have hk' : (s'.ev c).kind = .cond all ops := by rw [hlater.ev.kind c hclt]; exact hk
  obtain ⟨hops', hall', hcond'⟩ := Cond.condOps_of_kind hk'
  -- the shape of the step
  have hs' := hs
  unfold _root_.step at hs'
  split at hs'
  · cases hs'
  · rename_i q rest hq
    refine ⟨q, rest, hq, ?_⟩
    by_contra hnot
    have hL : ∃ L, (s.ev q.ev).cbs = some L := by
      cases h : (s.ev q.ev).cbs with
      | none => exact absurd h (hi.pop_unprocessed q rest hq)
      | some L => exact ⟨L, rfl⟩
    obtain ⟨L, hL⟩ := hL
    rw [hL] at hs'
    simp only at hs'
    rw [closeEvent_state] at hs'
    cases hs'
    -- the operands are processed after the step iff they were before
    have hun : Cond.Unproc (openEvent s q rest) (L.foldl (runCb body fuel q.ev) { s := openEvent s q rest }).s :=
      Cond.Unproc.krel.foldCbs body fuel q.ev L { s := openEvent s q rest }
    have hsame : ∀ e ∈ ops, (L.foldl (runCb body fuel q.ev) { s := openEvent s q rest }).s.processed e = s.processed e := by
      intro e he
      have hne : e ≠ q.ev := fun h => hnot (h ▸ he)
      have helt : e < s.events.size := hc.op_lt (by rw [hops]; exact he)
      apply Cond.processed_congr
      constructor
      · intro hn
        by_contra hcon
        refine hun e ?_ hn
        rw [Cond.ev_openEvent, if_neg (fun hh => hne hh.1)]; exact hcon
      · intro hn; exact hlater.ev.processed e helt hn
    generalize (L.foldl (runCb body fuel q.ev) { s := openEvent s q rest }).s = s' at ht hc' hlater hk' hops' hall' hcond' hsame
    have hcnt : ops.countP (fun e => s'.processed e) = ops.countP (fun e => s.processed e) :=
      List.countP_congr (fun e he => by rw [hsame e he])
    obtain ⟨_, _, hlate⟩ := cond_triggers_exactly_when_first_met body fuel s0 s h0 c0 hsafe hr c all ops hk
    obtain ⟨hfalse, hnofail⟩ := hlate hu ha
    cases ho : (s'.ev c).out with
    | none => exact ht ho
    | some o =>
      cases o with
      | ok v =>
        have := hc'.met c v hcond' ho
        unfold Cond.nProcessed at this
        rw [hops', hall', hcnt, hfalse] at this
        cases this
      | fail x =>
        obtain ⟨e, he, hp, hx, _⟩ := hc'.failsrc c x hcond' ho
        rw [hops'] at he
        rw [hsame e he] at hp
        have helt : e < s.events.size := hc.op_lt (by rw [hops]; exact he)
        have htrig := hi.c.done_trig e helt (Cond.processed_iff.mp hp)
        cases hoe : (s.ev e).out with
        | none => exact htrig hoe
        | some oe =>
          rcases hlater.out e oe hoe with h | ⟨_, h2, _⟩
          · rw [hx] at h; cases h
            exact hnofail e he hp x hoe
          · exact h2 (Cond.processed_iff.mp hp)

/-- **2, only once**: from the moment a condition is triggered its outcome never changes again along the run — except
that the step which processes a condition that has succeeded replaces its value by the `ConditionValue` — and `_count`
stays what it was: later operands, also failing ones, change nothing.  (That a triggered condition is scheduled exactly
once and processed exactly once is `C02.scheduled_at_most_once` / `processed_at_most_once`, which cover condition events.) -/
theorem cond_outcome_frozen (s0 s s' : KState ℚ σ) (h0 : Once.Inv0 false s0) (c0 : Cond.Inv0 s0)
    (hsafe : Cond.SafeRun body fuel s0) (hr : KReach body fuel s0 s) (hr2 : KReach body fuel s s') (c : EvId) (o : Outcome)
    (ho : (s.ev c).out = some o) :
    ((s'.ev c).out = some o ∨
      ((s.ev c).cbs ≠ none ∧ (s'.ev c).cbs = none ∧ ∃ v w, o = .ok v ∧ (s'.ev c).out = some (.ok w))) ∧
    (s'.ev c).count = (s.ev c).count := by
  have hl := Cond.later_of_reach body fuel h0 c0 hsafe hr hr2
  refine ⟨?_, hl.count c (by rw [ho]; simp)⟩
  rcases hl.out c o ho with h | ⟨_, h2, h3, h4⟩
  · exact Or.inl h
  · exact Or.inr ⟨h2, h3, h4⟩

/-- **2, inertness lifted to a step**: when an event that has failed is processed and all its callbacks are `_check`s of
conditions that are already triggered, the whole callback loop changes nothing — none of these conditions defuses the
failure — and `step()` raises the event's exception (C02 `failure_not_lost`). -/
theorem late_failure_not_defused (s : KState ℚ σ) (q : QEntry ℚ) (rest : List (QEntry ℚ)) (L : List Cb) (x : Exc)
    (hq : popMin s.agenda = some (q, rest)) (hL : (s.ev q.ev).cbs = some L)
    (hfail : (s.ev q.ev).out = some (.fail x)) (hnd : (s.ev q.ev).defused = false)
    (hchk : ∀ cb ∈ L, ∃ c, cb = .check c ∧ c ≠ q.ev ∧ s.triggered c = true) :
    step body fuel s = .crash x (openEvent s q rest) := by
  have hlt : q.ev < s.events.size := Once.lt_of_cbs_some s _ L hL
  have hopen : ∀ y, (openEvent s q rest).ev y = if y = q.ev then { s.ev q.ev with cbs := none } else s.ev y := by
    intro y; rw [Cond.ev_openEvent]
    by_cases h : y = q.ev
    · rw [if_pos ⟨h, hlt⟩, if_pos h]
    · rw [if_neg (fun hh => h hh.1), if_neg h]
  have hfold : ∀ (l : List Cb), (∀ cb ∈ l, ∃ c, cb = .check c ∧ c ≠ q.ev ∧ s.triggered c = true) →
      l.foldl (runCb body fuel q.ev) { s := openEvent s q rest } = { s := openEvent s q rest } := by
    intro l
    induction l with
    | nil => intro _; rfl
    | cons cb l ih =>
      intro h
      obtain ⟨c, hcb, hne, ht⟩ := h cb List.mem_cons_self
      have ht' : (openEvent s q rest).triggered c = true := by
        unfold KState.triggered at ht ⊢
        rw [hopen, if_neg hne]; exact ht
      simp only [List.foldl_cons]
      have : runCb body fuel q.ev { s := openEvent s q rest } cb = { s := openEvent s q rest } := by
        rw [hcb]
        simp only [runCb, cond_after_trigger_inert _ c q.ev ht']
      rw [this]
      exact ih (fun cb' h' => h cb' (List.mem_cons_of_mem _ h'))
  unfold _root_.step
  rw [hq]
  simp only [hL]
  rw [hfold L hchk]
  unfold closeEvent
  simp only
  rw [hopen, if_pos rfl]
  simp only [hfail, hnd, Bool.false_eq_true, if_false]

/-- **3. The value**: the step that processes a condition `c` (with operands) which has succeeded leaves
`ConditionValue(populate …)` in its `_value`, computed over the state before the step (`c` is not its own leaf), and
afterwards no `_check` of `c` **or of any condition nested below `c`** is left in any callback list: nothing of `c`
will ever be called again. -/
theorem cond_value_when_processed (s0 s s' : KState ℚ σ) (h0 : Once.Inv0 false s0) (c0 : Cond.Inv0 s0)
    (hsafe : Cond.SafeRun body fuel s0) (hr : KReach body fuel s0 s) (q : QEntry ℚ) (rest : List (QEntry ℚ))
    (hq : popMin s.agenda = some (q, rest)) (all : Bool) (ops : List EvId) (hk : (s.ev q.ev).kind = .cond all ops)
    (hs : (step body fuel s).state? = some s') :
    (∀ v, ops ≠ [] → (s.ev q.ev).out = some (.ok v) →
      (s'.ev q.ev).out = some (.ok (.cv (populate (q.ev + 1) s q.ev)))) ∧
    (∀ x, (s.ev q.ev).out = some (.fail x) → (s'.ev q.ev).out = some (.fail x)) ∧
    (∀ d, Cond.Under s d q.ev → ∀ e L, (s'.ev e).cbs = some L → Cb.check d ∉ L) := by
  obtain ⟨hi, hc, _⟩ := Cond.Inv0.reach body fuel h0 c0 hsafe hr
  obtain ⟨_, hc', _⟩ := Cond.Inv0.reach body fuel h0 c0 hsafe (KReach.step hr hs)
  have hlater := Cond.later_of_reach body fuel h0 c0 hsafe hr (KReach.step KReach.init hs)
  obtain ⟨hops, hall, hcond⟩ := Cond.condOps_of_kind hk
  have hlt : q.ev < s.events.size := Once.lt_of_isCond s _ hcond
  refine ⟨?_, ?_, ?_⟩
  · intro v hne hok
    exact Cond.step_builds_value body fuel hi hc (hsafe.1 s hr) (hsafe.2 s hr) q rest hq (by rw [hops]; exact hne) v hok hs
  · intro x hx
    rcases hlater.out q.ev _ hx with h | ⟨_, _, _, v, w, hv, _⟩
    · exact h
    · cases hv
  · intro d hd
    have hproc := (Once.step_processes body fuel s s' q rest hq hlt hs).1
    have hb : Cond.Built [] s' q.ev :=
      ⟨by rw [Once.isCond_congr (hlater.ev.kind q.ev hlt)]; exact hcond, hproc, by simp⟩
    exact hc'.chk_gone d ⟨q.ev, Cond.Under.evMono hlater.ev hd, hb⟩

/-- **3, what the value contains**: `populate` is the flattening recursion over the operand list — a nested condition
contributes its own processed leaves in place, a plain operand contributes itself if it is processed — and its members
are exactly the processed leaves below `c` (events that are not conditions, nested at any depth). -/
theorem cond_value_is_processed_leaves (s0 s : KState ℚ σ) (h0 : Once.Inv0 false s0) (c0 : Cond.Inv0 s0)
    (hsafe : Cond.SafeRun body fuel s0) (hr : KReach body fuel s0 s) (c : EvId) :
    populate (c + 1) s c = ((condOps s c).2.flatMap fun e =>
      if isCond s e then populate (e + 1) s e else if s.processed e then [e] else []) ∧
    (∀ x, x ∈ populate (c + 1) s c ↔ (Cond.Leaf s x c ∧ s.processed x = true)) ∧
    (∀ fuel', c < fuel' → populate fuel' s c = populate (c + 1) s c) := by
  obtain ⟨_, hc, _⟩ := Cond.Inv0.reach body fuel h0 c0 hsafe hr
  exact ⟨Cond.populate_spec s hc.older c, Cond.mem_populate s hc.older c, fun f hf => Cond.populate_fuel s hc.older f c hf⟩

/-- **3/4. Detached for good**: in every reachable state, nothing of a detached event is subscribed anywhere; a detached
condition that is still pending stays pending in every later state of the run; and detached stays detached. -/
theorem detached_never_triggers (s0 s s' : KState ℚ σ) (h0 : Once.Inv0 false s0) (c0 : Cond.Inv0 s0)
    (hsafe : Cond.SafeRun body fuel s0) (hr : KReach body fuel s0 s) (hr2 : KReach body fuel s s') (d : EvId)
    (hg : Cond.Gone [] s d) :
    (∀ e L, (s.ev e).cbs = some L → Cb.check d ∉ L) ∧ Cond.Gone [] s' d ∧
    (isCond s d = true → (s.ev d).out = none → (s'.ev d).out = none) := by
  obtain ⟨_, hc, _⟩ := Cond.Inv0.reach body fuel h0 c0 hsafe hr
  have hl := Cond.later_of_reach body fuel h0 c0 hsafe hr hr2
  exact ⟨hc.chk_gone d hg, hl.gone d hg, fun h1 h2 => hl.frozen d h1 h2 hg⟩

/-- **4. Nesting, depth 2**: for `outer = Condition(allO, [inner, x])` with `inner = Condition(allI, [a, b])` over plain
events, in every reachable state
* the inner and the outer condition each obey clause 2 with `inner` counted like any other operand of `outer`
  (`inner` is an operand "processed" exactly when the inner condition event has been processed);
* the value the outer condition gets is `[a | a processed] ++ [b | b processed] ++ [x | x processed]`, whether or not
  the inner condition has been triggered;
* once the outer condition has been processed, no `_check` of the outer **or of the inner** condition is subscribed
  anywhere (the inner one is detached), and an inner condition that is still pending then stays pending for ever. -/
theorem nested_depth2 (s0 s : KState ℚ σ) (h0 : Once.Inv0 false s0) (c0 : Cond.Inv0 s0)
    (hsafe : Cond.SafeRun body fuel s0) (hr : KReach body fuel s0 s) (outer inner a b x : EvId) (allO allI : Bool)
    (hko : (s.ev outer).kind = .cond allO [inner, x]) (hki : (s.ev inner).kind = .cond allI [a, b])
    (ha : isCond s a = false) (hb : isCond s b = false) (hx : isCond s x = false) :
    -- triggering, inner
    ((s.ev inner).out = none → ¬ Cond.Gone [] s inner →
      evaluate allI 2 ([a, b].countP (fun e => s.processed e)) = false ∧
      ∀ e ∈ [a, b], s.processed e = true → ∀ z, (s.ev e).out ≠ some (.fail z)) ∧
    (∀ v, (s.ev inner).out = some (.ok v) → evaluate allI 2 ([a, b].countP (fun e => s.processed e)) = true) ∧
    -- triggering, outer
    ((s.ev outer).out = none → ¬ Cond.Gone [] s outer →
      evaluate allO 2 ([inner, x].countP (fun e => s.processed e)) = false ∧
      ∀ e ∈ [inner, x], s.processed e = true → ∀ z, (s.ev e).out ≠ some (.fail z)) ∧
    (∀ v, (s.ev outer).out = some (.ok v) → evaluate allO 2 ([inner, x].countP (fun e => s.processed e)) = true) ∧
    (∀ z, (s.ev outer).out = some (.fail z) →
      ∃ e ∈ [inner, x], s.processed e = true ∧ (s.ev e).out = some (.fail z) ∧ (s.ev e).defused = true) ∧
    -- value
    populate (outer + 1) s outer =
      (if s.processed a then [a] else []) ++ (if s.processed b then [b] else []) ++ (if s.processed x then [x] else []) ∧
    -- the outer condition processed: the inner one is detached
    ((s.ev outer).cbs = none →
      (∀ e L, (s.ev e).cbs = some L → Cb.check outer ∉ L ∧ Cb.check inner ∉ L) ∧
      ((s.ev inner).out = none → ∀ s', KReach body fuel s s' → (s'.ev inner).out = none)) := by
  obtain ⟨_, hc, _⟩ := Cond.Inv0.reach body fuel h0 c0 hsafe hr
  obtain ⟨hopsO, _, hcondO⟩ := Cond.condOps_of_kind hko
  obtain ⟨hopsI, _, hcondI⟩ := Cond.condOps_of_kind hki
  obtain ⟨i1, i2, i3⟩ := cond_triggers_exactly_when_first_met body fuel s0 s h0 c0 hsafe hr inner allI [a, b] hki
  obtain ⟨o1, o2, o3⟩ := cond_triggers_exactly_when_first_met body fuel s0 s h0 c0 hsafe hr outer allO [inner, x] hko
  refine ⟨i3, i1, o3, o1, o2, ?_, ?_⟩
  · -- the value: flatten twice
    have hO := Cond.populate_spec s hc.older outer
    have hI := Cond.populate_spec s hc.older inner
    unfold Cond.ops at hopsO hopsI
    rw [hO]
    show (condOps s outer).2.flatMap _ = _
    rw [hopsO]
    simp only [List.flatMap_cons, List.flatMap_nil, hcondI, hx, if_true, Bool.false_eq_true, if_false, List.append_nil]
    rw [hI]
    show (condOps s inner).2.flatMap _ ++ _ = _
    rw [hopsI]
    simp only [List.flatMap_cons, List.flatMap_nil, ha, hb, Bool.false_eq_true, if_false, List.append_nil]
  · intro hproc
    have hbuilt : Cond.Built [] s outer := ⟨hcondO, hproc, by simp⟩
    have hgO : Cond.Gone [] s outer := ⟨outer, Cond.Under.self _, hbuilt⟩
    have hgI : Cond.Gone [] s inner :=
      ⟨outer, Cond.Under.nest (by rw [hopsO]; simp) (Cond.Under.self _), hbuilt⟩
    refine ⟨fun e L hL => ⟨hc.chk_gone outer hgO e L hL, hc.chk_gone inner hgI e L hL⟩, ?_⟩
    intro hu s' hr2
    exact (detached_never_triggers body fuel s0 s s' h0 c0 hsafe hr hr2 inner hgI).2.2 hcondI hu

end Global

/-! ### non-vacuity: concrete programs, evaluated by the Lean kernel (`Lemmas/CondExamples.lean`)

Event ids: `0` main process, `1` its `Initialize`, then the events in creation order. -/

/-- the hypotheses of the global theorems hold for the five example runs (each run ends; every step is in the domain) -/
example : Once.Inv0 false Cond.start ∧ Cond.Inv0 Cond.start ∧ Cond.SafeRun Cond.allBody 5 Cond.start ∧
    Cond.SafeRun Cond.anyBody 5 Cond.start ∧ Cond.SafeRun Cond.failBody 5 Cond.start ∧
    Cond.SafeRun Cond.lateBody 5 Cond.start ∧ Cond.SafeRun Cond.nestBody 5 Cond.start ∧
    Cond.SafeRun Cond.nest2Body 5 Cond.start :=
  ⟨Cond.start_once, Cond.start_cond, Cond.all_safe, Cond.any_safe, Cond.fail_safe, Cond.late_safe, Cond.nest_safe,
    Cond.nest2_safe⟩

/-- …and a program that triggers its condition by hand is outside the domain -/
example : ¬ Cond.DomStep Cond.handBody 5 Cond.start := Cond.hand_unsafe

/-- outside the domain the statement is false, in the model as in the library: `handBody` calls `succeed()` on its pending
`all_of([2])` (condition `3`); after that step the condition is triggered although its operand is not processed -/
example : Cond.outIs (Cond.nth Cond.handBody Cond.start 1) 3 (some (.ok .none)) = true ∧
    (Cond.nth Cond.handBody Cond.start 1).processed 2 = false ∧ evaluate true 1 0 = false := by decide +kernel

/-- **`all_of` over two timeouts due at the same instant** (`2 & 3`, condition `4`): after the first timeout the condition
is pending with `_count = 1` and its `_check` is still subscribed to the second; it is triggered in exactly the step that
processes the second timeout (`_count = 2`); when it is processed its value holds both, in operand order, and no `_check`
is left. -/
example :
    Cond.outIs (Cond.nth Cond.allBody Cond.start 2) 4 none = true ∧ ((Cond.nth Cond.allBody Cond.start 2).ev 4).count = 1 ∧
    ((Cond.nth Cond.allBody Cond.start 2).ev 3).cbs = some [.check 4] ∧
    Cond.outIs (Cond.nth Cond.allBody Cond.start 3) 4 (some (.ok .none)) = true ∧
    ((Cond.nth Cond.allBody Cond.start 3).ev 4).count = 2 ∧
    Cond.outIs (Cond.nth Cond.allBody Cond.start 4) 4 (some (.ok (.cv [2, 3]))) = true ∧
    Cond.hasCheck (Cond.nth Cond.allBody Cond.start 4) 4 = false := by decide +kernel

/-- the counting invariant, instantiated on that run: the state after two steps is reachable, the condition is pending
and attached, so the theorem applies (and says `_count = 1`) -/
example : ((Cond.nth Cond.allBody Cond.start 2).ev 4).count =
    [2, 3].countP (fun e => (Cond.nth Cond.allBody Cond.start 2).processed e) :=
  (cond_counting_invariant Cond.allBody 5 Cond.start _ Cond.start_once Cond.start_cond Cond.all_safe
    (Cond.reach_nth Cond.allBody 2 (by decide +kernel)) 4 true [2, 3] (by decide +kernel) (by decide +kernel)
    (Cond.not_gone_of_no_built 4 (by decide +kernel))).1

/-- **`any_of` with an operand that is already processed** (`2 | 3`, `2` processed, condition `4`): triggered inside the
constructor (`_count = 1`, in the very step that creates it), the unprocessed timeout `3` still carries the `_check`;
when the condition is processed its value holds exactly the processed operand `2`, and the `_check` is removed from `3`. -/
example :
    Cond.outIs (Cond.nth Cond.anyBody Cond.start 1) 4 none = true ∧
    Cond.outIs (Cond.nth Cond.anyBody Cond.start 2) 4 (some (.ok .none)) = true ∧
    ((Cond.nth Cond.anyBody Cond.start 2).ev 4).count = 1 ∧
    ((Cond.nth Cond.anyBody Cond.start 2).ev 3).cbs = some [.check 4] ∧
    Cond.outIs (Cond.nth Cond.anyBody Cond.start 3) 4 (some (.ok (.cv [2]))) = true ∧
    ((Cond.nth Cond.anyBody Cond.start 3).ev 3).cbs = some [] := by decide +kernel

/-- **an operand fails before the condition is met** (`2 & 3`, `2` fails at time 1): in the step that processes `2` the
condition fails with exactly that exception and `2` is defused (so `step()` does not raise); the outcome stays. -/
example :
    Cond.outIs (Cond.nth Cond.failBody Cond.start 3) 4 none = true ∧
    Cond.outIs (Cond.nth Cond.failBody Cond.start 4) 4 (some (.fail ⟨"KeyError", [.int 3]⟩)) = true ∧
    ((Cond.nth Cond.failBody Cond.start 4).ev 2).defused = true ∧
    Cond.outIs (Cond.nth Cond.failBody Cond.start 6) 4 (some (.fail ⟨"KeyError", [.int 3]⟩)) = true ∧
    Cond.hasCheck (Cond.nth Cond.failBody Cond.start 6) 4 = false := by decide +kernel

/-- **an operand fails after the condition was met** (`2 | 3`; `2` succeeds, `3` fails, both before the condition is
processed): the condition, triggered by `2`, does not change (`_count` stays 1) and does **not** defuse `3` — the step
that processes `3` raises its exception, as `late_failure_not_defused` says (its hypotheses hold in that state). -/
example :
    Cond.outIs (Cond.nth Cond.lateBody Cond.start 2) 4 (some (.ok .none)) = true ∧
    ((Cond.nth Cond.lateBody Cond.start 2).ev 3).cbs = some [.check 4] ∧
    (Cond.nth Cond.lateBody Cond.start 2).triggered 4 = true ∧
    (match step Cond.lateBody 5 (Cond.nth Cond.lateBody Cond.start 2) with
      | .crash x _ => x.ty == "KeyError" && x.args == [.int 4]
      | _ => false) = true ∧
    Cond.outIs (Cond.nth Cond.lateBody Cond.start 3) 4 (some (.ok .none)) = true ∧
    ((Cond.nth Cond.lateBody Cond.start 3).ev 4).count = 1 ∧
    ((Cond.nth Cond.lateBody Cond.start 3).ev 3).defused = false := by decide +kernel

/-- **nested, the outer condition fires first**: `outer = (2 & 3) | 4` with `inner = 5`, `outer = 6`, timeouts at 1, 3, 2.
At time 2 the outer `any_of` is triggered by `4` while the inner `all_of` is pending with `_count = 1`; when the outer one
is processed its value is `[2, 4]` — the processed leaf of the *untriggered* inner condition included — and the `_check`s
of the outer **and of the inner** condition are gone; the inner condition is still pending when the run ends. -/
example :
    Cond.outIs (Cond.nth Cond.nestBody Cond.start 3) 6 (some (.ok .none)) = true ∧
    Cond.outIs (Cond.nth Cond.nestBody Cond.start 3) 5 none = true ∧
    ((Cond.nth Cond.nestBody Cond.start 3).ev 5).count = 1 ∧
    Cond.outIs (Cond.nth Cond.nestBody Cond.start 4) 6 (some (.ok (.cv [2, 4]))) = true ∧
    Cond.hasCheck (Cond.nth Cond.nestBody Cond.start 4) 6 = false ∧
    Cond.hasCheck (Cond.nth Cond.nestBody Cond.start 4) 5 = false ∧
    Cond.outIs (Cond.nth Cond.nestBody Cond.start 6) 5 none = true := by decide +kernel

/-- **nested, the inner condition fires first**: `outer = (2 | 3) & 4` (timeouts at 1, 4, 2): the inner `any_of` is triggered
at time 1 and processed with value `[2]`; its processing is what the outer `all_of` counts (`_count = 1`); the outer one
is triggered in the step that processes `4` and gets the value `[2, 4]`. -/
example :
    Cond.outIs (Cond.nth Cond.nest2Body Cond.start 2) 5 (some (.ok .none)) = true ∧
    Cond.outIs (Cond.nth Cond.nest2Body Cond.start 3) 5 (some (.ok (.cv [2]))) = true ∧
    ((Cond.nth Cond.nest2Body Cond.start 3).ev 6).count = 1 ∧
    Cond.outIs (Cond.nth Cond.nest2Body Cond.start 3) 6 none = true ∧
    Cond.outIs (Cond.nth Cond.nest2Body Cond.start 4) 6 (some (.ok .none)) = true ∧
    Cond.outIs (Cond.nth Cond.nest2Body Cond.start 5) 6 (some (.ok (.cv [2, 4]))) = true := by decide +kernel

/-- `nested_depth2` instantiated on the first nested run, after the outer condition has been processed -/
example : populate 7 (Cond.nth Cond.nestBody Cond.start 4) 6 = [2, 4] ∧
    ∀ s', KReach Cond.nestBody 5 (Cond.nth Cond.nestBody Cond.start 4) s' → (s'.ev 5).out = none := by
  have h := nested_depth2 Cond.nestBody 5 Cond.start _ Cond.start_once Cond.start_cond Cond.nest_safe
    (Cond.reach_nth Cond.nestBody 4 (by decide +kernel)) 6 5 2 3 4 false true (by decide +kernel) (by decide +kernel)
    (by decide +kernel) (by decide +kernel) (by decide +kernel)
  obtain ⟨_, _, _, _, _, hval, hdet⟩ := h
  refine ⟨?_, (hdet (by decide +kernel)).2 (by decide +kernel)⟩
  rw [hval]
  decide +kernel

/-! ===================================== end of the global block ===================================== -/

end C05
