import Mathlib.Data.List.Perm.Basic
import Mathlib.Tactic.Ring
import Mathlib.Algebra.BigOperators.Group.List.Basic
import OnlVerif.Lemmas.Port
import OnlVerif.Net.GenSink
import OnlVerif.Lemmas.NetworkNodes
import OnlVerif.Lemmas.NetworkOrder
import OnlVerif.Lemmas.NetworkDrain
/-!
# C08 — packets are never lost, duplicated or invented between source and sink

* every FifoServer device (Port here; Wire, TokenBucket, TwoRateTokenBucket instantiate the same generic theorem in
  `Props/C10.lean`, `Props/C11.lean`; the schedulers in `Props/C12.lean`; demultiplexers and switches in `Props/C18.lean`):
  for **every** admissible action sequence, accepted = forwarded ++ lost ++ held *as lists of packet ids* — so nothing
  is lost, duplicated or invented, and order is kept — and at quiescence nothing is held;
* conservation is closed under wiring elements in series;
* the generator and sink laws.
-/

namespace C08
open Fifo

/-- **Element conservation (generic)**: for every id-preserving FifoServer device and every admissible action
sequence from its initial state, the accepted packets are exactly — in order, each once — those that left (forwarded
or discarded by the device's rule) followed by those still held. -/
theorem element_conserves {δ : Type} (d : Dev ℚ δ) (hd : IdPreserving d) (dev0 : δ) (t0 : ℚ) (as : List (FAct ℚ))
    (s : FState ℚ δ) (ins outs : List Nat) (h : runActs d (Fifo.init dev0 t0) as = .ok (s, ins, outs)) :
    ins = outs ++ held s := by
  have := (run_conserves d hd as (Fifo.init dev0 t0) s ins outs (init_shape _ _) h).1
  simpa [init_held] using this

/-- **Drain (generic)**: once the device is quiescent (clock free to advance, no timeout outstanding) nothing is
held: every accepted packet has left, exactly once, in arrival order. -/
theorem element_drains {δ : Type} (d : Dev ℚ δ) (hd : IdPreserving d) (dev0 : δ) (t0 : ℚ) (as : List (FAct ℚ))
    (s : FState ℚ δ) (ins outs : List Nat) (h : runActs d (Fifo.init dev0 t0) as = .ok (s, ins, outs))
    (hq : Quiescent s) : ins = outs := by
  have hc := run_conserves d hd as (Fifo.init dev0 t0) s ins outs (init_shape _ _) h
  have := quiescent_held_empty s hc.2 hq
  have h2 := element_conserves d hd dev0 t0 as s ins outs h
  rw [this] at h2; simpa using h2

/-- **Packets of one flow leave in the order they entered**: the departures are a prefix of the arrivals, hence so is
every sub-sequence selected by a predicate on packets (a flow, a source, …). -/
theorem flow_order {δ : Type} (d : Dev ℚ δ) (hd : IdPreserving d) (dev0 : δ) (t0 : ℚ) (as : List (FAct ℚ))
    (s : FState ℚ δ) (ins outs : List Nat) (h : runActs d (Fifo.init dev0 t0) as = .ok (s, ins, outs))
    (sel : Nat → Bool) : (outs.filter sel) <+: (ins.filter sel) := by
  rw [element_conserves d hd dev0 t0 as s ins outs h, List.filter_append]
  exact List.prefix_append _ _

/-- the Port is such a device -/
theorem port_conserves (c : PortCfg ℚ) (t0 : ℚ) (as : List (FAct ℚ)) (s : FState ℚ (PortSt ℚ)) (ins outs : List Nat)
    (h : runActs (Port.dev c) (Fifo.init { avg := 0 } t0) as = .ok (s, ins, outs)) : ins = outs ++ held s :=
  element_conserves (Port.dev c) (Port.idPreserving c) _ t0 as s ins outs h

/-- **Series composition**: if what A forwards is what B receives, and both elements conserve, so does the pipeline
A → B (as multisets: `~` is list permutation). -/
theorem series_conserves {α : Type} [DecidableEq α] (inA outA dropA heldA inB outB dropB heldB : List α)
    (hA : inA.Perm (outA ++ dropA ++ heldA)) (hB : inB.Perm (outB ++ dropB ++ heldB)) (hw : outA = inB) :
    inA.Perm (outB ++ (dropA ++ dropB) ++ (heldA ++ heldB)) := by
  subst hw
  rw [List.perm_iff_count] at *
  intro a
  have h1 := hA a
  have h2 := hB a
  simp only [List.count_append] at *
  omega

/-! ### generator law -/

/-- **DistPacketGenerator**: the k-th emitted packet has id k+1, is created at the start time plus the first k+1
inter-arrival draws, and has the (k+1)-th drawn size. -/
theorem generator_law (finish : Option ℚ) (now : ℚ) (n : Nat) (draws : List (ℚ × Nat)) (k : Nat)
    (hk : k < (Gen.emit finish now n draws).length) :
    ∃ hk' : k < draws.length,
      ((Gen.emit finish now n draws)[k]).id = n + k + 1 ∧
      ((Gen.emit finish now n draws)[k]).time = now + ((draws.take (k + 1)).map (·.1)).sum ∧
      ((Gen.emit finish now n draws)[k]).size = (draws[k]).2 := by
  induction draws generalizing now n k with
  | nil => simp [Gen.emit] at hk
  | cons d rest ih =>
    obtain ⟨gap, size⟩ := d
    unfold Gen.emit at hk ⊢
    by_cases hc : Gen.running finish now = true
    · simp only [hc, if_true] at hk ⊢
      cases k with
      | zero => exact ⟨by simp, by simp, by simp, by simp⟩
      | succ k =>
        simp only [List.length_cons, Nat.add_lt_add_iff_right] at hk
        obtain ⟨hk', h1, h2, h3⟩ := ih (now + gap) (n + 1) k hk
        refine ⟨by simp; omega, ?_, ?_, ?_⟩
        · simp only [List.getElem_cons_succ]; rw [h1]; omega
        · simp only [List.getElem_cons_succ]; rw [h2]
          simp only [List.take_succ_cons, List.map_cons, List.sum_cons]
          ring
        · simp only [List.getElem_cons_succ]; exact h3
    · simp [hc] at hk

/-- the generator stops as soon as the clock has reached `finish` when it is about to draw the next gap -/
theorem generator_stops (f now : ℚ) (n : Nat) (draws : List (ℚ × Nat)) (h : ¬ now < f) :
    Gen.emit (some f) now n draws = [] := by
  cases draws with
  | nil => rfl
  | cons d rest => obtain ⟨g, sz⟩ := d; simp [Gen.emit, Gen.running, h]

/-! ### sink law -/

/-- **PacketSink counts**: the per-key packet and byte counts are exactly those of the packets delivered under that key. -/
theorem sink_counts (c : Sink.Cfg) (k : Nat) (ds : List (Delivery ℚ)) :
    (Sink.record c k ds).count = (ds.filter (·.key == k)).length ∧
    (Sink.record c k ds).bytes = ((ds.filter (·.key == k)).map (·.size)).sum := by
  unfold Sink.record
  generalize ds.filter (·.key == k) = l
  suffices h : ∀ (r : SinkRec ℚ), (l.foldl (Sink.put1 c) r).count = r.count + l.length ∧
      (l.foldl (Sink.put1 c) r).bytes = r.bytes + (l.map (·.size)).sum by
    have := h { last := Num.zero }
    simpa using this
  induction l with
  | nil => intro r; simp
  | cons d l ih =>
    intro r
    have := ih (Sink.put1 c r d)
    simp only [List.foldl_cons, List.length_cons, List.map_cons, List.sum_cons]
    rw [this.1, this.2]
    have h1 : (Sink.put1 c r d).count = r.count + 1 := by unfold Sink.put1; split <;> split <;> rfl
    have h2 : (Sink.put1 c r d).bytes = r.bytes + d.size := by unfold Sink.put1; split <;> split <;> rfl
    rw [h1, h2]; constructor <;> omega

/-- **PacketSink waits and arrival times**: with `rec_waits` the recorded waits are `arrival − creation time` of the
delivered packets, in order; with absolute arrivals the recorded arrivals are their arrival instants. -/
theorem sink_waits_arrivals (k : Nat) (ds : List (Delivery ℚ)) :
    (Sink.record { recArrivals := true, absolute := true, recWaits := true } k ds).waits =
      (ds.filter (·.key == k)).map (fun d => d.now - d.ptime) ∧
    (Sink.record { recArrivals := true, absolute := true, recWaits := true } k ds).arrivals =
      (ds.filter (·.key == k)).map (·.now) := by
  unfold Sink.record
  generalize ds.filter (·.key == k) = l
  suffices h : ∀ (r : SinkRec ℚ),
      (l.foldl (Sink.put1 { recArrivals := true, absolute := true, recWaits := true }) r).waits =
        r.waits ++ l.map (fun d => d.now - d.ptime) ∧
      (l.foldl (Sink.put1 { recArrivals := true, absolute := true, recWaits := true }) r).arrivals =
        r.arrivals ++ l.map (·.now) by
    have := h { last := Num.zero }
    simpa using this
  induction l with
  | nil => intro r; simp
  | cons d l ih =>
    intro r
    have := ih (Sink.put1 { recArrivals := true, absolute := true, recWaits := true } r d)
    simp only [List.foldl_cons, List.map_cons]
    rw [this.1, this.2]
    simp [Sink.put1]

/-- with inter-arrival recording, each entry is the gap to the previous arrival under the same key (0.0 before the first) -/
theorem sink_interarrival (r : SinkRec ℚ) (d : Delivery ℚ) :
    (Sink.put1 { recArrivals := true, absolute := false, recWaits := true } r d).arrivals = r.arrivals ++ [d.now - r.last] ∧
    (Sink.put1 { recArrivals := true, absolute := false, recWaits := true } r d).last = d.now := by
  simp [Sink.put1]

/-! non-vacuity -/
example : (Gen.run (0 : ℚ) 1 (some 3) [(1, 100), (1, 200), (2, 50), (1, 70)]).map (fun p => (p.id, p.time, p.size)) =
    [(1, 2, 100), (2, 3, 200)] := by decide +kernel

end C08

/-!
# C08, composition — a whole network of elements

Model: `OnlVerif/Net/Network.lean`.  A network is an arbitrary wiring function `next : ι → π → Dest ι` over an arbitrary node
type `ι` (`Fin N` for every `N`; cycles, fan-in and fan-out included — the destination is a function of the packet, so
demultiplexers and switches are covered), splitter nodes that make fresh copies, sources that inject fresh packets.  Every node
carries the account all element LTSs carry (`inn`, `made`, `out`, `dropped`, `held`).  "For all networks, workloads and
schedules" = for every wiring `n` and every list of global steps `es` that `Net.run` accepts from the empty network — any
length, any interleaving.  Proofs: `Lemmas/NetworkCount.lean` (counting), `NetworkInv.lean` (the invariant and its preservation
by every legal global step), `NetworkThm.lean`.
-/

namespace C08
open Net

section Network
variable {ι π κ : Type} [DecidableEq ι] [DecidableEq π] [DecidableEq κ]

/-- **Every packet of a network is, at every instant, in exactly one place**: for every wiring (any node type, any `next`
function of the packet: chains, fan-in, fan-out, cycles; splitters) and every accepted sequence of global steps from the
empty network, every packet that was introduced — injected by a source, or made by a splitter as a copy — is in exactly
one *place* (held by one node, or dropped by one node — the `dropped` list records the rule with it —, or delivered to one
sink), exactly once there, both as a record and by its key (no second record with the same key is anywhere); nothing is
in any place, nor in any log of any node, that was not introduced (nothing invented); the keys of the introduced packets
are pairwise different; every copy is linked to an introduced original of which it is a copy and was made by a splitter
node; and every node's account balances: handed in + made = forwarded + dropped + held, as multisets. -/
theorem network_conserves (n : Wiring ι π κ) (es : List (GEv ι π)) (g : GState ι π) (h : Net.run n {} es = .ok g) :
    (∀ p ∈ g.introduced, ∃ s : Slot ι, s.isPlace = true ∧ (g.recs s).count p = 1 ∧
        ∀ s' : Slot ι, s'.isPlace = true → ((g.recs s').map n.key).count (n.key p) = if s' = s then 1 else 0) ∧
    (∀ (s : Slot ι) (q : π), q ∈ g.recs s → q ∈ g.introduced) ∧
    (g.introduced.map n.key).Nodup ∧
    (∀ cp ∈ g.copies, cp.1 ∈ g.introduced ∧ cp.2 ∈ g.introduced ∧ n.isCopy cp.2 cp.1 = true) ∧
    (∀ a q, q ∈ (g.acct a).made → n.splitter a = true ∧ ∃ o, (q, o) ∈ g.copies) ∧
    (∀ a, ((g.acct a).inn ++ (g.acct a).made).Perm
        ((g.acct a).out ++ (g.acct a).dropped.map (·.1) ++ (g.acct a).held)) := by
  have hi := run_inv n es {} g (ginv_init n) h
  refine ⟨fun p hp => hi.one_place p hp, hi.known, hi.keys, fun cp hcp => ?_, hi.made, hi.acct_perm⟩
  have := hi.link cp hcp
  refine ⟨?_, this.1, this.2⟩
  simp only [GState.introduced, List.mem_append, List.mem_map]
  exact Or.inr ⟨cp, hcp, rfl⟩

/-- **What is forwarded, delivered, dropped or held is the very same record that was injected**: whatever occurs in any
list of any node or sink — handed in, forwarded, dropped, held, delivered — is one of the introduced records, and it is
*the* introduced record with its key: every introduced record with the same key is equal to it in every field (for the
model's packet type `NPkt`: id, copy number, flow, source, size, creation time, payload).  (In the account network a node can
only forward a record it holds; for networks of element transition systems this is the assumption `IdPreserving` on local
steps, see `network_identity_lts`.) -/
theorem network_identity (n : Wiring ι π κ) (es : List (GEv ι π)) (g : GState ι π) (h : Net.run n {} es = .ok g)
    (s : Slot ι) (q : π) (hq : q ∈ g.recs s) :
    q ∈ g.introduced ∧ ∀ p ∈ g.introduced, n.key p = n.key q → p = q := by
  have hi := run_inv n es {} g (ginv_init n) h
  exact ⟨hi.known s q hq, fun p hp hk => hi.key_inj (hi.known s q hq) hp hk⟩

/-! ### networks of element transition systems (`Net.Node`, `Net.LStep`): every node runs its own LTS -/

/-- **A network of element transition systems is a network of accounts**: let every node be a transition system of its
own that satisfies the node interface (`NodeLaw`: an accepted packet is held afterwards, an emitted or discarded one is held
no longer, nothing else changes what is held) and is `IdPreserving` (what it emits or discards is a record it holds).  Then
every run of the network — any wiring, any interleaving of the nodes' local transitions, hand-overs synchronous — is an
accepted run of the account network (so `network_conserves` and `network_identity` hold of it), every node's invariant
holds, and the `held` list of its account is what the node holds locally. -/
theorem network_refines {σ : Type} (n : Wiring ι π κ) (nd : ι → Node π σ) (law : ∀ a, NodeLaw (nd a))
    (hid : ∀ a, IdPreserving (nd a)) (loc0 : ι → σ) (h0 : ∀ a, (nd a).Inv (loc0 a) ∧ (nd a).heldOf (loc0 a) = [])
    (L : LState ι π σ) (es : List (GEv ι π)) (h : LReach n nd loc0 L es) :
    Net.run n {} es = .ok L.g ∧
    ∀ a, (nd a).Inv (L.loc a) ∧ ((nd a).heldOf (L.loc a)).Perm (L.g.acct a).held :=
  lreach_run n nd law hid loc0 h0 L es h

/-- **The very same packet, in a network of element transition systems**: under the assumption `IdPreserving` on the local
steps (no node emits or discards anything but a record it holds), whatever any node holds locally, and whatever occurs in
any list of any node or sink, is an introduced record and the only introduced record with its key. -/
theorem network_identity_lts {σ : Type} (n : Wiring ι π κ) (nd : ι → Node π σ) (law : ∀ a, NodeLaw (nd a))
    (hid : ∀ a, IdPreserving (nd a)) (loc0 : ι → σ) (h0 : ∀ a, (nd a).Inv (loc0 a) ∧ (nd a).heldOf (loc0 a) = [])
    (L : LState ι π σ) (es : List (GEv ι π)) (h : LReach n nd loc0 L es) :
    (∀ a, ∀ q ∈ (nd a).heldOf (L.loc a), q ∈ L.g.introduced ∧ ∀ p ∈ L.g.introduced, n.key p = n.key q → p = q) ∧
    (∀ (s : Slot ι), ∀ q ∈ L.g.recs s, q ∈ L.g.introduced ∧ ∀ p ∈ L.g.introduced, n.key p = n.key q → p = q) := by
  obtain ⟨hr, hc⟩ := lreach_run n nd law hid loc0 h0 L es h
  refine ⟨fun a q hq => ?_, fun s q hq => network_identity n es L.g hr s q hq⟩
  exact network_identity n es L.g hr (.held a) q (((hc a).2.mem_iff).mp hq)

/-- **At quiescence nothing is held anywhere**: if every node of a network of element transition systems is quiescent
(its own skeleton's `Quiescent`, under which it holds nothing — `NodeLaw.drained`), then no node's account holds a
packet, and every introduced packet has either been delivered to exactly one sink or been dropped by exactly one node
(rule recorded), exactly once, and is nowhere else: introduced = delivered ⊎ dropped, network-wide. -/
theorem network_drains {σ : Type} (n : Wiring ι π κ) (nd : ι → Node π σ) (law : ∀ a, NodeLaw (nd a))
    (hid : ∀ a, IdPreserving (nd a)) (loc0 : ι → σ) (h0 : ∀ a, (nd a).Inv (loc0 a) ∧ (nd a).heldOf (loc0 a) = [])
    (L : LState ι π σ) (es : List (GEv ι π)) (h : LReach n nd loc0 L es) (hq : ∀ a, (nd a).Quiescent (L.loc a)) :
    (∀ a, (L.g.acct a).held = []) ∧
    (∀ p ∈ L.g.introduced, ∃ s : Slot ι, ((∃ k, s = .sink k) ∨ (∃ a, s = .dropped a)) ∧ (L.g.recs s).count p = 1 ∧
        ∀ s' : Slot ι, s'.isPlace = true → s' ≠ s → p ∉ L.g.recs s') := by
  obtain ⟨hr, hc⟩ := lreach_run n nd law hid loc0 h0 L es h
  have hi := run_inv n es {} L.g (ginv_init n) hr
  have hheld : ∀ a, (L.g.acct a).held = [] := by
    intro a
    have := (hc a).2
    rw [(law a).drained _ (hc a).1 (hq a)] at this
    exact this.nil_eq.symm
  refine ⟨hheld, fun p hp => ?_⟩
  obtain ⟨s, hs, h1, ho⟩ := (hi.exact p).1 hp
  refine ⟨s, ?_, h1, fun s' hs' hne hm => ?_⟩
  · cases s with
    | sink k => exact Or.inl ⟨k, rfl⟩
    | dropped a => exact Or.inr ⟨a, rfl⟩
    | held a =>
      have : L.g.rc (.held a) p = 0 := by simp [GState.rc, GState.recs, hheld a]
      omega
    | inn a => cases hs
    | made a => cases hs
    | out a => cases hs
  · have := ho s' hs' hne
    have := mem_of_rc_pos.mp hm
    omega

/-- **Network-wide drain as one multiset equation**: in a quiescent network of element transition systems, for every
duplicate-free list `nodes` that contains every node that dropped something (all nodes of a finite network, say), the introduced
packets are exactly — as a multiset, each once — the packets delivered to the sinks together with the packets dropped by
the nodes: introduced = delivered ⊎ dropped. -/
theorem network_drains_multiset {σ : Type} (n : Wiring ι π κ) (nd : ι → Node π σ) (law : ∀ a, NodeLaw (nd a))
    (hid : ∀ a, IdPreserving (nd a)) (loc0 : ι → σ) (h0 : ∀ a, (nd a).Inv (loc0 a) ∧ (nd a).heldOf (loc0 a) = [])
    (L : LState ι π σ) (es : List (GEv ι π)) (h : LReach n nd loc0 L es) (hq : ∀ a, (nd a).Quiescent (L.loc a))
    (nodes : List ι) (hn : nodes.Nodup) (hall : ∀ a, (L.g.acct a).dropped ≠ [] → a ∈ nodes) :
    L.g.introduced.Perm (L.g.delivered.map (·.2) ++ nodes.flatMap fun a => (L.g.acct a).dropped.map (·.1)) := by
  obtain ⟨hr, _⟩ := lreach_run n nd law hid loc0 h0 L es h
  have hi := run_inv n es {} L.g (ginv_init n) hr
  exact drained_perm n L.g hi (network_drains n nd law hid loc0 h0 L es h hq).1 nodes hn hall

/-- **Packets of one flow arrive at the end of a chain in the order they entered it**: let `sel` select packets (a flow, a
source, …) and let `a₀ → a₁ → … → aₙ` be a chain of nodes such that, for each link `aᵢ → aᵢ₊₁`, the wiring sends every selected
packet `aᵢ` forwards to `aᵢ₊₁` and no other node does (`Link`: linear chains, tree fan-out keyed by flow), no source injects
selected packets at `aᵢ₊₁`, and `aᵢ` is order-preserving on the selected packets (what it forwarded is, in order, among what
was handed to it — for every FifoServer this is `flow_order` above, for the schedulers per flow `C12.mq_flow_fifo`,
`C12.stamp_flow_fifo_wfq/_vc`).  Then in every reachable state the selected packets handed to `aₙ` are, in the same order, among
the selected packets handed to `a₀` — for every `n`, by induction along the chain; each link contributes the invariant
"handed to `aᵢ₊₁` = forwarded by `aᵢ`, as lists", proved over all runs. -/
theorem network_flow_order (n : Wiring ι π κ) (sel : π → Bool) (es : List (GEv ι π)) (g : GState ι π)
    (hr : Net.run n {} es = .ok g) (a0 : ι) (chain : List ι)
    (hc : ChainOK (fun a b => Link n sel a b ∧ NoInject es sel b ∧ OrderPreserving g sel a) a0 chain) :
    ((g.recs (.inn (lastOf a0 chain))).filter sel).Sublist ((g.recs (.inn a0)).filter sel) ∧
    ChainOK (fun a b => (g.recs (.inn b)).filter sel = (g.recs (.out a)).filter sel) a0 chain := by
  refine ⟨chain_order n sel es g hr chain a0 hc, ?_⟩
  induction chain generalizing a0 with
  | nil => trivial
  | cons b rest ih =>
    obtain ⟨⟨hl, hni, _⟩, hrest⟩ := hc
    exact ⟨link_inv n sel a0 b hl es hni {} g hr rfl, ih b hrest⟩

end Network

/-! ### the element skeletons are nodes -/

section Instances

/-- **Every FifoServer device is a node** (Port, Wire, TokenBucket, TwoRateTokenBucket — every `d` with `Fifo.IdPreserving d`):
with packets identified by their ids, invariant `Fifo.Shape`, held packets `Fifo.held` and quiescence `Fifo.Quiescent`, each
accepted action of the LTS is a local transition (`put` accepted / refused = `recv`, a departure = `emit`, a wire loss =
`discard`, everything else internal) satisfying the node interface and the id-preservation assumption.  From
`Fifo.step_conserves` (the step form of `Fifo.run_conserves`) and `Fifo.quiescent_held_empty`. -/
theorem fifo_node {δ : Type} (d : Dev ℚ δ) (hd : Fifo.IdPreserving d) :
    NodeLaw (fifoNode d) ∧ Net.IdPreserving (fifoNode d) ∧
    ∀ dev0 t0, (fifoNode d).Inv (Fifo.init dev0 t0) ∧ (fifoNode d).heldOf (Fifo.init dev0 t0) = [] :=
  ⟨fifoNode_law d hd, fifoNode_id d hd, fun dev0 t0 => ⟨Fifo.init_shape dev0 t0, Fifo.init_held dev0 t0⟩⟩

/-- **Every lawful multi-queue scheduler is a node** (SP, RR, WRR, DRR — `MQ.Lawful sc`, `C12.mq_instances_lawful`): over a
duplicate-free list `cs` of its classes that contains the class of every configured flow, with invariant `MQ.Inv`, held
packets = the per-class held lists of C12's "Per-class FIFO and conservation" (`MQ.heldC`) one after the other, quiescence =
the clock may advance and no transmission is in progress (the hypothesis of `C12.mq_every_packet_once`).  From `MQ.step_inv`
(the step form of `C12.mq_class_fifo`), summed over the classes.  Departures count for packets of configured flows. -/
theorem mq_node {κ : Type} (sc : MQ.Sched ℚ κ) (L : MQ.Lawful sc) (cs : List Nat) (hn : cs.Nodup)
    (hcs : ∀ f c, sc.classOf f = some c → c ∈ cs) :
    NodeLaw (mqNode sc cs) ∧ Net.IdPreserving (mqNode sc cs) ∧
    ∀ k0 t0 counts, (∀ e ∈ counts, e.2 = 0) →
      (mqNode sc cs).Inv (MQ.start k0 t0 counts) ∧ (mqNode sc cs).heldOf (MQ.start k0 t0 counts) = [] := by
  refine ⟨mqNode_law sc L cs hn hcs, mqNode_id sc L cs hcs, fun k0 t0 counts hz => ?_⟩
  have h0 := MQ.init_inv sc k0 t0 counts hz
  refine ⟨h0.1, ?_⟩
  show mqHeld sc cs (MQ.start k0 t0 counts) = []
  unfold mqHeld
  rw [List.flatMap_eq_nil_iff]
  intro c _
  exact h0.2 c

/-- **Every stamp scheduler is a node** (WFQ, VirtualClock): invariant `Stamp.GInv`, held packets `Stamp.held`, quiescence =
the clock may advance with nothing in transmission (the hypothesis of `C12.stamp_every_packet_once`).  From `Stamp.step_ginv`
(the step form of that theorem) and `Stamp.tick_idle_empty`. -/
theorem stamp_node {σ : Type} (d : Sched ℚ σ) :
    NodeLaw (stampNode d) ∧ Net.IdPreserving (stampNode d) ∧
    ∀ sch0 t0, (stampNode d).Inv (Stamp.init sch0 t0) ∧ (stampNode d).heldOf (Stamp.init sch0 t0) = [] := by
  refine ⟨stampNode_law d, stampNode_id d, fun sch0 t0 => ⟨Stamp.init_ginv sch0 t0, ?_⟩⟩
  simp [stampNode, Stamp.held, Stamp.inHand, Stamp.waiting, Stamp.init]

/-- **A demultiplexer is a node whose wiring function is its dispatch rule**: a dispatcher forwards synchronously, so as a
node it is the canonical account node (it holds a packet only between its `put` and its `out.put`; lawful and id-preserving),
and its `next` function is `FlowDemux.put` (`C18.flowdemux_rule`): a packet of flow `f` goes to output `f`, else to the default
output, else nowhere (a sink number of its own) — and what is handed on is the object that was put (same id, same copy
number). -/
theorem demux_node {ι : Type} (c : Route.FlowDemuxCfg) (dest : Route.Dev → Dest ι) (nowhere : Nat) (p : NPkt) :
    NodeLaw (acctNode NPkt) ∧ Net.IdPreserving (acctNode NPkt) ∧
    demuxNext c dest nowhere p = (match c.outs[p.flow]? with
      | some d => dest d
      | none => match c.default with
        | some d => dest d
        | none => .sink nowhere) ∧
    (∀ l, Route.FlowDemux.put c (toRoute p) = .ok l → ∀ x ∈ l, x.2 = ⟨p.id, p.copy⟩) := by
  refine ⟨acctNode_law NPkt, acctNode_id NPkt, ?_, ?_⟩
  · unfold demuxNext
    rw [flowDemux_put_eq]
    cases c.outs[p.flow]? with
    | some d => rfl
    | none => cases c.default <;> rfl
  · intro l hl x hx
    rw [flowDemux_put_eq] at hl
    cases ho : c.outs[p.flow]? with
    | some d => rw [ho] at hl; cases hl; simp at hx; rw [hx]
    | none =>
      rw [ho] at hl
      cases hd : c.default with
      | some d => rw [hd] at hl; cases hl; simp at hx; rw [hx]
      | none => rw [hd] at hl; cases hl; cases hx

/-- **A splitter is a node that makes fresh copies**: it is the canonical account node marked as a splitter; for a held
packet `p` and an unused copy number `k`, making the copy `{p with copy := k}` is a legal global step, after which original and
copy are forwarded like any held packet; and this is `Splitter.put` (`C18.splitter_rule`): the original object to the first
output, an object with the same id and the fresh copy number to the second. -/
theorem splitter_node {ι : Type} [DecidableEq ι] (next : ι → NPkt → Dest ι) (spl : ι → Bool) (g : GState ι NPkt) (a : ι)
    (p : NPkt) (k : Nat) (hs : spl a = true) (hp : p ∈ (g.acct a).held) (hk : k ≠ p.copy)
    (hfresh : (p.id, k) ∉ usedKeys (nwiring next spl) g) :
    NodeLaw (acctNode NPkt) ∧ Net.IdPreserving (acctNode NPkt) ∧
    Net.step (nwiring next spl) g (.copy a p { p with copy := k }) =
      .ok (Net.apply (nwiring next spl) g (.copy a p { p with copy := k })) ∧
    (∀ d1 d2, Route.Splitter.put { out1 := some d1, out2 := some d2 } (toRoute p) k =
      [(d1, ⟨p.id, p.copy⟩), (d2, ⟨p.id, k⟩)]) := by
  refine ⟨acctNode_law NPkt, acctNode_id NPkt, ?_, fun d1 d2 => rfl⟩
  have hc : NPkt.isCopyOf p { p with copy := k } = true := by
    simp [NPkt.isCopyOf, hk]
  simp only [Net.step, illegal, nwiring, hs, hp, not_true_eq_false, if_false, hc]
  have : ¬ ((p.id, k) ∈ usedKeys (nwiring next spl) g) := hfresh
  simp only [nwiring] at this
  simp [this]

end Instances

/-! ### a concrete network (non-vacuity): generator → port 0 → demux 1 → { wire 2 → sink 1, DRR 3 → sink 2 } -/

section Example

/-- flow 0 goes to the wire (node 2), flow 1 to the DRR scheduler (node 3); the demux (node 1) is a `FlowDemux` -/
def exNext : Nat → NPkt → Dest Nat
  | 0, _ => .node 1
  | 1, p => demuxNext { outs := [2, 3] } (fun d => .node d) 99 p
  | 2, _ => .sink 1
  | _, _ => .sink 2

def exPk (id flow : Nat) : NPkt := { id := id, flow := flow, src := 7, size := 100 * id, time := id, payload := 1000 + id }

/-- five packets; packet 3 is tail-dropped by the port (rule 1), packet 4 is lost on the wire (rule 2), packets 2 and 5 leave
the DRR scheduler in the other order than they entered the network, packet 1 is still held by the wire at the end -/
def exRun : List (GEv Nat NPkt) :=
  [.inject 0 (exPk 1 0) .acc, .inject 0 (exPk 2 1) .acc, .inject 0 (exPk 3 0) (.ref 1), .fwd 0 (exPk 1 0) .acc,
   .fwd 1 (exPk 1 0) .acc, .inject 0 (exPk 4 0) .acc, .tau 2, .fwd 0 (exPk 2 1) .acc, .fwd 1 (exPk 2 1) .acc,
   .inject 0 (exPk 5 1) .acc, .fwd 0 (exPk 4 0) .acc, .fwd 1 (exPk 4 0) .acc, .drop 2 (exPk 4 0) 2,
   .fwd 0 (exPk 5 1) .acc, .fwd 1 (exPk 5 1) .acc, .fwd 3 (exPk 5 1) .acc, .fwd 3 (exPk 2 1) .acc]

/-- (held ids, dropped (id, rule)) of nodes 0–3, and the deliveries (sink, id) -/
def exDigest (r : Except String (GState Nat NPkt)) : Option (List (List Nat × List (Nat × Nat)) × List (Nat × Nat)) :=
  match r with
  | .ok g => some ([0, 1, 2, 3].map (fun a => ((g.acct a).held.map (·.id), (g.acct a).dropped.map fun x => (x.1.id, x.2))),
      g.delivered.map fun x => (x.1, x.2.id))
  | .error _ => none

/-- the run is accepted (the hypothesis of `network_conserves` / `network_identity`); at its end packet 1 is held by the wire,
3 was dropped by the port, 4 by the wire, 5 and 2 are at sink 2 -/
example : exDigest (Net.run (nwiring exNext) {} exRun) =
    some ([([], [(3, 1)]), ([], []), ([1], [(4, 2)]), ([], [])], [(2, 5), (2, 2)]) := by decide +kernel

/-- a step that forwards a packet the node does not hold is refused -/
example : exDigest (Net.run (nwiring exNext) {} (exRun ++ [.fwd 3 (exPk 2 1) .acc])) = none := by decide +kernel

/-- a splitter in front: node 0 is a splitter, the original goes on, the copy (copy number 1) as well; a second copy with
the same copy number is refused -/
example : exDigest (Net.run (nwiring (fun a p => if a = 0 then (if p.copy = 0 then .node 2 else .node 3) else exNext a p)
      (fun a => a == 0)) {}
    [.inject 0 (exPk 1 0) .acc, .copy 0 (exPk 1 0) { exPk 1 0 with copy := 1 }, .fwd 0 (exPk 1 0) .acc,
     .fwd 0 { exPk 1 0 with copy := 1 } .acc, .fwd 3 { exPk 1 0 with copy := 1 } .acc]) =
    some ([([], []), ([], []), ([1], []), ([], [])], [(2, 1)]) ∧
  exDigest (Net.run (nwiring (fun a p => if a = 0 then (if p.copy = 0 then .node 2 else .node 3) else exNext a p)
      (fun a => a == 0)) {}
    [.inject 0 (exPk 1 0) .acc, .copy 0 (exPk 1 0) { exPk 1 0 with copy := 1 },
     .copy 0 (exPk 1 0) { exPk 1 0 with copy := 1 }]) = none := by decide +kernel

/-- the hypotheses of `mq_node` are met by a DRR scheduler with classes 7 and 8 -/
example : MQ.Lawful (DRR.sched ({ rate := 8000, weights := [(7, 1), (8, 1)], flowMap := some [(1, 7), (2, 7), (3, 8)] } : DRR.Cfg ℚ)) :=
  DRR.lawful _

/-- in the example network port 0 → demux 1 is a link for all packets, and demux 1 → DRR 3 is a link for flow 1 (the
hypotheses `Link` of `network_flow_order`); no packet is injected at nodes 1 and 3 -/
example : Link (nwiring exNext) (fun _ => true) 0 1 ∧ Link (nwiring exNext) (fun p => p.flow == 1) 1 3 ∧
    NoInject exRun (fun _ => true) 1 ∧ NoInject exRun (fun p => p.flow == 1) 3 := by
  have hd : ∀ p : NPkt, demuxNext { outs := [2, 3] } (fun d => (Dest.node d : Dest Nat)) 99 p =
      (match p.flow with | 0 => .node 2 | 1 => .node 3 | _ => .sink 99) := by
    intro p
    rw [(demux_node { outs := [2, 3] } (fun d => (Dest.node d : Dest Nat)) 99 p).2.2.1]
    rcases hf : p.flow with _ | _ | k <;> simp
  refine ⟨⟨fun p _ => rfl, ?_⟩, ⟨?_, ?_⟩, ?_, ?_⟩
  · intro c p _ h
    match c with
    | 0 => rfl
    | 1 =>
      simp only [nwiring, exNext, hd] at h
      rcases hf : p.flow with _ | _ | k <;> rw [hf] at h <;> simp at h
    | 2 => simp [nwiring, exNext] at h
    | k + 3 => simp [nwiring, exNext] at h
  · intro p hp
    have hf : p.flow = 1 := by simpa using hp
    simp only [nwiring, exNext, hd, hf]
  · intro c p hp h
    have hf : p.flow = 1 := by simpa using hp
    match c with
    | 0 => simp [nwiring, exNext] at h
    | 1 => rfl
    | 2 => simp [nwiring, exNext] at h
    | k + 3 => simp [nwiring, exNext] at h
  · intro p o hm; simp [exRun] at hm
  · intro p o hm; simp [exRun] at hm

end Example

end C08
