import OnlVerif.Lemmas.GenKernelCond
/-!
# KernelGen05 - conditions *as written in the source* are the kernel model `K` (C05)

One of the bridge modules into which `Props/KernelGen.lean` was split, one per owning property (`py2lean/SCOPE.md`): `py2lean/kernel.py`
regenerates the `Generated/Kernel*.lean` files named in the imports from `onl/sim` on every `./check` of the owning property, and the
theorems below (bridge theorems) prove that the generated definitions coincide with the functions of the hand-written kernel
model `K` (`Kernel/Agenda.lean`, `Ops.lean`, `Step.lean`) that the property theorems are about.  A flipped comparison, a changed
constant, priority or refusal, a lost or reordered effect in the source changes a generated definition and one of these proofs
no longer compiles - for every input, not for sampled ones.  Here: `evaluate`, `condCheck` (C05).

The encoding between the generated object views and the model state is explicit and hand-written
(`OnlVerif/Lemmas/GenKernelDefs.lean`: `resObj`, `runEff`, `buildEvent`, `applyTrig`, `toEntry`; the `run…` functions next to the
lemmas).  All statements hold for every scalar type `τ` (no arithmetic identity is used), in particular for `ℚ` and `Float`.
This module imports no generated file of another property.
-/

namespace KernelGen
open GenKernel
variable {τ σ : Type} [Num τ]

/-! ## conditions (C05) -/

/-- **`Condition.all_events` / `any_events` as written in the source are the model's `evaluate`**. -/
theorem evaluate_generated_eq_model (all : Bool) (n c : Nat) :
    evaluate all n c = Gen.Condition.evaluate all (n : Int) (c : Int) ∧
    evaluate true n c = Gen.Condition.all_events (n : Int) (c : Int) ∧
    evaluate false n c = Gen.Condition.any_events (n : Int) (c : Int) :=
  ⟨evaluate_eq all n c, evaluate_eq true n c, evaluate_eq false n c⟩

/-- **`Condition._check` as written in the source is the model's `condCheck`**: nothing once the condition is triggered;
otherwise count the operand, then either (operand failed) defuse it and fail with its exception, or (predicate holds for the
new count) succeed. -/
theorem cond_check_generated_eq_model (s : KState τ σ) (c e : EvId) :
    runCondCheck { c := c, e := e } s = some (condCheck s c e) :=
  cond_check_run s c e

/-! ## non-vacuity: the generated definitions on concrete objects -/

/-- `_check` of an untriggered all-of-two condition on its second successful operand succeeds; on a failed operand it
defuses and fails -/
example : (Gen.Condition.check (α := Rat) { count := 1, eff := [] } false true true 2).eff.length = 2 ∧
    (Gen.Condition.check (α := Rat) { count := 0, eff := [] } false false true 2).eff.length = 3 ∧
    (Gen.Condition.check (α := Rat) { count := 0, eff := [] } true true true 2).eff.length = 0 := by
  decide

end KernelGen
