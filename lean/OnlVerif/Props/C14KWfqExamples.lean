import OnlVerif.Net.WFQOnK
import Mathlib.Algebra.Order.Field.Rat
/-!
# C14 on the kernel, WFQ: concrete runs of the WFQ scheduler *as processes on the kernel model*

`OnlVerif/Net/WFQOnK.lean` writes `WFQ.put` (with `update_vtime` / `reset_vtime`), `Scheduler.send_packet` (a child process per
transmission, joined with `yield process`), `WFQ.run` (with its bookkeeping after each transmission) and a packet source as one
program of the kernel model `K` (`OnlVerif/Kernel`).  Nothing is assumed about scheduling: `Environment.step` of the kernel
model decides what runs when.  This file evaluates concrete runs by the kernel of Lean (exact rationals): what the program
observes, that the oracle of the property accepts it, and that every kernel step is an action sequence the StampServer LTS with
the WFQ record accepts between the abstractions of the two states (`refineCheck`).  No general theorem is proved here.
-/

namespace C14K
open WFQOnK

/-! ### concrete runs of the kernel model, evaluated by the kernel of Lean (exact arithmetic) -/

/-- classes 0 and 1 with weights 1 and 3 (the `weights` dict lists class 1 first), rate 8 (a packet of size 1 is transmitted in
one time unit; it adds 1 resp. 1/3 to the finish time of its class) -/
def wcfg : WfqCfg ℚ := { rate := 8, weights := [(1, 3), (0, 1)], flow2class := [(0, 0), (1, 1)] }
/-- packet `i` belongs to flow `fl[i]` -/
def flowOfW (fl : List Nat) : Int → Nat := fun i => fl.getD i.toNat 0
def unitW : Int → Nat := fun _ => 1

/-- the final state of `run()` within `n` steps (stamps and instants live on the grid `ℤ/12`) -/
def finalWfq (fl : List Nat) (n : Nat) (arr : List (ℚ × Int)) : Option (KState ℚ (WfqKSt ℚ)) :=
  finalState (runAll (prog 2 (flowOfW fl) unitW wcfg arr.length 12) 1 n (initState 2 arr))

/-- what a finished run shows: entries left in the agenda, the stamps, whether the oracle of the property accepts the history
and ends drained -/
def runWfq (fl : List Nat) (n : Nat) (arr : List (ℚ × Int)) : Option (Nat × List ℚ × Bool) :=
  (finalWfq fl n arr).map fun s =>
    (s.agenda.length, stampsOf s.trace, ((orun 2 (flowOfW fl) unitW wcfg oInit (histOf s.trace)).map drained).getD false)

/-- … the service starts and the departures -/
def runWfqT (fl : List Nat) (n : Nat) (arr : List (ℚ × Int)) : Option (List (Int × ℚ) × List (Int × ℚ)) :=
  (finalWfq fl n arr).map fun s => (servesOf s.trace, outsOf s.trace)

/-- … the virtual time at every arrival and at the end of every pass of the loop (in the order of the trace), and the final
`finish_times` -/
def runWfqV (fl : List Nat) (n : Nat) (arr : List (ℚ × Int)) : Option (List ℚ × List (Nat × ℚ)) :=
  (finalWfq fl n arr).map fun s => (vtimesOf s.trace, (absWFQ 2 (flowOfW fl) unitW wcfg arr.length s).sch.finish)

/-- packets 0, 1 (class 0: stamps 1, 2) and 2 (class 1: stamp 1/3) arrive at 0, packets 3, 4 (class 1: 2/3, 1) at 1 and 2 —
exactly when transmissions end —, packet 5 (class 0) at 2.  The first packet is handed over at once; then stamp order: 2
(1/3), 3 (2/3, arrived at 1 *before* the server asked again at 1), 4 (1), 1 (2), 5 (3); back to back, one time unit each.
Virtual time advances by 1/4 per time unit while both classes are active, by 1 when only class 0 is, and is back at 0 with
all finish times when the last packet has left -/
example : runWfq [0, 0, 1, 1, 1, 0] 80 [(0, 0), (0, 1), (0, 2), (1, 3), (1, 4), (0, 5)] =
      some (0, [1, 2, 1/3, 2/3, 1, 3], true) ∧
    runWfqT [0, 0, 1, 1, 1, 0] 80 [(0, 0), (0, 1), (0, 2), (1, 3), (1, 4), (0, 5)] =
      some ([(0, 0), (2, 1), (3, 2), (4, 3), (1, 4), (5, 5)], [(0, 1), (2, 2), (3, 3), (4, 4), (1, 5), (5, 6)]) ∧
    runWfqV [0, 0, 1, 1, 1, 0] 80 [(0, 0), (0, 1), (0, 2), (1, 3), (1, 4), (0, 5)] =
      some ([0, 0, 0, 1/4, 1/4, 1/2, 1/2, 1/2, 3/4, 1, 2, 0], [(1, 0), (0, 0)]) := by
  decide +kernel

/-- … and every kernel step of that run (39 of them) is an action sequence the StampServer LTS with the WFQ record accepts
between the abstractions of the two states (`refineCheck` replays the inferred actions through `Stamp.step (WFQ.sched cfg)` and
compares with `absWFQ`) -/
example : refineCheck 2 (flowOfW [0, 0, 1, 1, 1, 0]) unitW wcfg 6 12 80
    (initState 2 [(0, 0), (0, 1), (0, 2), (1, 3), (1, 4), (0, 5)]) 0 = some 39 := by
  decide +kernel

/-- a busy period that ends and restarts: packets 0 (class 0) and 1 (class 1) arrive at 1, packet 2 (class 0, stamp 2) at 3/2;
they leave at 2, 3, 4 and the loop resets virtual time and the finish times at 4.  Packet 3 (class 1) arrives at 13/2: virtual
time 0, and its stamp is 1/3 again — as for packet 1 —, packet 4 (class 0) at 7: virtual time (1/2)/3 = 1/6, stamp 7/6 -/
example : runWfq [0, 1, 0, 1, 0] 80 [(1, 0), (0, 1), (1/2, 2), (5, 3), (1/2, 4)] = some (0, [1, 1/3, 2, 1/3, 7/6], true) ∧
    runWfqT [0, 1, 0, 1, 0] 80 [(1, 0), (0, 1), (1/2, 2), (5, 3), (1/2, 4)] =
      some ([(0, 1), (1, 2), (2, 3), (3, 13/2), (4, 15/2)], [(0, 2), (1, 3), (2, 4), (3, 15/2), (4, 17/2)]) ∧
    runWfqV [0, 1, 0, 1, 0] 80 [(1, 0), (0, 1), (1/2, 2), (5, 3), (1/2, 4)] =
      some ([0, 0, 1/8, 1/4, 1/2, 0, 0, 1/6, 7/24, 0], [(1, 0), (0, 0)]) := by
  decide +kernel

example : refineCheck 2 (flowOfW [0, 1, 0, 1, 0]) unitW wcfg 5 12 80
    (initState 2 [(1, 0), (0, 1), (1/2, 2), (5, 3), (1/2, 4)]) 0 = some 33 := by
  decide +kernel

/-- equal stamps, different instants: packet 0 (class 0) is served 0→1; packet 1 (class 0, stamp 2) arrives at 1/4, packets
2, 3, 4, 5 (class 1) at 2/3, when virtual time is 2/3: stamps 1, 4/3, 5/3, 2.  Packets 1 and 5 carry the stamp 2, the earlier
arrival (1) goes first -/
example : runWfq [0, 0, 1, 1, 1, 1] 80 [(0, 0), (1/4, 1), (5/12, 2), (0, 3), (0, 4), (0, 5)] =
      some (0, [1, 2, 1, 4/3, 5/3, 2], true) ∧
    runWfqT [0, 0, 1, 1, 1, 1] 80 [(0, 0), (1/4, 1), (5/12, 2), (0, 3), (0, 4), (0, 5)] =
      some ([(0, 0), (2, 1), (3, 2), (4, 3), (1, 4), (5, 5)], [(0, 1), (2, 2), (3, 3), (4, 4), (1, 5), (5, 6)]) ∧
    refineCheck 2 (flowOfW [0, 0, 1, 1, 1, 1]) unitW wcfg 6 12 80
      (initState 2 [(0, 0), (1/4, 1), (5/12, 2), (0, 3), (0, 4), (0, 5)]) 0 = some 39 := by
  decide +kernel

/-- the oracle is not vacuous.  Packet 0 (class 0) arrives at 0 and is served at once; 1 (class 0, stamp 2) and 2 (class 1,
stamp 1/2 + 1/3) arrive at 1/2, when virtual time is 1/2.  Serving 2 at 1 is accepted (virtual time 5/8 at 1, 7/8 at 2, reset
at 3); serving 1 at 1 is rejected (2 has the smaller stamp); a wrong stamp is rejected; a service that starts late is
rejected; a departure later than `start + 8·size/rate` is rejected; a virtual time that has not advanced at an arrival is
rejected; a virtual time that is not reset at the end of the busy period is rejected. -/
example : (orun 2 (flowOfW [0, 0, 1]) unitW wcfg oInit
      [.get 0, .put 0 0, .vtime 0, .stamp 1, .serve 0 0, .put 1 (1/2), .vtime (1/2), .stamp 2, .put 2 (1/2), .vtime (1/2),
       .stamp (5/6), .out 0 1, .done (5/8), .get 1, .serve 2 1, .out 2 2, .done (7/8), .get 2, .serve 1 2, .out 1 3, .done 0,
       .get 3]).isSome = true ∧
    (orun 2 (flowOfW [0, 0, 1]) unitW wcfg oInit
      [.get 0, .put 0 0, .vtime 0, .stamp 1, .serve 0 0, .put 1 (1/2), .vtime (1/2), .stamp 2, .put 2 (1/2), .vtime (1/2),
       .stamp (5/6), .out 0 1, .done (5/8), .get 1, .serve 1 1]).isNone = true ∧
    (orun 2 (flowOfW [0, 0, 1]) unitW wcfg oInit [.get 0, .put 0 0, .vtime 0, .stamp 2]).isNone = true ∧
    (orun 2 (flowOfW [0, 0, 1]) unitW wcfg oInit [.get 0, .put 0 0, .vtime 0, .stamp 1, .serve 0 1]).isNone = true ∧
    (orun 2 (flowOfW [0, 0, 1]) unitW wcfg oInit [.get 0, .put 0 0, .vtime 0, .stamp 1, .serve 0 0, .out 0 2]).isNone = true ∧
    (orun 2 (flowOfW [0, 0, 1]) unitW wcfg oInit
      [.get 0, .put 0 0, .vtime 0, .stamp 1, .serve 0 0, .put 1 (1/2), .vtime 0]).isNone = true ∧
    (orun 2 (flowOfW [0, 0, 1]) unitW wcfg oInit
      [.get 0, .put 0 0, .vtime 0, .stamp 1, .serve 0 0, .out 0 1, .done 1]).isNone = true := by
  decide +kernel

end C14K
