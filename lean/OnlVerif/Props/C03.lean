import OnlVerif.Lemmas.KernelStep
import OnlVerif.Lemmas.KAccess
import OnlVerif.Lemmas.SplitStep
import OnlVerif.Lemmas.SplitDemo
import OnlVerif.Lemmas.SplitDemoTime
import OnlVerif.Lemmas.SplitScript
import OnlVerif.Lemmas.SplitFuelStep
import OnlVerif.Lemmas.SplitPlanMain
import OnlVerif.Lemmas.SplitWFScript
import OnlVerif.Lemmas.SplitPlanDemo
import OnlVerif.Lemmas.SplitWFDec
import OnlVerif.Lemmas.SplitSimDemo
import OnlVerif.Props.C01
/-!
# C03 — runs are reproducible and unaffected by where they are stopped and resumed

Model: `Environment.run(until=…)`, `Environment.step` in `OnlVerif/Kernel/Step.lean` (`runLoop`, `runUntilTime`,
`runUntilEvent`, the deferred `StopSimulation` in the callback loop).

Determinism needs no theorem: the model is a function of the program and the initial state, there is no wall
clock, no hash order and no object identity in it — `run_deterministic` records that.  Hash-seed independence of
the *implementation* is sampled by the correspondence check (fresh interpreters), not proved.

Split transparency — cutting a run into `step()`, `run(until=event)` and `run(until=number)` pieces yields the trace
of the uninterrupted run — is proved in three stages (sections below; helper lemmas in `Lemmas/Split*.lean`):
1. `step()` splits: `step_split_transparent`, `step_plan_transparent`, `run_budget_split`, `steps_then_run`;
2. `run(until=event)`: `until_event_split_transparent` (the run returns in *exactly* a state of the uninterrupted run),
   with the simulation lemma `until_event_sim_step`, the lockstep `until_event_lockstep`, and stale stops;
3. `run(until=number)`: `until_time_split_transparent_partial` (a simulation up to the renaming of the event ids
   allocated after the sentinel; under well-scopedness hypotheses listed there), and `until_time_split_transparent`, in
   which those hypotheses are discharged for every reachable state by the well-scopedness invariant `WS`
   (section "Well-scoped states");
4. the three stages chained: `split_plan_transparent` / `split_plan_observations` for whole split plans
   (`List` of `step n | untilEvent e | untilTime t`), any number of numeric stops.
The comment at the end says exactly what remains open.  The correspondence check compares split and uninterrupted runs of
the implementation with each other and with the model on generated split plans.
-/

namespace C03
variable {σ : Type}

/-- the model is a function: same program, same initial state, same result -/
theorem run_deterministic (body : σ → Resume → Burst ℚ σ) (fuel n : Nat) (s1 s2 : KState ℚ σ) (h : s1 = s2) :
    runAll body fuel n s1 = runAll body fuel n s2 := by rw [h]

/-- **`run(until=t)` with `t <= now` is refused with `ValueError` and changes nothing.** -/
theorem until_time_refused (body : σ → Resume → Burst ℚ σ) (fuel n : Nat) (t : ℚ) (s : KState ℚ σ) (h : t ≤ s.now) :
    runUntilTime body fuel n t s = .raised (valueErr "until must be > the current simulation time") s := by
  unfold runUntilTime; rw [if_pos h]

/-- **`run(until=t)` with `t > now` plants its stop exactly at `t`, URGENT**, in front of every entry queued before,
and then only steps: it never touches the state in any other way. -/
theorem until_time_plants_sentinel (body : σ → Resume → Burst ℚ σ) (fuel n : Nat) (t : ℚ) (s : KState ℚ σ)
    (h : s.now < t) :
    ∃ s1 : KState ℚ σ, runUntilTime body fuel n t s = runLoop body fuel (some s.events.size) n s1 ∧
      s1.agenda = { time := t, prio := URGENT, eid := s.eid, ev := s.events.size } :: s.agenda ∧
      s1.now = s.now ∧ (s1.ev s.events.size).cbs = some [.stop] ∧ (s1.ev s.events.size).out = some (.ok .none) := by
  unfold runUntilTime
  rw [if_neg (not_le.mpr h)]
  refine ⟨_, rfl, ?_, rfl, ?_, ?_⟩
  · exact C01.sentinel_due s t _
  · unfold KState.addCb
    rw [KState.ev_setEv, if_pos ⟨rfl, by simp [KState.newEv, KState.scheduleAt]⟩]
    simp [KState.ev, getD_push, KState.scheduleAt, KState.newEv]
  · unfold KState.addCb
    rw [KState.ev_setEv, if_pos ⟨rfl, by simp [KState.newEv, KState.scheduleAt]⟩]
    simp [KState.ev, getD_push, KState.scheduleAt, KState.newEv]

/-- **`run(until=event)` on an already processed event returns its value at once, without stepping.** -/
theorem until_event_processed_immediate (body : σ → Resume → Burst ℚ σ) (fuel n : Nat) (e : EvId) (v : Val)
    (s : KState ℚ σ) (hp : s.processed e = true) (hv : (s.ev e).out = some (.ok v)) :
    runUntilEvent body fuel n e s = .returned v s := by
  unfold runUntilEvent; rw [if_pos hp, hv]

/-- **`run(until=event)` only appends its stop to the event's callbacks and then steps.** -/
theorem until_event_registers_stop (body : σ → Resume → Burst ℚ σ) (fuel n : Nat) (e : EvId) (s : KState ℚ σ)
    (hp : s.processed e = false) :
    runUntilEvent body fuel n e s = runLoop body fuel (some e) n (s.addCb e .stop) := by
  unfold runUntilEvent; simp [hp]

/-- **The stop is deferred to the end of the callback loop**: a `StopSimulation` raised by the until-callback does not
cut the loop short — it only records the event's outcome; the state is untouched and the loop goes on. -/
theorem stop_is_deferred (body : σ → Resume → Burst ℚ σ) (fuel : Nat) (e : EvId) (l : LoopSt ℚ σ) (o : Outcome)
    (hv : (l.s.ev e).out = some o) :
    (runCb body fuel e l .stop).s = l.s ∧ (runCb body fuel e l .stop).stop = some o := by
  unfold runCb
  simp only [hv, Option.getD_some, and_self]

theorem stopped_after_whole_loop (l : LoopSt ℚ σ) (e : EvId) (o : Outcome) (hs : l.stop = some o) :
    closeEvent l e = .stopped o l.s := by
  unfold closeEvent; simp only [hs]

/-- **A stop never loses a process**: whether or not a stop has been recorded, every remaining callback of the event
still runs — `runCb` has no early exit at all (no callback of the model raises out of the loop). -/
theorem callbacks_after_stop_still_run (body : σ → Resume → Burst ℚ σ) (fuel : Nat) (e p : EvId) (l : LoopSt ℚ σ) :
    (runCb body fuel e l (.resume p)).s = resume body p fuel e l.s ∧ (runCb body fuel e l (.resume p)).stop = l.stop := by
  unfold runCb
  exact ⟨rfl, rfl⟩

/-- **`run()` returns exactly the value carried by the stop** (`until.value`), in the state in which `step` stopped;
for a failed until-event it raises that event's exception, in that same state. -/
theorem run_returns_stop_value (body : σ → Resume → Burst ℚ σ) (fuel n : Nat) (e : EvId) (s s' : KState ℚ σ) (v w : Val)
    (h : step body fuel s = .stopped (.ok v) s') (hok : (s'.ev e).out = some (.ok w)) :
    runLoop body fuel (some e) (n + 1) s = .returned v s' := by
  simp only [runLoop, h, onStop, Option.bind_some, hok]


/-! ## Split transparency, stage 1: `step()` splits

The observation trace is the field `KState.trace` of the state, so every equation between results below is in
particular an equation between traces. -/

/-- **`n + m` calls of `step()` are `n` calls followed by `m` calls from the state reached** — same state, same trace,
same way of ending (a stop, an exception or an empty agenda in the first piece ends the whole sequence there). -/
theorem step_split_transparent (body : σ → Resume → Burst ℚ σ) (fuel n m : Nat) (s : KState ℚ σ) :
    stepN body fuel (n + m) s = (stepN body fuel n s).andThen (stepN body fuel m) :=
  stepN_add body fuel n m s

/-- **Any split plan of `step()` budgets is the single uninterrupted sequence of the same total length**: the pieces,
run one after the other, end in the state (and so with the trace) of `plan.sum` consecutive `step()` calls. -/
theorem step_plan_transparent (body : σ → Resume → Burst ℚ σ) (fuel : Nat) (plan : List Nat) (s : KState ℚ σ) :
    stepPlan body fuel plan s = stepN body fuel plan.sum s :=
  stepPlan_eq body fuel plan s

/-- **Two pieces that both returned normally compose to the uninterrupted piece, trace included.** -/
theorem step_split_trace (body : σ → Resume → Burst ℚ σ) (fuel n m : Nat) (s s1 s2 : KState ℚ σ)
    (h1 : stepN body fuel n s = .ok s1) (h2 : stepN body fuel m s1 = .ok s2) :
    stepN body fuel (n + m) s = .ok s2 ∧
      ∀ s', stepN body fuel (n + m) s = .ok s' → s'.trace = s2.trace := by
  have h := (stepN_add_ok body fuel n m s s1 h1).trans h2
  refine ⟨h, ?_⟩
  intro s' hs'
  rw [h] at hs'
  cases hs'
  rfl

/-- **The loop of `run` with step budget `n + m` is the loop with budget `n`, continued with budget `m` from the state
in which the budget ran out**; a loop that ended (return, exception) within the first `n` steps is not continued. -/
theorem run_budget_split (body : σ → Resume → Burst ℚ σ) (fuel : Nat) (u : Option EvId) (n m : Nat) (s : KState ℚ σ) :
    runLoop body fuel u (n + m) s = (runLoop body fuel u n s).andThen (runLoop body fuel u m) :=
  runLoop_add body fuel u n m s

/-- **`k` calls of `step()` followed by `run(...)` are that `run(...)` started `k` steps earlier**: a loop that runs out
of budget after `k` steps did exactly the `k` calls of `step()`, and conversely the loop continues from the state the
`k` calls reached. -/
theorem steps_then_run (body : σ → Resume → Burst ℚ σ) (fuel : Nat) (u : Option EvId) (k n : Nat) (s s1 : KState ℚ σ)
    (h : stepN body fuel k s = .ok s1) :
    runLoop body fuel u k s = .outOfFuel s1 ∧ runLoop body fuel u (k + n) s = runLoop body fuel u n s1 :=
  ⟨(runLoop_outOfFuel_iff body fuel u k s s1).mpr h, runLoop_of_stepN_ok body fuel u k n s s1 h⟩

/-! ## Split transparency, stage 2: `run(until=event)` splits

`run(until=e)` changes the state in one way only: it appends `Cb.stop` (`StopSimulation.callback`) to the callback list of
`e`.  `KState.stripBy P` erases the stops of the events selected by `P` (`KState.strip`: of all events);
`StopEq P s1 s2` := `s1.stripBy P = s2.stripBy P` ("equal except for stops on `P`-events");
`StopFree P s` := `s.stripBy P = s` ("no `P`-event carries a stop", `StopFree.iff`); `AllStopFree` := `StopFree (fun _ => true)`.
`Lemmas/SplitStrip*.lean` prove, function by function (all 18 API calls, bursts of every program, `_resume`, interrupt
delivery, conditions, resource scans, the callback loop), that the erasure commutes with the model:
`f (s.stripBy P) = (f s).stripBy P`, every reply / flag / branch condition being the same. -/

/-- **The simulation lemma (one kernel step).**  If `s2` is the stop-free state `s1` plus `StopSimulation` callbacks (on
events selected by `P`, at arbitrary positions of their callback lists) and `s1` does a normal step to `s1'`, then `s2`
does the same step — it ends normally or with `StopSimulation` — to a state that is again `s1'` plus stop callbacks:
every process resumed by the one is resumed by the other, in the same order, with the same values. -/
theorem until_event_sim_step (body : σ → Resume → Burst ℚ σ) (fuel : Nat) (P : EvId → Bool) (s1 s2 s1' : KState ℚ σ)
    (hf : StopFree P s1) (heq : StopEq P s1 s2) (h : step body fuel s1 = .ok s1') :
    ∃ s2', (step body fuel s2 = .ok s2' ∨ ∃ o, step body fuel s2 = .stopped o s2') ∧ StopEq P s1' s2' ∧ StopFree P s1' :=
  step_sim body fuel P s1 s2 s1' hf heq h

/-- **Erasing stops commutes with a step, however the step ends** (normally, with `StopSimulation`, with an exception):
the step from the erased state ends in the erasure of the state the step with the stops ends in.  In particular both
steps append the same observations to the trace. -/
theorem stop_erasure_commutes_with_step (body : σ → Resume → Burst ℚ σ) (fuel : Nat) (P : EvId → Bool) (s s' : KState ℚ σ)
    (h : (step body fuel s).st? = some s') :
    (step body fuel (s.stripBy P)).st? = some (s'.stripBy P) ∧ (s'.stripBy P).trace = s'.trace :=
  ⟨step_stripBy_st P body fuel s s' h, rfl⟩

/-- **A step ends with `StopSimulation` exactly when the callback list of the event it processes holds a stop.** -/
theorem step_stops_iff_stop_registered (body : σ → Resume → Burst ℚ σ) (fuel : Nat) (s : KState ℚ σ) :
    (∃ o s', step body fuel s = .stopped o s') ↔ ∃ q rest, popMin s.agenda = some (q, rest) ∧ s.hasStop q.ev = true :=
  step_stopped_iff body fuel s

/-- **The model never registers a stop**: a state in which no `P`-event carries a stop steps to such a state. -/
theorem stop_free_preserved (body : σ → Resume → Burst ℚ σ) (fuel : Nat) (P : EvId → Bool) (s s' : KState ℚ σ)
    (hf : StopFree P s) (h : (step body fuel s).st? = some s') : StopFree P s' :=
  step_stopFree P body fuel s s' hf h

/-- **While `run(until=e)` is running it is in lockstep with the uninterrupted run**: after `k` of its steps the state is
the state of `k` uninterrupted steps plus stop callbacks, and those sit on `e` only. -/
theorem until_event_lockstep (body : σ → Resume → Burst ℚ σ) (fuel k : Nat) (e : EvId) (s s2 : KState ℚ σ)
    (hf : AllStopFree s) (h : stepN body fuel k (s.addCb e .stop) = .ok s2) :
    stepN body fuel k s = .ok s2.strip ∧ s2.strip.trace = s2.trace ∧ StopFree (fun i => i != e) s2 :=
  ⟨(runUntilEvent_lockstep body fuel k e s s2 hf h).1, rfl, (runUntilEvent_lockstep body fuel k e s s2 hf h).2⟩

/-- **`run(until=event)` is transparent.**  From a state without stale stops, for an event `e` that is not processed yet:
if `run(until=e)` returns (value `v`, state `s'`), then `s'` is *exactly* the state that `k + 1` uninterrupted `step()`
calls reach, for some `k + 1 ≤` the step budget — same event table, agenda, clock, processes, resources and **the same
trace**: no process was lost, duplicated or reordered by the stop.  `s'` carries no stop callback any more (`e` is
processed), so every continuation — more `step()`s, any `run(...)` — continues the uninterrupted run. -/
theorem until_event_split_transparent (body : σ → Resume → Burst ℚ σ) (fuel n : Nat) (e : EvId) (s s' : KState ℚ σ) (v : Val)
    (hf : AllStopFree s) (hp : s.processed e = false) (h : runUntilEvent body fuel n e s = .returned v s') :
    ∃ k, k < n ∧ stepN body fuel (k + 1) s = .ok s' ∧ AllStopFree s' ∧
      (∀ m, stepN body fuel (k + 1 + m) s = stepN body fuel m s') ∧
      (∀ u m, runLoop body fuel u (k + 1 + m) s = runLoop body fuel u m s') := by
  obtain ⟨k, hk, h1, h2⟩ := runUntilEvent_transparent body fuel n e s s' v hf hp h
  exact ⟨k, hk, h1, h2, fun m => stepN_add_ok body fuel (k + 1) m s s' h1,
    fun u m => runLoop_of_stepN_ok body fuel u (k + 1) m s s' h1⟩

/-- the hypotheses of `until_event_split_transparent` are satisfiable: in the two-process program of
`Lemmas/SplitDemo.lean`, after `step(); step()`, `run(until=ev)` returns 7 — hence (by the theorem) in a state of the
uninterrupted run -/
example : ∃ k, k < 20 ∧ stepN SplitDemo.body 3 (k + 1) SplitDemo.s2 = .ok SplitDemo.s5 :=
  let ⟨k, hk, h, _⟩ := until_event_split_transparent SplitDemo.body 3 20 SplitDemo.ev SplitDemo.s2 SplitDemo.s5 (.int 7)
    SplitDemo.s2_stopFree SplitDemo.ev_pending SplitDemo.r5_returned
  ⟨k, hk, h⟩

/-- computed by the model: the whole split plan `step(); step(); run(until=ev); run(until=6); run()` leaves the trace
(13 observations) of the single `run()` -/
example : (SplitDemo.RunResult.st SplitDemo.r9).trace = (SplitDemo.RunResult.st SplitDemo.rAll).trace ∧
    (SplitDemo.RunResult.st SplitDemo.rAll).trace.size = 13 := ⟨SplitDemo.split_trace_eq, SplitDemo.trace_size⟩

/-- **A stale stop is harmless for `step()` calls**: a stop callback left behind on some event by an earlier `run(until=…)`
that ended otherwise (an exception, an empty agenda) does not change what any number of normally returning `step()`
calls do: same states up to the stops, same trace. -/
theorem stale_stop_harmless_for_steps (body : σ → Resume → Burst ℚ σ) (fuel k : Nat) (s s' : KState ℚ σ)
    (h : stepN body fuel k s = .ok s') : stepN body fuel k s.strip = .ok s'.strip ∧ s'.strip.trace = s'.trace :=
  ⟨stepN_stripBy_ok _ body fuel k s s' h, rfl⟩

/-- **… but it ends a later `run` early** (as in the implementation, where the callback raises `StopSimulation` out of
`step()` whoever is running the loop): when the event carrying the stale stop is processed, a `run(until=u)` returns the
*stale* event's value — or raises the exception of its own until-event if that has failed (`onStop`) —, in a state that is
still a state of the uninterrupted run up to stops. -/
theorem stale_stop_ends_later_run (body : σ → Resume → Burst ℚ σ) (fuel n : Nat) (u : Option EvId) (s s' : KState ℚ σ)
    (o : Outcome) (h : step body fuel s = .stopped o s') :
    runLoop body fuel u (n + 1) s = onStop u o s' ∧ (step body fuel s.strip).st? = some s'.strip :=
  ⟨by simp only [runLoop, h], step_stripBy_st _ body fuel s s' (by rw [h]; rfl)⟩

/-- a stale stop on `ev` (as an aborted `run(until=ev)` leaves it) makes a plain `run()` return 7 at time 2 -/
example : SplitDemo.RunResult.val? (runAll SplitDemo.body 3 20 (SplitDemo.s2.addCb SplitDemo.ev .stop)) = some (.int 7) ∧
    (SplitDemo.RunResult.st (runAll SplitDemo.body 3 20 (SplitDemo.s2.addCb SplitDemo.ev .stop))).now = 2 := by
  decide +kernel

/-- **`run(until=e)` that ends with an exception has also followed the uninterrupted run** (a crashing callback, an
empty agenda, a failed until-event): `k` normal steps in lockstep, then a step that ends in the same state up to stops,
or an empty agenda in the same state. -/
theorem until_event_split_raised (body : σ → Resume → Burst ℚ σ) (fuel n : Nat) (e : EvId) (s s' : KState ℚ σ) (x : Exc)
    (hf : AllStopFree s) (hp : s.processed e = false) (h : runUntilEvent body fuel n e s = .raised x s') :
    ∃ k s1, k < n ∧ stepN body fuel k s = .ok s1 ∧
      ((step body fuel s1).st? = some s'.strip ∨ (step body fuel s1 = .empty ∧ s1 = s'.strip)) :=
  runUntilEvent_raised body fuel n e s s' x hf hp h

/-! ## Split transparency, stage 3: `run(until=number)` splits

The sentinel is a fresh event record at index `u = events.size`: every event allocated afterwards has, in the split run,
the id it has in the uninterrupted run plus one.  `c : SplitCfg σ` records a split (`c.u`, the sentinel's `eid` `c.eid0`,
the time `c.t`, and `c.rσ`, the renaming of ids kept in local process states); `c.ρ = shAt c.u` is the order-preserving
renaming; `c.T queued s` is the state of the split run that corresponds to the state `s` of the uninterrupted run (one
extra record at `c.u`, all ids renamed — in callback lists, kinds, process table, agenda, request data, values, resource
queues, shared slots and trace —, `eid` counter and later `eid`s one ahead, and, while `queued`, the agenda entry
`(c.t, URGENT, c.eid0, c.u)` at its insertion-stable position).  `Lemmas/SplitSent*.lean` prove, function by function
(all 18 API calls, bursts, `_resume`, interrupts, conditions, resource scans, the callback loop), that `c.T queued`
commutes with the model on states after the split.  Hypotheses of the theorems:

* `BodySim c.ρ c.rσ body` — the program treats event ids as opaque tokens: renaming the ids in its local state and in what
  it is resumed with renames the ids in the calls it makes (and nothing else).  True of every Python generator (ids are
  not observable there); it excludes model programs that compute with ids (`succeed (e + 1)`).
* `c.Closed s` — the state at the split is well-scoped: it mentions no id `≥ events.size` and no `eid ≥ s.eid`.
* `SortedAg s` — the agenda list is newest-first (`eid`s decreasing, below the counter); kept by every step.
* `c.FuelAlong body fuel s` — `Condition._build_value` of a condition with id `cd` recurses with fuel `cd + 1`; in the split
  run that is `cd + 2` for conditions created after the split; the hypothesis says one more unit changes nothing, in the
  states of the uninterrupted run in which a `_build_value` runs.  It follows from two state invariants at step
  boundaries (`fuel_hypothesis_of_wellformed`: operands are older than their condition, `CondWF`, and `_build_value`
  callbacks belong to allocated conditions, `BuildAlloc`); it is vacuous for conditions created before the split
  (`FuelOK_of_lt`) and when no `_build_value` is pending (`stepFuelOK_of_noBuild`). -/

/-- **The step that pops the sentinel does nothing else**: it advances the clock to `t`, marks the sentinel record processed
and raises `StopSimulation(None)`; the state it leaves, `c.afterSentinel s`, is the uninterrupted state `s` up to the
renaming, plus the dead sentinel record, with the clock at `t`. -/
theorem sentinel_pop_only_stops (c : SplitCfg σ) (body : σ → Resume → Burst ℚ σ) (fuel : Nat) (s : KState ℚ σ) (h : c.Inv s)
    (hp : popMin (c.T true s).agenda = some (c.sentEntry, s.agenda.map c.rnEntry)) :
    step body fuel (c.T true s) = .stopped (.ok .none) (c.afterSentinel s) ∧
      (c.afterSentinel s).now = c.t ∧ (c.afterSentinel s).trace = s.trace.map (rnObs c.ρ) ∧
      (c.afterSentinel s).agenda = s.agenda.map c.rnEntry ∧ (c.afterSentinel s).ev c.u = SplitCfg.deadRec false :=
  ⟨c.step_sentinel s body fuel h hp, rfl, rfl, rfl, c.ev_T_u false s h⟩

/-- **One step while the sentinel is queued**: the split run pops the (renamed) entry the uninterrupted run pops and does
the (renamed) step — unless the sentinel's key `(t, URGENT, eid0)` is smaller, then it pops the sentinel. -/
theorem sentinel_queued_step (c : SplitCfg σ) (body : σ → Resume → Burst ℚ σ) (hB : BodySim c.ρ c.rσ body) (fuel : Nat)
    (s : KState ℚ σ) (h : c.Inv s) (hs : SortedAg s) (hf : c.stepFuelOK body fuel s) :
    step body fuel (c.T true s) =
      match popMin s.agenda with
      | none => .stopped (.ok .none) (c.afterSentinel s)
      | some (m, _) =>
        if (c.rnEntry m).lt c.sentEntry then c.mapT true (step body fuel s)
        else .stopped (.ok .none) (c.afterSentinel s) :=
  c.step_T_true s body hB fuel h hs hf

/-- **One step after the sentinel is gone**: the split run does exactly the renamed step of the uninterrupted run, however
it ends. -/
theorem sentinel_gone_step (c : SplitCfg σ) (body : σ → Resume → Burst ℚ σ) (hB : BodySim c.ρ c.rσ body) (fuel : Nat)
    (s : KState ℚ σ) (h : c.Inv s) (hf : c.stepFuelOK body fuel s) :
    step body fuel (c.T false s) = c.mapT false (step body fuel s) :=
  c.step_T_false s body hB fuel h hf

/-- **`run(until=t)` is transparent up to the renaming of event ids** (partial: under the four hypotheses listed above).
If `run(until=t)` returns from a well-scoped, stop-free state `s` with `now < t`, it returns `None` in the state
`c.afterSentinel sk` where `sk` is the state the uninterrupted run reaches after some `k <` budget normal steps: **the
trace of the split run is the trace of the uninterrupted run with the ids renamed**; the clock is `t`; the returned state
carries no stop; every entry processed was due before the sentinel's key `(t, URGENT, eid0)` — strictly before `t`, or
at `t` itself, URGENT and queued before the sentinel —, and the next entry of the uninterrupted run (if any) is not. -/
theorem until_time_split_transparent_partial (c : SplitCfg σ) (body : σ → Resume → Burst ℚ σ) (fuel n : Nat)
    (s s' : KState ℚ σ) (v : Val)
    (hu : c.u = s.events.size) (he : c.eid0 = s.eid) (hlt : s.now < c.t)
    (hc : c.Closed s) (hs : SortedAg s) (hns : AllStopFree s) (hB : BodySim c.ρ c.rσ body)
    (hf : c.FuelAlong body fuel s) (h : runUntilTime body fuel n c.t s = .returned v s') :
    v = .none ∧ ∃ k sk, k < n ∧ stepN body fuel k s = .ok sk ∧ s' = c.afterSentinel sk ∧
      s'.trace = sk.trace.map (rnObs c.ρ) ∧ s'.now = c.t ∧ AllStopFree s' ∧
      (∀ j, j < k → ∀ sj m rest, stepN body fuel j s = .ok sj → popMin sj.agenda = some (m, rest) →
        (m.time < c.t ∨ (m.time = c.t ∧ m.prio = URGENT ∧ m.eid < c.eid0))) ∧
      (∀ m rest, popMin sk.agenda = some (m, rest) →
        ¬ (m.time < c.t ∨ (m.time = c.t ∧ m.prio = URGENT ∧ m.eid < c.eid0))) := by
  obtain ⟨hv, k, sk, hk, h1, h2, _, _, h5, h6, h7⟩ :=
    c.runUntilTime_transparent body fuel n s s' v hu he hlt hc hs hns hB hf h
  exact ⟨hv, k, sk, hk, h1, h2, by rw [h2]; rfl, by rw [h2]; rfl, h5, h6, h7⟩

/-- **… and every continuation stays the uninterrupted run with renamed ids, for ever**: `j + 1` further normal steps of
the uninterrupted run from `sk` are `j + 1` normal steps from the state in which `run(until=t)` returned, to the
corresponding state (`c.T false sj`: renamed ids, dead sentinel record, nothing else) — same trace up to the renaming. -/
theorem after_time_split_lockstep_partial (c : SplitCfg σ) (body : σ → Resume → Burst ℚ σ) (hB : BodySim c.ρ c.rσ body)
    (fuel j : Nat) (sk sj : KState ℚ σ) (hi : c.Inv sk) (hf : c.FuelAlong body fuel sk)
    (h : stepN body fuel (j + 1) sk = .ok sj) :
    stepN body fuel (j + 1) (c.afterSentinel sk) = .ok (c.T false sj) ∧
      (c.T false sj).trace = sj.trace.map (rnObs c.ρ) :=
  ⟨c.after_split_lockstep body hB fuel j sk sj hi hf h, rfl⟩

/-- **What the driver prints is unaffected by the renaming**: the trace lines identify an event by its creation label and
a process by the name kept in its local state; corresponding events have the same label, the same outcome up to the
renaming and render to the same text (`renderSimple` reads labels only), and corresponding processes have the
corresponding local state (the same one when, as for script programs, local states hold no ids: `c.rσ = id`). -/
theorem rendering_invariant (c : SplitCfg σ) (q : Bool) (s : KState ℚ σ) (h : c.Inv s) (e p : Nat) (v : Val) :
    ((c.T q s).ev (c.ρ e)).label = (s.ev e).label ∧
    renderSimple (c.T q s) (rnVal c.ρ v) = renderSimple s v ∧
    freezeVal (c.T q s) (rnVal c.ρ v) = rnVal c.ρ (freezeVal s v) ∧
    (c.T q s).proc? (c.ρ p) = (s.proc? p).map (rnProc c.ρ c.rσ) :=
  ⟨c.label_T q s h e, c.r_renderSimple q s h v, c.r_freezeVal q s h v, c.proc?_T q s p⟩

/-- **The agenda list stays newest-first** (`SortedAg`: `eid`s strictly decreasing along the list and below the counter):
it holds for an empty agenda and is kept by every API call and by every step, however the step ends — so the
`SortedAg` hypothesis of the stage-3 theorems holds in every state reached from a fresh environment. -/
theorem agenda_sorted_invariant (body : σ → Resume → Burst ℚ σ) (fuel : Nat) (s : KState ℚ σ) (hs : SortedAg s) :
    (∀ self cl, SortedAg (doCall s self cl).1) ∧ (∀ s', (step body fuel s).st? = some s' → SortedAg s') :=
  ⟨fun self cl => SortedAg.krel.doCall s self cl hs, fun s' h => SplitCfg.sortedAg_step body fuel s s' hs h⟩

/-- **The fuel hypothesis follows from two invariants of the states of the uninterrupted run** (at step boundaries):
`CondWF` — the operands of every condition are older than the condition — and `BuildAlloc` — a `_build_value` callback
belongs to an allocated condition.  (Both hold in every reachable state of an API-only program; not proved here.) -/
theorem fuel_hypothesis_of_wellformed (c : SplitCfg σ) (body : σ → Resume → Burst ℚ σ) (fuel : Nat) (s : KState ℚ σ)
    (h : ∀ j sj, stepN body fuel j s = .ok sj → CondWF sj ∧ BuildAlloc sj) : c.FuelAlong body fuel s :=
  fun j sj hj => c.stepFuelOK_of_wf body fuel sj (h j sj hj).1 (h j sj hj).2

/-- **Every program of the script language treats event ids as opaque tokens** (`BodySim` for every renaming): the
programs the correspondence check generates and runs on the real kernel satisfy the program hypothesis of the stage-3
theorems, provided the value literals in the program text are not event ids (`ProgsClosed`). -/
theorem script_programs_are_id_opaque (ρ : EvId → EvId) (progs : Progs ℚ) (h : ProgsClosed progs) :
    BodySim ρ id (_root_.body progs) :=
  script_bodySim ρ progs h

/-- the hypotheses of `until_time_split_transparent_partial` are satisfiable: the state `s5` of the demo (after
`step(); step(); run(until=ev)`) with the split `run(until=6)` -/
example : ∃ k sk, k < 20 ∧ stepN SplitDemo.body 3 k SplitDemo.s5 = .ok sk ∧
    SplitDemo.s6.trace = sk.trace.map (rnObs SplitDemo.cfg.ρ) ∧ SplitDemo.s6.now = 6 :=
  let ⟨_, k, sk, hk, h1, _, h3, h4, _, _, _⟩ := until_time_split_transparent_partial SplitDemo.cfg SplitDemo.body 3 20
    SplitDemo.s5 SplitDemo.s6 .none rfl rfl SplitDemo.s5_now SplitDemo.s5_closed SplitDemo.s5_sorted SplitDemo.s5_stopFree
    SplitDemo.cfg_body_sim SplitDemo.s5_fuel SplitDemo.r6_returned
  ⟨k, sk, hk, h1, h3, h4⟩

/-- computed by the model: it is `k = 2`, and the trace has 10 observations -/
example : SplitDemo.s6.trace = (SplitDemo.stOf (stepN SplitDemo.body 3 2 SplitDemo.s5) SplitDemo.s5).trace.map
    (rnObs SplitDemo.cfg.ρ) ∧ SplitDemo.s6.trace.size = 10 := SplitDemo.s6_trace

/-! ## Well-scoped states: the invariants behind stage 3, proved for every reachable state

`SplitWF.WS I s` (`Lemmas/SplitWF*.lean`): the state mentions no event id `≥ events.size` — in callback lists, kinds, process
records, agenda, request data, values, resource queues and users, shared cells, trace — and the operands of every condition
are older than the condition.  `I : IdSt σ` says how the abstract local states hold ids (`I.rn u`: rename by `shAt u`,
`I.below n`: all ids `< n`; `IdSt.none`: no ids, as for script programs).  Domain hypothesis (run level, in the style of
`Once.SafeRun`): `SplitWF.ScopedStep I body fuel s` — every API call the step from `s` executes names existing ids only
(`succeed e`/`fail e`, `cond ops`, `release _ req`, the values passed, the local state of a spawned process) and so does
what each burst ends with (yielded event and local state, returned value, raised exception).  Python code cannot violate it
(ids are object references); model programs can (`succeed (e + 1)`).  `interrupt p`, `probe e`, `cancel e` need no guard:
on a non-existent id they do nothing in the model. -/

open SplitWF SplitPlan in
/-- **Well-scopedness is an invariant**: it holds in the empty environment, and is kept by outside spawns, by the set-ups
of `run(until=event)` and `run(until=number)`, and by every kernel step that names existing ids only — however the step
ends. -/
theorem wellscoped_invariant (I : IdSt σ) (body : σ → Resume → Burst ℚ σ) (fuel : Nat) :
    (∀ t0 rs, (∀ r, (rs.getD r default).putQ = [] ∧ (rs.getD r default).getQ = [] ∧ (rs.getD r default).users = []) →
      WS I ({ now := t0, resources := rs } : KState ℚ σ)) ∧
    (∀ s self st, WS I s → I.below s.events.size st → WS I (doCall s self (.spawn st)).1) ∧
    (∀ s e, WS I s → WS I (s.addCb e .stop)) ∧
    (∀ s t, WS I s → WS I (SplitCfg.plant t s)) ∧
    (∀ s s', WS I s → ScopedStep I body fuel s → (step body fuel s).state? = some s' → WS I s') :=
  ⟨fun t0 rs h => ws_init t0 rs h, fun _ self st h hst => ws_spawn h self st hst, fun _ e h => ws_until_event h e,
    fun _ t h => ws_until_time h t, fun s s' h hS hs => ws_step body fuel s s' h hS hs⟩

open SplitWF in
/-- **Every reachable state is well-scoped and its agenda is newest-first** (`Reach`: from an empty environment by outside
spawns, `run(until=…)` set-ups and steps that name existing ids only); so is every state of a run from a well-scoped state
in which the program names existing ids only. -/
theorem reachable_wellscoped (I : IdSt σ) (body : σ → Resume → Burst ℚ σ) (fuel : Nat) :
    (∀ s, Reach I body fuel s → WS I s ∧ SortedAg s) ∧
    (∀ s0 s, WS I s0 → ScopedRun I body fuel s0 → KReach body fuel s0 s → WS I s) :=
  ⟨fun _ h => ⟨h.ws, h.sorted⟩, fun s0 s h0 hS hr => ws_reach body fuel s0 s h0 hS hr⟩

open SplitWF in
/-- **A well-scoped state satisfies the invariant hypotheses of the stage-3 theorems**: it is `Closed` for the numeric
split made in it (given a sorted agenda), operands are older than their conditions (`CondWF`), `_build_value` callbacks
belong to allocated conditions (`BuildAlloc`); and along a run that names existing ids only the fuel hypothesis
`FuelAlong` holds — the id-dependent recursion fuel of `Condition._build_value` is never the limit. -/
theorem wellscoped_discharges (I : IdSt σ) (c : SplitCfg σ) (body : σ → Resume → Burst ℚ σ) (fuel : Nat) (s : KState ℚ σ)
    (h : WS I s) :
    (SortedAg s → c.u = s.events.size → c.eid0 = s.eid → c.rσ = I.rn c.u → c.Closed s) ∧ CondWF s ∧ BuildAlloc s ∧
      (ScopedRun I body fuel s → c.FuelAlong body fuel s) :=
  ⟨fun hs hu he hr => closed_of_ws c h hs hu he hr, condWF_of_ws h, buildAlloc_of_ws h,
    fun hS => fuelAlong_of_ws c body fuel h hS⟩

open SplitWF in
/-- **The state of the split run that corresponds to a well-scoped state is well-scoped**: the invariants of the
*uninterrupted* run carry over to every split run (this is what lets numeric stops be chained). -/
theorem wellscoped_transfers_to_split_run (I : IdSt σ) (c : SplitCfg σ) (q : Bool) (s : KState ℚ σ) (h : WS I s) (hi : c.Inv s)
    (hr : c.rσ = I.rn c.u) : WS I (c.T q s) ∧ (SortedAg s → SortedAg (c.T false s)) :=
  ⟨ws_T c q h hi hr, fun hs => sortedAg_T_false c hs⟩

open SplitWF in
/-- **A sufficient condition on the program text** (`ScopedProg`: the program names only ids below the bound of its local
state and resume value, or ids handed to it by a reply since): such a program names existing ids only in every step from a
well-scoped state, hence in every run from one.  **Every script program is one** (literals id-free). -/
theorem scoped_programs_run_scoped (I : IdSt σ) (body : σ → Resume → Burst ℚ σ) (hP : ScopedProg I body) (fuel : Nat) :
    (∀ s, WS I s → ScopedStep I body fuel s) ∧ (∀ s0, WS I s0 → ScopedRun I body fuel s0) ∧
    (∀ progs : Progs ℚ, ProgsClosed progs → ScopedProg (IdSt.none SSt) (_root_.body progs)) :=
  ⟨fun s h => ScopedProg.step hP fuel s h, fun s0 h0 => ScopedProg.run hP fuel s0 h0,
    fun progs h => script_scopedProg progs h⟩

open SplitWF SplitPlan in
/-- **`run(until=t)` is transparent up to the renaming of event ids, in every reachable state.**  For a state `s` reachable
from an empty environment (outside spawns, earlier `run(until=…)` set-ups, steps naming existing ids only) that holds at
least one event and no stale stop, with the rest of the uninterrupted run naming existing ids only, and a program that is
id-opaque at the split index: if `run(until=t)` returns, then `now < t`, it returns `None` in the state
`c.afterSentinel sk` (`c` the split made in `s`) of exactly `k <` budget uninterrupted normal steps; **the trace is the
uninterrupted trace with ids renamed, its rendering (labels, rendered values) is literally the same**; the clock is `t`;
no stop is left; exactly the entries before the sentinel's key `(t, URGENT, s.eid)` were processed.
Hypotheses `Closed`, `FuelAlong` (`CondWF`, `BuildAlloc`), `SortedAg` and `now < t` of the `_partial` theorem are gone. -/
theorem until_time_split_transparent (I : IdSt σ) (body : σ → Resume → Burst ℚ σ) (fuel n : Nat) (t : ℚ)
    (s s' : KState ℚ σ) (v : Val)
    (hr : Reach I body fuel s) (hS : ScopedRun I body fuel s) (hns : AllStopFree s) (hpos : 0 < s.events.size)
    (hB : BodySim (shAt s.events.size) (I.rn s.events.size) body)
    (h : runUntilTime body fuel n t s = .returned v s') :
    s.now < t ∧ v = .none ∧ ∃ k sk, k < n ∧ stepN body fuel k s = .ok sk ∧
      s' = (SplitCfg.at s hpos t (I.rn s.events.size)).afterSentinel sk ∧
      s'.trace = sk.trace.map (rnObs (shAt s.events.size)) ∧ viewTrace s' = viewTrace sk ∧ viewProcs s' = viewProcs sk ∧
      s'.now = t ∧ AllStopFree s' ∧
      (∀ j, j < k → ∀ sj m rest, stepN body fuel j s = .ok sj → popMin sj.agenda = some (m, rest) →
        (m.time < t ∨ (m.time = t ∧ m.prio = URGENT ∧ m.eid < s.eid))) ∧
      (∀ m rest, popMin sk.agenda = some (m, rest) →
        ¬ (m.time < t ∨ (m.time = t ∧ m.prio = URGENT ∧ m.eid < s.eid))) := by
  obtain ⟨hlt, hv, k, sk, hk, h1, h2, hi, h5, h6, h7⟩ :=
    runUntilTime_transparent_ws body fuel n t s s' v hpos hr.ws hS hr.sorted hns hB h
  have hok : StackOK I [SplitCfg.at s hpos t (I.rn s.events.size)] sk := ⟨hi.size, hi.eid, rfl, trivial⟩
  have hs' : s' = splitState [SplitCfg.at s hpos t (I.rn s.events.size)] sk t := h2
  refine ⟨hlt, hv, k, sk, hk, h1, h2, by rw [h2]; rfl, ?_, ?_, by rw [h2]; rfl, h5, h6, h7⟩
  · rw [hs', viewTrace_splitState, viewTrace_stackT _ sk hok]
  · rw [hs', viewProcs_splitState, viewProcs_stackT _ sk hok]

open SplitWF in
/-- **… and every continuation stays the uninterrupted run with renamed ids, for ever** (hypotheses discharged as above):
`j + 1` further normal steps of the uninterrupted run from `sk` are `j + 1` normal steps from the state in which
`run(until=t)` returned, to the corresponding state. -/
theorem after_time_split_lockstep (I : IdSt σ) (body : σ → Resume → Burst ℚ σ) (fuel k j : Nat) (t : ℚ)
    (s sk sj : KState ℚ σ) (hws : WS I s) (hS : ScopedRun I body fuel s) (hpos : 0 < s.events.size)
    (hB : BodySim (shAt s.events.size) (I.rn s.events.size) body)
    (hk : stepN body fuel k s = .ok sk) (h : stepN body fuel (j + 1) sk = .ok sj) :
    stepN body fuel (j + 1) ((SplitCfg.at s hpos t (I.rn s.events.size)).afterSentinel sk) =
      .ok ((SplitCfg.at s hpos t (I.rn s.events.size)).T false sj) := by
  have hr := kreach_of_stepN body fuel k s sk hk
  have hg := SplitPlan.grow_of_kreach body fuel hr
  exact (SplitCfg.at s hpos t (I.rn s.events.size)).after_split_lockstep body hB fuel j sk sj ⟨hg.2, hg.1⟩
    (fuelAlong_of_ws _ body fuel (ws_reach body fuel s sk hws hS hr) (hS.tail hr)) h

open SplitPlan in
/-- **The case of an empty event table (`u = 0`), and more generally of an empty agenda**: `run(until=t)` only advances
the clock (it returns `None`, leaves one dead sentinel record, and neither trace nor process table nor anything queued);
a well-scoped state with an empty event table has an empty agenda, no process and an empty trace — there is nothing a
stop could lose, duplicate or reorder. -/
theorem until_time_on_empty_agenda (I : IdSt σ) (body : σ → Resume → Burst ℚ σ) (fuel n : Nat) (t : ℚ) (s s' : KState ℚ σ)
    (v : Val) :
    (s.agenda = [] → runUntilTime body fuel n t s = .returned v s' →
      v = .none ∧ s'.trace = s.trace ∧ s'.procs = s.procs ∧ s'.agenda = [] ∧ s'.now = t) ∧
    (SplitWF.WS I s → s.events.size = 0 → s.agenda = [] ∧ s.procs = [] ∧ s.trace = #[]) := by
  refine ⟨?_, fun h h0 => empty_table_inert s h h0⟩
  intro hag h
  obtain ⟨hv, rfl⟩ := runUntilTime_inert body fuel n t s s' v hag h
  exact ⟨hv, rfl, rfl, rfl, rfl⟩

/-! ## Split transparency, the three stages chained: split plans

`Piece` = `step n | untilEvent e | untilTime t`; `execPlan body fuel budget plan s` runs the pieces one after the other on
the model (`stepN`, `runUntilEvent`, `runUntilTime`) and yields `some s'` iff every piece returned normally (it stops at the
first raise).  `stackT cs sK`: the transformations `c.T false` of the numeric stops made (latest first) applied to a state of
the uninterrupted run; `stackρ cs`: the composed renaming; `splitState cs sK x`: `stackT cs sK` with clock `x`;
`StackOK I cs sK`: every stop of `cs` was made at an index and `eid` that exist below it and renames local states by `I.rn`.
`viewTrace` / `viewProcs` (`Lemmas/SplitPlanView.lean`): the trace and the process table as a program and the harness can
observe them — processes and events by creation label, values rendered (`renderSimple` ∘ `freezeVal`; `Preempted` by the
label of the preempting process and the victim's `usage_since`). -/

open SplitWF SplitPlan in
/-- **Split plans are transparent.**  For every program that is id-opaque at every split index, every well-scoped,
stop-free initial state with a sorted agenda and at least one event, from which the uninterrupted run names existing ids
only, and every plan all of whose pieces return normally: the split execution ends in `splitState cs sK x`, where `sK` is the
state of `K` uninterrupted normal steps and `cs` holds one transformation per numeric stop — so **the trace is the
uninterrupted trace up to the same point with the composed renaming `stackρ cs` applied; the rendered trace is literally
equal; the rendered process table is equal (no process is lost, duplicated or reordered by a stop)**; the final state is
stop-free, sorted and well-scoped again (so any further plan continues the uninterrupted run). -/
theorem split_plan_transparent (I : IdSt σ) (body : σ → Resume → Burst ℚ σ) (fuel budget : Nat)
    (hB : ∀ u, 0 < u → BodySim (shAt u) (I.rn u) body) (plan : List Piece) (s0 S' : KState ℚ σ)
    (h0 : WS I s0) (hs0 : SortedAg s0) (hns0 : AllStopFree s0) (hpos : 0 < s0.events.size) (hS : ScopedRun I body fuel s0)
    (h : execPlan body fuel budget plan s0 = some S') :
    ∃ K sK cs x, stepN body fuel K s0 = .ok sK ∧ cs.length = numStops plan ∧ StackOK I cs sK ∧ S' = splitState cs sK x ∧
      S'.trace = sK.trace.map (rnObs (stackρ cs)) ∧ viewTrace S' = viewTrace sK ∧ viewProcs S' = viewProcs sK ∧
      AllStopFree S' ∧ SortedAg S' ∧ WS I S' := by
  obtain ⟨K, sK, cs, x, h1, h2, h3, h4, h5, h6, h7, h8, h9, h10, _⟩ :=
    plan_transparent body fuel budget hB plan s0 S' h0 hs0 hns0 hpos hS h
  exact ⟨K, sK, cs, x, h1, h2, h3, h4, h5, h6, h7, h8, h9, h10⟩

open SplitWF SplitPlan in
/-- **What a split plan lets the program and the harness observe is what the uninterrupted run lets them observe** — from
every well-scoped initial state, with or without events (the empty event table is the inert case): rendered trace and
rendered process table of the split execution are those of `K` uninterrupted normal steps, and the process tables have the
same length. -/
theorem split_plan_observations (I : IdSt σ) (body : σ → Resume → Burst ℚ σ) (fuel budget : Nat)
    (hB : ∀ u, 0 < u → BodySim (shAt u) (I.rn u) body) (plan : List Piece) (s0 S' : KState ℚ σ)
    (h0 : WS I s0) (hs0 : SortedAg s0) (hns0 : AllStopFree s0) (hS : ScopedRun I body fuel s0)
    (h : execPlan body fuel budget plan s0 = some S') :
    ∃ K sK, stepN body fuel K s0 = .ok sK ∧ viewTrace S' = viewTrace sK ∧ viewProcs S' = viewProcs sK ∧
      S'.procs.length = sK.procs.length :=
  plan_observations body fuel budget hB plan s0 S' h0 hs0 hns0 hS h

open SplitWF in
/-- **The initial states of the correspondence check meet the hypotheses**: an empty environment (resources with empty
queues) plus processes started from outside whose local states hold no ids is well-scoped, sorted and stop-free. -/
theorem initial_states_ok (I : IdSt σ) (t0 : ℚ) (rs : Array ResRec) (mains : List σ)
    (hrs : ∀ r, (rs.getD r default).putQ = [] ∧ (rs.getD r default).getQ = [] ∧ (rs.getD r default).users = [])
    (hm : ∀ st ∈ mains, I.below 0 st) :
    WS I (initState t0 rs mains) ∧ SortedAg (initState t0 rs mains) ∧ AllStopFree (initState t0 rs mains) ∧
      2 * mains.length ≤ (initState t0 rs mains).events.size :=
  initState_facts t0 rs mains hrs hm

open SplitWF SplitPlan in
/-- **For script programs every hypothesis is discharged**: for every script program with id-free literals, every initial
state of the correspondence check and every split plan whose pieces return normally, the split execution observes what
the uninterrupted run observes. -/
theorem script_split_plan_observations (progs : Progs ℚ) (hc : ProgsClosed progs) (fuel budget : Nat) (plan : List Piece)
    (t0 : ℚ) (rs : Array ResRec) (mains : List SSt)
    (hrs : ∀ r, (rs.getD r default).putQ = [] ∧ (rs.getD r default).getQ = [] ∧ (rs.getD r default).users = [])
    (S' : KState ℚ SSt) (h : execPlan (_root_.body progs) fuel budget plan (initState t0 rs mains) = some S') :
    ∃ K sK, stepN (_root_.body progs) fuel K (initState t0 rs mains) = .ok sK ∧ viewTrace S' = viewTrace sK ∧
      viewProcs S' = viewProcs sK ∧ S'.procs.length = sK.procs.length := by
  obtain ⟨a, b, c, _⟩ := initState_facts (I := IdSt.none SSt) t0 rs mains hrs (fun _ _ => trivial)
  exact plan_observations (I := IdSt.none SSt) (_root_.body progs) fuel budget (fun u _ => script_bodySim (shAt u) progs hc)
    plan _ S' a b c (script_scopedRun progs hc fuel _ a) h

open SplitPlan in
/-- the hypotheses of `split_plan_transparent` are met by a non-trivial program (two script processes contending for a
`Resource`, an `AllOf` condition, timeouts with values) and a plan with **two numeric stops**, two event stops and `step()`
pieces (`Lemmas/SplitPlanDemo.lean`); that every piece returns normally is computed by the kernel -/
example : ∃ S' K sK cs x, execPlan (_root_.body SplitPlanDemo.progs) 5 100 SplitPlanDemo.plan SplitPlanDemo.s0 = some S' ∧
    stepN (_root_.body SplitPlanDemo.progs) 5 K SplitPlanDemo.s0 = .ok sK ∧ cs.length = 2 ∧ S' = splitState cs sK x ∧
    viewTrace S' = viewTrace sK ∧ viewProcs S' = viewProcs sK ∧ S'.trace.size = 22 ∧ S'.events.size = 16 := by
  have hret := SplitPlanDemo.plan_returns
  cases hS' : execPlan (_root_.body SplitPlanDemo.progs) 5 100 SplitPlanDemo.plan SplitPlanDemo.s0 with
  | none => rw [hS'] at hret; cases hret
  | some S' =>
    rw [hS'] at hret
    simp only [Option.map_some, Option.some.injEq, Prod.mk.injEq] at hret
    obtain ⟨K, sK, cs, x, h1, h2, _, h3, _, h5, h6, _⟩ := split_plan_transparent (IdSt.none SSt) _ 5 100 SplitPlanDemo.body_opaque
      SplitPlanDemo.plan SplitPlanDemo.s0 S' SplitPlanDemo.s0_facts.1 SplitPlanDemo.s0_facts.2.1 SplitPlanDemo.s0_facts.2.2.1
      SplitPlanDemo.s0_pos SplitPlanDemo.run_scoped hS'
    exact ⟨S', K, sK, cs, x, rfl, h1, by rw [h2]; exact SplitPlanDemo.plan_stops, h3, h5, h6, hret.1, hret.2.1⟩

/-! ## The program hypothesis at run level

`BodySim ρ rσ body` constrains the whole interaction tree of every resumption (every reply the kernel *could* give).  The
proofs need it only along the replies the kernel *does* give: `SimBurst` (one burst from a state of the uninterrupted run),
`c.SimStep body fuel s` (every burst the step from `s` executes), `c.SimAlong body fuel s` (every step of the continuation
from `s`), `PlanSim I body fuel budget plan s0` (at each numeric stop of the plan, made in split state `S`: `SimAlong` for the
renaming of that stop along the run that continues from `S` without the stop).  Like `ScopedRun`, these are statements about
one concrete run: equations between the calls, values and local states the program produces on the original and on the
renamed inputs; they are decidable (`Lemmas/SplitWFDec.lean`) and, for runs that end, finite (`AllUpTo`, `PlanSimUpTo`). -/

open SplitPlan in
/-- **An id-opaque program satisfies the run-level hypotheses** (so they are weaker than `BodySim`; strictly: `oddBody`
below satisfies them and is not `BodySim`). -/
theorem id_opaque_implies_runlevel (I : IdSt σ) (body : σ → Resume → Burst ℚ σ) (fuel budget : Nat) :
    (∀ (c : SplitCfg σ), BodySim c.ρ c.rσ body → ∀ s, c.SimStep body fuel s ∧ c.SimAlong body fuel s) ∧
    ((∀ u, 0 < u → BodySim (shAt u) (I.rn u) body) → ∀ plan s0, PlanSim I body fuel budget plan s0) :=
  ⟨fun c hB s => ⟨c.simStep_of_bodySim body hB fuel s, c.simAlong_of_bodySim body hB fuel s⟩,
    fun hB plan s0 => planSim_of_bodySim body fuel budget hB plan s0⟩

open SplitWF SplitPlan in
/-- **The run-level hypotheses of a run that ends can be checked by evaluation**: if the run from `s0` ends within `N`
steps and each of its steps names existing ids only / is id-opaque at run level (`AllUpTo …`, decidable), then `ScopedRun` /
`SimAlong` hold; the same for the plan hypothesis (`PlanSimUpTo`, decidable, implies `PlanSim`). -/
theorem runlevel_hypotheses_checkable (I : IdSt σ) (body : σ → Resume → Burst ℚ σ) (fuel budget N : Nat) (s0 : KState ℚ σ) :
    (AllUpTo (fun p st r s => ScopedBurst I p (body st r) s) body fuel s0 N → ScopedRun I body fuel s0) ∧
    (∀ c : SplitCfg σ, AllUpTo (c.simP body) body fuel s0 N → c.SimAlong body fuel s0) ∧
    (∀ plan, PlanSimUpTo I body fuel budget N plan s0 → PlanSim I body fuel budget plan s0) :=
  ⟨scopedRun_of_upTo I body fuel s0 N, fun c => c.simAlong_of_upTo body fuel s0 N,
    fun plan => PlanSimUpTo.planSim body fuel budget N plan s0⟩

open SplitWF SplitPlan in
/-- **`run(until=t)` is transparent up to the renaming of event ids — with run-level hypotheses only**: as
`until_time_split_transparent`, with `BodySim` replaced by `SimAlong` for the split made in `s`. -/
theorem until_time_split_transparent_runlevel (I : IdSt σ) (body : σ → Resume → Burst ℚ σ) (fuel n : Nat) (t : ℚ)
    (s s' : KState ℚ σ) (v : Val)
    (hr : Reach I body fuel s) (hS : ScopedRun I body fuel s) (hns : AllStopFree s) (hpos : 0 < s.events.size)
    (hsim : (SplitCfg.at s hpos t (I.rn s.events.size)).SimAlong body fuel s)
    (h : runUntilTime body fuel n t s = .returned v s') :
    s.now < t ∧ v = .none ∧ ∃ k sk, k < n ∧ stepN body fuel k s = .ok sk ∧
      s' = (SplitCfg.at s hpos t (I.rn s.events.size)).afterSentinel sk ∧
      s'.trace = sk.trace.map (rnObs (shAt s.events.size)) ∧ viewTrace s' = viewTrace sk ∧ viewProcs s' = viewProcs sk ∧
      s'.now = t ∧ AllStopFree s' := by
  obtain ⟨hlt, hv, k, sk, hk, h1, h2, hi, h5, _, _⟩ :=
    runUntilTime_transparent_ws_run body fuel n t s s' v hpos hr.ws hS hr.sorted hns hsim h
  have hok : StackOK I [SplitCfg.at s hpos t (I.rn s.events.size)] sk := ⟨hi.size, hi.eid, rfl, trivial⟩
  have hs' : s' = splitState [SplitCfg.at s hpos t (I.rn s.events.size)] sk t := h2
  refine ⟨hlt, hv, k, sk, hk, h1, h2, by rw [h2]; rfl, ?_, ?_, by rw [h2]; rfl, h5⟩
  · rw [hs', viewTrace_splitState, viewTrace_stackT _ sk hok]
  · rw [hs', viewProcs_splitState, viewProcs_stackT _ sk hok]

open SplitWF SplitPlan in
/-- **Split plans are transparent — with run-level hypotheses only**: as `split_plan_transparent`, with `BodySim` at every
split index replaced by `PlanSim` for this plan execution.  Every hypothesis is now either a property of the initial state
(`WS`, `SortedAg`, `AllStopFree`, one event) or of the concrete runs (`ScopedRun`, `PlanSim`). -/
theorem split_plan_transparent_runlevel (I : IdSt σ) (body : σ → Resume → Burst ℚ σ) (fuel budget : Nat)
    (plan : List Piece) (s0 S' : KState ℚ σ)
    (h0 : WS I s0) (hs0 : SortedAg s0) (hns0 : AllStopFree s0) (hpos : 0 < s0.events.size) (hS : ScopedRun I body fuel s0)
    (hsim : PlanSim I body fuel budget plan s0)
    (h : execPlan body fuel budget plan s0 = some S') :
    ∃ K sK cs x, stepN body fuel K s0 = .ok sK ∧ cs.length = numStops plan ∧ StackOK I cs sK ∧ S' = splitState cs sK x ∧
      S'.trace = sK.trace.map (rnObs (stackρ cs)) ∧ viewTrace S' = viewTrace sK ∧ viewProcs S' = viewProcs sK ∧
      AllStopFree S' ∧ SortedAg S' ∧ WS I S' := by
  obtain ⟨K, sK, cs, x, h1, h2, h3, h4, h5, h6, h7, h8, h9, h10, _⟩ :=
    plan_transparent_run body fuel budget plan s0 S' h0 hs0 hns0 hpos hS hsim h
  exact ⟨K, sK, cs, x, h1, h2, h3, h4, h5, h6, h7, h8, h9, h10⟩

open SplitPlan in
/-- the run-level theorem applies where the program-level one does not: `SplitSimDemo.oddBody` names a guessed id in a
branch the kernel never takes — it is **not** `BodySim` at any split index `≤ 1000` — yet its run satisfies `ScopedRun` and
`PlanSim` (kernel-evaluated), so its plan with **three numeric stops** is transparent -/
example : (∀ u, u ≤ 1000 → ¬ BodySim (shAt u) (SplitSimDemo.IN.rn u) SplitSimDemo.oddBody) ∧
    ∃ S' K sK cs x, execPlan SplitSimDemo.oddBody 5 100 SplitSimDemo.plan SplitSimDemo.t0 = some S' ∧
      stepN SplitSimDemo.oddBody 5 K SplitSimDemo.t0 = .ok sK ∧ cs.length = 3 ∧ S' = splitState cs sK x ∧
      viewTrace S' = viewTrace sK ∧ viewProcs S' = viewProcs sK ∧ S'.trace.size = 12 := by
  refine ⟨SplitSimDemo.oddBody_not_bodySim, ?_⟩
  have hret := SplitSimDemo.plan_returns
  cases hS' : execPlan SplitSimDemo.oddBody 5 100 SplitSimDemo.plan SplitSimDemo.t0 with
  | none => rw [hS'] at hret; cases hret
  | some S' =>
    rw [hS'] at hret
    simp only [Option.map_some, Option.some.injEq, Prod.mk.injEq] at hret
    obtain ⟨K, sK, cs, x, h1, h2, _, h3, _, h5, h6, _⟩ := split_plan_transparent_runlevel SplitSimDemo.IN _ 5 100
      SplitSimDemo.plan SplitSimDemo.t0 S' SplitSimDemo.t0_facts.1 SplitSimDemo.t0_facts.2.1 SplitSimDemo.t0_facts.2.2.1
      SplitSimDemo.t0_pos SplitSimDemo.run_scoped SplitSimDemo.plan_sim hS'
    exact ⟨S', K, sK, cs, x, rfl, h1, by rw [h2]; rfl, h3, h5, h6, hret.1⟩

/-
What remains open for `split_transparent` (everything else above is proved for every program and every state):
* stages 1 and 2 (`step()` and `run(until=event)` splits) are complete: the split run passes through *exactly* the states
  of the uninterrupted run.
* stage 3 (`run(until=number)`) and the chained plan theorem are proved as a simulation up to the id renaming (`shAt u` per
  stop, composed by `stackρ`), with literally equal rendered traces and process tables.  The invariant hypotheses of the
  `_partial` theorem (`Closed`, `CondWF`/`BuildAlloc` behind `FuelAlong`, `SortedAg`, `now < t`) are discharged for every
  reachable state by the well-scopedness invariant `WS`; the empty event table (`0 < u`) is covered as the inert case.
  What is left are hypotheses, not gaps:
  - the program hypothesis: `BodySim (shAt u) (I.rn u) body` at the split indices `u` (the program treats ids as opaque
    tokens; program level, proved for every script program), or its run-level replacement `SimAlong` / `PlanSim` (section
    "The program hypothesis at run level": along the runs concerned, the program fed with renamed inputs issues the renamed
    calls; implied by `BodySim`, strictly weaker, decidable per step and finite for runs that end).  `PlanSim` speaks about
    the runs that continue from each numeric stop *without* that stop — for `k` stops these are `k` runs (the uninterrupted
    one and `k - 1` split ones); a formulation on the uninterrupted run alone would need the run-level hypothesis to
    transfer along `T` (true for `BodySim` programs, not derivable from one run).
  - `ScopedRun I body fuel s0` — along the uninterrupted run the program names existing ids only (run-level, implied by the
    program-level `ScopedProg`, which holds for every script program).  Genuine: model programs can guess ids, Python
    programs cannot.
  - `AllStopFree s0` — no stale stop of an earlier *aborted* `run(until=event)`; with a stale stop a later run ends early, as
    in the implementation (`stale_stop_ends_later_run`).
  - the plan theorem speaks about plans all of whose pieces return normally (a piece that raises ends the plan, as in the
    harness); what a raising piece has done before it raised is covered per piece (`until_event_split_raised`) but not
    chained.
* `IdSt σ` (how abstract local states hold ids: `rn`, `below` with three laws) is an interface the user of the theorem
  supplies; `IdSt.none` serves every program whose local states hold no ids.
* determinism across interpreter hash seeds is sampled by the correspondence check, not proved.
-/

end C03
