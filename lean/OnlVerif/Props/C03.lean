import OnlVerif.Lemmas.KernelStep
import OnlVerif.Lemmas.KAccess
import OnlVerif.Lemmas.SplitStep
import OnlVerif.Lemmas.SplitDemo
import OnlVerif.Lemmas.SplitDemoTime
import OnlVerif.Lemmas.SplitScript
import OnlVerif.Lemmas.SplitFuelStep
import OnlVerif.Props.C01
/-!
# C03 — runs are reproducible and unaffected by where they are stopped and resumed

Model: `Environment.run(until=…)`, `Environment.step` in `OnlVerif/Kernel/Step.lean` (`runLoop`, `runUntilTime`,
`runUntilEvent`, the deferred `StopSimulation` in the callback loop).

Determinism needs no theorem: the model is a function of the program and the initial state, there is no wall
clock, no hash order and no object identity in it — `run_deterministic` records that.  Hash-seed independence of
the *implementation* is sampled by the correspondence check (fresh interpreters), not proved.

Split transparency — cutting a run into `step()`, `run(until=event)` and `run(until=number)` pieces yields the trace
of the uninterrupted run — is proved in three stages (sections below; helper lemmas in `Lemmas/Split*.lean`):
1. `step()` splits: `step_split_transparent`, `step_plan_transparent`, `run_budget_split`, `steps_then_run`;
2. `run(until=event)`: `until_event_split_transparent` (the run returns in *exactly* a state of the uninterrupted run),
   with the simulation lemma `until_event_sim_step`, the lockstep `until_event_lockstep`, and stale stops;
3. `run(until=number)`: `until_time_split_transparent_partial` (a simulation up to the renaming of the event ids
   allocated after the sentinel; partial: under well-scopedness hypotheses listed there).
The comment at the end says exactly what remains open.  The correspondence check compares split and uninterrupted runs of
the implementation with each other and with the model on generated split plans.
-/

namespace C03
variable {σ : Type}

/-- the model is a function: same program, same initial state, same result -/
theorem run_deterministic (body : σ → Resume → Burst ℚ σ) (fuel n : Nat) (s1 s2 : KState ℚ σ) (h : s1 = s2) :
    runAll body fuel n s1 = runAll body fuel n s2 := by rw [h]

/-- **`run(until=t)` with `t <= now` is refused with `ValueError` and changes nothing.** -/
theorem until_time_refused (body : σ → Resume → Burst ℚ σ) (fuel n : Nat) (t : ℚ) (s : KState ℚ σ) (h : t ≤ s.now) :
    runUntilTime body fuel n t s = .raised (valueErr "until must be > the current simulation time") s := by
  unfold runUntilTime; rw [if_pos h]

/-- **`run(until=t)` with `t > now` plants its stop exactly at `t`, URGENT**, in front of every entry queued before,
and then only steps: it never touches the state in any other way. -/
theorem until_time_plants_sentinel (body : σ → Resume → Burst ℚ σ) (fuel n : Nat) (t : ℚ) (s : KState ℚ σ)
    (h : s.now < t) :
    ∃ s1 : KState ℚ σ, runUntilTime body fuel n t s = runLoop body fuel (some s.events.size) n s1 ∧
      s1.agenda = { time := t, prio := URGENT, eid := s.eid, ev := s.events.size } :: s.agenda ∧
      s1.now = s.now ∧ (s1.ev s.events.size).cbs = some [.stop] ∧ (s1.ev s.events.size).out = some (.ok .none) := by
  unfold runUntilTime
  rw [if_neg (not_le.mpr h)]
  refine ⟨_, rfl, ?_, rfl, ?_, ?_⟩
  · exact C01.sentinel_due s t _
  · unfold KState.addCb
    rw [KState.ev_setEv, if_pos ⟨rfl, by simp [KState.newEv, KState.scheduleAt]⟩]
    simp [KState.ev, getD_push, KState.scheduleAt, KState.newEv]
  · unfold KState.addCb
    rw [KState.ev_setEv, if_pos ⟨rfl, by simp [KState.newEv, KState.scheduleAt]⟩]
    simp [KState.ev, getD_push, KState.scheduleAt, KState.newEv]

/-- **`run(until=event)` on an already processed event returns its value at once, without stepping.** -/
theorem until_event_processed_immediate (body : σ → Resume → Burst ℚ σ) (fuel n : Nat) (e : EvId) (v : Val)
    (s : KState ℚ σ) (hp : s.processed e = true) (hv : (s.ev e).out = some (.ok v)) :
    runUntilEvent body fuel n e s = .returned v s := by
  unfold runUntilEvent; rw [if_pos hp, hv]

/-- **`run(until=event)` only appends its stop to the event's callbacks and then steps.** -/
theorem until_event_registers_stop (body : σ → Resume → Burst ℚ σ) (fuel n : Nat) (e : EvId) (s : KState ℚ σ)
    (hp : s.processed e = false) :
    runUntilEvent body fuel n e s = runLoop body fuel (some e) n (s.addCb e .stop) := by
  unfold runUntilEvent; simp [hp]

/-- **The stop is deferred to the end of the callback loop**: a `StopSimulation` raised by the until-callback does not
cut the loop short — it only records the event's outcome; the state is untouched and the loop goes on. -/
theorem stop_is_deferred (body : σ → Resume → Burst ℚ σ) (fuel : Nat) (e : EvId) (l : LoopSt ℚ σ) (o : Outcome)
    (hv : (l.s.ev e).out = some o) :
    (runCb body fuel e l .stop).s = l.s ∧ (runCb body fuel e l .stop).stop = some o := by
  unfold runCb
  simp only [hv, Option.getD_some, and_self]

theorem stopped_after_whole_loop (l : LoopSt ℚ σ) (e : EvId) (o : Outcome) (hs : l.stop = some o) :
    closeEvent l e = .stopped o l.s := by
  unfold closeEvent; simp only [hs]

/-- **A stop never loses a process**: whether or not a stop has been recorded, every remaining callback of the event
still runs — `runCb` has no early exit at all (no callback of the model raises out of the loop). -/
theorem callbacks_after_stop_still_run (body : σ → Resume → Burst ℚ σ) (fuel : Nat) (e p : EvId) (l : LoopSt ℚ σ) :
    (runCb body fuel e l (.resume p)).s = resume body p fuel e l.s ∧ (runCb body fuel e l (.resume p)).stop = l.stop := by
  unfold runCb
  exact ⟨rfl, rfl⟩

/-- **`run()` returns exactly the value carried by the stop** (`until.value`), in the state in which `step` stopped;
for a failed until-event it raises that event's exception, in that same state. -/
theorem run_returns_stop_value (body : σ → Resume → Burst ℚ σ) (fuel n : Nat) (e : EvId) (s s' : KState ℚ σ) (v w : Val)
    (h : step body fuel s = .stopped (.ok v) s') (hok : (s'.ev e).out = some (.ok w)) :
    runLoop body fuel (some e) (n + 1) s = .returned v s' := by
  simp only [runLoop, h, onStop, Option.bind_some, hok]


/-! ## Split transparency, stage 1: `step()` splits

The observation trace is the field `KState.trace` of the state, so every equation between results below is in
particular an equation between traces. -/

/-- **`n + m` calls of `step()` are `n` calls followed by `m` calls from the state reached** — same state, same trace,
same way of ending (a stop, an exception or an empty agenda in the first piece ends the whole sequence there). -/
theorem step_split_transparent (body : σ → Resume → Burst ℚ σ) (fuel n m : Nat) (s : KState ℚ σ) :
    stepN body fuel (n + m) s = (stepN body fuel n s).andThen (stepN body fuel m) :=
  stepN_add body fuel n m s

/-- **Any split plan of `step()` budgets is the single uninterrupted sequence of the same total length**: the pieces,
run one after the other, end in the state (and so with the trace) of `plan.sum` consecutive `step()` calls. -/
theorem step_plan_transparent (body : σ → Resume → Burst ℚ σ) (fuel : Nat) (plan : List Nat) (s : KState ℚ σ) :
    stepPlan body fuel plan s = stepN body fuel plan.sum s :=
  stepPlan_eq body fuel plan s

/-- **Two pieces that both returned normally compose to the uninterrupted piece, trace included.** -/
theorem step_split_trace (body : σ → Resume → Burst ℚ σ) (fuel n m : Nat) (s s1 s2 : KState ℚ σ)
    (h1 : stepN body fuel n s = .ok s1) (h2 : stepN body fuel m s1 = .ok s2) :
    stepN body fuel (n + m) s = .ok s2 ∧
      ∀ s', stepN body fuel (n + m) s = .ok s' → s'.trace = s2.trace := by
  have h := (stepN_add_ok body fuel n m s s1 h1).trans h2
  refine ⟨h, ?_⟩
  intro s' hs'
  rw [h] at hs'
  cases hs'
  rfl

/-- **The loop of `run` with step budget `n + m` is the loop with budget `n`, continued with budget `m` from the state
in which the budget ran out**; a loop that ended (return, exception) within the first `n` steps is not continued. -/
theorem run_budget_split (body : σ → Resume → Burst ℚ σ) (fuel : Nat) (u : Option EvId) (n m : Nat) (s : KState ℚ σ) :
    runLoop body fuel u (n + m) s = (runLoop body fuel u n s).andThen (runLoop body fuel u m) :=
  runLoop_add body fuel u n m s

/-- **`k` calls of `step()` followed by `run(...)` are that `run(...)` started `k` steps earlier**: a loop that runs out
of budget after `k` steps did exactly the `k` calls of `step()`, and conversely the loop continues from the state the
`k` calls reached. -/
theorem steps_then_run (body : σ → Resume → Burst ℚ σ) (fuel : Nat) (u : Option EvId) (k n : Nat) (s s1 : KState ℚ σ)
    (h : stepN body fuel k s = .ok s1) :
    runLoop body fuel u k s = .outOfFuel s1 ∧ runLoop body fuel u (k + n) s = runLoop body fuel u n s1 :=
  ⟨(runLoop_outOfFuel_iff body fuel u k s s1).mpr h, runLoop_of_stepN_ok body fuel u k n s s1 h⟩

/-! ## Split transparency, stage 2: `run(until=event)` splits

`run(until=e)` changes the state in one way only: it appends `Cb.stop` (`StopSimulation.callback`) to the callback list of
`e`.  `KState.stripBy P` erases the stops of the events selected by `P` (`KState.strip`: of all events);
`StopEq P s1 s2` := `s1.stripBy P = s2.stripBy P` ("equal except for stops on `P`-events");
`StopFree P s` := `s.stripBy P = s` ("no `P`-event carries a stop", `StopFree.iff`); `AllStopFree` := `StopFree (fun _ => true)`.
`Lemmas/SplitStrip*.lean` prove, function by function (all 18 API calls, bursts of every program, `_resume`, interrupt
delivery, conditions, resource scans, the callback loop), that the erasure commutes with the model:
`f (s.stripBy P) = (f s).stripBy P`, every reply / flag / branch condition being the same. -/

/-- **The simulation lemma (one kernel step).**  If `s2` is the stop-free state `s1` plus `StopSimulation` callbacks (on
events selected by `P`, at arbitrary positions of their callback lists) and `s1` does a normal step to `s1'`, then `s2`
does the same step — it ends normally or with `StopSimulation` — to a state that is again `s1'` plus stop callbacks:
every process resumed by the one is resumed by the other, in the same order, with the same values. -/
theorem until_event_sim_step (body : σ → Resume → Burst ℚ σ) (fuel : Nat) (P : EvId → Bool) (s1 s2 s1' : KState ℚ σ)
    (hf : StopFree P s1) (heq : StopEq P s1 s2) (h : step body fuel s1 = .ok s1') :
    ∃ s2', (step body fuel s2 = .ok s2' ∨ ∃ o, step body fuel s2 = .stopped o s2') ∧ StopEq P s1' s2' ∧ StopFree P s1' :=
  step_sim body fuel P s1 s2 s1' hf heq h

/-- **Erasing stops commutes with a step, however the step ends** (normally, with `StopSimulation`, with an exception):
the step from the erased state ends in the erasure of the state the step with the stops ends in.  In particular both
steps append the same observations to the trace. -/
theorem stop_erasure_commutes_with_step (body : σ → Resume → Burst ℚ σ) (fuel : Nat) (P : EvId → Bool) (s s' : KState ℚ σ)
    (h : (step body fuel s).st? = some s') :
    (step body fuel (s.stripBy P)).st? = some (s'.stripBy P) ∧ (s'.stripBy P).trace = s'.trace :=
  ⟨step_stripBy_st P body fuel s s' h, rfl⟩

/-- **A step ends with `StopSimulation` exactly when the callback list of the event it processes holds a stop.** -/
theorem step_stops_iff_stop_registered (body : σ → Resume → Burst ℚ σ) (fuel : Nat) (s : KState ℚ σ) :
    (∃ o s', step body fuel s = .stopped o s') ↔ ∃ q rest, popMin s.agenda = some (q, rest) ∧ s.hasStop q.ev = true :=
  step_stopped_iff body fuel s

/-- **The model never registers a stop**: a state in which no `P`-event carries a stop steps to such a state. -/
theorem stop_free_preserved (body : σ → Resume → Burst ℚ σ) (fuel : Nat) (P : EvId → Bool) (s s' : KState ℚ σ)
    (hf : StopFree P s) (h : (step body fuel s).st? = some s') : StopFree P s' :=
  step_stopFree P body fuel s s' hf h

/-- **While `run(until=e)` is running it is in lockstep with the uninterrupted run**: after `k` of its steps the state is
the state of `k` uninterrupted steps plus stop callbacks, and those sit on `e` only. -/
theorem until_event_lockstep (body : σ → Resume → Burst ℚ σ) (fuel k : Nat) (e : EvId) (s s2 : KState ℚ σ)
    (hf : AllStopFree s) (h : stepN body fuel k (s.addCb e .stop) = .ok s2) :
    stepN body fuel k s = .ok s2.strip ∧ s2.strip.trace = s2.trace ∧ StopFree (fun i => i != e) s2 :=
  ⟨(runUntilEvent_lockstep body fuel k e s s2 hf h).1, rfl, (runUntilEvent_lockstep body fuel k e s s2 hf h).2⟩

/-- **`run(until=event)` is transparent.**  From a state without stale stops, for an event `e` that is not processed yet:
if `run(until=e)` returns (value `v`, state `s'`), then `s'` is *exactly* the state that `k + 1` uninterrupted `step()`
calls reach, for some `k + 1 ≤` the step budget — same event table, agenda, clock, processes, resources and **the same
trace**: no process was lost, duplicated or reordered by the stop.  `s'` carries no stop callback any more (`e` is
processed), so every continuation — more `step()`s, any `run(...)` — continues the uninterrupted run. -/
theorem until_event_split_transparent (body : σ → Resume → Burst ℚ σ) (fuel n : Nat) (e : EvId) (s s' : KState ℚ σ) (v : Val)
    (hf : AllStopFree s) (hp : s.processed e = false) (h : runUntilEvent body fuel n e s = .returned v s') :
    ∃ k, k < n ∧ stepN body fuel (k + 1) s = .ok s' ∧ AllStopFree s' ∧
      (∀ m, stepN body fuel (k + 1 + m) s = stepN body fuel m s') ∧
      (∀ u m, runLoop body fuel u (k + 1 + m) s = runLoop body fuel u m s') := by
  obtain ⟨k, hk, h1, h2⟩ := runUntilEvent_transparent body fuel n e s s' v hf hp h
  exact ⟨k, hk, h1, h2, fun m => stepN_add_ok body fuel (k + 1) m s s' h1,
    fun u m => runLoop_of_stepN_ok body fuel u (k + 1) m s s' h1⟩

/-- the hypotheses of `until_event_split_transparent` are satisfiable: in the two-process program of
`Lemmas/SplitDemo.lean`, after `step(); step()`, `run(until=ev)` returns 7 — hence (by the theorem) in a state of the
uninterrupted run -/
example : ∃ k, k < 20 ∧ stepN SplitDemo.body 3 (k + 1) SplitDemo.s2 = .ok SplitDemo.s5 :=
  let ⟨k, hk, h, _⟩ := until_event_split_transparent SplitDemo.body 3 20 SplitDemo.ev SplitDemo.s2 SplitDemo.s5 (.int 7)
    SplitDemo.s2_stopFree SplitDemo.ev_pending SplitDemo.r5_returned
  ⟨k, hk, h⟩

/-- computed by the model: the whole split plan `step(); step(); run(until=ev); run(until=6); run()` leaves the trace
(13 observations) of the single `run()` -/
example : (SplitDemo.RunResult.st SplitDemo.r9).trace = (SplitDemo.RunResult.st SplitDemo.rAll).trace ∧
    (SplitDemo.RunResult.st SplitDemo.rAll).trace.size = 13 := ⟨SplitDemo.split_trace_eq, SplitDemo.trace_size⟩

/-- **A stale stop is harmless for `step()` calls**: a stop callback left behind on some event by an earlier `run(until=…)`
that ended otherwise (an exception, an empty agenda) does not change what any number of normally returning `step()`
calls do: same states up to the stops, same trace. -/
theorem stale_stop_harmless_for_steps (body : σ → Resume → Burst ℚ σ) (fuel k : Nat) (s s' : KState ℚ σ)
    (h : stepN body fuel k s = .ok s') : stepN body fuel k s.strip = .ok s'.strip ∧ s'.strip.trace = s'.trace :=
  ⟨stepN_stripBy_ok _ body fuel k s s' h, rfl⟩

/-- **… but it ends a later `run` early** (as in the implementation, where the callback raises `StopSimulation` out of
`step()` whoever is running the loop): when the event carrying the stale stop is processed, a `run(until=u)` returns the
*stale* event's value — or raises the exception of its own until-event if that has failed (`onStop`) —, in a state that is
still a state of the uninterrupted run up to stops. -/
theorem stale_stop_ends_later_run (body : σ → Resume → Burst ℚ σ) (fuel n : Nat) (u : Option EvId) (s s' : KState ℚ σ)
    (o : Outcome) (h : step body fuel s = .stopped o s') :
    runLoop body fuel u (n + 1) s = onStop u o s' ∧ (step body fuel s.strip).st? = some s'.strip :=
  ⟨by simp only [runLoop, h], step_stripBy_st _ body fuel s s' (by rw [h]; rfl)⟩

/-- a stale stop on `ev` (as an aborted `run(until=ev)` leaves it) makes a plain `run()` return 7 at time 2 -/
example : SplitDemo.RunResult.val? (runAll SplitDemo.body 3 20 (SplitDemo.s2.addCb SplitDemo.ev .stop)) = some (.int 7) ∧
    (SplitDemo.RunResult.st (runAll SplitDemo.body 3 20 (SplitDemo.s2.addCb SplitDemo.ev .stop))).now = 2 := by
  decide +kernel

/-- **`run(until=e)` that ends with an exception has also followed the uninterrupted run** (a crashing callback, an
empty agenda, a failed until-event): `k` normal steps in lockstep, then a step that ends in the same state up to stops,
or an empty agenda in the same state. -/
theorem until_event_split_raised (body : σ → Resume → Burst ℚ σ) (fuel n : Nat) (e : EvId) (s s' : KState ℚ σ) (x : Exc)
    (hf : AllStopFree s) (hp : s.processed e = false) (h : runUntilEvent body fuel n e s = .raised x s') :
    ∃ k s1, k < n ∧ stepN body fuel k s = .ok s1 ∧
      ((step body fuel s1).st? = some s'.strip ∨ (step body fuel s1 = .empty ∧ s1 = s'.strip)) :=
  runUntilEvent_raised body fuel n e s s' x hf hp h

/-! ## Split transparency, stage 3: `run(until=number)` splits

The sentinel is a fresh event record at index `u = events.size`: every event allocated afterwards has, in the split run,
the id it has in the uninterrupted run plus one.  `c : SplitCfg σ` records a split (`c.u`, the sentinel's `eid` `c.eid0`,
the time `c.t`, and `c.rσ`, the renaming of ids kept in local process states); `c.ρ = shAt c.u` is the order-preserving
renaming; `c.T queued s` is the state of the split run that corresponds to the state `s` of the uninterrupted run (one
extra record at `c.u`, all ids renamed — in callback lists, kinds, process table, agenda, request data, values, resource
queues, shared slots and trace —, `eid` counter and later `eid`s one ahead, and, while `queued`, the agenda entry
`(c.t, URGENT, c.eid0, c.u)` at its insertion-stable position).  `Lemmas/SplitSent*.lean` prove, function by function
(all 18 API calls, bursts, `_resume`, interrupts, conditions, resource scans, the callback loop), that `c.T queued`
commutes with the model on states after the split.  Hypotheses of the theorems:

* `BodySim c.ρ c.rσ body` — the program treats event ids as opaque tokens: renaming the ids in its local state and in what
  it is resumed with renames the ids in the calls it makes (and nothing else).  True of every Python generator (ids are
  not observable there); it excludes model programs that compute with ids (`succeed (e + 1)`).
* `c.Closed s` — the state at the split is well-scoped: it mentions no id `≥ events.size` and no `eid ≥ s.eid`.
* `SortedAg s` — the agenda list is newest-first (`eid`s decreasing, below the counter); kept by every step.
* `c.FuelAlong body fuel s` — `Condition._build_value` of a condition with id `cd` recurses with fuel `cd + 1`; in the split
  run that is `cd + 2` for conditions created after the split; the hypothesis says one more unit changes nothing, in the
  states of the uninterrupted run in which a `_build_value` runs.  It follows from two state invariants at step
  boundaries (`fuel_hypothesis_of_wellformed`: operands are older than their condition, `CondWF`, and `_build_value`
  callbacks belong to allocated conditions, `BuildAlloc`); it is vacuous for conditions created before the split
  (`FuelOK_of_lt`) and when no `_build_value` is pending (`stepFuelOK_of_noBuild`). -/

/-- **The step that pops the sentinel does nothing else**: it advances the clock to `t`, marks the sentinel record processed
and raises `StopSimulation(None)`; the state it leaves, `c.afterSentinel s`, is the uninterrupted state `s` up to the
renaming, plus the dead sentinel record, with the clock at `t`. -/
theorem sentinel_pop_only_stops (c : SplitCfg σ) (body : σ → Resume → Burst ℚ σ) (fuel : Nat) (s : KState ℚ σ) (h : c.Inv s)
    (hp : popMin (c.T true s).agenda = some (c.sentEntry, s.agenda.map c.rnEntry)) :
    step body fuel (c.T true s) = .stopped (.ok .none) (c.afterSentinel s) ∧
      (c.afterSentinel s).now = c.t ∧ (c.afterSentinel s).trace = s.trace.map (rnObs c.ρ) ∧
      (c.afterSentinel s).agenda = s.agenda.map c.rnEntry ∧ (c.afterSentinel s).ev c.u = SplitCfg.deadRec false :=
  ⟨c.step_sentinel s body fuel h hp, rfl, rfl, rfl, c.ev_T_u false s h⟩

/-- **One step while the sentinel is queued**: the split run pops the (renamed) entry the uninterrupted run pops and does
the (renamed) step — unless the sentinel's key `(t, URGENT, eid0)` is smaller, then it pops the sentinel. -/
theorem sentinel_queued_step (c : SplitCfg σ) (body : σ → Resume → Burst ℚ σ) (hB : BodySim c.ρ c.rσ body) (fuel : Nat)
    (s : KState ℚ σ) (h : c.Inv s) (hs : SortedAg s) (hf : c.stepFuelOK body fuel s) :
    step body fuel (c.T true s) =
      match popMin s.agenda with
      | none => .stopped (.ok .none) (c.afterSentinel s)
      | some (m, _) =>
        if (c.rnEntry m).lt c.sentEntry then c.mapT true (step body fuel s)
        else .stopped (.ok .none) (c.afterSentinel s) :=
  c.step_T_true s body hB fuel h hs hf

/-- **One step after the sentinel is gone**: the split run does exactly the renamed step of the uninterrupted run, however
it ends. -/
theorem sentinel_gone_step (c : SplitCfg σ) (body : σ → Resume → Burst ℚ σ) (hB : BodySim c.ρ c.rσ body) (fuel : Nat)
    (s : KState ℚ σ) (h : c.Inv s) (hf : c.stepFuelOK body fuel s) :
    step body fuel (c.T false s) = c.mapT false (step body fuel s) :=
  c.step_T_false s body hB fuel h hf

/-- **`run(until=t)` is transparent up to the renaming of event ids** (partial: under the four hypotheses listed above).
If `run(until=t)` returns from a well-scoped, stop-free state `s` with `now < t`, it returns `None` in the state
`c.afterSentinel sk` where `sk` is the state the uninterrupted run reaches after some `k <` budget normal steps: **the
trace of the split run is the trace of the uninterrupted run with the ids renamed**; the clock is `t`; the returned state
carries no stop; every entry processed was due before the sentinel's key `(t, URGENT, eid0)` — strictly before `t`, or
at `t` itself, URGENT and queued before the sentinel —, and the next entry of the uninterrupted run (if any) is not. -/
theorem until_time_split_transparent_partial (c : SplitCfg σ) (body : σ → Resume → Burst ℚ σ) (fuel n : Nat)
    (s s' : KState ℚ σ) (v : Val)
    (hu : c.u = s.events.size) (he : c.eid0 = s.eid) (hlt : s.now < c.t)
    (hc : c.Closed s) (hs : SortedAg s) (hns : AllStopFree s) (hB : BodySim c.ρ c.rσ body)
    (hf : c.FuelAlong body fuel s) (h : runUntilTime body fuel n c.t s = .returned v s') :
    v = .none ∧ ∃ k sk, k < n ∧ stepN body fuel k s = .ok sk ∧ s' = c.afterSentinel sk ∧
      s'.trace = sk.trace.map (rnObs c.ρ) ∧ s'.now = c.t ∧ AllStopFree s' ∧
      (∀ j, j < k → ∀ sj m rest, stepN body fuel j s = .ok sj → popMin sj.agenda = some (m, rest) →
        (m.time < c.t ∨ (m.time = c.t ∧ m.prio = URGENT ∧ m.eid < c.eid0))) ∧
      (∀ m rest, popMin sk.agenda = some (m, rest) →
        ¬ (m.time < c.t ∨ (m.time = c.t ∧ m.prio = URGENT ∧ m.eid < c.eid0))) := by
  obtain ⟨hv, k, sk, hk, h1, h2, _, _, h5, h6, h7⟩ :=
    c.runUntilTime_transparent body fuel n s s' v hu he hlt hc hs hns hB hf h
  exact ⟨hv, k, sk, hk, h1, h2, by rw [h2]; rfl, by rw [h2]; rfl, h5, h6, h7⟩

/-- **… and every continuation stays the uninterrupted run with renamed ids, for ever**: `j + 1` further normal steps of
the uninterrupted run from `sk` are `j + 1` normal steps from the state in which `run(until=t)` returned, to the
corresponding state (`c.T false sj`: renamed ids, dead sentinel record, nothing else) — same trace up to the renaming. -/
theorem after_time_split_lockstep_partial (c : SplitCfg σ) (body : σ → Resume → Burst ℚ σ) (hB : BodySim c.ρ c.rσ body)
    (fuel j : Nat) (sk sj : KState ℚ σ) (hi : c.Inv sk) (hf : c.FuelAlong body fuel sk)
    (h : stepN body fuel (j + 1) sk = .ok sj) :
    stepN body fuel (j + 1) (c.afterSentinel sk) = .ok (c.T false sj) ∧
      (c.T false sj).trace = sj.trace.map (rnObs c.ρ) :=
  ⟨c.after_split_lockstep body hB fuel j sk sj hi hf h, rfl⟩

/-- **What the driver prints is unaffected by the renaming**: the trace lines identify an event by its creation label and
a process by the name kept in its local state; corresponding events have the same label, the same outcome up to the
renaming and render to the same text (`renderSimple` reads labels only), and corresponding processes have the
corresponding local state (the same one when, as for script programs, local states hold no ids: `c.rσ = id`). -/
theorem rendering_invariant (c : SplitCfg σ) (q : Bool) (s : KState ℚ σ) (h : c.Inv s) (e p : Nat) (v : Val) :
    ((c.T q s).ev (c.ρ e)).label = (s.ev e).label ∧
    renderSimple (c.T q s) (rnVal c.ρ v) = renderSimple s v ∧
    freezeVal (c.T q s) (rnVal c.ρ v) = rnVal c.ρ (freezeVal s v) ∧
    (c.T q s).proc? (c.ρ p) = (s.proc? p).map (rnProc c.ρ c.rσ) :=
  ⟨c.label_T q s h e, c.r_renderSimple q s h v, c.r_freezeVal q s h v, c.proc?_T q s p⟩

/-- **The agenda list stays newest-first** (`SortedAg`: `eid`s strictly decreasing along the list and below the counter):
it holds for an empty agenda and is kept by every API call and by every step, however the step ends — so the
`SortedAg` hypothesis of the stage-3 theorems holds in every state reached from a fresh environment. -/
theorem agenda_sorted_invariant (body : σ → Resume → Burst ℚ σ) (fuel : Nat) (s : KState ℚ σ) (hs : SortedAg s) :
    (∀ self cl, SortedAg (doCall s self cl).1) ∧ (∀ s', (step body fuel s).st? = some s' → SortedAg s') :=
  ⟨fun self cl => SortedAg.krel.doCall s self cl hs, fun s' h => SplitCfg.sortedAg_step body fuel s s' hs h⟩

/-- **The fuel hypothesis follows from two invariants of the states of the uninterrupted run** (at step boundaries):
`CondWF` — the operands of every condition are older than the condition — and `BuildAlloc` — a `_build_value` callback
belongs to an allocated condition.  (Both hold in every reachable state of an API-only program; not proved here.) -/
theorem fuel_hypothesis_of_wellformed (c : SplitCfg σ) (body : σ → Resume → Burst ℚ σ) (fuel : Nat) (s : KState ℚ σ)
    (h : ∀ j sj, stepN body fuel j s = .ok sj → CondWF sj ∧ BuildAlloc sj) : c.FuelAlong body fuel s :=
  fun j sj hj => c.stepFuelOK_of_wf body fuel sj (h j sj hj).1 (h j sj hj).2

/-- **Every program of the script language treats event ids as opaque tokens** (`BodySim` for every renaming): the
programs the correspondence check generates and runs on the real kernel satisfy the program hypothesis of the stage-3
theorems, provided the value literals in the program text are not event ids (`ProgsClosed`). -/
theorem script_programs_are_id_opaque (ρ : EvId → EvId) (progs : Progs ℚ) (h : ProgsClosed progs) :
    BodySim ρ id (_root_.body progs) :=
  script_bodySim ρ progs h

/-- the hypotheses of `until_time_split_transparent_partial` are satisfiable: the state `s5` of the demo (after
`step(); step(); run(until=ev)`) with the split `run(until=6)` -/
example : ∃ k sk, k < 20 ∧ stepN SplitDemo.body 3 k SplitDemo.s5 = .ok sk ∧
    SplitDemo.s6.trace = sk.trace.map (rnObs SplitDemo.cfg.ρ) ∧ SplitDemo.s6.now = 6 :=
  let ⟨_, k, sk, hk, h1, _, h3, h4, _, _, _⟩ := until_time_split_transparent_partial SplitDemo.cfg SplitDemo.body 3 20
    SplitDemo.s5 SplitDemo.s6 .none rfl rfl SplitDemo.s5_now SplitDemo.s5_closed SplitDemo.s5_sorted SplitDemo.s5_stopFree
    SplitDemo.cfg_body_sim SplitDemo.s5_fuel SplitDemo.r6_returned
  ⟨k, sk, hk, h1, h3, h4⟩

/-- computed by the model: it is `k = 2`, and the trace has 10 observations -/
example : SplitDemo.s6.trace = (SplitDemo.stOf (stepN SplitDemo.body 3 2 SplitDemo.s5) SplitDemo.s5).trace.map
    (rnObs SplitDemo.cfg.ρ) ∧ SplitDemo.s6.trace.size = 10 := SplitDemo.s6_trace

/-
What remains open for `split_transparent` (everything else above is proved for every program and every state):
* stages 1 and 2 (`step()` and `run(until=event)` splits) are complete: the split run passes through *exactly* the states
  of the uninterrupted run.
* stage 3 (`run(until=number)`) is proved as a simulation up to the id renaming `shAt u`, under hypotheses that are
  invariants of reachable states but are not proved to be: `c.Closed s` at the split (no id is used before it is
  allocated) and `c.FuelAlong` (reduced by `fuel_hypothesis_of_wellformed` to: operands of a condition are older than the
  condition, `_build_value` callbacks belong to allocated conditions — so the id-dependent recursion fuel of
  `Condition._build_value` is never the limit).  Discharging them needs one more walk through the model for the
  well-scopedness invariant (`KRel` is too coarse for it: its `newEv`/`addCb` leaves allow arbitrary records and
  callbacks).  `BodySim` (programs treat ids as opaque) is a genuine hypothesis on model programs, not a gap.
* chaining several numeric splits needs `Closed` of the state *after* a split — the same missing invariant.
* determinism across interpreter hash seeds is sampled by the correspondence check, not proved.
-/

end C03
