import OnlVerif.Basic.Num
/-!
# `onl.sim.rt.RealtimeEnvironment`

```python
def step(self):
    evt_time = self.peek()
    if evt_time is Infinity:
        raise EmptySchedule()
    real_time = self.real_start + (evt_time - self.env_start) * self.factor
    if self.strict and monotonic() - real_time > self.factor:
        delta = monotonic() - real_time
        raise RuntimeError(f'Simulation too slow for real time ({delta:.3f}s).')
    while True:
        delta = real_time - monotonic()
        if delta <= 0:
            break
        sleep(delta)
    Environment.step(self)
```

The wall clock is an *oracle list of readings*: every call of `monotonic()` consumes the next element, in
exactly the order of the code (one reading in the strict test — only when `strict`, because `and`
short-circuits —, a second one for the error message, then one per iteration of the sleep loop).  `sleep`
has no effect of its own: how long it really slept shows in the next reading, so early and late returns are
just different lists.  The kernel is abstract: `peek : κ → Option α` (`none` = `Infinity`) and
`kstep : κ → ρ` (`Environment.step`).

The sleep loop terminates only if the clock eventually reaches the due instant; over a finite list that
never does, the model answers `starved` (partial correctness; `sleepLoop_terminates` in `Lemmas/Rt.lean`
gives the progress condition).
-/

namespace Rt

structure RtState (α κ : Type) where
  realStart : α
  envStart : α
  factor : α
  strict : Bool
  k : κ

inductive SleepRes (α : Type) where
  /-- the loop left at reading `last`; `sleeps` are the arguments of the `sleep` calls made before; `rest` is unread -/
  | done (sleeps : List α) (last : α) (rest : List α)
  /-- the readings ran out while the loop was still waiting -/
  | starved (sleeps : List α)

inductive RtResult (α ρ : Type) where
  /-- `raise EmptySchedule()` -/
  | emptySchedule
  /-- `RuntimeError('Simulation too slow for real time (delta s).')`, `rest` is unread -/
  | tooSlow (delta : α) (rest : List α)
  /-- the loop was left and `Environment.step` ran with result `r` -/
  | stepped (r : ρ) (sleeps : List α) (last : α) (rest : List α)
  /-- the readings ran out (the step did not finish within the given clock behaviour) -/
  | starved

variable {α κ ρ : Type} [Num α]

/-- `RealtimeEnvironment.__init__(initial_time, factor, strict)`; `c` is the reading taken for `real_start` -/
def create (initialTime factor : α) (strict : Bool) (c : α) (k : κ) : RtState α κ :=
  { realStart := c, envStart := initialTime, factor := factor, strict := strict, k := k }

/-- `sync()`: `self.real_start = monotonic()` -/
def sync (s : RtState α κ) (c : α) : RtState α κ := { s with realStart := c }

/-- `real_time = self.real_start + (evt_time - self.env_start) * self.factor` -/
def dueTime (s : RtState α κ) (t : α) : α := s.realStart + (t - s.envStart) * s.factor

/-- `while True: delta = real_time - monotonic(); if delta <= 0: break; sleep(delta)` -/
def sleepLoop (realTime : α) : List α → List α → SleepRes α
  | [], acc => .starved acc
  | c :: cs, acc =>
    if realTime - c ≤ Num.zero then .done acc c cs
    else sleepLoop realTime cs (acc ++ [realTime - c])

/-- the part of `step` after the strict test -/
def sleepThenStep (kstep : κ → ρ) (s : RtState α κ) (due : α) (clock : List α) : RtResult α ρ :=
  match sleepLoop due clock [] with
  | .done sleeps last rest => .stepped (kstep s.k) sleeps last rest
  | .starved _ => .starved

/-- `self.strict and monotonic() - real_time > self.factor`, then the second reading for the message -/
def strictPhase (kstep : κ → ρ) (s : RtState α κ) (due : α) (clock : List α) : RtResult α ρ :=
  if s.strict then
    match clock with
    | [] => .starved
    | c1 :: cs =>
      if s.factor < c1 - due then
        match cs with
        | [] => .starved
        | c2 :: rest => .tooSlow (c2 - due) rest
      else sleepThenStep kstep s due cs
  else sleepThenStep kstep s due clock

/-- `RealtimeEnvironment.step` -/
def rtStep (peek : κ → Option α) (kstep : κ → ρ) (s : RtState α κ) (clock : List α) : RtResult α ρ :=
  match peek s.k with
  | none => .emptySchedule
  | some t => strictPhase kstep s (dueTime s t) clock

/-! ### a run: steps and `sync()` calls in any order -/

inductive RtOp where
  | step
  | sync
  deriving DecidableEq, Repr

inductive RunEnd (α : Type) where
  /-- all operations were executed -/
  | finished
  | emptySchedule
  | tooSlow (delta : α)
  | starved
  /-- an exception (or `StopSimulation`) left `Environment.step` -/
  | kernelLeft

structure RunOut (α κ ρ : Type) where
  /-- the results of the `Environment.step` calls made, in order -/
  results : List ρ
  final : RtState α κ
  rest : List α
  ending : RunEnd α

/-- run `ops` on the real-time environment; `cont r` is the kernel state with which the run goes on after a step
that returned normally (`none`: something left `step()`) -/
def rtRun (peek : κ → Option α) (kstep : κ → ρ) (cont : ρ → Option κ) :
    List RtOp → RtState α κ → List α → RunOut α κ ρ
  | [], s, clock => { results := [], final := s, rest := clock, ending := .finished }
  | .sync :: ops, s, clock =>
    match clock with
    | [] => { results := [], final := s, rest := [], ending := .starved }
    | c :: cs => rtRun peek kstep cont ops (sync s c) cs
  | .step :: ops, s, clock =>
    match rtStep peek kstep s clock with
    | .emptySchedule => { results := [], final := s, rest := clock, ending := .emptySchedule }
    | .tooSlow d rest => { results := [], final := s, rest := rest, ending := .tooSlow d }
    | .starved => { results := [], final := s, rest := [], ending := .starved }
    | .stepped r _ _ rest =>
      match cont r with
      | none => { results := [r], final := s, rest := rest, ending := .kernelLeft }
      | some k' =>
        let o := rtRun peek kstep cont ops { s with k := k' } rest
        { o with results := r :: o.results }

/-- the same kernel without pacing: `n` calls of `Environment.step` -/
def plainRun (kstep : κ → ρ) (cont : ρ → Option κ) : Nat → κ → List ρ
  | 0, _ => []
  | n + 1, k =>
    match cont (kstep k) with
    | none => [kstep k]
    | some k' => kstep k :: plainRun kstep cont n k'

end Rt
