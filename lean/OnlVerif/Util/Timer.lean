import OnlVerif.Basic.Num
/-!
# `onl.utils.timer.Timer` as a labelled transition system over its atomic bursts

```python
def run(self, env):
    try:
        while env.now < self.expire_time:
            yield self.env.timeout(self.expire_time - env.now)
            if not self.stopped:
                self.timeout_callback(*self.args, **self.kwargs)
                if self.auto_restart:
                    self.expire_time = env.now + self.timeout
    except Interrupt as _:
        pass
```

A `Timer` owns a *list of processes*: `__init__` starts the first one, every `restart()` that finds
`self.proc` alive interrupts it and starts another.  The kernel executes each of the following units
without interleaving; they are the actions of the LTS:

* `init pid`   – the `Initialize` event of process `pid` is processed (URGENT): the generator runs up to
                 its first `yield` (it sleeps for `expire - now`, i.e. wakes at `now + (expire - now)`)
                 or leaves the loop at once;
* `intr pid`   – an `Interruption` of `pid` is processed (URGENT): a dead victim is ignored, a sleeping one
                 is detached from its timeout, catches `Interrupt` and ends;
* `wake pid cb` – the sleep timeout of `pid` is processed (NORMAL): the callback fires unless `stopped`;
                 `cb` is what the user callback itself does to the timer (`stop()` / `restart(τ)` calls);
                 then the auto-restart re-base, then the loop test;
* `stop`, `restart τ` – calls from other processes;
* `tick t`     – the clock advances to `t`.

`create t0 timeout auto args` (the constructor) is the function that builds the initial state.  The interrupts
pending for a process are the `intr pid` entries of the URGENT queue `uq` (one global queue rather than one list per
process, because the kernel processes URGENT events of all processes in one creation order).

Admissibility (kernel guarantees, theorems of C01): URGENT events are created with delay 0 and are
processed in creation order before any NORMAL event of the instant and before the clock moves — the
model keeps them in the queue `uq`; `init`/`intr` are enabled only for its head, `wake`/`tick` only
when it is empty; `wake pid` only at exactly the instant `pid` sleeps until; `tick t` cannot pass a
sleeping process's wake-up instant.

Kernel refusals are explicit errors (`Err`): `Interruption.__init__` raises `RuntimeError` for a
process that has terminated (`triggered`) and for the active process.
-/

namespace Timer

/-- a timer process: `Initialize` still pending / suspended in `yield timeout` due at `w` / generator exited
(`Process.triggered`, hence `not is_alive`) -/
inductive PStat (α : Type) where
  | notStarted
  | sleeping (w : α)
  | finished

/-- URGENT kernel events owned by the timer -/
inductive UEv where
  | init (pid : Nat)
  | intr (pid : Nat)
  deriving DecidableEq, Repr

def UEv.pid : UEv → Nat
  | .init p => p
  | .intr p => p

/-- what a user callback does to its own timer -/
inductive CbOp (α : Type) where
  | stop
  | restart (tau : α)

/-- the `args` parameter of the constructor -/
inductive ArgSpec where
  | none
  | scalar (v : Int)
  | list (vs : List Int)

/-- `args=None → []`, a list/tuple is taken as it is, anything else is wrapped -/
def normArgs : ArgSpec → List Int
  | .none => []
  | .scalar v => [v]
  | .list vs => vs

inductive Err where
  /-- `ValueError("timeout should be positive value")` -/
  | valueError
  /-- `RuntimeError: … has terminated and cannot be interrupted.` -/
  | terminated
  /-- `RuntimeError: A process is not allowed to interrupt itself.` -/
  | selfInterrupt
  /-- `self.proc` does not name a process of this timer -/
  | noProcess
  /-- an `Interruption` reached a generator that was never started (it would die with the `Interrupt`) -/
  | intrUnstarted
  deriving DecidableEq, Repr

structure State (α : Type) where
  now : α
  timeout : α
  expire : α
  start : α
  stopped : Bool
  auto : Bool
  args : List Int
  /-- every process this timer ever started; the pid is the index -/
  procs : List (PStat α)
  /-- `self.proc` -/
  proc : Nat
  /-- pending URGENT events of the current instant, in creation order -/
  uq : List UEv

inductive Action (α : Type) where
  | init (pid : Nat)
  | wake (pid : Nat) (cb : List (CbOp α))
  | intr (pid : Nat)
  | stop
  | restart (tau : α)
  | tick (t : α)

inductive Out (α : Type) where
  /-- `timeout_callback(*args)` invoked at simulated time `now` -/
  | fire (now : α) (args : List Int)

def Out.time {α : Type} : Out α → α
  | .fire t _ => t

inductive Res (α : Type) where
  | ok (s : State α) (outs : List (Out α))
  /-- a Python exception leaves the burst -/
  | raised (e : Err)
  /-- the action is not admissible in this state -/
  | reject

variable {α : Type} [Num α]

/-- `Timer.__init__` -/
def create (t0 timeout : α) (auto : Bool) (a : ArgSpec) : Except Err (State α) :=
  if timeout ≤ Num.zero then .error .valueError else
  .ok { now := t0, timeout := timeout, start := t0, expire := t0 + timeout, stopped := false, auto := auto,
        args := normArgs a, procs := [.notStarted], proc := 0, uq := [.init 0] }

def PStat.alive : PStat α → Bool
  | .finished => false
  | _ => true

def setStat (s : State α) (pid : Nat) (st : PStat α) : State α :=
  { s with procs := s.procs.set pid st }

def popUq (s : State α) (rest : List UEv) : State α := { s with uq := rest }

/-- `while env.now < self.expire_time: yield self.env.timeout(self.expire_time - env.now)` — the timeout is
scheduled at `now + delay` -/
def loopTest (pid : Nat) (s : State α) : State α :=
  if s.now < s.expire then setStat s pid (.sleeping (s.now + (s.expire - s.now)))
  else setStat s pid .finished

/-- `Timer.stop` -/
def stopBody (s : State α) : State α := { s with stopped := true, expire := s.now }

/-- the three assignments at the head of `Timer.restart` -/
def rebase (tau : α) (s : State α) : State α :=
  { s with start := s.now, timeout := tau, expire := s.now + tau }

/-- `Process.interrupt()` = `Interruption(process, cause)` with its two refusals; `active` is `env.active_process` -/
def interruptReq (active : Option Nat) (pid : Nat) (s : State α) : Except Err (State α) :=
  match s.procs[pid]? with
  | none => .error .noProcess
  | some .finished => .error .terminated
  | some _ => if active = some pid then .error .selfInterrupt else .ok { s with uq := s.uq ++ [.intr pid] }

/-- `self.proc = self.env.process(self.run(self.env))` -/
def spawn (s : State α) : State α :=
  { s with procs := s.procs ++ [.notStarted], proc := s.procs.length, uq := s.uq ++ [.init s.procs.length] }

/-- `Timer.restart(tau)` called while `active` is the active process -/
def restartCall (active : Option Nat) (tau : α) (s : State α) : Except Err (State α) :=
  let s1 := rebase tau s
  if active = some s1.proc then .ok s1 else
  match s1.procs[s1.proc]? with
  | none => .error .noProcess
  | some st =>
    if st.alive then
      match interruptReq active s1.proc s1 with
      | .ok s2 => .ok (spawn s2)
      | .error e => .error e
    else .ok s1

def cbOp (pid : Nat) (s : State α) : CbOp α → Except Err (State α)
  | .stop => .ok (stopBody s)
  | .restart tau => restartCall (some pid) tau s

/-- the timer calls the user callback makes, in order -/
def runCb (pid : Nat) : List (CbOp α) → State α → Except Err (State α)
  | [], s => .ok s
  | op :: ops, s =>
    match cbOp pid s op with
    | .ok s' => runCb pid ops s'
    | .error e => .error e

/-- `if self.auto_restart: self.expire_time = env.now + self.timeout` -/
def autoRebase (s : State α) : State α :=
  if s.auto then { s with expire := s.now + s.timeout } else s

/-- the generator of `pid` resumes after its `yield` -/
def wakeBody (pid : Nat) (cb : List (CbOp α)) (s : State α) : Res α :=
  if s.stopped then
    (if cb.isEmpty then .ok (loopTest pid s) [] else .reject)
  else
    match runCb pid cb s with
    | .error e => .raised e
    | .ok s' => .ok (loopTest pid (autoRebase s')) [.fire s.now s.args]

/-- no sleeping process is due before `t` -/
def noneDueBefore (t : α) : List (PStat α) → Bool
  | [] => true
  | .sleeping w :: ps => !decide (w < t) && noneDueBefore t ps
  | _ :: ps => noneDueBefore t ps

def doInit (pid : Nat) (s : State α) : Res α :=
  match s.uq with
  | .init p :: rest =>
    if p = pid then
      match s.procs[pid]? with
      | some .notStarted => .ok (loopTest pid (popUq s rest)) []
      | _ => .reject
    else .reject
  | _ => .reject

def doIntr (pid : Nat) (s : State α) : Res α :=
  match s.uq with
  | .intr p :: rest =>
    if p = pid then
      match s.procs[pid]? with
      | some .finished => .ok (popUq s rest) []
      | some (.sleeping _) => .ok (setStat (popUq s rest) pid .finished) []
      | some .notStarted => .raised .intrUnstarted
      | none => .reject
    else .reject
  | _ => .reject

def doWake (pid : Nat) (cb : List (CbOp α)) (s : State α) : Res α :=
  match s.uq with
  | [] =>
    match s.procs[pid]? with
    | some (.sleeping w) => if Num.eqb w s.now then wakeBody pid cb s else .reject
    | _ => .reject
  | _ => .reject

def doTick (t : α) (s : State α) : Res α :=
  match s.uq with
  | [] => if s.now < t && noneDueBefore t s.procs then .ok { s with now := t } [] else .reject
  | _ => .reject

def ofExcept : Except Err (State α) → Res α
  | .ok s => .ok s []
  | .error e => .raised e

def step (s : State α) : Action α → Res α
  | .init pid => doInit pid s
  | .intr pid => doIntr pid s
  | .wake pid cb => doWake pid cb s
  | .stop => .ok (stopBody s) []
  | .restart tau => ofExcept (restartCall none tau s)
  | .tick t => doTick t s

/-- run an action sequence, collecting the outputs -/
def run : State α → List (Action α) → Res α
  | s, [] => .ok s []
  | s, a :: as =>
    match step s a with
    | .ok s' o =>
      match run s' as with
      | .ok s'' o' => .ok s'' (o ++ o')
      | r => r
    | .raised e => .raised e
    | .reject => .reject

/-- Kernel steps that change nothing public carry no label: an `Interruption` whose victim is already dead
returns at once.  The replay resolves such silent steps before the next labelled `init`/`wake`/`tick`:
`silentIntrs s` is the list of `intr` actions at the head of the URGENT queue whose victims are finished. -/
def silentIntrs (procs : List (PStat α)) : List UEv → List (Action α)
  | .intr p :: rest =>
    match procs[p]? with
    | some .finished => .intr p :: silentIntrs procs rest
    | _ => []
  | _ => []

end Timer
