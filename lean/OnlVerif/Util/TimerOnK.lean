import OnlVerif.Kernel.Step
import OnlVerif.Kernel.TimeCell
import OnlVerif.Util.Timer
/-!
# The Timer as processes *on the kernel model `K`*

`OnlVerif/Util/Timer.lean` describes `onl.utils.timer.Timer` as a labelled transition system over its atomic bursts
(model `E`); its admissibility rules *assume* what the kernel guarantees (URGENT events — process starts,
interrupts — are processed in creation order before any timeout of the instant and before the clock moves; a sleeping
process wakes exactly at its due instant).  This file writes the same class as a program of the kernel model
(`OnlVerif/Kernel`): the generator `Timer.run`, the methods `stop`/`restart` and a *controller* process that calls them
from outside are `Burst` programs; nothing is assumed about scheduling — `K`'s `step` decides what runs when, and
`Process.interrupt` is `K`'s `Interruption`.  `OnlVerif/Props/C19K.lean` proves that every run of this program is an
admissible run of the LTS (refinement) and that the callback fires exactly at the instants the property prescribes.

```python
def run(self, env):                                         def stop(self):
    try:                                                        self.stopped = True
        while env.now < self.expire_time:                       self.expire_time = self.env.now
            yield self.env.timeout(self.expire_time - env.now)
            if not self.stopped:                            def restart(self, timeout):
                self.timeout_callback(*self.args)               self.start_time = self.env.now
                if self.auto_restart:                           self.timeout = timeout
                    self.expire_time = env.now + self.timeout   self.expire_time = self.start_time + timeout
    except Interrupt as _:                                      if self.env.active_process is self.proc: return
        pass                                                    if self.proc.is_alive:
                                                                    self.proc.interrupt("restart timer")
                                                                    self.proc = self.env.process(self.run(self.env))
```

Encoding:

* the attributes live in the shared cells of `K` (`Call.load/store`): cell 0 = `stopped` (0/1), 1 = `expire_time`,
  2 = `timeout`, 3 = `start_time`, 4 = `proc` (the process event), 5 = the number of callback invocations so far (the
  state of the user's callback closure, which picks what the callback does to its own timer); cell 6 is a *ghost*: the
  number of processes the timer has started so far (not an attribute of the Python class; nothing in the program reads it
  except to increment it; the abstraction function `absTimer` uses it to number the processes as the LTS does);
* `Val` has no scalar constructor: a time is kept in a cell through the codec `TimeCell` (`dec (enc x) = some x`);
* `K` has no call that reads `env.now`.  Every generator carries the instant of its next resumption in its local
  state: the instant it was started at, then `now + delay` for the delay it sleeps (the very expression the kernel's
  `schedule` computes).  That this is `env.now` whenever the generator runs is part of the proved invariant; the
  observations (`log`) record the kernel's own clock;
* `self.timeout_callback(*args)` is the observation `log "fire" (int arg)`; what the callback then does to its own
  timer (`stop()`, `restart(τ)`, nothing) is the `k`-th entry of the list `cbs` (`k` = cell 5);
* `restart`: the two guards `active_process is self.proc` and `self.proc.is_alive` are the two refusals of
  `Interruption.__init__` (`mkInterrupt` of `K`: "terminated" ⇔ `not is_alive`, "self" ⇔ the caller is the victim; they
  exclude each other for the active process): the program calls `interrupt` and returns on a refusal, spawns the new
  process otherwise.  Nothing is resolved statically: a `restart` from the callback runs the same code as one from
  outside and is refused by the kernel's own test;
* the controller is `for gap, op in script: yield env.timeout(gap); timer.stop() | timer.restart(τ)`; it logs each
  call (`log "stop"` / `log "restart" τ`) so that the trace carries the whole call/fire history.
-/

/-- local states of the two generator functions (where each one is suspended, and the instant it resumes at) -/
inductive TSt (τ : Type) where
  /-- the controller: resumes at `now` (not started / after the sleep before `pending`), then the calls still to come -/
  | ctl (now : τ) (pending : Option (Timer.CbOp τ)) (rest : List (τ × Timer.CbOp τ))
  /-- `Timer.run` created at `now`, not started (`Initialize` is processed in the same instant) -/
  | tmStart (now : τ)
  /-- `Timer.run` suspended in `yield self.env.timeout(…)`, due at `wake` -/
  | tmSleep (wake : τ)

namespace TimerOnK
open Timer (CbOp)
variable {τ : Type} [Num τ] [TimeCell τ]

def cStopped : Nat := 0
def cExpire : Nat := 1
def cTimeout : Nat := 2
def cStart : Nat := 3
def cProc : Nat := 4
def cFired : Nat := 5
def cStarted : Nat := 6

def typeErr : Exc := ⟨"TypeError", []⟩

/-- what a program does with a reply it cannot use (never happens in the runs of this program) -/
def bad : Reply → Burst τ (TSt τ)
  | .err x => .raise x
  | _ => .raise typeErr

/-- read an integer attribute -/
def loadInt (k : Nat) (cont : Int → Burst τ (TSt τ)) : Burst τ (TSt τ) :=
  .call (.load k) fun rp => match rp with
    | .val (.int n) => cont n
    | rp => bad rp

/-- read a time attribute -/
def loadTime (k : Nat) (cont : τ → Burst τ (TSt τ)) : Burst τ (TSt τ) :=
  .call (.load k) fun rp => match rp with
    | .val v => (match TimeCell.dec v with
      | some x => cont x
      | none => .raise typeErr)
    | rp => bad rp

/-- read `self.proc` -/
def loadProc (cont : EvId → Burst τ (TSt τ)) : Burst τ (TSt τ) :=
  .call (.load cProc) fun rp => match rp with
    | .val (.ev p) => cont p
    | rp => bad rp

/-- `Timer.stop()` at instant `now`, followed by `cont` -/
def tStop (now : τ) (cont : Burst τ (TSt τ)) : Burst τ (TSt τ) :=
  .call (.store cStopped (.int 1)) fun _ =>                     -- self.stopped = True
  .call (.store cExpire (TimeCell.enc now)) fun _ =>            -- self.expire_time = self.env.now
  cont

/-- `Timer.restart(tau)` at instant `now`, followed by `cont` -/
def tRestart (now tau : τ) (cont : Burst τ (TSt τ)) : Burst τ (TSt τ) :=
  .call (.store cStart (TimeCell.enc now)) fun _ =>             -- self.start_time = self.env.now
  .call (.store cTimeout (TimeCell.enc tau)) fun _ =>           -- self.timeout = timeout
  .call (.store cExpire (TimeCell.enc (now + tau))) fun _ =>    -- self.expire_time = self.start_time + timeout
  loadProc fun p =>
  .call (.interrupt p (.str "restart timer")) fun rp => match rp with
    | .unit =>                                                  -- alive, not the caller: self.proc.interrupt(…)
      .call (.spawn (.tmStart now)) fun rp => match rp with     -- self.proc = self.env.process(self.run(self.env))
        | .ev p' =>
          .call (.store cProc (.ev p')) fun _ =>
          loadInt cStarted fun n => .call (.store cStarted (.int (n + 1))) fun _ =>       -- (ghost) one more process
          cont
        | rp => bad rp
    | .err _ => cont                        -- `active_process is self.proc` or `not self.proc.is_alive`: nothing more
    | rp => bad rp

/-- one call on the timer -/
def tCall (now : τ) (op : CbOp τ) (cont : Burst τ (TSt τ)) : Burst τ (TSt τ) :=
  match op with
  | .stop => tStop now cont
  | .restart tau => tRestart now tau cont

/-- `while env.now < self.expire_time: yield self.env.timeout(self.expire_time - env.now)` at instant `now` -/
def tmLoop (now : τ) : Burst τ (TSt τ) :=
  loadTime cExpire fun e =>
  if now < e then
    .call (.timeout (e - now) .none) fun rp => match rp with
      | .ev t => .yield t (.tmSleep (now + (e - now)))
      | rp => bad rp
  else .ret .none

/-- `if self.auto_restart: self.expire_time = env.now + self.timeout`, then the loop test -/
def tmRearm (auto : Bool) (now : τ) : Burst τ (TSt τ) :=
  if auto then
    loadTime cTimeout fun tmo =>
    .call (.store cExpire (TimeCell.enc (now + tmo))) fun _ =>
    tmLoop now
  else tmLoop now

/-- what the user callback does to its own timer at its `k`-th invocation (0-based) -/
def cbAt (cbs : List (Option (CbOp τ))) (k : Int) : Option (CbOp τ) := cbs.getD k.toNat none

/-- `Timer.run` after the sleep, at instant `now` -/
def tmWake (auto : Bool) (arg : Int) (cbs : List (Option (CbOp τ))) (now : τ) : Burst τ (TSt τ) :=
  loadInt cStopped fun st =>
  if st = 0 then                                                -- if not self.stopped:
    .call (.log "fire" (.int arg)) fun _ =>                     --   self.timeout_callback(*self.args)
    loadInt cFired fun k =>
    .call (.store cFired (.int (k + 1))) fun _ =>
    match cbAt cbs k with
    | none => tmRearm auto now
    | some op => tCall now op (tmRearm auto now)                --   … which may call stop()/restart(τ) itself
  else tmLoop now

/-- the controller loop from its head, at instant `now` -/
def ctlLoop (now : τ) : List (τ × CbOp τ) → Burst τ (TSt τ)
  | [] => .ret .none
  | (gap, op) :: rest => .call (.timeout gap .none) fun rp => match rp with
      | .ev e => .yield e (.ctl (now + gap) (some op) rest)
      | rp => bad rp

/-- one call of the controller: it is logged, then made -/
def ctlDo (now : τ) (op : CbOp τ) (cont : Burst τ (TSt τ)) : Burst τ (TSt τ) :=
  match op with
  | .stop => .call (.log "stop" .none) fun _ => tStop now cont
  | .restart tau => .call (.log "restart" (TimeCell.enc tau)) fun _ => tRestart now tau cont

/-- the generator functions as one `K` program -/
def body (auto : Bool) (arg : Int) (cbs : List (Option (CbOp τ))) : TSt τ → Resume → Burst τ (TSt τ)
  | .ctl now pending rest, _ =>
    match pending with
    | none => ctlLoop now rest
    | some op => ctlDo now op (ctlLoop now rest)
  | .tmStart _, .exc x => .raise x              -- an `Interrupt` thrown into a generator that has not started kills it
  | .tmStart now, _ => tmLoop now
  | .tmSleep _, .exc x => if x.ty = "Interrupt" then .ret .none else .raise x      -- except Interrupt: pass
  | .tmSleep now, _ => tmWake auto arg cbs now

/-- `Timer.__init__` (for a positive `timeout`; the constructor's `ValueError` is C19 `never_raises`):
`self.proc = env.process(self.run(env))` -/
def mkTimer (s : KState τ (TSt τ)) : KState τ (TSt τ) :=
  let sr := doCall s 0 (.spawn (.tmStart s.now))
  match sr.2 with
  | .ev p => (doCall sr.1 0 (.store cProc (.ev p))).1
  | _ => sr.1

/-- a fresh environment at instant 0 after `Timer(env, timeout, callback, auto_restart, args)` and
`env.process(controller(script))`, in this order or (`ctlFirst`) in the other -/
def initState (ctlFirst : Bool) (timeout : τ) (script : List (τ × CbOp τ)) : KState τ (TSt τ) :=
  let s0 : KState τ (TSt τ) :=
    { now := Num.zero
      shared := [(cStopped, .int 0), (cExpire, TimeCell.enc (Num.zero + timeout)), (cTimeout, TimeCell.enc timeout),
                 (cStart, TimeCell.enc (Num.zero : τ)), (cFired, .int 0), (cStarted, .int 1)] }
  if ctlFirst then mkTimer (doCall s0 0 (.spawn (.ctl Num.zero none script))).1
  else (doCall (mkTimer s0) 0 (.spawn (.ctl Num.zero none script))).1

/-! ## the history of a run and the property's oracle -/

/-- what happened to the timer, in the order of the kernel's trace -/
inductive HEv (τ : Type) where
  /-- the controller called `stop()` / `restart(τ)` at instant `t` -/
  | call (t : τ) (op : CbOp τ)
  /-- the callback was invoked at instant `t` -/
  | fire (t : τ)

def histOf1 : Obs τ → Option (HEv τ)
  | .log _ what v now =>
    if what = "fire" then some (.fire now)
    else if what = "stop" then some (.call now .stop)
    else if what = "restart" then (TimeCell.dec v).map fun tau => .call now (.restart tau)
    else none
  | _ => none

/-- the call/fire history recorded in a trace -/
def histOf (tr : Array (Obs τ)) : List (HEv τ) := tr.toList.filterMap histOf1

/-- the instants of the callback invocations recorded in a trace -/
def firesOf (tr : Array (Obs τ)) : List τ := (histOf tr).filterMap fun
  | .fire t => some t
  | _ => none

/-- the state of the property's oracle: the instant of the next prescribed firing (`none`: none is prescribed), the
current `timeout`, whether `stop()` has been called, the number of firings so far -/
structure OSt (τ : Type) where
  pending : Option τ
  timeout : τ
  stopped : Bool := false
  fired : Nat := 0

/-- **C19 as an acceptor of histories.**  A firing must happen exactly at the pending instant; it re-arms an
auto-restart timer `timeout` later, and a `restart(τ)` from the callback re-arms any timer `τ` later; a `stop()` from the
callback ends everything.  A call from outside must not find a prescribed firing overdue (`pending < t`: it was missed);
`stop()` cancels for good; `restart(τ)` at `t` on a pending timer moves the next firing to exactly `t + τ`; on a timer
that is not pending (a one-shot timer that has fired, or a stopped one) it arms nothing. -/
def ostep (auto : Bool) (cbs : List (Option (CbOp τ))) (o : OSt τ) : HEv τ → Option (OSt τ)
  | .fire f =>
    match o.pending with
    | none => none
    | some e =>
      if Num.eqb e f then
        match cbAt cbs o.fired with
        | none => some { o with fired := o.fired + 1, pending := if auto then some (f + o.timeout) else none }
        | some .stop => some { o with fired := o.fired + 1, pending := none, stopped := true }
        | some (.restart tau) => some { o with fired := o.fired + 1, pending := some (f + tau), timeout := tau }
      else none
  | .call t op =>
    if (match o.pending with | some e => decide (e < t) | none => false) then none else
    match op with
    | .stop => some { o with pending := none, stopped := true }
    | .restart tau =>
      match o.pending with
      | some _ => some { o with pending := some (t + tau), timeout := tau }
      | none => some { o with timeout := tau }

def orun (auto : Bool) (cbs : List (Option (CbOp τ))) : OSt τ → List (HEv τ) → Option (OSt τ)
  | o, [] => some o
  | o, h :: hs =>
    match ostep auto cbs o h with
    | some o' => orun auto cbs o' hs
    | none => none

/-- the oracle's state for a timer created at instant 0 -/
def o0 (timeout : τ) : OSt τ := { pending := some (Num.zero + timeout), timeout := timeout }

/-! ## the abstraction function -/

/-- a cell (`none` if unset) -/
def cellVal (s : KState τ (TSt τ)) (k : Nat) : Val := ((s.shared.find? (·.1 == k)).map (·.2)).getD Val.none

def cellTime (s : KState τ (TSt τ)) (k : Nat) : τ := (TimeCell.dec (cellVal s k)).getD Num.zero

def cellNat (s : KState τ (TSt τ)) (k : Nat) : Nat :=
  match cellVal s k with
  | .int n => n.toNat
  | _ => 0

/-- the LTS status of a timer process: finished once its process event is triggered (`not is_alive`), else where its
generator is suspended -/
def statOf (s : KState τ (TSt τ)) (p : EvId) : Timer.PStat τ :=
  if (s.ev p).out.isSome then .finished else
  match s.proc? p with
  | some { st := .tmSleep w, .. } => .sleeping w
  | _ => .notStarted

/-- the victim of the `Interruption` that waits in the agenda, if there is one -/
def victimOf (s : KState τ (TSt τ)) : Option EvId :=
  s.agenda.findSome? fun q => match (s.ev q.ev).kind with
    | .intr p => some p
    | _ => none

/-- **abstraction function**: the LTS state a kernel state of this program stands for, read off the attribute cells, the
process records, the event table and the agenda.  The processes are numbered in the order they were started: the
current one is the last, a process with an `Interruption` on its way is the last but one, all others have finished. -/
def absTimer (auto : Bool) (arg : Int) (s : KState τ (TSt τ)) : Timer.State τ :=
  let n := cellNat s cStarted
  let cur := match cellVal s cProc with | .ev p => p | _ => 0
  let vic := (victimOf s).toList
  { now := s.now, timeout := cellTime s cTimeout, expire := cellTime s cExpire, start := cellTime s cStart,
    stopped := cellNat s cStopped != 0, auto := auto, args := [arg],
    procs := List.replicate (n - 1 - vic.length) .finished ++ (vic.map (statOf s) ++ [statOf s cur]),
    proc := n - 1,
    uq := vic.map (fun _ => Timer.UEv.intr (n - 2)) ++
      (match statOf s cur with | .notStarted => [Timer.UEv.init (n - 1)] | _ => []) }

/-- the final state of `run()` if it returned, else `none` -/
def finalState (r : RunResult τ (TSt τ)) : Option (KState τ (TSt τ)) :=
  match r with
  | .returned _ s => some s
  | _ => none

/-- the state after the step budget ran out or `run()` returned (no exception) -/
def lastState (r : RunResult τ (TSt τ)) : Option (KState τ (TSt τ)) :=
  match r with
  | .returned _ s => some s
  | .outOfFuel s => some s
  | .raised _ _ => none

end TimerOnK
