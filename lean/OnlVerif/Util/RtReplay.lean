import OnlVerif.Util.Rt
import OnlVerif.Kernel.Replay
/-!
# Replaying real-time runs: `Rt.rtStep` around the kernel model `K` (line protocol, `Float` time)

Input: a kernel script case (`RES`, `PROG`, `I`, `MAIN` lines as in `Kernel/Replay.lean`) plus
```
CASE <id>
RT <initial_time bits> <factor bits> <strict 0|1>
CLOCK <bits>…             -- every value `monotonic()` returned during the run, in call order (lines may repeat)
OPS <s|y>…                -- `s` = env.step(), `y` = env.sync()  (lines may repeat)
END
```
The first reading is the constructor's (`real_start`).  The model decides by itself how many readings each
operation consumes.  Output per operation:
`Y <real_start bits>` for a sync; for a step `D <due bits> n=<sleep calls> <sleep argument bits>… last=<bits>`
followed by the kernel observations of that step and its snapshot line, or `TOOSLOW <delta bits>`, `EMPTY`,
`STARVED`; finally `U <number of unread readings>` and `F @<now bits>`.
-/

structure RtCase where
  kc : KCase := {}
  initial : Float := 0
  factor : Float := 1
  strict : Bool := true
  clock : Array Float := #[]
  ops : Array Bool := #[]     -- true = step, false = sync

def rtInitState (c : RtCase) : KS :=
  let s : KS := { now := c.initial, resources := c.kc.res }
  c.kc.mains.foldl (fun s (pn : Nat × Nat) => (doCall s 0 (.spawn { name := pn.2, prog := pn.1, pc := 0 })).1) s

def bitsListU (l : List Float) : String := String.join (l.map fun x => x.bitsStr ++ " ")

def runRtCase (c : RtCase) : IO Unit := do
  IO.println s!"CASE {c.kc.id}"
  match c.clock.toList with
  | [] => IO.println "STARVED"
  | c0 :: readings =>
    let mut rs : Rt.RtState Float KS := Rt.create c.initial c.factor c.strict c0 (rtInitState c)
    let mut clock := readings
    let mut dead := false
    for op in c.ops do
      if dead then
        IO.println "DEAD"
      else if !op then
        match clock with
        | [] => IO.println "STARVED"
        | r :: cs => rs := Rt.sync rs r; clock := cs; IO.println s!"Y {rs.realStart.bitsStr}"
      else
        let from_ := rs.k.trace.size
        match Rt.rtStep (fun (k : KS) => peekTime k.agenda) (step (body c.kc.progs) resumeFuel) rs clock with
        | .emptySchedule => IO.println "EMPTY"
        | .tooSlow d rest => clock := rest; IO.println s!"TOOSLOW {d.bitsStr}"
        | .starved => clock := []; IO.println "STARVED"
        | .stepped r sleeps last rest =>
          clock := rest
          let due := match peekTime rs.k.agenda with
            | some t => Rt.dueTime rs t
            | none => 0
          IO.println s!"D {due.bitsStr} n={sleeps.length} {bitsListU sleeps}last={last.bitsStr}"
          match r with
          | .ok s' => flushTrace s' from_; IO.println (fmtSnap s'); rs := { rs with k := s' }
          | .stopped o s' =>
            let v := match o with | .ok v => fmtVal s' v | .fail _ => "s*"
            flushTrace s' from_; IO.println s!"X StopSimulation {v} @{s'.now.bitsStr}"
            rs := { rs with k := s' }; dead := true
          | .empty => IO.println "EMPTY"
          | .crash x s' =>
            flushTrace s' from_; IO.println s!"X {fmtExc s' x} @{s'.now.bitsStr}"
            rs := { rs with k := s' }; dead := true
    IO.println s!"U {clock.length}"
    IO.println s!"F @{rs.k.now.bitsStr}"
  IO.println "ENDCASE"

partial def rtLoop (h : IO.FS.Stream) (c : RtCase) : IO Unit := do
  let line ← h.getLine
  if line.isEmpty then return
  let ws := (line.trimAscii.toString.splitOn " ").filter (· ≠ "")
  match ws with
  | ["CASE", id] => rtLoop h { kc := { id } }
  | ["CASE", id, _] => rtLoop h { kc := { id } }
  | ["RT", it, f, st] =>
    rtLoop h { c with initial := Float.ofBitsStr it, factor := Float.ofBitsStr f, strict := st == "1" }
  | "CLOCK" :: rs => rtLoop h { c with clock := c.clock ++ (rs.map Float.ofBitsStr).toArray }
  | "OPS" :: os => rtLoop h { c with ops := c.ops ++ (os.map (· == "s")).toArray }
  | "RES" :: rest =>
    match parseRes rest with
    | some r => rtLoop h { c with kc := { c.kc with res := c.kc.res.push r } }
    | none => IO.println s!"BADLINE {line}"; rtLoop h c
  | ["PROG"] => rtLoop h { c with kc := { c.kc with progs := c.kc.progs.push #[] } }
  | "I" :: rest =>
    match parseInstr rest with
    | some i => rtLoop h { c with kc := { c.kc with progs := c.kc.progs.modify (c.kc.progs.size - 1) (·.push i) } }
    | none => IO.println s!"BADLINE {line}"; rtLoop h c
  | ["MAIN", p, nm] => rtLoop h { c with kc := { c.kc with mains := c.kc.mains.push (p.toNat!, nm.toNat!) } }
  | ["END"] => runRtCase c; rtLoop h {}
  | [] => rtLoop h c
  | _ => IO.println s!"BADLINE {line}"; rtLoop h c
