import OnlVerif.Util.TimerOnK
/-!
# Running the Timer-on-kernel program (driver mode `timerk`)

```
CASE <id> <auto 0|1> <arg> <ctlFirst 0|1> <timeout bits> <until bits> <step budget>
cb none | cb stop | cb restart <tau bits>          -- what the callback does at its 1st, 2nd, … invocation
op <gap bits> stop | op <gap bits> restart <tau bits>   -- the controller's script
END
```
The driver runs `TimerOnK.body` on the kernel model at `Float` time with `run(until=<until>)` (`runUntilTime`) and prints
how the run ended, the call/fire history of the trace (`fire <now bits>`, `stop <now bits>`, `restart <tau bits> <now bits>`),
the attribute cells and the final clock.  The harness runs the real `Timer` with a real controller process on the real
kernel and compares line for line.
-/

namespace TimerOnK
open Timer (CbOp)

def tkb (s : String) : Float := Float.ofBitsStr s

def cellBits (s : KState Float (TSt Float)) (k : Nat) : String :=
  match (TimeCell.dec (cellVal s k) : Option Float) with
  | some x => x.bitsStr
  | none => "?"

def cellIntStr (s : KState Float (TSt Float)) (k : Nat) : String :=
  match cellVal s k with
  | .int n => toString n
  | _ => "?"

def showHEv : HEv Float → String
  | .fire t => s!"fire {t.bitsStr}"
  | .call t .stop => s!"stop {t.bitsStr}"
  | .call t (.restart tau) => s!"restart {tau.bitsStr} {t.bitsStr}"

def showRun (r : RunResult Float (TSt Float)) : List String :=
  let (tag, s) := match r with
    | .returned _ s => ("RET", s)
    | .raised x s => (s!"RAISED {x.ty}", s)
    | .outOfFuel s => ("FUEL", s)
  [tag] ++ (histOf s.trace).map showHEv ++
    [s!"cells stopped={cellIntStr s cStopped} expire={cellBits s cExpire} timeout={cellBits s cTimeout} " ++
       s!"start={cellBits s cStart} fired={cellIntStr s cFired}",
     s!"now {s.now.bitsStr}"]

partial def readScript (h : IO.FS.Stream) (cbs : List (Option (CbOp Float))) (ops : List (Float × CbOp Float)) :
    IO (List (Option (CbOp Float)) × List (Float × CbOp Float)) := do
  let line ← h.getLine
  if line.isEmpty then return (cbs.reverse, ops.reverse)
  let ws := (line.trimAscii.toString.splitOn " ").filter (· ≠ "")
  match ws with
  | ["END"] => return (cbs.reverse, ops.reverse)
  | ["cb", "none"] => readScript h (none :: cbs) ops
  | ["cb", "stop"] => readScript h (some .stop :: cbs) ops
  | ["cb", "restart", tau] => readScript h (some (.restart (tkb tau)) :: cbs) ops
  | ["op", gap, "stop"] => readScript h cbs ((tkb gap, .stop) :: ops)
  | ["op", gap, "restart", tau] => readScript h cbs ((tkb gap, .restart (tkb tau)) :: ops)
  | _ => readScript h cbs ops

end TimerOnK

partial def timerkLoop (h : IO.FS.Stream) : IO Unit := do
  let line ← h.getLine
  if line.isEmpty then return
  let ws := (line.trimAscii.toString.splitOn " ").filter (· ≠ "")
  match ws with
  | ["CASE", id, auto, arg, ctlFirst, tmo, untl, budget] =>
    IO.println s!"CASE {id}"
    let (cbs, ops) ← TimerOnK.readScript h [] []
    let r := runUntilTime (TimerOnK.body (auto == "1") arg.toInt! cbs) 1 budget.toNat! (TimerOnK.tkb untl)
      (TimerOnK.initState (ctlFirst == "1") (TimerOnK.tkb tmo) ops)
    for l in TimerOnK.showRun r do IO.println l
    IO.println "ENDCASE"
    timerkLoop h
  | [] => timerkLoop h
  | _ => IO.println s!"BADLINE {line.trimAscii.toString}"; timerkLoop h
