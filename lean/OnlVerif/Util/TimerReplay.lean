import OnlVerif.Util.Timer
/-!
# Replaying Timer histories through the LTS (line protocol, `Float` time)

Input (one record per line):
```
CASE <id>
create <t0 bits> <timeout bits> <auto 0|1> <N | S<int> | L<int>,<int>…>
init <pid> | intr <pid> | wake <pid> [stop | restart:<bits>]… | stop | restart <bits> | tick <bits>
END
```
Output: `CASE <id>`, one line per input line, `ENDCASE`.  An action answers with its outputs
(`F <now bits> [args]`) followed by the public snapshot
`S proc=<pid> st=<N|S|F per process> stopped=<0|1> timeout=<bits> start=<bits> expire=<bits> now=<bits>`;
an action the model does not enable answers `REJECT <line>`, a modelled exception `RAISED <error>`.
Silent kernel steps (an `Interruption` that finds its victim dead) carry no label; they are resolved before the
next `init`/`wake`/`tick` (`Timer.silentIntrs`).
-/

open Timer

abbrev TS := State Float

def fmtStat : PStat Float → String
  | .notStarted => "N"
  | .sleeping _ => "S"
  | .finished => "F"

def fmtTimerSnap (s : TS) : String :=
  s!"S proc={s.proc} st={String.join (s.procs.map fmtStat)} stopped={if s.stopped then 1 else 0} " ++
  s!"timeout={s.timeout.bitsStr} start={s.start.bitsStr} expire={s.expire.bitsStr} now={s.now.bitsStr}"

def fmtTimerOut : Out Float → String
  | .fire t args => s!"F {t.bitsStr} [{",".intercalate (args.map toString)}] "

def fmtErr : Err → String
  | .valueError => "ValueError"
  | .terminated => "RuntimeError:terminated"
  | .selfInterrupt => "RuntimeError:self-interrupt"
  | .noProcess => "noProcess"
  | .intrUnstarted => "intrUnstarted"

def parseArgSpec (t : String) : ArgSpec :=
  if t == "N" then .none
  else if t.startsWith "S" then .scalar (t.drop 1).toString.toInt!
  else
    let body := (t.drop 1).toString
    if body.isEmpty then .list [] else .list ((body.splitOn ",").map (·.toInt!))

def parseCbOp (t : String) : Option (CbOp Float) :=
  if t == "stop" then some .stop
  else if t.startsWith "restart:" then some (.restart (Float.ofBitsStr (t.drop 8).toString))
  else none

def parseAction (ws : List String) : Option (Action Float) :=
  match ws with
  | ["init", p] => some (.init p.toNat!)
  | ["intr", p] => some (.intr p.toNat!)
  | "wake" :: p :: ops =>
    let cb := ops.filterMap parseCbOp
    if cb.length == ops.length then some (.wake p.toNat! cb) else none
  | ["stop"] => some .stop
  | ["restart", b] => some (.restart (Float.ofBitsStr b))
  | ["tick", b] => some (.tick (Float.ofBitsStr b))
  | _ => none

/-- the silent steps the model resolves before `a` -/
def silentBefore (s : TS) : Action Float → List (Action Float)
  | .init _ | .wake _ _ | .tick _ => silentIntrs s.procs s.uq
  | _ => []

def applyLabelled (s : TS) (a : Action Float) : Res Float :=
  match run s (silentBefore s a) with
  | .ok s' _ => step s' a
  | r => r

partial def timerLoop (h : IO.FS.Stream) (st : Option TS) : IO Unit := do
  let line ← h.getLine
  if line.isEmpty then return
  let ws := (line.trimAscii.toString.splitOn " ").filter (· ≠ "")
  match ws with
  | ["CASE", id] => IO.println s!"CASE {id}"; timerLoop h none
  | ["END"] => IO.println "ENDCASE"; timerLoop h none
  | [] => timerLoop h st
  | ["create", t0, tmo, auto, a] =>
    match create (Float.ofBitsStr t0) (Float.ofBitsStr tmo) (auto == "1") (parseArgSpec a) with
    | .ok s => IO.println (fmtTimerSnap s); timerLoop h (some s)
    | .error e => IO.println s!"RAISED {fmtErr e}"; timerLoop h none
  | _ =>
    match st, parseAction ws with
    | some s, some a =>
      match applyLabelled s a with
      | .ok s' outs => IO.println (String.join (outs.map fmtTimerOut) ++ fmtTimerSnap s'); timerLoop h (some s')
      | .raised e => IO.println s!"RAISED {fmtErr e}"; timerLoop h (some s)
      | .reject => IO.println s!"REJECT {line.trimAscii.toString}"; timerLoop h (some s)
    | _, _ => IO.println s!"BADLINE {line.trimAscii.toString}"; timerLoop h st
