import OnlVerif.Kernel.Step
import OnlVerif.Generated.KernelObj
/-!
# Reading the *generated* kernel definitions (`Generated/Kernel*.lean`) on the kernel model `K`

`py2lean/kernel.py` translates the decision logic of `onl/sim` into functions over small object views
(`Gen.ResourceObj`, `Gen.ContainerObj`, `Gen.RequestObj`, `Gen.ConditionObj`, `Gen.EventObj`) that return the bool the
method returns, the exception it raised and the *list of effects* it performed (`KEff`).  This file is the explicit,
hand-written encoding between the two worlds:

* `capOf`, `resObj`, `contObj`, `reqObj`, `condObj`, `evObj` - the Python object a model record stands for;
* `applyEff` / `runEff` - what each effect does to a model state (one model leaf function per constructor; an effect that
  has no meaning in the family of the method is `none`, so that a bridge theorem cannot hold by ignoring an effect);
* `buildEvent`, `outcomeOf`, `schedOf`, `schedAll`, `applyTrig` - the attribute view of an event under construction
  (`callbacks`, `_ok`, `_value`, `_defused`) and the `schedule` calls of a constructor / trigger method;
* `toEntry`, `pushEntry` - a queue tuple as a model agenda entry.

Only definitions here (core Lean), and only those that mention **no source-derived definition**: this file imports the object
schemas (`Generated/KernelObj.lean`, independent of the library source) and no other generated file, so that every bridge
module can share it without depending on a generated file of another property (`py2lean/SCOPE.md`).  How a translated method
is *run* on a model state (`run…`, `keyOf`) is defined next to the lemmas about it, one file per generated file:
`GenKernelRes6.lean`, `GenKernelRes7.lean`, `GenKernelCancel.lean`, `GenKernelCond.lean`, `GenKernelSched01.lean`,
`GenKernelEvent02.lean`, `GenKernelRun03.lean`, `GenKernelProc04.lean`.
-/

namespace GenKernel
variable {τ σ : Type} [Num τ]

/-! ## objects -/

/-- the capacity of a model resource as the Python number (`none` = `float('inf')`) -/
def capOf : Option Nat → ExtInt
  | none => .inf
  | some c => .fin c

/-- a `Resource` / `Store` object before a `_do_put` / `_do_get` call -/
def resObj (rr : ResRec) : Gen.ResourceObj τ := { capacity := capOf rr.capacity, ret := false, eff := [] }

/-- a `Container` object before a `_do_put` / `_do_get` call -/
def contObj (rr : ResRec) : Gen.ContainerObj τ := { capacity := capOf rr.capacity, level := rr.level, ret := false, eff := [] }

/-- a request before `__init__` / `cancel` -/
def reqObj : Gen.RequestObj τ := { raised := 0, raise_site := 0, eff := [] }

/-- an event before `__init__` / `succeed` / `fail` -/
def evObj : Gen.EventObj τ := { raised := 0, raise_site := 0, eff := [] }

/-- a `Condition` object before a `_check` call -/
def condObj (s : KState τ σ) (c : EvId) : Gen.ConditionObj τ := { count := (s.ev c).count, eff := [] }

/-- `event._ok` of a triggered event -/
def evOk (s : KState τ σ) (e : EvId) : Bool :=
  match (s.ev e).out with
  | some (.fail _) => false
  | _ => true

/-! ## effects of the resource and condition methods -/

/-- who is who in a translated method: `r` = the resource (`self` of `_do_put/_do_get`, `self.resource` of `cancel`),
`e` = the request (`event`, or `self` of `cancel`) / the operand event of `_check`, `c` = the condition (`self` of `_check`),
`w` = the victim `sorted(self.users, key=…)[-1]`, `m` = the first item that passes `event.filter` -/
structure Cx where
  r : ResId := 0
  e : EvId := 0
  c : EvId := 0
  w : EvId := 0
  m : Option Int := none

/-- one effect on the model state -/
def applyEff (cx : Cx) (s : KState τ σ) : KEff τ → Option (KState τ σ)
  | .usersAppendEvent => some (s.setUsers cx.r ((s.res cx.r).users ++ [cx.e]))
  | .setUsageSinceNow => some (s.setUsage cx.e)
  | .eventSucceedNone => some (s.trigger cx.e (.ok .none))
  | .usersRemoveRequest => some (s.setUsers cx.r ((s.res cx.r).users.erase (reqOf s cx.e).releaseOf))
  | .usersRemoveVictim => some (s.setUsers cx.r ((s.res cx.r).users.erase cx.w))
  | .interruptVictim =>
    some (match (reqOf s cx.w).proc with
      | some vp => (mkInterrupt s vp (.preempted (reqOf s cx.e).proc cx.w cx.r)).1
      | none => s)
  | .setLevel v => some (s.setLevel cx.r v)
  | .itemsAppendItem => some (s.setItems cx.r ((s.res cx.r).items ++ [(reqOf s cx.e).item]))
  /- the model keeps the heap of a `PriorityStore` as a bag and pops its minimum -/
  | .itemsHeappushItem => some (s.setItems cx.r ((s.res cx.r).items ++ [(reqOf s cx.e).item]))
  | .eventSucceedPopFirst =>
    match (s.res cx.r).items with
    | x :: rest => some ((s.setItems cx.r rest).trigger cx.e (.ok (.int x)))
    | [] => none
  | .eventSucceedHeappop =>
    match listMin (s.res cx.r).items with
    | some x => some ((s.setItems cx.r ((s.res cx.r).items.erase x)).trigger cx.e (.ok (.int x)))
    | none => none
  | .itemsRemoveMatch => cx.m.map fun x => s.setItems cx.r ((s.res cx.r).items.erase x)
  | .eventSucceedMatch => cx.m.map fun x => s.trigger cx.e (.ok (.int x))
  | .putQueueRemoveSelf => some (dropPutQ s cx.r cx.e)
  | .getQueueRemoveSelf => some (dropGetQ s cx.r cx.e)
  | .rescanPut => some (triggerPut s cx.r)
  | .rescanGet => some (triggerGet s cx.r)
  | .setCount v => some (s.setEv cx.c { s.ev cx.c with count := v.toNat })
  | .eventDefuse => some (s.defuse cx.e)
  | .selfFailWithEventValue =>
    match (s.ev cx.e).out with
    | some (.fail x) => some (s.trigger cx.c (.fail x))
    | _ => none
  | .selfSucceedNone => some (s.trigger cx.c (.ok .none))
  | _ => none

/-- the effects of a call, in program order -/
def runEff (cx : Cx) : List (KEff τ) → KState τ σ → Option (KState τ σ)
  | [], s => some s
  | x :: xs, s => (applyEff cx s x).bind (runEff cx xs)

/-! ## the result of a translated `_do_put` / `_do_get` -/

/-- pair the state after the effects with the returned bool -/
def finish (cx : Cx) (s : KState τ σ) (eff : List (KEff τ)) (ret : Bool) : Option (KState τ σ × Bool) :=
  (runEff cx eff s).map fun s' => (s', ret)

/-- the effects of `ContainerPut.__init__` / `ContainerGet.__init__` when they do not raise: `self.amount = a`, then the
base-class constructor -/
def initAmount : List (KEff τ) → Option Int
  | [.setAmount a, .requestInit] => some a
  | _ => none



/-! ## events under construction, trigger methods -/

/-- the attributes of an event object that the model keeps: `callbacks`, `_ok`, whether `_value` was written, `_defused` -/
structure PyEvent where
  cbs : Option (List Cb) := none
  ok : Option Bool := none
  hasValue : Bool := false
  defused : Bool := false

/-- the attribute writes of a constructor / trigger method (`f` names the bound method stored by `self.callbacks = […]`);
`schedule` calls are read separately (`schedOf`); any other effect is `none` -/
def buildEvent (f : Nat → Cb) : List (KEff τ) → PyEvent → Option PyEvent
  | [], o => some o
  | .eventInit :: l, o => buildEvent f l { o with cbs := some [] }
  | .setCallbacks k :: l, o => buildEvent f l { o with cbs := some [f k] }
  | .setOk b :: l, o => buildEvent f l { o with ok := some b }
  | .setValue :: l, o => buildEvent f l { o with hasValue := true }
  | .selfDefuse :: l, o => buildEvent f l { o with defused := true }
  | .setProcess :: l, o => buildEvent f l o        -- the victim is carried by the model's `Kind.intr p`
  | .schedule _ _ :: l, o => buildEvent f l o
  | _ :: _, _ => none

/-- `(_ok, _value)` as the model's outcome: `v` / `x` are the value / exception the caller supplied -/
def PyEvent.out (o : PyEvent) (v : Val) (x : Exc) : Option Outcome :=
  if o.hasValue then o.ok.map fun b => if b then Outcome.ok v else Outcome.fail x else none

/-- the model record of the object -/
def PyEvent.toRec (o : PyEvent) (k : Kind) (v : Val) (x : Exc) : EvRec τ :=
  { kind := k, cbs := o.cbs, out := o.out v x, defused := o.defused }

/-- the `schedule(self, prio, delay)` calls of a log -/
def schedOf : List (KEff τ) → List (Nat × τ)
  | [] => []
  | .schedule p d :: l => (p, d) :: schedOf l
  | _ :: l => schedOf l

/-- perform `schedule(e, prio, delay)` for every entry -/
def schedAll (s : KState τ σ) (e : EvId) : List (Nat × τ) → KState τ σ
  | [] => s
  | (p, d) :: l => schedAll (s.schedule e p d) e l

/-- a trigger method (`succeed`, `fail`, the end of `_resume`) on the existing event `e`: write `_ok` / `_value`, schedule -/
def applyTrig (s : KState τ σ) (e : EvId) (log : List (KEff τ)) (v : Val) (x : Exc) : Option (KState τ σ) :=
  match buildEvent (fun _ => Cb.stop) log {} with
  | some o =>
    match o.out v x, o.cbs, o.defused with
    | some oc, none, false => some (schedAll (s.setOut e oc) e (schedOf log))
    | _, _, _ => none
  | none => none

/-! ## queue entries -/

/-- a queue tuple `(time, priority, eid, event)` as an agenda entry of the model -/
def toEntry (t : τ × Nat × Nat × Nat) : QEntry τ := { time := t.1, prio := t.2.1, eid := t.2.2.1, ev := t.2.2.2 }

/-- `heappush(self._queue, t)` where `t` was built with `next(self._eid)` -/
def pushEntry (s : KState τ σ) (t : τ × Nat × Nat × Nat) : KState τ σ :=
  { s with agenda := toEntry t :: s.agenda, eid := s.eid + 1 }

end GenKernel
