import OnlVerif.Lemmas.CondPop
/-!
# `Condition._check`: what it does to the state, and that it keeps the counting invariant when it runs as a callback
-/

namespace Cond
variable {σ : Type}

open Once (lt_of_isCond isCond_congr lt_of_cbs_some ev_default)

/-- what one executed `_check` of a pending condition `c` for event `e` does -/
structure CheckSpec (s : KState ℚ σ) (c e : EvId) (s' : KState ℚ σ) : Prop where
  size : s'.events.size = s.events.size
  kind : ∀ x, (s'.ev x).kind = (s.ev x).kind
  cbs : ∀ x, (s'.ev x).cbs = (s.ev x).cbs
  out_ne : ∀ x, x ≠ c → (s'.ev x).out = (s.ev x).out
  count_ne : ∀ x, x ≠ c → (s'.ev x).count = (s.ev x).count
  count_c : (s'.ev c).count = (s.ev c).count + 1
  defused : ∀ x, (s.ev x).defused = true → (s'.ev x).defused = true
  out_fail : ∀ x, (s.ev e).out = some (.fail x) → (s'.ev c).out = some (.fail x) ∧ (s'.ev e).defused = true
  out_ok : (∀ x, (s.ev e).out ≠ some (.fail x)) →
    (evaluate (isAll s c) (ops s c).length ((s.ev c).count + 1) = true → (s'.ev c).out = some (.ok .none)) ∧
    (evaluate (isAll s c) (ops s c).length ((s.ev c).count + 1) = false → (s'.ev c).out = none)

theorem ev_bumpCount (s : KState ℚ σ) (c x : EvId) :
    (s.bumpCount c).ev x = if x = c ∧ c < s.events.size then { s.ev c with count := (s.ev c).count + 1 } else s.ev x := by
  unfold KState.bumpCount; exact KState.ev_setEv s c x _

theorem ev_defuse (s : KState ℚ σ) (e x : EvId) :
    (s.defuse e).ev x = if x = e ∧ e < s.events.size then { s.ev e with defused := true } else s.ev x := by
  unfold KState.defuse; exact KState.ev_setEv s e x _

theorem ev_trigger (s : KState ℚ σ) (c x : EvId) (o : Outcome) :
    (s.trigger c o).ev x = if x = c ∧ c < s.events.size then { s.ev c with out := some o } else s.ev x := by
  show (s.setOut c o).ev x = _
  unfold KState.setOut; exact KState.ev_setEv s c x _

theorem size_bumpCount (s : KState ℚ σ) (c : EvId) : (s.bumpCount c).events.size = s.events.size := by
  unfold KState.bumpCount; exact Once.size_setEv _ _ _
theorem size_defuse (s : KState ℚ σ) (c : EvId) : (s.defuse c).events.size = s.events.size := by
  unfold KState.defuse; exact Once.size_setEv _ _ _
theorem size_trigger (s : KState ℚ σ) (c : EvId) (o : Outcome) : (s.trigger c o).events.size = s.events.size := by
  show (s.setOut c o).events.size = _
  unfold KState.setOut; exact Once.size_setEv _ _ _

/-- **`_check` of a pending condition**, spelled out -/
theorem condCheck_spec (s : KState ℚ σ) (c e : EvId) (hu : (s.ev c).out = none) (hlt : c < s.events.size) (hne : e ≠ c) :
    CheckSpec s c e (condCheck s c e) := by
  have hnt : s.triggered c = false := by unfold KState.triggered; rw [hu]; rfl
  unfold condCheck
  rw [hnt]
  simp only [Bool.false_eq_true, if_false]
  -- the state after the bump
  have hb : ∀ x, (s.bumpCount c).ev x = if x = c then { s.ev c with count := (s.ev c).count + 1 } else s.ev x := by
    intro x; rw [ev_bumpCount]
    by_cases h : x = c
    · rw [if_pos ⟨h, hlt⟩, if_pos h]
    · rw [if_neg (fun hh => h hh.1), if_neg h]
  have hbs : (s.bumpCount c).events.size = s.events.size := size_bumpCount s c
  split
  · -- the operand has failed
    rename_i x hx
    have hd : ∀ y, ((s.bumpCount c).defuse e).ev y =
        if y = e ∧ e < s.events.size then { s.ev e with defused := true } else (s.bumpCount c).ev y := by
      intro y; rw [ev_defuse, hbs]
      by_cases h : y = e ∧ e < s.events.size
      · rw [if_pos h, if_pos h, hb, if_neg hne]
      · rw [if_neg h, if_neg h]
    have hds : ((s.bumpCount c).defuse e).events.size = s.events.size := by rw [size_defuse, hbs]
    have ht : ∀ y, (((s.bumpCount c).defuse e).trigger c (.fail x)).ev y =
        if y = c then { s.ev c with count := (s.ev c).count + 1, out := some (.fail x) }
        else if y = e ∧ e < s.events.size then { s.ev e with defused := true } else s.ev y := by
      intro y; rw [ev_trigger, hds]
      by_cases h : y = c
      · rw [if_pos ⟨h, hlt⟩, if_pos h, hd, if_neg (fun hh => hne hh.1.symm), hb, if_pos rfl]
      · rw [if_neg (fun hh => h hh.1), if_neg h, hd, hb, if_neg h]
    refine ⟨by rw [size_trigger, hds], ?_, ?_, ?_, ?_, ?_, ?_, ?_, ?_⟩
    · intro y; rw [ht]; split
      · rename_i h; rw [h]
      · split
        · rename_i h; rw [h.1]
        · rfl
    · intro y; rw [ht]; split
      · rename_i h; rw [h]
      · split
        · rename_i h; rw [h.1]
        · rfl
    · intro y hy; rw [ht, if_neg hy]; split
      · rename_i h; rw [h.1]
      · rfl
    · intro y hy; rw [ht, if_neg hy]; split
      · rename_i h; rw [h.1]
      · rfl
    · rw [ht, if_pos rfl]
    · intro y hy; rw [ht]; split
      · rename_i h; rw [h] at hy; exact hy
      · split
        · rfl
        · exact hy
    · intro x' hx'
      rw [hx] at hx'; cases hx'
      refine ⟨by rw [ht, if_pos rfl], ?_⟩
      rw [ht, if_neg hne]
      have helt : e < s.events.size := Once.lt_of_out s e (by rw [hx]; simp)
      rw [if_pos ⟨rfl, helt⟩]
    · intro hno; exact absurd hx (hno x)
  · rename_i hnf
    have hnf' : ∀ x, (s.ev e).out ≠ some (.fail x) := fun x hx => hnf x hx
    have hops : ops (s.bumpCount c) c = ops s c := ops_congr (by rw [hb, if_pos rfl])
    split
    · rename_i hev
      have ht : ∀ y, ((s.bumpCount c).trigger c (.ok .none)).ev y =
          if y = c then { s.ev c with count := (s.ev c).count + 1, out := some (.ok .none) } else s.ev y := by
        intro y; rw [ev_trigger, hbs]
        by_cases h : y = c
        · rw [if_pos ⟨h, hlt⟩, if_pos h, hb, if_pos rfl]
        · rw [if_neg (fun hh => h hh.1), if_neg h, hb, if_neg h]
      refine ⟨by rw [size_trigger, hbs], ?_, ?_, ?_, ?_, ?_, ?_, ?_, ?_⟩
      · intro y; rw [ht]; split
        · rename_i h; rw [h]
        · rfl
      · intro y; rw [ht]; split
        · rename_i h; rw [h]
        · rfl
      · intro y hy; rw [ht, if_neg hy]
      · intro y hy; rw [ht, if_neg hy]
      · rw [ht, if_pos rfl]
      · intro y hy; rw [ht]; split
        · rename_i h; rw [h] at hy; exact hy
        · exact hy
      · intro x hx; exact absurd hx (hnf' x)
      · intro _
        refine ⟨fun _ => by rw [ht, if_pos rfl], fun h => ?_⟩
        unfold isAll ops at h
        rw [h] at hev; cases hev
    · rename_i hev
      refine ⟨hbs, ?_, ?_, ?_, ?_, ?_, ?_, ?_, ?_⟩
      · intro y; rw [hb]; split
        · rename_i h; rw [h]
        · rfl
      · intro y; rw [hb]; split
        · rename_i h; rw [h]
        · rfl
      · intro y hy; rw [hb, if_neg hy]
      · intro y hy; rw [hb, if_neg hy]
      · rw [hb, if_pos rfl]
      · intro y hy; rw [hb]; split
        · rename_i h; rw [h] at hy; exact hy
        · exact hy
      · intro x hx; exact absurd hx (hnf' x)
      · intro _
        refine ⟨fun h => ?_, fun _ => by rw [hb, if_pos rfl]; exact hu⟩
        unfold isAll ops at h
        exact absurd h hev

theorem CheckSpec.shape {s s' : KState ℚ σ} {c e : EvId} (h : CheckSpec s c e s') : Shape s s' := Shape.of_kind h.kind

theorem CheckSpec.processed {s s' : KState ℚ σ} {c e : EvId} (h : CheckSpec s c e s') (x : EvId) :
    s'.processed x = s.processed x := by
  unfold KState.processed; rw [h.cbs]

theorem CheckSpec.nProcessed {s s' : KState ℚ σ} {c e : EvId} (h : CheckSpec s c e s') (d : EvId) :
    nProcessed s' d = nProcessed s d :=
  nProcessed_congr (h.shape.ops_eq d) (fun x _ => h.processed x)

theorem CheckSpec.gone_iff {s s' : KState ℚ σ} {c e : EvId} (h : CheckSpec s c e s') (rem : List Cb) (d : EvId) :
    Gone rem s' d ↔ Gone rem s d := by
  have hb : ∀ a, Built rem s' a ↔ Built rem s a := fun a => by
    unfold Built; rw [h.shape.isCond_eq, h.cbs]
  exact ⟨Gone.transfer h.shape.symm (fun a ha => (hb a).mp ha), Gone.transfer h.shape (fun a ha => (hb a).mpr ha)⟩

/-- the check of `c` for the event being processed has run (or was refused because `c` is triggered): the state `s'`
differs from `s` only in the record of `c` and in `defused` flags.  All clauses that do not concern `c` carry over. -/
theorem CInv.check_step {rest : List Cb} {e0 c : EvId} {s s' : KState ℚ σ} (hc : CInv (.check c :: rest) e0 s)
    (hsize : s'.events.size = s.events.size) (hkind : ∀ x, (s'.ev x).kind = (s.ev x).kind)
    (hcbs : ∀ x, (s'.ev x).cbs = (s.ev x).cbs) (hout : ∀ x, x ≠ c → (s'.ev x).out = (s.ev x).out)
    (hcount : ∀ x, x ≠ c → (s'.ev x).count = (s.ev x).count)
    (hdef : ∀ x, (s.ev x).defused = true → (s'.ev x).defused = true)
    (hcU : (s.ev c).out = none → (s.ev c).cbs ≠ none)
    (hkeep : ∀ o, (s.ev c).out = some o → (s'.ev c).out = some o)
    (h_cnt : (s'.ev c).out = none → ¬ Gone rest s' c → (s'.ev c).count + rest.count (.check c) = nProcessed s' c)
    (h_nofail : (s'.ev c).out = none → ∀ e ∈ ops s c, s.processed e = true → ∀ x, (s.ev e).out = some (.fail x) →
      e = e0 ∧ Cb.check c ∈ rest)
    (h_unmet : (s'.ev c).out = none → evaluate (isAll s c) (ops s c).length (s'.ev c).count = false)
    (h_met : ∀ v, (s'.ev c).out = some (.ok v) → evaluate (isAll s c) (ops s c).length (nProcessed s c) = true)
    (h_fail : ∀ x, (s'.ev c).out = some (.fail x) →
      ∃ e ∈ ops s c, s.processed e = true ∧ (s.ev e).out = some (.fail x) ∧ (s'.ev e).defused = true) :
    CInv rest e0 s' := by
  have hS : Shape s s' := Shape.of_kind hkind
  have hproc : ∀ x, s'.processed x = s.processed x := fun x => by unfold KState.processed; rw [hcbs]
  have hnP : ∀ d, nProcessed s' d = nProcessed s d := fun d => nProcessed_congr (hS.ops_eq d) (fun x _ => hproc x)
  have hgone : ∀ d, Gone rest s' d ↔ Gone (.check c :: rest) s d := by
    intro d
    have hb : ∀ a, Built rest s' a ↔ Built (.check c :: rest) s a := fun a => by
      unfold Built; rw [hS.isCond_eq, hcbs]
      simp only [List.mem_cons, reduceCtorEq, false_or]
    exact ⟨Gone.transfer hS.symm (fun a ha => (hb a).mp ha), Gone.transfer hS (fun a ha => (hb a).mpr ha)⟩
  have hcc : isCond s c = true := isCond_of_mem_ops (hc.rem_att c List.mem_cons_self)
  have hne0 : e0 ≠ c := fun h => by
    have := hc.older c e0 (hc.rem_att c List.mem_cons_self)
    rw [h] at this; exact Nat.lt_irrefl _ this
  have hcntne : ∀ d, d ≠ c → (Cb.check c :: rest).count (.check d) = rest.count (.check d) := by
    intro d hd
    rw [List.count_cons]
    have : ¬ (Cb.check c == Cb.check d) = true := by
      intro h; rw [beq_iff_eq] at h; cases h; exact hd rfl
    simp [this]
  have hmemne : ∀ d, d ≠ c → (Cb.check d ∈ Cb.check c :: rest ↔ Cb.check d ∈ rest) := by
    intro d hd
    rw [List.mem_cons]
    constructor
    · rintro (h | h)
      · cases h; exact absurd rfl hd
      · exact h
    · exact Or.inr
  -- an operand `c` of another pending condition: `c` is still unprocessed
  refine ⟨?_, ?_, ?_, ?_, ?_, ?_, ?_, ?_, ?_, ?_, ?_, ?_, ?_, ?_, ?_⟩
  · intro d e he; rw [hS.ops_eq] at he; exact hc.older d e he
  · intro d hg e L hL
    rw [hcbs] at hL; rw [hS.ops_eq]
    exact hc.chk_att d (fun hh => hg ((hgone d).mpr hh)) e L hL
  · intro d hg e L hL
    rw [hcbs] at hL
    exact hc.chk_gone d ((hgone d).mp hg) e L hL
  · intro d hm; rw [hS.ops_eq]; exact hc.rem_att d (List.mem_cons_of_mem _ hm)
  · intro d hg hm; exact hc.rem_gone d ((hgone d).mp hg) (List.mem_cons_of_mem _ hm)
  · intro e L d hL hm; rw [hcbs] at hL; rw [hS.ops_eq]; exact hc.bld_own e L d hL hm
  · intro d L hL hne; rw [hcbs] at hL; rw [hS.ops_eq] at hne; exact hc.bld_cnt d L hL hne
  · intro d hm; rw [hS.ops_eq]; exact hc.rem_bld_own d (List.mem_cons_of_mem _ hm)
  · intro d
    have := hc.rem_bld_cnt d
    rw [List.count_cons] at this
    simp only [beq_iff_eq, reduceCtorEq, if_false, Nat.add_zero] at this
    exact this
  · intro _
    obtain ⟨h1, h2⟩ := hc.e0_done (by simp)
    exact ⟨by rw [hsize]; exact h1, by rw [hcbs]; exact h2⟩
  · intro d hcond ho hg
    by_cases hd : d = c
    · subst hd; exact h_cnt ho hg
    · rw [hS.isCond_eq] at hcond
      rw [hout d hd] at ho
      rw [hcount d hd, hnP, ← hcntne d hd]
      exact hc.cnt d hcond ho (fun hh => hg ((hgone d).mpr hh))
  · intro d hcond ho hg e he hp x hx
    rw [hS.ops_eq] at he
    rw [hproc] at hp
    by_cases hd : d = c
    · subst hd
      have hec : e ≠ d := fun h => by
        have := hc.older d e he; rw [h] at this; exact Nat.lt_irrefl _ this
      rw [hout e hec] at hx
      exact h_nofail ho e he hp x hx
    · rw [hS.isCond_eq] at hcond
      rw [hout d hd] at ho
      have hgs : ¬ Gone (.check c :: rest) s d := fun hh => hg ((hgone d).mpr hh)
      by_cases hec : e = c
      · -- `c` itself is an operand of `d`: it cannot be processed yet unless it was triggered before
        rw [hec] at hp hx he ⊢
        have hxs : (s.ev c).out = some (.fail x) := by
          cases ho' : (s.ev c).out with
          | none => exact absurd (processed_iff.mp hp) (hcU ho')
          | some o => have := hkeep o ho'; rw [hx] at this; cases this; rfl
        obtain ⟨h1, h2⟩ := hc.nofail d hcond ho hgs c he hp x hxs
        exact ⟨h1, (hmemne d hd).mp h2⟩
      · rw [hout e hec] at hx
        obtain ⟨h1, h2⟩ := hc.nofail d hcond ho hgs e he hp x hx
        exact ⟨h1, (hmemne d hd).mp h2⟩
  · intro d hcond ho
    by_cases hd : d = c
    · subst hd; rw [hS.isAll_eq, hS.ops_eq]; exact h_unmet ho
    · rw [hS.isCond_eq] at hcond
      rw [hout d hd] at ho
      rw [hS.isAll_eq, hS.ops_eq, hcount d hd]
      exact hc.unmet d hcond ho
  · intro d v hcond ho
    by_cases hd : d = c
    · subst hd; rw [hS.isAll_eq, hS.ops_eq, hnP]; exact h_met v ho
    · rw [hS.isCond_eq] at hcond
      rw [hout d hd] at ho
      rw [hS.isAll_eq, hS.ops_eq, hnP]
      exact hc.met d v hcond ho
  · intro d x hcond ho
    by_cases hd : d = c
    · subst hd
      obtain ⟨e, he, hp, hx, hdf⟩ := h_fail x ho
      have hec : e ≠ d := fun h => by
        have := hc.older d e he; rw [h] at this; exact Nat.lt_irrefl _ this
      exact ⟨e, by rw [hS.ops_eq]; exact he, by rw [hproc]; exact hp, by rw [hout e hec]; exact hx, hdf⟩
    · rw [hS.isCond_eq] at hcond
      rw [hout d hd] at ho
      obtain ⟨e, he, hp, hx, hdf⟩ := hc.failsrc d x hcond ho
      refine ⟨e, by rw [hS.ops_eq]; exact he, by rw [hproc]; exact hp, ?_, hdef e hdf⟩
      by_cases hec : e = c
      · rw [hec] at hx ⊢; exact hkeep _ hx
      · rw [hout e hec]; exact hx

theorem count_check_cons (c : EvId) (rest : List Cb) : (Cb.check c :: rest).count (.check c) = rest.count (.check c) + 1 := by
  rw [List.count_cons_self]

/-- **`_check` running as a callback of the event being processed keeps the counting invariant**, and is then no
longer among the callbacks still to run -/
theorem CInv.condCheck_cb {rest : List Cb} {e0 c : EvId} {s : KState ℚ σ} (hc : CInv (.check c :: rest) e0 s)
    (hdt : ∀ e, e < s.events.size → (s.ev e).cbs = none → (s.ev e).out ≠ none) :
    CInv rest e0 (condCheck s c e0) ∧ Mono (.check c :: rest) s (condCheck s c e0) := by
  have hmem : e0 ∈ ops s c := hc.rem_att c List.mem_cons_self
  have hcc : isCond s c = true := isCond_of_mem_ops hmem
  have hlt : c < s.events.size := lt_of_isCond s c hcc
  have hne0 : e0 ≠ c := fun h => by
    have := hc.older c e0 hmem
    rw [h] at this; exact Nat.lt_irrefl _ this
  have hcU : (s.ev c).out = none → (s.ev c).cbs ≠ none := fun h hn => hdt c hlt hn h
  obtain ⟨he0lt, he0⟩ := hc.e0_done (by simp)
  cases hu : (s.ev c).out with
  | some o =>
    -- already triggered: `_check` returns at once
    have hs : condCheck s c e0 = s := by
      unfold condCheck
      have : s.triggered c = true := by unfold KState.triggered; rw [hu]; rfl
      rw [this]; rfl
    rw [hs]
    refine ⟨?_, Mono.refl _ s⟩
    refine hc.check_step rfl (fun _ => rfl) (fun _ => rfl) (fun _ _ => rfl) (fun _ _ => rfl) (fun _ h => h) hcU
      (fun _ h => h) ?_ ?_ ?_ ?_ ?_
    · intro h; rw [hu] at h; cases h
    · intro h; rw [hu] at h; cases h
    · intro h; rw [hu] at h; cases h
    · intro v h; exact hc.met c v hcc h
    · intro x h; exact hc.failsrc c x hcc h
  | none =>
    have hsp := condCheck_spec s c e0 hu hlt hne0
    have hg : ¬ Gone (.check c :: rest) s c := fun h => hc.rem_gone c h List.mem_cons_self
    have hcnt0 := hc.cnt c hcc hu hg
    rw [count_check_cons] at hcnt0
    have hle := nProcessed_le s c
    constructor
    · refine hc.check_step hsp.size hsp.kind hsp.cbs hsp.out_ne hsp.count_ne hsp.defused hcU
        (fun o h => by rw [hu] at h; cases h) ?_ ?_ ?_ ?_ ?_
      · -- count
        intro ho _
        rw [hsp.count_c, hsp.nProcessed]
        omega
      · -- no failed processed operand
        intro ho e he hp x hx
        obtain ⟨h1, _⟩ := hc.nofail c hcc hu hg e he hp x hx
        rw [h1] at hx
        have := (hsp.out_fail x hx).1
        rw [ho] at this; cases this
      · intro ho
        rw [hsp.count_c]
        by_cases hf : ∃ x, (s.ev e0).out = some (.fail x)
        · obtain ⟨x, hx⟩ := hf
          have := (hsp.out_fail x hx).1
          rw [ho] at this; cases this
        · have hnf : ∀ x, (s.ev e0).out ≠ some (.fail x) := fun x hx => hf ⟨x, hx⟩
          cases hev : evaluate (isAll s c) (ops s c).length ((s.ev c).count + 1) with
          | false => rfl
          | true => have := (hsp.out_ok hnf).1 hev; rw [ho] at this; cases this
      · intro v ho
        by_cases hf : ∃ x, (s.ev e0).out = some (.fail x)
        · obtain ⟨x, hx⟩ := hf
          have := (hsp.out_fail x hx).1
          rw [ho] at this; cases this
        · have hnf : ∀ x, (s.ev e0).out ≠ some (.fail x) := fun x hx => hf ⟨x, hx⟩
          cases hev : evaluate (isAll s c) (ops s c).length ((s.ev c).count + 1) with
          | false => have := (hsp.out_ok hnf).2 hev; rw [ho] at this; cases this
          | true => exact evaluate_mono hev (by omega) hle
      · intro x ho
        by_cases hf : ∃ x, (s.ev e0).out = some (.fail x)
        · obtain ⟨x', hx'⟩ := hf
          obtain ⟨h1, h2⟩ := hsp.out_fail x' hx'
          rw [ho] at h1; cases h1
          exact ⟨e0, hmem, processed_iff.mpr he0, hx', h2⟩
        · have hnf : ∀ x, (s.ev e0).out ≠ some (.fail x) := fun x hx => hf ⟨x, hx⟩
          cases hev : evaluate (isAll s c) (ops s c).length ((s.ev c).count + 1) with
          | false => have := (hsp.out_ok hnf).2 hev; rw [ho] at this; cases this
          | true => have := (hsp.out_ok hnf).1 hev; rw [ho] at this; cases this
    · have hxc : ∀ x, (s.ev x).out ≠ none → x ≠ c := fun x h hx => by rw [hx] at h; exact h hu
      refine ⟨?_, ?_, ?_, ?_⟩
      · intro x o ho
        exact Or.inl (by rw [hsp.out_ne x (hxc x (by rw [ho]; simp))]; exact ho)
      · intro x ho; rw [hsp.out_ne x (hxc x ho)]; exact ho
      · intro x ho; exact hsp.count_ne x (hxc x ho)
      · intro d _ ho hgd
        have : d ≠ c := fun h => hg (h ▸ hgd)
        rw [hsp.out_ne d this]; exact ho

end Cond
