import OnlVerif.Lemmas.WRRKFrame
/-!
# The WRR scheduler on the kernel model: kernel steps that run `WRR.run`

Each lemma executes `Environment.step` of the kernel model symbolically on a state with configuration `a` whose next
agenda entry belongs to the server (its `Initialize`, the `StoreGet` it waits for, the `Initialize` / timeout / `Process`
event of its sender), and shows that the resulting state has the configuration the lemma names.
-/

set_option linter.unusedSimpArgs false

namespace WRRK
open WRROnK
open TimerK (lookup plookup afterBurst resume_eq step_eq)

variable {F : Nat} {flow size : Int → Nat} {rate : ℚ} {ws : List (Nat × Nat)}
variable {s : KS} {a : A} {q : QEntry ℚ} {rest : List (QEntry ℚ)}

theorem txTime_nonneg (hrate : 0 < rate) (id : Int) : 0 ≤ txTime size rate id := by
  unfold txTime
  rw [Num.ofNat_rat]
  exact div_nonneg (Nat.cast_nonneg _) (le_of_lt hrate)

/-- a resumption starts with the attribute cells of the state before the step -/
theorem burst_shared (s : KS) (q : QEntry ℚ) (rest : List (QEntry ℚ)) (p e : EvId) (r : Resume) (t : ℚ) :
    ((deliverSt (openEvent s q rest) p e).emit (.resumed p r t)).shared = s.shared := by
  unfold deliverSt
  split <;> rfl

theorem count_cells (hk : KInv flow F s a) (S : KS) (hS : S.shared = s.shared) :
    ∀ f, f < F → lookup S.shared (cCount f) = .int (a.cnt f) := by
  intro f hf
  rw [hS]
  exact hk.cc f hf

/-- the `assert store` of the `for` loop holds: a backlogged flow has been put -/
theorem has_cells (hk : KInv flow F s a) (hflows : ∀ x ∈ ws, x.1 < F) (hkeys : ∀ f, f < F → 0 < a.cnt f → f ∈ a.keys)
    (S : KS) (hS : S.shared = s.shared) : ∀ e ∈ ws, 0 < a.cnt e.1 → lookup S.shared (cHas e.1) = .int 1 := by
  intro e he hpos
  rw [hS, hk.ch e.1 (hflows e he), if_pos (hkeys e.1 (hflows e he) hpos)]

/-! ## the three ways a burst of `WRR.run` ends: it takes a packet, takes a token, or blocks -/

set_option hygiene false in
/-- `KInv` of the configuration in which `run` has taken packet `id` from `stores[f]`; `e0` = the event just processed -/
macro "leaf_hit" e0:term : tactic => `(tactic| (
  refine ⟨⟨?_, ?_, ?_, ?_, ?_, ?_, ?_, ?_, ?_, ?_, ?_, ?_, ?_, ?_⟩, ?_⟩
  · exact wf_push1 hwf.1 _ rfl rfl rfl rfl (le_refl _)
  · simp only [A.entries, RPhase.entries, List.singleton_append]
    exact List.Perm.cons _ hrest
  · wsimp [hrsz]
  · wsimp [KState.res, getD_setIfInBounds, RPhase.getQ, htok]
  · intro f' hf'
    have := hk.st f' hf'
    simp only [KState.res] at this
    by_cases hff : f' = f
    · subst hff; wsimp [KState.res, getD_setIfInBounds, hsz]
    · wsimp [KState.res, getD_setIfInBounds, hff, upd_ne, this]
  · refine ⟨rfl, ?_, ?_, ?_⟩
    · wsimp [EvIs, hfl]
    · wsimp
    · wsimp [EvIs, hpk, hpc, hpo, Nat.ne_of_lt h0lt, h0e, Ne.symm h0e]
  · refine (hk.keep_src_pend [$e0] (by evkeep) ?_ ?_).1
    · intro e he; simp only [List.mem_singleton]; rintro rfl; exact he.elim de.1 de.2
    · intro e he
      have : e ≠ 0 := by rintro rfl; exact d0.1 he
      wsimp [this]
  · refine (hk.keep_src_pend [$e0] (by evkeep) ?_ ?_).2
    · intro e he; simp only [List.mem_singleton]; rintro rfl; exact he.elim de.1 de.2
    · intro e he
      have : e ≠ 0 := by rintro rfl; exact d0.1 he
      wsimp [this]
  · have hnd := hk.nd
    simp only [wrrids, hph] at hnd ⊢
    grind
  · wsimp [hk.c0]
  · wsimp [hk.c1]
  · intro f' hf'; wsimp [hk.cc f' hf']
  · intro f' hf'; wsimp [hk.cb f' hf']
  · intro f' hf'; wsimp [hk.ch f' hf']
  · simp [histOf_push]))

set_option hygiene false in
/-- `KInv` of the configuration in which `run` blocks on the empty wake-up store -/
macro "leaf_block" e0:term : tactic => `(tactic| (
  refine ⟨⟨?_, ?_, ?_, ?_, ?_, ?_, ?_, ?_, ?_, ?_, ?_, ?_, ?_, ?_⟩, ?_⟩
  · exact wf_same hwf.1 rfl rfl rfl
  · simp only [A.entries, RPhase.entries, List.nil_append]
    exact hrest
  · wsimp [hrsz]
  · wsimp [KState.res, getD_setIfInBounds, RPhase.getQ, hrsz, htk]
  · intro f' hf'
    have := hk.st f' hf'
    simp only [KState.res] at this
    wsimp [KState.res, getD_setIfInBounds, this]
  · refine ⟨?_, ?_, ?_⟩
    · wsimp [EvIs]
    · wsimp
    · wsimp [EvIs, hpk, hpc, hpo, Nat.ne_of_lt h0lt, h0e, Ne.symm h0e]
  · refine (hk.keep_src_pend [$e0] (by evkeep) ?_ ?_).1
    · intro e he; simp only [List.mem_singleton]; rintro rfl; exact he.elim de.1 de.2
    · intro e he
      have : e ≠ 0 := by rintro rfl; exact d0.1 he
      wsimp [this]
  · refine (hk.keep_src_pend [$e0] (by evkeep) ?_ ?_).2
    · intro e he; simp only [List.mem_singleton]; rintro rfl; exact he.elim de.1 de.2
    · intro e he
      have : e ≠ 0 := by rintro rfl; exact d0.1 he
      wsimp [this]
  · have hnd := hk.nd
    simp only [wrrids, hph] at hnd ⊢
    grind
  · wsimp [hk.c0]
  · wsimp [hk.c1]
  · intro f' hf'; wsimp [hk.cc f' hf']
  · intro f' hf'; wsimp [hk.cb f' hf']
  · intro f' hf'; wsimp [hk.ch f' hf']
  · simp [histOf_push]))

set_option hygiene false in
/-- `KInv` of the configuration in which `run` has taken a wake-up token -/
macro "leaf_tok" e0:term : tactic => `(tactic| (
  refine ⟨⟨?_, ?_, ?_, ?_, ?_, ?_, ?_, ?_, ?_, ?_, ?_, ?_, ?_, ?_⟩, ?_⟩
  · exact wf_push1 hwf.1 _ rfl rfl rfl rfl (le_refl _)
  · simp only [A.entries, RPhase.entries, List.singleton_append]
    exact List.Perm.cons _ hrest
  · wsimp [hrsz]
  · wsimp [KState.res, getD_setIfInBounds, RPhase.getQ, hrsz]
  · intro f' hf'
    have := hk.st f' hf'
    simp only [KState.res] at this
    wsimp [KState.res, getD_setIfInBounds, this]
  · refine ⟨rfl, ?_, ?_, ?_⟩
    · wsimp [EvIs]
    · wsimp
    · wsimp [EvIs, hpk, hpc, hpo, Nat.ne_of_lt h0lt, h0e, Ne.symm h0e]
  · refine (hk.keep_src_pend [$e0] (by evkeep) ?_ ?_).1
    · intro e he; simp only [List.mem_singleton]; rintro rfl; exact he.elim de.1 de.2
    · intro e he
      have : e ≠ 0 := by rintro rfl; exact d0.1 he
      wsimp [this]
  · refine (hk.keep_src_pend [$e0] (by evkeep) ?_ ?_).2
    · intro e he; simp only [List.mem_singleton]; rintro rfl; exact he.elim de.1 de.2
    · intro e he
      have : e ≠ 0 := by rintro rfl; exact d0.1 he
      wsimp [this]
  · have hnd := hk.nd
    simp only [wrrids, hph] at hnd ⊢
    grind
  · wsimp [hk.c0]
  · wsimp [hk.c1]
  · intro f' hf'; wsimp [hk.cc f' hf']
  · intro f' hf'; wsimp [hk.cb f' hf']
  · intro f' hf'; wsimp [hk.ch f' hf']
  · simp [histOf_push]))

/-! ## the wake-up: the `StoreGet` on the wake-up store is processed -/

/-- `run` is woken, starts a pass at the top and takes the head of the first backlogged entry -/
theorem kstep_wakeHit (fuel : Nat) (hk : KInv flow F s a) {g : EvId} (hph : a.run = .K g q)
    {m' jj' f : Nat} {id : Int} {is : List Int} (hloop : a.loop F ws 0 0 = .hit m' jj' f) (hf : f < F)
    (hit : a.items f = id :: is) (hfl : flow id = f) (hflows : ∀ x ∈ ws, x.1 < F) (hkeys : ∀ f, f < F → 0 < a.cnt f → f ∈ a.keys)
    (hp : popMin s.agenda = some (q, rest)) (hrest : rest.Perm (a.src.entries ++ pendEntries a.pend)) :
    ∃ s', step (body F flow size rate ws) (fuel + 1) s = .ok s' ∧
      KInv flow F s' { a with run := .H s.events.size m' jj' id ⟨q.time, NORMAL, s.eid, s.events.size⟩, items := upd a.items f is } ∧
      s'.now = q.time ∧ histOf s'.trace = histOf s.trace := by
  have hr := hk.run
  rw [hph] at hr
  obtain ⟨hqe, ⟨hkind, hcbs, hout⟩, hproc0, ⟨hpk, hpc, hpo⟩⟩ := hr
  have hgs : g < s.events.size := KState.lt_of_cbs hcbs
  have hwf := openEvent_wf s q rest hk.wf hp
  have hlt := hk.idlt
  have htok := hk.tok
  have hrsz := hk.rsz
  have hst := hk.st f hf
  rw [hph] at htok
  simp only [KState.res, RPhase.getQ] at htok hst
  rw [step_eq _ _ _ _ _ _ hp (hqe ▸ hcbs)]
  simp only [List.foldl, runCb]
  rw [triggerPut_none (openEvent s q rest) 0 [] _ htok]
  rw [resume_eq _ _ _ _ _ _ (show (openEvent s q rest).proc? 0 = _ from hproc0)]
  simp only [body]
  have hsh := burst_shared s q rest 0 q.ev (resumeArg (openEvent s q rest) 0 q.ev) (deliverSt (openEvent s q rest) 0 q.ev).now
  rw [runBurst_pass 0 F a ws 0 0 _ (count_cells hk _ hsh) hflows (has_cells hk hflows hkeys _ hsh)]
  simp only [hloop]
  simp only [KState.ev] at hkind hcbs hout hpk hpc hpo
  have hsz : flowStore f < s.resources.size := by rw [hrsz]; unfold flowStore; omega
  wsimp [hqe, hgs, hkind, hcbs, hout, Nat.ne_of_lt hgs, doCall_sget_hit (r := flowStore f) (i := id) (is := is), hst, hit, hsz]
  obtain ⟨nrun, nsrc, npend, drun, dsrc⟩ := (ids_nodup_iff a).mp hk.nd
  simp only [hph, wrrids] at nrun drun hlt
  obtain ⟨d0, de⟩ := drun
  have h0e : ¬ 0 = g := nrun
  have h0lt := hlt.1
  leaf_hit g

/-- `run` is woken by a stale token, finds `total_packets == 0` and blocks again -/
theorem kstep_wakeBlock (fuel : Nat) (hk : KInv flow F s a) {g : EvId} (hph : a.run = .K g q)
    (hloop : a.loop F ws 0 0 = .idle) (htk : a.tokens = 0) (hflows : ∀ x ∈ ws, x.1 < F) (hkeys : ∀ f, f < F → 0 < a.cnt f → f ∈ a.keys)
    (hp : popMin s.agenda = some (q, rest)) (hrest : rest.Perm (a.src.entries ++ pendEntries a.pend)) :
    ∃ s', step (body F flow size rate ws) (fuel + 1) s = .ok s' ∧
      KInv flow F s' { a with run := .W s.events.size } ∧
      s'.now = q.time ∧ histOf s'.trace = histOf s.trace ++ [.idle q.time] := by
  have hr := hk.run
  rw [hph] at hr
  obtain ⟨hqe, ⟨hkind, hcbs, hout⟩, hproc0, ⟨hpk, hpc, hpo⟩⟩ := hr
  have hgs : g < s.events.size := KState.lt_of_cbs hcbs
  have hwf := openEvent_wf s q rest hk.wf hp
  have hlt := hk.idlt
  have htok := hk.tok
  have hrsz := hk.rsz
  rw [hph, htk] at htok
  simp only [KState.res, RPhase.getQ, List.replicate] at htok
  rw [step_eq _ _ _ _ _ _ hp (hqe ▸ hcbs)]
  simp only [List.foldl, runCb]
  rw [triggerPut_none (openEvent s q rest) 0 [] _ htok]
  rw [resume_eq _ _ _ _ _ _ (show (openEvent s q rest).proc? 0 = _ from hproc0)]
  simp only [body]
  have hsh := burst_shared s q rest 0 q.ev (resumeArg (openEvent s q rest) 0 q.ev) (deliverSt (openEvent s q rest) 0 q.ev).now
  rw [runBurst_pass 0 F a ws 0 0 _ (count_cells hk _ hsh) hflows (has_cells hk hflows hkeys _ hsh)]
  simp only [hloop]
  simp only [KState.ev] at hkind hcbs hout hpk hpc hpo
  have hsz : 0 < s.resources.size := by rw [hrsz]; omega
  wsimp [hqe, hgs, hkind, hcbs, hout, Nat.ne_of_lt hgs, doCall_sget_miss (r := 0), htok, hsz]
  obtain ⟨nrun, nsrc, npend, drun, dsrc⟩ := (ids_nodup_iff a).mp hk.nd
  simp only [hph, wrrids] at nrun drun hlt
  obtain ⟨d0, de⟩ := drun
  have h0e : ¬ 0 = g := nrun
  have h0lt := hlt.1
  leaf_block g

/-- `run` is woken by a stale token, finds `total_packets == 0` and takes the next token -/
theorem kstep_wakeTok (fuel : Nat) (hk : KInv flow F s a) {g : EvId} (hph : a.run = .K g q) {t : Nat}
    (hloop : a.loop F ws 0 0 = .idle) (htk : a.tokens = t + 1) (hflows : ∀ x ∈ ws, x.1 < F) (hkeys : ∀ f, f < F → 0 < a.cnt f → f ∈ a.keys)
    (hp : popMin s.agenda = some (q, rest)) (hrest : rest.Perm (a.src.entries ++ pendEntries a.pend)) :
    ∃ s', step (body F flow size rate ws) (fuel + 1) s = .ok s' ∧
      KInv flow F s' { a with run := .K s.events.size ⟨q.time, NORMAL, s.eid, s.events.size⟩, tokens := t } ∧
      s'.now = q.time ∧ histOf s'.trace = histOf s.trace ++ [.idle q.time] := by
  have hr := hk.run
  rw [hph] at hr
  obtain ⟨hqe, ⟨hkind, hcbs, hout⟩, hproc0, ⟨hpk, hpc, hpo⟩⟩ := hr
  have hgs : g < s.events.size := KState.lt_of_cbs hcbs
  have hwf := openEvent_wf s q rest hk.wf hp
  have hlt := hk.idlt
  have htok := hk.tok
  have hrsz := hk.rsz
  rw [hph, htk] at htok
  simp only [KState.res, RPhase.getQ, List.replicate] at htok
  rw [step_eq _ _ _ _ _ _ hp (hqe ▸ hcbs)]
  simp only [List.foldl, runCb]
  rw [triggerPut_none (openEvent s q rest) 0 [] _ htok]
  rw [resume_eq _ _ _ _ _ _ (show (openEvent s q rest).proc? 0 = _ from hproc0)]
  simp only [body]
  have hsh := burst_shared s q rest 0 q.ev (resumeArg (openEvent s q rest) 0 q.ev) (deliverSt (openEvent s q rest) 0 q.ev).now
  rw [runBurst_pass 0 F a ws 0 0 _ (count_cells hk _ hsh) hflows (has_cells hk hflows hkeys _ hsh)]
  simp only [hloop]
  simp only [KState.ev] at hkind hcbs hout hpk hpc hpo
  have hsz : 0 < s.resources.size := by rw [hrsz]; omega
  wsimp [hqe, hgs, hkind, hcbs, hout, Nat.ne_of_lt hgs, doCall_sget_hit (r := 0) (i := 1) (is := List.replicate t 1), htok, hsz]
  obtain ⟨nrun, nsrc, npend, drun, dsrc⟩ := (ids_nodup_iff a).mp hk.nd
  simp only [hph, wrrids] at nrun drun hlt
  obtain ⟨d0, de⟩ := drun
  have h0e : ¬ 0 = g := nrun
  have h0lt := hlt.1
  leaf_tok g

/-! ## the start of `run` -/

/-- the `Initialize` event of `run`: every counter is 0, it blocks on the wake-up store -/
theorem kstep_runInit (fuel : Nat) (hk : KInv flow F s a) (hph : a.run = .init q)
    (hloop : a.loop F ws 0 0 = .idle) (htk : a.tokens = 0) (hflows : ∀ x ∈ ws, x.1 < F) (hkeys : ∀ f, f < F → 0 < a.cnt f → f ∈ a.keys)
    (hp : popMin s.agenda = some (q, rest)) (hrest : rest.Perm (a.src.entries ++ pendEntries a.pend)) :
    ∃ s', step (body F flow size rate ws) (fuel + 1) s = .ok s' ∧
      KInv flow F s' { a with run := .W s.events.size } ∧
      s'.now = q.time ∧ histOf s'.trace = histOf s.trace ++ [.idle q.time] := by
  have hr := hk.run
  rw [hph] at hr
  obtain ⟨hqe, ⟨hkind, hcbs, hout⟩, hproc0, ⟨hpk, hpc, hpo⟩⟩ := hr
  have hgs : 1 < s.events.size := KState.lt_of_cbs hcbs
  have hwf := openEvent_wf s q rest hk.wf hp
  have hlt := hk.idlt
  have htok := hk.tok
  have hrsz := hk.rsz
  rw [hph, htk] at htok
  simp only [KState.res, RPhase.getQ, List.replicate] at htok
  rw [step_eq _ _ _ _ _ _ hp (hqe ▸ hcbs)]
  simp only [List.foldl, runCb]
  rw [resume_eq _ _ _ _ _ _ (show (openEvent s q rest).proc? 0 = _ from hproc0)]
  simp only [body]
  have hsh := burst_shared s q rest 0 q.ev (resumeArg (openEvent s q rest) 0 q.ev) (deliverSt (openEvent s q rest) 0 q.ev).now
  rw [runBurst_pass 0 F a ws 0 0 _ (count_cells hk _ hsh) hflows (has_cells hk hflows hkeys _ hsh)]
  simp only [hloop]
  simp only [KState.ev] at hkind hcbs hout hpk hpc hpo
  have hsz : 0 < s.resources.size := by rw [hrsz]; omega
  wsimp [hqe, hgs, hkind, hcbs, hout, Nat.ne_of_lt hgs, doCall_sget_miss (r := 0), htok, hsz]
  obtain ⟨nrun, nsrc, npend, drun, dsrc⟩ := (ids_nodup_iff a).mp hk.nd
  simp only [hph, wrrids] at nrun drun hlt
  obtain ⟨d0, de⟩ := drun
  have h0e : ¬ 0 = 1 := by decide
  have h0lt := hlt.1
  leaf_block 1

/-! ## the end of a transmission: the `Process` event of the sender is processed, `run` goes on with iteration `jj + 1` -/

/-- packets are left: `run` goes on with its visit, its pass (and the next one) and takes the head of the first backlogged entry -/
theorem kstep_doneHit (fuel : Nat) (hk : KInv flow F s a) {p : EvId} {m jj : Nat} {id0 : Int} (hph : a.run = .F p m jj id0 q)
    {m' jj' f : Nat} {id : Int} {is : List Int} (hloop : a.loop F ws m (jj + 1) = .hit m' jj' f) (hf : f < F)
    (hit : a.items f = id :: is) (hfl : flow id = f) (hflows : ∀ x ∈ ws, x.1 < F) (hkeys : ∀ f, f < F → 0 < a.cnt f → f ∈ a.keys)
    (hp : popMin s.agenda = some (q, rest)) (hrest : rest.Perm (a.src.entries ++ pendEntries a.pend)) :
    ∃ s', step (body F flow size rate ws) (fuel + 1) s = .ok s' ∧
      KInv flow F s' { a with run := .H s.events.size m' jj' id ⟨q.time, NORMAL, s.eid, s.events.size⟩, items := upd a.items f is } ∧
      s'.now = q.time ∧ histOf s'.trace = histOf s.trace := by
  have hr := hk.run
  rw [hph] at hr
  obtain ⟨hqe, ⟨hkind, hcbs, hout⟩, hproc0, ⟨hpk, hpc, hpo⟩⟩ := hr
  have hgs : p < s.events.size := KState.lt_of_cbs hcbs
  have hwf := openEvent_wf s q rest hk.wf hp
  have hlt := hk.idlt
  have htok := hk.tok
  have hrsz := hk.rsz
  have hst := hk.st f hf
  rw [hph] at htok
  simp only [KState.res, RPhase.getQ] at htok hst
  rw [step_eq _ _ _ _ _ _ hp (hqe ▸ hcbs)]
  simp only [List.foldl, runCb]
  rw [resume_eq _ _ _ _ _ _ (show (openEvent s q rest).proc? 0 = _ from hproc0)]
  simp only [body]
  have hsh := burst_shared s q rest 0 q.ev (resumeArg (openEvent s q rest) 0 q.ev) (deliverSt (openEvent s q rest) 0 q.ev).now
  rw [runBurst_pass 0 F a ws m (jj + 1) _ (count_cells hk _ hsh) hflows (has_cells hk hflows hkeys _ hsh)]
  simp only [hloop]
  simp only [KState.ev] at hkind hcbs hout hpk hpc hpo
  have hsz : flowStore f < s.resources.size := by rw [hrsz]; unfold flowStore; omega
  wsimp [hqe, hgs, hkind, hcbs, hout, Nat.ne_of_lt hgs, doCall_sget_hit (r := flowStore f) (i := id) (is := is), hst, hit, hsz]
  obtain ⟨nrun, nsrc, npend, drun, dsrc⟩ := (ids_nodup_iff a).mp hk.nd
  simp only [hph, wrrids] at nrun drun hlt
  obtain ⟨d0, de⟩ := drun
  have h0e : ¬ 0 = p := nrun
  have h0lt := hlt.1
  leaf_hit p

/-- nothing is left and no token is there: `run` blocks on the wake-up store -/
theorem kstep_doneBlock (fuel : Nat) (hk : KInv flow F s a) {p : EvId} {m jj : Nat} {id0 : Int} (hph : a.run = .F p m jj id0 q)
    (hloop : a.loop F ws m (jj + 1) = .idle) (htk : a.tokens = 0) (hflows : ∀ x ∈ ws, x.1 < F) (hkeys : ∀ f, f < F → 0 < a.cnt f → f ∈ a.keys)
    (hp : popMin s.agenda = some (q, rest)) (hrest : rest.Perm (a.src.entries ++ pendEntries a.pend)) :
    ∃ s', step (body F flow size rate ws) (fuel + 1) s = .ok s' ∧
      KInv flow F s' { a with run := .W s.events.size } ∧
      s'.now = q.time ∧ histOf s'.trace = histOf s.trace ++ [.idle q.time] := by
  have hr := hk.run
  rw [hph] at hr
  obtain ⟨hqe, ⟨hkind, hcbs, hout⟩, hproc0, ⟨hpk, hpc, hpo⟩⟩ := hr
  have hgs : p < s.events.size := KState.lt_of_cbs hcbs
  have hwf := openEvent_wf s q rest hk.wf hp
  have hlt := hk.idlt
  have htok := hk.tok
  have hrsz := hk.rsz
  rw [hph, htk] at htok
  simp only [KState.res, RPhase.getQ, List.replicate] at htok
  rw [step_eq _ _ _ _ _ _ hp (hqe ▸ hcbs)]
  simp only [List.foldl, runCb]
  rw [resume_eq _ _ _ _ _ _ (show (openEvent s q rest).proc? 0 = _ from hproc0)]
  simp only [body]
  have hsh := burst_shared s q rest 0 q.ev (resumeArg (openEvent s q rest) 0 q.ev) (deliverSt (openEvent s q rest) 0 q.ev).now
  rw [runBurst_pass 0 F a ws m (jj + 1) _ (count_cells hk _ hsh) hflows (has_cells hk hflows hkeys _ hsh)]
  simp only [hloop]
  simp only [KState.ev] at hkind hcbs hout hpk hpc hpo
  have hsz : 0 < s.resources.size := by rw [hrsz]; omega
  wsimp [hqe, hgs, hkind, hcbs, hout, Nat.ne_of_lt hgs, doCall_sget_miss (r := 0), htok, hsz]
  obtain ⟨nrun, nsrc, npend, drun, dsrc⟩ := (ids_nodup_iff a).mp hk.nd
  simp only [hph, wrrids] at nrun drun hlt
  obtain ⟨d0, de⟩ := drun
  have h0e : ¬ 0 = p := nrun
  have h0lt := hlt.1
  leaf_block p

/-- nothing is left but a (stale) token is there: `run` takes it -/
theorem kstep_doneTok (fuel : Nat) (hk : KInv flow F s a) {p : EvId} {m jj : Nat} {id0 : Int} (hph : a.run = .F p m jj id0 q) {t : Nat}
    (hloop : a.loop F ws m (jj + 1) = .idle) (htk : a.tokens = t + 1) (hflows : ∀ x ∈ ws, x.1 < F) (hkeys : ∀ f, f < F → 0 < a.cnt f → f ∈ a.keys)
    (hp : popMin s.agenda = some (q, rest)) (hrest : rest.Perm (a.src.entries ++ pendEntries a.pend)) :
    ∃ s', step (body F flow size rate ws) (fuel + 1) s = .ok s' ∧
      KInv flow F s' { a with run := .K s.events.size ⟨q.time, NORMAL, s.eid, s.events.size⟩, tokens := t } ∧
      s'.now = q.time ∧ histOf s'.trace = histOf s.trace ++ [.idle q.time] := by
  have hr := hk.run
  rw [hph] at hr
  obtain ⟨hqe, ⟨hkind, hcbs, hout⟩, hproc0, ⟨hpk, hpc, hpo⟩⟩ := hr
  have hgs : p < s.events.size := KState.lt_of_cbs hcbs
  have hwf := openEvent_wf s q rest hk.wf hp
  have hlt := hk.idlt
  have htok := hk.tok
  have hrsz := hk.rsz
  rw [hph, htk] at htok
  simp only [KState.res, RPhase.getQ, List.replicate] at htok
  rw [step_eq _ _ _ _ _ _ hp (hqe ▸ hcbs)]
  simp only [List.foldl, runCb]
  rw [resume_eq _ _ _ _ _ _ (show (openEvent s q rest).proc? 0 = _ from hproc0)]
  simp only [body]
  have hsh := burst_shared s q rest 0 q.ev (resumeArg (openEvent s q rest) 0 q.ev) (deliverSt (openEvent s q rest) 0 q.ev).now
  rw [runBurst_pass 0 F a ws m (jj + 1) _ (count_cells hk _ hsh) hflows (has_cells hk hflows hkeys _ hsh)]
  simp only [hloop]
  simp only [KState.ev] at hkind hcbs hout hpk hpc hpo
  have hsz : 0 < s.resources.size := by rw [hrsz]; omega
  wsimp [hqe, hgs, hkind, hcbs, hout, Nat.ne_of_lt hgs, doCall_sget_hit (r := 0) (i := 1) (is := List.replicate t 1), htok, hsz]
  obtain ⟨nrun, nsrc, npend, drun, dsrc⟩ := (ids_nodup_iff a).mp hk.nd
  simp only [hph, wrrids] at nrun drun hlt
  obtain ⟨d0, de⟩ := drun
  have h0e : ¬ 0 = p := nrun
  have h0lt := hlt.1
  leaf_tok p

end WRRK
