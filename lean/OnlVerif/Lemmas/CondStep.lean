import OnlVerif.Lemmas.CondBuildCb
/-!
# The counting invariant through every API call, bursts, `_resume`, interrupt delivery, the callback loop, a step
-/

namespace Cond
variable {σ : Type}

open Once (lt_of_isCond isCond_congr lt_of_cbs_some ev_default)

/-! ## composing `Mono` -/

theorem Fr.evMono {s s' : KState ℚ σ} (h : Fr s s') : EvMono s s' :=
  ⟨h.size_le, h.kind, fun e he hp => (h.cbsNone e he).mpr hp⟩

theorem Under.evMono {s s' : KState ℚ σ} (hev : EvMono s s') {d a : EvId} (hu : Under s d a) : Under s' d a := by
  induction hu with
  | self => exact Under.self _
  | nest he _ ih =>
    refine Under.nest ?_ ih
    rw [ops_congr (hev.kind _ (lt_of_isCond s _ (isCond_of_mem_ops he)))]; exact he

theorem Gone.evMono {rem rem' : List Cb} {s s' : KState ℚ σ} (hev : EvMono s s')
    (hsub : ∀ c, Cb.build c ∈ rem' → Cb.build c ∈ rem) {d : EvId} (h : Gone rem s d) : Gone rem' s' d := by
  obtain ⟨a, hu, h1, h2, h3⟩ := h
  have hlt := lt_of_isCond s a h1
  exact ⟨a, hu.evMono hev, by rw [isCond_congr (hev.kind a hlt)]; exact h1, hev.processed a hlt h2, fun hm => h3 (hsub a hm)⟩

theorem Mono.seq {rem rem' : List Cb} {s1 s2 s3 : KState ℚ σ} (h12 : Mono rem s1 s2) (h23 : Mono rem' s2 s3)
    (hsub : ∀ c, Cb.build c ∈ rem' → Cb.build c ∈ rem) (hev : EvMono s1 s2) : Mono rem s1 s3 :=
  Mono.trans h12 h23 hsub
    (fun c hc => by rw [isCond_congr (hev.kind c (lt_of_isCond s1 c hc))]; exact hc)
    (fun _ hg => hg.evMono hev hsub)

/-- a frame step, packaged: the invariant is kept and nothing frozen moves -/
theorem CInv.frame' {g : Once.Ghost} {s s' : KState ℚ σ} (hi : Once.Inv g s) (hc : CInv g.rem g.e0 s) (h : Fr s s') :
    CInv g.rem g.e0 s' ∧ Mono g.rem s s' :=
  ⟨hc.frame h hi.c.done_trig, h.mono _⟩

/-! ## API calls and bursts -/

theorem CInv.doCall {g : Once.Ghost} {s : KState ℚ σ} (hi : Once.Inv g s) (hc : CInv g.rem g.e0 s) (self : EvId)
    (c : Call ℚ σ) (hs : Once.SafeCall s c) (hd : DomCall s c) :
    CInv g.rem g.e0 (_root_.doCall s self c).1 ∧ Mono g.rem s (_root_.doCall s self c).1 := by
  by_cases hcase : ∃ a l, c = .cond a l
  · obtain ⟨a, l, rfl⟩ := hcase
    exact hc.mkCond a l hd
  · exact hc.frame' hi (Fr.doCall hi self c hs hd (fun a l h => hcase ⟨a, l, h⟩))

/-- **a whole burst keeps the counting invariant**, for every program -/
theorem CInv.runBurst {g : Once.Ghost} (self : EvId) : ∀ (b : Burst ℚ σ) (s : KState ℚ σ), Once.Inv g s → CInv g.rem g.e0 s →
    Once.SafeBurst self b s → DomBurst self b s →
    CInv g.rem g.e0 (_root_.runBurst self b s).1 ∧ Mono g.rem s (_root_.runBurst self b s).1
  | .call c k, s, hi, hc, hs, hd => by
    simp only [_root_.runBurst]
    obtain ⟨h1, m1⟩ := hc.doCall hi self c hs.1 hd.1
    have hi1 := hi.doCall self c hs.1
    obtain ⟨h2, m2⟩ := h1.frame' hi1 (Fr.noteErr self (_root_.doCall s self c))
    have hi2 := Once.Inv.noteErr self _ hi1
    obtain ⟨h3, m3⟩ := CInv.runBurst self (k _) _ hi2 h2 hs.2 hd.2
    have e1 : EvMono s (_root_.doCall s self c).1 := EvMono.krel.doCall s self c
    have e2 : EvMono (_root_.doCall s self c).1 (_root_.noteErr self (_root_.doCall s self c)) := EvMono.krel.noteErr self _
    exact ⟨h3, (m1.seq m2 (fun _ h => h) e1).seq m3 (fun _ h => h) (e1.trans e2)⟩
  | .yield _ _, s, _, hc, _, _ => ⟨hc, Mono.refl _ s⟩
  | .ret _, s, _, hc, _, _ => ⟨hc, Mono.refl _ s⟩
  | .raise _, s, _, hc, _, _ => ⟨hc, Mono.refl _ s⟩

/-! ## `Process._resume` -/

theorem CInv.resume (body : σ → Resume → Burst ℚ σ) (p : EvId) {g : Once.Ghost} (hg : g.run = some p) :
    ∀ (fuel : Nat) (e : EvId) (s : KState ℚ σ), Once.Inv g s → CInv g.rem g.e0 s →
    Once.SafeResume body p fuel e s → DomResume body p fuel e s →
    CInv g.rem g.e0 (_root_.resume body p fuel e s) ∧ Mono g.rem s (_root_.resume body p fuel e s)
  | 0, e, s, _, hc, _, _ => ⟨hc, Mono.refl _ s⟩
  | fuel + 1, e, s, hi, hc, hs, hd => by
    unfold _root_.resume
    unfold Once.SafeResume at hs
    unfold DomResume at hd
    split
    · exact ⟨hc, Mono.refl _ s⟩
    · rename_i pr hp
      rw [hp] at hs hd
      simp only at hs hd ⊢
      obtain ⟨hsb, hs2⟩ := hs
      obtain ⟨hdb, hd2⟩ := hd
      have hi1 : Once.Inv g ((_root_.deliver s p e).1.emit (.resumed p (_root_.deliver s p e).2 (_root_.deliver s p e).1.now)) :=
        (hi.deliver p e).emit _
      have f1 : Fr s ((_root_.deliver s p e).1.emit (.resumed p (_root_.deliver s p e).2 (_root_.deliver s p e).1.now)) :=
        (Fr.deliver s p e).trans (Fr.emit _ _)
      obtain ⟨h1, m1⟩ := hc.frame' hi f1
      obtain ⟨h2, m2⟩ := CInv.runBurst p _ _ hi1 h1 hsb hdb
      have hib := Once.Inv.runBurst p _ _ hi1 hsb
      have e2 := EvMono.krel.runBurst p (body pr.st (_root_.deliver s p e).2)
        ((_root_.deliver s p e).1.emit (.resumed p (_root_.deliver s p e).2 (_root_.deliver s p e).1.now))
      have m12 := m1.seq m2 (fun _ h => h) f1.evMono
      have e12 := f1.evMono.trans e2
      generalize _root_.runBurst p (body pr.st (_root_.deliver s p e).2)
        ((_root_.deliver s p e).1.emit (.resumed p (_root_.deliver s p e).2 (_root_.deliver s p e).1.now)) = bt
        at h2 hib hs2 hd2 m12 e12 ⊢
      split
      · obtain ⟨h3, m3⟩ := h2.frame' hib (Fr.finishProc hib p pr _ hg)
        exact ⟨h3, m12.seq m3 (fun _ h => h) e12⟩
      · obtain ⟨h3, m3⟩ := h2.frame' hib (Fr.finishProc hib p pr _ hg)
        exact ⟨h3, m12.seq m3 (fun _ h => h) e12⟩
      · rename_i e' st' hbt
        rw [hbt] at hs2 hd2
        simp only at hs2 hd2
        have f3 : Fr bt.1 (bt.1.setProc p { st := st', target := some e' }) := Fr.setProc _ _ _
        obtain ⟨h3, m3⟩ := h2.frame' hib f3
        have hi2 : Once.Inv g (bt.1.setProc p { st := st', target := some e' }) := Once.Inv.setProc_run p _ hg hib
        have m13 := m12.seq m3 (fun _ h => h) e12
        have e13 := e12.trans f3.evMono
        split
        · rename_i s3 hr
          obtain ⟨h4, m4⟩ := h3.frame' hi2 (Fr.register _ _ p e' hr)
          exact ⟨h4, m13.seq m4 (fun _ h => h) e13⟩
        · rename_i hr
          rw [hr] at hs2 hd2
          simp only at hs2 hd2
          obtain ⟨h4, m4⟩ := CInv.resume body p hg fuel e' _ hi2 h3 hs2 hd2
          exact ⟨h4, m13.seq m4 (fun _ h => h) e13⟩

/-! ## `Interruption._interrupt` -/

theorem CInv.deliverInterrupt (body : σ → Resume → Burst ℚ σ) (fuel : Nat) (iv p : EvId) {g : Once.Ghost} {s : KState ℚ σ}
    (hi : Once.Inv g s) (hc : CInv g.rem g.e0 s) (hg : g.run = none)
    (hs : Once.SafeIntr body fuel iv p s) (hd : DomIntr body fuel iv p s) :
    CInv g.rem g.e0 (_root_.deliverInterrupt body fuel iv p s) ∧ Mono g.rem s (_root_.deliverInterrupt body fuel iv p s) := by
  unfold _root_.deliverInterrupt
  unfold Once.SafeIntr at hs
  unfold DomIntr at hd
  split
  · exact ⟨hc, Mono.refl _ s⟩
  · rename_i hnt
    rw [if_neg hnt] at hs hd
    have hout := Once.out_none_of_not_triggered s p hnt
    split
    · exact ⟨hc, Mono.refl _ s⟩
    · rename_i pr hp
      rw [hp] at hs hd
      simp only at hs hd
      split
      · rename_i t ht
        rw [ht] at hs hd
        simp only at hs hd
        have f1 : Fr s (s.eraseCb t (.resume p)) := Fr.eraseCb s t _ rfl
        obtain ⟨h1, m1⟩ := hc.frame' hi f1
        have hi1 := hi.detach p t pr hg hp ht hout
        obtain ⟨h2, m2⟩ := CInv.resume body p (g := { g with run := some p }) rfl fuel iv _ hi1 h1 hs hd
        exact ⟨h2, m1.seq m2 (fun _ h => h) f1.evMono⟩
      · rename_i ht
        rw [ht] at hs hd
        simp only at hs hd
        have hi1 : Once.Inv { g with run := some p } s := by
          refine hi.ghost_run p ⟨hout, hi.c.procs p pr hp, ?_⟩ hg
          intro e L hL hm
          obtain ⟨_, ⟨pr', h2, h3⟩, _⟩ := hi.c.reg e L p hL hm
          rw [hp] at h2; cases h2
          rw [ht] at h3; cases h3
        exact CInv.resume body p (g := { g with run := some p }) rfl fuel iv _ hi1 hc hs hd

/-! ## one callback, the callback loop -/

/-- the "exactly once" invariant after a callback that is not a `_resume` has left the pending list -/
theorem onceInv_drop {g : Once.Ghost} {s : KState ℚ σ} (hi : Once.Inv g s) (cb : Cb) (rest : List Cb)
    (hrem : g.rem = cb :: rest) (hne : ∀ p, cb ≠ .resume p) : Once.Inv { g with rem := rest } s := by
  have hsub : ∀ c, c ∈ rest → c ∈ g.rem := fun c hc => by rw [hrem]; exact List.mem_cons_of_mem _ hc
  have hcnt : ∀ p, rest.count (.resume p) ≤ 1 := Once.count_le_one_tail (by rw [← hrem]; exact hi.c.rem_count)
  refine hi.ghost_rem rest hsub hcnt ?_
  intro p hp
  rw [hrem] at hp
  rcases List.mem_cons.mp hp with h | h
  · exact absurd h.symm (hne p)
  · exact h

/-- **one callback invocation keeps the counting invariant** (and is then no longer among those still to run) -/
theorem CInv.runCb (body : σ → Resume → Burst ℚ σ) (fuel : Nat) {g : Once.Ghost} (l : LoopSt ℚ σ) (cb : Cb) (rest : List Cb)
    (hrem : g.rem = cb :: rest) (hg : g.run = none) (hi : Once.Inv g l.s) (hc : CInv g.rem g.e0 l.s)
    (hs : Once.SafeCb body fuel g.e0 l.s cb) (hd : DomCb body fuel g.e0 l.s cb) :
    CInv rest g.e0 (_root_.runCb body fuel g.e0 l cb).s ∧ Mono (cb :: rest) l.s (_root_.runCb body fuel g.e0 l cb).s := by
  rw [hrem] at hc
  have hsubm : ∀ c, Cb.build c ∈ rest → Cb.build c ∈ cb :: rest := fun c h => List.mem_cons_of_mem _ h
  unfold _root_.runCb
  simp only
  cases cb with
  | resume p =>
    simp only
    have hrun : Once.Inv { g with rem := rest, run := some p } l.s := hi.ghost_pop_run p rest hrem hg
    have hc1 : CInv rest g.e0 l.s := hc.drop_plain rfl
    obtain ⟨h2, m2⟩ := CInv.resume body p (g := { g with rem := rest, run := some p }) rfl fuel g.e0 l.s hrun hc1 hs hd
    exact ⟨h2, (Mono.refl _ l.s).seq m2 hsubm (EvMono.refl _)⟩
  | probe tag =>
    have hw := onceInv_drop hi _ rest hrem (fun p h => by cases h)
    have hc1 : CInv rest g.e0 l.s := hc.drop_plain rfl
    obtain ⟨h2, m2⟩ := CInv.frame' (g := { g with rem := rest }) hw hc1 (Fr.emit l.s _)
    exact ⟨h2, (Mono.refl _ l.s).seq m2 hsubm (EvMono.refl _)⟩
  | stop => exact ⟨hc.drop_plain rfl, Mono.refl _ _⟩
  | intr iv =>
    simp only
    simp only [Once.SafeCb] at hs
    simp only [DomCb] at hd
    have hw := onceInv_drop hi _ rest hrem (fun p h => by cases h)
    have hc1 : CInv rest g.e0 l.s := hc.drop_plain rfl
    split
    · rename_i p hk
      rw [hk] at hs hd
      simp only at hs hd
      obtain ⟨h2, m2⟩ := CInv.deliverInterrupt body fuel iv p (g := { g with rem := rest }) hw hc1 hg hs hd
      exact ⟨h2, (Mono.refl _ l.s).seq m2 hsubm (EvMono.refl _)⟩
    · exact ⟨hc1, Mono.refl _ _⟩
  | check c => exact hc.condCheck_cb hi.c.done_trig
  | build c => exact hc.condBuild_cb
  | trigPut r =>
    have hw := onceInv_drop hi _ rest hrem (fun p h => by cases h)
    have hc1 : CInv rest g.e0 l.s := hc.drop_plain rfl
    obtain ⟨h2, m2⟩ := CInv.frame' (g := { g with rem := rest }) hw hc1 (Fr.triggerPut hw r)
    exact ⟨h2, (Mono.refl _ l.s).seq m2 hsubm (EvMono.refl _)⟩
  | trigGet r =>
    have hw := onceInv_drop hi _ rest hrem (fun p h => by cases h)
    have hc1 : CInv rest g.e0 l.s := hc.drop_plain rfl
    obtain ⟨h2, m2⟩ := CInv.frame' (g := { g with rem := rest }) hw hc1 (Fr.triggerGet hw r)
    exact ⟨h2, (Mono.refl _ l.s).seq m2 hsubm (EvMono.refl _)⟩

/-- **the callback loop of a step keeps the counting invariant**, also after every prefix of the callbacks -/
theorem CInv.foldCbs (body : σ → Resume → Burst ℚ σ) (fuel : Nat) : ∀ (cbs : List Cb) (g : Once.Ghost) (l : LoopSt ℚ σ),
    g.rem = cbs → g.run = none → g.lv = false → g.strict = false → Once.Inv g l.s → CInv g.rem g.e0 l.s →
    Once.SafeCbs body fuel g.e0 cbs l → DomCbs body fuel g.e0 cbs l →
    CInv [] g.e0 (cbs.foldl (_root_.runCb body fuel g.e0) l).s ∧ Mono cbs l.s (cbs.foldl (_root_.runCb body fuel g.e0) l).s
  | [], g, l, hrem, _, _, _, _, hc, _, _ => by rw [hrem] at hc; exact ⟨hc, Mono.refl _ _⟩
  | cb :: rest, g, l, hrem, hg, hlv, hst, hi, hc, hs, hd => by
    simp only [List.foldl_cons]
    obtain ⟨h1, m1⟩ := CInv.runCb body fuel l cb rest hrem hg hi hc hs.1 hd.1
    have hi1 := Once.Inv.runCb body fuel l cb rest hrem hg (fun h => by rw [hlv] at h; cases h) hi hs.1
      (fun h => by rw [hst] at h; cases h)
    obtain ⟨h2, m2⟩ := CInv.foldCbs body fuel rest { g with rem := rest } _ rfl hg hlv hst hi1 h1 hs.2 hd.2
    exact ⟨h2, m1.seq m2 (fun c h => List.mem_cons_of_mem _ h) (EvMono.krel.runCb body fuel g.e0 l cb)⟩

end Cond
