import OnlVerif.Lemmas.OnceDefs
/-! # Reading event records, process records and queues back after the leaf updates -/

namespace Once
variable {σ : Type}

theorem ev_default (s : KState ℚ σ) (e : EvId) (h : ¬ e < s.events.size) : s.ev e = default := by
  simp only [KState.ev, Array.getD_eq_getD_getElem?]
  rw [Array.getElem?_eq_none (Nat.le_of_not_lt h)]
  rfl

theorem lt_of_cbs (s : KState ℚ σ) (e : EvId) (h : (s.ev e).cbs ≠ none) : e < s.events.size := by
  by_contra hc
  rw [ev_default s e hc] at h
  exact h rfl

theorem lt_of_cbs_some (s : KState ℚ σ) (e : EvId) (L : List Cb) (h : (s.ev e).cbs = some L) : e < s.events.size :=
  lt_of_cbs s e (by rw [h]; simp)

theorem lt_of_out (s : KState ℚ σ) (e : EvId) (h : (s.ev e).out ≠ none) : e < s.events.size := by
  by_contra hc
  rw [ev_default s e hc] at h
  exact h rfl

theorem lt_of_kind (s : KState ℚ σ) (e : EvId) (h : (s.ev e).kind ≠ .plain) : e < s.events.size := by
  by_contra hc
  rw [ev_default s e hc] at h
  exact h rfl

theorem lt_of_proc (s : KState ℚ σ) (e : EvId) (h : (s.ev e).kind = .proc) : e < s.events.size :=
  lt_of_kind s e (by rw [h]; simp)

theorem isCond_congr {s s' : KState ℚ σ} {c : EvId} (h : (s'.ev c).kind = (s.ev c).kind) :
    isCond s' c = isCond s c := by
  unfold isCond; rw [h]

theorem lt_of_isCond (s : KState ℚ σ) (c : EvId) (h : isCond s c = true) : c < s.events.size := by
  apply lt_of_kind
  intro hk
  unfold isCond at h
  rw [hk] at h
  exact absurd h (by simp)

theorem isCond_not_proc (s : KState ℚ σ) (c : EvId) (h : isCond s c = true) : (s.ev c).kind ≠ .proc := by
  intro hk
  unfold isCond at h
  rw [hk] at h
  exact absurd h (by simp)

/-! ### `proc?` -/

theorem proc?_setProc (s : KState ℚ σ) (p p' : EvId) (r : ProcRec σ) :
    (s.setProc p r).proc? p' = if p' = p then some r else s.proc? p' := by
  unfold KState.proc? KState.setProc
  simp only [List.find?_cons]
  by_cases h : p' = p
  · subst h; simp
  · have h1 : (p == p') = false := by simpa using fun hh => h hh.symm
    simp only [h1, if_neg h]
    congr 1
    induction s.procs with
    | nil => rfl
    | cons a l ih =>
      simp only [List.filter_cons]
      by_cases ha : a.1 = p
      · have : (a.1 != p) = false := by simp [ha]
        rw [this]
        simp only [Bool.false_eq_true, if_false, List.find?_cons]
        have : (a.1 == p') = false := by rw [ha]; exact h1
        rw [this]; exact ih
      · have : (a.1 != p) = true := by simp [ha]
        rw [this]
        simp only [if_true, List.find?_cons]
        split
        · rfl
        · exact ih

@[simp] theorem proc?_setEv (s : KState ℚ σ) (e : EvId) (x : EvRec ℚ) (p : EvId) : (s.setEv e x).proc? p = s.proc? p := rfl
@[simp] theorem proc?_schedule (s : KState ℚ σ) (e : EvId) (pr : Nat) (d : ℚ) (p : EvId) : (s.schedule e pr d).proc? p = s.proc? p := rfl
@[simp] theorem proc?_emit (s : KState ℚ σ) (o : Obs ℚ) (p : EvId) : (s.emit o).proc? p = s.proc? p := rfl
@[simp] theorem proc?_setRes (s : KState ℚ σ) (r : ResId) (x : ResRec) (p : EvId) : (s.setRes r x).proc? p = s.proc? p := rfl
@[simp] theorem proc?_newEv (s : KState ℚ σ) (x : EvRec ℚ) (p : EvId) : (s.newEv x).1.proc? p = s.proc? p := rfl
@[simp] theorem proc?_newLabelled (s : KState ℚ σ) (x : EvRec ℚ) (p : EvId) : (s.newLabelled x).1.proc? p = s.proc? p := rfl

/-! ### one event record updated in the fields the invariants look at -/

theorem size_setEv (s : KState ℚ σ) (e : EvId) (x : EvRec ℚ) : (s.setEv e x).events.size = s.events.size := by
  simp [KState.setEv]

/-- reading back after `setEv e x` where `x` has the kind of the old record -/
theorem kind_setEv (s : KState ℚ σ) (e e' : EvId) (x : EvRec ℚ) (h : x.kind = (s.ev e).kind) :
    ((s.setEv e x).ev e').kind = (s.ev e').kind := by
  rw [KState.ev_setEv]; split
  · rename_i hc; rw [hc.1]; exact h
  · rfl

theorem out_setEv (s : KState ℚ σ) (e e' : EvId) (x : EvRec ℚ) (h : x.out = (s.ev e).out) :
    ((s.setEv e x).ev e').out = (s.ev e').out := by
  rw [KState.ev_setEv]; split
  · rename_i hc; rw [hc.1]; exact h
  · rfl

theorem cbs_setEv (s : KState ℚ σ) (e e' : EvId) (x : EvRec ℚ) (h : x.cbs = (s.ev e).cbs) :
    ((s.setEv e x).ev e').cbs = (s.ev e').cbs := by
  rw [KState.ev_setEv]; split
  · rename_i hc; rw [hc.1]; exact h
  · rfl

theorem cbs_setEv_ne (s : KState ℚ σ) (e e' : EvId) (x : EvRec ℚ) (h : e' ≠ e) :
    ((s.setEv e x).ev e').cbs = (s.ev e').cbs := by
  rw [KState.ev_setEv, if_neg (fun hc => h hc.1)]

theorem out_setEv_ne (s : KState ℚ σ) (e e' : EvId) (x : EvRec ℚ) (h : e' ≠ e) :
    ((s.setEv e x).ev e').out = (s.ev e').out := by
  rw [KState.ev_setEv, if_neg (fun hc => h hc.1)]

/-- `addCb` : the callbacks of `e` get `cb` appended (nothing happens to a processed or non-existent event) -/
theorem cbs_addCb (s : KState ℚ σ) (e e' : EvId) (cb : Cb) :
    ((s.addCb e cb).ev e').cbs = if e' = e then (s.ev e).cbs.map (· ++ [cb]) else (s.ev e').cbs := by
  unfold KState.addCb
  simp only
  rw [KState.ev_setEv]
  by_cases h : e' = e
  · subst h
    by_cases h2 : e' < s.events.size
    · simp [h2]
    · simp only [h2, and_false, if_false, if_true]
      rw [ev_default s e' h2]; rfl
  · simp [h]

theorem cbs_eraseCb (s : KState ℚ σ) (e e' : EvId) (cb : Cb) :
    ((s.eraseCb e cb).ev e').cbs = if e' = e then (s.ev e).cbs.map (·.erase cb) else (s.ev e').cbs := by
  unfold KState.eraseCb
  rw [KState.ev_setEv]
  by_cases h : e' = e
  · subst h
    by_cases h2 : e' < s.events.size
    · simp [h2]
    · simp only [h2, and_false, if_false, if_true]
      rw [ev_default s e' h2]; rfl
  · simp [h]

theorem out_setOut (s : KState ℚ σ) (e e' : EvId) (o : Outcome) :
    ((s.setOut e o).ev e').out = if e' = e ∧ e < s.events.size then some o else (s.ev e').out := by
  unfold KState.setOut
  rw [KState.ev_setEv]
  split <;> rfl

end Once
