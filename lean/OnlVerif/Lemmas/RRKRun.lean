import OnlVerif.Lemmas.RRKAbsStep
import OnlVerif.Lemmas.ResStep
/-!
# The RR scheduler on the kernel model: every kernel step is a configuration step; whole runs
-/

set_option linter.unusedSimpArgs false

namespace RRK
open RROnK QEntry
open TimerK (lookup plookup proc?_eq)

variable {F : Nat} {flow size : Int → Nat} {cfg : RR.Cfg ℚ}
variable {s : KS} {a : A} {q : QEntry ℚ} {rest : List (QEntry ℚ)}

theorem firstHit_all_zero (c : Nat → Int) (hz : ∀ f, c f = 0) : ∀ (fl : List Nat) (i : Nat), firstHit c i fl = none
  | [], _ => rfl
  | f0 :: rest, i => by
    simp only [firstHit, hz f0, lt_irrefl, if_false, firstHit_all_zero c hz rest (i + 1)]

/-- with every counter at 0 a burst of `run` goes idle -/
theorem loop_idle_of_zero {a : A} (hz : ∀ f, a.cnt f = 0) (flows : List Nat) (i : Nat) : a.loop F flows i = .idle := by
  unfold A.loop
  rw [firstHit_all_zero _ hz]
  have : a.total F = 0 := sumFrom_all_zero _ _ _ (fun j _ _ => hz j)
  simp [this]

/-- the packet a burst of `run` takes: the head of the store of a backlogged flow -/
theorem loop_hit_facts {now : ℚ} (hi : AInv flow F cfg a now) (hh : a.run.held = none) {i j f : Nat}
    (hs : a.loop F cfg.flows i = .hit j f) : f < F ∧ ∃ id is, a.items f = id :: is ∧ flow id = f := by
  obtain ⟨h1, h2⟩ := loop_hit_spec hs
  have hf : f < F := (mem_flows hi f).mp (List.mem_of_getElem? h1)
  obtain ⟨id, is, hit⟩ := items_of_cnt hi hh hf h2
  exact ⟨hf, id, is, hit, hi.flowOK f hf id (by rw [hit]; simp)⟩

/-- what `popMin` returns is a minimal entry of the configuration -/
theorem isMin_of_pop (hk : KInv flow F s a) (hp : popMin s.agenda = some (q, rest)) :
    IsMin a q ∧ a.entries.Perm (q :: rest) := by
  have sp := popMin_spec _ _ _ hp
  have hperm : a.entries.Perm (q :: rest) := hk.ag.symm.trans sp.1
  refine ⟨⟨hperm.symm.subset List.mem_cons_self, ?_⟩, hperm⟩
  intro x hx
  rcases List.mem_cons.mp (hperm.subset hx) with rfl | hx
  · exact KeyLt.irrefl _
  · exact sp.2 x hx

theorem perm_run (hr : a.run.entries = [q]) (hperm : a.entries.Perm (q :: rest)) :
    rest.Perm (a.src.entries ++ pendEntries a.pend) := by
  simp only [A.entries, hr, List.singleton_append] at hperm
  exact hperm.cons_inv.symm

theorem perm_src (hr : a.src.entries = [q]) (hperm : a.entries.Perm (q :: rest)) :
    rest.Perm (a.run.entries ++ pendEntries a.pend) := by
  have : (q :: (a.run.entries ++ pendEntries a.pend)).Perm (q :: rest) := by
    refine List.Perm.trans ?_ hperm
    simp only [A.entries, hr, List.singleton_append]
    exact List.perm_middle.symm
  exact this.cons_inv.symm

theorem perm_pend {r : ResId} {l1 l2 : List (QEntry ℚ × ResId)} (hpe : a.pend = l1 ++ (q, r) :: l2)
    (hperm : a.entries.Perm (q :: rest)) : rest.Perm (a.run.entries ++ (a.src.entries ++ pendEntries (l1 ++ l2))) := by
  have : (q :: (a.run.entries ++ (a.src.entries ++ pendEntries (l1 ++ l2)))).Perm (q :: rest) := by
    refine List.Perm.trans ?_ hperm
    simp only [A.entries, hpe, pendEntries, List.map_append, List.map_cons]
    classical
    rw [List.perm_iff_count]
    intro z
    simp only [List.count_cons, List.count_append]
    omega
  exact this.cons_inv.symm

/-- `_trigger_get` of a pending `StorePut` that can serve nobody leaves the state alone -/
theorem triggerGet_noop (hk : KInv flow F s a) {r : Nat} {l1 l2 : List (QEntry ℚ × ResId)}
    (hpe : a.pend = l1 ++ (q, r) :: l2) (hno : ¬ (r = 0 ∧ a.tokens ≠ 0 ∧ ∃ g, a.run = .W g)) :
    triggerGet (openEvent s q rest) r = openEvent s q rest := by
  have hu : (q, r) ∈ a.pend := by rw [hpe]; simp
  obtain ⟨⟨hkind, hcbs, hout⟩, hrlt⟩ := hk.pend (q, r) hu
  by_cases hr0 : r = 0
  · subst hr0
    have htok := hk.tok
    simp only [KState.res] at htok
    cases hrun : a.run with
    | W g =>
      have htk : a.tokens = 0 := by
        by_contra hc
        exact hno ⟨rfl, hc, g, hrun⟩
      rw [hrun, htk] at htok
      simp only [RPhase.getQ, List.replicate] at htok
      have hr := hk.run
      rw [hrun] at hr
      obtain ⟨nrun, nsrc, npend, drun, dsrc⟩ := (ids_nodup_iff a).mp hk.nd
      obtain ⟨hqmem, -⟩ := pend_split_facts hpe npend
      have hgq : g ≠ q.ev := by
        intro h
        have := (drun g (by simp [hrun, rrids])).2
        exact this (h ▸ hqmem)
      have hgo := hr.1.2.2
      simp only [KState.ev] at hgo
      exact triggerGet_empty _ 0 g htok (by rsimp [hgq, hgo])
    | init q0 => rw [hrun] at htok; exact triggerGet_none _ 0 _ htok
    | K g q0 => rw [hrun] at htok; exact triggerGet_none _ 0 _ htok
    | H g i id q0 => rw [hrun] at htok; exact triggerGet_none _ 0 _ htok
    | S p i id q0 => rw [hrun] at htok; exact triggerGet_none _ 0 _ htok
    | T p t i id q0 => rw [hrun] at htok; exact triggerGet_none _ 0 _ htok
    | F p i id q0 => rw [hrun] at htok; exact triggerGet_none _ 0 _ htok
  · have hf : r - 1 < F := by
      have : r < F + 1 := hrlt
      omega
    have hst := hk.st (r - 1) hf
    have hrr : flowStore (r - 1) = r := by unfold flowStore; omega
    rw [hrr] at hst
    simp only [KState.res] at hst
    exact triggerGet_none _ r _ hst

/-- **one kernel step = one configuration step** -/
theorem kstep (fuel : Nat) (hk : KInv flow F s a) (hi0 : AInv flow F cfg a s.now) (hp : popMin s.agenda = some (q, rest)) :
    ∃ s' a' new, step (prog F flow size cfg) (fuel + 1) s = .ok s' ∧ KInv flow F s' a' ∧
      AStep F flow size cfg s.events.size s.eid a q a' new ∧
      s'.now = q.time ∧ histOf s'.trace = histOf s.trace ++ new := by
  obtain ⟨hmin, hperm⟩ := isMin_of_pop hk hp
  have hi := hi0.advance hmin
  have hflows : ∀ x ∈ cfg.flows, x < F := fun x hx => (mem_flows hi x).mp hx
  have hkeys := key_of_cnt hi
  have hq := hmin.1
  simp only [A.entries, List.mem_append] at hq
  unfold prog
  rcases hq with hq | hq | hq
  · -- an entry of the server
    have hrun := hi.run
    cases hr : a.run with
    | W g => simp [hr, RPhase.entries] at hq
    | init q0 =>
      simp only [hr, RPhase.entries, List.mem_singleton] at hq; subst hq
      have hrest := perm_run (by simp [hr, RPhase.entries]) hperm
      rw [hr] at hrun
      obtain ⟨-, -, htk, -, hit, hcn, -, -⟩ := hrun
      have hloop : a.loop F cfg.flows 0 = .idle := loop_idle_of_zero hcn _ _
      obtain ⟨s', h1, h2, h3, h4⟩ := kstep_runInit (size := size) (rate := cfg.rate) fuel hk hr hloop htk hflows hkeys hp hrest
      exact ⟨s', _, [], h1, h2, AStep.runInit a q hr, h3, by simpa using h4⟩
    | K g q0 =>
      simp only [hr, RPhase.entries, List.mem_singleton] at hq; subst hq
      have hrest := perm_run (by simp [hr, RPhase.entries]) hperm
      cases hloop : a.loop F cfg.flows 0 with
      | hit j f =>
        obtain ⟨hf, id, is, hit, hfl⟩ := loop_hit_facts hi (by simp [hr, RPhase.held]) hloop
        obtain ⟨s', h1, h2, h3, h4⟩ := kstep_wakeHit (size := size) (rate := cfg.rate) fuel hk hr hloop hf hit hfl hflows hkeys hp hrest
        exact ⟨s', _, [], h1, h2, AStep.wakeHit a q g j f id is hr hloop hf hit, h3, by simpa using h4⟩
      | idle =>
        cases htk : a.tokens with
        | zero =>
          obtain ⟨s', h1, h2, h3, h4⟩ := kstep_wakeBlock (size := size) (rate := cfg.rate) fuel hk hr hloop htk hflows hkeys hp hrest
          exact ⟨s', _, [], h1, h2, AStep.wakeBlock a q g hr hloop htk, h3, by simpa using h4⟩
        | succ t =>
          obtain ⟨s', h1, h2, h3, h4⟩ := kstep_wakeTok (size := size) (rate := cfg.rate) fuel hk hr hloop htk hflows hkeys hp hrest
          exact ⟨s', _, [], h1, h2, AStep.wakeTok a q g t hr hloop htk, h3, by simpa using h4⟩
      | hang => exact absurd hloop (loop_not_hang hi 0)
    | H g i id q0 =>
      simp only [hr, RPhase.entries, List.mem_singleton] at hq; subst hq
      have hrest := perm_run (by simp [hr, RPhase.entries]) hperm
      rw [hr] at hrun
      obtain ⟨s', h1, h2, h3, h4⟩ := kstep_pktResume (size := size) (rate := cfg.rate) (flows := cfg.flows) fuel hk hr hrun.2.2.2.1 hp hrest
      exact ⟨s', _, _, h1, h2, AStep.pktResume a q g i id hr, h3, h4⟩
    | S p i id q0 =>
      simp only [hr, RPhase.entries, List.mem_singleton] at hq; subst hq
      have hrest := perm_run (by simp [hr, RPhase.entries]) hperm
      obtain ⟨s', h1, h2, h3, h4⟩ := kstep_sendInit (size := size) (flows := cfg.flows) fuel hi.rate hk hr hp hrest
      exact ⟨s', _, [], h1, h2, AStep.sendInit a q p i id hr, h3, by simpa using h4⟩
    | T p t i id q0 =>
      simp only [hr, RPhase.entries, List.mem_singleton] at hq; subst hq
      have hrest := perm_run (by simp [hr, RPhase.entries]) hperm
      rw [hr] at hrun
      obtain ⟨s', h1, h2, h3, h4⟩ := kstep_sendFire (size := size) (rate := cfg.rate) (flows := cfg.flows) fuel hk hr hrun.2.2 hp hrest
      exact ⟨s', _, _, h1, h2, AStep.sendFire a q p t i id hr, h3, h4⟩
    | F p i id0 q0 =>
      simp only [hr, RPhase.entries, List.mem_singleton] at hq; subst hq
      have hrest := perm_run (by simp [hr, RPhase.entries]) hperm
      cases hloop : a.loop F cfg.flows (i + 1) with
      | hit j f =>
        obtain ⟨hf, id, is, hit, hfl⟩ := loop_hit_facts hi (by simp [hr, RPhase.held]) hloop
        obtain ⟨s', h1, h2, h3, h4⟩ := kstep_doneHit (size := size) (rate := cfg.rate) fuel hk hr hloop hf hit hfl hflows hkeys hp hrest
        exact ⟨s', _, [], h1, h2, AStep.doneHit a q p i id0 j f id is hr hloop hf hit, h3, by simpa using h4⟩
      | idle =>
        cases htk : a.tokens with
        | zero =>
          obtain ⟨s', h1, h2, h3, h4⟩ := kstep_doneBlock (size := size) (rate := cfg.rate) fuel hk hr hloop htk hflows hkeys hp hrest
          exact ⟨s', _, [], h1, h2, AStep.doneBlock a q p i id0 hr hloop htk, h3, by simpa using h4⟩
        | succ t =>
          obtain ⟨s', h1, h2, h3, h4⟩ := kstep_doneTok (size := size) (rate := cfg.rate) fuel hk hr hloop htk hflows hkeys hp hrest
          exact ⟨s', _, [], h1, h2, AStep.doneTok a q p i id0 t hr hloop htk, h3, by simpa using h4⟩
      | hang => exact absurd hloop (loop_not_hang hi (i + 1))
  · -- an entry of the source
    have hsa := hi.src
    cases hsrc : a.src with
    | done => simp [hsrc, SPhase.entries] at hq
    | init q0 arr =>
      simp only [hsrc, SPhase.entries, List.mem_singleton] at hq; subst hq
      have hrest := perm_src (by simp [hsrc, SPhase.entries]) hperm
      rw [hsrc] at hsa
      obtain ⟨s', h1, h2, h3, h4⟩ := kstep_srcInit (size := size) (rate := cfg.rate) (flows := cfg.flows) fuel hk hsrc
        (fun x hx => (hsa.2.2 x hx).1) hp hrest
      exact ⟨s', _, [], h1, h2, AStep.srcInit a q arr hsrc, h3, by simpa using h4⟩
    | ending q0 =>
      simp only [hsrc, SPhase.entries, List.mem_singleton] at hq; subst hq
      have hrest := perm_src (by simp [hsrc, SPhase.entries]) hperm
      obtain ⟨s', h1, h2, h3, h4⟩ := kstep_srcEnd (size := size) (rate := cfg.rate) (flows := cfg.flows) fuel hk hsrc hp hrest
      exact ⟨s', _, [], h1, h2, AStep.srcEnd a q hsrc, h3, by simpa using h4⟩
    | wait id arr q0 =>
      simp only [hsrc, SPhase.entries, List.mem_singleton] at hq; subst hq
      have hrest := perm_src (by simp [hsrc, SPhase.entries]) hperm
      rw [hsrc] at hsa
      obtain ⟨-, hfid, hw⟩ := hsa
      by_cases htot : a.total F = 0
      · obtain ⟨s', h1, h2, h3, h4⟩ := kstep_srcPutTok (size := size) (rate := cfg.rate) (flows := cfg.flows) fuel hk hsrc hfid htot
          (fun x hx => (hw x hx).1) hp hrest
        exact ⟨s', _, _, h1, h2, AStep.srcPutTok a q id arr hsrc htot, h3, h4⟩
      · obtain ⟨s', h1, h2, h3, h4⟩ := kstep_srcPutPlain (size := size) (rate := cfg.rate) (flows := cfg.flows) fuel hk hsrc hfid htot
          (fun x hx => (hw x hx).1) hp hrest
        exact ⟨s', _, _, h1, h2, AStep.srcPutPlain a q id arr hsrc htot, h3, h4⟩
  · -- a pending `StorePut` event
    simp only [pendEntries, List.mem_map] at hq
    obtain ⟨u, hu, rfl⟩ := hq
    obtain ⟨l1, l2, hpe⟩ := List.append_of_mem hu
    obtain ⟨q1, r⟩ := u
    have hrest := perm_pend hpe hperm
    by_cases hh : r = 0 ∧ a.tokens ≠ 0 ∧ ∃ g, a.run = .W g
    · obtain ⟨rfl, htk, g, hr⟩ := hh
      obtain ⟨t, ht⟩ := Nat.exists_eq_succ_of_ne_zero htk
      obtain ⟨s', h1, h2, h3, h4⟩ := kstep_pendHand (size := size) (rate := cfg.rate) (flows := cfg.flows) fuel hk hpe hr ht hp hrest
      exact ⟨s', _, [], h1, h2, AStep.pendHand a q1 g t l1 l2 hpe hr ht, h3, by simpa using h4⟩
    · obtain ⟨s', h1, h2, h3, h4⟩ := kstep_pendNoop (size := size) (rate := cfg.rate) (flows := cfg.flows) fuel hk hpe
        (triggerGet_noop hk hpe hh) hp hrest
      exact ⟨s', _, [], h1, h2, AStep.pendNoop a q1 r l1 l2 hpe hh, h3, by simpa using h4⟩

/-! ## the combined invariant -/

/-- the kernel state `s` is the configuration `a`, and `a` is sound -/
structure Inv (F : Nat) (flow : Int → Nat) (cfg : RR.Cfg ℚ) (s : KS) (a : A) : Prop where
  k : KInv flow F s a
  a : AInv flow F cfg a s.now

/-- **one kernel step**: it is `.ok`, is a configuration step, keeps the invariant and uses one unit of the step budget -/
theorem inv_step (fuel : Nat) (h : Inv F flow cfg s a) (hp : popMin s.agenda = some (q, rest)) :
    ∃ s' a' new, step (prog F flow size cfg) (fuel + 1) s = .ok s' ∧ Inv F flow cfg s' a' ∧ a'.mu F + 1 ≤ a.mu F ∧
      AStep F flow size cfg s.events.size s.eid a q a' new ∧ s'.now = q.time ∧ histOf s'.trace = histOf s.trace ++ new := by
  obtain ⟨s', a', new, h1, h2, h3, h4, h5⟩ := kstep (size := size) fuel h.k h.a hp
  obtain ⟨g1, g2⟩ := astep_sound h.a (isMin_of_pop h.k hp).1 h3
  exact ⟨s', a', new, h1, ⟨h2, by rw [h4]; exact g1⟩, g2, h3, h4, h5⟩

theorem popMin_none {l : List (QEntry ℚ)} (h : popMin l = none) : l = [] := by
  cases l with
  | nil => rfl
  | cons x xs =>
    unfold popMin at h
    cases hp : popMin xs with
    | none => rw [hp] at h; cases h
    | some mr => rw [hp] at h; simp only at h; split at h <;> cases h

/-- **`run()` returns**: with more step budget than the configuration needs, `runLoop` ends with an empty agenda, in a state
reachable by kernel steps -/
theorem run_returns (fuel : Nat) (s0 : KS) : ∀ (n : Nat) (s : KS) (a : A), Inv F flow cfg s a → a.mu F < n →
    KReach (prog F flow size cfg) (fuel + 1) s0 s →
    ∃ sF aF, runLoop (prog F flow size cfg) (fuel + 1) none n s = .returned .none sF ∧
      Inv F flow cfg sF aF ∧ sF.agenda = [] ∧ KReach (prog F flow size cfg) (fuel + 1) s0 sF
  | 0, _, _, _, hmu, _ => absurd hmu (Nat.not_lt_zero _)
  | n + 1, s, a, h, hmu, hre => by
    cases hp : popMin s.agenda with
    | none =>
      refine ⟨s, a, ?_, h, popMin_none hp, hre⟩
      simp [runLoop, step, hp]
    | some qr =>
      obtain ⟨q, rest⟩ := qr
      obtain ⟨s', a', new, h1, h2, h3, -⟩ := inv_step (size := size) fuel h hp
      have := run_returns fuel s0 n s' a' h2 (by omega) (KReach.step hre (by rw [h1]; rfl))
      simpa [runLoop, h1] using this

/-! ## the initial state -/

/-- the configuration of the initial state -/
def a0 (arrivals : List (ℚ × Int)) : A :=
  { run := .init ⟨0, URGENT, 0, 1⟩, src := .init ⟨0, URGENT, 1, 3⟩ arrivals, pend := [], tokens := 0, items := fun _ => [],
    cnt := fun _ => 0, byt := fun _ => 0, recv := 0, cur := none, keys := [] }

theorem lookup_flowCells (v : List (Nat × Val)) : ∀ (n f0 f : Nat), f0 ≤ f → f < f0 + n →
    lookup (flowCells f0 n ++ v) (cCount f) = .int 0 ∧ lookup (flowCells f0 n ++ v) (cBytes f) = .int 0 ∧
    lookup (flowCells f0 n ++ v) (cHas f) = .int 0
  | 0, f0, f, h1, h2 => by omega
  | n + 1, f0, f, h1, h2 => by
    simp only [flowCells, List.cons_append]
    by_cases hf : f = f0
    · subst hf
      rsimp [TimerK.lookup_cons]
    · have ih := lookup_flowCells v n (f0 + 1) f (by omega) (by omega)
      rsimp [TimerK.lookup_cons, hf, ih.1, ih.2.1, ih.2.2]

theorem getD_replicate (n r : Nat) (h : r < n) :
    ((List.replicate n storeRes).toArray : Array ResRec).getD r default = storeRec [] [] := by
  simp [Array.getD_eq_getD_getElem?, h, storeRes, storeRec]

theorem inv_init (arrivals : List (ℚ × Int)) (hw : WorkOK flow F arrivals) (ht : FlowsOK F cfg) (hr : 0 < cfg.rate) :
    Inv F flow cfg (initState F arrivals) (a0 arrivals) := by
  simp only [initState, List.foldl, doCall_spawn, zero_eq']
  refine ⟨⟨⟨?_, ?_, ?_⟩, ?_, ?_, ?_, ?_, ?_, ?_, ?_, ?_, ?_, ?_, ?_, ?_, ?_⟩, ⟨?_, ?_, ?_, ?_, ?_, ?_, ?_, ht, hr⟩⟩
  · intro q hq; simp at hq; rcases hq with rfl | rfl <;> simp
  · intro q hq; simp at hq; rcases hq with rfl | rfl <;> simp
  · simp
  · simp only [A.entries, a0, RPhase.entries, SPhase.entries, pendEntries, List.map_nil, List.append_nil, List.singleton_append]
    exact List.Perm.swap _ _ _
  · simp
  · simp only [KState.res, a0, RPhase.getQ, List.replicate]
    exact getD_replicate (F + 1) 0 (by omega)
  · intro f hf
    simp only [KState.res, a0]
    exact getD_replicate (F + 1) (flowStore f) (by unfold flowStore; omega)
  · refine ⟨rfl, ?_, ?_, ?_⟩
    · simp [EvIs, KState.ev]
    · simp [proc?_eq, plookup]
    · simp [EvIs, KState.ev]
  · refine ⟨rfl, ?_, ?_, ?_⟩
    · simp [EvIs, KState.ev]
    · simp [proc?_eq, plookup]
    · simp [EvIs, KState.ev]
  · intro u hu; cases hu
  · simp [a0, rrids]
  · rsimp [a0, TimerK.lookup_cons]
  · rsimp [a0, TimerK.lookup_cons]
  · intro f hf
    have := (lookup_flowCells [] F 0 f (Nat.zero_le _) (by omega)).1
    simp only [List.append_nil] at this
    rsimp [a0, TimerK.lookup_cons, this]
  · intro f hf
    have := (lookup_flowCells [] F 0 f (Nat.zero_le _) (by omega)).2.1
    simp only [List.append_nil] at this
    rsimp [a0, TimerK.lookup_cons, this]
  · intro f hf
    have := (lookup_flowCells [] F 0 f (Nat.zero_le _) (by omega)).2.2
    simp only [List.append_nil] at this
    rsimp [a0, TimerK.lookup_cons, this]
  · exact ⟨rfl, rfl, rfl, rfl, fun _ => rfl, fun _ => rfl, rfl, rfl⟩
  · exact ⟨rfl, rfl, hw⟩
  · intro u hu; cases hu
  · intro x hx
    simp [A.entries, a0, RPhase.entries, SPhase.entries, pendEntries] at hx
    rcases hx with rfl | rfl <;> simp
  · intro f hf; simp [a0, heldCnt, RPhase.held]
  · intro f hf i hi; simp [a0] at hi
  · exact ⟨fun f hf => by simp [a0] at hf, fun f hf _ => ⟨rfl, rfl, rfl⟩⟩

theorem a0_mu (arrivals : List (ℚ × Int)) : (a0 arrivals).mu F = 10 * arrivals.length + 3 := by
  have : waitingFrom (fun _ => ([] : List Int)) 0 F = 0 := waitingFrom_zero _ _ _ (fun _ _ _ => rfl)
  simp [A.mu, a0, RPhase.mu, SPhase.mu, this]
  omega

/-- **every state reachable by kernel steps is a sound configuration** -/
theorem reach_inv (fuel : Nat) {arrivals : List (ℚ × Int)} (hw : WorkOK flow F arrivals) (ht : FlowsOK F cfg)
    (hr : 0 < cfg.rate) {s : KS} (h : KReach (prog F flow size cfg) (fuel + 1) (initState F arrivals) s) :
    ∃ a, Inv F flow cfg s a := by
  induction h with
  | init => exact ⟨a0 arrivals, inv_init arrivals hw ht hr⟩
  | @step s s' _ hs ih =>
    obtain ⟨a, hi⟩ := ih
    cases hp : popMin s.agenda with
    | none => simp [step, hp, StepResult.state?] at hs
    | some qr =>
      obtain ⟨q, rest⟩ := qr
      obtain ⟨s'', a', new, h1, h2, -⟩ := inv_step (size := size) fuel hi hp
      rw [h1] at hs
      simp only [StepResult.state?, Option.some.injEq] at hs
      subst hs
      exact ⟨a', h2⟩

end RRK
