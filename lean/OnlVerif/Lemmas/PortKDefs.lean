import OnlVerif.Lemmas.KernelStep
import OnlVerif.Lemmas.KAccess
import OnlVerif.Lemmas.Port
import OnlVerif.Net.PortOnK
/-!
# The Port on the kernel model: canonical configurations (definitions)

`A` is an abstract description of a kernel state of the program `PortOnK.body`: where the two processes are
suspended, which agenda entries exist, what the store holds, the attribute cells.  `Inv s a` says that the kernel
state `s` *is* the configuration `a`: it pins down every part of `s` that `Environment.step` and the two
generators can read.  `toF a` is the LTS state (`Net/Fifo.lean`) the configuration stands for, `pred a` the
departures still to come.
-/

namespace PortK
open PortOnK

abbrev St := PSt ℚ
abbrev KS := KState ℚ St

/-- where `Port.run` is -/
inductive PPhase where
  /-- not started: its `Initialize` entry `q` is in the agenda -/
  | init (q : QEntry ℚ)
  /-- blocked in `store.get()`: the `StoreGet` event `g` waits in the get queue -/
  | W (g : EvId)
  /-- `store.get()` has been served with packet `id`: the `StoreGet` event `g` is triggered, entry `q` -/
  | H (g : EvId) (id : Int) (q : QEntry ℚ)
  /-- transmitting packet `id`: sleeping on timeout `t`, entry `q` -/
  | T (t : EvId) (id : Int) (q : QEntry ℚ)

/-- where the source is -/
inductive SPhase where
  | init (q : QEntry ℚ) (arr : List (ℚ × Int))
  /-- sleeping on the timeout (entry `q`) after which it puts packet `id`; `rest` still to come -/
  | wait (id : Int) (rest : List (ℚ × Int)) (q : QEntry ℚ)
  /-- the generator has returned: the process event (entry `q`) is triggered -/
  | ending (q : QEntry ℚ)
  | done

structure A where
  port : PPhase
  src : SPhase
  /-- the `StorePut` event of the last `store.put`, triggered and not yet processed -/
  pend : Option (QEntry ℚ)
  /-- `store.items` -/
  items : List Int
  bytes : Int
  recv : Nat
  busy : Bool
  bsz : Nat
  /-- instant of the last departure -/
  last : Option ℚ
  /-- ids handed to `put` so far -/
  putIds : List Int
  /-- `packets_dropped` -/
  dropped : Nat
  /-- ids `put` has accepted so far -/
  accIds : List Int

def PPhase.entries : PPhase → List (QEntry ℚ)
  | .init q => [q]
  | .W _ => []
  | .H _ _ q => [q]
  | .T _ _ q => [q]

def SPhase.entries : SPhase → List (QEntry ℚ)
  | .init q _ => [q]
  | .wait _ _ q => [q]
  | .ending q => [q]
  | .done => []

def A.entries (a : A) : List (QEntry ℚ) := a.port.entries ++ (a.src.entries ++ a.pend.toList)

def PPhase.getQ : PPhase → List EvId
  | .W g => [g]
  | _ => []

/-- the ids and gaps the source has still to deliver, with the instant its loop is at -/
def SPhase.todo (now : ℚ) : SPhase → ℚ × List (ℚ × Int)
  | .init _ arr => (now, arr)
  | .wait id rest q => (q.time, (0, id) :: rest)
  | _ => (now, [])

/-- kind, callbacks and outcome of a live event -/
def EvIs (s : KS) (e : EvId) (k : Kind) (cbs : List Cb) (out : Option Outcome) : Prop :=
  (s.ev e).kind = k ∧ (s.ev e).cbs = some cbs ∧ (s.ev e).out = out

/-- an attribute cell as `Call.load` returns it -/
def lookup (l : List (Nat × Val)) (k : Nat) : Val := ((l.find? (·.1 == k)).map (·.2)).getD .none

/-- the store record of the port -/
def storeRec (getQ : List EvId) (items : List Int) : ResRec :=
  { kind := .store, capacity := none, getQ := getQ, items := items }

/-! ## the kernel side of a configuration: events, process records, store, cells -/

def PortEv (s : KS) : PPhase → Prop
  | .init q => q.ev = 1 ∧ EvIs s 1 (.init 0) [.resume 0] (some (.ok .none)) ∧
      s.proc? 0 = some { st := .portStart, target := some 1 }
  | .W g => EvIs s g (.get 0) [.trigPut 0, .resume 0] none ∧
      s.proc? 0 = some { st := .portGet, target := some g }
  | .H g id q => q.ev = g ∧ EvIs s g (.get 0) [.trigPut 0, .resume 0] (some (.ok (.int id))) ∧
      s.proc? 0 = some { st := .portGet, target := some g }
  | .T t id q => q.ev = t ∧ EvIs s t .timeout [.resume 0] (some (.ok .none)) ∧
      s.proc? 0 = some { st := .portTx id, target := some t }

def SrcEv (s : KS) : SPhase → Prop
  | .init q arr => q.ev = 3 ∧ EvIs s 3 (.init 2) [.resume 2] (some (.ok .none)) ∧
      s.proc? 2 = some { st := .src none arr, target := some 3 } ∧ EvIs s 2 .proc [] none
  | .wait id rest q => EvIs s q.ev .timeout [.resume 2] (some (.ok .none)) ∧
      s.proc? 2 = some { st := .src (some id) rest, target := some q.ev } ∧ EvIs s 2 .proc [] none
  | .ending q => q.ev = 2 ∧ EvIs s 2 .proc [] (some (.ok .none))
  | .done => True

/-- the kernel state `s` has the configuration `a` -/
structure KInv (s : KS) (a : A) : Prop where
  wf : AgendaWF s
  ag : s.agenda.Perm a.entries
  rsz : 0 < s.resources.size
  res : s.res 0 = storeRec a.port.getQ a.items
  port : PortEv s a.port
  src : SrcEv s a.src
  pend : ∀ u, a.pend = some u → EvIs s u.ev (.put 0) [.trigGet 0] (some (.ok .none))
  c0 : lookup s.shared 0 = .int a.bytes
  c1 : lookup s.shared 1 = .int a.recv
  c2 : lookup s.shared 2 = .int (if a.busy then 1 else 0)
  c3 : lookup s.shared 3 = .int a.bsz
  c4 : lookup s.shared 4 = .int a.dropped

/-! ## the abstract side: times, priorities, the departures still to come -/

def GapsOK (l : List (ℚ × Int)) : Prop := ∀ x ∈ l, 0 ≤ x.1

/-- the server is idle (blocked in `get` or not started) -/
def PPhase.idle : PPhase → Bool
  | .init _ => true
  | .W _ => true
  | _ => false

def PortA (items : List Int) (pend : Option (QEntry ℚ)) (last : Option ℚ) (now : ℚ) : PPhase → Prop
  | .init q => q.time = now ∧ q.prio = URGENT ∧ items = [] ∧ pend = none ∧ last = none
  | .W _ => True
  | .H _ _ q => q.time = now ∧ q.prio = NORMAL
  | .T _ _ q => q.prio = NORMAL

def SrcA (pend : Option (QEntry ℚ)) (now : ℚ) : SPhase → Prop
  | .init q arr => q.time = now ∧ q.prio = URGENT ∧ GapsOK arr ∧ pend = none
  | .wait _ rest q => q.prio = NORMAL ∧ GapsOK rest ∧ ∀ u, pend = some u → u.eid < q.eid
  | .ending q => q.time = now ∧ q.prio = NORMAL
  | .done => True

variable (size : Int → Nat) (rate : ℚ) (ql : Option Int)

/-- transmission delay -/
def tx (id : Int) : ℚ := txDelay size rate id

/-- back-to-back service of the queue from instant `f` -/
def serve : ℚ → List Int → List (Int × ℚ)
  | _, [] => []
  | f, i :: is => (i, f + tx size rate i) :: serve (f + tx size rate i) is

def serveEnd : ℚ → List Int → ℚ
  | f, [] => f
  | f, i :: is => serveEnd (f + tx size rate i) is

/-- departures of the queue served from `f`, followed by those of the arrivals still to come -/
def afterQ (a : A) (now f : ℚ) : List (Int × ℚ) :=
  serve size rate f a.items ++
    departures size rate (some (serveEnd size rate f a.items)) (a.src.todo now).1 (a.src.todo now).2

/-- **the departures still to come**, as determined by the configuration -/
def pred (a : A) (now : ℚ) : List (Int × ℚ) :=
  match a.port with
  | .H _ id _ => (id, now + tx size rate id) :: afterQ size rate a now (now + tx size rate id)
  | .T _ id q => (id, q.time) :: afterQ size rate a now q.time
  | _ =>
    match a.items with
    | [] => departures size rate a.last (a.src.todo now).1 (a.src.todo now).2
    | _ :: _ => afterQ size rate a now now

/-- **the LTS state a configuration stands for** -/
def toF (a : A) (now : ℚ) : FState ℚ (PortSt ℚ) :=
  { now := now
    dev := { byteSize := a.bytes, received := a.recv, dropped := a.dropped, busy := a.busy, busySize := a.bsz, avg := 0 }
    items := a.items.map (pktOf size)
    getPending := match a.port with | .W _ => true | _ => false
    handed := match a.port with | .H _ id _ => some (pktOf size id) | _ => none
    tx := match a.port with | .T _ id q => some (pktOf size id, q.time, 0) | _ => none
    started := match a.port with | .init _ => false | _ => true }

/-- ids still in the source's hands -/
def SPhase.ids : SPhase → List Int
  | .init _ arr => arr.map (·.2)
  | .wait id rest _ => id :: rest.map (·.2)
  | _ => []

/-- what holds of a configuration at instant `now` when `outs` have departed so far -/
structure AInv (arrivals : List (ℚ × Int)) (a : A) (now : ℚ) (outs : List (Int × ℚ)) : Prop where
  port : PortA a.items a.pend a.last now a.port
  src : SrcA a.pend now a.src
  pend : ∀ u, a.pend = some u → u.time = now ∧ u.prio = NORMAL
  /-- a waiting packet beside an idle server means the `StorePut` event that will hand it over is pending -/
  idle : a.port.idle = true → a.items ≠ [] → a.pend.isSome = true
  last : ∀ d, a.last = some d → d ≤ now
  due : ∀ x ∈ a.entries, now ≤ x.time
  /-- without a limit the departures are predictable: departed so far ++ still to come = the recurrence -/
  ghost : ql = none → outs ++ pred size rate a now = departures size rate none 0 arrivals
  puts : arrivals.map (·.2) = a.putIds ++ a.src.ids
  nput : a.putIds.length = a.recv
  nacc : a.accIds.length + a.dropped = a.recv
  accnone : ql = none → a.accIds = a.putIds

/-- number of kernel steps a configuration still needs -/
def PPhase.mu : PPhase → Nat
  | .init _ => 1
  | .W _ => 0
  | .H _ _ _ => 2
  | .T _ _ _ => 1

def SPhase.mu : SPhase → Nat
  | .init _ arr => 4 * arr.length + 2
  | .wait _ rest _ => 4 * rest.length + 5
  | .ending _ => 1
  | .done => 0

def A.mu (a : A) : Nat := a.port.mu + a.src.mu + (if a.pend.isSome then 1 else 0) + 2 * a.items.length

/-- **one kernel step, seen on configurations**: the agenda entry `q` is processed; `outs` leave the port -/
inductive AStep : A → QEntry ℚ → A → List (Int × ℚ) → Prop
  /-- `Port.run` starts and blocks in `store.get()` -/
  | portInit (a : A) (q : QEntry ℚ) (g : EvId) (h : a.port = .init q) :
      AStep a q { a with port := .W g } []
  /-- the source starts with nothing to send -/
  | srcInitEnd (a : A) (q q' : QEntry ℚ) (h : a.src = .init q []) (ht : q'.time = q.time) (hp : q'.prio = NORMAL) :
      AStep a q { a with src := .ending q' } []
  /-- the source starts and sleeps until the first arrival -/
  | srcInitWait (a : A) (q q' : QEntry ℚ) (gap : ℚ) (id : Int) (rest : List (ℚ × Int))
      (h : a.src = .init q ((gap, id) :: rest)) (ht : q'.time = q.time + gap) (hp : q'.prio = NORMAL) :
      AStep a q { a with src := .wait id rest q' } []
  /-- the last arrival: `put`, then the source returns -/
  | srcPutEnd (a : A) (q u q' : QEntry ℚ) (id : Int) (h : a.src = .wait id [] q) (hn : a.pend = none)
      (hacc : ∀ l, ql = some l → ¬ l < a.bytes + (size id : Int))
      (hu : u.time = q.time ∧ u.prio = NORMAL) (ht : q'.time = q.time ∧ q'.prio = NORMAL) :
      AStep a q { a with src := .ending q', pend := some u, items := a.items ++ [id],
                         bytes := a.bytes + (size id : Int), recv := a.recv + 1, putIds := a.putIds ++ [id],
                         accIds := a.accIds ++ [id] } []
  /-- an arrival: `put`, then the source sleeps until the next one -/
  | srcPutWait (a : A) (q u q' : QEntry ℚ) (id : Int) (gap : ℚ) (id' : Int) (rest : List (ℚ × Int))
      (h : a.src = .wait id ((gap, id') :: rest) q) (hn : a.pend = none)
      (hacc : ∀ l, ql = some l → ¬ l < a.bytes + (size id : Int))
      (hu : u.time = q.time ∧ u.prio = NORMAL) (ht : q'.time = q.time + gap ∧ q'.prio = NORMAL) (ho : u.eid < q'.eid) :
      AStep a q { a with src := .wait id' rest q', pend := some u, items := a.items ++ [id],
                         bytes := a.bytes + (size id : Int), recv := a.recv + 1, putIds := a.putIds ++ [id],
                         accIds := a.accIds ++ [id] } []
  /-- the last arrival is refused (`byte_size + size > qlimit`): `packets_dropped += 1`, then the source returns -/
  | srcDropEnd (a : A) (q q' : QEntry ℚ) (id : Int) (l : Int) (h : a.src = .wait id [] q) (hn : a.pend = none)
      (hl : ql = some l) (hdrop : l < a.bytes + (size id : Int)) (ht : q'.time = q.time ∧ q'.prio = NORMAL) :
      AStep a q { a with src := .ending q', recv := a.recv + 1, putIds := a.putIds ++ [id],
                         dropped := a.dropped + 1 } []
  /-- an arrival is refused: `packets_dropped += 1`, then the source sleeps until the next one -/
  | srcDropWait (a : A) (q q' : QEntry ℚ) (id : Int) (gap : ℚ) (id' : Int) (rest : List (ℚ × Int)) (l : Int)
      (h : a.src = .wait id ((gap, id') :: rest) q) (hn : a.pend = none)
      (hl : ql = some l) (hdrop : l < a.bytes + (size id : Int)) (ht : q'.time = q.time + gap ∧ q'.prio = NORMAL) :
      AStep a q { a with src := .wait id' rest q', recv := a.recv + 1, putIds := a.putIds ++ [id],
                         dropped := a.dropped + 1 } []
  /-- the `StorePut` event is processed and nobody waits for its item (or the waiting server finds the store empty) -/
  | putIdle (a : A) (q : QEntry ℚ) (h : a.pend = some q) (hw : a.port.getQ = [] ∨ a.items = []) :
      AStep a q { a with pend := none } []
  /-- the `StorePut` event is processed: the store hands the head item to the waiting server -/
  | putHand (a : A) (q q' : QEntry ℚ) (g : EvId) (i : Int) (is : List Int) (h : a.pend = some q) (hw : a.port = .W g)
      (hi : a.items = i :: is) (ht : q'.time = q.time ∧ q'.prio = NORMAL) :
      AStep a q { a with pend := none, port := .H g i q', items := is } []
  /-- the `StoreGet` event is processed: the server resumes with the packet and starts to transmit -/
  | serveTx (a : A) (q q' : QEntry ℚ) (g t : EvId) (id : Int) (h : a.port = .H g id q) (hr : 0 < rate)
      (ht : q'.time = q.time + txTime size rate id ∧ q'.prio = NORMAL) :
      AStep a q { a with port := .T t id q', busy := true, bsz := size id } []
  /-- `rate ≤ 0`: the `StoreGet` event is processed, the packet leaves in the same burst, the store is empty -/
  | serveNowIdle (a : A) (q : QEntry ℚ) (g g' : EvId) (id : Int) (h : a.port = .H g id q) (hr : ¬ 0 < rate)
      (hi : a.items = []) :
      AStep a q { a with port := .W g', bytes := a.bytes - (size id : Int), busy := false, bsz := 0, last := some q.time }
        [(id, q.time)]
  /-- `rate ≤ 0`: the packet leaves in the burst that took it and the next one is taken at once -/
  | serveNowNext (a : A) (q q' : QEntry ℚ) (g g' : EvId) (id i : Int) (is : List Int) (h : a.port = .H g id q)
      (hr : ¬ 0 < rate) (hi : a.items = i :: is) (ht : q'.time = q.time ∧ q'.prio = NORMAL) :
      AStep a q { a with port := .H g' i q', items := is, bytes := a.bytes - (size id : Int), busy := false, bsz := 0,
                         last := some q.time } [(id, q.time)]
  /-- the transmission ends, the store is empty: the server blocks in `get` -/
  | fireIdle (a : A) (q : QEntry ℚ) (t g : EvId) (id : Int) (h : a.port = .T t id q) (hi : a.items = []) :
      AStep a q { a with port := .W g, bytes := a.bytes - (size id : Int), busy := false, bsz := 0, last := some q.time }
        [(id, q.time)]
  /-- the transmission ends and the next packet is taken at once -/
  | fireNext (a : A) (q q' : QEntry ℚ) (t g : EvId) (id i : Int) (is : List Int) (h : a.port = .T t id q)
      (hi : a.items = i :: is) (ht : q'.time = q.time ∧ q'.prio = NORMAL) :
      AStep a q { a with port := .H g i q', items := is, bytes := a.bytes - (size id : Int), busy := false, bsz := 0,
                         last := some q.time } [(id, q.time)]
  /-- the process event of the finished source is processed -/
  | srcEnd (a : A) (q : QEntry ℚ) (h : a.src = .ending q) : AStep a q { a with src := .done } []

end PortK
