import OnlVerif.Lemmas.VCKGrid
import Mathlib.Tactic.FieldSimp
/-!
# Every finite rational workload lies on a grid `ℤ / scale`
-/

namespace VCK
open VCOnK

/-- a rational whose denominator divides `D` lies on the grid `ℤ / D` -/
theorem onGrid_of_den_dvd {D : Nat} (x : ℚ) (h : x.den ∣ D) (hD : 0 < D) : OnGrid D x := by
  obtain ⟨k, rfl⟩ := h
  refine ⟨x.num * k, ?_⟩
  have hd : (x.den : ℚ) ≠ 0 := by exact_mod_cast x.den_nz
  have hk : (k : ℚ) ≠ 0 := by
    intro h0
    have : k = 0 := by exact_mod_cast h0
    subst this; simp at hD
  have hx : x = x.num / x.den := (Rat.num_div_den x).symm
  conv_lhs => rw [hx]
  push_cast
  field_simp

/-- the product of the denominators of a list of rationals -/
def denProd : List ℚ → Nat
  | [] => 1
  | x :: r => x.den * denProd r

theorem denProd_pos : ∀ l : List ℚ, 0 < denProd l
  | [] => Nat.one_pos
  | x :: r => Nat.mul_pos x.den_pos (denProd_pos r)

theorem den_dvd_denProd : ∀ (l : List ℚ) (x : ℚ), x ∈ l → x.den ∣ denProd l
  | y :: r, x, h => by
    rcases List.mem_cons.mp h with rfl | h
    · exact Dvd.intro _ rfl
    · exact Dvd.dvd.mul_left (den_dvd_denProd r x h) _

/-- a scale that fits a configuration and a workload: the product of the denominators of the vticks and of the gaps -/
def scaleOf (cfg : VcCfg ℚ) (arrivals : List (ℚ × Int)) : Nat := denProd (cfg.vticks.map (·.2) ++ arrivals.map (·.1))

/-- **every configuration and every finite workload of rationals lies on a grid**: the hypothesis `GridOK` of the theorems is
met by `scaleOf cfg arrivals` -/
theorem gridOK_scaleOf (cfg : VcCfg ℚ) (arrivals : List (ℚ × Int)) : GridOK (scaleOf cfg arrivals) cfg arrivals := by
  have hp := denProd_pos (cfg.vticks.map (·.2) ++ arrivals.map (·.1))
  refine ⟨hp, ?_, ?_⟩
  · intro kv hkv
    exact onGrid_of_den_dvd _ (den_dvd_denProd _ _ (List.mem_append_left _ (List.mem_map_of_mem hkv))) hp
  · intro x hx
    exact onGrid_of_den_dvd _ (den_dvd_denProd _ _ (List.mem_append_right _ (List.mem_map_of_mem hx))) hp

end VCK
