import OnlVerif.Lemmas.SplitSentOps
import OnlVerif.Lemmas.SplitSentAgenda
import OnlVerif.Lemmas.SplitStripStep
/-!
# The sentinel transformation commutes with bursts, `_resume`, the callback loop and `step` (C03, stage 3)
-/

variable {σ : Type}

def rnTerm (ρ : EvId → EvId) (rσ : σ → σ) : Term σ → Term σ
  | .yielded e st => .yielded (ρ e) (rσ st)
  | .returned v => .returned (rnVal ρ v)
  | .raised x => .raised (rnExc ρ x)

namespace SplitCfg
variable (c : SplitCfg σ) (q : Bool) (s : KState ℚ σ)

theorem T_noteErr (self : Nat) (r : Reply) :
    noteErr (c.ρ self) (c.T q s, rnReply c.ρ r) = c.T q (noteErr self (s, r)) := by
  unfold noteErr
  cases r <;> simp only [rnReply, ksent]

variable {c s} in
@[ksent] theorem Inv.noteErr (h : c.Inv s) (self : Nat) (r : Reply) : c.Inv (noteErr self (s, r)) :=
  h.mono (Grow.krel.noteErr self (s, r))

/-- **bursts**: an id-opaque program fragment run from the split state makes the renamed calls, gets the renamed
replies, ends the renamed way, and leaves the corresponding state -/
theorem T_runBurst (self : Nat) (b b' : Burst ℚ σ) (hb : BurstSim c.ρ c.rσ b b') (s : KState ℚ σ) (h : c.Inv s) :
    runBurst (c.ρ self) b' (c.T q s) = (c.T q (runBurst self b s).1, rnTerm c.ρ c.rσ (runBurst self b s).2) := by
  induction hb generalizing s with
  | call cl k k' _ ih =>
    simp only [runBurst]
    rw [c.T_doCall q s h, c.T_noteErr]
    exact ih _ _ ((h.doCall self cl).noteErr self _)
  | yield e st => rfl
  | ret v => rfl
  | raise x => rfl

variable {c s} in
theorem Inv.runBurst (h : c.Inv s) (self : Nat) (b : Burst ℚ σ) : c.Inv (runBurst self b s).1 :=
  h.mono (Grow.krel.runBurst self b s)

@[ksent] theorem r_resumeArg (h : c.Inv s) (p e : Nat) :
    resumeArg (c.T q s) (c.ρ p) (c.ρ e) = rnResume c.ρ (resumeArg s p e) := by
  unfold resumeArg
  rw [c.out_T q s h, c.kind_T q s h]
  cases ho : (s.ev e).out with
  | none => rfl
  | some o =>
    cases o with
    | fail x => rfl
    | ok v =>
      simp only [Option.map_some, rnOutcome_ok]
      have : (rnKind c.ρ (s.ev e).kind = Kind.init (c.ρ p)) ↔ ((s.ev e).kind = Kind.init p) :=
        rnKind_eq_iff c.ρ_inj (s.ev e).kind (Kind.init p)
      by_cases hk : (s.ev e).kind = Kind.init p
      · rw [if_pos hk, if_pos (this.mpr hk)]; rfl
      · rw [if_neg hk, if_neg (fun h => hk (this.mp h))]; rfl

theorem T_deliverSt (h : c.Inv s) (p e : Nat) : deliverSt (c.T q s) (c.ρ p) (c.ρ e) = c.T q (deliverSt s p e) := by
  unfold deliverSt
  rw [c.out_T q s h]
  cases ho : (s.ev e).out with
  | none => rfl
  | some o =>
    cases o with
    | ok v => rfl
    | fail x =>
      simp only [Option.map_some, rnOutcome_fail]
      rw [c.i_defuse q _ (h.withActive _)]
      rfl

theorem grow_deliverSt (s : KState ℚ σ) (p e : Nat) : Grow s (deliverSt s p e) := Grow.krel.deliver s p e

variable {c s} in
@[ksent] theorem Inv.deliverSt (h : c.Inv s) (p e : Nat) : c.Inv (deliverSt s p e) := h.mono (grow_deliverSt s p e)

theorem T_finishProc (h : c.Inv s) (p : Nat) (pr : ProcRec σ) (o : Outcome) :
    finishProc (c.T q s) (c.ρ p) (rnProc c.ρ c.rσ pr) (rnOutcome c.ρ o) = c.T q (finishProc s p pr o) := by
  unfold finishProc
  tsimp [h]

theorem T_register (h : c.Inv s) (p e' : Nat) :
    register (c.T q s) (c.ρ p) (c.ρ e') = (register s p e').map (c.T q) := by
  unfold register
  rw [c.r_processed q s h]
  split
  · rfl
  · simp only [Option.map_some]
    have := c.i_addCb q s h e' (.resume p)
    simp only [rnCb_resume] at this
    rw [← this]
    rfl

/-- **`Process._resume`** of an id-opaque program -/
theorem T_resume (body : σ → Resume → Burst ℚ σ) (hB : BodySim c.ρ c.rσ body) (p : Nat) (fuel : Nat) (e : Nat)
    (s : KState ℚ σ) (h : c.Inv s) :
    resume body (c.ρ p) fuel (c.ρ e) (c.T q s) = c.T q (resume body p fuel e s) := by
  induction fuel generalizing e s with
  | zero => rfl
  | succ n ih =>
    unfold resume
    rw [c.r_proc?]
    cases hp : s.proc? p with
    | none => rfl
    | some pr =>
      simp only [Option.map_some, deliver]
      rw [c.T_deliverSt q s h, c.r_resumeArg q s h]
      have hd : c.Inv (deliverSt s p e) := h.deliverSt p e
      have he : (c.T q (deliverSt s p e)).emit (Obs.resumed (c.ρ p) (rnResume c.ρ (resumeArg s p e)) (c.T q (deliverSt s p e)).now) =
          c.T q ((deliverSt s p e).emit (Obs.resumed p (resumeArg s p e) (deliverSt s p e).now)) := by
        rw [c.i_emit]; rfl
      rw [he, rnProc_st, c.T_runBurst q p _ _ (hB pr.st (resumeArg s p e)) _ (hd.emit _)]
      have hb : c.Inv (runBurst p (body pr.st (resumeArg s p e))
          ((deliverSt s p e).emit (Obs.resumed p (resumeArg s p e) (deliverSt s p e).now))).1 := (hd.emit _).runBurst p _
      generalize runBurst p (body pr.st (resumeArg s p e))
          ((deliverSt s p e).emit (Obs.resumed p (resumeArg s p e) (deliverSt s p e).now)) = bt at hb
      obtain ⟨s1, tm⟩ := bt
      cases tm with
      | returned v => exact c.T_finishProc q s1 hb p pr (.ok v)
      | raised x => exact c.T_finishProc q s1 hb p pr (.fail x)
      | yielded e' st' =>
        simp only [rnTerm]
        have hs2 : (c.T q s1).setProc (c.ρ p) { st := c.rσ st', target := some (c.ρ e') } =
            c.T q (s1.setProc p { st := st', target := some e' }) := by
          rw [c.i_setProc]; rfl
        rw [hs2, c.T_register q _ (hb.setProc _ _)]
        cases register (s1.setProc p { st := st', target := some e' }) p e' with
        | some s3 => rfl
        | none => exact ih e' _ (hb.setProc _ _)

variable {c s} in
theorem Inv.resume (h : c.Inv s) (body : σ → Resume → Burst ℚ σ) (p fuel e : Nat) : c.Inv (resume body p fuel e s) :=
  h.mono (Grow.krel.resume body p fuel e s)

theorem T_deliverInterrupt (body : σ → Resume → Burst ℚ σ) (hB : BodySim c.ρ c.rσ body) (h : c.Inv s) (fuel iv p : Nat) :
    deliverInterrupt body fuel (c.ρ iv) (c.ρ p) (c.T q s) = c.T q (deliverInterrupt body fuel iv p s) := by
  unfold deliverInterrupt
  rw [c.r_triggered q s h, c.r_proc?]
  split
  · rfl
  · cases hp : s.proc? p with
    | none => rfl
    | some pr =>
      simp only [Option.map_some, rnProc_target]
      cases ht : pr.target with
      | none => exact c.T_resume q body hB p fuel iv s h
      | some t =>
        simp only [Option.map_some]
        have := c.i_eraseCb q s h t (.resume p)
        simp only [rnCb_resume] at this
        rw [← this]
        exact c.T_resume q body hB p fuel iv _ (h.eraseCb _ _)

/-! ## the callback loop -/

/-- fuel hypothesis of one callback: only `Condition._build_value` takes fuel that depends on an event id -/
def cbFuelOK (s : KState ℚ σ) : Cb → Prop
  | .build cd => c.FuelOK s cd
  | _ => True

/-- fuel hypothesis of the callback loop of a step -/
def loopFuelOK (body : σ → Resume → Burst ℚ σ) (fuel : Nat) (e : EvId) : List Cb → LoopSt ℚ σ → Prop
  | [], _ => True
  | cb :: cbs, l => c.cbFuelOK l.s cb ∧ loopFuelOK body fuel e cbs (runCb body fuel e l cb)

/-- fuel hypothesis of a step of the uninterrupted run -/
def stepFuelOK (body : σ → Resume → Burst ℚ σ) (fuel : Nat) (s : KState ℚ σ) : Prop :=
  match popMin s.agenda with
  | none => True
  | some (m, rest) =>
    match (s.ev m.ev).cbs with
    | none => True
    | some cbs => c.loopFuelOK body fuel m.ev cbs { s := openEvent s m rest }

def rnLoop (l : LoopSt ℚ σ) : LoopSt ℚ σ := { s := c.T q l.s, stop := l.stop.map (rnOutcome c.ρ) }

theorem T_runCb (body : σ → Resume → Burst ℚ σ) (hB : BodySim c.ρ c.rσ body) (fuel : Nat) (e : Nat) (l : LoopSt ℚ σ)
    (h : c.Inv l.s) (cb : Cb) (hf : c.cbFuelOK l.s cb) :
    runCb body fuel (c.ρ e) (c.rnLoop q l) (rnCb c.ρ cb) = c.rnLoop q (runCb body fuel e l cb) := by
  unfold runCb rnLoop
  cases cb with
  | resume p => simp only [rnCb]; rw [c.T_resume q body hB p fuel e l.s h]
  | probe tag =>
    simp only [rnCb]
    rw [c.out_T q l.s h]
    congr 1
    rw [c.i_emit]
    congr 2
    cases ho : (l.s.ev e).out with
    | none => rfl
    | some o =>
      cases o with
      | fail x => rfl
      | ok v => simp only [Option.map_some, rnOutcome_ok, c.r_freezeVal q l.s h]
  | stop =>
    simp only [rnCb]
    rw [c.out_T q l.s h]
    congr 1
    cases (l.s.ev e).out <;> rfl
  | intr iv =>
    simp only [rnCb]
    rw [c.kind_T q l.s h]
    cases hk : (l.s.ev iv).kind <;> simp only [rnKind]
    case intr p => rw [c.T_deliverInterrupt q l.s body hB h]
  | check cd => simp only [rnCb]; rw [c.T_condCheck q l.s h]
  | build cd => simp only [rnCb]; rw [c.T_condBuild q l.s h cd hf]
  | trigPut r => simp only [rnCb]; rw [c.T_triggerPut q l.s h]
  | trigGet r => simp only [rnCb]; rw [c.T_triggerGet q l.s h]

theorem grow_runCb (body : σ → Resume → Burst ℚ σ) (fuel : Nat) (e : Nat) (l : LoopSt ℚ σ) (cb : Cb) :
    Grow l.s (runCb body fuel e l cb).s := Grow.krel.runCb body fuel e l cb

/-- **the whole callback loop** -/
theorem T_foldCbs (body : σ → Resume → Burst ℚ σ) (hB : BodySim c.ρ c.rσ body) (fuel : Nat) (e : Nat) (cbs : List Cb)
    (l : LoopSt ℚ σ) (h : c.Inv l.s) (hf : c.loopFuelOK body fuel e cbs l) :
    (cbs.map (rnCb c.ρ)).foldl (runCb body fuel (c.ρ e)) (c.rnLoop q l) = c.rnLoop q (cbs.foldl (runCb body fuel e) l) := by
  induction cbs generalizing l with
  | nil => rfl
  | cons cb cs ih =>
    simp only [List.map_cons, List.foldl_cons]
    rw [c.T_runCb q body hB fuel e l h cb hf.1]
    exact ih _ (h.mono (grow_runCb body fuel e l cb)) hf.2

/-! ## one step -/

/-- the result of a step of the split run that corresponds to a result of the uninterrupted run -/
def mapT : StepResult ℚ σ → StepResult ℚ σ
  | .ok s => .ok (c.T q s)
  | .stopped o s => .stopped (rnOutcome c.ρ o) (c.T q s)
  | .crash x s => .crash (rnExc c.ρ x) (c.T q s)
  | .empty => .empty

omit c q in
theorem openEvent_eq (m : QEntry ℚ) (rest : List (QEntry ℚ)) :
    openEvent s m rest = { (s.setEv m.ev { s.ev m.ev with cbs := none }) with now := m.time, agenda := rest } := rfl

theorem T_openEvent (h : c.Inv s) (m : QEntry ℚ) (rest : List (QEntry ℚ)) :
    openEvent (c.T q s) (c.rnEntry m) (c.agT q rest) = c.T q (openEvent s m rest) := by
  have h1 := c.T_setEv q s h m.ev { s.ev m.ev with cbs := none }
  rw [show rnRec c.ρ { s.ev m.ev with cbs := none } = { rnRec c.ρ (s.ev m.ev) with cbs := none } from rfl,
    ← c.ev_T q s h] at h1
  rw [openEvent_eq, openEvent_eq]
  show ({ ((c.T q s).setEv (c.ρ m.ev) { (c.T q s).ev (c.ρ m.ev) with cbs := none }) with
    now := m.time, agenda := c.agT q rest } : KState ℚ σ) = _
  rw [h1]
  rfl

theorem closeEvent_T (l : LoopSt ℚ σ) (e : Nat) (h : c.Inv l.s) :
    closeEvent (c.rnLoop q l) (c.ρ e) = c.mapT q (closeEvent l e) := by
  unfold closeEvent rnLoop
  simp only
  cases hs : l.stop with
  | some o => rfl
  | none =>
    simp only [Option.map_none]
    rw [c.out_T q l.s h, c.defused_T q l.s h]
    cases ho : (l.s.ev e).out with
    | none => rfl
    | some o =>
      cases o with
      | ok v => rfl
      | fail x =>
        simp only [Option.map_some, rnOutcome_fail]
        split <;> rfl

theorem grow_openEvent (m : QEntry ℚ) (rest : List (QEntry ℚ)) :
    s.events.size ≤ (openEvent s m rest).events.size ∧ (openEvent s m rest).eid = s.eid := by
  unfold openEvent
  simp

variable {c s} in
theorem Inv.openEvent (h : c.Inv s) (m : QEntry ℚ) (rest : List (QEntry ℚ)) : c.Inv (openEvent s m rest) :=
  ⟨Nat.le_trans h.size (grow_openEvent s m rest).1, (grow_openEvent s m rest).2 ▸ h.eid⟩

/-- a step that pops the renamed entry `m` -/
theorem step_of_pop (body : σ → Resume → Burst ℚ σ) (hB : BodySim c.ρ c.rσ body) (fuel : Nat) (h : c.Inv s)
    (m : QEntry ℚ) (rest : List (QEntry ℚ)) (hp : popMin s.agenda = some (m, rest))
    (hp' : popMin (c.T q s).agenda = some (c.rnEntry m, c.agT q rest)) (hf : c.stepFuelOK body fuel s) :
    step body fuel (c.T q s) = c.mapT q (step body fuel s) := by
  unfold step
  rw [hp, hp']
  simp only
  unfold stepFuelOK at hf
  rw [hp] at hf
  simp only at hf
  have hev : (c.rnEntry m).ev = c.ρ m.ev := rfl
  rw [hev, c.cbs_T q s h]
  cases hc : (s.ev m.ev).cbs with
  | none =>
    simp only [Option.map_none]
    rw [c.T_openEvent q s h]
    rfl
  | some cbs =>
    rw [hc] at hf
    simp only [Option.map_some]
    rw [c.T_openEvent q s h]
    have := c.T_foldCbs q body hB fuel m.ev cbs { s := openEvent s m rest } (h.openEvent m rest) hf
    unfold rnLoop at this
    simp only [Option.map_none] at this
    rw [this]
    exact c.closeEvent_T q _ m.ev (h.mono (Grow.krel.trans ⟨Nat.le_of_eq (grow_openEvent s m rest).2.symm,
      (grow_openEvent s m rest).1⟩ (Grow.krel.foldCbs body fuel m.ev cbs { s := openEvent s m rest })))

/-- **after the sentinel has been popped** the split run is in lockstep with the uninterrupted run for ever -/
theorem step_T_false (body : σ → Resume → Burst ℚ σ) (hB : BodySim c.ρ c.rσ body) (fuel : Nat) (h : c.Inv s)
    (hf : c.stepFuelOK body fuel s) :
    step body fuel (c.T false s) = c.mapT false (step body fuel s) := by
  cases hp : popMin s.agenda with
  | none =>
    have ha : (c.T false s).agenda = s.agenda.map c.rnEntry := rfl
    unfold step
    rw [hp, ha, c.popMin_map, hp]
    rfl
  | some mr =>
    obtain ⟨m, rest⟩ := mr
    refine c.step_of_pop false s body hB fuel h m rest hp ?_ hf
    show popMin (s.agenda.map c.rnEntry) = _
    rw [c.popMin_map, hp]
    rfl

/-- the state in which `run(until=t)` returns: the sentinel is processed and gone from the agenda, the clock is `t` -/
def afterSentinel (s : KState ℚ σ) : KState ℚ σ := { c.T false s with now := c.t }

theorem openEvent_sentinel (h : c.Inv s) :
    openEvent (c.T true s) c.sentEntry (s.agenda.map c.rnEntry) = c.afterSentinel s := by
  have hev : (c.T true s).events.setIfInBounds c.u { (c.T true s).ev c.u with cbs := none } = (c.T false s).events := by
    apply Array.ext_getElem?
    intro j
    rw [Array.getElem?_setIfInBounds, c.getElem?_T false s h, c.getElem?_T true s h, c.size_T true s h, c.ev_T_u true s h]
    have hsz := h.size
    by_cases hj : c.u = j
    · subst hj
      simp only [if_true, Nat.lt_irrefl, if_false]
      rw [if_pos (by omega)]
      rfl
    · simp only [hj, if_false]
      have : ¬ j = c.u := fun h => hj h.symm
      simp only [this, if_false]
  rw [openEvent_eq]
  unfold afterSentinel
  have h2 : (c.T true s).setEv c.sentEntry.ev { (c.T true s).ev c.sentEntry.ev with cbs := none } =
      { c.T true s with events := (c.T false s).events } := by
    unfold KState.setEv
    rw [show c.sentEntry.ev = c.u from rfl, hev]
  rw [h2]
  rfl

/-- **the step that pops the sentinel**: it does nothing but advance the clock to `t`, mark the sentinel processed and
raise `StopSimulation(None)` -/
theorem step_sentinel (body : σ → Resume → Burst ℚ σ) (fuel : Nat) (h : c.Inv s)
    (hp' : popMin (c.T true s).agenda = some (c.sentEntry, s.agenda.map c.rnEntry)) :
    step body fuel (c.T true s) = .stopped (.ok .none) (c.afterSentinel s) := by
  unfold step
  rw [hp']
  simp only
  have hev : c.sentEntry.ev = c.u := rfl
  rw [hev, c.ev_T_u true s h, c.openEvent_sentinel s h]
  have hout : ((c.afterSentinel s).ev c.u).out = some (.ok .none) := by
    have h2 : (c.afterSentinel s).ev c.u = (c.T false s).ev c.u := rfl
    rw [h2, c.ev_T_u false s h]
    rfl
  show closeEvent ([Cb.stop].foldl (runCb body fuel c.u) { s := c.afterSentinel s }) c.u = _
  simp only [List.foldl_cons, List.foldl_nil, runCb, hout, Option.getD_some]
  rfl

/-- **while the sentinel is queued**: the split run pops the entry the uninterrupted run pops, unless the sentinel's key
is smaller — then it pops the sentinel -/
theorem step_T_true (body : σ → Resume → Burst ℚ σ) (hB : BodySim c.ρ c.rσ body) (fuel : Nat) (h : c.Inv s)
    (hs : SortedAg s) (hf : c.stepFuelOK body fuel s) :
    step body fuel (c.T true s) =
      match popMin s.agenda with
      | none => .stopped (.ok .none) (c.afterSentinel s)
      | some (m, _) =>
        if (c.rnEntry m).lt c.sentEntry then c.mapT true (step body fuel s)
        else .stopped (.ok .none) (c.afterSentinel s) := by
  have ha : (c.T true s).agenda = c.insSent s.agenda := rfl
  have hpop := c.popMin_insSent s.agenda hs.sorted
  cases hp : popMin s.agenda with
  | none =>
    rw [hp] at hpop
    have : s.agenda = [] := (popMin_none_iff _).mp hp
    simp only
    refine c.step_sentinel s body fuel h ?_
    rw [ha, hpop, this]
    rfl
  | some mr =>
    obtain ⟨m, rest⟩ := mr
    rw [hp] at hpop
    simp only at hpop ⊢
    by_cases hlt : (c.rnEntry m).lt c.sentEntry = true
    · rw [if_pos hlt] at hpop ⊢
      exact c.step_of_pop true s body hB fuel h m rest hp (by rw [ha, hpop]; rfl) hf
    · rw [if_neg hlt] at hpop ⊢
      exact c.step_sentinel s body fuel h (by rw [ha, hpop])

end SplitCfg
