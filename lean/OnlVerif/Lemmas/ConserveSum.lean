import OnlVerif.Lemmas.ConserveBase
import Mathlib.Tactic.Ring
/-!
# Conservation proofs: sums over the event table

`tot W s = Σ_{a < s.events.size} W (kind a) (out a) (request data of a)` for a weight `W` that vanishes on events
that are not requests and on untriggered events.  Every atomic unit leaves `tot W` alone, except a grant, which
adds the weight of the granted request.
-/

variable {σ : Type}

namespace Conserve

/-- `Σ_{i<n} f i` -/
def sumTo (f : Nat → Int) : Nat → Int
  | 0 => 0
  | n + 1 => sumTo f n + f n

theorem sumTo_succ (f : Nat → Int) (n : Nat) : sumTo f (n + 1) = sumTo f n + f n := rfl

theorem sumTo_congr {f g : Nat → Int} : ∀ n, (∀ i, i < n → g i = f i) → sumTo g n = sumTo f n
  | 0, _ => rfl
  | n + 1, h => by
    unfold sumTo
    rw [sumTo_congr n (fun i hi => h i (Nat.lt_succ_of_lt hi)), h n (Nat.lt_succ_self n)]

/-- changing one summand -/
theorem sumTo_update {f g : Nat → Int} (e : Nat) : ∀ n, e < n → (∀ i, i < n → i ≠ e → g i = f i) →
    sumTo g n = sumTo f n + (g e - f e)
  | 0, he, _ => absurd he (Nat.not_lt_zero _)
  | n + 1, he, h => by
    unfold sumTo
    by_cases hen : e = n
    · subst hen
      rw [sumTo_congr e (fun i hi => h i (Nat.lt_succ_of_lt hi) (Nat.ne_of_lt hi))]
      ring
    · have hlt : e < n := by omega
      rw [sumTo_update e n hlt (fun i hi hne => h i (Nat.lt_succ_of_lt hi) hne), h n (Nat.lt_succ_self n) (fun hc => hen hc.symm)]
      ring

theorem sumTo_zero {f : Nat → Int} : ∀ n, (∀ i, i < n → f i = 0) → sumTo f n = 0
  | 0, _ => rfl
  | n + 1, h => by
    unfold sumTo
    rw [sumTo_zero n (fun i hi => h i (Nat.lt_succ_of_lt hi)), h n (Nat.lt_succ_self n)]; rfl

/-- the list form: sum of `g` over the indices below `n` that satisfy `p` -/
theorem sumTo_eq_list (p : Nat → Bool) (g : Nat → Int) : ∀ n,
    sumTo (fun i => if p i then g i else 0) n = (((List.range n).filter p).map g).sum
  | 0 => rfl
  | n + 1 => by
    unfold sumTo
    rw [sumTo_eq_list p g n, List.range_succ, List.filter_append, List.map_append, List.sum_append]
    congr 1
    by_cases hp : p n = true
    · simp [hp]
    · simp [hp]

/-- a weight on request records -/
abbrev Weight := Kind → Option Outcome → ReqData ℚ → Int

/-- the weight of event `a` in state `s` -/
def wt (W : Weight) (s : KState ℚ σ) (a : EvId) : Int := W (s.ev a).kind (s.ev a).out (coreOf s a)

/-- total weight of the event table -/
def tot (W : Weight) (s : KState ℚ σ) : Int := sumTo (wt W s) s.events.size

/-- the weight vanishes on events that are not requests and on untriggered requests -/
structure Weight.Ok (W : Weight) : Prop where
  nonReq : ∀ k o c, nonReqKind k = true → W k o c = 0
  pending : ∀ k c, W k none c = 0

theorem nonReqKind_of_notReq {s : KState ℚ σ} {e : EvId} (h : isReq s e = false) : nonReqKind (s.ev e).kind = true := by
  unfold isReq at h
  unfold nonReqKind
  split at h <;> first | cases h | skip
  split <;> first | rfl | (rename_i hk; simp_all)

theorem wt_same {W : Weight} {s s' : KState ℚ σ} {a : EvId} (hk : (s'.ev a).kind = (s.ev a).kind)
    (ho : (s'.ev a).out = (s.ev a).out) (hc : coreOf s' a = coreOf s a) : wt W s' a = wt W s a := by
  unfold wt; rw [hk, ho, hc]

theorem tot_frame {W : Weight} {s s' : KState ℚ σ} (h : Frame s s') : tot W s' = tot W s := by
  unfold tot
  rw [h.size]
  exact sumTo_congr _ (fun a _ => wt_same (h.kind a) (h.out a) (h.core a))

/-- a unit that leaves the event table alone -/
theorem tot_sameEv {W : Weight} {s s' : KState ℚ σ} (h : ∀ a, s'.ev a = s.ev a) (hs : s'.events.size = s.events.size) :
    tot W s' = tot W s := by
  unfold tot
  rw [hs]
  apply sumTo_congr
  intro a _
  unfold wt coreOf reqOf
  rw [h a]

theorem tot_alloc {W : Weight} (hW : W.Ok) {s s' : KState ℚ σ} (x : EvRec ℚ) (he : s'.events = s.events.push x)
    (hk : nonReqKind x.kind = true) : tot W s' = tot W s := by
  have hold : ∀ a, a < s.events.size → s'.ev a = s.ev a := by
    intro a ha; rw [Base.ev_of_push he, if_neg (Nat.ne_of_lt ha)]
  have hsz : s'.events.size = s.events.size + 1 := by rw [he]; simp
  unfold tot
  rw [hsz, sumTo_succ]
  have hnew : wt W s' s.events.size = 0 := by
    unfold wt
    rw [Base.ev_of_push he, if_pos rfl]
    exact hW.nonReq _ _ _ hk
  rw [hnew, Int.add_zero]
  apply sumTo_congr
  intro a ha
  unfold wt coreOf reqOf
  rw [hold a ha]

theorem tot_newReq {W : Weight} (hW : W.Ok) {s s' : KState ℚ σ} {x : EvRec ℚ} (hN : NewReqEv s s' x)
    (hxo : x.out = none) : tot W s' = tot W s := by
  unfold tot
  rw [hN.size, sumTo_succ]
  have hnew : wt W s' s.events.size = 0 := by
    unfold wt
    rw [hN.new]
    show W x.kind x.out _ = 0
    rw [hxo]; exact hW.pending _ _
  rw [hnew, Int.add_zero]
  apply sumTo_congr
  intro a ha
  unfold wt coreOf reqOf
  rw [hN.old a ha]

theorem tot_trigNR {W : Weight} (hW : W.Ok) (s : KState ℚ σ) (e : EvId) (o : Outcome) (hn : isReq s e = false) :
    tot W (s.setOut e o) = tot W s := by
  unfold tot
  have hsz : (s.setOut e o).events.size = s.events.size := by unfold KState.setOut; rw [KState.esize_setEv]
  rw [hsz]
  apply sumTo_congr
  intro a _
  by_cases hae : a = e
  · subst hae
    have h0 : ∀ t : KState ℚ σ, (t.ev a).kind = (s.ev a).kind → wt W t a = 0 := by
      intro t ht
      unfold wt
      exact hW.nonReq _ _ _ (by rw [ht]; exact nonReqKind_of_notReq hn)
    rw [h0 _ (kind_setOut s a o a), h0 s rfl]
  · exact wt_same (kind_setOut s e o a) (out_setOut_other s e o a hae) (coreOf_setOut s e o a)

/-- **a grant adds the weight of the granted request** -/
theorem tot_grant {W : Weight} (hW : W.Ok) {s s' : KState ℚ σ} {e : EvId} {o : Outcome} (hsize : s'.events.size = s.events.size)
    (hlt : e < s.events.size) (hkind : ∀ a, (s'.ev a).kind = (s.ev a).kind) (hcore : ∀ a, coreOf s' a = coreOf s a)
    (houtE : (s'.ev e).out = some o) (hout : ∀ a, a ≠ e → (s'.ev a).out = (s.ev a).out) (hpend : (s.ev e).out = none) :
    tot W s' = tot W s + W (s.ev e).kind (some o) (coreOf s e) := by
  unfold tot
  rw [hsize, sumTo_update e _ hlt (fun a _ hne => wt_same (hkind a) (hout a hne) (hcore a))]
  congr 1
  unfold wt
  rw [hkind, hcore, houtE, hpend, hW.pending, Int.sub_zero]

/-- no request events at all: every total is zero -/
theorem tot_noReq {W : Weight} (hW : W.Ok) (s : KState ℚ σ) (h : ∀ e, isReq s e = false) : tot W s = 0 := by
  unfold tot
  apply sumTo_zero
  intro a _
  unfold wt
  exact hW.nonReq _ _ _ (nonReqKind_of_notReq (h a))

end Conserve
