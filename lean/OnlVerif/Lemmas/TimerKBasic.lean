import OnlVerif.Lemmas.TimerKDefs
import OnlVerif.Lemmas.TimerKAttr
import OnlVerif.Lemmas.StrandFrame
/-!
# The Timer on the kernel model: what each kernel operation of the program does

Every lemma rewrites an operation applied to an arbitrary state `s` into `{ s with … }` with explicit fields, under
the local facts the operation reads.
-/

set_option linter.unusedSimpArgs false

namespace TimerK
open TimerOnK

/-! ## the cell codec at `ℚ` -/

@[simp] theorem dec_enc (x : ℚ) : (TimeCell.dec (TimeCell.enc x : Val) : Option ℚ) = some x := by
  show some (mkRat (if (if x.num < 0 then 1 else 0) = 1 then -((x.num.natAbs : ℕ) : ℤ) else ((x.num.natAbs : ℕ) : ℤ)) x.den) = some x
  congr 1
  by_cases h : x.num < 0
  · simp only [h, if_true]
    rw [Int.ofNat_natAbs_of_nonpos (le_of_lt h), neg_neg, Rat.mkRat_self]
  · simp only [h, if_false]
    have : (0 : ℕ) ≠ 1 := by decide
    simp only [show ((0 : ℕ) = 1) = False from by simp, if_false]
    rw [Int.natAbs_of_nonneg (not_lt.mp h), Rat.mkRat_self]

/-! ## association lists (`shared`, `procs`) -/

@[simp] theorem lookup_cons_same (l : List (Nat × Val)) (k : Nat) (v : Val) : lookup ((k, v) :: l) k = v := by
  simp [lookup]

theorem lookup_cons_ne (l : List (Nat × Val)) (k k' : Nat) (v : Val) (h : k' ≠ k) :
    lookup ((k', v) :: l) k = lookup l k := by
  simp [lookup, List.find?_cons, h]

theorem find?_filter_ne {α} (l : List (Nat × α)) (k k' : Nat) (h : k' ≠ k) :
    (l.filter (·.1 != k')).find? (·.1 == k) = l.find? (·.1 == k) := by
  induction l with
  | nil => rfl
  | cons x xs ih =>
    by_cases hx : x.1 = k'
    · have h2 : (x.1 == k) = false := by rw [hx]; simpa using h
      rw [List.filter_cons_of_neg (by simpa using hx), List.find?_cons_of_neg (by simpa using h2), ih]
    · rw [List.filter_cons_of_pos (by simpa using hx)]
      by_cases hk : x.1 = k
      · rw [List.find?_cons_of_pos (by simpa using hk), List.find?_cons_of_pos (by simpa using hk)]
      · rw [List.find?_cons_of_neg (by simpa using hk), List.find?_cons_of_neg (by simpa using hk), ih]

theorem lookup_filter_ne (l : List (Nat × Val)) (k k' : Nat) (h : k' ≠ k) :
    lookup (l.filter (·.1 != k')) k = lookup l k := by
  unfold lookup
  rw [find?_filter_ne _ _ _ h]

/-- `lookup` after a `Call.store` -/
theorem lookup_store (l : List (Nat × Val)) (k k' : Nat) (v : Val) :
    lookup ((k', v) :: l.filter (·.1 != k')) k = if k = k' then v else lookup l k := by
  by_cases h : k = k'
  · subst h; simp
  · rw [if_neg h, lookup_cons_ne _ _ _ _ (Ne.symm h), lookup_filter_ne _ _ _ (Ne.symm h)]

theorem lookup_cons (l : List (Nat × Val)) (k k' : Nat) (v : Val) :
    lookup ((k', v) :: l) k = if k = k' then v else lookup l k := by
  by_cases h : k = k'
  · subst h; simp
  · rw [if_neg h, lookup_cons_ne _ _ _ _ (Ne.symm h)]

def plookup {σ} (l : List (EvId × ProcRec σ)) (p : EvId) : Option (ProcRec σ) := (l.find? (·.1 == p)).map (·.2)

theorem proc?_eq {σ} (s : KState ℚ σ) (p : EvId) : s.proc? p = plookup s.procs p := rfl

theorem plookup_set {σ} (l : List (EvId × ProcRec σ)) (p p' : EvId) (r : ProcRec σ) :
    plookup ((p', r) :: l.filter (·.1 != p')) p = if p = p' then some r else plookup l p := by
  by_cases h : p = p'
  · subst h; simp [plookup]
  · rw [if_neg h]
    unfold plookup
    rw [List.find?_cons_of_neg (by simp [Ne.symm h]), find?_filter_ne _ _ _ (Ne.symm h)]

theorem plookup_cons {σ} (l : List (EvId × ProcRec σ)) (p p' : EvId) (r : ProcRec σ) :
    plookup ((p', r) :: l) p = if p = p' then some r else plookup l p := by
  by_cases h : p = p'
  · subst h; simp [plookup]
  · rw [if_neg h]
    unfold plookup
    rw [List.find?_cons_of_neg (by simp [Ne.symm h])]

theorem plookup_filter_ne {σ} (l : List (EvId × ProcRec σ)) (p p' : EvId) (h : p ≠ p') :
    plookup (l.filter (·.1 != p')) p = plookup l p := by
  unfold plookup
  rw [find?_filter_ne _ _ _ (Ne.symm h)]

/-- successive fresh indices are different -/
theorem fresh_ne (n : Nat) :
    (n = n + 1) = False ∧ (n = n + 1 + 1) = False ∧ (n = n + 1 + 1 + 1) = False ∧ (n + 1 = n) = False ∧
    (n + 1 + 1 = n) = False ∧ (n + 1 + 1 + 1 = n) = False ∧ (n + 1 = n + 1 + 1) = False ∧ (n + 1 = n + 1 + 1 + 1) = False ∧
    (n + 1 + 1 = n + 1) = False ∧ (n + 1 + 1 + 1 = n + 1) = False ∧ (n + 1 + 1 = n + 1 + 1 + 1) = False ∧
    (n + 1 + 1 + 1 = n + 1 + 1) = False := by
  simp only [eq_iff_iff, iff_false]
  omega

/-! ## `resume` and `step` without duplicated sub-terms -/

/-- what `_resume` does once the burst has run -/
def afterBurst {σ} (body : σ → Resume → Burst ℚ σ) (p : EvId) (fuel : Nat) (pr : ProcRec σ) :
    KState ℚ σ × Term σ → KState ℚ σ
  | (s', .returned v) => finishProc s' p pr (.ok v)
  | (s', .raised x) => finishProc s' p pr (.fail x)
  | (s', .yielded e' st') =>
    match register (s'.setProc p { st := st', target := some e' }) p e' with
    | some s3 => s3
    | none => resume body p fuel e' (s'.setProc p { st := st', target := some e' })

theorem resume_eq {σ} (body : σ → Resume → Burst ℚ σ) (p : EvId) (fuel : Nat) (e : EvId) (s : KState ℚ σ)
    (pr : ProcRec σ) (hp : s.proc? p = some pr) :
    resume body p (fuel + 1) e s =
      afterBurst body p fuel pr (runBurst p (body pr.st (resumeArg s p e))
        ((deliverSt s p e).emit (.resumed p (resumeArg s p e) (deliverSt s p e).now))) := by
  simp only [resume, hp, deliver]
  generalize runBurst p (body pr.st (resumeArg s p e))
    ((deliverSt s p e).emit (.resumed p (resumeArg s p e) (deliverSt s p e).now)) = bt
  obtain ⟨s', t⟩ := bt
  cases t with
  | yielded e' st' =>
    simp only [afterBurst]
    cases register (s'.setProc p { st := st', target := some e' }) p e' <;> rfl
  | returned v => simp only [afterBurst]
  | raised x => simp only [afterBurst]

theorem step_eq {σ} (body : σ → Resume → Burst ℚ σ) (fuel : Nat) (s : KState ℚ σ) (q : QEntry ℚ)
    (rest : List (QEntry ℚ)) (cbs : List Cb) (hp : popMin s.agenda = some (q, rest))
    (hc : (s.ev q.ev).cbs = some cbs) :
    step body fuel s = closeEvent (cbs.foldl (runCb body fuel q.ev) { s := openEvent s q rest }) q.ev := by
  unfold step
  rw [hp]
  simp only [hc]

/-! ## the kernel operations of the program -/

theorem push_setIfInBounds_size {α} (a : Array α) (x y : α) :
    (a.push x).setIfInBounds a.size y = a.push y := by
  apply Array.ext_getElem?
  intro i
  simp only [Array.getElem?_setIfInBounds, Array.getElem?_push, Array.size_push]
  by_cases h : a.size = i
  · subst h; simp
  · have h' : ¬ i = a.size := fun hh => h hh.symm
    simp [h, h']

theorem push_setIfInBounds_size' {α} (a : Array α) (n : Nat) (x y : α) (h : n = a.size) :
    (a.push x).setIfInBounds n y = a.push y := by
  subst h; exact push_setIfInBounds_size a x y

theorem doCall_load (s : KS) (self : EvId) (k : Nat) : doCall s self (.load k) = (s, .val (lookup s.shared k)) := rfl

theorem doCall_store (s : KS) (self : EvId) (k : Nat) (v : Val) :
    doCall s self (.store k v) = ({ s with shared := (k, v) :: s.shared.filter (·.1 != k) }, .unit) := rfl

theorem doCall_log_int (s : KS) (self : EvId) (what : String) (i : Int) :
    doCall s self (.log what (.int i)) = ({ s with trace := s.trace.push (.log self what (.int i) s.now) }, .unit) := rfl

theorem doCall_log_none (s : KS) (self : EvId) (what : String) :
    doCall s self (.log what .none) = ({ s with trace := s.trace.push (.log self what .none s.now) }, .unit) := rfl

theorem doCall_log_enc (s : KS) (self : EvId) (what : String) (x : ℚ) :
    doCall s self (.log what (TimeCell.enc x)) =
      ({ s with trace := s.trace.push (.log self what (TimeCell.enc x) s.now) }, .unit) := rfl

theorem doCall_timeout (s : KS) (self : EvId) (d : ℚ) (v : Val) (hd : 0 ≤ d) :
    doCall s self (.timeout d v) =
      ({ s with
          events := s.events.push { kind := .timeout, cbs := some [], out := some (.ok v), label := s.nlabel + 1 }
          nlabel := s.nlabel + 1
          agenda := { time := s.now + d, prio := NORMAL, eid := s.eid, ev := s.events.size } :: s.agenda
          eid := s.eid + 1 }, .ev s.events.size) := by
  have : ¬ d < Num.zero := by rw [zero_eq']; exact not_lt.mpr hd
  simp [doCall, this, KState.newLabelled, KState.schedule]

/-- `Process.interrupt` on a process that is alive and is not the caller: the `Interruption` is scheduled URGENT -/
theorem doCall_interrupt_ok (s : KS) (self p : EvId) (cause : Val) (hk : (s.events.getD p default).kind = .proc)
    (ho : (s.events.getD p default).out = none) (ha : s.active ≠ some p) :
    doCall s self (.interrupt p cause) =
      ({ s with
          events := s.events.push { kind := .intr p, cbs := some [.intr s.events.size],
                                     out := some (.fail ⟨"Interrupt", [cause]⟩), defused := true }
          agenda := { time := s.now, prio := URGENT, eid := s.eid, ev := s.events.size } :: s.agenda
          eid := s.eid + 1 }, .unit) := by
  have ha' : (s.active == some p) = false := by simpa using ha
  simp [-Array.getD_eq_getD_getElem?, doCall, KState.ev, hk, mkInterrupt, KState.triggered, ho, ha', KState.newEv, KState.schedule, zero_eq']

/-- `Process.interrupt` on a process that has terminated is refused -/
theorem doCall_interrupt_dead (s : KS) (self p : EvId) (cause : Val) (hk : (s.events.getD p default).kind = .proc)
    (ho : (s.events.getD p default).out.isSome = true) :
    doCall s self (.interrupt p cause) = (s, .err (runtimeErr "terminated")) := by
  simp [-Array.getD_eq_getD_getElem?, doCall, KState.ev, hk, mkInterrupt, KState.triggered, ho]

/-- `Process.interrupt` by the process itself is refused -/
theorem doCall_interrupt_self (s : KS) (self p : EvId) (cause : Val) (hk : (s.events.getD p default).kind = .proc)
    (ho : (s.events.getD p default).out = none) (ha : s.active = some p) :
    doCall s self (.interrupt p cause) = (s, .err (runtimeErr "self")) := by
  simp [-Array.getD_eq_getD_getElem?, doCall, KState.ev, hk, mkInterrupt, KState.triggered, ho, ha]

/-- `env.process(generator)` -/
theorem doCall_spawn (s : KS) (self : EvId) (st : St) :
    doCall s self (.spawn st) =
      ({ s with
          events := (s.events.push { kind := .proc, cbs := some [], out := none, label := s.nlabel + 1 }).push
                      { kind := .init s.events.size, cbs := some [.resume s.events.size], out := some (.ok .none) }
          nlabel := s.nlabel + 1
          procs := (s.events.size, { st := st, target := some (s.events.size + 1) }) :: s.procs.filter (·.1 != s.events.size)
          agenda := { time := s.now, prio := URGENT, eid := s.eid, ev := s.events.size + 1 } :: s.agenda
          eid := s.eid + 1 }, .ev s.events.size) := by
  simp [doCall, KState.newLabelled, KState.newEv, KState.setProc, KState.schedule, zero_eq']

attribute [timerk] deliverSt resumeArg body runBurst noteErr
  tStop tRestart tCall tmLoop tmRearm tmWake ctlLoop ctlDo loadInt loadTime loadProc bad
  KState.emit afterBurst register KState.processed KState.setProc KState.addCb KState.setEv KState.ev KState.defuse
  KState.eraseCb KState.triggered
  openEvent closeEvent finishProc KState.trigger KState.setOut KState.schedule runCb deliverInterrupt List.foldl
  cStopped cExpire cTimeout cStart cProc cFired cStarted
  doCall_load doCall_store doCall_log_int doCall_log_none doCall_log_enc doCall_timeout doCall_spawn
  doCall_interrupt_self doCall_interrupt_dead doCall_interrupt_ok
  lookup_store lookup_cons lookup_filter_ne plookup_set plookup_cons plookup_filter_ne fresh_ne proc?_eq dec_enc
  getD_push getD_setIfInBounds push_setIfInBounds_size push_setIfInBounds_size' zero_eq'

/-- symbolic execution of the kernel model on flat states -/
syntax "tsimp" (" [" Lean.Parser.Tactic.simpLemma,* "]")? (Lean.Parser.Tactic.location)? : tactic
macro_rules
  | `(tactic| tsimp $[$loc]?) =>
    `(tactic| simp [-Array.getD_eq_getD_getElem?, -List.filter_filter, timerk] $[$loc]?)
  | `(tactic| tsimp [$args,*] $[$loc]?) =>
    `(tactic| simp [-Array.getD_eq_getD_getElem?, -List.filter_filter, timerk, $args,*] $[$loc]?)

end TimerK
