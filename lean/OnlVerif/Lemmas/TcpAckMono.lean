import OnlVerif.Lemmas.TcpSender
/-!
# The sender's acknowledged mark never moves back

`last_ack` is written in one place, the new-ACK block of `put` (`self.last_ack = ackno`), and `put` returns early on an
acknowledgement below the mark (`if ackno < self.last_ack: return`).  So for *every* order in which acknowledgements reach the
sender - no FIFO hypothesis on the return path - `last_ack` is non-decreasing along every run of the sender LTS.
-/

open TcpScalar TcpSpec TcpCC

namespace TcpSender
open Sender

theorem refill_last_ack (s : Sender ℚ) : s.refill.last_ack = s.last_ack := by
  unfold Sender.refill; split <;> rfl

theorem getToken_last_ack (s : Sender ℚ) : s.getToken.last_ack = s.last_ack := by
  unfold Sender.getToken; split <;> rfl

/-- one iteration of the sending loop leaves `last_ack` alone, whatever its outcome -/
theorem sendStep_last_ack (s : Sender ℚ) :
    (∀ s' tx, s.sendStep = .sent s' tx → s'.last_ack = s.last_ack) ∧
    (∀ s', s.sendStep = .yielded s' → s'.last_ack = s.last_ack) ∧
    (∀ s', s.sendStep = .done s' → s'.last_ack = s.last_ack) := by
  unfold Sender.sendStep Sender.emit
  simp only
  split_ifs <;> refine ⟨?_, ?_, ?_⟩ <;> intros <;> simp_all <;> subst_vars <;>
    first | rfl | exact refill_last_ack s | (rw [getToken_last_ack, refill_last_ack]) |
      (rename_i hh; rw [← hh.1]; exact refill_last_ack s)

/-- a resumption of `run` leaves `last_ack` alone -/
theorem runLoop_last_ack (n : Nat) : ∀ (s : Sender ℚ) (outs : List (Tx ℚ)) (s' : Sender ℚ) (outs' : List (Tx ℚ)),
    runLoop n s outs = .ok s' outs' → s'.last_ack = s.last_ack := by
  induction n with
  | zero => intro s outs s' outs' he; cases he
  | succ n ih =>
    intro s outs s' outs' he
    obtain ⟨f1, f2, f3⟩ := sendStep_last_ack s
    unfold Sender.runLoop at he
    cases hs : s.sendStep with
    | sent s1 tx => rw [hs] at he; rw [ih s1 _ s' outs' he, f1 s1 tx hs]
    | yielded s1 => rw [hs] at he; injection he with e1 e2; subst e1; exact f2 _ hs
    | done s1 => rw [hs] at he; injection he with e1 e2; subst e1; exact f3 _ hs
    | error e => rw [hs] at he; cases he

/-- what an accepted action does to the acknowledged mark: nothing, or it is a new ACK (`ackno > last_ack`) and the mark moves
forward to its number -/
theorem step_last_ack_cases {s s' : Sender ℚ} {a : Act ℚ} {outs : List (Tx ℚ)} (h : Inv s) (ha : ActOk a)
    (hs : s.step a = .ok s' outs) :
    s'.last_ack = s.last_ack ∨ ∃ x, a = .ack x ∧ s.last_ack < x.ackno ∧ s'.last_ack = x.ackno := by
  cases a with
  | wake fuel =>
    have hs' : s.wakeStep fuel = .ok s' outs := hs
    unfold Sender.wakeStep at hs'
    split_ifs at hs'
    exact Or.inl (runLoop_last_ack fuel s [] s' outs hs')
  | handoff =>
    have hs' : s.handoffStep = .ok s' outs := hs
    unfold Sender.handoffStep at hs'
    split_ifs at hs'
    injection hs' with e1; subst e1; exact Or.inl rfl
  | tick t =>
    have hs' : s.tickStep t = .ok s' outs := hs
    unfold Sender.tickStep at hs'
    split_ifs at hs'
    injection hs' with e1; subst e1; exact Or.inl rfl
  | fire seq =>
    cases ht : AL.get? seq s.timers with
    | none =>
      have : s.step (.fire seq) = .reject .noTimer := by show s.fireStep seq = _; unfold Sender.fireStep; rw [ht]
      rw [this] at hs; cases hs
    | some tr =>
      by_cases hdue : tr.live = true ∧ tr.wake = s.now ∧ ¬ s.now < tr.expiry
      · obtain ⟨S, r, _, _⟩ := fireStep_spec s seq tr ht hdue
        have hs' : s.fireStep seq = .ok s' outs := hs
        rw [r] at hs'; injection hs' with e1; subst e1
        exact Or.inl rfl
      · have hs' : s.fireStep seq = .ok s' outs := hs
        unfold Sender.fireStep at hs'
        rw [ht] at hs'
        have hd : (!tr.live || !Num.eqb tr.wake s.now || decide (s.now < tr.expiry)) = true := by
          by_contra hc
          apply hdue
          simp only [Bool.or_eq_true, Bool.not_eq_true', decide_eq_true_eq, not_or, Bool.not_eq_false] at hc
          exact ⟨hc.1.1, (eqb_iff _ _).mp hc.1.2, hc.2⟩
        simp only [hd, if_true] at hs'
        cases hs'
  | ack x =>
    have hs' : s.ackStep x = .ok s' outs := hs
    have hf : 10000 ≤ x.fid := ha
    by_cases hp : s.now < x.ptime
    · unfold Sender.ackStep at hs'
      simp only [Nat.not_lt.mpr hf, hp, if_true, if_false] at hs'
      cases hs'
    have hok : AckOk s x := ⟨hf, not_lt.mp hp⟩
    rcases Nat.lt_trichotomy x.ackno s.last_ack with hst | hd | hd
    · rw [ackStep_stale s x hok hst] at hs'
      injection hs' with e1; subst e1; exact Or.inl rfl
    · rcases Nat.lt_trichotomy s.dupack 2 with h2 | h2 | h2
      · rw [ackStep_early s x hok hd h2] at hs'
        injection hs' with e1; subst e1; exact Or.inl rfl
      · rw [ackStep_third s x hok hd h2] at hs'
        injection hs' with e1; subst e1
        obtain ⟨S, hS, _⟩ := resend_frame
          ({ s with dupack := 3, cc := CongestionControl.consecutive_dupacks_received s.cc } : Sender ℚ) x.ackno
        unfold Sender.thirdDup
        rw [hS]; exact Or.inl rfl
      · rw [ackStep_more s x hok hd (by omega)] at hs'
        injection hs' with e1; subst e1
        obtain ⟨S, hS, _⟩ := resend_frame
          ({ s with dupack := s.dupack + 1, cc := CongestionControl.more_dupacks_received s.cc } : Sender ℚ) x.ackno
        unfold Sender.moreDup
        simp only
        split_ifs
        · rw [hS]; exact Or.inl rfl
        · exact Or.inl rfl
    · obtain ⟨T, S, r, _⟩ := ackStep_new_spec s x h.cc h.keys h.nodup hok hd
      rw [r] at hs'; injection hs' with e1; subst e1
      exact Or.inr ⟨x, rfl, hd, rfl⟩

/-- **an accepted action never moves the acknowledged mark back** - ACKs in any order, with any numbers -/
theorem step_last_ack_mono {s s' : Sender ℚ} {a : Act ℚ} {outs : List (Tx ℚ)} (h : Inv s) (ha : ActOk a)
    (hs : s.step a = .ok s' outs) : s.last_ack ≤ s'.last_ack := by
  rcases step_last_ack_cases h ha hs with e | ⟨x, _, hlt, e⟩
  · exact Nat.le_of_eq e.symm
  · rw [e]; exact Nat.le_of_lt hlt

/-- along every run from a state satisfying the invariant -/
theorem reach_last_ack_mono {s0 s : Sender ℚ} (h0 : Inv s0) (hr : Reach s0 s) : s0.last_ack ≤ s.last_ack := by
  induction hr with
  | init => exact Nat.le_refl _
  | step hr' ha hs ih => exact Nat.le_trans ih (step_last_ack_mono (reach_inv h0 hr') ha hs)

/-- run a list of actions through the sender LTS (`none` as soon as one is not accepted); used by the `example`s of
`Props/C16.lean` -/
def runActs (s : Sender ℚ) : List (Act ℚ) → Option (Sender ℚ)
  | [] => some s
  | a :: rest =>
    match s.step a with
    | .ok s' _ => runActs s' rest
    | _ => none

end TcpSender
