import OnlVerif.Lemmas.RRKStepRun
/-!
# The RR scheduler on the kernel model: kernel steps of a transmission

`run` receives the packet and spawns the sender; the sender starts (`current_packet`, timeout); the timeout fires (counters,
`out.put`, the generator returns).
-/

set_option linter.unusedSimpArgs false

namespace RRK
open RROnK
open TimerK (lookup plookup afterBurst resume_eq step_eq)

variable {F : Nat} {flow size : Int → Nat} {rate : ℚ} {flows : List Nat}
variable {s : KS} {a : A} {q : QEntry ℚ} {rest : List (QEntry ℚ)}

/-- the `StoreGet` on a per-flow store is processed: `run` has the packet and spawns `send_packet(packet)` -/
theorem kstep_pktResume (fuel : Nat) (hk : KInv flow F s a) {g : EvId} {i : Nat} {id : Int} (hph : a.run = .H g i id q)
    (hfid : flow id < F)
    (hp : popMin s.agenda = some (q, rest)) (hrest : rest.Perm (a.src.entries ++ pendEntries a.pend)) :
    ∃ s', step (body F flow size rate flows) (fuel + 1) s = .ok s' ∧
      KInv flow F s' { a with run := .S s.events.size i id ⟨q.time, URGENT, s.eid, s.events.size + 1⟩ } ∧
      s'.now = q.time ∧ histOf s'.trace = histOf s.trace ++ [.serve id q.time] := by
  have hr := hk.run
  rw [hph] at hr
  obtain ⟨hqe, ⟨hkind, hcbs, hout⟩, hproc0, ⟨hpk, hpc, hpo⟩⟩ := hr
  have hgs : g < s.events.size := KState.lt_of_cbs hcbs
  have hwf := openEvent_wf s q rest hk.wf hp
  have hlt := hk.idlt
  have htok := hk.tok
  have hst := hk.st (flow id) hfid
  have hrsz := hk.rsz
  rw [hph] at htok
  simp only [KState.res, RPhase.getQ] at htok hst
  rw [step_eq _ _ _ _ _ _ hp (hqe ▸ hcbs)]
  simp only [List.foldl, runCb]
  rw [triggerPut_none (openEvent s q rest) (flowStore (flow id)) [] _ hst]
  rw [resume_eq _ _ _ _ _ _ (show (openEvent s q rest).proc? 0 = _ from hproc0)]
  simp only [KState.ev] at hkind hcbs hout hpk hpc hpo
  obtain ⟨nrun, nsrc, npend, drun, dsrc⟩ := (ids_nodup_iff a).mp hk.nd
  simp only [hph, rrids] at nrun drun hlt
  obtain ⟨d0, de⟩ := drun
  have h0e : ¬ 0 = g := nrun
  have h0lt := hlt.1
  have hne0 : ¬ s.events = #[] := by intro h; rw [h] at h0lt; simp at h0lt
  rsimp [hqe, hgs, hkind, hcbs, hout, Nat.ne_of_lt hgs, TimerK.ne_fresh hgs, TimerK.ne_fresh h0lt]
  refine ⟨⟨?_, ?_, ?_, ?_, ?_, ?_, ?_, ?_, ?_, ?_, ?_, ?_, ?_, ?_⟩, ?_⟩
  · exact wf_push1 hwf.1 _ rfl rfl rfl rfl (le_refl _)
  · simp only [A.entries, RPhase.entries, List.singleton_append]
    exact List.Perm.cons _ hrest
  · exact hrsz
  · exact htok
  · exact hk.st
  · refine ⟨rfl, ?_, ?_, ?_, ?_, ?_⟩
    · rsimp [EvIs, hne0]
    · rsimp [hne0]
    · have : s.events.size < s.events.size + 1 + 1 := by omega
      rsimp [EvIs, hne0, this]
    · rsimp [Ne.symm (Nat.ne_of_lt h0lt), hne0]
    · rsimp [EvIs, hpk, hpc, hpo, Nat.ne_of_lt h0lt, h0e, Ne.symm h0e, hne0, TimerK.ne_fresh h0lt]
  · refine (hk.keep_src_pend [g] (by evkeep) ?_ ?_).1
    · intro e he; simp only [List.mem_singleton]; rintro rfl; exact he.elim de.1 de.2
    · intro e he
      have h1 : e ≠ 0 := by rintro rfl; exact d0.1 he
      have h2 : e ≠ s.events.size := Nat.ne_of_lt (hlt.2.2 e (Or.inl he))
      rsimp [h1, h2]
  · refine (hk.keep_src_pend [g] (by evkeep) ?_ ?_).2
    · intro e he; simp only [List.mem_singleton]; rintro rfl; exact he.elim de.1 de.2
    · intro e he
      have h1 : e ≠ 0 := by rintro rfl; exact d0.1 he
      have h2 : e ≠ s.events.size := Nat.ne_of_lt (hlt.2.2 e (Or.inl he))
      rsimp [h1, h2]
  · have hnd := hk.nd
    simp only [rrids, hph] at hnd ⊢
    grind
  · rsimp [hk.c0]
  · rsimp [hk.c1]
  · intro f' hf'; rsimp [hk.cc f' hf']
  · intro f' hf'; rsimp [hk.cb f' hf']
  · intro f' hf'; rsimp [hk.ch f' hf']
  · simp [histOf_push]

/-- the `Initialize` event of the sender: `current_packet = packet`, then it sleeps for `8·size/rate` -/
theorem kstep_sendInit (fuel : Nat) (hrate : 0 < rate) (hk : KInv flow F s a) {p : EvId} {i : Nat} {id : Int} (hph : a.run = .S p i id q)
    (hp : popMin s.agenda = some (q, rest)) (hrest : rest.Perm (a.src.entries ++ pendEntries a.pend)) :
    ∃ s', step (body F flow size rate flows) (fuel + 1) s = .ok s' ∧
      KInv flow F s' { a with run := .T p s.events.size i id ⟨q.time + txTime size rate id, NORMAL, s.eid, s.events.size⟩,
                              cur := some id } ∧
      s'.now = q.time ∧ histOf s'.trace = histOf s.trace := by
  have hr := hk.run
  rw [hph] at hr
  obtain ⟨hqe, ⟨hkind, hcbs, hout⟩, hproc, ⟨hpk, hpc, hpo⟩, hproc0, hp0⟩ := hr
  have hgs : p + 1 < s.events.size := KState.lt_of_cbs hcbs
  have hwf := openEvent_wf s q rest hk.wf hp
  have hlt := hk.idlt
  have hd := txTime_nonneg (size := size) hrate id
  rw [step_eq _ _ _ _ _ _ hp (hqe ▸ hcbs)]
  simp only [List.foldl, runCb]
  rw [resume_eq _ _ _ _ _ _ (show (openEvent s q rest).proc? p = _ from hproc)]
  simp only [KState.ev] at hkind hcbs hout hpk hpc hpo
  rsimp [hqe, hgs, hkind, hcbs, hout, Nat.ne_of_lt hgs, hd]
  obtain ⟨nrun, nsrc, npend, drun, dsrc⟩ := (ids_nodup_iff a).mp hk.nd
  simp only [hph, rrids] at nrun drun hlt
  obtain ⟨⟨h0p, h0p1⟩, hpp1⟩ := nrun
  obtain ⟨d0, dp, dp1⟩ := drun
  refine ⟨⟨?_, ?_, ?_, ?_, ?_, ?_, ?_, ?_, ?_, ?_, ?_, ?_, ?_, ?_⟩, ?_⟩
  · exact wf_push1 hwf.1 _ rfl rfl rfl rfl (by show q.time ≤ q.time + txTime size rate id; linarith)
  · simp only [A.entries, RPhase.entries, List.singleton_append]
    exact List.Perm.cons _ hrest
  · exact hk.rsz
  · have := hk.tok; rw [hph] at this; exact this
  · exact hk.st
  · refine ⟨rfl, ?_, ?_, ?_, ?_, ?_⟩
    · rsimp [EvIs]
    · rsimp
    · rsimp [EvIs, hpk, hpc, hpo, Nat.ne_of_lt (Nat.lt_of_succ_lt hgs)]
    · rsimp [h0p]
      exact hproc0
    · exact hp0.keep (X := [p + 1]) (by evkeep) (by simpa using h0p1)
  · refine (hk.keep_src_pend [p + 1] (by evkeep) ?_ ?_).1
    · intro e he; simp only [List.mem_singleton]; rintro rfl; exact he.elim dp1.1 dp1.2
    · intro e he
      have : e ≠ p := by rintro rfl; exact dp.1 he
      rsimp [this]
  · refine (hk.keep_src_pend [p + 1] (by evkeep) ?_ ?_).2
    · intro e he; simp only [List.mem_singleton]; rintro rfl; exact he.elim dp1.1 dp1.2
    · intro e he
      have : e ≠ p := by rintro rfl; exact dp.1 he
      rsimp [this]
  · have hnd := hk.nd
    simp only [rrids, hph] at hnd ⊢
    grind
  · rsimp [hk.c0]
  · rsimp [curVal]
  · intro f hf; rsimp [hk.cc f hf]
  · intro f hf; rsimp [hk.cb f hf]
  · intro f hf; rsimp [hk.ch f hf]
  · simp [histOf_push]

/-- the sender's timeout: the counters go down, `out.put(packet)`, `current_packet = None`; the generator returns and its
process event is triggered -/
theorem kstep_sendFire (fuel : Nat) (hk : KInv flow F s a) {p t : EvId} {i : Nat} {id : Int} (hph : a.run = .T p t i id q)
    (hfid : flow id < F)
    (hp : popMin s.agenda = some (q, rest)) (hrest : rest.Perm (a.src.entries ++ pendEntries a.pend)) :
    ∃ s', step (body F flow size rate flows) (fuel + 1) s = .ok s' ∧
      KInv flow F s' { a with run := .F p i id ⟨q.time, NORMAL, s.eid, p⟩,
                              cnt := upd a.cnt (flow id) (a.cnt (flow id) + -1),
                              byt := upd a.byt (flow id) (a.byt (flow id) + -(size id : Int)), cur := none } ∧
      s'.now = q.time ∧ histOf s'.trace = histOf s.trace ++ [.out id q.time] := by
  have hr := hk.run
  rw [hph] at hr
  obtain ⟨hqe, ⟨hkind, hcbs, hout⟩, hproc, ⟨hpk, hpc, hpo⟩, hproc0, hp0⟩ := hr
  have hgs : t < s.events.size := KState.lt_of_cbs hcbs
  have hgp : p < s.events.size := KState.lt_of_cbs hpc
  have hwf := openEvent_wf s q rest hk.wf hp
  have hlt := hk.idlt
  have hcc := hk.cc (flow id) hfid
  have hcb := hk.cb (flow id) hfid
  rw [step_eq _ _ _ _ _ _ hp (hqe ▸ hcbs)]
  simp only [List.foldl, runCb]
  rw [resume_eq _ _ _ _ _ _ (show (openEvent s q rest).proc? p = _ from hproc)]
  simp only [KState.ev] at hkind hcbs hout hpk hpc hpo
  obtain ⟨nrun, nsrc, npend, drun, dsrc⟩ := (ids_nodup_iff a).mp hk.nd
  simp only [hph, rrids] at nrun drun hlt
  obtain ⟨⟨h0p, h0t⟩, hpt⟩ := nrun
  obtain ⟨d0, dp, dt⟩ := drun
  rsimp [hqe, hgs, hgp, hkind, hcbs, hout, hpk, hpc, hpo, Nat.ne_of_lt hgs, Nat.ne_of_lt hgp, hcc, hcb, hpt, Ne.symm hpt]
  refine ⟨⟨?_, ?_, ?_, ?_, ?_, ?_, ?_, ?_, ?_, ?_, ?_, ?_, ?_, ?_⟩, ?_⟩
  · exact wf_push1 hwf.1 _ rfl rfl rfl rfl (le_refl _)
  · simp only [A.entries, RPhase.entries, List.singleton_append]
    exact List.Perm.cons _ hrest
  · exact hk.rsz
  · have := hk.tok; rw [hph] at this; exact this
  · exact hk.st
  · refine ⟨rfl, ?_, ?_, ?_⟩
    · rsimp [EvIs, hgs, hgp, hpk, hpc, hpt, Ne.symm hpt]
    · rsimp [h0p]
      exact hproc0
    · exact hp0.keep (X := [t, p]) (by evkeep) (by simp; exact ⟨h0t, h0p⟩)
  · refine (hk.keep_src_pend [t, p] (by evkeep) ?_ ?_).1
    · intro e he; simp only [List.mem_cons, List.not_mem_nil, or_false, not_or]
      exact ⟨by rintro rfl; exact he.elim dt.1 dt.2, by rintro rfl; exact he.elim dp.1 dp.2⟩
    · intro e he
      have : e ≠ p := by rintro rfl; exact dp.1 he
      rsimp [this]
  · refine (hk.keep_src_pend [t, p] (by evkeep) ?_ ?_).2
    · intro e he; simp only [List.mem_cons, List.not_mem_nil, or_false, not_or]
      exact ⟨by rintro rfl; exact he.elim dt.1 dt.2, by rintro rfl; exact he.elim dp.1 dp.2⟩
    · intro e he
      have : e ≠ p := by rintro rfl; exact dp.1 he
      rsimp [this]
  · have hnd := hk.nd
    simp only [rrids, hph] at hnd ⊢
    grind
  · rsimp [hk.c0]
  · rsimp [curVal]
  · intro f hf
    by_cases hff : f = flow id
    · subst hff; rsimp
    · rsimp [hff, Ne.symm hff, upd_ne, hk.cc f hf]
  · intro f hf
    by_cases hff : f = flow id
    · subst hff; rsimp
    · rsimp [hff, Ne.symm hff, upd_ne, hk.cb f hf]
  · intro f hf; rsimp [hk.ch f hf]
  · simp [histOf_push]

end RRK
