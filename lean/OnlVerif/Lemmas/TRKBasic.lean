import OnlVerif.Lemmas.TRKDefs
/-!
# The two-rate token bucket on the kernel model: what each kernel operation of the program does

Every lemma rewrites an operation applied to an arbitrary state `s` into `{ s with … }` with explicit fields, under the
local facts the operation reads (the store record, the attribute cell).
-/

set_option linter.unusedSimpArgs false

namespace TRK
open TwoRateOnK
open TimerK (lookup plookup afterBurst resume_eq step_eq dec_enc)

theorem getD_set_same (a : Array ResRec) (r : Nat) (x : ResRec) (h : r < a.size) :
    (a.setIfInBounds r x).getD r default = x := by
  rw [getD_setIfInBounds]; simp [h]

@[simp] theorem isStoreKind_store : isStoreKind .store = true := rfl
@[simp] theorem isPrioKind_store : isPrioKind .store = false := rfl
@[simp] theorem store_beq_preemptive : (ResKind.store == ResKind.preemptive) = false := rfl
@[simp] theorem store_beq_fstore : (ResKind.store == ResKind.fstore) = false := rfl

theorem doCall_load (s : KS) (self : EvId) (k : Nat) : doCall s self (.load k) = (s, .val (lookup s.shared k)) := rfl

theorem doCall_store (s : KS) (self : EvId) (k : Nat) (v : Val) :
    doCall s self (.store k v) = ({ s with shared := (k, v) :: s.shared.filter (·.1 != k) }, .unit) := rfl

theorem doCall_log (s : KS) (self : EvId) (what : String) (i : Int) :
    doCall s self (.log what (.int i)) = ({ s with trace := s.trace.push (.log self what (.int i) s.now) }, .unit) := rfl

theorem doCall_logOut (s : KS) (self : EvId) (what : String) (i : Int) (c : Nat) :
    doCall s self (.log what (outVal i c)) = ({ s with trace := s.trace.push (.log self what (outVal i c) s.now) }, .unit) := rfl

theorem doCall_timeout (s : KS) (self : EvId) (d : ℚ) (v : Val) (hd : 0 ≤ d) :
    doCall s self (.timeout d v) =
      ({ s with
          events := s.events.push { kind := .timeout, cbs := some [], out := some (.ok v), label := s.nlabel + 1 }
          nlabel := s.nlabel + 1
          agenda := { time := s.now + d, prio := NORMAL, eid := s.eid, ev := s.events.size } :: s.agenda
          eid := s.eid + 1 }, .ev s.events.size) := by
  have : ¬ d < Num.zero := by rw [zero_eq']; exact not_lt.mpr hd
  simp [doCall, this, KState.newLabelled, KState.schedule]

/-- `env.process(generator)` -/
theorem doCall_spawn (s : KS) (self : EvId) (st : St) :
    doCall s self (.spawn st) =
      ({ s with
          events := (s.events.push { kind := .proc, cbs := some [], out := none, label := s.nlabel + 1 }).push
                      { kind := .init s.events.size, cbs := some [.resume s.events.size], out := some (.ok .none) }
          nlabel := s.nlabel + 1
          procs := (s.events.size, { st := st, target := some (s.events.size + 1) }) :: s.procs.filter (·.1 != s.events.size)
          agenda := { time := s.now, prio := URGENT, eid := s.eid, ev := s.events.size + 1 } :: s.agenda
          eid := s.eid + 1 }, .ev s.events.size) := by
  simp [doCall, KState.newLabelled, KState.newEv, KState.setProc, KState.schedule, zero_eq']

/-- `store.put(item)` on an unbounded `Store` nobody has a pending `put` on: the item is appended, the `StorePut` event is
triggered at once -/
theorem doCall_sput (s : KS) (self : EvId) (r : ResId) (item : Int) (gq : List EvId) (its : List Int)
    (hsz : r < s.resources.size) (hr : s.resources.getD r default = storeRec gq its) :
    doCall s self (.sput r item) =
      ({ s with
          events := s.events.push { kind := .put r, cbs := some [.trigGet r], out := some (.ok .none), label := s.nlabel + 1,
                                     req := some { res := r, item := item, time := s.now, proc := s.active } }
          nlabel := s.nlabel + 1
          resources := s.resources.setIfInBounds r (storeRec gq (its ++ [item]))
          agenda := { time := s.now, prio := NORMAL, eid := s.eid, ev := s.events.size } :: s.agenda
          eid := s.eid + 1 }, .ev s.events.size) := by
  simp [doCall, hr, storeRec, mkPut, KState.newLabelled, enqPut, KState.setPutQ, KState.setRes, KState.res,
    triggerPut, scanPut, doPut, prePut, canPut, hasRoom, applyPut, KState.setItems, KState.trigger, KState.setOut, KState.schedule,
    KState.setEv, KState.ev, reqOf, KState.triggered, dropPutQ, getD_set_same, hsz, getD_push, getD_setIfInBounds, zero_eq',
    TimerK.push_setIfInBounds_size]

/-- `store.get()` on an empty `Store` nobody waits on: the `StoreGet` event is queued -/
theorem doCall_sget_miss (s : KS) (self : EvId) (r : ResId) (hsz : r < s.resources.size)
    (hr : s.resources.getD r default = storeRec [] []) :
    doCall s self (.sget r 0) =
      ({ s with
          events := s.events.push { kind := .get r, cbs := some [.trigPut r], out := none, label := s.nlabel + 1,
                                     req := some { res := r, time := s.now, proc := s.active } }
          nlabel := s.nlabel + 1
          resources := s.resources.setIfInBounds r (storeRec [s.events.size] []) }, .ev s.events.size) := by
  simp [doCall, hr, storeRec, mkGet, KState.newLabelled, enqGet, KState.setGetQ, KState.setRes, KState.res,
    triggerGet, scanGet, doGet, getItem, KState.triggered, KState.ev, getD_set_same, hsz, getD_push]

/-- `store.get()` on a non-empty `Store`: the head item is handed out at once -/
theorem doCall_sget_hit (s : KS) (self : EvId) (r : ResId) (i : Int) (is : List Int) (hsz : r < s.resources.size)
    (hr : s.resources.getD r default = storeRec [] (i :: is)) :
    doCall s self (.sget r 0) =
      ({ s with
          events := s.events.push { kind := .get r, cbs := some [.trigPut r], out := some (.ok (.int i)),
                                     label := s.nlabel + 1, req := some { res := r, time := s.now, proc := s.active } }
          nlabel := s.nlabel + 1
          resources := s.resources.setIfInBounds r (storeRec [] is)
          agenda := { time := s.now, prio := NORMAL, eid := s.eid, ev := s.events.size } :: s.agenda
          eid := s.eid + 1 }, .ev s.events.size) := by
  simp [doCall, hr, storeRec, mkGet, KState.newLabelled, enqGet, KState.setGetQ, KState.setRes, KState.res,
    triggerGet, scanGet, doGet, getItem, takeOut, KState.setItems, KState.trigger, KState.setOut, KState.schedule,
    KState.setEv, KState.triggered, KState.ev, dropGetQ, getD_set_same, hsz, getD_push, getD_setIfInBounds, zero_eq',
    TimerK.push_setIfInBounds_size]

theorem triggerPut_none (s : KS) (r : ResId) (gq : List EvId) (its : List Int)
    (hr : s.resources.getD r default = storeRec gq its) : triggerPut s r = s := by
  simp [triggerPut, KState.res, hr, storeRec, scanPut]

theorem triggerGet_none (s : KS) (r : ResId) (its : List Int)
    (hr : s.resources.getD r default = storeRec [] its) : triggerGet s r = s := by
  simp [triggerGet, KState.res, hr, storeRec, scanGet]

/-- `_trigger_get` with a waiting `get` and an empty store: nothing happens -/
theorem triggerGet_empty (s : KS) (r : ResId) (g : EvId) (hr : s.resources.getD r default = storeRec [g] [])
    (hg : (s.events.getD g default).out = none) : triggerGet s r = s := by
  simp [-Array.getD_eq_getD_getElem?, triggerGet, KState.res, hr, storeRec, scanGet, doGet, getItem, KState.triggered, KState.ev, hg]

/-- `_trigger_get` with a waiting `get` and an item: the item is handed over, the `StoreGet` event is triggered -/
theorem triggerGet_hand (s : KS) (r : ResId) (g : EvId) (i : Int) (is : List Int) (hsz : r < s.resources.size)
    (hgs : g < s.events.size) (hr : s.resources.getD r default = storeRec [g] (i :: is)) :
    triggerGet s r =
      { s with
          events := s.events.setIfInBounds g { s.events.getD g default with out := some (.ok (.int i)) }
          resources := s.resources.setIfInBounds r (storeRec [] is)
          agenda := { time := s.now, prio := NORMAL, eid := s.eid, ev := g } :: s.agenda
          eid := s.eid + 1 } := by
  simp [-Array.getD_eq_getD_getElem?, hr, storeRec, KState.setGetQ, KState.setRes, KState.res,
    triggerGet, scanGet, doGet, getItem, takeOut, KState.setItems, KState.trigger, KState.setOut, KState.schedule,
    KState.setEv, KState.triggered, KState.ev, dropGetQ, getD_set_same, hsz, hgs, getD_push, getD_setIfInBounds, zero_eq',
    TimerK.push_setIfInBounds_size]


/-! ## the attribute cells are pairwise different -/

@[trk] theorem cRecv_val : cRecv = 0 := rfl
@[trk] theorem cSent_val : cSent = 1 := rfl
@[trk] theorem cCommit_val : cCommit = 2 := rfl
@[trk] theorem cUpd_val : cUpd = 3 := rfl
@[trk] theorem cPeak_val : cPeak = 4 := rfl
@[trk] theorem storeId_val : storeId = 0 := rfl
@[trk] theorem cStamp_val (id : Int) : cStamp id = 10 + id.toNat := rfl

theorem stamp_ne (k : Nat) : (10 + k = 0) = False ∧ (10 + k = 1) = False ∧ (10 + k = 2) = False ∧ (10 + k = 3) = False ∧
    (10 + k = 4) = False ∧
    (0 = 10 + k) = False ∧ (1 = 10 + k) = False ∧ (2 = 10 + k) = False ∧ (3 = 10 + k) = False ∧ (4 = 10 + k) = False := by
  simp only [eq_iff_iff, iff_false]; omega

@[trk] theorem stamp_inj (k k' : Nat) : (10 + k = 10 + k') = (k = k') := by
  simp only [eq_iff_iff]; omega

/-! ## bursts: reading attributes does not change the state -/

theorem runBurst_call (p : EvId) (c : Call ℚ St) (k : Reply → Burst ℚ St) (S : KS) :
    runBurst p (.call c k) S = runBurst p (k (doCall S p c).2) (noteErr p (doCall S p c)) := rfl

end TRK
