import OnlVerif.Lemmas.GenKernelDefs
import OnlVerif.Lemmas.KAccess
import OnlVerif.Generated.KernelEvent02
/-!
# Bridge lemmas (C02): generated `Event.succeed` / `Event.fail`, the end of `Process._resume`, the crash test of `Environment.step`
(`Generated/KernelEvent02.lean`) = API-call / step functions of model `K`
-/

namespace GenKernel
variable {τ σ : Type} [Num τ]

/-! ## `Event.succeed` / `Event.fail`, the end of `Process._resume` -/

theorem succeed_call (s : KState τ σ) (self e : EvId) (v : Val) :
    doCall s self (.succeed e v) =
      (if (Gen.Event.succeed (evObj (τ := τ)) (s.triggered e)).raised = 5 then (s, .err (runtimeErr "already triggered"))
       else match applyTrig s e (Gen.Event.succeed (evObj (τ := τ)) (s.triggered e)).eff v default with
         | some s' => (s', .unit)
         | none => (s, .unit)) := by
  unfold Gen.Event.succeed
  simp only [doCall]
  by_cases h : s.triggered e = true
  · rw [if_pos h, if_pos h]; rfl
  · rw [if_neg h, if_neg h]; rfl

theorem fail_call (s : KState τ σ) (self e : EvId) (x : Exc) :
    doCall s self (.fail e x) =
      (if (Gen.Event.fail (evObj (τ := τ)) (s.triggered e) false).raised = 5 then (s, .err (runtimeErr "already triggered"))
       else match applyTrig s e (Gen.Event.fail (evObj (τ := τ)) (s.triggered e) false).eff .none x with
         | some s' => (s', .unit)
         | none => (s, .unit)) := by
  unfold Gen.Event.fail
  simp only [doCall]
  by_cases h : s.triggered e = true
  · rw [if_pos h, if_pos h]; rfl
  · rw [if_neg h, if_neg h]; rfl

/-- `Event.fail` refuses an argument that is not an exception with `ValueError` (the model's `Exc` is always one) -/
theorem fail_not_exception (t : Bool) :
    (Gen.Event.fail (evObj (τ := τ)) t true).raised = (if t then 5 else 2) := by
  unfold Gen.Event.fail
  cases t <;> rfl

/-- the generator returned: the process event is triggered as the `StopIteration` handler says -/
theorem trigger_ok (s : KState τ σ) (p : EvId) (v : Val) (x : Exc) :
    applyTrig s p (Gen.Process.resume_returned (evObj (τ := τ))).eff v x = some (s.trigger p (.ok v)) := rfl

/-- the generator raised: the process event is triggered as the `BaseException` handler says -/
theorem trigger_fail (s : KState τ σ) (p : EvId) (v : Val) (x : Exc) :
    applyTrig s p (Gen.Process.resume_raised (evObj (τ := τ))).eff v x = some (s.trigger p (.fail x)) := rfl

/-! ## `Environment.step` -/

omit [Num τ] in
/-- after the callbacks of an event have run, `step` re-raises its exception exactly when the generated test says so -/
theorem close_event (s : KState τ σ) (e : EvId) :
    closeEvent { s := s, stop := none } e =
      (match (s.ev e).out with
       | some (.fail x) => if Gen.Environment.step_crashes false (s.ev e).defused = true then .crash x s else .ok s
       | _ => .ok s) := by
  unfold closeEvent Gen.Environment.step_crashes
  dsimp only
  cases ho : (s.ev e).out with
  | none => rfl
  | some o =>
    cases o with
    | ok v => rfl
    | fail x => cases hd : (s.ev e).defused <;> simp

theorem step_crashes_ok (d : Bool) : Gen.Environment.step_crashes true d = false := by
  unfold Gen.Environment.step_crashes; simp

end GenKernel
