import OnlVerif.Lemmas.CondCheck
/-!
# `Condition.__init__`: what it does to the state (`MkSpec`), and that it keeps the counting invariant
-/

namespace Cond
variable {σ : Type}

open Once (lt_of_isCond isCond_congr lt_of_cbs_some ev_default)

/-- what `Condition.__init__(all, ops)` has done when it returns (`c = s.events.size` is the new condition) -/
structure MkSpec (s : KState ℚ σ) (all : Bool) (l : List EvId) (s' : KState ℚ σ) : Prop where
  size : s'.events.size = s.events.size + 1
  kind_c : (s'.ev s.events.size).kind = .cond all l
  kind_old : ∀ y, y ≠ s.events.size → (s'.ev y).kind = (s.ev y).kind
  out_old : ∀ y, y ≠ s.events.size → (s'.ev y).out = (s.ev y).out
  count_old : ∀ y, y ≠ s.events.size → (s'.ev y).count = (s.ev y).count
  def_old : ∀ y, y ≠ s.events.size → (s.ev y).defused = true → (s'.ev y).defused = true
  /-- one `_check` appended per operand position to every unprocessed operand -/
  cbs_old : ∀ y, y ≠ s.events.size →
    (s'.ev y).cbs = (s.ev y).cbs.map (· ++ List.replicate (l.count y) (Cb.check s.events.size))
  cbs_c : ∃ Lc, (s'.ev s.events.size).cbs = some Lc ∧ (∀ d, Cb.check d ∉ Lc) ∧
    (∀ d, Cb.build d ∈ Lc → d = s.events.size ∧ l ≠ []) ∧ (l ≠ [] → Lc.count (.build s.events.size) = 1)
  c_pending : (s'.ev s.events.size).out = none →
    (s'.ev s.events.size).count = l.countP (fun e => s.processed e) ∧
    (∀ e ∈ l, s.processed e = true → ∀ z, (s.ev e).out ≠ some (.fail z)) ∧
    evaluate all l.length (s'.ev s.events.size).count = false
  c_ok : ∀ v, (s'.ev s.events.size).out = some (.ok v) → evaluate all l.length (l.countP (fun e => s.processed e)) = true
  c_fail : ∀ z, (s'.ev s.events.size).out = some (.fail z) →
    ∃ e ∈ l, s.processed e = true ∧ (s.ev e).out = some (.fail z) ∧ (s'.ev e).defused = true

theorem condOps_of_kind {s : KState ℚ σ} {c : EvId} {all : Bool} {l : List EvId} (h : (s.ev c).kind = .cond all l) :
    ops s c = l ∧ isAll s c = all ∧ isCond s c = true := by
  unfold ops isAll condOps isCond
  rw [h]
  exact ⟨rfl, rfl, rfl⟩

theorem map_none_iff {α} (f : α → α) (o : Option α) : o.map f = none ↔ o = none := by
  cases o <;> simp

/-- **`Condition.__init__` keeps the counting invariant** (given that its operands exist) -/
theorem CInv.of_mkSpec {rem : List Cb} {e0 : EvId} {s s' : KState ℚ σ} {all : Bool} {l : List EvId}
    (hc : CInv rem e0 s) (hl : ∀ e ∈ l, e < s.events.size) (h : MkSpec s all l s') :
    CInv rem e0 s' ∧ Mono rem s s' := by
  obtain ⟨hopsC, hallC, hcondC⟩ := condOps_of_kind h.kind_c
  have hne_of_lt : ∀ y, y < s.events.size → y ≠ s.events.size := fun y hy => Nat.ne_of_lt hy
  have hcs : isCond s s.events.size = false := isCond_default (Nat.lt_irrefl _)
  have hopsS : ops s s.events.size = [] := ops_nil_of_not_cond hcs
  have hold_ops : ∀ d, d ≠ s.events.size → ops s' d = ops s d := fun d hd => ops_congr (h.kind_old d hd)
  have hold_cond : ∀ d, d ≠ s.events.size → isCond s' d = isCond s d := fun d hd => isCond_congr (h.kind_old d hd)
  have hold_all : ∀ d, d ≠ s.events.size → isAll s' d = isAll s d := fun d hd => isAll_congr (h.kind_old d hd)
  have hcond_ne : ∀ d, isCond s d = true → d ≠ s.events.size := fun d hd => hne_of_lt d (lt_of_isCond s d hd)
  -- the new condition is nobody's operand
  have hnopar : ∀ d, s.events.size ∉ ops s' d := by
    intro d hm
    by_cases hd : d = s.events.size
    · rw [hd, hopsC] at hm
      exact Nat.lt_irrefl _ (hl _ hm)
    · rw [hold_ops d hd] at hm
      exact Nat.lt_irrefl _ (hc.op_lt hm)
  have hproc : ∀ y, y ≠ s.events.size → s'.processed y = s.processed y := by
    intro y hy
    apply processed_congr
    rw [h.cbs_old y hy, map_none_iff]
  obtain ⟨Lc, hLc, hLc1, hLc2, hLc3⟩ := h.cbs_c
  have hprocC : s'.processed s.events.size = false := by
    unfold KState.processed; rw [hLc]; rfl
  -- lists of `s'`
  have hlist : ∀ y L', y ≠ s.events.size → (s'.ev y).cbs = some L' →
      ∃ L, (s.ev y).cbs = some L ∧ L' = L ++ List.replicate (l.count y) (Cb.check s.events.size) := by
    intro y L' hy hL'
    rw [h.cbs_old y hy] at hL'
    cases hL : (s.ev y).cbs with
    | none => rw [hL] at hL'; cases hL'
    | some L => rw [hL] at hL'; simp only [Option.map_some, Option.some.injEq] at hL'; exact ⟨L, rfl, hL'.symm⟩
  -- `Under` and `Gone` before and after
  have hU1 : ∀ d a, Under s d a → Under s' d a := by
    intro d a hu
    induction hu with
    | self => exact Under.self _
    | nest he _ ih =>
      refine Under.nest ?_ ih
      rw [hold_ops _ (hcond_ne _ (isCond_of_mem_ops he))]; exact he
  have hU2 : ∀ d a, Under s' d a → a ≠ s.events.size → Under s d a := by
    intro d a hu
    induction hu with
    | self => intro _; exact Under.self _
    | @nest e m he _ ih =>
      intro hm
      have he' : e ∈ ops s m := by rw [← hold_ops m hm]; exact he
      refine Under.nest he' (ih ?_)
      intro hec; rw [hec] at he; exact hnopar m he
  have hB : ∀ a, Built rem s' a ↔ Built rem s a := by
    intro a
    unfold Built
    by_cases ha : a = s.events.size
    · rw [ha, hcs, hLc]; simp
    · rw [hold_cond a ha, h.cbs_old a ha, map_none_iff]
  have hgone : ∀ d, Gone rem s' d ↔ Gone rem s d := by
    intro d
    constructor
    · rintro ⟨a, hu, hb⟩
      have hbs := (hB a).mp hb
      exact ⟨a, hU2 d a hu (hcond_ne a hbs.1), hbs⟩
    · rintro ⟨a, hu, hb⟩
      exact ⟨a, hU1 d a hu, (hB a).mpr hb⟩
  have hgoneC : ¬ Gone rem s s.events.size := by
    rintro ⟨a, hu, hb⟩
    have h1 := hu.le hc.older
    have h2 := lt_of_isCond s a hb.1
    exact absurd (Nat.lt_of_le_of_lt h1 h2) (Nat.lt_irrefl _)
  have hremchk : Cb.check s.events.size ∉ rem := by
    intro hm
    have := hc.rem_att _ hm
    rw [hopsS] at this; cases this
  have hnPold : ∀ d, d ≠ s.events.size → nProcessed s' d = nProcessed s d := by
    intro d hd
    refine nProcessed_congr (hold_ops d hd) ?_
    intro e he
    exact hproc e (hne_of_lt e (hc.op_lt he))
  have hnPC : nProcessed s' s.events.size = l.countP (fun e => s.processed e) := by
    unfold nProcessed
    rw [hopsC]
    exact List.countP_congr (fun e he => by rw [hproc e (hne_of_lt e (hl e he))])
  constructor
  · have hremb : ∀ d, Cb.build d ∈ rem → d = e0 ∧ ops s' d ≠ [] := by
      intro d hm
      obtain ⟨h1, h2⟩ := hc.rem_bld_own d hm
      have hdc : isCond s d = true := by
        cases hcd : isCond s d with
        | true => rfl
        | false => exact absurd (ops_nil_of_not_cond hcd) h2
      exact ⟨h1, by rw [hold_ops d (hcond_ne d hdc)]; exact h2⟩
    refine ⟨?_, ?_, ?_, ?_, ?_, ?_, ?_, hremb, hc.rem_bld_cnt, ?_, ?_, ?_, ?_, ?_, ?_⟩
    · -- older
      intro d e he
      by_cases hd : d = s.events.size
      · rw [hd, hopsC] at he; rw [hd]; exact hl e he
      · rw [hold_ops d hd] at he; exact hc.older d e he
    · -- chk_att
      intro d hg e L' hL'
      have hgs : ¬ Gone rem s d := fun hh => hg ((hgone d).mpr hh)
      by_cases he : e = s.events.size
      · rw [he, hLc] at hL'; cases hL'
        rw [List.count_eq_zero.mpr (hLc1 d), he]
        exact (List.count_eq_zero.mpr (hnopar d)).symm
      · obtain ⟨L, hL, hLL⟩ := hlist e L' he hL'
        rw [hLL, List.count_append, List.count_replicate]
        by_cases hd : d = s.events.size
        · rw [hd, hopsC]
          have := hc.chk_att _ hgoneC e L hL
          rw [hopsS] at this
          simp only [List.count_nil] at this
          rw [this]; simp
        · rw [hold_ops d hd, hc.chk_att d hgs e L hL]
          have : ¬ (Cb.check s.events.size == Cb.check d) = true := by
            intro hh; rw [beq_iff_eq] at hh; cases hh; exact hd rfl
          simp [this]
    · -- chk_gone
      intro d hg e L' hL'
      have hgs : Gone rem s d := (hgone d).mp hg
      by_cases he : e = s.events.size
      · rw [he, hLc] at hL'; cases hL'; exact hLc1 d
      · obtain ⟨L, hL, hLL⟩ := hlist e L' he hL'
        rw [hLL, List.mem_append]
        rintro (hm | hm)
        · exact hc.chk_gone d hgs e L hL hm
        · have := (List.mem_replicate.mp hm).2
          cases this
          exact hgoneC hgs
    · -- rem_att
      intro d hm
      have := hc.rem_att d hm
      rw [hold_ops d (hcond_ne d (isCond_of_mem_ops this))]; exact this
    · intro d hg; exact hc.rem_gone d ((hgone d).mp hg)
    · -- bld_own
      intro e L' d hL' hm
      by_cases he : e = s.events.size
      · rw [he, hLc] at hL'; cases hL'
        obtain ⟨h1, h2⟩ := hLc2 d hm
        rw [he, h1, hopsC]; exact ⟨rfl, h2⟩
      · obtain ⟨L, hL, hLL⟩ := hlist e L' he hL'
        rw [hLL, List.mem_append] at hm
        rcases hm with hm | hm
        · obtain ⟨h1, h2⟩ := hc.bld_own e L d hL hm
          refine ⟨h1, ?_⟩
          rw [hold_ops d (h1 ▸ he)]; exact h2
        · have := (List.mem_replicate.mp hm).2
          cases this
    · -- bld_cnt
      intro d L' hL' hne
      by_cases hd : d = s.events.size
      · rw [hd, hLc] at hL'; cases hL'
        rw [hd, hopsC] at hne
        rw [hd]; exact hLc3 hne
      · obtain ⟨L, hL, hLL⟩ := hlist d L' hd hL'
        rw [hold_ops d hd] at hne
        rw [hLL, List.count_append, List.count_replicate]
        simp only [beq_iff_eq, reduceCtorEq, if_false, Nat.add_zero]
        exact hc.bld_cnt d L hL hne
    · -- e0_done
      intro hne
      obtain ⟨h1, h2⟩ := hc.e0_done hne
      refine ⟨by rw [h.size]; exact Nat.lt_succ_of_lt h1, ?_⟩
      rw [h.cbs_old e0 (hne_of_lt e0 h1), h2]; rfl
    · -- cnt
      intro d hcond ho hg
      by_cases hd : d = s.events.size
      · rw [hd] at ho ⊢
        rw [hnPC, List.count_eq_zero.mpr hremchk]
        exact (h.c_pending ho).1
      · rw [hold_cond d hd] at hcond
        rw [h.out_old d hd] at ho
        rw [h.count_old d hd, hnPold d hd]
        exact hc.cnt d hcond ho (fun hh => hg ((hgone d).mpr hh))
    · -- nofail
      intro d hcond ho hg e he hp x hx
      by_cases hd : d = s.events.size
      · rw [hd] at ho he
        rw [hopsC] at he
        have hec := hne_of_lt e (hl e he)
        rw [hproc e hec] at hp
        rw [h.out_old e hec] at hx
        exact absurd hx ((h.c_pending ho).2.1 e he hp x)
      · rw [hold_cond d hd] at hcond
        rw [h.out_old d hd] at ho
        rw [hold_ops d hd] at he
        have hec := hne_of_lt e (hc.op_lt he)
        rw [hproc e hec] at hp
        rw [h.out_old e hec] at hx
        exact hc.nofail d hcond ho (fun hh => hg ((hgone d).mpr hh)) e he hp x hx
    · -- unmet
      intro d hcond ho
      by_cases hd : d = s.events.size
      · rw [hd] at ho ⊢
        rw [hallC, hopsC]; exact (h.c_pending ho).2.2
      · rw [hold_cond d hd] at hcond
        rw [h.out_old d hd] at ho
        rw [hold_all d hd, hold_ops d hd, h.count_old d hd]
        exact hc.unmet d hcond ho
    · -- met
      intro d v hcond ho
      by_cases hd : d = s.events.size
      · rw [hd] at ho ⊢
        rw [hallC, hopsC, hnPC]; exact h.c_ok v ho
      · rw [hold_cond d hd] at hcond
        rw [h.out_old d hd] at ho
        rw [hold_all d hd, hold_ops d hd, hnPold d hd]
        exact hc.met d v hcond ho
    · -- failsrc
      intro d x hcond ho
      by_cases hd : d = s.events.size
      · rw [hd] at ho ⊢
        obtain ⟨e, he, hp, hx, hdf⟩ := h.c_fail x ho
        have hec := hne_of_lt e (hl e he)
        exact ⟨e, by rw [hopsC]; exact he, by rw [hproc e hec]; exact hp, by rw [h.out_old e hec]; exact hx, hdf⟩
      · rw [hold_cond d hd] at hcond
        rw [h.out_old d hd] at ho
        obtain ⟨e, he, hp, hx, hdf⟩ := hc.failsrc d x hcond ho
        have hec := hne_of_lt e (hc.op_lt he)
        exact ⟨e, by rw [hold_ops d hd]; exact he, by rw [hproc e hec]; exact hp, by rw [h.out_old e hec]; exact hx,
          h.def_old e hec hdf⟩
  · have hxc : ∀ x, (s.ev x).out ≠ none → x ≠ s.events.size := fun x hx => hne_of_lt x (Once.lt_of_out s x hx)
    refine ⟨?_, ?_, ?_, ?_⟩
    · intro x o ho
      exact Or.inl (by rw [h.out_old x (hxc x (by rw [ho]; simp))]; exact ho)
    · intro x ho; rw [h.out_old x (hxc x ho)]; exact ho
    · intro x ho; exact h.count_old x (hxc x ho)
    · intro d hd ho _
      rw [h.out_old d (hcond_ne d hd)]; exact ho

/-! ## `mkCond` meets its specification -/

/-- the state after the operands `pre` have been subscribed (unprocessed ones) or checked (processed ones) -/
structure FoldSpec (s : KState ℚ σ) (all : Bool) (l pre : List EvId) (x : KState ℚ σ) : Prop where
  size : x.events.size = s.events.size + 1
  kind_c : (x.ev s.events.size).kind = .cond all l
  kind_old : ∀ y, y ≠ s.events.size → (x.ev y).kind = (s.ev y).kind
  out_old : ∀ y, y ≠ s.events.size → (x.ev y).out = (s.ev y).out
  count_old : ∀ y, y ≠ s.events.size → (x.ev y).count = (s.ev y).count
  def_old : ∀ y, y ≠ s.events.size → (s.ev y).defused = true → (x.ev y).defused = true
  cbs_old : ∀ y, y ≠ s.events.size →
    (x.ev y).cbs = (s.ev y).cbs.map (· ++ List.replicate (pre.count y) (Cb.check s.events.size))
  cbs_c : (x.ev s.events.size).cbs = some []
  c_pending : (x.ev s.events.size).out = none →
    (x.ev s.events.size).count = pre.countP (fun e => s.processed e) ∧
    (∀ e ∈ pre, s.processed e = true → ∀ z, (s.ev e).out ≠ some (.fail z)) ∧
    evaluate all l.length (x.ev s.events.size).count = false
  c_ok : ∀ v, (x.ev s.events.size).out = some (.ok v) →
    ∃ k, k ≤ pre.countP (fun e => s.processed e) ∧ evaluate all l.length k = true
  c_fail : ∀ z, (x.ev s.events.size).out = some (.fail z) →
    ∃ e ∈ pre, s.processed e = true ∧ (s.ev e).out = some (.fail z) ∧ (x.ev e).defused = true

theorem ev_addCb_fields (x : KState ℚ σ) (e y : EvId) (cb : Cb) :
    ((x.addCb e cb).ev y).kind = (x.ev y).kind ∧ ((x.addCb e cb).ev y).out = (x.ev y).out ∧
    ((x.addCb e cb).ev y).count = (x.ev y).count ∧ ((x.addCb e cb).ev y).defused = (x.ev y).defused := by
  unfold KState.addCb
  simp only
  rw [KState.ev_setEv]
  split
  · rename_i h; rw [h.1]; exact ⟨rfl, rfl, rfl, rfl⟩
  · exact ⟨rfl, rfl, rfl, rfl⟩

theorem size_addCb (x : KState ℚ σ) (e : EvId) (cb : Cb) : (x.addCb e cb).events.size = x.events.size := by
  unfold KState.addCb; exact Once.size_setEv _ _ _

theorem FoldSpec.step {s : KState ℚ σ} {all : Bool} {l pre : List EvId} {x : KState ℚ σ} (h : FoldSpec s all l pre x)
    (e : EvId) (he : e < s.events.size) :
    FoldSpec s all l (pre ++ [e])
      (if x.processed e then condCheck x s.events.size e else x.addCb e (.check s.events.size)) := by
  have hec : e ≠ s.events.size := Nat.ne_of_lt he
  have hpe : x.processed e = s.processed e := processed_congr (by rw [h.cbs_old e hec, map_none_iff])
  obtain ⟨hopsC, hallC, _⟩ := condOps_of_kind h.kind_c
  have hclt : s.events.size < x.events.size := by rw [h.size]; exact Nat.lt_succ_self _
  have hcountP : (pre ++ [e]).countP (fun e => s.processed e) =
      pre.countP (fun e => s.processed e) + if s.processed e then 1 else 0 := by
    rw [List.countP_append, List.countP_singleton]
  -- the callback lists when the state of the old events does not change
  have hcbs_same : ∀ y, y ≠ s.events.size → (y = e → (s.ev e).cbs = none) →
      (s.ev y).cbs.map (· ++ List.replicate (pre.count y) (Cb.check s.events.size)) =
      (s.ev y).cbs.map (· ++ List.replicate ((pre ++ [e]).count y) (Cb.check s.events.size)) := by
    intro y _ hye
    by_cases hy : y = e
    · rw [hy, hye hy]; rfl
    · rw [List.count_append, List.count_singleton]
      have : ¬ (e == y) = true := by intro hh; rw [beq_iff_eq] at hh; exact hy hh.symm
      simp [this]
  cases hp : s.processed e with
  | true =>
    rw [hpe, hp]
    simp only [if_true]
    have hcn : (s.ev e).cbs = none := processed_iff.mp hp
    rw [hp] at hcountP
    simp only [if_true] at hcountP
    cases hu : (x.ev s.events.size).out with
    | some o =>
      have hs : condCheck x s.events.size e = x := by
        unfold condCheck
        have : x.triggered s.events.size = true := by unfold KState.triggered; rw [hu]; rfl
        rw [this]; rfl
      rw [hs]
      refine ⟨h.size, h.kind_c, h.kind_old, h.out_old, h.count_old, h.def_old, ?_, h.cbs_c, ?_, ?_, ?_⟩
      · intro y hy; rw [h.cbs_old y hy]; exact hcbs_same y hy (fun _ => hcn)
      · intro hn; rw [hu] at hn; cases hn
      · intro v hv
        obtain ⟨k, hk1, hk2⟩ := h.c_ok v hv
        exact ⟨k, by rw [hcountP]; omega, hk2⟩
      · intro z hz
        obtain ⟨e', h1, h2⟩ := h.c_fail z hz
        exact ⟨e', List.mem_append_left _ h1, h2⟩
    | none =>
      have sp := condCheck_spec x s.events.size e hu hclt hec
      obtain ⟨hp1, hp2, hp3⟩ := h.c_pending hu
      have hoe : (x.ev e).out = (s.ev e).out := h.out_old e hec
      refine ⟨by rw [sp.size]; exact h.size, by rw [sp.kind]; exact h.kind_c, ?_, ?_, ?_, ?_, ?_, ?_, ?_, ?_, ?_⟩
      · intro y hy; rw [sp.kind]; exact h.kind_old y hy
      · intro y hy; rw [sp.out_ne y hy]; exact h.out_old y hy
      · intro y hy; rw [sp.count_ne y hy]; exact h.count_old y hy
      · intro y hy hd; exact sp.defused y (h.def_old y hy hd)
      · intro y hy; rw [sp.cbs, h.cbs_old y hy]; exact hcbs_same y hy (fun _ => hcn)
      · rw [sp.cbs]; exact h.cbs_c
      · intro ho
        have hnf : ∀ z, (x.ev e).out ≠ some (.fail z) := by
          intro z hz
          have := (sp.out_fail z hz).1
          rw [ho] at this; cases this
        have hev : evaluate all l.length ((x.ev s.events.size).count + 1) = false := by
          cases hev : evaluate all l.length ((x.ev s.events.size).count + 1) with
          | false => rfl
          | true =>
            have := (sp.out_ok hnf).1 (by rw [hallC, hopsC]; exact hev)
            rw [ho] at this; cases this
        refine ⟨by rw [sp.count_c, hp1, hcountP], ?_, by rw [sp.count_c]; exact hev⟩
        intro e' he' hpe' z hz
        rcases List.mem_append.mp he' with h1 | h1
        · exact hp2 e' h1 hpe' z hz
        · rw [List.mem_singleton] at h1
          rw [h1, ← hoe] at hz
          exact hnf z hz
      · intro v ho
        by_cases hf : ∃ z, (x.ev e).out = some (.fail z)
        · obtain ⟨z, hz⟩ := hf
          have := (sp.out_fail z hz).1
          rw [ho] at this; cases this
        · have hnf : ∀ z, (x.ev e).out ≠ some (.fail z) := fun z hz => hf ⟨z, hz⟩
          cases hev : evaluate all l.length ((x.ev s.events.size).count + 1) with
          | false =>
            have := (sp.out_ok hnf).2 (by rw [hallC, hopsC]; exact hev)
            rw [ho] at this; cases this
          | true => exact ⟨_, by rw [hcountP, hp1], hev⟩
      · intro z ho
        by_cases hf : ∃ z, (x.ev e).out = some (.fail z)
        · obtain ⟨z', hz'⟩ := hf
          obtain ⟨h1, h2⟩ := sp.out_fail z' hz'
          rw [ho] at h1; cases h1
          exact ⟨e, by simp, hp, by rw [← hoe]; exact hz', h2⟩
        · have hnf : ∀ z, (x.ev e).out ≠ some (.fail z) := fun z hz => hf ⟨z, hz⟩
          cases hev : evaluate all l.length ((x.ev s.events.size).count + 1) with
          | false =>
            have := (sp.out_ok hnf).2 (by rw [hallC, hopsC]; exact hev)
            rw [ho] at this; cases this
          | true =>
            have := (sp.out_ok hnf).1 (by rw [hallC, hopsC]; exact hev)
            rw [ho] at this; cases this
  | false =>
    rw [hpe, hp]
    simp only [Bool.false_eq_true, if_false]
    rw [hp] at hcountP
    simp only [Bool.false_eq_true, if_false, Nat.add_zero] at hcountP
    have hf := ev_addCb_fields x e
    refine ⟨by rw [size_addCb]; exact h.size, by rw [(hf _ _).1]; exact h.kind_c, ?_, ?_, ?_, ?_, ?_, ?_, ?_, ?_, ?_⟩
    · intro y hy; rw [(hf _ _).1]; exact h.kind_old y hy
    · intro y hy; rw [(hf _ _).2.1]; exact h.out_old y hy
    · intro y hy; rw [(hf _ _).2.2.1]; exact h.count_old y hy
    · intro y hy hd; rw [(hf _ _).2.2.2]; exact h.def_old y hy hd
    · intro y hy
      rw [Once.cbs_addCb]
      by_cases hye : y = e
      · rw [if_pos hye, h.cbs_old e hec, hye, List.count_append, List.count_singleton_self, List.replicate_succ']
        cases (s.ev e).cbs with
        | none => rfl
        | some L => simp
      · rw [if_neg hye, h.cbs_old y hy, List.count_append, List.count_singleton]
        have : ¬ (e == y) = true := by intro hh; rw [beq_iff_eq] at hh; exact hye hh.symm
        simp [this]
    · rw [Once.cbs_addCb, if_neg (fun hh => hec hh.symm)]; exact h.cbs_c
    · intro ho
      rw [(hf _ _).2.1] at ho
      obtain ⟨hp1, hp2, hp3⟩ := h.c_pending ho
      refine ⟨by rw [(hf _ _).2.2.1, hp1, hcountP], ?_, by rw [(hf _ _).2.2.1]; exact hp3⟩
      intro e' he' hpe' z hz
      rcases List.mem_append.mp he' with h1 | h1
      · exact hp2 e' h1 hpe' z hz
      · rw [List.mem_singleton] at h1
        rw [h1, hp] at hpe'; cases hpe'
    · intro v ho
      rw [(hf _ _).2.1] at ho
      obtain ⟨k, hk1, hk2⟩ := h.c_ok v ho
      exact ⟨k, by rw [hcountP]; exact hk1, hk2⟩
    · intro z ho
      rw [(hf _ _).2.1] at ho
      obtain ⟨e', h1, h2, h3, h4⟩ := h.c_fail z ho
      exact ⟨e', List.mem_append_left _ h1, h2, h3, by rw [(hf _ _).2.2.2]; exact h4⟩

theorem FoldSpec.fold {s : KState ℚ σ} {all : Bool} {l : List EvId} : ∀ (post pre : List EvId) (x : KState ℚ σ),
    FoldSpec s all l pre x → (∀ e ∈ post, e < s.events.size) →
    FoldSpec s all l (pre ++ post)
      (post.foldl (fun x e => if x.processed e then condCheck x s.events.size e else x.addCb e (.check s.events.size)) x)
  | [], pre, x, h, _ => by simpa using h
  | e :: post, pre, x, h, hl => by
    simp only [List.foldl_cons]
    have := FoldSpec.fold post (pre ++ [e]) _ (h.step e (hl e List.mem_cons_self))
      (fun e' he' => hl e' (List.mem_cons_of_mem _ he'))
    simpa using this

theorem ev_newLabelled_cond (s : KState ℚ σ) (all : Bool) (l : List EvId) (y : EvId) :
    (s.newLabelled { kind := .cond all l, cbs := some [], out := none }).1.ev y =
      if y = s.events.size then { kind := .cond all l, cbs := some [], out := none, label := s.nlabel + 1 } else s.ev y :=
  KState.ev_newLabelled s _ y

/-- **`Condition.__init__` meets its specification** -/
theorem mkCond_spec (s : KState ℚ σ) (all : Bool) (l : List EvId) (hl : ∀ e ∈ l, e < s.events.size) :
    MkSpec s all l (mkCond s all l).1 := by
  rw [Once.mkCond_eq]
  have h1 := ev_newLabelled_cond s all l
  have hsz1 : (s.newLabelled { kind := .cond all l, cbs := some [], out := none }).1.events.size = s.events.size + 1 := by
    simp [KState.newLabelled]
  generalize (s.newLabelled { kind := .cond all l, cbs := some [], out := none }).1 = s1 at h1 hsz1
  have hold : ∀ y, y ≠ s.events.size → s1.ev y = s.ev y := fun y hy => by rw [h1, if_neg hy]
  have hnew : s1.ev s.events.size = { kind := .cond all l, cbs := some [], out := none, label := s.nlabel + 1 } := by
    rw [h1, if_pos rfl]
  cases l with
  | nil =>
    simp only [List.isEmpty_nil, if_true]
    have ht : ∀ y, (s1.trigger s.events.size (.ok (.cv []))).ev y =
        if y = s.events.size then { s1.ev s.events.size with out := some (.ok (.cv [])) } else s1.ev y := by
      intro y; rw [ev_trigger, hsz1]
      by_cases hy : y = s.events.size
      · rw [if_pos ⟨hy, Nat.lt_succ_self _⟩, if_pos hy]
      · rw [if_neg (fun hh => hy hh.1), if_neg hy]
    refine ⟨by rw [size_trigger, hsz1], by rw [ht, if_pos rfl, hnew], ?_, ?_, ?_, ?_, ?_, ?_, ?_, ?_, ?_⟩
    · intro y hy; rw [ht, if_neg hy, hold y hy]
    · intro y hy; rw [ht, if_neg hy, hold y hy]
    · intro y hy; rw [ht, if_neg hy, hold y hy]
    · intro y hy hd; rw [ht, if_neg hy, hold y hy]; exact hd
    · intro y hy; rw [ht, if_neg hy, hold y hy]
      cases (s.ev y).cbs <;> simp
    · refine ⟨[], by rw [ht, if_pos rfl, hnew], (fun d hd => by cases hd), (fun d hd => by cases hd), fun hh => absurd rfl hh⟩
    · intro ho; rw [ht, if_pos rfl] at ho; cases ho
    · intro v _; unfold evaluate; cases all <;> simp
    · intro z ho; rw [ht, if_pos rfl] at ho; cases ho
  | cons a l' =>
    simp only [List.isEmpty_cons, Bool.false_eq_true, if_false]
    have hne : a :: l' ≠ [] := by simp
    -- the state before the first operand
    have h0 : FoldSpec s all (a :: l') [] s1 := by
      refine ⟨hsz1, by rw [hnew], fun y hy => by rw [hold y hy], fun y hy => by rw [hold y hy], fun y hy => by rw [hold y hy],
        fun y hy hd => by rw [hold y hy]; exact hd, ?_, by rw [hnew], ?_, ?_, ?_⟩
      · intro y hy; rw [hold y hy]
        cases (s.ev y).cbs <;> simp
      · intro _
        rw [hnew]
        refine ⟨rfl, (fun e he => by cases he), ?_⟩
        unfold evaluate; cases all <;> simp
      · intro v ho; rw [hnew] at ho; cases ho
      · intro z ho; rw [hnew] at ho; cases ho
    have hf := FoldSpec.fold (a :: l') [] s1 h0 hl
    simp only [List.nil_append] at hf
    generalize (List.foldl (fun x e => if x.processed e then condCheck x s.events.size e
      else x.addCb e (.check s.events.size)) s1 (a :: l')) = x at hf
    have hfl := ev_addCb_fields x s.events.size
    refine ⟨by rw [size_addCb]; exact hf.size, by rw [(hfl _ _).1]; exact hf.kind_c, ?_, ?_, ?_, ?_, ?_, ?_, ?_, ?_, ?_⟩
    · intro y hy; rw [(hfl _ _).1]; exact hf.kind_old y hy
    · intro y hy; rw [(hfl _ _).2.1]; exact hf.out_old y hy
    · intro y hy; rw [(hfl _ _).2.2.1]; exact hf.count_old y hy
    · intro y hy hd; rw [(hfl _ _).2.2.2]; exact hf.def_old y hy hd
    · intro y hy; rw [Once.cbs_addCb, if_neg hy]; exact hf.cbs_old y hy
    · refine ⟨[.build s.events.size], ?_, ?_, ?_, ?_⟩
      · rw [Once.cbs_addCb, if_pos rfl, hf.cbs_c]; rfl
      · intro d hd; rw [List.mem_singleton] at hd; cases hd
      · intro d hd; rw [List.mem_singleton] at hd; cases hd; exact ⟨rfl, hne⟩
      · intro _; simp
    · intro ho
      rw [(hfl _ _).2.1] at ho
      rw [(hfl _ _).2.2.1]
      exact hf.c_pending ho
    · intro v ho
      rw [(hfl _ _).2.1] at ho
      obtain ⟨k, hk1, hk2⟩ := hf.c_ok v ho
      exact evaluate_mono hk2 hk1 List.countP_le_length
    · intro z ho
      rw [(hfl _ _).2.1] at ho
      obtain ⟨e, h2, h3, h4, h5⟩ := hf.c_fail z ho
      exact ⟨e, h2, h3, h4, by rw [(hfl _ _).2.2.2]; exact h5⟩

/-- **`Condition.__init__` keeps the counting invariant** -/
theorem CInv.mkCond {rem : List Cb} {e0 : EvId} {s : KState ℚ σ} (hc : CInv rem e0 s) (all : Bool) (l : List EvId)
    (hl : ∀ e ∈ l, e < s.events.size) : CInv rem e0 (mkCond s all l).1 ∧ Mono rem s (mkCond s all l).1 :=
  hc.of_mkSpec hl (mkCond_spec s all l hl)

end Cond
