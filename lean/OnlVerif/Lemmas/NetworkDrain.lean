import Mathlib.Data.List.Flatten
import OnlVerif.Lemmas.NetworkThm
/-!
# Network-wide drain as a multiset equation

With nothing held anywhere, the introduced packets are (a permutation of) the delivered packets together with the packets
dropped by the nodes of any duplicate-free list that contains every node that dropped something.
-/

namespace Net
variable {ι π κ : Type} [DecidableEq ι] [DecidableEq π] [DecidableEq κ]

theorem sum_map_zero' (l : List ι) (f : ι → Nat) (h : ∀ c ∈ l, f c = 0) : (l.map f).sum = 0 := by
  induction l with
  | nil => rfl
  | cons c cs ih =>
    rw [List.map_cons, List.sum_cons, h c List.mem_cons_self, ih (fun c' hc' => h c' (List.mem_cons_of_mem _ hc'))]

theorem sum_map_single (l : List ι) (hn : l.Nodup) (f : ι → Nat) (a : ι) (ha : a ∈ l) (h : ∀ c, c ≠ a → f c = 0) :
    (l.map f).sum = f a := by
  induction l with
  | nil => cases ha
  | cons c cs ih =>
    rw [List.nodup_cons] at hn
    rw [List.map_cons, List.sum_cons]
    by_cases e : c = a
    · subst e
      rw [sum_map_zero' cs f (fun c' hc' => h c' (fun e => hn.1 (e ▸ hc')))]
      rfl
    · have hm : a ∈ cs := by
        rcases List.mem_cons.mp ha with e' | e'
        · exact absurd e'.symm e
        · exact e'
      rw [h c e, ih hn.2 hm]; simp

theorem count_flatMap_sum' (q : π) (l : List ι) (f : ι → List π) :
    (l.flatMap f).count q = (l.map fun c => (f c).count q).sum := by
  induction l with
  | nil => rfl
  | cons c cs ih => simp [List.flatMap_cons, List.count_append, ih]

/-- occurrences among the deliveries, sink by sink -/
theorem count_deliv (l : List (Nat × π)) (q : π) (k : Nat)
    (h : ∀ k', k' ≠ k → ((l.filter (fun d => decide (d.1 = k'))).map (·.2)).count q = 0) :
    (l.map (·.2)).count q = ((l.filter (fun d => decide (d.1 = k))).map (·.2)).count q := by
  induction l with
  | nil => rfl
  | cons d l ih =>
    have ih' := ih (fun k' hk' => by
      have := h k' hk'
      simp only [List.filter_cons] at this
      split at this
      · simp only [List.map_cons, List.count_cons] at this; omega
      · exact this)
    simp only [List.map_cons, List.count_cons, List.filter_cons, ih']
    by_cases hd : d.1 = k
    · simp [hd, List.count_cons]
    · have := h d.1 hd
      simp only [List.filter_cons, decide_true, if_true, List.map_cons, List.count_cons] at this
      have hq : ¬ (d.2 == q) = true := by
        intro e; simp only [e, if_true] at this; omega
      simp [hd, hq]

theorem count_delivered (g : GState ι π) (q : π) (k : Nat) (h : ∀ k', k' ≠ k → g.rc (.sink k') q = 0) :
    (g.delivered.map (·.2)).count q = g.rc (.sink k) q :=
  count_deliv g.delivered q k h

theorem drained_perm (n : Wiring ι π κ) (g : GState ι π) (hi : GInv n g) (hheld : ∀ a, (g.acct a).held = [])
    (nodes : List ι) (hn : nodes.Nodup) (hall : ∀ a, (g.acct a).dropped ≠ [] → a ∈ nodes) :
    g.introduced.Perm (g.delivered.map (·.2) ++ nodes.flatMap fun a => (g.acct a).dropped.map (·.1)) := by
  rw [List.perm_iff_count]
  intro q
  have hnd : g.introduced.Nodup := List.Nodup.of_map _ hi.keys
  rw [List.count_append, count_flatMap_sum']
  have hdrop : ∀ a, ((g.acct a).dropped.map (·.1)).count q = g.rc (.dropped a) q := fun _ => rfl
  simp only [hdrop]
  have hh : ∀ a, g.rc (.held a) q = 0 := by intro a; simp [GState.rc, GState.recs, hheld a]
  by_cases hq : q ∈ g.introduced
  · rw [List.count_eq_one_of_mem hnd hq]
    obtain ⟨s, hs, h1, ho⟩ := (hi.exact q).1 hq
    cases s with
    | sink k =>
      rw [count_delivered g q k (fun k' hk' => ho (.sink k') rfl (by simpa using hk')), h1,
        sum_map_zero' nodes _ (fun a _ => ho (.dropped a) rfl (by simp))]
    | dropped a =>
      have ha : a ∈ nodes := by
        apply hall
        intro e
        simp [GState.rc, GState.recs, e] at h1
      rw [sum_map_single nodes hn (fun a => g.rc (.dropped a) q) a ha
        (fun c hc => ho (.dropped c) rfl (by simpa using hc)), h1,
        count_delivered g q 0 (fun k' _ => ho (.sink k') rfl (by simp)), ho (.sink 0) rfl (by simp)]
    | held a => have := hh a; omega
    | inn a => cases hs
    | made a => cases hs
    | out a => cases hs
  · rw [List.count_eq_zero_of_not_mem hq]
    have hz := (hi.exact q).2 hq
    rw [count_delivered g q 0 (fun k' _ => hz (.sink k') rfl), hz (.sink 0) rfl,
      sum_map_zero' nodes _ (fun a _ => hz (.dropped a) rfl)]

end Net
