import OnlVerif.Lemmas.TRKRun
/-!
# The two-rate token bucket on the kernel model: the put / out history of every run passes the oracle of the C11 recurrence and colour rule

`OInv` relates the state of the oracle (`TwoRateOnK.ostep`) after the history so far to the configuration: its waiting queue is
the packet `run` holds followed by the store, its level / update instant are the attribute cells while `run` is between
packets, and while `run` sleeps for a packet the departure the recurrence prescribes for it is already the instant of the
pending timeout (plus the peak spacing still to come).
-/

set_option linter.unusedSimpArgs false

namespace TRK
open TwoRateOnK QEntry

variable (size : Int → Nat) (cfg : TrCfg ℚ)

/-- the packet `run` holds -/
def RPhase.held : RPhase → Option Int
  | .H _ id _ _ => some id
  | .T1 _ id _ => some id
  | _ => none

/-- the packets the oracle waits for: the one `run` holds, then the store -/
def waitingOf (a : A) : List (Int × ℚ) :=
  (match a.run.held with | some id => [(id, a.ctOf id)] | none => []) ++ a.items.map fun i => (i, a.ctOf i)

/-- the arrivals the source has still to make -/
def srcFuture (now : ℚ) : SPhase → List (Int × ℚ)
  | .init _ arr => arrivalsFrom now 0 arr
  | .wait next rest q => ((next : Int), q.time) :: arrivalsFrom q.time (next + 1) rest
  | _ => []

/-- the `put` observations of a history -/
def obsPuts : List (HEv ℚ) → List (Int × ℚ)
  | [] => []
  | .put id t :: r => (id, t) :: obsPuts r
  | _ :: r => obsPuts r

/-- what the phase of `run` says about the oracle -/
def PhO (a : A) (o : OSt ℚ) : RPhase → Prop
  | .init q => o.free = q.time ∧ o.commit = a.commit ∧ o.peak = a.peak ∧ o.upd = a.upd
  | .W _ t0 => o.free = t0 ∧ o.commit = a.commit ∧ o.peak = a.peak ∧ o.upd = a.upd
  | .H _ _ _ t0 => o.free = t0 ∧ o.commit = a.commit ∧ o.peak = a.peak ∧ o.upd = a.upd
  | .T1 _ id q => oOut size cfg o id (a.ctOf id) = some (q.time, afterWait cfg a.commit a.peak)

/-- the oracle has accepted the history and is in the state the configuration stands for -/
structure OInv (arrivals : List ℚ) (a : A) (now : ℚ) (hist : List (HEv ℚ)) (o : OSt ℚ) : Prop where
  run : orun size cfg (oInit cfg) hist = some o
  wq : o.waiting = waitingOf a
  ph : PhO size cfg a o a.run
  fut : obsPuts hist ++ srcFuture now a.src = arrivalsFrom 0 0 arrivals

variable {size cfg}

theorem orun_append (o : OSt ℚ) (l1 l2 : List (HEv ℚ)) :
    orun size cfg o (l1 ++ l2) = (orun size cfg o l1).bind fun o' => orun size cfg o' l2 := by
  induction l1 generalizing o with
  | nil => rfl
  | cons x r ih =>
    simp only [List.cons_append, orun]
    cases ostep size cfg o x with
    | none => rfl
    | some o' => simp [ih]

theorem obsPuts_append (l1 l2 : List (HEv ℚ)) : obsPuts (l1 ++ l2) = obsPuts l1 ++ obsPuts l2 := by
  induction l1 with
  | nil => rfl
  | cons x r ih => cases x <;> simp [obsPuts, ih]

theorem eqT_iff (x y : ℚ) : eqT x y ↔ x = y := by
  unfold eqT
  constructor
  · intro h; exact le_antisymm (not_lt.mp h.2) (not_lt.mp h.1)
  · rintro rfl; exact ⟨lt_irrefl _, lt_irrefl _⟩

theorem srcFuture_srcNext (t : ℚ) (eid ev next : Nat) (arr : List ℚ) (now : ℚ) :
    srcFuture now (srcNext t eid ev next arr) = arrivalsFrom t next arr := by
  cases arr with
  | nil => rfl
  | cons x r => rfl

variable {arrivals : List ℚ} {a : A} {now : ℚ} {q : QEntry ℚ} {hist : List (HEv ℚ)} {o : OSt ℚ}

/-- **letting the clock advance to the next entry changes nothing** -/
theorem OInv.advance (hi : AInv cfg a now) (hq : IsMin a q) (ho : OInv size cfg arrivals a now hist o) :
    OInv size cfg arrivals a q.time hist o := by
  rcases eq_or_lt_of_le (hi.now_le hq) with h | h
  · rw [← h]; exact ho
  have hne : ∀ x ∈ a.entries, x.time ≠ now := fun x hx hxt => absurd (hi.time_eq hq hx hxt) (ne_of_gt h)
  refine ⟨ho.run, ho.wq, ho.ph, ?_⟩
  have hs := hi.src
  cases hsrc : a.src with
  | init q0 arr => rw [hsrc] at hs; exact absurd hs.1 (hne q0 (mem_src (by simp [hsrc, SPhase.entries])))
  | wait id rest q0 => have := ho.fut; rw [hsrc] at this; exact this
  | ending q0 => have := ho.fut; rw [hsrc] at this; exact this
  | done => have := ho.fut; rw [hsrc] at this; exact this

/-- what the rule prescribes when `run` has just taken packet `id` at `now = max(free, put instant)` -/
theorem oOut_at (ho : o.commit = a.commit ∧ o.peak = a.peak ∧ o.upd = a.upd) {id : Int} {t0 : ℚ} (hf : o.free = t0)
    (hnow : max t0 (a.ctOf id) = q.time) :
    oOut size cfg o id (a.ctOf id) =
      match verdictA size cfg a q.time id with
      | .ok (.wait dt cm pk) => some (q.time + dt, afterWait cfg cm pk)
      | .ok (.emit col cm pk) => some (q.time, col, cm, pk)
      | .error _ => none := by
  unfold oOut verdictA
  simp only [hf, Num.pymax_eq, hnow, ho.1, ho.2.1, ho.2.2]
  generalize verdict cfg a.commit a.peak a.upd q.time (pktOf size id) = v
  cases v with
  | error x => rfl
  | ok d => cases d <;> rfl

variable {n e : Nat}

/-- the oracle accepts the departure of the head packet at the prescribed instant with the prescribed colour -/
theorem ostep_out {id : Int} {tp t : ℚ} {col : Nat} {rest : List (Int × ℚ)} {r : ℚ × Nat × ℚ × Option ℚ}
    (hw : o.waiting = (id, tp) :: rest) (hr : oOut size cfg o id tp = some r) (ht : t = r.1) (hc : col = r.2.1) :
    ostep size cfg o (.out id col t) =
      some { waiting := rest, commit := r.2.2.1, peak := r.2.2.2, upd := t, free := t } := by
  simp [ostep, hw, hr, (eqT_iff _ _).mpr ht, hc]

/-- **every configuration step keeps the oracle's invariant**: the observations of the step are accepted -/
theorem oinv_step {a' : A} {new : List (HEv ℚ)} (hi : AInv cfg a q.time)
    (ho : OInv size cfg arrivals a q.time hist o) (hs : AStep size cfg n e a q a' new) :
    ∃ o', OInv size cfg arrivals a' q.time (hist ++ new) o' := by
  have hrun := hi.run
  have hph := ho.ph
  have hwq := ho.wq
  cases hs with
  | runInit h =>
    rw [h] at hph
    refine ⟨o, by simpa using ho.run, ?_, hph, by simpa using ho.fut⟩
    rw [hwq]; simp [waitingOf, RPhase.held, h, A.ctOf]
  | serveWait g id t0 dt cm pk h hdec =>
    rw [h] at hph hrun
    refine ⟨o, by simpa using ho.run, ?_, ?_, by simpa using ho.fut⟩
    · rw [hwq]; simp [waitingOf, RPhase.held, h, A.ctOf]
    · show oOut size cfg o id (a.ctOf id) = _
      rw [oOut_at hph.2 hph.1 hrun.2.2.1, hdec]
  | serveOutMiss g id t0 cm col pk h hdec hit =>
    rw [h] at hph hrun
    have hout := oOut_at (size := size) (cfg := cfg) hph.2 hph.1 hrun.2.2.1
    rw [hdec] at hout
    have hw : o.waiting = (id, a.ctOf id) :: [] := by rw [hwq]; simp [waitingOf, RPhase.held, h, hit]
    refine ⟨{ waiting := [], commit := cm, peak := pk, upd := q.time, free := q.time },
      ?_, ?_, ?_, by simpa [obsPuts_append, obsPuts] using ho.fut⟩
    · rw [orun_append, ho.run]
      simp only [Option.bind_some, orun]
      rw [ostep_out hw hout rfl rfl]
      rfl
    · simp [waitingOf, RPhase.held, hit]
    · exact ⟨rfl, rfl, rfl, rfl⟩
  | serveOutHit g id t0 cm col pk i is h hdec hit =>
    rw [h] at hph hrun
    have hout := oOut_at (size := size) (cfg := cfg) hph.2 hph.1 hrun.2.2.1
    rw [hdec] at hout
    have hw : o.waiting = (id, a.ctOf id) :: (i :: is).map (fun j => (j, a.ctOf j)) := by
      rw [hwq]; simp [waitingOf, RPhase.held, h, hit]
    refine ⟨{ waiting := (i :: is).map (fun j => (j, a.ctOf j)), commit := cm, peak := pk, upd := q.time,
              free := q.time }, ?_, ?_, ?_, by simpa [obsPuts_append, obsPuts] using ho.fut⟩
    · rw [orun_append, ho.run]
      simp only [Option.bind_some, orun]
      rw [ostep_out hw hout rfl rfl]
      rfl
    · simp [waitingOf, RPhase.held, A.ctOf]
    · exact ⟨rfl, rfl, rfl, rfl⟩
  | tokOutMiss t id h hit =>
    rw [h] at hph
    have hw : o.waiting = (id, a.ctOf id) :: [] := by rw [hwq]; simp [waitingOf, RPhase.held, h, hit]
    refine ⟨{ waiting := [], commit := (afterWait cfg a.commit a.peak).2.1, peak := (afterWait cfg a.commit a.peak).2.2,
              upd := q.time, free := q.time }, ?_, ?_, ?_, by simpa [obsPuts_append, obsPuts] using ho.fut⟩
    · rw [orun_append, ho.run]
      simp only [Option.bind_some, orun]
      rw [ostep_out hw hph rfl rfl]
      rfl
    · simp [waitingOf, RPhase.held, hit]
    · exact ⟨rfl, rfl, rfl, rfl⟩
  | tokOutHit t id i is h hit =>
    rw [h] at hph
    have hw : o.waiting = (id, a.ctOf id) :: (i :: is).map (fun j => (j, a.ctOf j)) := by
      rw [hwq]; simp [waitingOf, RPhase.held, h, hit]
    refine ⟨{ waiting := (i :: is).map (fun j => (j, a.ctOf j)), commit := (afterWait cfg a.commit a.peak).2.1,
              peak := (afterWait cfg a.commit a.peak).2.2, upd := q.time, free := q.time }, ?_, ?_, ?_,
      by simpa [obsPuts_append, obsPuts] using ho.fut⟩
    · rw [orun_append, ho.run]
      simp only [Option.bind_some, orun]
      rw [ostep_out hw hph rfl rfl]
      rfl
    · simp [waitingOf, RPhase.held, A.ctOf]
    · exact ⟨rfl, rfl, rfl, rfl⟩
  | srcInit arr h =>
    refine ⟨o, by simpa using ho.run, hwq, hph, ?_⟩
    have := ho.fut
    rw [h] at this
    simp only [List.append_nil, srcFuture_srcNext]
    simpa [srcFuture] using this
  | srcPut next arr h =>
    have hs := hi.src
    rw [h] at hs
    obtain ⟨-, -, hnext⟩ := hs
    have hct : ∀ id : Int, id.toNat < a.cts.length → (a.cts ++ [q.time]).getD id.toNat 0 = a.cts.getD id.toNat 0 := by
      intro id hid
      simp only [List.getD_eq_getElem?_getD, List.getElem?_append_left hid]
    have hnew : (a.cts ++ [q.time]).getD (next : Int).toNat 0 = q.time := by
      simp [hnext, List.getD_eq_getElem?_getD]
    have hheld : ∀ id, a.run.held = some id → id.toNat < a.cts.length := by
      intro id hid
      cases hr : a.run with
      | init q0 => simp [hr, RPhase.held] at hid
      | W g t0 => simp [hr, RPhase.held] at hid
      | H g id0 q0 t0 => rw [hr] at hrun hid; simp only [RPhase.held, Option.some.injEq] at hid; subst hid; exact hrun.2.2.2.2
      | T1 t id0 q0 => rw [hr] at hrun hid; simp only [RPhase.held, Option.some.injEq] at hid; subst hid; exact hrun.2.2
    refine ⟨{ o with waiting := o.waiting ++ [((next : Int), q.time)] }, ?_, ?_, ?_, ?_⟩
    · rw [orun_append, ho.run]; rfl
    · show o.waiting ++ [((next : Int), q.time)] = _
      rw [hwq]
      simp only [waitingOf, A.ctOf, List.map_append, List.map_cons, List.map_nil, List.append_assoc]
      congr 1
      · cases hh : a.run.held with
        | none => rfl
        | some id => simp only; rw [hct id (hheld id hh)]
      · congr 1
        · apply List.map_congr_left
          intro i hi'
          rw [hct i (hi.its i hi').2.1]
        · rw [hnew]
    · cases hr : a.run with
      | init q0 => rw [hr] at hph; exact hph
      | W g t0 => rw [hr] at hph; exact hph
      | H g id q0 t0 => rw [hr] at hph; exact hph
      | T1 t id q0 =>
        rw [hr] at hph hrun
        show oOut size cfg _ id ((a.cts ++ [q.time]).getD id.toNat 0) = _
        rw [hct id hrun.2.2]; exact hph
    · rw [obsPuts_append]
      show _ ++ srcFuture q.time (srcNext q.time (e + 1) (n + 1) (next + 1) arr) = _
      rw [srcFuture_srcNext]
      have := ho.fut
      rw [h] at this
      simp only [srcFuture] at this
      simp only [obsPuts, List.append_assoc, List.cons_append, List.nil_append]
      exact this
  | srcEnd h =>
    refine ⟨o, by simpa using ho.run, hwq, hph, ?_⟩
    have := ho.fut
    rw [h] at this
    simpa [srcFuture] using this
  | pendNoop l1 l2 hpe hno => exact ⟨o, by simpa using ho.run, hwq, hph, by simpa using ho.fut⟩
  | pendHand g t0 i is l1 l2 hpe h hit =>
    rw [h] at hph
    refine ⟨o, by simpa using ho.run, ?_, hph, by simpa using ho.fut⟩
    rw [hwq]; simp [waitingOf, RPhase.held, h, hit, A.ctOf]

end TRK
