import OnlVerif.Kernel.Step
/-!
# Splitting a run into `step()` calls (C03, stage 1)

`stepN n` = `n` successive calls of `Environment.step`, stopping at the first call that does not return normally
(`StopSimulation`, an exception, `EmptySchedule`).  Budgets add up: `n + m` calls are `n` calls followed by `m` calls
from the state reached.  The observation trace is a field of the state, so equality of states is equality of traces.
Core Lean only; every lemma holds for every scalar type.
-/

variable {τ σ : Type} [Num τ]

/-- `n` calls of `step()`; the first result that is not a normal return ends the sequence and is the result -/
def stepN (body : σ → Resume → Burst τ σ) (fuel : Nat) : Nat → KState τ σ → StepResult τ σ
  | 0, s => .ok s
  | n + 1, s =>
    match step body fuel s with
    | .ok s' => stepN body fuel n s'
    | r => r

/-- continue a sequence of `step()` calls: only a normal return is continued -/
def StepResult.andThen (r : StepResult τ σ) (f : KState τ σ → StepResult τ σ) : StepResult τ σ :=
  match r with
  | .ok s => f s
  | r => r

/-- continue a `run` whose step budget ran out -/
def RunResult.andThen (r : RunResult τ σ) (f : KState τ σ → RunResult τ σ) : RunResult τ σ :=
  match r with
  | .outOfFuel s => f s
  | r => r

theorem stepN_zero (body : σ → Resume → Burst τ σ) (fuel : Nat) (s : KState τ σ) : stepN body fuel 0 s = .ok s := rfl

theorem stepN_succ (body : σ → Resume → Burst τ σ) (fuel n : Nat) (s : KState τ σ) :
    stepN body fuel (n + 1) s = (step body fuel s).andThen (stepN body fuel n) := by
  rw [stepN]
  unfold StepResult.andThen
  cases step body fuel s <;> rfl

theorem stepN_one (body : σ → Resume → Burst τ σ) (fuel : Nat) (s : KState τ σ) :
    stepN body fuel 1 s = step body fuel s := by
  rw [stepN_succ]
  unfold StepResult.andThen
  cases step body fuel s <;> rfl

/-- `n + m` calls of `step()` are `n` calls followed by `m` calls -/
theorem stepN_add (body : σ → Resume → Burst τ σ) (fuel n m : Nat) (s : KState τ σ) :
    stepN body fuel (n + m) s = (stepN body fuel n s).andThen (stepN body fuel m) := by
  induction n generalizing s with
  | zero => rw [Nat.zero_add]; rfl
  | succ n ih =>
    rw [Nat.add_right_comm, stepN_succ, stepN_succ]
    cases h : step body fuel s with
    | ok s' => exact ih s'
    | stopped o s' => rfl
    | empty => rfl
    | crash x s' => rfl

theorem stepN_add_ok (body : σ → Resume → Burst τ σ) (fuel n m : Nat) (s s' : KState τ σ)
    (h : stepN body fuel n s = .ok s') : stepN body fuel (n + m) s = stepN body fuel m s' := by
  rw [stepN_add, h]; rfl

/-- one more call after `n` normal ones -/
theorem stepN_succ_last (body : σ → Resume → Burst τ σ) (fuel n : Nat) (s s' : KState τ σ)
    (h : stepN body fuel n s = .ok s') : stepN body fuel (n + 1) s = step body fuel s' := by
  rw [stepN_add_ok body fuel n 1 s s' h, stepN_one]

/-- if `n + m` calls all returned normally, so did the first `n` -/
theorem stepN_ok_prefix (body : σ → Resume → Burst τ σ) (fuel n m : Nat) (s s' : KState τ σ)
    (h : stepN body fuel (n + m) s = .ok s') : ∃ s1, stepN body fuel n s = .ok s1 ∧ stepN body fuel m s1 = .ok s' := by
  rw [stepN_add] at h
  cases h1 : stepN body fuel n s with
  | ok s1 => rw [h1] at h; exact ⟨s1, rfl, h⟩
  | stopped o s1 => rw [h1] at h; cases h
  | empty => rw [h1] at h; cases h
  | crash x s1 => rw [h1] at h; cases h

omit [Num τ] in
theorem onStop_ne_outOfFuel (u : Option EvId) (o : Outcome) (s s' : KState τ σ) : onStop u o s ≠ .outOfFuel s' := by
  unfold onStop
  intro h
  split at h
  · cases h
  · split at h <;> cases h

omit [Num τ] in
theorem onStop_andThen (u : Option EvId) (o : Outcome) (s : KState τ σ) (f : KState τ σ → RunResult τ σ) :
    (onStop u o s).andThen f = onStop u o s := by
  unfold onStop
  split
  · rfl
  · split <;> rfl

/-- the loop of `run` with budget `n + m` is the loop with budget `n`, continued with budget `m` if it ran out -/
theorem runLoop_add (body : σ → Resume → Burst τ σ) (fuel : Nat) (u : Option EvId) (n m : Nat) (s : KState τ σ) :
    runLoop body fuel u (n + m) s = (runLoop body fuel u n s).andThen (runLoop body fuel u m) := by
  induction n generalizing s with
  | zero => rw [Nat.zero_add]; rfl
  | succ n ih =>
    rw [Nat.add_right_comm]
    simp only [runLoop]
    cases h : step body fuel s with
    | ok s' => exact ih s'
    | stopped o s' => exact (onStop_andThen u o s' _).symm
    | empty => simp only; split <;> rfl
    | crash x s' => rfl

/-- a loop that ran out of budget did exactly `n` normal steps -/
theorem runLoop_outOfFuel_iff (body : σ → Resume → Burst τ σ) (fuel : Nat) (u : Option EvId) (n : Nat)
    (s s' : KState τ σ) : runLoop body fuel u n s = .outOfFuel s' ↔ stepN body fuel n s = .ok s' := by
  induction n generalizing s with
  | zero =>
    simp only [runLoop, stepN]
    constructor <;> intro h <;> cases h <;> rfl
  | succ n ih =>
    simp only [runLoop, stepN]
    cases h : step body fuel s with
    | ok s1 => exact ih s1
    | stopped o s1 =>
      simp only
      constructor
      · intro h2; exact absurd h2 (onStop_ne_outOfFuel u o s1 s')
      · intro h2; cases h2
    | empty =>
      simp only
      constructor
      · intro h2; split at h2 <;> cases h2
      · intro h2; cases h2
    | crash x s1 =>
      simp only
      constructor <;> intro h2 <;> cases h2

/-- after `k` normal steps the loop of `run` goes on from the state reached, with the rest of the budget -/
theorem runLoop_of_stepN_ok (body : σ → Resume → Burst τ σ) (fuel : Nat) (u : Option EvId) (k n : Nat)
    (s s' : KState τ σ) (h : stepN body fuel k s = .ok s') :
    runLoop body fuel u (k + n) s = runLoop body fuel u n s' := by
  rw [runLoop_add, (runLoop_outOfFuel_iff body fuel u k s s').mpr h]; rfl

/-- a loop that ended (anything but running out of budget) ended in its `k+1`-st step, for some `k < n`:
`k` normal steps, then a step that stopped, crashed or found the agenda empty -/
theorem runLoop_ended (body : σ → Resume → Burst τ σ) (fuel : Nat) (u : Option EvId) (n : Nat) (s : KState τ σ)
    (h : ∀ s', runLoop body fuel u n s ≠ .outOfFuel s') :
    ∃ k s1, k < n ∧ stepN body fuel k s = .ok s1 ∧ runLoop body fuel u n s = runLoop body fuel u 1 s1 ∧
      (∀ s2, step body fuel s1 ≠ .ok s2) := by
  induction n generalizing s with
  | zero => exact absurd rfl (h s)
  | succ n ih =>
    cases hs : step body fuel s with
    | ok s1 =>
      have h' : ∀ s', runLoop body fuel u n s1 ≠ .outOfFuel s' := by
        intro s' hc; apply h s'; simp only [runLoop, hs]; exact hc
      obtain ⟨k, s2, hk, h1, h2, h3⟩ := ih s1 h'
      refine ⟨k + 1, s2, Nat.succ_lt_succ hk, ?_, ?_, h3⟩
      · rw [Nat.add_comm, stepN_add, stepN_one, hs]; exact h1
      · rw [← h2]; simp only [runLoop, hs]
    | stopped o s1 =>
      refine ⟨0, s, Nat.succ_pos _, rfl, ?_, ?_⟩
      · simp only [runLoop, hs]
      · intro s2 hc; rw [hs] at hc; cases hc
    | empty =>
      refine ⟨0, s, Nat.succ_pos _, rfl, ?_, ?_⟩
      · simp only [runLoop, hs]
      · intro s2 hc; rw [hs] at hc; cases hc
    | crash x s1 =>
      refine ⟨0, s, Nat.succ_pos _, rfl, ?_, ?_⟩
      · simp only [runLoop, hs]
      · intro s2 hc; rw [hs] at hc; cases hc

/-- a whole split plan of `step()` budgets: the calls of the pieces, one piece after the other -/
def stepPlan (body : σ → Resume → Burst τ σ) (fuel : Nat) (plan : List Nat) (s : KState τ σ) : StepResult τ σ :=
  plan.foldl (fun r n => r.andThen (stepN body fuel n)) (.ok s)

theorem andThen_foldl_not_ok (body : σ → Resume → Burst τ σ) (fuel : Nat) (plan : List Nat) (r : StepResult τ σ)
    (h : ∀ s, r ≠ .ok s) : plan.foldl (fun r n => r.andThen (stepN body fuel n)) r = r := by
  induction plan with
  | nil => rfl
  | cons n ns ih =>
    rw [List.foldl_cons]
    have : r.andThen (stepN body fuel n) = r := by
      unfold StepResult.andThen
      cases r with
      | ok s => exact absurd rfl (h s)
      | _ => rfl
    rw [this]; exact ih

/-- any split plan of `step()` budgets is the single sequence of `plan.sum` calls -/
theorem stepPlan_eq (body : σ → Resume → Burst τ σ) (fuel : Nat) (plan : List Nat) (s : KState τ σ) :
    stepPlan body fuel plan s = stepN body fuel plan.sum s := by
  unfold stepPlan
  induction plan generalizing s with
  | nil => rfl
  | cons n ns ih =>
    rw [List.foldl_cons, List.sum_cons, stepN_add]
    have h0 : (StepResult.ok s).andThen (stepN body fuel n) = stepN body fuel n s := rfl
    rw [h0]
    cases h : stepN body fuel n s with
    | ok s1 => exact ih s1
    | stopped o s1 => exact andThen_foldl_not_ok body fuel ns _ (by intro s hc; cases hc)
    | empty => exact andThen_foldl_not_ok body fuel ns _ (by intro s hc; cases hc)
    | crash x s1 => exact andThen_foldl_not_ok body fuel ns _ (by intro s hc; cases hc)
