import OnlVerif.Lemmas.DRRKFrame
/-!
# The DRR scheduler on the kernel model: kernel steps that run `DRR.run`

Each lemma executes `Environment.step` of the kernel model symbolically on a state with configuration `a` whose next
agenda entry belongs to the server (its `Initialize`, the `StoreGet` it waits for, the `Process` event of its sender), and
shows that the resulting state has the configuration the lemma names: the cells `A.burst` computes, and the phase its end
names (a `get` on a per-class store, a transmission, the wait for the wake-up token).
-/

set_option linter.unusedSimpArgs false

namespace DRRK
open DRROnK
open TimerK (lookup plookup afterBurst resume_eq step_eq)

variable {F : Nat} {Q : Nat → ℚ} {flow size : Int → Nat} {rate : ℚ} {ws : List (Nat × Nat)} {P : Nat}
variable {s : KS} {a : A} {q : QEntry ℚ} {rest : List (QEntry ℚ)}

theorem txTime_nonneg (hrate : 0 < rate) (id : Int) : 0 ≤ txTime size rate id := by
  unfold txTime
  rw [Num.ofNat_rat]
  exact div_nonneg (Nat.cast_nonneg _) (le_of_lt hrate)

/-- a resumption starts with the attribute cells of the state before the step -/
theorem burst_shared (s : KS) (q : QEntry ℚ) (rest : List (QEntry ℚ)) (p e : EvId) (r : Resume) (t : ℚ) :
    ((deliverSt (openEvent s q rest) p e).emit (.resumed p r t)).shared = s.shared := by
  unfold deliverSt
  split <;> rfl

theorem burst_trace (s : KS) (q : QEntry ℚ) (rest : List (QEntry ℚ)) (p e : EvId) (r : Resume) (t : ℚ) :
    histOf ((deliverSt (openEvent s q rest) p e).emit (.resumed p r t)).trace = histOf s.trace := by
  have : ((deliverSt (openEvent s q rest) p e).emit (.resumed p r t)).trace = s.trace.push (.resumed p r t) := by
    unfold deliverSt
    split <;> rfl
  rw [this, histOf_push]
  simp

theorem burst_now (s : KS) (q : QEntry ℚ) (rest : List (QEntry ℚ)) (p e : EvId) (r : Resume) (t : ℚ) :
    ((deliverSt (openEvent s q rest) p e).emit (.resumed p r t)).now = q.time := by
  unfold deliverSt
  split <;> rfl

/-! ## a burst changes only the class counters, the credits, `head_of_line` and the ghost -/

structure SameBut (a a' : A) : Prop where
  run : a'.run = a.run
  src : a'.src = a.src
  pend : a'.pend = a.pend
  tokens : a'.tokens = a.tokens
  items : a'.items = a.items
  cnt : a'.cnt = a.cnt
  byt : a'.byt = a.byt
  recv : a'.recv = a.recv
  cur : a'.cur = a.cur
  keys : a'.keys = a.keys

theorem SameBut.rfl' (a : A) : SameBut a a := ⟨rfl, rfl, rfl, rfl, rfl, rfl, rfl, rfl, rfl, rfl⟩

theorem SameBut.trans {a a' a'' : A} (h1 : SameBut a a') (h2 : SameBut a' a'') : SameBut a a'' :=
  ⟨h2.run.trans h1.run, h2.src.trans h1.src, h2.pend.trans h1.pend, h2.tokens.trans h1.tokens, h2.items.trans h1.items,
   h2.cnt.trans h1.cnt, h2.byt.trans h1.byt, h2.recv.trans h1.recv, h2.cur.trans h1.cur, h2.keys.trans h1.keys⟩

theorem sameBut_finA (a : A) (L : LS) (oe : Option LoopEnd) : SameBut a (finA a L oe) :=
  ⟨rfl, rfl, rfl, rfl, rfl, rfl, rfl, rfl, rfl, rfl⟩

theorem sameBut_book (a : A) (c : Nat) (id : Int) : SameBut a (a.book size c id) := by
  unfold A.book
  split <;> exact ⟨rfl, rfl, rfl, rfl, rfl, rfl, rfl, rfl, rfl, rfl⟩

theorem sameBut_burst (a : A) (t : ℚ) (en : Entry) : SameBut a (a.burst F Q size ws P t en).a := by
  cases en with
  | top => exact sameBut_finA _ _ _
  | got m id =>
    simp only [A.burst]
    split
    · split
      · exact SameBut.rfl' a
      · exact ⟨rfl, rfl, rfl, rfl, rfl, rfl, rfl, rfl, rfl, rfl⟩
    · exact SameBut.rfl' a
  | done m id =>
    simp only [A.burst]
    split
    · exact (sameBut_book a _ id).trans (sameBut_finA _ _ _)
    · exact SameBut.rfl' a

/-! ## the ways a burst of `DRR.run` ends -/

set_option hygiene false in
/-- `KInv` of the configuration in which `run` has called `get` on the store of class `c'` and got packet `id'`; `e0` = the
event just processed -/
macro "leaf_get" e0:term : tactic => `(tactic| (
  refine ⟨⟨?_, ?_, ?_, ?_, ?_, ?_, ?_, ?_, ?_, ?_⟩, ?_⟩
  · exact wf_push1 hwf.1 _ rfl rfl rfl rfl (le_refl _)
  · simp only [A.entries, RPhase.entries, List.singleton_append, hsb.src, hsb.pend]
    exact List.Perm.cons _ hrest
  · ksimp [hrsz]
  · ksimp [KState.res, getD_setIfInBounds, RPhase.getQ, htok, hsb.tokens]
  · intro f' hf'
    have := hk.st f' hf'
    simp only [KState.res] at this
    by_cases hff : f' = c'
    · subst hff; ksimp [KState.res, getD_setIfInBounds, hsz]
    · ksimp [KState.res, getD_setIfInBounds, hff, upd_ne, this, hsb.items]
  · refine ⟨rfl, ?_, ?_, ?_⟩
    · ksimp [EvIs, hfl']
    · ksimp
    · ksimp [EvIs, hpk, hpc, hpo, Nat.ne_of_lt h0lt, h0e, Ne.symm h0e]
  · rw [show ({ r.a with run := _, items := _ } : A).src = a.src from hsb.src]
    refine (hk.keep_src_pend [$e0] (by d_evkeep) ?_ ?_).1
    · intro e he; simp only [List.mem_singleton]; rintro rfl; exact he.elim de.1 de.2
    · intro e he
      have : e ≠ 0 := by rintro rfl; exact d0.1 he
      ksimp [this]
  · rw [show ({ r.a with run := _, items := _ } : A).pend = a.pend from hsb.pend]
    refine (hk.keep_src_pend [$e0] (by d_evkeep) ?_ ?_).2
    · intro e he; simp only [List.mem_singleton]; rintro rfl; exact he.elim de.1 de.2
    · intro e he
      have : e ≠ 0 := by rintro rfl; exact d0.1 he
      ksimp [this]
  · have hnd := hk.nd
    simp only [drrids, hph, A.ids, hsb.src, hsb.pend] at hnd ⊢
    grind
  · exact hcells.congr rfl rfl rfl rfl rfl rfl rfl rfl
  · simp [histOf_push, hhist, hb0]))

set_option hygiene false in
/-- `KInv` of the configuration in which `run` has spawned the sender of packet `id'`; `e0` = the event just processed -/
macro "leaf_send" e0:term : tactic => `(tactic| (
  refine ⟨⟨?_, ?_, ?_, ?_, ?_, ?_, ?_, ?_, ?_, ?_⟩, ?_⟩
  · exact wf_push1 hwf.1 _ rfl rfl rfl rfl (le_refl _)
  · simp only [A.entries, RPhase.entries, List.singleton_append, hsb.src, hsb.pend]
    exact List.Perm.cons _ hrest
  · exact hrsz
  · ksimp [KState.res, RPhase.getQ, htok, hsb.tokens]
  · intro f' hf'
    have := hk.st f' hf'
    simp only [KState.res] at this
    ksimp [KState.res, this, hsb.items]
  · refine ⟨rfl, ?_, ?_, ?_, ?_, ?_⟩
    · ksimp [EvIs, hne0]
    · ksimp [hne0]
    · have : s.events.size < s.events.size + 1 + 1 := by omega
      ksimp [EvIs, hne0, this]
    · ksimp [Ne.symm (Nat.ne_of_lt h0lt), hne0]
    · ksimp [EvIs, hpk, hpc, hpo, Nat.ne_of_lt h0lt, h0e, Ne.symm h0e, hne0, TimerK.ne_fresh h0lt]
  · rw [show ({ r.a with run := _, cur := _ } : A).src = a.src from hsb.src]
    refine (hk.keep_src_pend [$e0] (by d_evkeep) ?_ ?_).1
    · intro e he; simp only [List.mem_singleton]; rintro rfl; exact he.elim de.1 de.2
    · intro e he
      have h1 : e ≠ 0 := by rintro rfl; exact d0.1 he
      have h2 : e ≠ s.events.size := Nat.ne_of_lt (hlt.2.2 e (Or.inl he))
      ksimp [h1, h2]
  · rw [show ({ r.a with run := _, cur := _ } : A).pend = a.pend from hsb.pend]
    refine (hk.keep_src_pend [$e0] (by d_evkeep) ?_ ?_).2
    · intro e he; simp only [List.mem_singleton]; rintro rfl; exact he.elim de.1 de.2
    · intro e he
      have h1 : e ≠ 0 := by rintro rfl; exact d0.1 he
      have h2 : e ≠ s.events.size := Nat.ne_of_lt (hlt.2.2 e (Or.inl he))
      ksimp [h1, h2]
  · have hnd := hk.nd
    simp only [drrids, hph, A.ids, hsb.src, hsb.pend] at hnd ⊢
    grind
  · exact (hcells.setCur (some id')).congr rfl rfl rfl rfl rfl rfl rfl rfl
  · simp [histOf_push, hhist]))

set_option hygiene false in
/-- `KInv` of the configuration in which `run` blocks on the empty wake-up store -/
macro "leaf_block" e0:term : tactic => `(tactic| (
  refine ⟨⟨?_, ?_, ?_, ?_, ?_, ?_, ?_, ?_, ?_, ?_⟩, ?_⟩
  · exact wf_same hwf.1 rfl rfl rfl
  · simp only [A.entries, RPhase.entries, List.nil_append, hsb.src, hsb.pend]
    exact hrest
  · ksimp [hrsz]
  · ksimp [KState.res, getD_setIfInBounds, RPhase.getQ, hrsz, htk, hsb.tokens]
  · intro f' hf'
    have := hk.st f' hf'
    simp only [KState.res] at this
    ksimp [KState.res, getD_setIfInBounds, this, hsb.items]
  · refine ⟨?_, ?_, ?_⟩
    · ksimp [EvIs]
    · ksimp
    · ksimp [EvIs, hpk, hpc, hpo, Nat.ne_of_lt h0lt, h0e, Ne.symm h0e]
  · rw [show ({ r.a with run := _ } : A).src = a.src from hsb.src]
    refine (hk.keep_src_pend [$e0] (by d_evkeep) ?_ ?_).1
    · intro e he; simp only [List.mem_singleton]; rintro rfl; exact he.elim de.1 de.2
    · intro e he
      have : e ≠ 0 := by rintro rfl; exact d0.1 he
      ksimp [this]
  · rw [show ({ r.a with run := _ } : A).pend = a.pend from hsb.pend]
    refine (hk.keep_src_pend [$e0] (by d_evkeep) ?_ ?_).2
    · intro e he; simp only [List.mem_singleton]; rintro rfl; exact he.elim de.1 de.2
    · intro e he
      have : e ≠ 0 := by rintro rfl; exact d0.1 he
      ksimp [this]
  · have hnd := hk.nd
    simp only [drrids, hph, A.ids, hsb.src, hsb.pend] at hnd ⊢
    grind
  · exact hcells.congr rfl rfl rfl rfl rfl rfl rfl rfl
  · simp [histOf_push, hhist]))

set_option hygiene false in
/-- `KInv` of the configuration in which `run` has taken a wake-up token -/
macro "leaf_tok" e0:term : tactic => `(tactic| (
  refine ⟨⟨?_, ?_, ?_, ?_, ?_, ?_, ?_, ?_, ?_, ?_⟩, ?_⟩
  · exact wf_push1 hwf.1 _ rfl rfl rfl rfl (le_refl _)
  · simp only [A.entries, RPhase.entries, List.singleton_append, hsb.src, hsb.pend]
    exact List.Perm.cons _ hrest
  · ksimp [hrsz]
  · ksimp [KState.res, getD_setIfInBounds, RPhase.getQ, hrsz]
  · intro f' hf'
    have := hk.st f' hf'
    simp only [KState.res] at this
    ksimp [KState.res, getD_setIfInBounds, this, hsb.items]
  · refine ⟨rfl, ?_, ?_, ?_⟩
    · ksimp [EvIs]
    · ksimp
    · ksimp [EvIs, hpk, hpc, hpo, Nat.ne_of_lt h0lt, h0e, Ne.symm h0e]
  · rw [show ({ r.a with run := _, tokens := _ } : A).src = a.src from hsb.src]
    refine (hk.keep_src_pend [$e0] (by d_evkeep) ?_ ?_).1
    · intro e he; simp only [List.mem_singleton]; rintro rfl; exact he.elim de.1 de.2
    · intro e he
      have : e ≠ 0 := by rintro rfl; exact d0.1 he
      ksimp [this]
  · rw [show ({ r.a with run := _, tokens := _ } : A).pend = a.pend from hsb.pend]
    refine (hk.keep_src_pend [$e0] (by d_evkeep) ?_ ?_).2
    · intro e he; simp only [List.mem_singleton]; rintro rfl; exact he.elim de.1 de.2
    · intro e he
      have : e ≠ 0 := by rintro rfl; exact d0.1 he
      ksimp [this]
  · have hnd := hk.nd
    simp only [drrids, hph, A.ids, hsb.src, hsb.pend] at hnd ⊢
    grind
  · exact hcells.congr rfl rfl rfl rfl rfl rfl rfl rfl
  · simp [histOf_push, hhist]))

/-! ## how a burst starts -/

set_option hygiene false in
/-- the facts every burst of `run` starts from; `en` = its entry, `hen` = a proof of `EntryOK` -/
macro "burst_facts" en:term "," hen:term : tactic => `(tactic| (
  have hsh := burst_shared s q rest 0 q.ev (resumeArg (openEvent s q rest) 0 q.ev) (deliverSt (openEvent s q rest) 0 q.ev).now
  have htr := burst_trace s q rest 0 q.ev (resumeArg (openEvent s q rest) 0 q.ev) (deliverSt (openEvent s q rest) 0 q.ev).now
  have hnw := burst_now s q rest 0 q.ev (resumeArg (openEvent s q rest) 0 q.ev) (deliverSt (openEvent s q rest) 0 q.ev).now
  obtain ⟨sh', tr', hrun, hcells, hhist⟩ := reaches_burst (p := 0) (flow := flow) (size := size) hnw (hsh ▸ hk.cells) htr ws hF hfl P
    $en $hen
  rw [hb] at hrun hcells hhist))

set_option hygiene false in
/-- a burst that starts with the wake-up: `hph : a.run = .K g q` -/
macro "start_K" : tactic => `(tactic| (
  have hsb : SameBut a r.a := hb ▸ sameBut_burst a q.time .top
  have hr := hk.run
  rw [hph] at hr
  obtain ⟨hqe, ⟨hkind, hcbs, hout⟩, hproc0, ⟨hpk, hpc, hpo⟩⟩ := hr
  have hgs : g < s.events.size := KState.lt_of_cbs hcbs
  have hwf := openEvent_wf s q rest hk.wf hp
  have hlt := hk.idlt
  have htok := hk.tok
  have hrsz := hk.rsz
  rw [hph] at htok
  simp only [KState.res, RPhase.getQ] at htok
  rw [step_eq _ _ _ _ _ _ hp (hqe ▸ hcbs)]
  simp only [List.foldl, runCb]
  rw [triggerPut_none (openEvent s q rest) 0 [] _ htok]
  rw [resume_eq _ _ _ _ _ _ (show (openEvent s q rest).proc? 0 = _ from hproc0)]
  simp only [body]
  burst_facts .top, trivial
  rw [show DRROnK.passes F flow size ws P = entryProg F flow size ws P .top from rfl, hrun, hfin]
  simp only [KState.ev] at hkind hcbs hout hpk hpc hpo
  obtain ⟨nrun, nsrc, npend, drun, dsrc⟩ := (ids_nodup_iff a).mp hk.nd
  simp only [hph, drrids] at nrun drun hlt
  obtain ⟨d0, de⟩ := drun
  have h0e : ¬ 0 = g := nrun
  have h0lt := hlt.1))

set_option hygiene false in
/-- a burst that starts after a transmission: `hph : a.run = .F p m id q`, `hws : ws.drop m = (flow id, w) :: wrest` -/
macro "start_F" : tactic => `(tactic| (
  have hsb : SameBut a r.a := hb ▸ sameBut_burst a q.time (.done m id)
  have hr := hk.run
  rw [hph] at hr
  obtain ⟨hqe, ⟨hkind, hcbs, hout⟩, hproc0, ⟨hpk, hpc, hpo⟩⟩ := hr
  have hgs : p < s.events.size := KState.lt_of_cbs hcbs
  have hwf := openEvent_wf s q rest hk.wf hp
  have hlt := hk.idlt
  have htok := hk.tok
  have hrsz := hk.rsz
  rw [hph] at htok
  simp only [KState.res, RPhase.getQ] at htok
  rw [step_eq _ _ _ _ _ _ hp (hqe ▸ hcbs)]
  simp only [List.foldl, runCb]
  rw [resume_eq _ _ _ _ _ _ (show (openEvent s q rest).proc? 0 = _ from hproc0)]
  simp only [body]
  burst_facts (.done m id), ⟨w, wrest, hws⟩
  rw [show resumeDone F flow size ws P m id = entryProg F flow size ws P (.done m id) from rfl, hrun, hfin]
  simp only [KState.ev] at hkind hcbs hout hpk hpc hpo
  obtain ⟨nrun, nsrc, npend, drun, dsrc⟩ := (ids_nodup_iff a).mp hk.nd
  simp only [hph, drrids] at nrun drun hlt
  obtain ⟨d0, de⟩ := drun
  have h0e : ¬ 0 = p := nrun
  have h0lt := hlt.1))

set_option hygiene false in
/-- a burst that starts with a packet from a store: `hph : a.run = .H g m id q`, `hws : ws.drop m = (flow id, w) :: wrest`,
`hhol : a.hol (flow id) = none`, `hfid : flow id < F` -/
macro "start_H" : tactic => `(tactic| (
  have hsb : SameBut a r.a := hb ▸ sameBut_burst a q.time (.got m id)
  have hr := hk.run
  rw [hph] at hr
  obtain ⟨hqe, ⟨hkind, hcbs, hout⟩, hproc0, ⟨hpk, hpc, hpo⟩⟩ := hr
  have hgs : g < s.events.size := KState.lt_of_cbs hcbs
  have hwf := openEvent_wf s q rest hk.wf hp
  have hlt := hk.idlt
  have htok := hk.tok
  have hrsz := hk.rsz
  have hst0 := hk.st (flow id) hfid
  rw [hph] at htok
  simp only [KState.res, RPhase.getQ] at htok hst0
  rw [step_eq _ _ _ _ _ _ hp (hqe ▸ hcbs)]
  simp only [List.foldl, runCb]
  rw [triggerPut_none (openEvent s q rest) (flowStore (flow id)) [] _ hst0]
  rw [resume_eq _ _ _ _ _ _ (show (openEvent s q rest).proc? 0 = _ from hproc0)]
  simp only [KState.ev] at hkind hcbs hout hpk hpc hpo
  have hra : resumeArg (openEvent s q rest) 0 q.ev = .value (.int id) := by
    ksimp [hqe, hgs, hkind, hcbs, hout]
  simp only [body]
  burst_facts (.got m id), ⟨w, wrest, hws, hhol⟩
  rw [hra] at hrun ⊢
  simp only [body]
  rw [show resumeGot F flow size ws P m id = entryProg F flow size ws P (.got m id) from rfl, hrun, hfin]
  obtain ⟨nrun, nsrc, npend, drun, dsrc⟩ := (ids_nodup_iff a).mp hk.nd
  simp only [hph, drrids] at nrun drun hlt
  obtain ⟨d0, de⟩ := drun
  have h0e : ¬ 0 = g := nrun
  have h0lt := hlt.1))

/-! ## the wake-up: the `StoreGet` on the wake-up store is processed -/

/-- `run` is woken, finds packets, and calls `get` on the store of a backlogged class -/
theorem kstep_wakeGet (fuel : Nat) (hk : KInv flow F Q s a) {g : EvId} (hph : a.run = .K g q)
    (hF : ∀ e ∈ ws, e.1 < F) (hfl : ∀ e ∈ ws, ∀ id, a.hol e.1 = some id → flow id = e.1)
    {r : BurstRes} (hb : a.burst F Q size ws P q.time .top = r) {m' c' : Nat} (hfin : r.fin = .get m' c') (hc' : c' < F)
    {id' : Int} {is : List Int} (hit : a.items c' = id' :: is) (hfl' : flow id' = c')
    (hp : popMin s.agenda = some (q, rest)) (hrest : rest.Perm (a.src.entries ++ pendEntries a.pend)) :
    ∃ s', step (body F flow size rate ws P) (fuel + 1) s = .ok s' ∧
      KInv flow F Q s' { r.a with run := .H s.events.size m' id' ⟨q.time, NORMAL, s.eid, s.events.size⟩,
                                  items := upd r.a.items c' is } ∧
      s'.now = q.time ∧ histOf s'.trace = histOf s.trace ++ r.evs := by
  start_K
  have hst := hk.st c' hc'
  simp only [KState.res] at hst
  have hsz : flowStore c' < s.resources.size := by rw [hrsz]; unfold flowStore; omega
  ksimp [hqe, hgs, hkind, hcbs, hout, Nat.ne_of_lt hgs, doCall_sget_hit (r := flowStore c') (i := id') (is := is), hst, hit, hsz]
  have hb0 : True := trivial
  leaf_get g

/-- `run` is woken by a stale token, finds `total_packets == 0` and blocks again -/
theorem kstep_wakeBlock (fuel : Nat) (hk : KInv flow F Q s a) {g : EvId} (hph : a.run = .K g q)
    (hF : ∀ e ∈ ws, e.1 < F) (hfl : ∀ e ∈ ws, ∀ id, a.hol e.1 = some id → flow id = e.1)
    {r : BurstRes} (hb : a.burst F Q size ws P q.time .top = r) (hfin : r.fin = .idle) (htk : a.tokens = 0)
    (hp : popMin s.agenda = some (q, rest)) (hrest : rest.Perm (a.src.entries ++ pendEntries a.pend)) :
    ∃ s', step (body F flow size rate ws P) (fuel + 1) s = .ok s' ∧
      KInv flow F Q s' { r.a with run := .W s.events.size } ∧
      s'.now = q.time ∧ histOf s'.trace = histOf s.trace ++ r.evs ++ [.idle q.time] := by
  start_K
  rw [htk] at htok
  simp only [List.replicate] at htok
  have hsz : 0 < s.resources.size := by rw [hrsz]; omega
  ksimp [hqe, hgs, hkind, hcbs, hout, Nat.ne_of_lt hgs, doCall_sget_miss (r := 0), htok, hsz]
  leaf_block g

/-- `run` is woken by a stale token, finds `total_packets == 0` and takes the next token -/
theorem kstep_wakeTok (fuel : Nat) (hk : KInv flow F Q s a) {g : EvId} (hph : a.run = .K g q) {t : Nat}
    (hF : ∀ e ∈ ws, e.1 < F) (hfl : ∀ e ∈ ws, ∀ id, a.hol e.1 = some id → flow id = e.1)
    {r : BurstRes} (hb : a.burst F Q size ws P q.time .top = r) (hfin : r.fin = .idle) (htk : a.tokens = t + 1)
    (hp : popMin s.agenda = some (q, rest)) (hrest : rest.Perm (a.src.entries ++ pendEntries a.pend)) :
    ∃ s', step (body F flow size rate ws P) (fuel + 1) s = .ok s' ∧
      KInv flow F Q s' { r.a with run := .K s.events.size ⟨q.time, NORMAL, s.eid, s.events.size⟩, tokens := t } ∧
      s'.now = q.time ∧ histOf s'.trace = histOf s.trace ++ r.evs ++ [.idle q.time] := by
  start_K
  rw [htk] at htok
  simp only [List.replicate] at htok
  have hsz : 0 < s.resources.size := by rw [hrsz]; omega
  ksimp [hqe, hgs, hkind, hcbs, hout, Nat.ne_of_lt hgs, doCall_sget_hit (r := 0) (i := 1) (is := List.replicate t 1), htok, hsz]
  leaf_tok g

/-! ## the start of `run` -/

/-- the `Initialize` event of `run`: every counter is 0, it blocks on the wake-up store -/
theorem kstep_runInit (fuel : Nat) (hk : KInv flow F Q s a) (hph : a.run = .init q)
    (hF : ∀ e ∈ ws, e.1 < F) (hfl : ∀ e ∈ ws, ∀ id, a.hol e.1 = some id → flow id = e.1)
    {r : BurstRes} (hb : a.burst F Q size ws P q.time .top = r) (hfin : r.fin = .idle) (htk : a.tokens = 0)
    (hp : popMin s.agenda = some (q, rest)) (hrest : rest.Perm (a.src.entries ++ pendEntries a.pend)) :
    ∃ s', step (body F flow size rate ws P) (fuel + 1) s = .ok s' ∧
      KInv flow F Q s' { r.a with run := .W s.events.size } ∧
      s'.now = q.time ∧ histOf s'.trace = histOf s.trace ++ r.evs ++ [.idle q.time] := by
  have hsb : SameBut a r.a := hb ▸ sameBut_burst a q.time .top
  have hr := hk.run
  rw [hph] at hr
  obtain ⟨hqe, ⟨hkind, hcbs, hout⟩, hproc0, ⟨hpk, hpc, hpo⟩⟩ := hr
  have hgs : 1 < s.events.size := KState.lt_of_cbs hcbs
  have hwf := openEvent_wf s q rest hk.wf hp
  have hlt := hk.idlt
  have htok := hk.tok
  have hrsz := hk.rsz
  rw [hph, htk] at htok
  simp only [KState.res, RPhase.getQ, List.replicate] at htok
  rw [step_eq _ _ _ _ _ _ hp (hqe ▸ hcbs)]
  simp only [List.foldl, runCb]
  rw [resume_eq _ _ _ _ _ _ (show (openEvent s q rest).proc? 0 = _ from hproc0)]
  simp only [body]
  burst_facts .top, trivial
  rw [show DRROnK.passes F flow size ws P = entryProg F flow size ws P .top from rfl, hrun, hfin]
  simp only [KState.ev] at hkind hcbs hout hpk hpc hpo
  obtain ⟨nrun, nsrc, npend, drun, dsrc⟩ := (ids_nodup_iff a).mp hk.nd
  simp only [hph, drrids] at nrun drun hlt
  obtain ⟨d0, de⟩ := drun
  have h0e : ¬ 0 = 1 := by decide
  have h0lt := hlt.1
  have hsz : 0 < s.resources.size := by rw [hrsz]; omega
  ksimp [hqe, hgs, hkind, hcbs, hout, Nat.ne_of_lt hgs, doCall_sget_miss (r := 0), htok, hsz]
  leaf_block 1

/-! ## the packet: the `StoreGet` on a per-class store is processed -/

/-- `run` has the packet: it is sent (or parked, and the parked head of a later class is sent) -/
theorem kstep_gotSend (fuel : Nat) (hk : KInv flow F Q s a) {g : EvId} {m : Nat} {id : Int} (hph : a.run = .H g m id q)
    (hF : ∀ e ∈ ws, e.1 < F) (hfl : ∀ e ∈ ws, ∀ id, a.hol e.1 = some id → flow id = e.1)
    {w : Nat} {wrest : List (Nat × Nat)} (hws : ws.drop m = (flow id, w) :: wrest) (hhol : a.hol (flow id) = none)
    (hfid : flow id < F)
    {r : BurstRes} (hb : a.burst F Q size ws P q.time (.got m id) = r) {m' c' : Nat} {id' : Int} {pk : Bool}
    (hfin : r.fin = .send m' c' id' pk)
    (hp : popMin s.agenda = some (q, rest)) (hrest : rest.Perm (a.src.entries ++ pendEntries a.pend)) :
    ∃ s', step (body F flow size rate ws P) (fuel + 1) s = .ok s' ∧
      KInv flow F Q s' { r.a with run := .S s.events.size m' id' ⟨q.time, URGENT, s.eid, s.events.size + 1⟩, cur := some id' } ∧
      s'.now = q.time ∧ histOf s'.trace = histOf s.trace ++ r.evs ++ [.serve id' q.time] := by
  start_H
  have hne0 : ¬ s.events = #[] := by intro h; rw [h] at h0lt; simp at h0lt
  ksimp [hqe, hgs, hkind, hcbs, hout, Nat.ne_of_lt hgs, TimerK.ne_fresh hgs, TimerK.ne_fresh h0lt]
  leaf_send g

/-- `run` has the packet: it is parked, and `run` calls `get` on the store of a later class -/
theorem kstep_gotGet (fuel : Nat) (hk : KInv flow F Q s a) {g : EvId} {m : Nat} {id : Int} (hph : a.run = .H g m id q)
    (hF : ∀ e ∈ ws, e.1 < F) (hfl : ∀ e ∈ ws, ∀ id, a.hol e.1 = some id → flow id = e.1)
    {w : Nat} {wrest : List (Nat × Nat)} (hws : ws.drop m = (flow id, w) :: wrest) (hhol : a.hol (flow id) = none)
    (hfid : flow id < F)
    {r : BurstRes} (hb : a.burst F Q size ws P q.time (.got m id) = r) {m' c' : Nat} (hfin : r.fin = .get m' c') (hc' : c' < F)
    {id' : Int} {is : List Int} (hit : a.items c' = id' :: is) (hfl' : flow id' = c')
    (hp : popMin s.agenda = some (q, rest)) (hrest : rest.Perm (a.src.entries ++ pendEntries a.pend)) :
    ∃ s', step (body F flow size rate ws P) (fuel + 1) s = .ok s' ∧
      KInv flow F Q s' { r.a with run := .H s.events.size m' id' ⟨q.time, NORMAL, s.eid, s.events.size⟩,
                                  items := upd r.a.items c' is } ∧
      s'.now = q.time ∧ histOf s'.trace = histOf s.trace ++ r.evs := by
  start_H
  have hst := hk.st c' hc'
  simp only [KState.res] at hst
  have hsz : flowStore c' < s.resources.size := by rw [hrsz]; unfold flowStore; omega
  ksimp [hqe, hgs, hkind, hcbs, hout, Nat.ne_of_lt hgs, doCall_sget_hit (r := flowStore c') (i := id') (is := is), hst, hit, hsz]
  have hb0 : True := trivial
  leaf_get g

/-! ## the end of a transmission: the `Process` event of the sender is processed -/

theorem kstep_doneGet (fuel : Nat) (hk : KInv flow F Q s a) {p : EvId} {m : Nat} {id : Int} (hph : a.run = .F p m id q)
    (hF : ∀ e ∈ ws, e.1 < F) (hfl : ∀ e ∈ ws, ∀ id, a.hol e.1 = some id → flow id = e.1)
    {w : Nat} {wrest : List (Nat × Nat)} (hws : ws.drop m = (flow id, w) :: wrest)
    {r : BurstRes} (hb : a.burst F Q size ws P q.time (.done m id) = r) {m' c' : Nat} (hfin : r.fin = .get m' c') (hc' : c' < F)
    {id' : Int} {is : List Int} (hit : a.items c' = id' :: is) (hfl' : flow id' = c')
    (hp : popMin s.agenda = some (q, rest)) (hrest : rest.Perm (a.src.entries ++ pendEntries a.pend)) :
    ∃ s', step (body F flow size rate ws P) (fuel + 1) s = .ok s' ∧
      KInv flow F Q s' { r.a with run := .H s.events.size m' id' ⟨q.time, NORMAL, s.eid, s.events.size⟩,
                                  items := upd r.a.items c' is } ∧
      s'.now = q.time ∧ histOf s'.trace = histOf s.trace ++ r.evs := by
  start_F
  have hst := hk.st c' hc'
  simp only [KState.res] at hst
  have hsz : flowStore c' < s.resources.size := by rw [hrsz]; unfold flowStore; omega
  ksimp [hqe, hgs, hkind, hcbs, hout, Nat.ne_of_lt hgs, doCall_sget_hit (r := flowStore c') (i := id') (is := is), hst, hit, hsz]
  have hb0 : True := trivial
  leaf_get p

theorem kstep_doneSend (fuel : Nat) (hk : KInv flow F Q s a) {p : EvId} {m : Nat} {id : Int} (hph : a.run = .F p m id q)
    (hF : ∀ e ∈ ws, e.1 < F) (hfl : ∀ e ∈ ws, ∀ id, a.hol e.1 = some id → flow id = e.1)
    {w : Nat} {wrest : List (Nat × Nat)} (hws : ws.drop m = (flow id, w) :: wrest)
    {r : BurstRes} (hb : a.burst F Q size ws P q.time (.done m id) = r) {m' c' : Nat} {id' : Int} {pk : Bool}
    (hfin : r.fin = .send m' c' id' pk)
    (hp : popMin s.agenda = some (q, rest)) (hrest : rest.Perm (a.src.entries ++ pendEntries a.pend)) :
    ∃ s', step (body F flow size rate ws P) (fuel + 1) s = .ok s' ∧
      KInv flow F Q s' { r.a with run := .S s.events.size m' id' ⟨q.time, URGENT, s.eid, s.events.size + 1⟩, cur := some id' } ∧
      s'.now = q.time ∧ histOf s'.trace = histOf s.trace ++ r.evs ++ [.serve id' q.time] := by
  start_F
  have hne0 : ¬ s.events = #[] := by intro h; rw [h] at h0lt; simp at h0lt
  ksimp [hqe, hgs, hkind, hcbs, hout, Nat.ne_of_lt hgs, TimerK.ne_fresh hgs, TimerK.ne_fresh h0lt]
  leaf_send p

theorem kstep_doneBlock (fuel : Nat) (hk : KInv flow F Q s a) {p : EvId} {m : Nat} {id : Int} (hph : a.run = .F p m id q)
    (hF : ∀ e ∈ ws, e.1 < F) (hfl : ∀ e ∈ ws, ∀ id, a.hol e.1 = some id → flow id = e.1)
    {w : Nat} {wrest : List (Nat × Nat)} (hws : ws.drop m = (flow id, w) :: wrest)
    {r : BurstRes} (hb : a.burst F Q size ws P q.time (.done m id) = r) (hfin : r.fin = .idle) (htk : a.tokens = 0)
    (hp : popMin s.agenda = some (q, rest)) (hrest : rest.Perm (a.src.entries ++ pendEntries a.pend)) :
    ∃ s', step (body F flow size rate ws P) (fuel + 1) s = .ok s' ∧
      KInv flow F Q s' { r.a with run := .W s.events.size } ∧
      s'.now = q.time ∧ histOf s'.trace = histOf s.trace ++ r.evs ++ [.idle q.time] := by
  start_F
  rw [htk] at htok
  simp only [List.replicate] at htok
  have hsz : 0 < s.resources.size := by rw [hrsz]; omega
  ksimp [hqe, hgs, hkind, hcbs, hout, Nat.ne_of_lt hgs, doCall_sget_miss (r := 0), htok, hsz]
  leaf_block p

theorem kstep_doneTok (fuel : Nat) (hk : KInv flow F Q s a) {p : EvId} {m : Nat} {id : Int} (hph : a.run = .F p m id q) {t : Nat}
    (hF : ∀ e ∈ ws, e.1 < F) (hfl : ∀ e ∈ ws, ∀ id, a.hol e.1 = some id → flow id = e.1)
    {w : Nat} {wrest : List (Nat × Nat)} (hws : ws.drop m = (flow id, w) :: wrest)
    {r : BurstRes} (hb : a.burst F Q size ws P q.time (.done m id) = r) (hfin : r.fin = .idle) (htk : a.tokens = t + 1)
    (hp : popMin s.agenda = some (q, rest)) (hrest : rest.Perm (a.src.entries ++ pendEntries a.pend)) :
    ∃ s', step (body F flow size rate ws P) (fuel + 1) s = .ok s' ∧
      KInv flow F Q s' { r.a with run := .K s.events.size ⟨q.time, NORMAL, s.eid, s.events.size⟩, tokens := t } ∧
      s'.now = q.time ∧ histOf s'.trace = histOf s.trace ++ r.evs ++ [.idle q.time] := by
  start_F
  rw [htk] at htok
  simp only [List.replicate] at htok
  have hsz : 0 < s.resources.size := by rw [hrsz]; omega
  ksimp [hqe, hgs, hkind, hcbs, hout, Nat.ne_of_lt hgs, doCall_sget_hit (r := 0) (i := 1) (is := List.replicate t 1), htok, hsz]
  leaf_tok p

end DRRK
