import OnlVerif.Lemmas.DRRKBasic
/-!
# The DRR scheduler on the kernel model: bursts of `DRR.run`

The attribute cells under `Call.store`; reading attributes; and **the nested loops of `DRR.run` executed by the kernel model
are the function `A.burst`** (`runBurst_burst`): a burst that starts at the top of the loops, with a packet taken from a store,
or after a transmission runs into one of four ends (`endProg`) in a state that differs from the one it started in only by the
attribute cells and the observations `A.burst` computes.
-/

set_option linter.unusedSimpArgs false

namespace DRRK
open DRROnK
open TimerK (lookup plookup afterBurst resume_eq step_eq dec_enc lookup_store)

variable {F : Nat} {Q : Nat → ℚ} {sh : List (Nat × Val)} {a : A}

/-! ## the attribute cells under a `Call.store` -/

set_option hygiene false in
/-- the cells after a store to a cell of class `c`; `h` = the cells before -/
macro "cells_store" : tactic => `(tactic| (
  refine ⟨?_, ?_, ?_, ?_, ?_, ?_, ?_, ?_, ?_⟩ <;> (try intro f hf) <;> rw [TimerK.lookup_store] <;>
    simp only [drrk, if_false, if_true] <;>
    first
      | exact h.c0 | exact h.c1 | exact h.cc f hf | exact h.cb f hf | exact h.cq f hf | exact h.cd f hf | exact h.ch f hf
      | exact h.cu f hf | exact h.cf f hf
      | (by_cases hfc : f = c
         · subst hfc; simp [upd_same, optVal]
         · simp [hfc, upd_ne, h.cc f hf, h.cb f hf, h.cq f hf, h.cd f hf, h.ch f hf, h.cf f hf])
      | simp [optVal]))

theorem Cells.setRecv (h : Cells F Q sh a) (n : Int) :
    Cells F Q ((cRecv, .int n) :: sh.filter (·.1 != cRecv)) { a with recv := n } := by
  cells_store

theorem Cells.setCur (h : Cells F Q sh a) (o : Option Int) :
    Cells F Q ((cCur, optVal o) :: sh.filter (·.1 != cCur)) { a with cur := o } := by
  cells_store

theorem Cells.setCount (h : Cells F Q sh a) (c : Nat) (n : Int) :
    Cells F Q ((cCount c, .int n) :: sh.filter (·.1 != cCount c)) { a with cnt := upd a.cnt c n } := by
  cells_store

theorem Cells.setBytes (h : Cells F Q sh a) (c : Nat) (n : Int) :
    Cells F Q ((cBytes c, .int n) :: sh.filter (·.1 != cBytes c)) { a with byt := upd a.byt c n } := by
  cells_store

theorem Cells.setCls (h : Cells F Q sh a) (c : Nat) (n : Int) :
    Cells F Q ((cCls c, .int n) :: sh.filter (·.1 != cCls c)) { a with ccnt := upd a.ccnt c n } := by
  cells_store

theorem Cells.setDef (h : Cells F Q sh a) (c : Nat) (x : ℚ) :
    Cells F Q ((cDef c, TimeCell.enc x) :: sh.filter (·.1 != cDef c)) { a with dfc := upd a.dfc c x } := by
  cells_store

theorem Cells.setHol (h : Cells F Q sh a) (c : Nat) (o : Option Int) :
    Cells F Q ((cHol c, optVal o) :: sh.filter (·.1 != cHol c)) { a with hol := upd a.hol c o } := by
  cells_store

theorem Cells.setForf (h : Cells F Q sh a) (c : Nat) (x : ℚ) :
    Cells F Q ((cForf c, TimeCell.enc x) :: sh.filter (·.1 != cForf c)) { a with forf := upd a.forf c x } := by
  cells_store

/-- `lookup` in a list from which the entries of one cell have been removed -/
theorem lookup_filter (l : List (Nat × Val)) (k k' : Nat) :
    lookup (l.filter (·.1 != k')) k = if k = k' then Val.none else lookup l k := by
  by_cases h : k = k'
  · subst h
    rw [if_pos rfl]
    unfold lookup
    have : (l.filter (·.1 != k)).find? (·.1 == k) = none := by
      rw [List.find?_eq_none]
      intro x hx
      have := (List.mem_filter.mp hx).2
      simpa using this
    rw [this]; rfl
  · rw [if_neg h, TimerK.lookup_filter_ne _ _ _ (Ne.symm h)]

/-- the cells are read through `lookup` only -/
theorem Cells.of_lookup {sh' : List (Nat × Val)} (h : Cells F Q sh a) (heq : ∀ k, lookup sh' k = lookup sh k) :
    Cells F Q sh' a := by
  refine ⟨?_, ?_, ?_, ?_, ?_, ?_, ?_, ?_, ?_⟩
  · rw [heq]; exact h.c0
  · rw [heq]; exact h.c1
  · intro f hf; rw [heq]; exact h.cc f hf
  · intro f hf; rw [heq]; exact h.cb f hf
  · intro f hf; rw [heq]; exact h.cq f hf
  · intro f hf; rw [heq]; exact h.cd f hf
  · intro f hf; rw [heq]; exact h.ch f hf
  · intro f hf; rw [heq]; exact h.cu f hf
  · intro f hf; rw [heq]; exact h.cf f hf

/-- two lists of cells built from the same stores (in the same order) answer every `lookup` alike -/
macro "same_lookups" : tactic => `(tactic| (
  intro k
  dsimp only
  simp only [TimerK.lookup_cons, lookup_filter, optVal]
  split_ifs <;> first | rfl | simp_all))

/-- the cells only say something about the attribute fields of a configuration -/
theorem Cells.congr {a' : A} (h : Cells F Q sh a) (h0 : a'.recv = a.recv) (h1 : a'.cur = a.cur) (h2 : a'.cnt = a.cnt)
    (h3 : a'.byt = a.byt) (h4 : a'.ccnt = a.ccnt) (h5 : a'.dfc = a.dfc) (h6 : a'.hol = a.hol) (h7 : a'.forf = a.forf) :
    Cells F Q sh a' := by
  refine ⟨?_, ?_, ?_, ?_, ?_, ?_, ?_, ?_, ?_⟩
  · rw [h0]; exact h.c0
  · rw [h1]; exact h.c1
  · rw [h2]; exact h.cc
  · rw [h3]; exact h.cb
  · rw [h4]; exact h.cq
  · rw [h5]; exact h.cd
  · rw [h6]; exact h.ch
  · exact h.cu
  · rw [h7]; exact h.cf

/-! ## observations -/

theorem histOf_push (tr : Array (Obs ℚ)) (o : Obs ℚ) : histOf (tr.push o) = histOf tr ++ (histOf1 o).toList := by
  unfold histOf
  rw [Array.toList_push, List.filterMap_append]
  cases h : histOf1 o <;> simp [List.filterMap, h]

@[simp] theorem histOf1_resumed (p : EvId) (r : Resume) (t : ℚ) : histOf1 (Obs.resumed p r t) = none := rfl
@[simp] theorem histOf1_ended (p : EvId) (o : Outcome) (t : ℚ) : histOf1 (Obs.ended p o t) = none := rfl
@[simp] theorem histOf1_callErr (p : EvId) (x : Exc) (t : ℚ) : histOf1 (Obs.callErr p x t) = none := rfl
@[simp] theorem histOf1_put (p : EvId) (i : Int) (t : ℚ) : histOf1 (Obs.log p "put" (.int i) t) = some (.put i t) := by
  simp [histOf1]
@[simp] theorem histOf1_serve (p : EvId) (i : Int) (t : ℚ) : histOf1 (Obs.log p "serve" (.int i) t) = some (.serve i t) := by
  simp [histOf1]
@[simp] theorem histOf1_out (p : EvId) (i : Int) (t : ℚ) : histOf1 (Obs.log p "out" (.int i) t) = some (.out i t) := by
  simp [histOf1]
@[simp] theorem histOf1_idle (p : EvId) (t : ℚ) : histOf1 (Obs.log p "idle" .none t) = some (.idle t) := by
  simp [histOf1]
@[simp] theorem histOf1_visit (p : EvId) (c : Nat) (t : ℚ) : histOf1 (Obs.log p "visit" (.int (c : Int)) t) = some (.visit c t) := by
  simp [histOf1]
@[simp] theorem histOf1_park (p : EvId) (i : Int) (t : ℚ) : histOf1 (Obs.log p "park" (.int i) t) = some (.park i t) := by
  simp [histOf1]
@[simp] theorem histOf1_done (p : EvId) (i : Int) (t : ℚ) : histOf1 (Obs.log p "done" (.int i) t) = some (.done i t) := by
  simp [histOf1]
@[simp] theorem histOf1_reset (p : EvId) (c : Nat) (t : ℚ) : histOf1 (Obs.log p "reset" (.int (c : Int)) t) = some (.reset c t) := by
  simp [histOf1]
@[simp] theorem histOf1_credit (p : EvId) (x t : ℚ) : histOf1 (Obs.log p "credit" (TimeCell.enc x) t) = none := rfl

/-! ## bursts: reading and writing attributes -/

/-- the state `S` with other attribute cells and more observations -/
def wc (S : KS) (sh : List (Nat × Val)) (tr : Array (Obs ℚ)) : KS := { S with shared := sh, trace := tr }

@[simp] theorem wc_shared (S : KS) (sh : List (Nat × Val)) (tr : Array (Obs ℚ)) : (wc S sh tr).shared = sh := rfl
@[simp] theorem wc_trace (S : KS) (sh : List (Nat × Val)) (tr : Array (Obs ℚ)) : (wc S sh tr).trace = tr := rfl
@[simp] theorem wc_now (S : KS) (sh : List (Nat × Val)) (tr : Array (Obs ℚ)) : (wc S sh tr).now = S.now := rfl
@[simp] theorem wc_wc (S : KS) (sh sh' : List (Nat × Val)) (tr tr' : Array (Obs ℚ)) : wc (wc S sh tr) sh' tr' = wc S sh' tr' := rfl
@[simp] theorem wc_self (S : KS) : wc S S.shared S.trace = S := rfl

theorem runBurst_call (p : EvId) (c : Call ℚ St) (k : Reply → Burst ℚ St) (S : KS) :
    runBurst p (.call c k) S = runBurst p (k (doCall S p c).2) (noteErr p (doCall S p c)) := rfl

theorem rb_loadInt (p : EvId) (k : Nat) (n : Int) (cont : Int → Burst ℚ St) (S : KS)
    (h : lookup S.shared k = .int n) : runBurst p (loadInt k cont) S = runBurst p (cont n) S := by
  simp [loadInt, runBurst_call, doCall_load, noteErr, h]

theorem rb_loadKey (p : EvId) (k : Nat) (n : Int) (cont : Int → Burst ℚ St) (S : KS)
    (h : lookup S.shared k = .int n) : runBurst p (loadKey k cont) S = runBurst p (cont n) S := by
  simp [loadKey, runBurst_call, doCall_load, noteErr, h]

theorem rb_loadDD (p : EvId) (k : Nat) (n : Int) (cont : Int → Burst ℚ St) (S : KS)
    (h : lookup S.shared k = .int n) : runBurst p (loadDD k cont) S = runBurst p (cont n) S := by
  simp [loadDD, runBurst_call, doCall_load, noteErr, h]

theorem rb_loadTime (p : EvId) (k : Nat) (x : ℚ) (cont : ℚ → Burst ℚ St) (S : KS)
    (h : lookup S.shared k = TimeCell.enc x) : runBurst p (loadTime k cont) S = runBurst p (cont x) S := by
  simp [loadTime, runBurst_call, doCall_load, noteErr, h]

theorem rb_store (p : EvId) (k : Nat) (v : Val) (cont : Burst ℚ St) (S : KS) :
    runBurst p (.call (.store k v) fun _ => cont) S = runBurst p cont (wc S ((k, v) :: S.shared.filter (·.1 != k)) S.trace) := by
  simp [runBurst_call, doCall_store, noteErr, wc]

theorem rb_log_int (p : EvId) (w : String) (i : Int) (cont : Burst ℚ St) (S : KS) :
    runBurst p (.call (.log w (.int i)) fun _ => cont) S =
      runBurst p cont (wc S S.shared (S.trace.push (.log p w (.int i) S.now))) := by
  simp [runBurst_call, doCall_log, noteErr, wc]

theorem doCall_log_enc (s : KS) (self : EvId) (what : String) (x : ℚ) :
    doCall s self (.log what (TimeCell.enc x)) =
      ({ s with trace := s.trace.push (.log self what (TimeCell.enc x) s.now) }, .unit) := rfl

theorem rb_log_enc (p : EvId) (w : String) (x : ℚ) (cont : Burst ℚ St) (S : KS) :
    runBurst p (.call (.log w (TimeCell.enc x)) fun _ => cont) S =
      runBurst p cont (wc S S.shared (S.trace.push (.log p w (TimeCell.enc x) S.now))) := by
  simp [runBurst_call, doCall_log_enc, noteErr, wc]

theorem rb_addInt (p : EvId) (k : Nat) (n d : Int) (cont : Burst ℚ St) (S : KS) (h : lookup S.shared k = .int n) :
    runBurst p (addInt k d cont) S = runBurst p cont (wc S ((k, .int (n + d)) :: S.shared.filter (·.1 != k)) S.trace) := by
  rw [addInt, rb_loadInt p k n _ S h, rb_store]

theorem rb_addKeyInt (p : EvId) (k : Nat) (n d : Int) (cont : Burst ℚ St) (S : KS) (h : lookup S.shared k = .int n) :
    runBurst p (addKeyInt k d cont) S = runBurst p cont (wc S ((k, .int (n + d)) :: S.shared.filter (·.1 != k)) S.trace) := by
  rw [addKeyInt, rb_loadKey p k n _ S h, rb_store]

theorem rb_addDD (p : EvId) (k : Nat) (n d : Int) (cont : Burst ℚ St) (S : KS) (h : lookup S.shared k = .int n) :
    runBurst p (addDD k d cont) S = runBurst p cont (wc S ((k, .int (n + d)) :: S.shared.filter (·.1 != k)) S.trace) := by
  rw [addDD, rb_loadDD p k n _ S h, rb_store]

theorem rb_sumCounts (p : EvId) (c : Nat → Int) (S : KS) (k : Int → Burst ℚ St) :
    ∀ (n f : Nat) (acc : Int), (∀ j, f ≤ j → j < f + n → lookup S.shared (cCount j) = .int (c j)) →
      runBurst p (sumCounts f n acc k) S = runBurst p (k (acc + sumFrom c f n)) S
  | 0, f, acc, _ => by simp [sumCounts, sumFrom]
  | n + 1, f, acc, h => by
    rw [sumCounts, rb_loadInt p _ (c f) _ S (h f (Nat.le_refl _) (by omega)),
      rb_sumCounts p c S k n (f + 1) (acc + c f) (fun j h1 h2 => h j (by omega) (by omega))]
    simp [sumFrom, Int.add_assoc]

/-- `self.total_packets` reads the `F` counters -/
theorem rb_total (p : EvId) (F : Nat) (c : Nat → Int) (S : KS) (k : Int → Burst ℚ St)
    (h : ∀ f, f < F → lookup S.shared (cCount f) = .int (c f)) :
    runBurst p (totalPackets F k) S = runBurst p (k (sumFrom c 0 F)) S := by
  rw [totalPackets, rb_sumCounts p c S k F 0 0 (fun j _ h2 => h j (by omega))]
  simp

/-! ## a piece of a burst reaches a program point -/

/-- from `S`, `prog` runs into `fin` in a state that differs from `S` by the attribute cells (now those of `a'`) and the
observations (now with the history `H`) -/
def Reaches (F : Nat) (Q : Nat → ℚ) (p : EvId) (S : KS) (prog fin : Burst ℚ St) (a' : A) (H : List (HEv ℚ)) : Prop :=
  ∃ sh tr, runBurst p prog S = runBurst p fin (wc S sh tr) ∧ Cells F Q sh a' ∧ histOf tr = H

variable {p : EvId} {S : KS} {prog mid fin : Burst ℚ St} {a' a'' : A} {H H' : List (HEv ℚ)}

theorem Reaches.refl (hc : Cells F Q S.shared a') (hH : histOf S.trace = H) : Reaches F Q p S prog prog a' H :=
  ⟨S.shared, S.trace, rfl, hc, hH⟩

theorem Reaches.of_eq (h : runBurst p prog S = runBurst p mid S) (hr : Reaches F Q p S mid fin a' H) :
    Reaches F Q p S prog fin a' H := by
  obtain ⟨sh, tr, h1, h2, h3⟩ := hr
  exact ⟨sh, tr, h.trans h1, h2, h3⟩

/-- a piece that changes cells and observations, then the rest from the new state -/
theorem Reaches.via (sh : List (Nat × Val)) (tr : Array (Obs ℚ)) (h : runBurst p prog S = runBurst p mid (wc S sh tr))
    (hr : Reaches F Q p (wc S sh tr) mid fin a' H) : Reaches F Q p S prog fin a' H := by
  obtain ⟨sh', tr', h1, h2, h3⟩ := hr
  exact ⟨sh', tr', h.trans (by simpa using h1), h2, h3⟩

theorem Reaches.trans (h1 : Reaches F Q p S prog mid a' H)
    (h2 : ∀ sh tr, Cells F Q sh a' → histOf tr = H → Reaches F Q p (wc S sh tr) mid fin a'' H') :
    Reaches F Q p S prog fin a'' H' := by
  obtain ⟨sh, tr, g1, g2, g3⟩ := h1
  exact Reaches.via sh tr g1 (h2 sh tr g2 g3)

/-! ### one instruction at a time -/

theorem Reaches.store {k : Nat} {v : Val} {cont : Burst ℚ St}
    (h : Reaches F Q p (wc S ((k, v) :: S.shared.filter (·.1 != k)) S.trace) cont fin a' H) :
    Reaches F Q p S (.call (.store k v) fun _ => cont) fin a' H :=
  Reaches.via _ _ (rb_store p k v cont S) h

theorem Reaches.logInt {w : String} {i : Int} {cont : Burst ℚ St}
    (h : Reaches F Q p (wc S S.shared (S.trace.push (.log p w (.int i) S.now))) cont fin a' H) :
    Reaches F Q p S (.call (.log w (.int i)) fun _ => cont) fin a' H :=
  Reaches.via _ _ (rb_log_int p w i cont S) h

theorem Reaches.logEnc {w : String} {x : ℚ} {cont : Burst ℚ St}
    (h : Reaches F Q p (wc S S.shared (S.trace.push (.log p w (TimeCell.enc x) S.now))) cont fin a' H) :
    Reaches F Q p S (.call (.log w (TimeCell.enc x)) fun _ => cont) fin a' H :=
  Reaches.via _ _ (rb_log_enc p w x cont S) h

theorem Reaches.loadTime {k : Nat} {x : ℚ} {cont : ℚ → Burst ℚ St} (hl : lookup S.shared k = TimeCell.enc x)
    (h : Reaches F Q p S (cont x) fin a' H) : Reaches F Q p S (DRROnK.loadTime k cont) fin a' H :=
  Reaches.of_eq (rb_loadTime p k x cont S hl) h

theorem Reaches.loadKey {k : Nat} {n : Int} {cont : Int → Burst ℚ St} (hl : lookup S.shared k = .int n)
    (h : Reaches F Q p S (cont n) fin a' H) : Reaches F Q p S (DRROnK.loadKey k cont) fin a' H :=
  Reaches.of_eq (rb_loadKey p k n cont S hl) h

theorem Reaches.addKeyInt {k : Nat} {n d : Int} {cont : Burst ℚ St} (hl : lookup S.shared k = .int n)
    (h : Reaches F Q p (wc S ((k, .int (n + d)) :: S.shared.filter (·.1 != k)) S.trace) cont fin a' H) :
    Reaches F Q p S (DRROnK.addKeyInt k d cont) fin a' H :=
  Reaches.via _ _ (rb_addKeyInt p k n d cont S hl) h

end DRRK
