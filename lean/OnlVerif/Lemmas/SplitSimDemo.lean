import OnlVerif.Lemmas.SplitWFDec
/-!
# A program that is *not* id-opaque as a tree but is so along its run (non-vacuity of the run-level C03 theorems)

`oddBody` guesses an id (`succeed 1000`) in a branch the kernel never takes (the error reply of `timeout 1`): `BodySim` fails
for it at every split index `u ≤ 1000` (`oddBody_not_bodySim`), yet the run-level hypotheses `ScopedRun` and `PlanSim` hold for
its run — checked by kernel evaluation — so `split_plan_transparent_runlevel` applies to it.
-/

namespace SplitSimDemo
open SplitWF SplitPlan

def oddBody : Nat → Resume → Burst ℚ Nat
  | 0, _ => .call (.timeout 1 .none) fun r => match r with
      | .ev t => .yield t 1
      | .err _ => .call (.succeed 1000 .none) fun _ => .ret .none
      | _ => .ret .none
  | 1, _ => .call (.log "a" (.int 1)) fun _ => .call (.timeout 2 .none) fun r => match r with
      | .ev t => .yield t 2
      | _ => .ret .none
  | 2, _ => .call (.log "b" .none) fun _ => .ret (.int 3)
  | _, _ => .ret .none

/-- local states (program counters) hold no ids -/
abbrev IN : IdSt Nat := IdSt.none Nat

instance (n : Nat) (st : Nat) : Decidable (IN.below n st) := isTrue trivial

/-- two processes running `oddBody`, started from outside -/
def t0 : KState ℚ Nat := initState 0 #[] [0, 0]

def plan : List Piece := [.untilTime 1, .step 1, .untilTime 2, .untilTime 4]

theorem t0_facts : WS IN t0 ∧ SortedAg t0 ∧ AllStopFree t0 ∧ 2 * 2 ≤ t0.events.size :=
  initState_facts 0 #[] _ (fun r => by
    have : (#[] : Array ResRec).getD r default = default := by simp
    rw [this]; exact ⟨rfl, rfl, rfl⟩) (fun _ _ => trivial)

theorem t0_pos : 0 < t0.events.size := Nat.lt_of_lt_of_le (by decide) t0_facts.2.2.2

theorem burstSim_call_inv {σ : Type} {ρ : EvId → EvId} {rσ : σ → σ} {c c' : Call ℚ σ} {k k' : Reply → Burst ℚ σ}
    (h : BurstSim ρ rσ (.call c k) (.call c' k')) : c' = rnCall ρ rσ c ∧ ∀ r, BurstSim ρ rσ (k r) (k' (rnReply ρ r)) := by
  generalize hb : (Burst.call c k : Burst ℚ σ) = b at h
  generalize hb' : (Burst.call c' k' : Burst ℚ σ) = b' at h
  cases h with
  | call c0 k0 k0' hk =>
    cases hb
    cases hb'
    exact ⟨rfl, hk⟩
  | yield e st => cases hb
  | ret v => cases hb
  | raise x => cases hb

/-- **the program is not id-opaque as a tree**: in the branch of the error reply it names the literal id 1000 -/
theorem oddBody_not_bodySim (u : Nat) (hu : u ≤ 1000) : ¬ BodySim (shAt u) (IN.rn u) oddBody := by
  intro h
  have h0 : BurstSim (shAt u) (IN.rn u) (oddBody 0 .start) (oddBody 0 .start) := h 0 .start
  have h1 := (burstSim_call_inv h0).2 (.err ⟨"x", []⟩)
  have h2 : BurstSim (shAt u) (IN.rn u) (.call (.succeed 1000 .none) fun _ => .ret .none)
      (.call (.succeed 1000 .none) fun _ => .ret .none) := h1
  have h3 := (burstSim_call_inv h2).1
  have h4 : shAt u 1000 = 1000 := by
    simp only [rnCall, Call.succeed.injEq] at h3
    exact h3.1.symm
  rw [shAt_of_ge hu] at h4
  omega

/-- computed by the kernel: the run names existing ids only (it ends after 9 steps) -/
theorem run_scoped : ScopedRun IN oddBody 5 t0 :=
  scopedRun_of_upTo IN oddBody 5 t0 9 (by decide +kernel)

/-- computed by the kernel: at each of the three numeric stops of the plan, the continuation of the run is id-opaque at
run level -/
theorem plan_sim : PlanSim IN oddBody 5 100 plan t0 :=
  PlanSimUpTo.planSim oddBody 5 100 9 plan t0 (by decide +kernel)

/-- computed by the kernel: every piece returns normally; 12 observations, 11 event records (8 + 3 sentinels), 2 processes -/
theorem plan_returns : (execPlan oddBody 5 100 plan t0).map (fun s => (s.trace.size, s.events.size, s.procs.length)) =
    some (12, 11, 2) := by decide +kernel

end SplitSimDemo
