import OnlVerif.Lemmas.TcpLoop
import OnlVerif.Lemmas.TcpAckMono
/-!
# The closed loop over a return path that reorders ACKs: safety

`RStep` extends the steps of `Loop` (sender bursts, deliveries, FIFO ACK arrivals, losses on both paths) by the arrival of *any*
ACK in flight (`Loop.ackArriveAt i`).  The joint invariant `TcpLoop.J` does not depend on the order of the ACK path and is kept;
on top of it: the acknowledged mark never moves back, and every byte below it is at the sink - the mark is a *correct* cumulative
acknowledgement whatever the order in which ACKs come back.
-/

open TcpScalar TcpSender TcpSink TcpLoop

namespace TcpReorder

theorem J_ackArriveAt {l l' : Loop ℚ} {i : Nat} (h : J l) (hs : l.ackArriveAt i = some l') : J l' := by
  unfold Loop.ackArriveAt at hs
  cases hd : l.acks[i]? with
  | none => rw [hd] at hs; cases hs
  | some x =>
    rw [hd] at hs
    simp only at hs
    have hmem : x ∈ l.acks := List.mem_of_getElem? hd
    cases hst : l.snd.step (.ack x) with
    | reject w => rw [hst] at hs; cases hs
    | error e => rw [hst] at hs; cases hs
    | ok s' outs =>
      rw [hst] at hs
      injection hs with hs; subst hs
      obtain ⟨x1, x2, x3⟩ := h.acks x hmem
      have haok : ActOk (.ack x : Act ℚ) := x1
      obtain ⟨m1, m2, _⟩ := step_outs h.snd haok hst
      refine ⟨(step_safe h.snd _ haok).2 _ _ hst, by rw [m1]; exact h.mss_pos, h.sink, ?_,
        fun a ha => h.acks a (List.mem_of_mem_eraseIdx ha), ?_⟩
      · intro tx htx
        rw [m1]
        rcases List.mem_append.mp htx with e | e
        · exact h.data tx e
        · exact m2 tx e
      · intro q hq
        rcases h.issued q hq with c | c
        · exact Or.inl c
        · by_cases hk : q ∈ AL.keys s'.timers
          · exact Or.inr hk
          · obtain ⟨y, hy, _, hcover⟩ := timer_cancel_only_by_ack l.snd s' _ outs h.snd haok hst q c hk
            injection hy with hy; subst hy
            rcases hcover with hlt | heq
            · exact Or.inl (x2 q hlt)
            · exact Or.inl (heq ▸ x3)

/-- a step of the closed loop over a return path that may reorder -/
inductive RStep : Loop ℚ → Loop ℚ → Prop
  | fifo {l l' : Loop ℚ} {a : LAct ℚ} : l.step a = some l' → RStep l l'
  | any {l l' : Loop ℚ} {i : Nat} : l.ackArriveAt i = some l' → RStep l l'

inductive RReach (l0 : Loop ℚ) : Loop ℚ → Prop
  | init : RReach l0 l0
  | step {l l' : Loop ℚ} : RReach l0 l → RStep l l' → RReach l0 l'

theorem reach_J {l0 l : Loop ℚ} (h0 : J l0) (hr : RReach l0 l) : J l := by
  induction hr with
  | init => exact h0
  | step _ hs ih =>
    cases hs with
    | fifo hs => exact J_step ih hs
    | any hs => exact J_ackArriveAt ih hs

/-- the mark and what lies below it: `last_ack` did not move back, and every byte below the new mark is at the sink provided
every byte below the old one was -/
structure Mark (l l' : Loop ℚ) : Prop where
  mono : l.snd.last_ack ≤ l'.snd.last_ack
  held : (∀ b, b < l.snd.last_ack → Covers l.sink b) → ∀ b, b < l'.snd.last_ack → Covers l'.sink b

theorem mark_of_ack {l : Loop ℚ} {x : AckIn ℚ} {s' : Sender ℚ} {outs : List (Tx ℚ)} {acks' : List (AckIn ℚ)} (h : J l)
    (hmem : x ∈ l.acks) (hst : l.snd.step (.ack x) = .ok s' outs) :
    Mark l { l with snd := s', acks := acks', data := l.data ++ outs } := by
  obtain ⟨x1, x2, _⟩ := h.acks x hmem
  have haok : ActOk (.ack x : Act ℚ) := x1
  rcases step_last_ack_cases h.snd haok hst with e | ⟨y, hy, hlt, e⟩
  · exact ⟨Nat.le_of_eq e.symm, fun hb b hlt => hb b (by rw [← e]; exact hlt)⟩
  · injection hy with hy; subst hy
    exact ⟨by show l.snd.last_ack ≤ s'.last_ack; rw [e]; exact Nat.le_of_lt hlt,
      fun _ b hb => x2 b (by rw [← e]; exact hb)⟩

theorem mark_step {l l' : Loop ℚ} (h : J l) (hs : RStep l l') : Mark l l' := by
  cases hs with
  | @any i hs =>
    unfold Loop.ackArriveAt at hs
    cases hd : l.acks[i]? with
    | none => rw [hd] at hs; cases hs
    | some x =>
      rw [hd] at hs
      simp only at hs
      cases hst : l.snd.step (.ack x) with
      | reject w => rw [hst] at hs; cases hs
      | error e => rw [hst] at hs; cases hs
      | ok s' outs =>
        rw [hst] at hs
        injection hs with hs; subst hs
        exact mark_of_ack h (List.mem_of_getElem? hd) hst
  | @fifo a hs =>
    cases a with
    | own act =>
      unfold Loop.step at hs
      simp only at hs
      split_ifs at hs with hack
      cases hst : l.snd.step act with
      | reject w => rw [hst] at hs; cases hs
      | error e => rw [hst] at hs; cases hs
      | ok s' outs =>
        rw [hst] at hs
        injection hs with hs; subst hs
        have haok : ActOk act := by
          cases act with
          | ack x => simp [Loop.isAck] at hack
          | _ => trivial
        rcases step_last_ack_cases h.snd haok hst with e | ⟨y, hy, _, _⟩
        · exact ⟨Nat.le_of_eq e.symm, fun hb b hlt => hb b (by rw [← e]; exact hlt)⟩
        · subst hy; simp [Loop.isAck] at hack
    | deliver =>
      unfold Loop.step at hs
      simp only at hs
      cases hd : l.data with
      | nil => rw [hd] at hs; cases hs
      | cons tx rest =>
        rw [hd] at hs
        simp only at hs
        obtain ⟨hsep', hcov'⟩ := packetArrived_spec l.sink tx.seq tx.size h.sink
        obtain ⟨n, hn, hp⟩ := ackOf_isPrefix _ hsep' (packetArrived_ne_nil l.sink tx.seq tx.size)
        have hput : TcpSink.put l.sink tx.seq tx.size = (packetArrived l.sink tx.seq tx.size, .ok n) := by
          unfold TcpSink.put; simp only [hn]
        rw [hput] at hs
        injection hs with hs; subst hs
        exact ⟨Nat.le_refl _, fun hb b hlt => (hcov' b).mpr (Or.inl (hb b hlt))⟩
    | ackArrive =>
      unfold Loop.step at hs
      simp only at hs
      cases hd : l.acks with
      | nil => rw [hd] at hs; cases hs
      | cons x rest =>
        rw [hd] at hs
        simp only at hs
        cases hst : l.snd.step (.ack x) with
        | reject w => rw [hst] at hs; cases hs
        | error e => rw [hst] at hs; cases hs
        | ok s' outs =>
          rw [hst] at hs
          injection hs with hs; subst hs
          exact mark_of_ack h (by rw [hd]; exact List.mem_cons_self) hst
    | dropData i =>
      unfold Loop.step at hs
      simp only at hs
      split_ifs at hs
      injection hs with hs; subst hs
      exact ⟨Nat.le_refl _, fun hb => hb⟩
    | dropAck i =>
      unfold Loop.step at hs
      simp only at hs
      split_ifs at hs
      injection hs with hs; subst hs
      exact ⟨Nat.le_refl _, fun hb => hb⟩

theorem reach_mark {l0 l : Loop ℚ} (h0 : J l0) (hr : RReach l0 l) : Mark l0 l := by
  induction hr with
  | init => exact ⟨Nat.le_refl _, fun hb => hb⟩
  | step hr' hs ih =>
    have m := mark_step (reach_J h0 hr') hs
    exact ⟨Nat.le_trans ih.mono m.mono, fun hb => m.held (ih.held hb)⟩

/-- run a list of steps (`inl a`: an action of `Loop.step`; `inr i`: the `i`-th ACK in flight arrives) - for the `example`s -/
def runR (l : Loop ℚ) : List (Sum (LAct ℚ) Nat) → Option (Loop ℚ)
  | [] => some l
  | .inl a :: rest => (l.step a).bind fun l' => runR l' rest
  | .inr i :: rest => (l.ackArriveAt i).bind fun l' => runR l' rest

theorem runR_sound {l0 : Loop ℚ} : ∀ (acts : List (Sum (LAct ℚ) Nat)) (l l' : Loop ℚ), RReach l0 l → runR l acts = some l' →
    RReach l0 l'
  | [], l, l', hr, h => by
    unfold runR at h; injection h with h; subst h; exact hr
  | .inl a :: rest, l, l', hr, h => by
    unfold runR at h
    cases hs : l.step a with
    | none => rw [hs] at h; cases h
    | some l1 => rw [hs] at h; exact runR_sound rest l1 l' (.step hr (.fifo hs)) h
  | .inr i :: rest, l, l', hr, h => by
    unfold runR at h
    cases hs : l.ackArriveAt i with
    | none => rw [hs] at h; cases h
    | some l1 => rw [hs] at h; exact runR_sound rest l1 l' (.step hr (.any hs)) h

end TcpReorder
