import OnlVerif.Lemmas.VCKRun
import OnlVerif.Lemmas.VCKSound
import OnlVerif.Lemmas.VCKLts
import OnlVerif.Lemmas.VCKAbsFun
/-!
# The VirtualClock scheduler on the kernel model: the combined invariant, every reachable kernel state is the image of an
admissible run of the StampServer LTS, `run()` returns
-/

set_option linter.unusedSimpArgs false

namespace VCK
open VCOnK QEntry Stamp

variable {N scale F : Nat} {flow size : Int → Nat} {cfg : VcCfg ℚ} {arrivals : List (ℚ × Int)}
variable {s : KS} {a : A} {q : QEntry ℚ} {rest : List (QEntry ℚ)}

/-- two accepted action sequences compose -/
theorem runActs_compose {σ : Type} (d : Sched ℚ σ) : ∀ (as bs : List (StAct ℚ)) (s s1 s2 : StState ℚ σ)
    (i1 o1 i2 o2 : List SPkt), runActs d s as = .ok (s1, i1, o1) → runActs d s1 bs = .ok (s2, i2, o2) →
    runActs d s (as ++ bs) = .ok (s2, i1 ++ i2, o1 ++ o2)
  | [], bs, s, s1, s2, i1, o1, i2, o2, h1, h2 => by
    simp only [runActs, Except.ok.injEq, Prod.mk.injEq] at h1
    obtain ⟨rfl, rfl, rfl⟩ := h1
    simpa using h2
  | x :: as, bs, s, s1, s2, i1, o1, i2, o2, h1, h2 => by
    simp only [runActs] at h1
    split at h1
    · cases h1
    · rename_i s3 o h3
      split at h1
      · cases h1
      · rename_i s4 i4 o4 h4
        simp only [Except.ok.injEq, Prod.mk.injEq] at h1
        obtain ⟨rfl, rfl, rfl⟩ := h1
        have := runActs_compose d as bs s3 s4 s2 i4 o4 i2 o2 h4 h2
        simp only [List.cons_append, runActs, h3, this, List.append_assoc]

/-- the kernel state `s` is the sound configuration `a`, whose ghost `put` list is the one of the history -/
structure Inv (N scale F : Nat) (flow : Int → Nat) (cfg : VcCfg ℚ) (s : KS) (a : A) : Prop where
  k : KInv N scale F s a
  ai : AInv N scale F flow cfg a s.now
  l : LInv a (histOf s.trace)

/-- **one kernel step**: it is `.ok`, keeps the invariant, uses one unit of the step budget, and is a sequence of actions the
LTS accepts from `toM a` to `toM a'` in which the packets `put` / sent out are those the kernel step reports -/
theorem inv_step_lts (fuel : Nat) (h : Inv N scale F flow cfg s a) (hp : popMin s.agenda = some (q, rest)) :
    ∃ s' a' new, step (prog flow size cfg N scale) (fuel + 1) s = .ok s' ∧ Inv N scale F flow cfg s' a' ∧ a'.mu + 1 ≤ a.mu ∧
      AStep N scale flow size cfg s.events.size s.eid a q a' new ∧ s'.now = q.time ∧
      histOf s'.trace = histOf s.trace ++ new ∧
      ∃ acts, runActs (VC.sched cfg) (toM flow size cfg a s.now) acts =
        .ok (toM flow size cfg a' s'.now, putPk flow size new, outPk flow size new) := by
  obtain ⟨s', a', new, h1, h2, h3, h4, h5⟩ := kstep (size := size) fuel h.k h.ai hp
  have hmin := (isMin_of_pop h.k hp).1
  obtain ⟨g1, g2⟩ := astep_sound h.ai hmin h3
  obtain ⟨acts0, h0⟩ := lts_advance (size := size) h.ai hmin
  obtain ⟨acts, h7⟩ := lts_step (h.ai.advance hmin) h.l h3
  refine ⟨s', a', new, h1, ⟨h2, by rw [h4]; exact g1, by rw [h5]; exact linv_step h.l h3⟩, g2, h3, h4, h5,
    acts0 ++ acts, ?_⟩
  rw [h4]
  have := runActs_compose _ _ _ _ _ _ _ _ _ _ h0 h7
  simpa using this

theorem inv_init (hc : CfgOK F cfg) (hg : GridOK scale cfg arrivals) (hw : WorkOK N scale F flow arrivals) :
    Inv N scale F flow cfg (initState F cfg arrivals) (a0 arrivals) := by
  obtain ⟨h1, h2, h3⟩ := kinv_init (N := N) (scale := scale) hc arrivals
  refine ⟨h1, by rw [h2]; exact ainv_init hc hg hw, by rw [h3]; exact linv_init arrivals⟩

/-- **every state reachable by kernel steps is a sound configuration, and the run so far is an admissible run of the LTS**
from the state of a fresh `VC` to the configuration's LTS state, in which the packets that entered are those handed to `put`
and the packets that left are those handed to `out.put`, in the order of the trace -/
theorem reach_lts (fuel : Nat) (hc : CfgOK F cfg) (hg : GridOK scale cfg arrivals) (hw : WorkOK N scale F flow arrivals)
    {s : KS} (h : KReach (prog flow size cfg N scale) (fuel + 1) (initState F cfg arrivals) s) :
    ∃ a acts, Inv N scale F flow cfg s a ∧
      runActs (VC.sched cfg) (VC.start cfg 0) acts =
        .ok (toM flow size cfg a s.now, putPk flow size (histOf s.trace), outPk flow size (histOf s.trace)) := by
  induction h with
  | init =>
    have hi := inv_init (N := N) (flow := flow) hc hg hw
    obtain ⟨-, h2, h3⟩ := kinv_init (N := N) (scale := scale) hc arrivals
    refine ⟨a0 arrivals, [], hi, ?_⟩
    rw [h2, h3, toM_a0]; rfl
  | @step s s' _ hs ih =>
    obtain ⟨a, acts, hi, hrun⟩ := ih
    cases hp : popMin s.agenda with
    | none => simp [_root_.step, hp, StepResult.state?] at hs
    | some qr =>
      obtain ⟨q, rest⟩ := qr
      obtain ⟨s'', a', new, h1, h2, -, -, -, h6, acts', h7⟩ := inv_step_lts (size := size) fuel hi hp
      rw [h1] at hs
      simp only [StepResult.state?, Option.some.injEq] at hs
      subst hs
      refine ⟨a', acts ++ acts', h2, ?_⟩
      have := runActs_compose _ _ _ _ _ _ _ _ _ _ hrun h7
      rw [this, h6, putPk_append, outPk_append]

theorem popMin_none {l : List (QEntry ℚ)} (h : popMin l = none) : l = [] := by
  cases l with
  | nil => rfl
  | cons x xs =>
    unfold popMin at h
    cases hp : popMin xs with
    | none => rw [hp] at h; cases h
    | some mr => rw [hp] at h; simp only at h; split at h <;> cases h

/-- **`run()` returns**: with more step budget than the configuration needs, `runLoop` ends with an empty agenda, in a state
reachable by kernel steps -/
theorem run_returns (fuel : Nat) (s0 : KS) : ∀ (n : Nat) (s : KS) (a : A), Inv N scale F flow cfg s a → a.mu < n →
    KReach (prog flow size cfg N scale) (fuel + 1) s0 s →
    ∃ sF aF, runLoop (prog flow size cfg N scale) (fuel + 1) none n s = .returned .none sF ∧
      Inv N scale F flow cfg sF aF ∧ sF.agenda = [] ∧ KReach (prog flow size cfg N scale) (fuel + 1) s0 sF
  | 0, _, _, _, hmu, _ => absurd hmu (Nat.not_lt_zero _)
  | n + 1, s, a, h, hmu, hre => by
    cases hp : popMin s.agenda with
    | none =>
      refine ⟨s, a, ?_, h, popMin_none hp, hre⟩
      simp [_root_.runLoop, _root_.step, hp]
    | some qr =>
      obtain ⟨q, rest⟩ := qr
      obtain ⟨s', a', new, h1, h2, h3, -⟩ := inv_step_lts (size := size) fuel h hp
      have := run_returns fuel s0 n s' a' h2 (by omega) (KReach.step hre (by rw [h1]; rfl))
      simpa [_root_.runLoop, h1] using this

/-- positive rate and vticks: the hypothesis of the C12 / C14 theorems of the LTS -/
theorem pos_of_cfgOK (hc : CfgOK F cfg) : VC.Pos cfg := by
  refine ⟨hc.rate, ?_⟩
  intro k v hk
  have hkF : k < F := by
    have : ∀ (l : List (Nat × ℚ)), Stamp.lookup l k = some v → (k, v) ∈ l := by
      intro l
      induction l with
      | nil => intro h; simp [Stamp.lookup] at h
      | cons x r ih =>
        intro h
        obtain ⟨k', v'⟩ := x
        simp only [Stamp.lookup] at h
        split at h
        · rename_i hk'
          cases h; subst hk'; exact List.mem_cons_self
        · exact List.mem_cons_of_mem _ (ih h)
    exact hc.keys _ (this _ hk)
  obtain ⟨vt, h1, h2⟩ := hc.vt k hkF
  rw [hk] at h1
  cases h1
  exact h2

end VCK
