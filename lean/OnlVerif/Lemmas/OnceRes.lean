import OnlVerif.Lemmas.OnceQL
import OnlVerif.Lemmas.EventMono
import Mathlib.Data.List.Perm.Basic
/-! # The invariant through interrupts, resource scans and request creation -/

namespace Once
variable {σ : Type}

/-! ## `Interruption.__init__` -/

theorem Inv.mkInterrupt {g : Ghost} {s : KState ℚ σ} (hi : Inv g s) (p : EvId) (c : Val) :
    Inv g (_root_.mkInterrupt s p c).1 := by
  unfold _root_.mkInterrupt
  split
  · exact hi
  · split
    · exact hi
    · simp only
      refine InvX.schedule (hi.newEv _ [.intr s.events.size] rfl (fun p hm => by simp at hm)
          (fun iv hm => by simpa using hm) (fun c hm => by simp at hm)) _ _ ?_ ?_ ?_
      · rw [KState.ev_newEv, if_pos rfl]; simp
      · rw [KState.ev_newEv, if_pos rfl]; simp
      · intro b hb
        exact Nat.ne_of_lt (hi.c.agenda_lt b hb)

/-- what `mkInterrupt` leaves alone -/
theorem mkInterrupt_frame (s : KState ℚ σ) (p : EvId) (c : Val) :
    (∀ r, (_root_.mkInterrupt s p c).1.res r = s.res r) ∧
    (∀ e, e < s.events.size → (_root_.mkInterrupt s p c).1.ev e = s.ev e) := by
  unfold _root_.mkInterrupt
  split
  · exact ⟨fun _ => rfl, fun _ _ => rfl⟩
  · split
    · exact ⟨fun _ => rfl, fun _ _ => rfl⟩
    · refine ⟨fun _ => rfl, fun e he => ?_⟩
      simp only [KState.ev_schedule]
      rw [KState.ev_newEv, if_neg (Nat.ne_of_lt he)]

/-! ## `_do_put` -/

theorem Inv.preemptStep {g : Ghost} {s : KState ℚ σ} (hi : Inv g s) (r : ResId) (e : EvId) :
    Inv g (_root_.preemptStep s r e) := by
  unfold _root_.preemptStep
  simp only
  split
  · split
    · exact hi
    · split
      · split
        · exact (hi.setUsers r _).mkInterrupt _ _
        · exact hi.setUsers r _
      · exact hi
  · exact hi

theorem Inv.prePut {g : Ghost} {s : KState ℚ σ} (hi : Inv g s) (r : ResId) (e : EvId) : Inv g (_root_.prePut s r e) := by
  unfold _root_.prePut
  split
  · exact hi.preemptStep r e
  · exact hi

theorem putQ_setUsers (s : KState ℚ σ) (r r' : ResId) (l : List EvId) :
    ((s.setUsers r l).res r').putQ = (s.res r').putQ ∧ ((s.setUsers r l).res r').getQ = (s.res r').getQ := by
  unfold KState.setUsers
  rw [KState.res_setRes]; split
  · rename_i h; rw [h.1]; exact ⟨rfl, rfl⟩
  · exact ⟨rfl, rfl⟩

theorem putQ_setLevel (s : KState ℚ σ) (r r' : ResId) (l : Int) :
    ((s.setLevel r l).res r').putQ = (s.res r').putQ ∧ ((s.setLevel r l).res r').getQ = (s.res r').getQ := by
  unfold KState.setLevel
  rw [KState.res_setRes]; split
  · rename_i h; rw [h.1]; exact ⟨rfl, rfl⟩
  · exact ⟨rfl, rfl⟩

theorem putQ_setItems (s : KState ℚ σ) (r r' : ResId) (l : List Int) :
    ((s.setItems r l).res r').putQ = (s.res r').putQ ∧ ((s.setItems r l).res r').getQ = (s.res r').getQ := by
  unfold KState.setItems
  rw [KState.res_setRes]; split
  · rename_i h; rw [h.1]; exact ⟨rfl, rfl⟩
  · exact ⟨rfl, rfl⟩

/-- the eviction step leaves the queues alone -/
theorem prePut_queues (s : KState ℚ σ) (r : ResId) (e : EvId) (r' : ResId) :
    ((_root_.prePut s r e).res r').putQ = (s.res r').putQ ∧ ((_root_.prePut s r e).res r').getQ = (s.res r').getQ := by
  unfold _root_.prePut
  split
  · unfold _root_.preemptStep
    simp only
    split
    · split
      · exact ⟨rfl, rfl⟩
      · split
        · split
          · rw [(mkInterrupt_frame _ _ _).1]; exact putQ_setUsers s r r' _
          · exact putQ_setUsers s r r' _
        · exact ⟨rfl, rfl⟩
    · exact ⟨rfl, rfl⟩
  · exact ⟨rfl, rfl⟩

/-! ## a queued request is granted and leaves its queue -/

theorem InvL.sameCbs {g : Ghost} {s s' : KState ℚ σ} (hi : InvL g s) (hsz : s.events.size ≤ s'.events.size)
    (hp : ∀ p, s'.proc? p = s.proc? p) (ho : ∀ p, (s'.ev p).out = none → (s.ev p).out = none)
    (hc : ∀ e, (s'.ev e).cbs = (s.ev e).cbs) : InvL g s' :=
  hi.transfer hsz hp ho (fun _ h => h) (fun h => h) (fun e _ h => by rw [hc]; exact h)
    (fun e L p hL hm _ => ⟨L, by rw [hc]; exact hL, hm⟩)

/-- triggering a pending request event keeps the core and liveness invariants -/
theorem Inv.trigger_req {g : Ghost} {s : KState ℚ σ} (hi : Inv g s) (e : EvId) (o : Outcome)
    (ho : (s.ev e).out = none) (hk : (∃ r, (s.ev e).kind = .put r) ∨ (∃ r, (s.ev e).kind = .get r)) :
    InvC g (s.trigger e o) ∧ InvL g (s.trigger e o) := by
  have hlt : e < s.events.size := by
    apply lt_of_kind
    rcases hk with ⟨r, hr⟩ | ⟨r, hr⟩ <;> rw [hr] <;> simp
  have hnp : (s.ev e).kind ≠ .proc := by
    rcases hk with ⟨r, hr⟩ | ⟨r, hr⟩ <;> rw [hr] <;> simp
  refine ⟨hi.c.trigger e o hlt ho hnp, ?_⟩
  refine hi.l.sameCbs (by unfold KState.trigger KState.schedule KState.setOut; simp [KState.setEv]) (fun _ => rfl) ?_ ?_
  · intro p hp
    have : ((s.trigger e o).ev p).out = ((s.setOut e o).ev p).out := rfl
    rw [this, out_setOut] at hp
    split at hp
    · cases hp
    · exact hp
  · intro e'
    exact cbs_setEv s e e' _ rfl

theorem ev_trigger_ne (s : KState ℚ σ) (e x : EvId) (o : Outcome) (h : x ≠ e) : (s.trigger e o).ev x = s.ev x := by
  show (s.setOut e o).ev x = _
  unfold KState.setOut
  rw [KState.ev_setEv, if_neg (fun hc => h hc.1)]

theorem triggered_trigger (s : KState ℚ σ) (e : EvId) (o : Outcome) (h : e < s.events.size) :
    (s.trigger e o).triggered e = true := by
  unfold KState.triggered
  show ((s.setOut e o).ev e).out.isSome = true
  rw [out_setOut, if_pos ⟨rfl, h⟩]; rfl

theorem res_setPutQ (s : KState ℚ σ) (r r' : ResId) (l : List EvId) :
    ((s.setPutQ r l).res r').putQ = (if r' = r ∧ r < s.resources.size then l else (s.res r').putQ) ∧
    ((s.setPutQ r l).res r').getQ = (s.res r').getQ := by
  unfold KState.setPutQ
  rw [KState.res_setRes]; split
  · rename_i h; rw [h.1]; exact ⟨rfl, rfl⟩
  · exact ⟨rfl, rfl⟩

theorem res_setGetQ (s : KState ℚ σ) (r r' : ResId) (l : List EvId) :
    ((s.setGetQ r l).res r').getQ = (if r' = r ∧ r < s.resources.size then l else (s.res r').getQ) ∧
    ((s.setGetQ r l).res r').putQ = (s.res r').putQ := by
  unfold KState.setGetQ
  rw [KState.res_setRes]; split
  · rename_i h; rw [h.1]; exact ⟨rfl, rfl⟩
  · exact ⟨rfl, rfl⟩

/-- a queue entry is removed -/
theorem Inv.dropPutQ {g : Ghost} {s : KState ℚ σ} (hi : Inv g s) (r : ResId) (e : EvId) : Inv g (_root_.dropPutQ s r e) := by
  unfold _root_.dropPutQ
  refine ⟨hi.c.congr (SameC.of_events rfl rfl rfl), ?_, hi.l.congr (SameC.of_events rfl rfl rfl),
    hi.s.congr (SameC.of_events rfl rfl rfl)⟩
  refine hi.q.transfer ?_ ?_ ?_ ?_
  · intro r'; rw [(res_setPutQ s r r' _).1]; split
    · exact (hi.q.putQ r).1.erase e
    · exact (hi.q.putQ r').1
  · intro r'; rw [(res_setPutQ s r r' _).2]; exact (hi.q.getQ r').1
  · intro r' x hx
    rw [(res_setPutQ s r r' _).1] at hx
    split at hx
    · rename_i h; rw [h.1]
      exact ⟨List.mem_of_mem_erase hx, rfl, ((hi.q.putQ r).2 x (List.mem_of_mem_erase hx)).2⟩
    · exact ⟨hx, rfl, ((hi.q.putQ r').2 x hx).2⟩
  · intro r' x hx
    rw [(res_setPutQ s r r' _).2] at hx
    exact ⟨hx, rfl, ((hi.q.getQ r').2 x hx).2⟩

theorem Inv.dropGetQ {g : Ghost} {s : KState ℚ σ} (hi : Inv g s) (r : ResId) (e : EvId) : Inv g (_root_.dropGetQ s r e) := by
  unfold _root_.dropGetQ
  refine ⟨hi.c.congr (SameC.of_events rfl rfl rfl), ?_, hi.l.congr (SameC.of_events rfl rfl rfl),
    hi.s.congr (SameC.of_events rfl rfl rfl)⟩
  refine hi.q.transfer ?_ ?_ ?_ ?_
  · intro r'; rw [(res_setGetQ s r r' _).2]; exact (hi.q.putQ r').1
  · intro r'; rw [(res_setGetQ s r r' _).1]; split
    · exact (hi.q.getQ r).1.erase e
    · exact (hi.q.getQ r').1
  · intro r' x hx
    rw [(res_setGetQ s r r' _).2] at hx
    exact ⟨hx, rfl, ((hi.q.putQ r').2 x hx).2⟩
  · intro r' x hx
    rw [(res_setGetQ s r r' _).1] at hx
    split at hx
    · rename_i h; rw [h.1]
      exact ⟨List.mem_of_mem_erase hx, rfl, ((hi.q.getQ r).2 x (List.mem_of_mem_erase hx)).2⟩
    · exact ⟨hx, rfl, ((hi.q.getQ r').2 x hx).2⟩

/-- a queued put request is triggered and removed from its queue in one go -/
theorem Inv.trigger_dropPut {g : Ghost} {s : KState ℚ σ} (hi : Inv g s) (r : ResId) (e : EvId) (o : Outcome)
    (he : e ∈ (s.res r).putQ) :
    Inv g (_root_.dropPutQ (s.trigger e o) r e) ∧
    ∀ x ∈ (s.res r).putQ, x ≠ e → x ∈ ((_root_.dropPutQ (s.trigger e o) r e).res r).putQ := by
  have hke := (hi.q.putQ r).2 e he
  have hrlt : r < s.resources.size := by
    by_contra hc
    have : s.res r = default := by
      simp only [KState.res, Array.getD_eq_getD_getElem?]
      rw [Array.getElem?_eq_none (Nat.le_of_not_lt hc)]; rfl
    rw [this] at he; exact absurd he (by simp [default])
  obtain ⟨hc, hl⟩ := hi.trigger_req e o hke.2 (Or.inl ⟨r, hke.1⟩)
  have hq : ∀ r', ((_root_.dropPutQ (s.trigger e o) r e).res r').putQ =
      if r' = r then (s.res r).putQ.erase e else (s.res r').putQ := by
    intro r'
    unfold _root_.dropPutQ
    rw [(res_setPutQ _ r r' _).1]
    by_cases h : r' = r
    · rw [if_pos ⟨h, hrlt⟩, if_pos h]; rfl
    · rw [if_neg (fun hh => h hh.1), if_neg h]; rfl
  have hgq : ∀ r', ((_root_.dropPutQ (s.trigger e o) r e).res r').getQ = (s.res r').getQ := by
    intro r'
    unfold _root_.dropPutQ
    rw [(res_setPutQ _ r r' _).2]; rfl
  have hevx : ∀ x, x ≠ e → (_root_.dropPutQ (s.trigger e o) r e).ev x = s.ev x := fun x hx => ev_trigger_ne s e x o hx
  refine ⟨⟨hc.congr (SameC.of_events rfl rfl rfl), ?_, hl.congr (SameC.of_events rfl rfl rfl),
    (hi.s.trigger e o).congr (SameC.of_events rfl rfl rfl)⟩, ?_⟩
  · refine hi.q.transfer ?_ ?_ ?_ ?_
    · intro r'; rw [hq]; split
      · exact (hi.q.putQ r).1.erase e
      · exact (hi.q.putQ r').1
    · intro r'; rw [hgq]; exact (hi.q.getQ r').1
    · intro r' x hx
      rw [hq] at hx
      have hx' : x ∈ (s.res r').putQ ∧ x ≠ e := by
        split at hx
        · rename_i h; rw [h]
          exact ⟨List.mem_of_mem_erase hx, fun hxe => by
            rw [hxe] at hx; exact absurd hx (List.Nodup.not_mem_erase (hi.q.putQ r).1)⟩
        · rename_i h
          refine ⟨hx, fun hxe => h ?_⟩
          have := ((hi.q.putQ r').2 x hx).1
          rw [hxe, hke.1] at this
          cases this; rfl
      rw [hevx x hx'.2]
      exact ⟨hx'.1, rfl, ((hi.q.putQ r').2 x hx'.1).2⟩
    · intro r' x hx
      rw [hgq] at hx
      have hne : x ≠ e := by
        intro hxe
        have := ((hi.q.getQ r').2 x hx).1
        rw [hxe, hke.1] at this
        cases this
      rw [hevx x hne]
      exact ⟨hx, rfl, ((hi.q.getQ r').2 x hx).2⟩
  · intro x hx hne
    rw [hq, if_pos rfl]
    exact (List.mem_erase_of_ne hne).mpr hx

theorem Inv.trigger_dropGet {g : Ghost} {s : KState ℚ σ} (hi : Inv g s) (r : ResId) (e : EvId) (o : Outcome)
    (he : e ∈ (s.res r).getQ) :
    Inv g (_root_.dropGetQ (s.trigger e o) r e) ∧
    ∀ x ∈ (s.res r).getQ, x ≠ e → x ∈ ((_root_.dropGetQ (s.trigger e o) r e).res r).getQ := by
  have hke := (hi.q.getQ r).2 e he
  have hrlt : r < s.resources.size := by
    by_contra hc
    have : s.res r = default := by
      simp only [KState.res, Array.getD_eq_getD_getElem?]
      rw [Array.getElem?_eq_none (Nat.le_of_not_lt hc)]; rfl
    rw [this] at he; exact absurd he (by simp [default])
  obtain ⟨hc, hl⟩ := hi.trigger_req e o hke.2 (Or.inr ⟨r, hke.1⟩)
  have hq : ∀ r', ((_root_.dropGetQ (s.trigger e o) r e).res r').getQ =
      if r' = r then (s.res r).getQ.erase e else (s.res r').getQ := by
    intro r'
    unfold _root_.dropGetQ
    rw [(res_setGetQ _ r r' _).1]
    by_cases h : r' = r
    · rw [if_pos ⟨h, hrlt⟩, if_pos h]; rfl
    · rw [if_neg (fun hh => h hh.1), if_neg h]; rfl
  have hpq : ∀ r', ((_root_.dropGetQ (s.trigger e o) r e).res r').putQ = (s.res r').putQ := by
    intro r'
    unfold _root_.dropGetQ
    rw [(res_setGetQ _ r r' _).2]; rfl
  have hevx : ∀ x, x ≠ e → (_root_.dropGetQ (s.trigger e o) r e).ev x = s.ev x := fun x hx => ev_trigger_ne s e x o hx
  refine ⟨⟨hc.congr (SameC.of_events rfl rfl rfl), ?_, hl.congr (SameC.of_events rfl rfl rfl),
    (hi.s.trigger e o).congr (SameC.of_events rfl rfl rfl)⟩, ?_⟩
  · refine hi.q.transfer ?_ ?_ ?_ ?_
    · intro r'; rw [hpq]; exact (hi.q.putQ r').1
    · intro r'; rw [hq]; split
      · exact (hi.q.getQ r).1.erase e
      · exact (hi.q.getQ r').1
    · intro r' x hx
      rw [hpq] at hx
      have hne : x ≠ e := by
        intro hxe
        have := ((hi.q.putQ r').2 x hx).1
        rw [hxe, hke.1] at this
        cases this
      rw [hevx x hne]
      exact ⟨hx, rfl, ((hi.q.putQ r').2 x hx).2⟩
    · intro r' x hx
      rw [hq] at hx
      have hx' : x ∈ (s.res r').getQ ∧ x ≠ e := by
        split at hx
        · rename_i h; rw [h]
          exact ⟨List.mem_of_mem_erase hx, fun hxe => by
            rw [hxe] at hx; exact absurd hx (List.Nodup.not_mem_erase (hi.q.getQ r).1)⟩
        · rename_i h
          refine ⟨hx, fun hxe => h ?_⟩
          have := ((hi.q.getQ r').2 x hx).1
          rw [hxe, hke.1] at this
          cases this; rfl
      rw [hevx x hx'.2]
      exact ⟨hx'.1, rfl, ((hi.q.getQ r').2 x hx'.1).2⟩
  · intro x hx hne
    rw [hq, if_pos rfl]
    exact (List.mem_erase_of_ne hne).mpr hx

/-! ## the scans -/

/-- `applyPut` is a resource update (and `usage_since`) followed by the trigger of the request -/
theorem applyPut_shape (s : KState ℚ σ) (r : ResId) (e : EvId) :
    ∃ X : KState ℚ σ, _root_.applyPut s r e = X.trigger e (.ok .none) ∧ (∀ g, Inv g s → Inv g X) ∧
      (∀ r', (X.res r').putQ = (s.res r').putQ) ∧ X.events.size = s.events.size := by
  unfold _root_.applyPut
  simp only
  split
  · refine ⟨_, rfl, fun g h => (h.setUsers r _).setUsage e, fun r' => ?_, ?_⟩
    · show ((s.setUsers r _).res r').putQ = _
      exact (putQ_setUsers s r r' _).1
    · unfold KState.setUsage; rw [size_setEv]; rfl
  · refine ⟨_, rfl, fun g h => (h.setUsers r _).setUsage e, fun r' => ?_, ?_⟩
    · show ((s.setUsers r _).res r').putQ = _
      exact (putQ_setUsers s r r' _).1
    · unfold KState.setUsage; rw [size_setEv]; rfl
  · refine ⟨_, rfl, fun g h => (h.setUsers r _).setUsage e, fun r' => ?_, ?_⟩
    · show ((s.setUsers r _).res r').putQ = _
      exact (putQ_setUsers s r r' _).1
    · unfold KState.setUsage; rw [size_setEv]; rfl
  · exact ⟨_, rfl, fun g h => h.setLevel r _, fun r' => (putQ_setLevel s r r' _).1, rfl⟩
  · exact ⟨_, rfl, fun g h => h.setItems r _, fun r' => (putQ_setItems s r r' _).1, rfl⟩
  · exact ⟨_, rfl, fun g h => h.setItems r _, fun r' => (putQ_setItems s r r' _).1, rfl⟩
  · exact ⟨_, rfl, fun g h => h.setItems r _, fun r' => (putQ_setItems s r r' _).1, rfl⟩

theorem takeOut_shape (s : KState ℚ σ) (r : ResId) (e : EvId) (v : Val) :
    (∀ g, Inv g s → Inv g (_root_.takeOut s r e v)) ∧ (∀ r', ((_root_.takeOut s r e v).res r').getQ = (s.res r').getQ) ∧
      (_root_.takeOut s r e v).events.size = s.events.size := by
  unfold _root_.takeOut
  simp only
  split
  · exact ⟨fun g h => h.setUsers r _, fun r' => (putQ_setUsers s r r' _).2, rfl⟩
  · exact ⟨fun g h => h.setUsers r _, fun r' => (putQ_setUsers s r r' _).2, rfl⟩
  · exact ⟨fun g h => h.setUsers r _, fun r' => (putQ_setUsers s r r' _).2, rfl⟩
  · exact ⟨fun g h => h.setLevel r _, fun r' => (putQ_setLevel s r r' _).2, rfl⟩
  · exact ⟨fun g h => h.setItems r _, fun r' => (putQ_setItems s r r' _).2, rfl⟩
  · split
    · exact ⟨fun g h => h.setItems r _, fun r' => (putQ_setItems s r r' _).2, rfl⟩
    · exact ⟨fun g h => h, fun r' => rfl, rfl⟩
  · split
    · exact ⟨fun g h => h.setItems r _, fun r' => (putQ_setItems s r r' _).2, rfl⟩
    · exact ⟨fun g h => h, fun r' => rfl, rfl⟩

/-- **`_trigger_put`**: every request it grants was pending, and leaves the queue at once -/
theorem Inv.scanPut {g : Ghost} (r : ResId) : ∀ (q : List EvId) (s : KState ℚ σ), Inv g s → q.Nodup →
    (∀ e ∈ q, e ∈ (s.res r).putQ) → Inv g (_root_.scanPut r q s)
  | [], s, hi, _, _ => hi
  | e :: rest, s, hi, hnd, hsub => by
    unfold _root_.scanPut
    simp only
    have h0 : Inv g (_root_.prePut s r e) := hi.prePut r e
    have hq0 : ∀ x ∈ e :: rest, x ∈ ((_root_.prePut s r e).res r).putQ := by
      intro x hx; rw [(prePut_queues s r e r).1]; exact hsub x hx
    have he0 := hq0 e List.mem_cons_self
    have hnd' := List.nodup_cons.mp hnd
    unfold _root_.doPut
    split
    · -- granted
      obtain ⟨X, hX, hXi, hXq, hXs⟩ := applyPut_shape (_root_.prePut s r e) r e
      simp only
      rw [hX]
      have heX : e ∈ (X.res r).putQ := by rw [hXq]; exact he0
      have hiX := hXi g h0
      have hlt : e < X.events.size := hiX.q.mem_put_lt r e heX
      rw [triggered_trigger X e _ hlt]
      simp only [if_true]
      obtain ⟨h1, h2⟩ := hiX.trigger_dropPut r e (.ok .none) heX
      refine Inv.scanPut r rest _ h1 hnd'.2 ?_
      intro x hx
      refine h2 x ?_ ?_
      · rw [hXq]; exact hq0 x (List.mem_cons_of_mem _ hx)
      · intro hxe; rw [hxe] at hx; exact hnd'.1 hx
    · -- blocked
      simp only
      have : (_root_.prePut s r e).triggered e = false := by
        unfold KState.triggered
        rw [((h0.q.putQ r).2 e he0).2]; rfl
      rw [this]
      simp only [Bool.false_eq_true, if_false]
      exact h0

theorem Inv.scanGet {g : Ghost} (r : ResId) : ∀ (q : List EvId) (s : KState ℚ σ), Inv g s → q.Nodup →
    (∀ e ∈ q, e ∈ (s.res r).getQ) → Inv g (_root_.scanGet r q s)
  | [], s, hi, _, _ => hi
  | e :: rest, s, hi, hnd, hsub => by
    unfold _root_.scanGet
    simp only
    have he0 := hsub e List.mem_cons_self
    have hnd' := List.nodup_cons.mp hnd
    have hnt : s.triggered e = false := by
      unfold KState.triggered
      rw [((hi.q.getQ r).2 e he0).2]; rfl
    unfold _root_.doGet
    split
    · rename_i v hv
      obtain ⟨hTi, hTq, hTs⟩ := takeOut_shape s r e v
      simp only
      have heX : e ∈ ((_root_.takeOut s r e v).res r).getQ := by rw [hTq]; exact he0
      have hiX := hTi g hi
      have hlt : e < (_root_.takeOut s r e v).events.size := hiX.q.mem_get_lt r e heX
      rw [triggered_trigger _ e _ hlt]
      simp only [if_true]
      obtain ⟨h1, h2⟩ := hiX.trigger_dropGet r e (.ok v) heX
      have hrest : ∀ x ∈ rest, x ∈ ((_root_.dropGetQ ((_root_.takeOut s r e v).trigger e (.ok v)) r e).res r).getQ := by
        intro x hx
        refine h2 x ?_ ?_
        · rw [hTq]; exact hsub x (List.mem_cons_of_mem _ hx)
        · intro hxe; rw [hxe] at hx; exact hnd'.1 hx
      exact Inv.scanGet r rest _ h1 hnd'.2 hrest
    · simp only
      rw [hnt]
      simp only [Bool.false_eq_true, if_false]
      split
      · exact Inv.scanGet r rest s hi hnd'.2 (fun x hx => hsub x (List.mem_cons_of_mem _ hx))
      · exact hi

theorem Inv.triggerPut {g : Ghost} {s : KState ℚ σ} (hi : Inv g s) (r : ResId) : Inv g (_root_.triggerPut s r) :=
  Inv.scanPut r _ s hi (hi.q.putQ r).1 (fun _ h => h)

theorem Inv.triggerGet {g : Ghost} {s : KState ℚ σ} (hi : Inv g s) (r : ResId) : Inv g (_root_.triggerGet s r) :=
  Inv.scanGet r _ s hi (hi.q.getQ r).1 (fun _ h => h)

/-! ## request creation and cancellation -/

theorem insertSorted_perm (s : KState ℚ σ) (e : EvId) : ∀ l : List EvId, (_root_.insertSorted s e l).Perm (e :: l)
  | [] => List.Perm.refl _
  | x :: xs => by
    unfold insertSorted
    split
    · exact List.Perm.refl _
    · exact ((insertSorted_perm s e xs).cons x).trans (List.Perm.swap _ _ _)

/-- a fresh request event is created and queued -/
theorem Inv.newPut {g : Ghost} {s : KState ℚ σ} (hi : Inv g s) (r : ResId) (rq : ReqData ℚ) :
    Inv g (_root_.enqPut (s.newLabelled { kind := .put r, cbs := some [.trigGet r], out := none, req := some rq }).1 r s.events.size) := by
  have h1 : Inv g (s.newLabelled { kind := .put r, cbs := some [.trigGet r], out := none, req := some rq }).1 :=
    hi.newLabelled_pending _ [.trigGet r] rfl (fun p hm => by simp at hm) (fun iv hm => by simp at hm)
      (fun c hm => by simp at hm) rfl
  generalize hs1 : (s.newLabelled { kind := .put r, cbs := some [.trigGet r], out := none, req := some rq }).1 = s1 at h1
  have hres : ∀ r', s1.res r' = s.res r' := fun r' => by rw [← hs1]; rfl
  have hnew : (s1.ev s.events.size).kind = .put r ∧ (s1.ev s.events.size).out = none := by
    rw [← hs1, KState.ev_newLabelled, if_pos rfl]; exact ⟨rfl, rfl⟩
  have hfresh : s.events.size ∉ (s.res r).putQ := fun h => Nat.lt_irrefl _ (hi.q.mem_put_lt r _ h)
  unfold _root_.enqPut
  refine ⟨h1.c.congr (SameC.of_events rfl rfl rfl), ?_, h1.l.congr (SameC.of_events rfl rfl rfl),
    h1.s.congr (SameC.of_events rfl rfl rfl)⟩
  have hperm : ∀ l : List EvId, (if isPrioKind (s1.res r).kind then _root_.insertSorted s1 s.events.size l else l ++ [s.events.size]).Perm
      (s.events.size :: l) := by
    intro l
    split
    · exact insertSorted_perm s1 _ l
    · exact List.perm_append_singleton _ _
  refine ⟨fun r' => ?_, fun r' => ?_⟩
  · rw [(res_setPutQ s1 r r' _).1]
    split
    · rename_i h
      rw [h.1]
      refine ⟨(hperm _).nodup_iff.mpr (List.nodup_cons.mpr ⟨by rw [hres]; exact hfresh, (h1.q.putQ r).1⟩), ?_⟩
      intro x hx
      rcases List.mem_cons.mp ((hperm _).mem_iff.mp hx) with hx | hx
      · rw [hx]; exact hnew
      · exact (h1.q.putQ r).2 x hx
    · exact h1.q.putQ r'
  · rw [(res_setPutQ s1 r r' _).2]; exact h1.q.getQ r'

theorem Inv.newGet {g : Ghost} {s : KState ℚ σ} (hi : Inv g s) (r : ResId) (rq : ReqData ℚ) :
    Inv g (_root_.enqGet (s.newLabelled { kind := .get r, cbs := some [.trigPut r], out := none, req := some rq }).1 r s.events.size) := by
  have h1 : Inv g (s.newLabelled { kind := .get r, cbs := some [.trigPut r], out := none, req := some rq }).1 :=
    hi.newLabelled_pending _ [.trigPut r] rfl (fun p hm => by simp at hm) (fun iv hm => by simp at hm)
      (fun c hm => by simp at hm) rfl
  generalize hs1 : (s.newLabelled { kind := .get r, cbs := some [.trigPut r], out := none, req := some rq }).1 = s1 at h1
  have hres : ∀ r', s1.res r' = s.res r' := fun r' => by rw [← hs1]; rfl
  have hnew : (s1.ev s.events.size).kind = .get r ∧ (s1.ev s.events.size).out = none := by
    rw [← hs1, KState.ev_newLabelled, if_pos rfl]; exact ⟨rfl, rfl⟩
  have hfresh : s.events.size ∉ (s.res r).getQ := fun h => Nat.lt_irrefl _ (hi.q.mem_get_lt r _ h)
  unfold _root_.enqGet
  refine ⟨h1.c.congr (SameC.of_events rfl rfl rfl), ?_, h1.l.congr (SameC.of_events rfl rfl rfl),
    h1.s.congr (SameC.of_events rfl rfl rfl)⟩
  refine ⟨fun r' => ?_, fun r' => ?_⟩
  · rw [(res_setGetQ s1 r r' _).2]; exact h1.q.putQ r'
  · rw [(res_setGetQ s1 r r' _).1]
    split
    · rename_i h
      rw [h.1]
      refine ⟨(List.perm_append_singleton _ _).nodup_iff.mpr
        (List.nodup_cons.mpr ⟨by rw [hres]; exact hfresh, (h1.q.getQ r).1⟩), ?_⟩
      intro x hx
      rcases List.mem_append.mp hx with hx | hx
      · exact (h1.q.getQ r).2 x hx
      · rw [List.mem_singleton.mp hx]; exact hnew
    · exact h1.q.getQ r'

theorem Inv.mkPut {g : Ghost} {s : KState ℚ σ} (hi : Inv g s) (r : ResId) (rq : ReqData ℚ) : Inv g (_root_.mkPut s r rq).1 := by
  unfold _root_.mkPut
  exact (hi.newPut r rq).triggerPut r

theorem Inv.mkGet {g : Ghost} {s : KState ℚ σ} (hi : Inv g s) (r : ResId) (rq : ReqData ℚ) : Inv g (_root_.mkGet s r rq).1 := by
  unfold _root_.mkGet
  exact (hi.newGet r rq).triggerGet r

theorem Inv.cancelReq {g : Ghost} {s : KState ℚ σ} (hi : Inv g s) (e : EvId) : Inv g (_root_.cancelReq s e).1 := by
  unfold _root_.cancelReq
  split
  · exact hi
  · split
    · split
      · exact (hi.dropPutQ _ _).triggerPut _
      · exact hi
    · split
      · exact (hi.dropGetQ _ _).triggerGet _
      · exact hi
    · exact hi

end Once
