import OnlVerif.Kernel.Step
/-! # Reading events and resources back after a leaf update (core Lean only) -/

variable {τ σ : Type}

theorem getD_setIfInBounds {α} (a : Array α) (i j : Nat) (x d : α) :
    (a.setIfInBounds i x).getD j d = if j = i ∧ i < a.size then x else a.getD j d := by
  simp only [Array.getD_eq_getD_getElem?, Array.getElem?_setIfInBounds]
  by_cases h1 : i = j
  · subst h1
    by_cases h2 : i < a.size
    · simp [h2]
    · simp [h2]
  · have : ¬ j = i := fun h => h1 h.symm
    simp [h1, this]

theorem getD_push {α} (a : Array α) (j : Nat) (x d : α) :
    (a.push x).getD j d = if j = a.size then x else a.getD j d := by
  simp only [Array.getD_eq_getD_getElem?, Array.getElem?_push]
  by_cases h : j = a.size
  · simp [h]
  · simp [h]

namespace KState

theorem ev_setEv (s : KState τ σ) (e e' : EvId) (r : EvRec τ) :
    (s.setEv e r).ev e' = if e' = e ∧ e < s.events.size then r else s.ev e' := by
  simp only [ev, setEv, getD_setIfInBounds]

theorem res_setRes (s : KState τ σ) (r r' : ResId) (x : ResRec) :
    (s.setRes r x).res r' = if r' = r ∧ r < s.resources.size then x else s.res r' := by
  simp only [res, setRes, getD_setIfInBounds]

theorem ev_newEv (s : KState τ σ) (r : EvRec τ) (e' : EvId) :
    (s.newEv r).1.ev e' = if e' = s.events.size then r else s.ev e' := by
  simp only [ev, newEv, getD_push]

theorem ev_newLabelled (s : KState τ σ) (r : EvRec τ) (e' : EvId) :
    (s.newLabelled r).1.ev e' = if e' = s.events.size then { r with label := s.nlabel + 1 } else s.ev e' := by
  simp only [ev, newLabelled, getD_push]

@[simp] theorem res_setEv (s : KState τ σ) (e : EvId) (x : EvRec τ) (r : ResId) : (s.setEv e x).res r = s.res r := rfl
@[simp] theorem res_newEv (s : KState τ σ) (x : EvRec τ) (r : ResId) : (s.newEv x).1.res r = s.res r := rfl
@[simp] theorem res_newLabelled (s : KState τ σ) (x : EvRec τ) (r : ResId) : (s.newLabelled x).1.res r = s.res r := rfl
@[simp] theorem res_schedule [Num τ] (s : KState τ σ) (e : EvId) (p : Nat) (d : τ) (r : ResId) : (s.schedule e p d).res r = s.res r := rfl
@[simp] theorem res_emit (s : KState τ σ) (o : Obs τ) (r : ResId) : (s.emit o).res r = s.res r := rfl
@[simp] theorem res_setProc (s : KState τ σ) (p : EvId) (x : ProcRec σ) (r : ResId) : (s.setProc p x).res r = s.res r := rfl
@[simp] theorem ev_setRes (s : KState τ σ) (r : ResId) (x : ResRec) (e : EvId) : (s.setRes r x).ev e = s.ev e := rfl
@[simp] theorem ev_schedule [Num τ] (s : KState τ σ) (e' : EvId) (p : Nat) (d : τ) (e : EvId) : (s.schedule e' p d).ev e = s.ev e := rfl
@[simp] theorem ev_emit (s : KState τ σ) (o : Obs τ) (e : EvId) : (s.emit o).ev e = s.ev e := rfl
@[simp] theorem ev_setProc (s : KState τ σ) (p : EvId) (x : ProcRec σ) (e : EvId) : (s.setProc p x).ev e = s.ev e := rfl

/-- the `req` field of every event is untouched by an update of `e` that keeps `req` -/
theorem req_setEv_keep (s : KState τ σ) (e e' : EvId) (r : EvRec τ) (h : r.req = (s.ev e).req) :
    ((s.setEv e r).ev e').req = (s.ev e').req := by
  rw [ev_setEv]
  split
  · rename_i hc; rw [hc.1]; exact h
  · rfl

end KState
