import Mathlib.Tactic.Linarith
import Mathlib.Algebra.Order.Field.Rat
import OnlVerif.Util.Rt
import OnlVerif.Kernel.Step
/-!
# `RealtimeEnvironment.step`: the sleep loop, the strict test, runs (exact rational wall clock)
-/

namespace Rt

theorem zero_eq : (Num.zero : ℚ) = 0 := by
  show ((0 : ℕ) : ℚ) = 0
  simp

/-! ### the sleep loop -/

/-- the loop leaves at the first reading that has reached the due instant; every earlier reading was before it and
caused one `sleep(due - reading)` with a positive argument -/
theorem sleepLoop_done {due : ℚ} : ∀ {clock acc sleeps : List ℚ} {last : ℚ} {rest : List ℚ},
    sleepLoop due clock acc = .done sleeps last rest →
    ∃ pre, clock = pre ++ last :: rest ∧ due ≤ last ∧ (∀ c ∈ pre, c < due) ∧
      sleeps = acc ++ pre.map (fun c => due - c)
  | [], acc, sleeps, last, rest, h => by simp [sleepLoop] at h
  | c :: cs, acc, sleeps, last, rest, h => by
    rw [sleepLoop] at h
    split at h
    · rename_i hle
      rw [zero_eq] at hle
      cases h
      exact ⟨[], rfl, by linarith, by simp, by simp⟩
    · rename_i hgt
      rw [zero_eq] at hgt
      obtain ⟨pre, h1, h2, h3, h4⟩ := sleepLoop_done h
      refine ⟨c :: pre, by rw [h1]; rfl, h2, ?_, ?_⟩
      · intro x hx
        rcases List.mem_cons.mp hx with rfl | hx
        · linarith [not_le.mp hgt]
        · exact h3 x hx
      · rw [h4]; simp

/-- if the readings run out, none of them had reached the due instant -/
theorem sleepLoop_starved {due : ℚ} : ∀ {clock acc sl : List ℚ}, sleepLoop due clock acc = .starved sl →
    ∀ c ∈ clock, c < due
  | [], _, _, _ => by simp
  | c :: cs, acc, sl, h => by
    rw [sleepLoop] at h
    split at h
    · cases h
    · rename_i hgt
      rw [zero_eq] at hgt
      intro x hx
      rcases List.mem_cons.mp hx with rfl | hx
      · linarith [not_le.mp hgt]
      · exact sleepLoop_starved h x hx

/-- progress: the loop terminates as soon as the clock shows a reading at or after the due instant -/
theorem sleepLoop_terminates {due : ℚ} {clock : List ℚ} (acc : List ℚ) (h : ∃ c ∈ clock, due ≤ c) :
    ∃ sleeps last rest, sleepLoop due clock acc = .done sleeps last rest := by
  cases hr : sleepLoop due clock acc with
  | done sleeps last rest => exact ⟨sleeps, last, rest, rfl⟩
  | starved sl =>
    obtain ⟨c, hc, hle⟩ := h
    have := sleepLoop_starved hr c hc
    linarith

/-! ### one step -/

variable {κ ρ : Type}

theorem sleepThenStep_stepped {kstep : κ → ρ} {s : RtState ℚ κ} {due : ℚ} {clock : List ℚ} {r : ρ}
    {sleeps : List ℚ} {last : ℚ} {rest : List ℚ} (h : sleepThenStep kstep s due clock = .stepped r sleeps last rest) :
    r = kstep s.k ∧ ∃ pre, clock = pre ++ last :: rest ∧ due ≤ last ∧ (∀ c ∈ pre, c < due) ∧
      sleeps = pre.map (fun c => due - c) := by
  unfold sleepThenStep at h
  split at h
  · rename_i sl la re hsl
    cases h
    obtain ⟨pre, h1, h2, h3, h4⟩ := sleepLoop_done hsl
    exact ⟨rfl, pre, h1, h2, h3, by simpa using h4⟩
  · cases h

theorem sleepThenStep_not_tooSlow {kstep : κ → ρ} {s : RtState ℚ κ} {due : ℚ} {clock : List ℚ} {d : ℚ} {rest : List ℚ} :
    sleepThenStep kstep s due clock ≠ .tooSlow d rest := by
  unfold sleepThenStep
  split <;> intro h <;> cases h

theorem sleepThenStep_not_empty {kstep : κ → ρ} {s : RtState ℚ κ} {due : ℚ} {clock : List ℚ} :
    sleepThenStep kstep s due clock ≠ .emptySchedule := by
  unfold sleepThenStep
  split <;> intro h <;> cases h

/-- what a normally returning `step()` has done -/
theorem rtStep_stepped {peek : κ → Option ℚ} {kstep : κ → ρ} {s : RtState ℚ κ} {clock : List ℚ} {r : ρ}
    {sleeps : List ℚ} {last : ℚ} {rest : List ℚ} (h : rtStep peek kstep s clock = .stepped r sleeps last rest) :
    r = kstep s.k ∧ ∃ t, peek s.k = some t ∧ dueTime s t ≤ last ∧
      ∃ pre, clock = pre ++ last :: rest ∧
        (∀ c ∈ pre.drop (if s.strict then 1 else 0), c < dueTime s t) ∧
        (s.strict = true → ∃ c1, (pre ++ [last]).head? = some c1 ∧ c1 - dueTime s t ≤ s.factor) := by
  unfold rtStep at h
  split at h
  · cases h
  · rename_i t hp
    unfold strictPhase at h
    split at h
    · rename_i hs
      split at h
      · cases h
      · rename_i c1 cs
        split at h
        · split at h <;> cases h
        · rename_i hnl
          obtain ⟨hr, pre, h1, h2, h3, _⟩ := sleepThenStep_stepped h
          refine ⟨hr, t, hp, h2, c1 :: pre, by rw [h1]; rfl, ?_, ?_⟩
          · simpa [hs] using h3
          · intro _
            exact ⟨c1, rfl, not_lt.mp hnl⟩
    · rename_i hs
      obtain ⟨hr, pre, h1, h2, h3, _⟩ := sleepThenStep_stepped h
      refine ⟨hr, t, hp, h2, pre, h1, ?_, ?_⟩
      · simpa [hs] using h3
      · intro hc; exact absurd hc hs

/-- the too-slow error: exactly when strict and the first reading is more than `factor` past due -/
theorem rtStep_tooSlow_iff {peek : κ → Option ℚ} {kstep : κ → ρ} {s : RtState ℚ κ} {clock : List ℚ} {d : ℚ}
    {rest : List ℚ} :
    rtStep peek kstep s clock = .tooSlow d rest ↔
      ∃ t c1 c2, peek s.k = some t ∧ clock = c1 :: c2 :: rest ∧ s.strict = true ∧
        s.factor < c1 - dueTime s t ∧ d = c2 - dueTime s t := by
  constructor
  · intro h
    unfold rtStep at h
    split at h
    · cases h
    · rename_i t hp
      unfold strictPhase at h
      split at h
      · rename_i hs
        split at h
        · cases h
        · rename_i c1 cs
          split at h
          · rename_i hlt
            split at h
            · cases h
            · rename_i c2 rest'
              cases h
              exact ⟨t, c1, c2, hp, rfl, hs, hlt, rfl⟩
          · exact absurd h sleepThenStep_not_tooSlow
      · exact absurd h sleepThenStep_not_tooSlow
  · rintro ⟨t, c1, c2, hp, rfl, hs, hlt, rfl⟩
    unfold rtStep
    rw [hp]
    simp only [strictPhase, hs, if_true, hlt]

theorem rtStep_empty_iff {peek : κ → Option ℚ} {kstep : κ → ρ} {s : RtState ℚ κ} {clock : List ℚ} :
    rtStep peek kstep s clock = .emptySchedule ↔ peek s.k = none := by
  constructor
  · intro h
    unfold rtStep at h
    split at h
    · rename_i hp; exact hp
    · unfold strictPhase at h
      split at h
      · split at h
        · cases h
        · split at h
          · split at h <;> cases h
          · exact absurd h sleepThenStep_not_empty
      · exact absurd h sleepThenStep_not_empty
  · intro h
    unfold rtStep
    rw [h]

/-! ### runs -/

theorem count_sync (ops : List RtOp) : (RtOp.sync :: ops).count RtOp.step = ops.count RtOp.step := by
  simp

theorem count_step (ops : List RtOp) : (RtOp.step :: ops).count RtOp.step = ops.count RtOp.step + 1 := by
  simp

/-- the `Environment.step` results of a real-time run are a prefix of the results of the un-paced run, whatever the
clock does and wherever `sync()` is called; if the run executes all its operations they are all of them -/
theorem rtRun_results (peek : κ → Option ℚ) (kstep : κ → ρ) (cont : ρ → Option κ) :
    ∀ (ops : List RtOp) (s : RtState ℚ κ) (clock : List ℚ),
      (rtRun peek kstep cont ops s clock).results <+: plainRun kstep cont (ops.count RtOp.step) s.k ∧
      ((rtRun peek kstep cont ops s clock).ending = RunEnd.finished →
        (rtRun peek kstep cont ops s clock).results = plainRun kstep cont (ops.count RtOp.step) s.k)
  | [], s, clock => by simp [rtRun, plainRun]
  | .sync :: ops, s, clock => by
    rw [count_sync]
    cases clock with
    | nil => simp [rtRun]
    | cons c cs =>
      rw [rtRun]
      exact rtRun_results peek kstep cont ops (sync s c) cs
  | .step :: ops, s, clock => by
    rw [count_step, rtRun]
    cases hst : rtStep peek kstep s clock with
    | emptySchedule => simp
    | tooSlow d rest => simp
    | starved => simp
    | stepped r sleeps last rest =>
      have hr : r = kstep s.k := (rtStep_stepped hst).1
      subst hr
      simp only
      cases hc : cont (kstep s.k) with
      | none =>
        simp only [plainRun, hc]
        exact ⟨List.prefix_refl _, fun h => by cases h⟩
      | some k' =>
        simp only [plainRun, hc]
        have ih := rtRun_results peek kstep cont ops { s with k := k' } rest
        exact ⟨List.cons_prefix_cons.mpr ⟨rfl, ih.1⟩, fun h => by rw [ih.2 h]⟩

/-! ### the kernel model `K` underneath -/

section K
variable {σ : Type}

theorem closeEvent_ne_empty (l : LoopSt ℚ σ) (e : EvId) : closeEvent l e ≠ .empty := by
  unfold closeEvent
  split
  · intro h; cases h
  · split
    · split <;> intro h <;> cases h
    · intro h; cases h

/-- `peek()` says `Infinity` exactly when `Environment.step` would raise `EmptySchedule` -/
theorem peek_none_iff_step_empty (body : σ → Resume → Burst ℚ σ) (fuel : Nat) (k : KState ℚ σ) :
    peekTime k.agenda = none ↔ step body fuel k = .empty := by
  unfold peekTime step
  cases hp : popMin k.agenda with
  | none => simp
  | some qr =>
    obtain ⟨q, rest⟩ := qr
    simp only [Option.map_some, reduceCtorEq, false_iff]
    split
    · intro h; cases h
    · exact closeEvent_ne_empty _ _

end K

end Rt
