import OnlVerif.Lemmas.SplitStripOps
import OnlVerif.Lemmas.SplitStep
/-!
# Erasing stop callbacks commutes with `_resume`, the callback loop and `step` (C03, stage 2)

The simulation lemma of stage 2: a kernel step from a state with additional `.stop` callbacks does exactly what the step
from the stop-free state does — same pop, same callbacks in the same order, same reads, same updates — and in addition
records the stop when the processed event carried one.
-/

set_option linter.unusedSectionVars false

variable {τ σ : Type} [Num τ]
variable (P : EvId → Bool)

@[kstrip] theorem noteErr_stripBy (self : EvId) (s : KState τ σ) (r : Reply) :
    noteErr self (s.stripBy P, r) = (noteErr self (s, r)).stripBy P := by
  unfold noteErr
  ksimp
  ksplit

/-- **bursts**: for every program fragment, the burst from the state with stops makes the same calls, gets the same
replies, ends the same way, and leaves the same state up to the stops -/
@[kstrip] theorem runBurst_stripBy (self : EvId) (b : Burst τ σ) (s : KState τ σ) :
    runBurst self b (s.stripBy P) = ((runBurst self b s).1.stripBy P, (runBurst self b s).2) := by
  induction b generalizing s with
  | call c k ih =>
    simp only [runBurst]
    rw [doCall_stripBy, noteErr_stripBy]
    exact ih _ _
  | yield e st => rfl
  | ret v => rfl
  | raise x => rfl

@[kstrip] theorem resumeArg_stripBy (s : KState τ σ) (p e : EvId) : resumeArg (s.stripBy P) p e = resumeArg s p e := by
  unfold resumeArg
  ksimp

@[kstrip] theorem deliverSt_stripBy (s : KState τ σ) (p e : EvId) : deliverSt (s.stripBy P) p e = (deliverSt s p e).stripBy P := by
  unfold deliverSt
  ksimp
  ksplit

@[kstrip] theorem deliver_stripBy (s : KState τ σ) (p e : EvId) :
    deliver (s.stripBy P) p e = ((deliver s p e).1.stripBy P, (deliver s p e).2) := by
  unfold deliver
  ksimp

@[kstrip] theorem finishProc_stripBy (s : KState τ σ) (p : EvId) (pr : ProcRec σ) (o : Outcome) :
    finishProc (s.stripBy P) p pr o = (finishProc s p pr o).stripBy P := by
  unfold finishProc
  ksimp

@[kstrip] theorem register_stripBy (s : KState τ σ) (p e' : EvId) :
    register (s.stripBy P) p e' = (register s p e').map (KState.stripBy P) := by
  unfold register
  ksimp
  ksplit

@[kstrip] theorem resume_stripBy (body : σ → Resume → Burst τ σ) (p : EvId) (fuel : Nat) (e : EvId) (s : KState τ σ) :
    resume body p fuel e (s.stripBy P) = (resume body p fuel e s).stripBy P := by
  induction fuel generalizing e s with
  | zero => rfl
  | succ n ih =>
    unfold resume
    ksimp
    cases s.proc? p with
    | none => rfl
    | some pr =>
      simp only
      cases (runBurst p (body pr.st (deliver s p e).2)
        ((deliver s p e).1.emit (.resumed p (deliver s p e).2 (deliver s p e).1.now))).2 with
      | returned v => rfl
      | raised x => rfl
      | yielded e' st' =>
        simp only
        cases register ((runBurst p (body pr.st (deliver s p e).2)
          ((deliver s p e).1.emit (.resumed p (deliver s p e).2 (deliver s p e).1.now))).1.setProc p
            { st := st', target := some e' }) p e' with
        | none => simp only [Option.map_none, ih]
        | some s3 => rfl

@[kstrip] theorem deliverInterrupt_stripBy (body : σ → Resume → Burst τ σ) (fuel : Nat) (iv p : EvId) (s : KState τ σ) :
    deliverInterrupt body fuel iv p (s.stripBy P) = (deliverInterrupt body fuel iv p s).stripBy P := by
  unfold deliverInterrupt
  ksimp
  ksplit

/-- **one callback**: the state it leaves commutes with the erasure; the recorded stop is the same -/
theorem runCb_stripBy (body : σ → Resume → Burst τ σ) (fuel : Nat) (e : EvId) (l : LoopSt τ σ) (cb : Cb) :
    runCb body fuel e { s := l.s.stripBy P, stop := l.stop } cb =
      { s := (runCb body fuel e l cb).s.stripBy P, stop := (runCb body fuel e l cb).stop } := by
  unfold runCb
  cases cb <;> ksimp
  case intr iv => ksplit

/-- a callback other than the stop does not touch the recorded stop -/
theorem runCb_stop_field (body : σ → Resume → Burst τ σ) (fuel : Nat) (e : EvId) (l : LoopSt τ σ) (cb : Cb) (h : cb ≠ .stop) :
    (runCb body fuel e l cb).stop = l.stop := by
  unfold runCb
  cases cb <;> simp only
  case stop => exact absurd rfl h
  case intr iv => split <;> rfl

/-- the state a callback leaves does not depend on the recorded stop -/
theorem runCb_state_indep (body : σ → Resume → Burst τ σ) (fuel : Nat) (e : EvId) (s : KState τ σ) (o1 o2 : Option Outcome)
    (cb : Cb) : (runCb body fuel e { s := s, stop := o1 } cb).s = (runCb body fuel e { s := s, stop := o2 } cb).s := by
  unfold runCb
  cases cb <;> simp only
  case intr iv => split <;> rfl

/-- the stop callback itself leaves the state alone -/
theorem runCb_stop_state (body : σ → Resume → Burst τ σ) (fuel : Nat) (e : EvId) (l : LoopSt τ σ) :
    (runCb body fuel e l .stop).s = l.s := rfl

/-- **the whole callback loop** commutes with the erasure, recorded stop included -/
theorem foldCbs_stripBy (body : σ → Resume → Burst τ σ) (fuel : Nat) (e : EvId) (cbs : List Cb) (l : LoopSt τ σ) :
    cbs.foldl (runCb body fuel e) { s := l.s.stripBy P, stop := l.stop } =
      { s := (cbs.foldl (runCb body fuel e) l).s.stripBy P, stop := (cbs.foldl (runCb body fuel e) l).stop } := by
  induction cbs generalizing l with
  | nil => rfl
  | cons cb cs ih =>
    rw [List.foldl_cons, List.foldl_cons, runCb_stripBy, ih]

/-- **dropping the stop callbacks from the list** changes nothing but the recorded stop -/
theorem foldCbs_stripCbs_state (body : σ → Resume → Burst τ σ) (fuel : Nat) (e : EvId) (cbs : List Cb) (l : LoopSt τ σ)
    (o : Option Outcome) :
    ((stripCbs cbs).foldl (runCb body fuel e) { s := l.s, stop := o }).s = (cbs.foldl (runCb body fuel e) l).s := by
  induction cbs generalizing l o with
  | nil => rfl
  | cons cb cs ih =>
    by_cases h : cb = .stop
    · subst h
      have : stripCbs (Cb.stop :: cs) = stripCbs cs := by simp [stripCbs]
      rw [this, List.foldl_cons]
      exact ih (runCb body fuel e l .stop) o
    · have : stripCbs (cb :: cs) = cb :: stripCbs cs := by simp [stripCbs, h]
      rw [this, List.foldl_cons, List.foldl_cons]
      have h1 := runCb_state_indep body fuel e l.s o l.stop cb
      have h2 := ih (runCb body fuel e l cb) (runCb body fuel e { s := l.s, stop := o } cb).stop
      rw [← h2]
      congr 2
      show runCb body fuel e { s := l.s, stop := o } cb = { s := (runCb body fuel e l cb).s, stop := _ }
      rw [← h1]

theorem foldCbs_stripCbs_stop (body : σ → Resume → Burst τ σ) (fuel : Nat) (e : EvId) (cbs : List Cb) (l : LoopSt τ σ) :
    ((stripCbs cbs).foldl (runCb body fuel e) l).stop = l.stop := by
  induction cbs generalizing l with
  | nil => rfl
  | cons cb cs ih =>
    by_cases h : cb = .stop
    · subst h
      have : stripCbs (Cb.stop :: cs) = stripCbs cs := by simp [stripCbs]
      rw [this]; exact ih l
    · have : stripCbs (cb :: cs) = cb :: stripCbs cs := by simp [stripCbs, h]
      rw [this, List.foldl_cons, ih, runCb_stop_field body fuel e l cb h]

/-- a list without a stop callback records no stop -/
theorem foldCbs_stop_of_not_mem (body : σ → Resume → Burst τ σ) (fuel : Nat) (e : EvId) (cbs : List Cb) (l : LoopSt τ σ)
    (h : Cb.stop ∉ cbs) : (cbs.foldl (runCb body fuel e) l).stop = l.stop := by
  have := foldCbs_stripCbs_stop body fuel e cbs l
  rwa [stripCbs_eq_self cbs h] at this

/-- a list with a stop callback records a stop -/
theorem foldCbs_stop_of_mem (body : σ → Resume → Burst τ σ) (fuel : Nat) (e : EvId) (cbs : List Cb) (l : LoopSt τ σ)
    (h : Cb.stop ∈ cbs ∨ l.stop.isSome = true) : (cbs.foldl (runCb body fuel e) l).stop.isSome = true := by
  induction cbs generalizing l with
  | nil =>
    rcases h with h | h
    · cases h
    · exact h
  | cons cb cs ih =>
    rw [List.foldl_cons]
    apply ih
    by_cases hc : cb = .stop
    · subst hc; exact Or.inr rfl
    · rcases h with h | h
      · rcases List.mem_cons.mp h with h | h
        · exact absurd h.symm hc
        · exact Or.inl h
      · right; rw [runCb_stop_field body fuel e l cb hc]; exact h

@[kstrip] theorem openEvent_stripBy (s : KState τ σ) (q : QEntry τ) (rest : List (QEntry τ)) :
    openEvent (s.stripBy P) q rest = (openEvent s q rest).stripBy P := by
  have h := KState.updEv_stripBy P s q.ev (fun r => { r with cbs := none }) (by intro b r; cases b <;> rfl)
  unfold openEvent
  unfold KState.setEv at h
  have h2 := congrArg KState.events h
  simp only at h2
  rw [h2]
  rfl

/-- the end of a step reads only the outcome and the `defused` flag of the event -/
theorem closeEvent_stripBy (l : LoopSt τ σ) (e : EvId) :
    closeEvent { s := l.s.stripBy P, stop := l.stop } e =
      match closeEvent l e with
      | .ok s => .ok (s.stripBy P)
      | .stopped o s => .stopped o (s.stripBy P)
      | .crash x s => .crash x (s.stripBy P)
      | .empty => .empty := by
  unfold closeEvent
  ksimp
  ksplit

/-! ## one step -/

/-- apply a state transformation to the state a step ended in -/
def StepResult.mapState (f : KState τ σ → KState τ σ) : StepResult τ σ → StepResult τ σ
  | .ok s => .ok (f s)
  | .stopped o s => .stopped o (f s)
  | .crash x s => .crash x (f s)
  | .empty => .empty

/-- how the step ends when the `StopSimulation` of its event `e` is taken away: as `closeEvent` decides without it -/
def StepResult.unstop (e : EvId) : StepResult τ σ → StepResult τ σ
  | .stopped _ s => closeEvent { s := s } e
  | r => r

/-- the state in which a step ended, if it processed an event (generic in the scalar type) -/
def StepResult.st? : StepResult τ σ → Option (KState τ σ)
  | .ok s => some s
  | .stopped _ s => some s
  | .crash _ s => some s
  | .empty => none

theorem closeEvent_nostop_unstop (s : KState τ σ) (e : EvId) :
    (closeEvent { s := s } e).unstop e = closeEvent { s := s } e := by
  unfold closeEvent
  simp only
  repeat' split
  all_goals rfl

theorem closeEvent_unstop (l : LoopSt τ σ) (e : EvId) : (closeEvent l e).unstop e = closeEvent { s := l.s } e := by
  cases hs : l.stop with
  | none =>
    have : l = { s := l.s } := by cases l; simp only at hs; rw [hs]
    rw [this]; exact closeEvent_nostop_unstop l.s e
  | some o =>
    unfold closeEvent
    simp only [hs]
    rfl

theorem closeEvent_st (l : LoopSt τ σ) (e : EvId) : (closeEvent l e).st? = some l.s := by
  unfold closeEvent
  repeat' split
  all_goals rfl

theorem closeEvent_stopped_iff (l : LoopSt τ σ) (e : EvId) :
    (∃ o s, closeEvent l e = .stopped o s) ↔ l.stop.isSome = true := by
  unfold closeEvent
  constructor
  · rintro ⟨o, s, h⟩
    split at h
    · rename_i h2; rw [h2]; rfl
    · repeat' split at h
      all_goals cases h
  · intro h
    cases hs : l.stop with
    | none => rw [hs] at h; cases h
    | some o => exact ⟨o, l.s, rfl⟩

variable (body : σ → Resume → Burst τ σ) (fuel : Nat)

/-- **The simulation lemma for one kernel step.**  The step from the state without the stops of the `P`-events pops the
same entry and ends in the erasure of the state the step with the stops ends in; it ends the same way, except that a
`StopSimulation` of a `P`-event is replaced by what the end of the step decides without it. -/
theorem step_stripBy (s : KState τ σ) :
    step body fuel (s.stripBy P) =
      match popMin s.agenda with
      | none => .empty
      | some (q, _) =>
        if P q.ev then ((step body fuel s).unstop q.ev).mapState (KState.stripBy P)
        else (step body fuel s).mapState (KState.stripBy P) := by
  unfold step
  rw [KState.stripBy_agenda]
  cases hq : popMin s.agenda with
  | none => rfl
  | some qr =>
    obtain ⟨q, rest⟩ := qr
    simp only
    rw [KState.stripBy_cbs, openEvent_stripBy]
    cases hc : (s.ev q.ev).cbs with
    | none =>
      simp only [Option.map_none, ite_self]
      split <;> rfl
    | some cbs =>
      simp only [Option.map_some]
      cases hP : P q.ev
      · simp only [Bool.false_eq_true, if_false]
        have h1 := foldCbs_stripBy P body fuel q.ev cbs { s := openEvent s q rest }
        simp only at h1
        rw [h1, closeEvent_stripBy]
        cases closeEvent (cbs.foldl (runCb body fuel q.ev) { s := openEvent s q rest }) q.ev <;> rfl
      · simp only [if_true]
        have h1 := foldCbs_stripBy P body fuel q.ev (stripCbs cbs) { s := openEvent s q rest }
        simp only at h1
        rw [h1, foldCbs_stripCbs_stop,
          foldCbs_stripCbs_state body fuel q.ev cbs { s := openEvent s q rest } none, closeEvent_unstop]
        have h2 := closeEvent_stripBy P { s := (cbs.foldl (runCb body fuel q.ev) { s := openEvent s q rest }).s } q.ev
        simp only at h2
        rw [h2]
        cases closeEvent { s := (cbs.foldl (runCb body fuel q.ev) { s := openEvent s q rest }).s } q.ev <;> rfl

/-- the state part: whatever way the steps end, the state without the stops is the erasure of the state with them -/
theorem step_stripBy_st (s s' : KState τ σ) (h : (step body fuel s).st? = some s') :
    (step body fuel (s.stripBy P)).st? = some (s'.stripBy P) := by
  rw [step_stripBy]
  cases hq : popMin s.agenda with
  | none =>
    unfold step at h
    rw [hq] at h
    cases h
  | some qr =>
    obtain ⟨q, rest⟩ := qr
    simp only
    cases hr : step body fuel s with
    | ok s1 => rw [hr] at h; cases h; split <;> rfl
    | crash x s1 => rw [hr] at h; cases h; split <;> rfl
    | empty => rw [hr] at h; cases h
    | stopped o s1 =>
      rw [hr] at h; cases h
      split
      · show ((closeEvent { s := s' } q.ev).mapState (KState.stripBy P)).st? = _
        have := closeEvent_st { s := s' } q.ev
        cases hc : closeEvent { s := s' } q.ev <;> rw [hc] at this <;> cases this <;> rfl
      · rfl

/-- a normal step stays a normal step when stops are erased -/
theorem step_stripBy_ok (s s' : KState τ σ) (h : step body fuel s = .ok s') :
    step body fuel (s.stripBy P) = .ok (s'.stripBy P) := by
  rw [step_stripBy, h]
  cases hq : popMin s.agenda with
  | none =>
    unfold step at h
    rw [hq] at h
    cases h
  | some qr => simp only; split <;> rfl

/-- a step ends with `StopSimulation` exactly when the callback list of the event it processes holds a stop -/
theorem step_stopped_iff (s : KState τ σ) :
    (∃ o s', step body fuel s = .stopped o s') ↔
      ∃ q rest, popMin s.agenda = some (q, rest) ∧ s.hasStop q.ev = true := by
  unfold step KState.hasStop
  cases hq : popMin s.agenda with
  | none =>
    constructor
    · rintro ⟨o, s', h⟩; cases h
    · rintro ⟨q, rest, h, _⟩; cases h
  | some qr =>
    obtain ⟨q, rest⟩ := qr
    simp only
    cases hc : (s.ev q.ev).cbs with
    | none =>
      constructor
      · rintro ⟨o, s', h⟩; cases h
      · rintro ⟨q', rest', h, h2⟩
        cases h
        rw [hc] at h2
        cases h2
    | some cbs =>
      simp only
      rw [closeEvent_stopped_iff]
      constructor
      · intro h
        refine ⟨q, rest, rfl, ?_⟩
        rw [hc]
        simp only [List.contains_iff_mem]
        by_cases hn : Cb.stop ∈ cbs
        · exact hn
        · rw [foldCbs_stop_of_not_mem body fuel q.ev cbs _ hn] at h
          cases h
      · rintro ⟨q', rest', h, h2⟩
        cases h
        rw [hc] at h2
        simp only [List.contains_iff_mem] at h2
        exact foldCbs_stop_of_mem body fuel q.ev cbs _ (Or.inl h2)

/-- stop-freeness is preserved by a step, whatever way it ends (nothing in the model registers a stop) -/
theorem step_stopFree (s s' : KState τ σ) (hf : StopFree P s) (h : (step body fuel s).st? = some s') : StopFree P s' := by
  have := step_stripBy_st P body fuel s s' h
  rw [show s.stripBy P = s from hf, h] at this
  exact (Option.some.inj this).symm

/-- while the stop-free events are the only ones processed, no step stops -/
theorem step_not_stopped_of_stopFree (s : KState τ σ) (q : QEntry τ) (rest : List (QEntry τ)) (hf : StopFree P s)
    (hq : popMin s.agenda = some (q, rest)) (hP : P q.ev = true) (o : Outcome) (s' : KState τ σ) :
    step body fuel s ≠ .stopped o s' := by
  intro h
  obtain ⟨q', rest', h1, h2⟩ := (step_stopped_iff body fuel s).mp ⟨o, s', h⟩
  rw [hq] at h1
  cases h1
  rw [(StopFree.iff P s).mp hf q.ev hP] at h2
  cases h2

/-- the event a step processes is processed afterwards, so it carries no stop any more: if all stops sat on that event,
the state after the step is free of stops altogether -/
theorem step_stopFree_after (s s' : KState τ σ) (q : QEntry τ) (rest : List (QEntry τ))
    (hq : popMin s.agenda = some (q, rest)) (hf : StopFree (fun i => i != q.ev) s)
    (h : (step body fuel s).st? = some s') : StopFree (fun _ => true) s' := by
  have ho : StopFree (fun _ => true) (openEvent s q rest) := by
    rw [StopFree.iff]
    intro i _
    unfold KState.hasStop
    have hev : (openEvent s q rest).ev i = if i = q.ev ∧ q.ev < s.events.size then { s.ev q.ev with cbs := none } else s.ev i := by
      show (s.setEv q.ev { s.ev q.ev with cbs := none }).ev i = _
      exact KState.ev_setEv s q.ev i _
    by_cases hne : i = q.ev ∧ q.ev < s.events.size
    · rw [hev, if_pos hne]
    · rw [hev, if_neg hne]
      by_cases hi : i = q.ev
      · subst hi
        have : s.events.size ≤ q.ev := Nat.le_of_not_lt (fun hlt => hne ⟨rfl, hlt⟩)
        exact s.hasStop_default q.ev this
      · exact (StopFree.iff _ s).mp hf i (by simpa using hi)
  unfold step at h
  rw [hq] at h
  simp only at h
  split at h
  · cases h; exact ho
  · rename_i cbs _
    rw [closeEvent_st] at h
    cases h
    have h1 := foldCbs_stripBy (fun _ => true) body fuel q.ev cbs { s := openEvent s q rest }
    simp only at h1
    rw [show (openEvent s q rest).stripBy (fun _ => true) = openEvent s q rest from ho] at h1
    have := congrArg LoopSt.s h1
    exact this.symm

/-! ## sequences of steps -/

/-- **`k` normal steps stay `k` normal steps when stops are erased**, and end in the erasure -/
theorem stepN_stripBy_ok (k : Nat) (s s' : KState τ σ) (h : stepN body fuel k s = .ok s') :
    stepN body fuel k (s.stripBy P) = .ok (s'.stripBy P) := by
  induction k generalizing s with
  | zero => cases h; rfl
  | succ k ih =>
    rw [stepN_succ] at h ⊢
    cases hs : step body fuel s with
    | ok s1 =>
      rw [hs] at h
      rw [step_stripBy_ok P body fuel s s1 hs]
      exact ih s1 h
    | stopped o s1 => rw [hs] at h; cases h
    | empty => rw [hs] at h; cases h
    | crash x s1 => rw [hs] at h; cases h

theorem stepN_stopFree (k : Nat) (s s' : KState τ σ) (hf : StopFree P s) (h : stepN body fuel k s = .ok s') :
    StopFree P s' := by
  have := stepN_stripBy_ok P body fuel k s s' h
  rw [show s.stripBy P = s from hf, h] at this
  exact (StepResult.ok.inj this).symm
