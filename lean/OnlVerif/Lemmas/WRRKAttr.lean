import Lean.Meta.Tactic.Simp.RegisterCommand
/-! simp sets used to execute the kernel model symbolically on the WRR program (`wrrk`) and to take the list of the events
of a configuration apart (`wrrids`) -/
register_simp_attr wrrk
register_simp_attr wrrids
