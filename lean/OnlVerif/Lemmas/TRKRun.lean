import OnlVerif.Lemmas.TRKAbsStep
import OnlVerif.Lemmas.ResStep
/-!
# The two-rate token bucket on the kernel model: every kernel step is a configuration step; whole runs
-/

set_option linter.unusedSimpArgs false

namespace TRK
open TwoRateOnK QEntry
open TimerK (lookup plookup proc?_eq dec_enc)

variable {size : Int → Nat} {cfg : TrCfg ℚ}
variable {s : KS} {a : A} {q : QEntry ℚ} {rest : List (QEntry ℚ)}

/-- what `popMin` returns is a minimal entry of the configuration -/
theorem isMin_of_pop (hk : KInv s a) (hp : popMin s.agenda = some (q, rest)) :
    IsMin a q ∧ a.entries.Perm (q :: rest) := by
  have sp := popMin_spec _ _ _ hp
  have hperm : a.entries.Perm (q :: rest) := hk.ag.symm.trans sp.1
  refine ⟨⟨hperm.symm.subset List.mem_cons_self, ?_⟩, hperm⟩
  intro x hx
  rcases List.mem_cons.mp (hperm.subset hx) with rfl | hx
  · exact KeyLt.irrefl _
  · exact sp.2 x hx

theorem perm_run (hr : a.run.entries = [q]) (hperm : a.entries.Perm (q :: rest)) :
    rest.Perm (a.src.entries ++ a.pend) := by
  simp only [A.entries, hr, List.singleton_append] at hperm
  exact hperm.cons_inv.symm

theorem perm_src (hr : a.src.entries = [q]) (hperm : a.entries.Perm (q :: rest)) :
    rest.Perm (a.run.entries ++ a.pend) := by
  have : (q :: (a.run.entries ++ a.pend)).Perm (q :: rest) := by
    refine List.Perm.trans ?_ hperm
    simp only [A.entries, hr, List.singleton_append]
    exact List.perm_middle.symm
  exact this.cons_inv.symm

theorem perm_pend {l1 l2 : List (QEntry ℚ)} (hpe : a.pend = l1 ++ q :: l2)
    (hperm : a.entries.Perm (q :: rest)) : rest.Perm (a.run.entries ++ (a.src.entries ++ (l1 ++ l2))) := by
  have : (q :: (a.run.entries ++ (a.src.entries ++ (l1 ++ l2)))).Perm (q :: rest) := by
    refine List.Perm.trans ?_ hperm
    simp only [A.entries, hpe]
    classical
    rw [List.perm_iff_count]
    intro z
    simp only [List.count_cons, List.count_append]
    omega
  exact this.cons_inv.symm

/-- `_trigger_get` of a pending `StorePut` that can serve nobody leaves the state alone -/
theorem triggerGet_noop (hk : KInv s a) {l1 l2 : List (QEntry ℚ)} (hpe : a.pend = l1 ++ q :: l2)
    (hno : ¬ ((∃ g t0, a.run = .W g t0) ∧ a.items ≠ [])) :
    triggerGet (openEvent s q rest) 0 = openEvent s q rest := by
  have hu : q ∈ a.pend := by rw [hpe]; simp
  obtain ⟨hkind, hcbs, hout⟩ := hk.pend q hu
  have hres := hk.res
  simp only [KState.res] at hres
  cases hrun : a.run with
  | W g t0 =>
    have hit : a.items = [] := by
      by_contra hc
      exact hno ⟨⟨g, t0, hrun⟩, hc⟩
    rw [hrun, hit] at hres
    simp only [RPhase.getQ] at hres
    have hr := hk.run
    rw [hrun] at hr
    obtain ⟨nrun, nsrc, npend, drun, dsrc⟩ := (ids_nodup_iff a).mp hk.nd
    obtain ⟨hqmem, -⟩ := pend_split_facts hpe npend
    have hgq : g ≠ q.ev := by
      intro h
      have := (drun g (by simp [hrun, trids])).2
      exact this (h ▸ hqmem)
    have hgo := hr.1.2.2
    simp only [KState.ev] at hgo
    exact triggerGet_empty _ 0 g hres (by bsimp [hgq, hgo])
  | init q0 => rw [hrun] at hres; exact triggerGet_none _ 0 _ hres
  | H g id q0 t0 => rw [hrun] at hres; exact triggerGet_none _ 0 _ hres
  | T1 t id q0 => rw [hrun] at hres; exact triggerGet_none _ 0 _ hres

/-- **one kernel step = one configuration step** -/
theorem kstep (fuel : Nat) (hk : KInv s a) (hi0 : AInv cfg a s.now) (hp : popMin s.agenda = some (q, rest)) :
    ∃ s' a' new, step (body size cfg) (fuel + 1) s = .ok s' ∧ KInv s' a' ∧
      AStep size cfg s.events.size s.eid a q a' new ∧
      s'.now = q.time ∧ histOf s'.trace = histOf s.trace ++ new := by
  obtain ⟨hmin, hperm⟩ := isMin_of_pop hk hp
  have hi := hi0.advance hmin
  have hq := hmin.1
  simp only [A.entries, List.mem_append] at hq
  rcases hq with hq | hq | hq
  · -- an entry of the shaper
    have hrun := hi.run
    cases hr : a.run with
    | W g t0 => simp [hr, RPhase.entries] at hq
    | init q0 =>
      simp only [hr, RPhase.entries, List.mem_singleton] at hq; subst hq
      have hrest := perm_run (by simp [hr, RPhase.entries]) hperm
      rw [hr] at hrun
      obtain ⟨s', h1, h2, h3, h4⟩ := kstep_runInit (size := size) (cfg := cfg) fuel hk hr hrun.2.2.1 hp hrest
      exact ⟨s', _, [], h1, h2, AStep.runInit a q hr, h3, by simpa using h4⟩
    | H g id q0 t0 =>
      simp only [hr, RPhase.entries, List.mem_singleton] at hq; subst hq
      have hrest := perm_run (by simp [hr, RPhase.entries]) hperm
      rw [hr] at hrun
      obtain ⟨hqt, -, hmax, hid0, hid⟩ := hrun
      obtain ⟨d, hd⟩ := verdict_ok (size := size) hi.good hi.pk q.time id
      cases d with
      | wait dt cm pk =>
        obtain ⟨s', h1, h2, h3, h4⟩ := kstep_serveWait (size := size) fuel hi.good hk hr hid hmax hd hp hrest
        exact ⟨s', _, [], h1, h2, AStep.serveWait a q g id t0 dt cm pk hr hd, h3, by simpa using h4⟩
      | emit col cm pk =>
        cases hit : a.items with
        | nil =>
          obtain ⟨s', h1, h2, h3, h4⟩ := kstep_serveOutMiss (size := size) fuel hk hr hid0 hid hmax hd hit hp hrest
          exact ⟨s', _, _, h1, h2, AStep.serveOutMiss a q g id t0 cm col pk hr hd hit, h3, h4⟩
        | cons i is =>
          obtain ⟨s', h1, h2, h3, h4⟩ := kstep_serveOutHit (size := size) fuel hk hr hid0 hid hmax hd hit hp hrest
          exact ⟨s', _, _, h1, h2, AStep.serveOutHit a q g id t0 cm col pk i is hr hd hit, h3, h4⟩
    | T1 t id q0 =>
      simp only [hr, RPhase.entries, List.mem_singleton] at hq; subst hq
      have hrest := perm_run (by simp [hr, RPhase.entries]) hperm
      rw [hr] at hrun
      cases hit : a.items with
      | nil =>
        obtain ⟨s', h1, h2, h3, h4⟩ := kstep_tokOutMiss (size := size) (cfg := cfg) fuel hk hr hrun.2.1 hit hp hrest
        exact ⟨s', _, _, h1, h2, AStep.tokOutMiss a q t id hr hit, h3, h4⟩
      | cons i is =>
        obtain ⟨s', h1, h2, h3, h4⟩ := kstep_tokOutHit (size := size) (cfg := cfg) fuel hk hr hrun.2.1 hit hp hrest
        exact ⟨s', _, _, h1, h2, AStep.tokOutHit a q t id i is hr hit, h3, h4⟩
  · -- an entry of the source
    have hsa := hi.src
    cases hsrc : a.src with
    | done => simp [hsrc, SPhase.entries] at hq
    | init q0 arr =>
      simp only [hsrc, SPhase.entries, List.mem_singleton] at hq; subst hq
      have hrest := perm_src (by simp [hsrc, SPhase.entries]) hperm
      rw [hsrc] at hsa
      obtain ⟨s', h1, h2, h3, h4⟩ := kstep_srcInit (size := size) (cfg := cfg) fuel hk hsrc hsa.2.2.1 hp hrest
      exact ⟨s', _, [], h1, h2, AStep.srcInit a q arr hsrc, h3, by simpa using h4⟩
    | ending q0 =>
      simp only [hsrc, SPhase.entries, List.mem_singleton] at hq; subst hq
      have hrest := perm_src (by simp [hsrc, SPhase.entries]) hperm
      obtain ⟨s', h1, h2, h3, h4⟩ := kstep_srcEnd (size := size) (cfg := cfg) fuel hk hsrc hp hrest
      exact ⟨s', _, [], h1, h2, AStep.srcEnd a q hsrc, h3, by simpa using h4⟩
    | wait next arr q0 =>
      simp only [hsrc, SPhase.entries, List.mem_singleton] at hq; subst hq
      have hrest := perm_src (by simp [hsrc, SPhase.entries]) hperm
      rw [hsrc] at hsa
      obtain ⟨s', h1, h2, h3, h4⟩ := kstep_srcPut (size := size) (cfg := cfg) fuel hk hsrc hsa.2.2 hsa.2.1 hp hrest
      exact ⟨s', _, _, h1, h2, AStep.srcPut a q next arr hsrc, h3, h4⟩
  · -- a pending `StorePut` event
    obtain ⟨l1, l2, hpe⟩ := List.append_of_mem hq
    have hrest := perm_pend hpe hperm
    by_cases hh : (∃ g t0, a.run = .W g t0) ∧ a.items ≠ []
    · obtain ⟨⟨g, t0, hr⟩, hne⟩ := hh
      cases hit : a.items with
      | nil => exact absurd hit hne
      | cons i is =>
        obtain ⟨s', h1, h2, h3, h4⟩ := kstep_pendHand (size := size) (cfg := cfg) fuel hk hpe hr hit hp hrest
        exact ⟨s', _, [], h1, h2, AStep.pendHand a q g t0 i is l1 l2 hpe hr hit, h3, by simpa using h4⟩
    · obtain ⟨s', h1, h2, h3, h4⟩ := kstep_pendNoop (size := size) (cfg := cfg) fuel hk hpe (triggerGet_noop hk hpe hh) hp hrest
      exact ⟨s', _, [], h1, h2, AStep.pendNoop a q l1 l2 hpe hh, h3, by simpa using h4⟩

/-! ## the combined invariant -/

/-- the kernel state `s` is the configuration `a`, and `a` is sound -/
structure Inv (cfg : TrCfg ℚ) (s : KS) (a : A) : Prop where
  k : KInv s a
  a : AInv cfg a s.now

/-- **one kernel step**: it is `.ok`, is a configuration step, keeps the invariant and uses one unit of the step budget -/
theorem inv_step (fuel : Nat) (h : Inv cfg s a) (hp : popMin s.agenda = some (q, rest)) :
    ∃ s' a' new, step (body size cfg) (fuel + 1) s = .ok s' ∧ Inv cfg s' a' ∧ a'.mu + 1 ≤ a.mu ∧
      AStep size cfg s.events.size s.eid a q a' new ∧ s'.now = q.time ∧ histOf s'.trace = histOf s.trace ++ new := by
  obtain ⟨s', a', new, h1, h2, h3, h4, h5⟩ := kstep (size := size) fuel h.k h.a hp
  obtain ⟨g1, g2⟩ := astep_sound h.a (isMin_of_pop h.k hp).1 h3
  exact ⟨s', a', new, h1, ⟨h2, by rw [h4]; exact g1⟩, g2, h3, h4, h5⟩

theorem popMin_none {l : List (QEntry ℚ)} (h : popMin l = none) : l = [] := by
  cases l with
  | nil => rfl
  | cons x xs =>
    unfold popMin at h
    cases hp : popMin xs with
    | none => rw [hp] at h; cases h
    | some mr => rw [hp] at h; simp only at h; split at h <;> cases h

/-! ## the initial state -/

/-- the configuration of the initial state -/
def a0 (cfg : TrCfg ℚ) (arrivals : List ℚ) : A :=
  { run := .init ⟨0, URGENT, 0, 1⟩, src := .init ⟨0, URGENT, 1, 3⟩ arrivals, pend := [], items := [], cts := [],
    commit := cfg.cbs, peak := cfg.pbs, upd := 0, sent := 0 }

theorem inv_init (arrivals : List ℚ) (hg : GapsOK arrivals) (hgood : TwoRate.Good cfg) :
    Inv cfg (initState cfg arrivals) (a0 cfg arrivals) := by
  simp only [initState, List.foldl, doCall_spawn, zero_eq']
  refine ⟨⟨⟨?_, ?_, ?_⟩, ?_, ?_, ?_, ?_, ?_, ?_, ?_, ?_, ?_, ?_, ?_, ?_, ?_⟩, ⟨?_, ?_, ?_, ?_, ?_, hgood, ?_⟩⟩
  · intro q hq; simp at hq; rcases hq with rfl | rfl <;> simp
  · intro q hq; simp at hq; rcases hq with rfl | rfl <;> simp
  · simp
  · simp only [A.entries, a0, RPhase.entries, SPhase.entries, List.append_nil, List.singleton_append]
    exact List.Perm.swap _ _ _
  · simp
  · simp [KState.res, a0, RPhase.getQ, storeRec]
  · refine ⟨rfl, ?_, ?_, ?_⟩
    · simp [EvIs, KState.ev]
    · simp [proc?_eq, plookup]
    · simp [EvIs, KState.ev]
  · refine ⟨rfl, ?_, ?_, ?_⟩
    · simp [EvIs, KState.ev]
    · simp [proc?_eq, plookup]
    · simp [EvIs, KState.ev]
  · intro u hu; cases hu
  · simp [a0, trids]
  · bsimp [a0, TimerK.lookup_cons]
  · bsimp [a0, TimerK.lookup_cons]
  · bsimp [a0, TimerK.lookup_cons]
  · bsimp [a0, TimerK.lookup_cons]
  · bsimp [a0, TimerK.lookup_cons]
  · intro k hk; simp [a0] at hk
  · exact ⟨rfl, rfl, rfl, rfl, rfl⟩
  · exact ⟨rfl, rfl, hg, rfl⟩
  · intro u hu; cases hu
  · intro x hx
    simp [A.entries, a0, RPhase.entries, SPhase.entries] at hx
    rcases hx with rfl | rfl <;> simp
  · intro i hi; simp [a0] at hi
  · intro k hk
    obtain ⟨b, hb, -⟩ := (hgood.pir k hk).2
    refine ⟨b, ?_⟩
    show cfg.pbs = some b
    unfold TwoRate.pbsOn Num.optOn at hb
    cases hp : cfg.pbs with
    | none => rw [hp] at hb; simp at hb
    | some v =>
      rw [hp] at hb
      simp only at hb
      split at hb
      · exact hb
      · cases hb

theorem a0_mu (arrivals : List ℚ) : (a0 cfg arrivals).mu = 5 * arrivals.length + 3 := by
  simp [A.mu, a0, RPhase.mu, SPhase.mu]
  omega

end TRK
