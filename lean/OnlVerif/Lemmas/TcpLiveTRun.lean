import OnlVerif.Lemmas.TcpLiveTDecr
/-!
# Runs over paths with delay terminate, and only in the complete state (C16)
-/

open TcpScalar TcpSender TcpSink TcpLoop Sender

namespace TcpLive

variable {n : Nat} {L : TLoop ℚ}

/-- delivery instants for `k` packets entering a path: "at once" -/
theorem exists_ts (dT : List ℚ) (now : ℚ) (m : Nat) (hle : dT.length ≤ m) :
    ∃ ts : List ℚ, dT.length + ts.length = m ∧ ∀ t ∈ ts, now ≤ t :=
  ⟨List.replicate (m - dT.length) now, by simp; omega, fun t ht => by rw [List.eq_of_mem_replicate ht]⟩

/-- **no deadlock over timed paths**: while the kernel has something left to do, some step is possible -/
theorem tstep_progress (h : TInv n L) (hq : ¬ L.l.Quiescent) : ∃ L', TLoop.TStep L L' := by
  obtain ⟨a, l', hf, hs⟩ := fair_progress h.inv hq
  cases hf with
  | wake fuel =>
    obtain ⟨_, outs, _, _, _, _, f3, _⟩ := own_step hs
    obtain ⟨ts, h1, h2⟩ := exists_ts L.dT l'.snd.now l'.data.length (by rw [f3, h.dlen]; simp)
    exact ⟨_, .burst (.wake fuel) ts (fun t e => by cases e) hs h1 h2⟩
  | handoff =>
    obtain ⟨_, outs, _, _, _, _, f3, _⟩ := own_step hs
    obtain ⟨ts, h1, h2⟩ := exists_ts L.dT l'.snd.now l'.data.length (by rw [f3, h.dlen]; simp)
    exact ⟨_, .burst .handoff ts (fun t e => by cases e) hs h1 h2⟩
  | fire q =>
    obtain ⟨_, outs, _, _, _, _, f3, _⟩ := own_step hs
    obtain ⟨ts, h1, h2⟩ := exists_ts L.dT l'.snd.now l'.data.length (by rw [f3, h.dlen]; simp)
    exact ⟨_, .burst (.fire q) ts (fun t e => by cases e) hs h1 h2⟩
  | deliver => exact ⟨_, .deliver L.l.snd.now hs (le_refl _)⟩
  | ackArrive =>
    obtain ⟨_, _, _, outs, _, _, _, _, f3, _⟩ := ack_step hs
    obtain ⟨ts, h1, h2⟩ := exists_ts L.dT l'.snd.now l'.data.length (by rw [f3, h.dlen]; simp)
    exact ⟨_, .ackArrive ts hs h1 h2⟩
  | tick t hd ha hlt hex =>
    have e1 : L.dT = [] := List.eq_nil_of_length_eq_zero (by rw [h.dlen, hd]; rfl)
    have e2 : L.aT = [] := List.eq_nil_of_length_eq_zero (by rw [h.alen, ha]; rfl)
    exact ⟨_, .tick t hs hlt (fun d hdm => by rw [e1] at hdm; simp at hdm) (fun d hdm => by rw [e2] at hdm; simp at hdm)
      (Or.inl hex)⟩

/-- runs over timed paths are finite -/
theorem tstep_acc (h : TInv n L) : Acc (fun b a => TLoop.TStep a b) L := by
  have key : ∀ m : Nat × Nat × Nat × Nat × Nat, ∀ L : TLoop ℚ, TInv n L → tmu n L = m → Acc (fun b a => TLoop.TStep a b) L := by
    intro m
    induction m using lt5_wf.induction with
    | _ m ih =>
      intro L h e
      refine Acc.intro _ fun L' hstep => ?_
      exact ih (tmu n L') (e ▸ tstep_decreases h hstep) L' (TInv_step h hstep) rfl
  exact key _ L h rfl

/-- ... also when interleaved with at most `k` losses -/
theorem tbstep_acc (k : Nat) : ∀ L : TLoop ℚ, TInv n L → Acc (fun b a => TLoop.TBStep a b) (k, L) := by
  induction k with
  | zero =>
    intro L h
    have hacc := tstep_acc h
    induction hacc with
    | intro L _ ih =>
      refine Acc.intro _ fun y hy => ?_
      generalize hx : ((0 : Nat), L) = x at hy
      cases hy with
      | step hf =>
        injection hx with e1 e2; subst e1 e2
        exact ih _ hf (TInv_step h hf)
      | dropData i hs => injection hx with e1 e2; omega
      | dropAck i hs => injection hx with e1 e2; omega
  | succ k ihk =>
    intro L h
    have hacc := tstep_acc h
    induction hacc with
    | intro L _ ih =>
      refine Acc.intro _ fun y hy => ?_
      generalize hx : (k + 1, L) = x at hy
      have hb := hy
      cases hy with
      | step hf =>
        injection hx with e1 e2; subst e1 e2
        exact ih _ hf (TInv_step h hf)
      | dropData i hs =>
        injection hx with e1 e2
        have e1' := Nat.succ.inj e1
        subst e1' e2
        exact ihk _ (TInv_bstep hb h)
      | dropAck i hs =>
        injection hx with e1 e2
        have e1' := Nat.succ.inj e1
        subst e1' e2
        exact ihk _ (TInv_bstep hb h)

theorem tbreach_TInv {x y : Nat × TLoop ℚ} (hr : Relation.ReflTransGen TLoop.TBStep x y) (h : TInv n x.2) : TInv n y.2 := by
  induction hr with
  | refl => exact h
  | tail _ hb ih => exact TInv_bstep hb ih

/-- a timed step is a step of the untimed loop -/
theorem tstep_lstep {L L' : TLoop ℚ} (hs : TLoop.TStep L L') : ∃ a, L.l.step a = some L'.l := by
  cases hs with
  | burst a ts _ hst _ _ => exact ⟨_, hst⟩
  | tick t hst _ _ _ _ => exact ⟨_, hst⟩
  | deliver t hst _ => exact ⟨_, hst⟩
  | ackArrive ts hst _ _ => exact ⟨_, hst⟩

/-- a run over timed paths with losses is a run of the closed loop -/
theorem tbreach_lreach {x y : Nat × TLoop ℚ} (hr : Relation.ReflTransGen TLoop.TBStep x y) : LReach x.2.l y.2.l := by
  induction hr with
  | refl => exact .init
  | tail _ hb ih =>
    cases hb with
    | step hf => obtain ⟨a, hs⟩ := tstep_lstep hf; exact .step ih hs
    | dropData i hs => exact .step ih hs
    | dropAck i hs => exact .step ih hs

theorem tstuck_quiescent {k : Nat} (h : TInv n L) (hstuck : ∀ y, ¬ TLoop.TBStep (k, L) y) : L.l.Quiescent := by
  by_contra hq
  obtain ⟨L', hs⟩ := tstep_progress h hq
  exact hstuck (k, L') (.step hs)

theorem tquiescent_stuck {k : Nat} (h : TInv n L) (hq : L.l.Quiescent) : ∀ y, ¬ TLoop.TBStep (k, L) y := by
  intro y hb
  generalize hx : (k, L) = x at hb
  cases hb with
  | step hf =>
    injection hx with e1 e2; subst e1 e2
    cases hf with
    | burst a ts hnt hst _ _ =>
      rw [quiescent_no_event hq _ (fun t e => by injection e with e; exact hnt t e)] at hst
      cases hst
    | tick t hst hlt hd ha hev =>
      have e1 : L.dT = [] := List.eq_nil_of_length_eq_zero (by rw [h.dlen, hq.1]; rfl)
      have e2 : L.aT = [] := List.eq_nil_of_length_eq_zero (by rw [h.alen, hq.2.1]; rfl)
      rcases hev with ⟨kv, hkv, hl, _⟩ | ⟨d, hdm, _⟩ | ⟨d, hdm, _⟩
      · have := hq.2.2.1 kv hkv
        rw [hl] at this
        cases this
      · rw [e1] at hdm; simp at hdm
      · rw [e2] at hdm; simp at hdm
    | deliver t hst _ => rw [quiescent_no_event hq _ (fun t e => by cases e)] at hst; cases hst
    | ackArrive ts hst _ _ => rw [quiescent_no_event hq _ (fun t e => by cases e)] at hst; cases hst
  | dropData i hs =>
    injection hx with e1 e2; subst e2
    rw [quiescent_no_event hq _ (fun t e => by cases e)] at hs; cases hs
  | dropAck i hs =>
    injection hx with e1 e2; subst e2
    rw [quiescent_no_event hq _ (fun t e => by cases e)] at hs; cases hs

/-! ## the scripted form is sound -/

theorem stepT_sound {k : Nat} {a : TAct ℚ} {y : Nat × TLoop ℚ} (h : TLoop.stepT k L a = some y) :
    TLoop.TBStep (k, L) y := by
  cases a with
  | burst a ts =>
    unfold TLoop.stepT at h
    simp only at h
    split_ifs at h with htick
    cases hs : L.l.step (.own a) with
    | none => rw [hs] at h; cases h
    | some l' =>
      rw [hs] at h
      simp only at h
      split_ifs at h with hc
      injection h with h
      subst h
      refine .step (.burst a ts ?_ hs hc.1 ?_)
      · intro t e; subst e; simp [TLoop.isTick] at htick
      · intro t ht
        have := (List.all_eq_true.mp hc.2) t ht
        simpa using this
  | tick t =>
    unfold TLoop.stepT at h
    simp only at h
    cases hs : L.l.step (.own (.tick t)) with
    | none => rw [hs] at h; cases h
    | some l' =>
      rw [hs] at h
      simp only at h
      split_ifs at h with hc
      injection h with h
      subst h
      simp only [Bool.and_eq_true, decide_eq_true_eq, List.all_eq_true, TLoop.eventAtB, Bool.or_eq_true,
        List.any_eq_true] at hc
      obtain ⟨⟨⟨c1, c2⟩, c3⟩, c4⟩ := hc
      refine .step (.tick t hs c1 c2 c3 ?_)
      rcases c4 with (⟨kv, hkv, e⟩ | ⟨d, hd, e⟩) | ⟨d, hd, e⟩
      · exact Or.inl ⟨kv, hkv, e.1, e.2⟩
      · exact Or.inr (Or.inl ⟨d, hd, e⟩)
      · exact Or.inr (Or.inr ⟨d, hd, e⟩)
  | deliver t =>
    unfold TLoop.stepT at h
    simp only at h
    cases hs : L.l.step .deliver with
    | none => rw [hs] at h; cases h
    | some l' =>
      rw [hs] at h
      simp only at h
      split_ifs at h with hc
      injection h with h
      subst h
      exact .step (.deliver t hs hc)
  | ackArrive ts =>
    unfold TLoop.stepT at h
    simp only at h
    cases hs : L.l.step .ackArrive with
    | none => rw [hs] at h; cases h
    | some l' =>
      rw [hs] at h
      simp only at h
      split_ifs at h with hc
      injection h with h
      subst h
      refine .step (.ackArrive ts hs hc.1 ?_)
      intro t ht
      have := (List.all_eq_true.mp hc.2) t ht
      simpa using this
  | dropData i =>
    unfold TLoop.stepT at h
    simp only at h
    cases hs : L.l.step (.dropData i) with
    | none => rw [hs] at h; cases h
    | some l' =>
      rw [hs] at h
      simp only at h
      cases k with
      | zero => cases h
      | succ k =>
        simp only at h
        injection h with h
        subst h
        exact .dropData i hs
  | dropAck i =>
    unfold TLoop.stepT at h
    simp only at h
    cases hs : L.l.step (.dropAck i) with
    | none => rw [hs] at h; cases h
    | some l' =>
      rw [hs] at h
      simp only at h
      cases k with
      | zero => cases h
      | succ k =>
        simp only at h
        injection h with h
        subst h
        exact .dropAck i hs

theorem runT_sound : ∀ (acts : List (TAct ℚ)) (k : Nat) (L : TLoop ℚ) (y : Nat × TLoop ℚ),
    TLoop.runT k L acts = some y → Relation.ReflTransGen TLoop.TBStep (k, L) y := by
  intro acts
  induction acts with
  | nil =>
    intro k L y h
    simp only [TLoop.runT] at h
    injection h with h
    subst h
    exact .refl
  | cons a rest ih =>
    intro k L y h
    unfold TLoop.runT at h
    cases hs : TLoop.stepT k L a with
    | none => rw [hs] at h; cases h
    | some z =>
      rw [hs] at h
      simp only at h
      exact Relation.ReflTransGen.head (stepT_sound hs) (ih _ _ _ h)

end TcpLive
