import OnlVerif.Lemmas.OnceStep
/-! # The invariant along whole runs; what it says between steps -/

namespace Once
variable {σ : Type}

/-- the ghost between two steps: no callbacks pending, no burst running -/
def g0 (lv strict : Bool) : Ghost := { rem := [], e0 := 0, run := none, lv := lv, strict := strict }

/-- the invariant as it holds between steps (`lv`: with the "no live process is lost" clause; `strict`: for runs
whose `_resume` loops never run out of fuel) -/
def Inv0 (lv : Bool) (s : KState ℚ σ) (strict : Bool := false) : Prop := Inv (g0 lv strict) s

/-- **an event is in the agenda at most once, and only while it is triggered and unprocessed** -/
structure AgendaOnce (s : KState ℚ σ) : Prop where
  nodup : (s.agenda.map (·.ev)).Nodup
  live : ∀ q ∈ s.agenda, (s.ev q.ev).out ≠ none ∧ (s.ev q.ev).cbs ≠ none
  /-- …and conversely: every triggered, unprocessed event is in the agenda -/
  sched : ∀ e, (s.ev e).out ≠ none → (s.ev e).cbs ≠ none → ∃ q ∈ s.agenda, q.ev = e

/-- **the registration invariant**: a `_resume p` in the callbacks of `e` means that `p` is an unfinished process
whose current target is `e`, and it is there exactly once -/
def RegOnce (s : KState ℚ σ) : Prop :=
  ∀ e L p, (s.ev e).cbs = some L → Cb.resume p ∈ L →
    (s.ev p).out = none ∧ (∃ pr, s.proc? p = some pr ∧ pr.target = some e) ∧ L.count (.resume p) = 1

/-- no unfinished process is lost: it has a target that exists, and is registered there unless the target is
already processed (possible between steps only if the `_resume` loop ran out of fuel on that process) -/
def NoneLost (s : KState ℚ σ) : Prop :=
  ∀ p pr, s.proc? p = some pr → (s.ev p).out = none →
    ∃ t, pr.target = some t ∧ t < s.events.size ∧ ((s.ev t).cbs = none ∨ ∃ L, (s.ev t).cbs = some L ∧ Cb.resume p ∈ L)

/-- …and if no `_resume` loop ever runs out of fuel: every unfinished process is registered on its target -/
def AllRegistered (s : KState ℚ σ) : Prop :=
  ∀ p pr, s.proc? p = some pr → (s.ev p).out = none →
    ∃ t L, pr.target = some t ∧ (s.ev t).cbs = some L ∧ Cb.resume p ∈ L

theorem Inv0.weaken {strict : Bool} {s : KState ℚ σ} (h : Inv0 true s strict) : Inv0 false s strict :=
  ⟨h.c.ghost (fun _ h => h) h.c.rem_count rfl (fun p hp => by cases hp), h.q, ⟨fun hl => by cases hl⟩, h.s⟩

/-- the initial invariant does not depend on the mode -/
theorem Inv0.strict_irrel {lv a b : Bool} {s : KState ℚ σ} (h : Inv0 lv s a)
    (hreg : lv = true → b = true → AllRegistered s) : Inv0 lv s b := by
  refine ⟨h.c.ghost (fun _ h => h) h.c.rem_count rfl (fun p hp => by cases hp), h.q, ⟨?_⟩, h.s⟩
  intro hl p pr hp ho _
  obtain ⟨t, h1, h2, h3⟩ := h.l.live hl p pr hp ho (by simp [g0])
  refine ⟨t, h1, h2, ?_⟩
  rcases Bool.eq_false_or_eq_true b with hb | hb
  · obtain ⟨t', L, h4, h5, h6⟩ := hreg hl hb p pr hp ho
    rw [h1] at h4; cases h4
    exact Or.inr (Or.inl ⟨L, h5, h6⟩)
  · rcases h3 with ⟨_, h3⟩ | h3 | ⟨_, h3⟩
    · cases h3
    · exact Or.inr (Or.inl h3)
    · exact Or.inr (Or.inr ⟨hb, h3⟩)

theorem Inv0.agendaOnce {lv strict : Bool} {s : KState ℚ σ} (h : Inv0 lv s strict) : AgendaOnce s :=
  ⟨by rw [List.Nodup, List.pairwise_map]; exact h.c.ag_distinct, h.c.ag_live, h.s⟩

theorem Inv0.regOnce {lv strict : Bool} {s : KState ℚ σ} (h : Inv0 lv s strict) : RegOnce s := by
  intro e L p hL hm
  obtain ⟨h1, h2, h3, _⟩ := h.c.reg e L p hL hm
  exact ⟨h1, h2, h3⟩

theorem Inv0.noneLost {strict : Bool} {s : KState ℚ σ} (h : Inv0 true s strict) : NoneLost s := by
  intro p pr hp ho
  obtain ⟨t, h1, h2, h3⟩ := h.l.live rfl p pr hp ho (by simp [g0])
  refine ⟨t, h1, h2, ?_⟩
  rcases h3 with ⟨_, h3⟩ | h3 | ⟨_, h3⟩
  · cases h3
  · exact Or.inr h3
  · exact Or.inl h3

theorem Inv0.allRegistered {s : KState ℚ σ} (h : Inv0 true s true) : AllRegistered s := by
  intro p pr hp ho
  obtain ⟨t, h1, _, h3⟩ := h.l.live rfl p pr hp ho (by simp [g0])
  rcases h3 with ⟨_, h3⟩ | ⟨L, h3, h4⟩ | ⟨h3, _⟩
  · cases h3
  · exact ⟨t, L, h1, h3, h4⟩
  · cases h3

/-! ## the ghost's `e0` is irrelevant when no callbacks are pending -/

theorem Inv.e0 {g : Ghost} {s : KState ℚ σ} (hi : Inv g s) (hrem : g.rem = []) (x : EvId) : Inv { g with e0 := x } s := by
  refine ⟨⟨hi.c.ag_distinct, hi.c.ag_live, hi.c.done_trig, hi.c.procs, hi.c.reg, hi.c.intr, hi.c.check, hi.c.pend, ?_,
    hi.c.rem_check, ?_, hi.c.rem_count⟩, hi.q, hi.l.ghost (fun _ h => h) (fun h => h) ?_, hi.s⟩
  · intro p hp
    have : Cb.resume p ∈ g.rem := hp
    rw [hrem] at this; cases this
  · intro iv hv
    have : Cb.intr iv ∈ g.rem := hv
    rw [hrem] at this; cases this
  · intro p t h _
    rcases h with ⟨_, h2⟩ | h | h
    · rw [hrem] at h2; cases h2
    · exact Or.inr (Or.inl h)
    · exact Or.inr (Or.inr h)

/-! ## the pop -/

/-- **the pop keeps the invariant**: the processes that waited for the popped event become the pending ones -/
theorem Inv.openEvent {lv strict : Bool} {s : KState ℚ σ} (hi : Inv0 lv s strict) (q : QEntry ℚ) (rest : List (QEntry ℚ))
    (hq : popMin s.agenda = some (q, rest)) (L : List Cb) (hL : (s.ev q.ev).cbs = some L) :
    Inv { rem := L, e0 := q.ev, run := none, lv := lv, strict := strict } (_root_.openEvent s q rest) := by
  have sp := popMin_spec _ _ _ hq
  have hqmem : q ∈ s.agenda := sp.1.symm.subset List.mem_cons_self
  have hsub : ∀ b ∈ rest, b ∈ s.agenda := fun b hb => sp.1.symm.subset (List.mem_cons_of_mem _ hb)
  have hpw := (List.Perm.pairwise_iff (R := fun a b : QEntry ℚ => a.ev ≠ b.ev) (fun {a b} h => h.symm) sp.1).mp
    hi.c.ag_distinct
  have hlt : q.ev < s.events.size := lt_of_cbs_some s _ L hL
  have hev : ∀ x, (_root_.openEvent s q rest).ev x = (s.setEv q.ev { s.ev q.ev with cbs := none }).ev x := fun _ => rfl
  have hk : ∀ x, ((_root_.openEvent s q rest).ev x).kind = (s.ev x).kind := fun x => by
    rw [hev]; exact kind_setEv s q.ev x _ rfl
  have ho : ∀ x, ((_root_.openEvent s q rest).ev x).out = (s.ev x).out := fun x => by
    rw [hev]; exact out_setEv s q.ev x _ rfl
  have hcb : ∀ x, ((_root_.openEvent s q rest).ev x).cbs = if x = q.ev then none else (s.ev x).cbs := by
    intro x
    rw [hev, KState.ev_setEv]
    by_cases hx : x = q.ev
    · rw [if_pos ⟨hx, hlt⟩, if_pos hx]
    · rw [if_neg (fun h => hx h.1), if_neg hx]
  have hsz : (_root_.openEvent s q rest).events.size = s.events.size := by
    show (s.setEv q.ev _).events.size = _
    exact size_setEv _ _ _
  have hcond : ∀ c, isCond (_root_.openEvent s q rest) c = isCond s c := fun c => isCond_congr (hk c)
  have hcbsome : ∀ x L', ((_root_.openEvent s q rest).ev x).cbs = some L' → x ≠ q.ev ∧ (s.ev x).cbs = some L' := by
    intro x L' h
    rw [hcb] at h
    split at h
    · cases h
    · rename_i hx; exact ⟨hx, h⟩
  refine ⟨⟨?_, ?_, ?_, ?_, ?_, ?_, ?_, ?_, ?_, ?_, ?_, ?_⟩, ?_, ?_, ?_⟩
  rotate_right
  · -- whatever is triggered and unprocessed after the pop was so before, and is not the popped event
    intro e h1 h2
    rw [ho] at h1
    rw [hcb] at h2
    split at h2
    · exact absurd rfl h2
    · rename_i hne
      obtain ⟨b, hb, hbe⟩ := hi.s e h1 h2
      rcases List.mem_cons.mp (sp.1.subset hb) with hbq | hbr
      · exact absurd (by rw [← hbe, hbq]) hne
      · exact ⟨b, hbr, hbe⟩
  · exact (List.pairwise_cons.mp hpw).2
  · intro b hb
    have hne : b.ev ≠ q.ev := ((List.pairwise_cons.mp hpw).1 b hb).symm
    rw [ho, hcb, if_neg hne]
    exact hi.c.ag_live b (hsub b hb)
  · intro e he hc
    rw [ho]
    rw [hcb] at hc
    split at hc
    · rename_i hx; rw [hx]; exact (hi.c.ag_live q hqmem).1
    · exact hi.c.done_trig e (by rw [← hsz]; exact he) hc
  · intro p pr hp; rw [hk]; exact hi.c.procs p pr hp
  · intro e L' p hL' hm
    obtain ⟨_, hs⟩ := hcbsome e L' hL'
    obtain ⟨h1, h2, h3, h4⟩ := hi.c.reg e L' p hs hm
    exact ⟨by rw [ho]; exact h1, h2, h3, by rw [hk]; exact h4⟩
  · intro e L' iv hL' hm
    exact hi.c.intr e L' iv (hcbsome e L' hL').2 hm
  · intro e L' c hL' hm
    rw [hcond]; exact hi.c.check e L' c (hcbsome e L' hL').2 hm
  · intro p hp
    rcases hp with hp | hp
    · obtain ⟨h1, ⟨pr, h2, h3⟩, _, _⟩ := hi.c.reg q.ev L p hL hp
      refine ⟨by rw [ho]; exact h1, by rw [hk]; exact hi.c.procs p pr h2, ?_⟩
      intro e L' hL' hm
      obtain ⟨hne, hs⟩ := hcbsome e L' hL'
      obtain ⟨_, ⟨pr', h2', h3'⟩, _⟩ := hi.c.reg e L' p hs hm
      rw [h2] at h2'; cases h2'
      rw [h3] at h3'; cases h3'
      exact hne rfl
    · cases hp
  · intro p hp
    refine ⟨by rw [hsz]; exact hlt, ?_⟩
    rw [hk]; exact (hi.c.reg q.ev L p hL hp).2.2.2
  · intro c hc; rw [hcond]; exact hi.c.check q.ev L c hL hc
  · intro iv hv; exact hi.c.intr q.ev L iv hL hv
  · intro p
    by_cases hm : Cb.resume p ∈ L
    · exact Nat.le_of_eq (hi.c.reg q.ev L p hL hm).2.2.1
    · rw [List.count_eq_zero.mpr hm]; exact Nat.zero_le _
  · exact hi.q.keep (fun _ => rfl) (fun _ => rfl) (fun e h _ => ⟨hk e, by rw [ho]; exact h⟩)
  · refine hi.l.transfer' (by rw [hsz]) (fun _ => rfl) (fun p hp => by rw [← ho]; exact hp) (fun _ h => h) (fun h => h) ?_
    intro p t h _ _
    rcases h with ⟨_, h2⟩ | ⟨L', h1, h2⟩ | ⟨h1, h2⟩
    · cases h2
    · by_cases ht : t = q.ev
      · subst ht
        rw [hL] at h1; cases h1
        exact Or.inl ⟨rfl, h2⟩
      · exact Or.inr (Or.inl ⟨L', by rw [hcb, if_neg ht]; exact h1, h2⟩)
    · refine Or.inr (Or.inr ⟨h1, ?_⟩)
      rw [hcb]; split
      · rfl
      · exact h2

/-! ## one step, whole runs -/

/-- the popped event is never one that has been processed already -/
theorem Inv0.pop_unprocessed {lv strict : Bool} {s : KState ℚ σ} (hi : Inv0 lv s strict) (q : QEntry ℚ) (rest : List (QEntry ℚ))
    (hq : popMin s.agenda = some (q, rest)) : (s.ev q.ev).cbs ≠ none :=
  (hi.c.ag_live q ((popMin_spec _ _ _ hq).1.symm.subset List.mem_cons_self)).2

/-- **one kernel step keeps the invariant**, however it ends -/
theorem Inv0.step (body : σ → Resume → Burst ℚ σ) (fuel : Nat) {lv strict : Bool} {s s' : KState ℚ σ} (hi : Inv0 lv s strict)
    (hfuel : lv = true → 0 < fuel) (hsafe : SafeStep body fuel s) (hnh : strict = true → NoHangStep body fuel s)
    (hs : (step body fuel s).state? = some s') : Inv0 lv s' strict := by
  unfold _root_.step at hs
  unfold SafeStep at hsafe
  unfold NoHangStep at hnh
  split at hs
  · cases hs
  · rename_i q rest hq
    rw [hq] at hsafe hnh
    simp only at hsafe hnh
    split at hs
    · rename_i hnone
      exact absurd hnone (hi.pop_unprocessed q rest hq)
    · rename_i L hL
      rw [hL] at hsafe hnh
      simp only at hsafe hnh
      rw [closeEvent_state] at hs
      cases hs
      have h1 := Inv.openEvent hi q rest hq L hL
      have h2 := Inv.foldCbs body fuel L { rem := L, e0 := q.ev, run := none, lv := lv, strict := strict }
        { s := _root_.openEvent s q rest } rfl rfl hfuel h1 hsafe hnh
      exact h2.e0 rfl 0

theorem KReach.trans {body : σ → Resume → Burst ℚ σ} {fuel : Nat} {s0 s1 s2 : KState ℚ σ}
    (h1 : KReach body fuel s0 s1) (h2 : KReach body fuel s1 s2) : KReach body fuel s0 s2 := by
  induction h2 with
  | init => exact h1
  | step _ hs ih => exact KReach.step ih hs

/-- **the invariant holds in every state of every safe run** -/
theorem Inv0.reach (body : σ → Resume → Burst ℚ σ) (fuel : Nat) {lv strict : Bool} {s0 s : KState ℚ σ} (h0 : Inv0 lv s0 strict)
    (hfuel : lv = true → 0 < fuel) (hsafe : SafeRun body fuel s0) (hnh : strict = true → NoHangRun body fuel s0)
    (hr : KReach body fuel s0 s) : Inv0 lv s strict := by
  induction hr with
  | init => exact h0
  | step hr' hs ih => exact ih.step body fuel hfuel (hsafe _ hr') (fun h => hnh h _ hr') hs

/-! ## the program-level sufficient condition -/

theorem SafeProg.resume {body : σ → Resume → Burst ℚ σ} (h : SafeProg body) (p : EvId) :
    ∀ (fuel : Nat) (e : EvId) (s : KState ℚ σ), SafeResume body p fuel e s
  | 0, _, _ => trivial
  | fuel + 1, e, s => by
    unfold SafeResume
    split
    · trivial
    · refine ⟨h _ _ _ _, ?_⟩
      split
      · split
        · trivial
        · exact SafeProg.resume h p fuel _ _
      · trivial

theorem SafeProg.intr {body : σ → Resume → Burst ℚ σ} (h : SafeProg body) (fuel : Nat) (iv p : EvId) (s : KState ℚ σ) :
    SafeIntr body fuel iv p s := by
  unfold SafeIntr
  split
  · trivial
  · split
    · trivial
    · split <;> exact h.resume p fuel _ _

theorem SafeProg.cb {body : σ → Resume → Burst ℚ σ} (h : SafeProg body) (fuel : Nat) (e : EvId) (s : KState ℚ σ) (cb : Cb) :
    SafeCb body fuel e s cb := by
  cases cb <;> simp only [SafeCb]
  case resume p => exact h.resume p fuel e s
  case intr iv =>
    split
    · exact h.intr fuel iv _ s
    · trivial

theorem SafeProg.cbs {body : σ → Resume → Burst ℚ σ} (h : SafeProg body) (fuel : Nat) (e : EvId) :
    ∀ (cbs : List Cb) (l : LoopSt ℚ σ), SafeCbs body fuel e cbs l
  | [], _ => trivial
  | cb :: cbs, l => ⟨h.cb fuel e l.s cb, SafeProg.cbs h fuel e cbs _⟩

theorem SafeProg.step {body : σ → Resume → Burst ℚ σ} (h : SafeProg body) (fuel : Nat) (s : KState ℚ σ) :
    SafeStep body fuel s := by
  unfold SafeStep
  split
  · trivial
  · split
    · trivial
    · exact h.cbs fuel _ _ _

theorem SafeProg.run {body : σ → Resume → Burst ℚ σ} (h : SafeProg body) (fuel : Nat) (s0 : KState ℚ σ) :
    SafeRun body fuel s0 := fun s _ => h.step fuel s

/-! ## initial states -/

/-- the empty environment (resources with empty queues) satisfies the invariant -/
theorem Inv0.init (lv : Bool) (t0 : ℚ) (rs : Array ResRec)
    (h : ∀ r, (rs.getD r default).putQ = [] ∧ (rs.getD r default).getQ = []) (strict : Bool := false) :
    Inv0 lv ({ now := t0, resources := rs } : KState ℚ σ) strict := by
  have hev : ∀ e, ({ now := t0, resources := rs } : KState ℚ σ).ev e = default := fun e => by simp [KState.ev]
  have hpr : ∀ p, ({ now := t0, resources := rs } : KState ℚ σ).proc? p = none := fun p => rfl
  refine ⟨⟨?_, ?_, ?_, ?_, ?_, ?_, ?_, ?_, ?_, ?_, ?_, ?_⟩, ⟨?_, ?_⟩, ⟨?_⟩, ?_⟩
  rotate_right
  · intro e h1; rw [hev] at h1; exact absurd rfl h1
  · exact List.Pairwise.nil
  · intro q hq; cases hq
  · intro e he; exact absurd he (Nat.not_lt_zero _)
  · intro p pr hp; rw [hpr] at hp; cases hp
  · intro e L p hL; rw [hev] at hL; cases hL
  · intro e L iv hL; rw [hev] at hL; cases hL
  · intro e L c hL; rw [hev] at hL; cases hL
  · intro p hp; rcases hp with hp | hp <;> cases hp
  · intro p hp; cases hp
  · intro c hc; cases hc
  · intro iv hv; cases hv
  · intro p; simp [g0]
  · intro r
    show (rs.getD r default).putQ.Nodup ∧ ∀ e ∈ (rs.getD r default).putQ, _
    rw [(h r).1]; exact ⟨List.nodup_nil, fun e he => by cases he⟩
  · intro r
    show (rs.getD r default).getQ.Nodup ∧ ∀ e ∈ (rs.getD r default).getQ, _
    rw [(h r).2]; exact ⟨List.nodup_nil, fun e he => by cases he⟩
  · intro _ p pr hp; rw [hpr] at hp; cases hp

/-- starting a process from outside (`env.process(...)` in the main program) keeps the invariant -/
theorem Inv0.spawn {lv strict : Bool} {s : KState ℚ σ} (hi : Inv0 lv s strict) (self : EvId) (st : σ) :
    Inv0 lv (doCall s self (.spawn st)).1 strict := Inv.spawn hi self st

/-- `run(until=event)` subscribes `StopSimulation.callback` to the event: the invariant is kept -/
theorem Inv0.until_event {lv strict : Bool} {s : KState ℚ σ} (hi : Inv0 lv s strict) (e : EvId) : Inv0 lv (s.addCb e .stop) strict :=
  Inv.addCb hi e .stop (fun p h => by cases h) (fun iv h => by cases h) (fun c h => by cases h)

end Once

namespace Once
variable {σ : Type}

/-- `run(until=number)`: a fresh pre-triggered sentinel, pushed URGENT for the absolute time `at_`, with
`StopSimulation.callback` subscribed — the invariant is kept (the set-up of `runUntilTime`) -/
theorem Inv0.until_time {lv strict : Bool} {s : KState ℚ σ} (hi : Inv0 lv s strict) (at_ : ℚ) :
    Inv0 lv (((s.newEv { kind := .sentinel, cbs := some [], out := some (.ok .none) }).1.scheduleAt s.events.size URGENT at_).addCb
      s.events.size .stop) strict := by
  have h1 : InvX s.events.size (g0 lv strict) (s.newEv { kind := .sentinel, cbs := some [], out := some (.ok .none) }).1 :=
    Inv.newEv hi _ [] rfl (fun p hm => by simp at hm) (fun iv hm => by simp at hm) (fun c hm => by simp at hm)
  have h2 : Inv (g0 lv strict) ((s.newEv { kind := .sentinel, cbs := some [], out := some (.ok .none) }).1.scheduleAt
      s.events.size URGENT at_) := by
    refine ⟨h1.c.sched { time := at_, prio := URGENT, eid := s.eid, ev := s.events.size } rfl rfl (fun _ => rfl) (fun _ => rfl)
      ?_ ?_ ?_, h1.q.keep (fun _ => rfl) (fun _ => rfl) (fun _ h _ => ⟨rfl, h⟩), ⟨h1.l.live⟩, ?_⟩
    · intro b hb
      exact Nat.ne_of_lt (hi.c.agenda_lt b hb)
    · rw [KState.ev_newEv, if_pos rfl]; simp
    · rw [KState.ev_newEv, if_pos rfl]; simp
    · intro e' k1 k2
      by_cases he : e' = s.events.size
      · exact ⟨_, List.mem_cons_self, he.symm⟩
      · obtain ⟨q, hq, hqe⟩ := h1.sx e' he k1 k2
        exact ⟨q, List.mem_cons_of_mem _ hq, hqe⟩
  exact Inv.addCb h2 _ .stop (fun p h => by cases h) (fun iv h => by cases h) (fun c h => by cases h)

/-! ## processed for good -/

/-- the step that pops `q` leaves its event processed -/
theorem step_processes (body : σ → Resume → Burst ℚ σ) (fuel : Nat) (s s' : KState ℚ σ) (q : QEntry ℚ)
    (rest : List (QEntry ℚ)) (hq : popMin s.agenda = some (q, rest)) (hlt : q.ev < s.events.size)
    (hs : (step body fuel s).state? = some s') : (s'.ev q.ev).cbs = none ∧ q.ev < s'.events.size := by
  have ho : EvMono s (_root_.openEvent s q rest) := by
    have := EvMono.of_setEv s q.ev { s.ev q.ev with cbs := none } rfl (fun _ => rfl)
    exact ⟨this.size_le, this.kind, this.processed⟩
  have hopen : ((_root_.openEvent s q rest).ev q.ev).cbs = none := by
    show ((s.setEv q.ev { s.ev q.ev with cbs := none }).ev q.ev).cbs = none
    rw [KState.ev_setEv, if_pos ⟨rfl, hlt⟩]
  have hlt' : q.ev < (_root_.openEvent s q rest).events.size := Nat.lt_of_lt_of_le hlt ho.size_le
  unfold _root_.step at hs
  rw [hq] at hs
  simp only at hs
  split at hs
  · cases hs; exact ⟨hopen, hlt'⟩
  · rename_i cbs _
    rw [closeEvent_state] at hs
    cases hs
    have := EvMono.krel.foldCbs body fuel q.ev cbs { s := _root_.openEvent s q rest }
    exact ⟨this.processed q.ev hlt' hopen, Nat.lt_of_lt_of_le hlt' this.size_le⟩

/-- one step never un-processes an event -/
theorem step_evMono (body : σ → Resume → Burst ℚ σ) (fuel : Nat) (s s' : KState ℚ σ)
    (hs : (step body fuel s).state? = some s') : EvMono s s' := by
  unfold _root_.step at hs
  split at hs
  · cases hs
  · rename_i q rest hq
    have ho : EvMono s (_root_.openEvent s q rest) := by
      have := EvMono.of_setEv s q.ev { s.ev q.ev with cbs := none } rfl (fun _ => rfl)
      exact ⟨this.size_le, this.kind, this.processed⟩
    split at hs
    · cases hs; exact ho
    · rename_i cbs _
      rw [closeEvent_state] at hs
      cases hs
      exact ho.trans (EvMono.krel.foldCbs body fuel q.ev cbs { s := _root_.openEvent s q rest })

theorem reach_evMono (body : σ → Resume → Burst ℚ σ) (fuel : Nat) (s s' : KState ℚ σ)
    (hr : KReach body fuel s s') : EvMono s s' := by
  induction hr with
  | init => exact EvMono.refl _
  | step _ hs ih => exact ih.trans (step_evMono body fuel _ _ hs)

end Once
