import OnlVerif.Lemmas.TimerKFrame
import OnlVerif.Lemmas.StampVc
import OnlVerif.Net.VCOnK
/-!
# The VirtualClock scheduler on the kernel model: canonical configurations (definitions)

`A` is an abstract description of a kernel state of the program `VCOnK.prog`: where `VC.run` (and the sender process it has
spawned) and the source are suspended, which agenda entries exist, what the `PriorityStore` holds, the attribute cells, and
(ghost) the `put` history.  `KInv s a` says that the kernel state `s` *is* the configuration `a`: it pins down every part of
`s` that `Environment.step` and the generators can read.  `AInv` is what holds of the configurations of a run.  `AStep` is one
kernel step seen on configurations; `toM` is the LTS state a configuration stands for.
-/

namespace VCK
open VCOnK
open TimerK (lookup)

abbrev St := VcKSt ℚ
abbrev KS := KState ℚ St

/-- a `put` that has happened: packet id, arrival instant, stamp -/
abbrev PutRec := Int × ℚ × ℚ

/-- where `VC.run` (with the sender it waits for) is -/
inductive RPhase where
  /-- not started: its `Initialize` entry `q` is in the agenda -/
  | init (q : QEntry ℚ)
  /-- blocked in `store.get()` (event `g`) -/
  | W (g : EvId)
  /-- that `get` has been served with the item of `w`: entry `q` -/
  | H (g : EvId) (w : PutRec) (q : QEntry ℚ)
  /-- the sender process `p` of packet `id` has been created: its `Initialize` entry `q` -/
  | S (p : EvId) (id : Int) (q : QEntry ℚ)
  /-- the sender `p` sleeps on timeout `t` (entry `q`, due at `q.time`) -/
  | T (p t : EvId) (id : Int) (q : QEntry ℚ)
  /-- the sender's generator has returned: its process event `p` is triggered (entry `q`) -/
  | F (p : EvId) (id : Int) (q : QEntry ℚ)

/-- where the source is -/
inductive SPhase where
  | init (q : QEntry ℚ) (arr : List (ℚ × Int))
  /-- sleeping on the timeout (entry `q`) after which it puts packet `id`; `rest` still to come -/
  | wait (id : Int) (rest : List (ℚ × Int)) (q : QEntry ℚ)
  /-- the generator has returned: the process event (entry `q`) is triggered -/
  | ending (q : QEntry ℚ)
  | done

/-- `g x := v` -/
def upd {β : Type} (g : Nat → β) (f : Nat) (v : β) : Nat → β := fun x => if x = f then v else g x

@[simp] theorem upd_same {β : Type} (g : Nat → β) (f : Nat) (v : β) : upd g f v f = v := by simp [upd]
theorem upd_ne {β : Type} (g : Nat → β) (f f' : Nat) (v : β) (h : f' ≠ f) : upd g f v f' = g f' := by simp [upd, h]
theorem upd_apply {β : Type} (g : Nat → β) (f f' : Nat) (v : β) : upd g f v f' = if f' = f then v else g f' := rfl

structure A where
  run : RPhase
  src : SPhase
  /-- the `StorePut` events that are triggered and not yet processed -/
  pend : List (QEntry ℚ)
  /-- `store.items`: the packets waiting, in the order of their `put` -/
  items : List PutRec
  /-- `queue_count[f]` -/
  cnt : Nat → Int
  /-- `queue_byte_size[f]` -/
  byt : Nat → Int
  /-- `packets_received` -/
  recv : Int
  /-- `current_packet` -/
  cur : Option Int
  /-- `vc[c]` -/
  vc : Nat → ℚ
  /-- `aux_vc[c]` -/
  aux : Nat → ℚ
  /-- (ghost) every `put` so far, in order -/
  puts : List PutRec

def RPhase.entries : RPhase → List (QEntry ℚ)
  | .init q => [q]
  | .W _ => []
  | .H _ _ q => [q]
  | .S _ _ q => [q]
  | .T _ _ _ q => [q]
  | .F _ _ q => [q]

def SPhase.entries : SPhase → List (QEntry ℚ)
  | .init q _ => [q]
  | .wait _ _ q => [q]
  | .ending q => [q]
  | .done => []

def A.entries (a : A) : List (QEntry ℚ) := a.run.entries ++ (a.src.entries ++ a.pend)

/-- the events a configuration talks about (pairwise different); the process event of `VC.run` is 0, of the source 2 -/
def RPhase.ids : RPhase → List EvId
  | .init _ => [0, 1]
  | .W g => [0, g]
  | .H g _ _ => [0, g]
  | .S p _ _ => [0, p, p + 1]
  | .T p t _ _ => [0, p, t]
  | .F p _ _ => [0, p]

def SPhase.ids : SPhase → List EvId
  | .init _ _ => [2, 3]
  | .wait _ _ q => [2, q.ev]
  | .ending _ => [2]
  | .done => []

def pendIds (l : List (QEntry ℚ)) : List EvId := l.map (·.ev)

def A.ids (a : A) : List EvId := a.run.ids ++ (a.src.ids ++ pendIds a.pend)

/-- the `get_queue` of the store -/
def RPhase.getQ : RPhase → List EvId
  | .W g => [g]
  | _ => []

/-- kind, callbacks and outcome of a live event -/
def EvIs (s : KS) (e : EvId) (k : Kind) (cbs : List Cb) (out : Option Outcome) : Prop :=
  (s.ev e).kind = k ∧ (s.ev e).cbs = some cbs ∧ (s.ev e).out = out

/-- the record of an unbounded `PriorityStore` -/
def pstoreRec (getQ : List EvId) (items : List Int) : ResRec :=
  { kind := .pstore, capacity := none, getQ := getQ, items := items }

variable (N scale : Nat)

/-- the integer that carries the `PriorityItem` of a `put` -/
def codeOf (w : PutRec) : Int := stampItem scale N w.2.2 w.1

/-! ## the kernel side of a configuration -/

def RunEv (s : KS) : RPhase → Prop
  | .init q => q.ev = 1 ∧ EvIs s 1 (.init 0) [.resume 0] (some (.ok .none)) ∧
      s.proc? 0 = some { st := .runStart, target := some 1 } ∧ EvIs s 0 .proc [] none
  | .W g => EvIs s g (.get 0) [.trigPut 0, .resume 0] none ∧
      s.proc? 0 = some { st := .runGet, target := some g } ∧ EvIs s 0 .proc [] none
  | .H g w q => q.ev = g ∧ EvIs s g (.get 0) [.trigPut 0, .resume 0] (some (.ok (.int (codeOf N scale w)))) ∧
      s.proc? 0 = some { st := .runGet, target := some g } ∧ EvIs s 0 .proc [] none
  | .S p id q => q.ev = p + 1 ∧ EvIs s (p + 1) (.init p) [.resume p] (some (.ok .none)) ∧
      s.proc? p = some { st := .sendStart id, target := some (p + 1) } ∧ EvIs s p .proc [.resume 0] none ∧
      s.proc? 0 = some { st := .runSend id, target := some p } ∧ EvIs s 0 .proc [] none
  | .T p t id q => q.ev = t ∧ EvIs s t .timeout [.resume p] (some (.ok .none)) ∧
      s.proc? p = some { st := .sendTx id, target := some t } ∧ EvIs s p .proc [.resume 0] none ∧
      s.proc? 0 = some { st := .runSend id, target := some p } ∧ EvIs s 0 .proc [] none
  | .F p id q => q.ev = p ∧ EvIs s p .proc [.resume 0] (some (.ok .none)) ∧
      s.proc? 0 = some { st := .runSend id, target := some p } ∧ EvIs s 0 .proc [] none

/-- the source carries the instant it resumes at: the due time of the entry it waits for -/
def SrcEv (s : KS) : SPhase → Prop
  | .init q arr => q.ev = 3 ∧ EvIs s 3 (.init 2) [.resume 2] (some (.ok .none)) ∧
      s.proc? 2 = some { st := .src q.time none arr, target := some 3 } ∧ EvIs s 2 .proc [] none
  | .wait id rest q => EvIs s q.ev .timeout [.resume 2] (some (.ok .none)) ∧
      s.proc? 2 = some { st := .src q.time (some id) rest, target := some q.ev } ∧ EvIs s 2 .proc [] none
  | .ending q => q.ev = 2 ∧ EvIs s 2 .proc [] (some (.ok .none))
  | .done => True

/-- the value of the `current_packet` cell -/
def curVal : Option Int → Val
  | some id => .int id
  | none => .none

/-- the kernel state `s` has the configuration `a` -/
structure KInv (F : Nat) (s : KS) (a : A) : Prop where
  wf : AgendaWF s
  ag : s.agenda.Perm a.entries
  rsz : s.resources.size = 1
  st : s.res 0 = pstoreRec a.run.getQ (a.items.map (codeOf N scale))
  run : RunEv N scale s a.run
  src : SrcEv s a.src
  pend : ∀ u ∈ a.pend, EvIs s u.ev (.put 0) [.trigGet 0] (some (.ok .none))
  nd : a.ids.Nodup
  c0 : lookup s.shared cRecv = .int a.recv
  c1 : lookup s.shared cCur = curVal a.cur
  cc : ∀ f, f < F → lookup s.shared (cCount f) = .int (a.cnt f)
  cb : ∀ f, f < F → lookup s.shared (cBytes f) = .int (a.byt f)
  cv : ∀ c, c < F → lookup s.shared (cVc c) = TimeCell.enc (a.vc c)
  ca : ∀ c, c < F → lookup s.shared (cAux c) = TimeCell.enc (a.aux c)

/-! ## the abstract side -/

variable (F : Nat) (flow size : Int → Nat) (cfg : VcCfg ℚ)

/-- `x` lies on the grid `ℤ / scale` -/
def OnGrid (x : ℚ) : Prop := ∃ k : ℤ, x = k / (scale : ℚ)

/-- the configuration names exactly the classes `0 … F-1`, each with a positive vtick, `flow2class` is the identity -/
structure CfgOK : Prop where
  rate : 0 < cfg.rate
  vt : ∀ f, f < F → ∃ vt, Stamp.lookup cfg.vticks f = some vt ∧ 0 < vt
  keys : ∀ kv ∈ cfg.vticks, kv.1 < F
  nodup : (cfg.vticks.map (·.1)).Nodup
  f2c : ∀ f, f < F → Stamp.lookup cfg.flow2class f = some f

/-- the vticks and the gaps lie on the grid `ℤ / scale` -/
structure GridOK (arrivals : List (ℚ × Int)) : Prop where
  pos : 0 < scale
  vt : ∀ kv ∈ cfg.vticks, OnGrid scale kv.2
  gaps : ∀ x ∈ arrivals, OnGrid scale x.1

/-- gaps are not negative, packets belong to configured flows, ids increase and stay inside `0 … N-1` -/
structure WorkOK (l : List (ℚ × Int)) : Prop where
  gap : ∀ x ∈ l, 0 ≤ x.1 ∧ flow x.2 < F ∧ 0 ≤ x.2 ∧ x.2 < N ∧ OnGrid scale x.1
  inc : (l.map (·.2)).Pairwise (· < ·)

def RunA (a : A) (now : ℚ) : RPhase → Prop
  | .init q => q.time = now ∧ q.prio = URGENT ∧ a.pend = [] ∧ a.items = [] ∧ a.cur = none ∧ a.puts = []
  | .W _ => (a.items ≠ [] → a.pend ≠ []) ∧ a.cur = none
  | .H _ w q => q.time = now ∧ q.prio = NORMAL ∧ a.cur = none ∧ w ∈ a.puts ∧ w ∉ a.items
  | .S _ id q => q.time = now ∧ q.prio = URGENT ∧ a.cur = none ∧ flow id < F ∧ ∃ w ∈ a.puts, w.1 = id
  | .T _ _ id q => q.prio = NORMAL ∧ a.cur = some id ∧ flow id < F ∧ ∃ w ∈ a.puts, w.1 = id
  | .F _ _ q => q.time = now ∧ q.prio = NORMAL ∧ a.cur = none

def SrcA (a : A) (now : ℚ) : SPhase → Prop
  | .init q arr => q.time = now ∧ now = 0 ∧ q.prio = URGENT ∧ WorkOK N scale F flow arr ∧ a.puts = []
  | .wait id rest q => q.prio = NORMAL ∧ WorkOK N scale F flow ((0, id) :: rest) ∧ OnGrid scale q.time ∧
      ∀ w ∈ a.puts, w.1 < id
  | .ending q => q.time = now ∧ q.prio = NORMAL
  | .done => True

/-- what holds of a configuration at instant `now` -/
structure AInv (a : A) (now : ℚ) : Prop where
  run : RunA F flow a now a.run
  src : SrcA N scale F flow a now a.src
  pend : ∀ u ∈ a.pend, u.time = now ∧ u.prio = NORMAL
  due : ∀ x ∈ a.entries, now ≤ x.time
  /-- the waiting packets are `put`s, in `put` order -/
  sub : a.items.Sublist a.puts
  /-- ids increase and arrival instants do not decrease along the `put`s -/
  mono : a.puts.Pairwise fun x y => x.1 < y.1 ∧ x.2.1 ≤ y.2.1
  /-- every `put` so far: a configured flow, an id in `0 … N-1`, not later than now, a stamp on the grid -/
  putOK : ∀ w ∈ a.puts, flow w.1 < F ∧ 0 ≤ w.1 ∧ w.1 < N ∧ w.2.1 ≤ now ∧ OnGrid scale w.2.2
  /-- `aux_vc` stays on the grid -/
  auxG : ∀ c, c < F → OnGrid scale (a.aux c)
  /-- a flow that is not a dict key yet has counters 0 -/
  keysOK : ∀ f, f ∉ keysOf flow (a.puts.map (·.1)) → a.cnt f = 0 ∧ a.byt f = 0
  cfgOK : CfgOK F cfg
  grid : 0 < scale ∧ ∀ kv ∈ cfg.vticks, OnGrid scale kv.2

/-! ## one kernel step, seen on configurations -/

/-- the source after the `put` (or at its start) at instant `now`: it sleeps on a fresh timeout (event `ev`, entry counter
`eid`) or ends (its process event 2 is triggered) -/
def srcNext (now : ℚ) (eid : Nat) (ev : EvId) : List (ℚ × Int) → SPhase
  | [] => .ending ⟨now, NORMAL, eid, 2⟩
  | (gap, id) :: rest => .wait id rest ⟨now + gap, NORMAL, eid, ev⟩

/-- `w` carries the least integer among the waiting packets: what the `PriorityStore` of `K` hands out -/
def IsLeast (l : List PutRec) (w : PutRec) : Prop := w ∈ l ∧ ∀ x ∈ l, codeOf N scale w ≤ codeOf N scale x

/-- the vtick of a class (0 for an unconfigured one) -/
def vtOf (c : Nat) : ℚ := (Stamp.lookup cfg.vticks c).getD 0

/-- the record of the `put` of packet `id` at instant `now` in configuration `a` -/
def putRec (a : A) (now : ℚ) (id : Int) : PutRec := (id, now, VC.auxOf now (a.aux (flow id)) (vtOf cfg (flow id)))

/-- **one kernel step, seen on configurations**: processing the agenda entry `q` in a kernel state with `n` events and entry
counter `e` takes `a` to `a'` and appends `new` to the history -/
inductive AStep (n e : Nat) : A → QEntry ℚ → A → List (HEv ℚ) → Prop
  | runInit (a : A) (q : QEntry ℚ) (h : a.run = .init q) : AStep n e a q { a with run := .W n } [.get q.time]
  | pktResume (a : A) (q : QEntry ℚ) (g : EvId) (w : PutRec) (h : a.run = .H g w q) :
      AStep n e a q { a with run := .S n w.1 ⟨q.time, URGENT, e, n + 1⟩ } [.serve w.1 q.time]
  | sendInit (a : A) (q : QEntry ℚ) (p : EvId) (id : Int) (h : a.run = .S p id q) :
      AStep n e a q { a with run := .T p n id ⟨q.time + txTime size cfg.rate id, NORMAL, e, n⟩, cur := some id } []
  | sendFire (a : A) (q : QEntry ℚ) (p t : EvId) (id : Int) (h : a.run = .T p t id q) :
      AStep n e a q { a with run := .F p id ⟨q.time, NORMAL, e, p⟩, cnt := upd a.cnt (flow id) (a.cnt (flow id) + -1),
                             byt := upd a.byt (flow id) (a.byt (flow id) + -(size id : Int)), cur := none } [.out id q.time]
  | doneHit (a : A) (q : QEntry ℚ) (p : EvId) (id0 : Int) (w : PutRec) (h : a.run = .F p id0 q)
      (hw : IsLeast N scale a.items w) :
      AStep n e a q { a with run := .H n w ⟨q.time, NORMAL, e, n⟩, items := a.items.erase w } [.get q.time]
  | doneBlock (a : A) (q : QEntry ℚ) (p : EvId) (id0 : Int) (h : a.run = .F p id0 q) (hit : a.items = []) :
      AStep n e a q { a with run := .W n } [.get q.time]
  | srcInit (a : A) (q : QEntry ℚ) (arr : List (ℚ × Int)) (h : a.src = .init q arr) :
      AStep n e a q { a with src := srcNext q.time e n arr } []
  | srcPut (a : A) (q : QEntry ℚ) (id : Int) (arr : List (ℚ × Int)) (h : a.src = .wait id arr q) :
      AStep n e a q { a with
        src := srcNext q.time (e + 1) (n + 1) arr
        pend := a.pend ++ [⟨q.time, NORMAL, e, n⟩]
        items := a.items ++ [putRec flow cfg a q.time id]
        cnt := upd a.cnt (flow id) (a.cnt (flow id) + 1)
        byt := upd a.byt (flow id) (a.byt (flow id) + (size id : Int))
        recv := a.recv + 1
        vc := upd a.vc (flow id) (VC.vcOf (a.vc (flow id)) q.time (vtOf cfg (flow id)) (size id))
        aux := upd a.aux (flow id) (putRec flow cfg a q.time id).2.2
        puts := a.puts ++ [putRec flow cfg a q.time id] }
        [.put id q.time, .stamp (putRec flow cfg a q.time id).2.2]
  | srcEnd (a : A) (q : QEntry ℚ) (h : a.src = .ending q) : AStep n e a q { a with src := .done } []
  | pendNoop (a : A) (q : QEntry ℚ) (l1 l2 : List (QEntry ℚ)) (hpe : a.pend = l1 ++ q :: l2)
      (hno : ¬ (a.items ≠ [] ∧ ∃ g, a.run = .W g)) :
      AStep n e a q { a with pend := l1 ++ l2 } []
  | pendHand (a : A) (q : QEntry ℚ) (g : EvId) (w : PutRec) (l1 l2 : List (QEntry ℚ)) (hpe : a.pend = l1 ++ q :: l2)
      (h : a.run = .W g) (hw : IsLeast N scale a.items w) :
      AStep n e a q { a with pend := l1 ++ l2, run := .H g w ⟨q.time, NORMAL, e, g⟩, items := a.items.erase w } []

/-! ## the LTS state of a configuration -/

/-- the packet object behind an id -/
abbrev pk (id : Int) : SPkt := pktOf flow size id

/-- the `PriorityItem` of a `put` -/
def itemW (w : PutRec) : Item ℚ := { stamp := w.2.2, arr := w.2.1, pkt := pktOf flow size w.1 }

/-- the dict with keys `keys` (in this order) and values `g` -/
def dictOf {β : Type} (keys : List Nat) (g : Nat → β) : List (Nat × β) := keys.map fun f => (f, g f)

/-- the keys of `queue_count` / `queue_byte_size`: the flows in the order of their first `put` -/
def A.keys (a : A) : List Nat := keysOf flow (a.puts.map (·.1))

/-- **the LTS state a configuration stands for** -/
def toM (a : A) (now : ℚ) : StState ℚ (VcSt ℚ) :=
  { now := now
    sch := { vc := cfg.vticks.map fun kv => (kv.1, a.vc kv.1), aux := cfg.vticks.map fun kv => (kv.1, a.aux kv.1) }
    items := a.items.map (itemW flow size)
    getPending := match a.run with | .W _ => true | _ => false
    handed := match a.run with | .H _ w _ => some (itemW flow size w) | _ => none
    spawned := match a.run with | .S _ id _ => some (pktOf flow size id) | _ => none
    tx := match a.run with | .T _ _ id q => some (pktOf flow size id, q.time) | _ => none
    fin := match a.run with | .F _ id _ => some (pktOf flow size id) | _ => none
    currentPacket := a.cur.map (pktOf flow size)
    queueCount := dictOf (a.keys flow) a.cnt
    queueBytes := dictOf (a.keys flow) a.byt
    started := match a.run with | .init _ => false | _ => true }

/-- the packets a history hands to `put` / to `out.put`, as the LTS sees them -/
def putPk (h : List (HEv ℚ)) : List SPkt := h.filterMap fun | .put id _ => some (pktOf flow size id) | _ => none
def outPk (h : List (HEv ℚ)) : List SPkt := h.filterMap fun | .out id _ => some (pktOf flow size id) | _ => none

/-- number of kernel steps a configuration still needs (an upper bound) -/
def RPhase.mu : RPhase → Nat
  | .init _ => 1
  | .W _ => 0
  | .H _ _ _ => 4
  | .S _ _ _ => 3
  | .T _ _ _ _ => 2
  | .F _ _ _ => 1

def SPhase.mu : SPhase → Nat
  | .init _ arr => 6 * arr.length + 2
  | .wait _ rest _ => 6 * rest.length + 7
  | .ending _ => 1
  | .done => 0

def A.mu (a : A) : Nat := a.run.mu + a.src.mu + a.pend.length + 4 * a.items.length

/-- the configuration of the initial state -/
def a0 (arrivals : List (ℚ × Int)) : A :=
  { run := .init ⟨0, URGENT, 0, 1⟩, src := .init ⟨0, URGENT, 1, 3⟩ arrivals, pend := [], items := [], cnt := fun _ => 0,
    byt := fun _ => 0, recv := 0, cur := none, vc := fun _ => 0, aux := fun _ => 0, puts := [] }

/-- the history-linked part: the `put` and `stamp` observations are the ghost `puts` -/
structure LInv (a : A) (h : List (HEv ℚ)) : Prop where
  puts : (h.filterMap fun | HEv.put id t => some (id, t) | _ => none) = a.puts.map fun w => (w.1, w.2.1)
  stamps : (h.filterMap fun | HEv.stamp x => some x | _ => none) = a.puts.map fun w => w.2.2
  recv : a.recv = a.puts.length

end VCK
