import OnlVerif.Lemmas.WireKFrame
/-!
# The Wire on the kernel model: kernel steps that run `Wire.run`

Each lemma executes `Environment.step` of the kernel model symbolically on a state with configuration `a` whose next
agenda entry belongs to the wire process, and shows that the resulting state has the configuration the lemma names.
-/

set_option linter.unusedSimpArgs false

namespace WireK
open WireOnK
open TimerK (lookup resume_eq step_eq)

variable {cfg : WireCfg ℚ} {losses delays : List ℚ}
variable {s : KS} {a : A} {q : QEntry ℚ} {rest : List (QEntry ℚ)}

/-- `Wire.run` after `store.get()`, with the two forms of the loss test merged -/
theorem wireServe_eq (t0 : ℚ) (nl nd : Nat) (id : Int) :
    wireServe cfg losses delays t0 nl nd id =
      loadTime (cPkt id) fun ct =>
      if isLost cfg (draw losses nl) then wireLost (Num.pymax t0 ct) id (nlNext cfg nl) nd
      else if Num.pymax t0 ct - ct < draw delays nd then
        .call (.timeout (draw delays nd - (Num.pymax t0 ct - ct)) .none) fun rp => match rp with
          | .ev t => .yield t (.wTx id (Num.pymax t0 ct + (draw delays nd - (Num.pymax t0 ct - ct))) (nlNext cfg nl) (nd + 1))
          | rp => bad rp
      else wireOut (Num.pymax t0 ct) id (nlNext cfg nl) (nd + 1) := by
  unfold wireServe isLost Wire.lostNow nlNext
  cases h : Wire.lossOn cfg with
  | none =>
    simp only [Bool.false_eq_true, if_false]
    rfl
  | some r =>
    simp only [decide_eq_true_eq]
    rfl

attribute [wirek] wireServe_eq

/-- the wire's `Initialize` event: `Wire.run` starts, finds the store empty and blocks in `store.get()` -/
theorem kstep_wireInit (fuel : Nat) (hk : KInv s a) (hwire : a.wire = .init q) (hit : a.items = [])
    (hp : popMin s.agenda = some (q, rest)) (hrest : rest.Perm (a.src.entries ++ a.pend.toList)) :
    ∃ s', step (body cfg losses delays) (fuel + 1) s = .ok s' ∧
      KInv s' { a with wire := .W s.events.size q.time 0 0 } ∧
      s'.now = q.time ∧ outsOf s'.trace = outsOf s.trace ∧ leftsOf s'.trace = leftsOf s.trace := by
  have hpk := hk.wire
  rw [hwire] at hpk
  obtain ⟨hqe, ⟨hkind, hcbs, hout⟩, hproc⟩ := hpk
  have hcbs0 := hcbs
  have hgs : 1 < s.events.size := KState.lt_of_cbs hcbs
  have hres := hk.res
  have hrsz := hk.rsz
  have hwf := openEvent_wf s q rest hk.wf hp
  have hc0 := hk.c0; have hct := hk.ct
  rw [step_eq _ _ _ _ _ _ hp (hqe ▸ hcbs)]
  simp only [List.foldl, runCb]
  rw [resume_eq _ _ _ _ _ _ (show (openEvent s q rest).proc? 0 = _ from hproc)]
  simp only [KState.ev, KState.res] at hkind hcbs hout hres
  rw [hwire, hit] at hres
  wsimp [hqe, hgs, hkind, hcbs, hout, hres, hrsz, Nat.ne_of_lt hgs, WPhase.getQ]
  have hfr : ∀ x < s.events.size, (∀ c, (s.ev x).cbs = some c → c ∉ [[Cb.resume 0]]) → x ≠ 1 := by
    intro x _ hc; rintro rfl; exact hc _ hcbs0 (by simp)
  refine ⟨⟨?_, ?_, ?_, ?_, ?_, ?_, ?_, ?_, ?_⟩, ?_, ?_⟩
  · exact wf_same hwf.1 rfl rfl rfl
  · exact hrest
  · wsimp [hrsz]
  · wsimp [hrsz, hit, WPhase.getQ]
  · refine ⟨?_, ?_⟩
    · wsimp [EvIs]
    · wsimp
  · refine SrcEv.frame hk.src (evFrame_of [[.resume 0]] ?_) (by decide) (by decide) (by wsimp)
    frame_ev hfr
  · refine pend_frame hk.pend (evFrame_of [[.resume 0]] ?_) (by decide)
    frame_ev hfr
  · wsimp [hc0]
  · intro k hk'
    wsimp [hct k hk']
  · simp [outsOf_push]
  · simp [leftsOf_push]

/-- the `StoreGet` event of the wire: the packet is lost (dropped at once); the store is empty, the server blocks in `get` -/
theorem kstep_serveLostIdle (fuel : Nat) {g : EvId} {id : Int} {t0 : ℚ} {nl nd : Nat} (hk : KInv s a) (hwire : a.wire = .H g id q t0 nl nd) (hid : id.toNat < a.cts.length) (hnow : max t0 (a.ctOf id) = q.time) (hl : isLost cfg (draw losses nl) = true) (hit : a.items = [])
    (hp : popMin s.agenda = some (q, rest)) (hrest : rest.Perm (a.src.entries ++ a.pend.toList)) :
    ∃ s', step (body cfg losses delays) (fuel + 1) s = .ok s' ∧
      KInv s' { a with wire := .W s.events.size (q.time) (nlNext cfg nl) nd } ∧
      s'.now = q.time ∧ outsOf s'.trace = outsOf s.trace ∧ leftsOf s'.trace = leftsOf s.trace ++ [id] := by
  have hpk := hk.wire
  rw [hwire] at hpk
  obtain ⟨hqe, ⟨hkind, hcbs, hout⟩, hproc⟩ := hpk
  have hcbs0 := hcbs
  have hgs : g < s.events.size := KState.lt_of_cbs hcbs
  have hres := hk.res
  have hrsz := hk.rsz
  have hwf := openEvent_wf s q rest hk.wf hp
  have hc0 := hk.c0; have hct := hk.ct
  have hcell : lookup s.shared (10 + id.toNat) = TimeCell.enc (a.ctOf id) := hct _ hid
  rw [step_eq _ _ _ _ _ _ hp (hqe ▸ hcbs)]
  simp only [List.foldl, runCb]
  rw [triggerPut_none _ (by show (s.res 0).putQ = []; rw [hres]; rfl)]
  rw [resume_eq _ _ _ _ _ _ (show (openEvent s q rest).proc? 0 = _ from hproc)]
  simp only [KState.ev, KState.res] at hkind hcbs hout hres
  rw [hwire, hit] at hres
  wsimp [hqe, hgs, hkind, hcbs, hout, hres, hrsz, Nat.ne_of_lt hgs, WPhase.getQ, hcell, hl, Num.pymax_eq, hnow]
  have hfr : ∀ x < s.events.size, (∀ c, (s.ev x).cbs = some c → c ∉ [[Cb.trigPut 0, Cb.resume 0]]) → x ≠ g := by
    intro x _ hc; rintro rfl; exact hc _ hcbs0 (by simp)
  refine ⟨⟨?_, ?_, ?_, ?_, ?_, ?_, ?_, ?_, ?_⟩, ?_, ?_⟩
  · exact wf_same hwf.1 rfl rfl rfl
  · exact hrest
  · wsimp [hrsz]
  · wsimp [hrsz, hit, WPhase.getQ]
  · refine ⟨?_, ?_⟩
    · wsimp [EvIs]
    · wsimp
  · refine SrcEv.frame hk.src (evFrame_of [[.trigPut 0, .resume 0]] ?_) (by decide) (by decide) (by wsimp)
    frame_ev hfr
  · refine pend_frame hk.pend (evFrame_of [[.trigPut 0, .resume 0]] ?_) (by decide)
    frame_ev hfr
  · wsimp [hc0]
  · intro k hk'
    wsimp [hct k hk']
  · simp [outsOf_push]
  · simp [leftsOf_push]

/-- the `StoreGet` event of the wire: the packet is lost (dropped at once) and the next packet is taken from the store -/
theorem kstep_serveLostNext (fuel : Nat) {g : EvId} {id : Int} {t0 : ℚ} {nl nd : Nat} {i : Int} {is : List Int} (hk : KInv s a) (hwire : a.wire = .H g id q t0 nl nd) (hid : id.toNat < a.cts.length) (hnow : max t0 (a.ctOf id) = q.time) (hl : isLost cfg (draw losses nl) = true) (hit : a.items = i :: is)
    (hp : popMin s.agenda = some (q, rest)) (hrest : rest.Perm (a.src.entries ++ a.pend.toList)) :
    ∃ s', step (body cfg losses delays) (fuel + 1) s = .ok s' ∧
      KInv s' { a with wire := .H s.events.size i ⟨q.time, NORMAL, s.eid, s.events.size⟩ (q.time) (nlNext cfg nl) nd, items := is } ∧
      s'.now = q.time ∧ outsOf s'.trace = outsOf s.trace ∧ leftsOf s'.trace = leftsOf s.trace ++ [id] := by
  have hpk := hk.wire
  rw [hwire] at hpk
  obtain ⟨hqe, ⟨hkind, hcbs, hout⟩, hproc⟩ := hpk
  have hcbs0 := hcbs
  have hgs : g < s.events.size := KState.lt_of_cbs hcbs
  have hres := hk.res
  have hrsz := hk.rsz
  have hwf := openEvent_wf s q rest hk.wf hp
  have hc0 := hk.c0; have hct := hk.ct
  have hcell : lookup s.shared (10 + id.toNat) = TimeCell.enc (a.ctOf id) := hct _ hid
  rw [step_eq _ _ _ _ _ _ hp (hqe ▸ hcbs)]
  simp only [List.foldl, runCb]
  rw [triggerPut_none _ (by show (s.res 0).putQ = []; rw [hres]; rfl)]
  rw [resume_eq _ _ _ _ _ _ (show (openEvent s q rest).proc? 0 = _ from hproc)]
  simp only [KState.ev, KState.res] at hkind hcbs hout hres
  rw [hwire, hit] at hres
  wsimp [hqe, hgs, hkind, hcbs, hout, hres, hrsz, Nat.ne_of_lt hgs, WPhase.getQ, hcell, hl, Num.pymax_eq, hnow]
  have hfr : ∀ x < s.events.size, (∀ c, (s.ev x).cbs = some c → c ∉ [[Cb.trigPut 0, Cb.resume 0]]) → x ≠ g := by
    intro x _ hc; rintro rfl; exact hc _ hcbs0 (by simp)
  refine ⟨⟨?_, ?_, ?_, ?_, ?_, ?_, ?_, ?_, ?_⟩, ?_, ?_⟩
  · exact wf_push1 hwf.1 _ rfl rfl rfl rfl (le_refl _)
  · exact List.Perm.cons _ hrest
  · wsimp [hrsz]
  · wsimp [hrsz, hit, WPhase.getQ]
  · refine ⟨rfl, ?_, ?_⟩
    · wsimp [EvIs]
    · wsimp
  · refine SrcEv.frame hk.src (evFrame_of [[.trigPut 0, .resume 0]] ?_) (by decide) (by decide) (by wsimp)
    frame_ev hfr
  · refine pend_frame hk.pend (evFrame_of [[.trigPut 0, .resume 0]] ?_) (by decide)
    frame_ev hfr
  · wsimp [hc0]
  · intro k hk'
    wsimp [hct k hk']
  · simp [outsOf_push]
  · simp [leftsOf_push]

/-- the `StoreGet` event of the wire: the packet is not lost and has not been queued for its whole delay: the server sleeps the rest -/
theorem kstep_serveWait (fuel : Nat) {g : EvId} {id : Int} {t0 : ℚ} {nl nd : Nat} (hk : KInv s a) (hwire : a.wire = .H g id q t0 nl nd) (hid : id.toNat < a.cts.length) (hnow : max t0 (a.ctOf id) = q.time) (hl : isLost cfg (draw losses nl) = false) (hw : q.time - a.ctOf id < draw delays nd)
    (hp : popMin s.agenda = some (q, rest)) (hrest : rest.Perm (a.src.entries ++ a.pend.toList)) :
    ∃ s', step (body cfg losses delays) (fuel + 1) s = .ok s' ∧
      KInv s' { a with wire := .T s.events.size id ⟨q.time + (draw delays nd - (q.time - a.ctOf id)), NORMAL, s.eid, s.events.size⟩ (nlNext cfg nl) (nd + 1) } ∧
      s'.now = q.time ∧ outsOf s'.trace = outsOf s.trace ∧ leftsOf s'.trace = leftsOf s.trace := by
  have hpk := hk.wire
  rw [hwire] at hpk
  obtain ⟨hqe, ⟨hkind, hcbs, hout⟩, hproc⟩ := hpk
  have hcbs0 := hcbs
  have hgs : g < s.events.size := KState.lt_of_cbs hcbs
  have hres := hk.res
  have hrsz := hk.rsz
  have hwf := openEvent_wf s q rest hk.wf hp
  have hc0 := hk.c0; have hct := hk.ct
  have hcell : lookup s.shared (10 + id.toNat) = TimeCell.enc (a.ctOf id) := hct _ hid
  have hd : 0 ≤ draw delays nd - (q.time - a.ctOf id) := by linarith
  rw [step_eq _ _ _ _ _ _ hp (hqe ▸ hcbs)]
  simp only [List.foldl, runCb]
  rw [triggerPut_none _ (by show (s.res 0).putQ = []; rw [hres]; rfl)]
  rw [resume_eq _ _ _ _ _ _ (show (openEvent s q rest).proc? 0 = _ from hproc)]
  simp only [KState.ev, KState.res] at hkind hcbs hout hres
  rw [hwire] at hres
  wsimp [hqe, hgs, hkind, hcbs, hout, hres, hrsz, Nat.ne_of_lt hgs, WPhase.getQ, hcell, hl, Num.pymax_eq, hnow, hw, hd]
  have hfr : ∀ x < s.events.size, (∀ c, (s.ev x).cbs = some c → c ∉ [[Cb.trigPut 0, Cb.resume 0]]) → x ≠ g := by
    intro x _ hc; rintro rfl; exact hc _ hcbs0 (by simp)
  refine ⟨⟨?_, ?_, ?_, ?_, ?_, ?_, ?_, ?_, ?_⟩, ?_, ?_⟩
  · exact wf_push1 hwf.1 _ rfl rfl rfl rfl (by show q.time ≤ q.time + _; linarith)
  · exact List.Perm.cons _ hrest
  · wsimp [hrsz]
  · exact hres
  · refine ⟨rfl, ?_, ?_⟩
    · wsimp [EvIs]
    · wsimp
  · refine SrcEv.frame hk.src (evFrame_of [[.trigPut 0, .resume 0]] ?_) (by decide) (by decide) (by wsimp)
    frame_ev hfr
  · refine pend_frame hk.pend (evFrame_of [[.trigPut 0, .resume 0]] ?_) (by decide)
    frame_ev hfr
  · wsimp [hc0]
  · intro k hk'
    wsimp [hct k hk']
  · simp [outsOf_push]
  · simp [leftsOf_push]

/-- the `StoreGet` event of the wire: the packet is not lost and has been queued for at least its delay: it is forwarded at once; the store is empty -/
theorem kstep_serveOutIdle (fuel : Nat) {g : EvId} {id : Int} {t0 : ℚ} {nl nd : Nat} (hk : KInv s a) (hwire : a.wire = .H g id q t0 nl nd) (hid : id.toNat < a.cts.length) (hnow : max t0 (a.ctOf id) = q.time) (hl : isLost cfg (draw losses nl) = false) (hw : ¬ q.time - a.ctOf id < draw delays nd) (hit : a.items = [])
    (hp : popMin s.agenda = some (q, rest)) (hrest : rest.Perm (a.src.entries ++ a.pend.toList)) :
    ∃ s', step (body cfg losses delays) (fuel + 1) s = .ok s' ∧
      KInv s' { a with wire := .W s.events.size (q.time) (nlNext cfg nl) (nd + 1) } ∧
      s'.now = q.time ∧ outsOf s'.trace = outsOf s.trace ++ [(id, q.time)] ∧ leftsOf s'.trace = leftsOf s.trace ++ [id] := by
  have hpk := hk.wire
  rw [hwire] at hpk
  obtain ⟨hqe, ⟨hkind, hcbs, hout⟩, hproc⟩ := hpk
  have hcbs0 := hcbs
  have hgs : g < s.events.size := KState.lt_of_cbs hcbs
  have hres := hk.res
  have hrsz := hk.rsz
  have hwf := openEvent_wf s q rest hk.wf hp
  have hc0 := hk.c0; have hct := hk.ct
  have hcell : lookup s.shared (10 + id.toNat) = TimeCell.enc (a.ctOf id) := hct _ hid
  rw [step_eq _ _ _ _ _ _ hp (hqe ▸ hcbs)]
  simp only [List.foldl, runCb]
  rw [triggerPut_none _ (by show (s.res 0).putQ = []; rw [hres]; rfl)]
  rw [resume_eq _ _ _ _ _ _ (show (openEvent s q rest).proc? 0 = _ from hproc)]
  simp only [KState.ev, KState.res] at hkind hcbs hout hres
  rw [hwire, hit] at hres
  wsimp [hqe, hgs, hkind, hcbs, hout, hres, hrsz, Nat.ne_of_lt hgs, WPhase.getQ, hcell, hl, Num.pymax_eq, hnow, hw]
  have hfr : ∀ x < s.events.size, (∀ c, (s.ev x).cbs = some c → c ∉ [[Cb.trigPut 0, Cb.resume 0]]) → x ≠ g := by
    intro x _ hc; rintro rfl; exact hc _ hcbs0 (by simp)
  refine ⟨⟨?_, ?_, ?_, ?_, ?_, ?_, ?_, ?_, ?_⟩, ?_, ?_⟩
  · exact wf_same hwf.1 rfl rfl rfl
  · exact hrest
  · wsimp [hrsz]
  · wsimp [hrsz, hit, WPhase.getQ]
  · refine ⟨?_, ?_⟩
    · wsimp [EvIs]
    · wsimp
  · refine SrcEv.frame hk.src (evFrame_of [[.trigPut 0, .resume 0]] ?_) (by decide) (by decide) (by wsimp)
    frame_ev hfr
  · refine pend_frame hk.pend (evFrame_of [[.trigPut 0, .resume 0]] ?_) (by decide)
    frame_ev hfr
  · wsimp [hc0]
  · intro k hk'
    wsimp [hct k hk']
  · simp [outsOf_push]
  · simp [leftsOf_push]

/-- the `StoreGet` event of the wire: the packet is forwarded at once and the next packet is taken from the store -/
theorem kstep_serveOutNext (fuel : Nat) {g : EvId} {id : Int} {t0 : ℚ} {nl nd : Nat} {i : Int} {is : List Int} (hk : KInv s a) (hwire : a.wire = .H g id q t0 nl nd) (hid : id.toNat < a.cts.length) (hnow : max t0 (a.ctOf id) = q.time) (hl : isLost cfg (draw losses nl) = false) (hw : ¬ q.time - a.ctOf id < draw delays nd) (hit : a.items = i :: is)
    (hp : popMin s.agenda = some (q, rest)) (hrest : rest.Perm (a.src.entries ++ a.pend.toList)) :
    ∃ s', step (body cfg losses delays) (fuel + 1) s = .ok s' ∧
      KInv s' { a with wire := .H s.events.size i ⟨q.time, NORMAL, s.eid, s.events.size⟩ (q.time) (nlNext cfg nl) (nd + 1), items := is } ∧
      s'.now = q.time ∧ outsOf s'.trace = outsOf s.trace ++ [(id, q.time)] ∧ leftsOf s'.trace = leftsOf s.trace ++ [id] := by
  have hpk := hk.wire
  rw [hwire] at hpk
  obtain ⟨hqe, ⟨hkind, hcbs, hout⟩, hproc⟩ := hpk
  have hcbs0 := hcbs
  have hgs : g < s.events.size := KState.lt_of_cbs hcbs
  have hres := hk.res
  have hrsz := hk.rsz
  have hwf := openEvent_wf s q rest hk.wf hp
  have hc0 := hk.c0; have hct := hk.ct
  have hcell : lookup s.shared (10 + id.toNat) = TimeCell.enc (a.ctOf id) := hct _ hid
  rw [step_eq _ _ _ _ _ _ hp (hqe ▸ hcbs)]
  simp only [List.foldl, runCb]
  rw [triggerPut_none _ (by show (s.res 0).putQ = []; rw [hres]; rfl)]
  rw [resume_eq _ _ _ _ _ _ (show (openEvent s q rest).proc? 0 = _ from hproc)]
  simp only [KState.ev, KState.res] at hkind hcbs hout hres
  rw [hwire, hit] at hres
  wsimp [hqe, hgs, hkind, hcbs, hout, hres, hrsz, Nat.ne_of_lt hgs, WPhase.getQ, hcell, hl, Num.pymax_eq, hnow, hw]
  have hfr : ∀ x < s.events.size, (∀ c, (s.ev x).cbs = some c → c ∉ [[Cb.trigPut 0, Cb.resume 0]]) → x ≠ g := by
    intro x _ hc; rintro rfl; exact hc _ hcbs0 (by simp)
  refine ⟨⟨?_, ?_, ?_, ?_, ?_, ?_, ?_, ?_, ?_⟩, ?_, ?_⟩
  · exact wf_push1 hwf.1 _ rfl rfl rfl rfl (le_refl _)
  · exact List.Perm.cons _ hrest
  · wsimp [hrsz]
  · wsimp [hrsz, hit, WPhase.getQ]
  · refine ⟨rfl, ?_, ?_⟩
    · wsimp [EvIs]
    · wsimp
  · refine SrcEv.frame hk.src (evFrame_of [[.trigPut 0, .resume 0]] ?_) (by decide) (by decide) (by wsimp)
    frame_ev hfr
  · refine pend_frame hk.pend (evFrame_of [[.trigPut 0, .resume 0]] ?_) (by decide)
    frame_ev hfr
  · wsimp [hc0]
  · intro k hk'
    wsimp [hct k hk']
  · simp [outsOf_push]
  · simp [leftsOf_push]

/-- the wire's timeout fires and the store is empty: `out.put(packet)`, then the server blocks in `get` -/
theorem kstep_fireIdle (fuel : Nat) {t : EvId} {id : Int} {nl nd : Nat} (hk : KInv s a) (hwire : a.wire = .T t id q nl nd) (hit : a.items = [])
    (hp : popMin s.agenda = some (q, rest)) (hrest : rest.Perm (a.src.entries ++ a.pend.toList)) :
    ∃ s', step (body cfg losses delays) (fuel + 1) s = .ok s' ∧
      KInv s' { a with wire := .W s.events.size q.time nl nd } ∧
      s'.now = q.time ∧ outsOf s'.trace = outsOf s.trace ++ [(id, q.time)] ∧ leftsOf s'.trace = leftsOf s.trace ++ [id] := by
  have hpk := hk.wire
  rw [hwire] at hpk
  obtain ⟨hqe, ⟨hkind, hcbs, hout⟩, hproc⟩ := hpk
  have hcbs0 := hcbs
  have hgs : t < s.events.size := KState.lt_of_cbs hcbs
  have hres := hk.res
  have hrsz := hk.rsz
  have hwf := openEvent_wf s q rest hk.wf hp
  have hc0 := hk.c0; have hct := hk.ct
  rw [step_eq _ _ _ _ _ _ hp (hqe ▸ hcbs)]
  simp only [List.foldl, runCb]
  rw [resume_eq _ _ _ _ _ _ (show (openEvent s q rest).proc? 0 = _ from hproc)]
  simp only [KState.ev, KState.res] at hkind hcbs hout hres
  rw [hwire, hit] at hres
  wsimp [hqe, hgs, hkind, hcbs, hout, hres, hrsz, Nat.ne_of_lt hgs, WPhase.getQ]
  have hfr : ∀ x < s.events.size, (∀ c, (s.ev x).cbs = some c → c ∉ [[Cb.resume 0]]) → x ≠ t := by
    intro x _ hc; rintro rfl; exact hc _ hcbs0 (by simp)
  refine ⟨⟨?_, ?_, ?_, ?_, ?_, ?_, ?_, ?_, ?_⟩, ?_, ?_⟩
  · exact wf_same hwf.1 rfl rfl rfl
  · exact hrest
  · wsimp [hrsz]
  · wsimp [hrsz, hit, WPhase.getQ]
  · refine ⟨?_, ?_⟩
    · wsimp [EvIs]
    · wsimp
  · refine SrcEv.frame hk.src (evFrame_of [[.resume 0]] ?_) (by decide) (by decide) (by wsimp)
    frame_ev hfr
  · refine pend_frame hk.pend (evFrame_of [[.resume 0]] ?_) (by decide)
    frame_ev hfr
  · wsimp [hc0]
  · intro k hk'
    wsimp [hct k hk']
  · simp [outsOf_push]
  · simp [leftsOf_push]

/-- the wire's timeout fires and a packet waits: `out.put(packet)`, then `store.get()` is served at once -/
theorem kstep_fireNext (fuel : Nat) {t : EvId} {id : Int} {nl nd : Nat} {i : Int} {is : List Int} (hk : KInv s a) (hwire : a.wire = .T t id q nl nd) (hit : a.items = i :: is)
    (hp : popMin s.agenda = some (q, rest)) (hrest : rest.Perm (a.src.entries ++ a.pend.toList)) :
    ∃ s', step (body cfg losses delays) (fuel + 1) s = .ok s' ∧
      KInv s' { a with wire := .H s.events.size i ⟨q.time, NORMAL, s.eid, s.events.size⟩ q.time nl nd, items := is } ∧
      s'.now = q.time ∧ outsOf s'.trace = outsOf s.trace ++ [(id, q.time)] ∧ leftsOf s'.trace = leftsOf s.trace ++ [id] := by
  have hpk := hk.wire
  rw [hwire] at hpk
  obtain ⟨hqe, ⟨hkind, hcbs, hout⟩, hproc⟩ := hpk
  have hcbs0 := hcbs
  have hgs : t < s.events.size := KState.lt_of_cbs hcbs
  have hres := hk.res
  have hrsz := hk.rsz
  have hwf := openEvent_wf s q rest hk.wf hp
  have hc0 := hk.c0; have hct := hk.ct
  rw [step_eq _ _ _ _ _ _ hp (hqe ▸ hcbs)]
  simp only [List.foldl, runCb]
  rw [resume_eq _ _ _ _ _ _ (show (openEvent s q rest).proc? 0 = _ from hproc)]
  simp only [KState.ev, KState.res] at hkind hcbs hout hres
  rw [hwire, hit] at hres
  wsimp [hqe, hgs, hkind, hcbs, hout, hres, hrsz, Nat.ne_of_lt hgs, WPhase.getQ]
  have hfr : ∀ x < s.events.size, (∀ c, (s.ev x).cbs = some c → c ∉ [[Cb.resume 0]]) → x ≠ t := by
    intro x _ hc; rintro rfl; exact hc _ hcbs0 (by simp)
  refine ⟨⟨?_, ?_, ?_, ?_, ?_, ?_, ?_, ?_, ?_⟩, ?_, ?_⟩
  · exact wf_push1 hwf.1 _ rfl rfl rfl rfl (le_refl _)
  · exact List.Perm.cons _ hrest
  · wsimp [hrsz]
  · wsimp [hrsz, hit, WPhase.getQ]
  · refine ⟨rfl, ?_, ?_⟩
    · wsimp [EvIs]
    · wsimp
  · refine SrcEv.frame hk.src (evFrame_of [[.resume 0]] ?_) (by decide) (by decide) (by wsimp)
    frame_ev hfr
  · refine pend_frame hk.pend (evFrame_of [[.resume 0]] ?_) (by decide)
    frame_ev hfr
  · wsimp [hc0]
  · intro k hk'
    wsimp [hct k hk']
  · simp [outsOf_push]
  · simp [leftsOf_push]

end WireK
