import OnlVerif.Lemmas.SndKKeep
/-!
# The TCP sender on the kernel model: kernel steps of the `Timer` processes

Each lemma executes `Environment.step` of the kernel model on a state with configuration `a` whose next agenda entry belongs
to the `Timer` process of a segment (its `Initialize`, its sleep timeout, its process event once it has returned) and shows
that the resulting state has the configuration the lemma names, that the sender LTS accepts the corresponding action
(`fire seq`, or none) and that the invariants are kept.
-/

set_option linter.unusedSimpArgs false

namespace SndK
open SenderOnK TcpSender

/-! ## running action sequences of the LTS -/

theorem runLts_nil (S : Sender ℚ) : runLts S [] = .ok S [] := rfl

theorem runLts_one {S S' : Sender ℚ} {x : Act ℚ} {outs : List (Tx ℚ)} (h : S.step x = .ok S' outs) :
    runLts S [x] = .ok S' outs := by
  simp [runLts, h]

theorem runLts_append {S S1 S2 : Sender ℚ} {l1 l2 : List (Act ℚ)} {o1 o2 : List (Tx ℚ)} (h1 : runLts S l1 = .ok S1 o1)
    (h2 : runLts S1 l2 = .ok S2 o2) : runLts S (l1 ++ l2) = .ok S2 (o1 ++ o2) := by
  induction l1 generalizing S o1 with
  | nil =>
    simp only [runLts] at h1
    cases h1
    simpa using h2
  | cons x xs ih =>
    simp only [List.cons_append, runLts] at h1 ⊢
    cases hx : S.step x with
    | ok S' o =>
      rw [hx] at h1
      simp only at h1 ⊢
      cases hr : runLts S' xs with
      | ok S'' o' =>
        rw [hr] at h1
        simp only at h1
        cases h1
        rw [ih hr]
        simp
      | reject w => rw [hr] at h1; cases h1
      | error e => rw [hr] at h1; cases h1
    | reject w => rw [hx] at h1; cases h1
    | error e => rw [hx] at h1; cases h1

/-- what a step lemma establishes: the kernel step is normal, the new state has a configuration that satisfies the invariants,
and the LTS accepts an action sequence from the LTS state of the old configuration to that of the new one whose transmissions
are the `tx` observations of the step -/
def StepGoal (cfg : Cfg) (fuel : Nat) (s : KS) (S : Sender ℚ) (txs : List (Nat × ℚ)) : Prop :=
  ∃ s' a' acts outs, step (body cfg) (fuel + 1) s = .ok s' ∧ KI none s' a' ∧ AInv cfg a' ∧
    runLts S acts = .ok a'.S outs ∧ a'.txs = txs ++ outs.map txPair ∧ ∀ x ∈ acts, ActOk x

/-- the clock part of a kernel step -/
theorem pop_tick {cfg : Cfg} {s : KS} {a : A} {q : QEntry ℚ} {rest : List (QEntry ℚ)} (hk : KI none s a) (hi : AInv cfg a)
    (hp : popMin s.agenda = some (q, rest)) :
    ∃ acts0, runLts a.S acts0 = .ok (aTick a q.time).S [] ∧ AInv cfg (aTick a q.time) ∧ ∀ x ∈ acts0, ActOk x := by
  have hq : q ∈ s.agenda := (popMin_spec _ _ _ hp).1.symm.subset List.mem_cons_self
  have hle : a.S.now ≤ q.time := by
    have := hk.k.wf.due q hq
    rw [hk.k.now] at this
    exact this
  rcases lt_or_eq_of_le hle with hlt | heq
  · obtain ⟨h1, h2⟩ := tick_ok hi (min_time hp hk.k.ag) hlt
    exact ⟨[.tick q.time], runLts_one h1, h2, fun x hx => by
      simp only [List.mem_singleton] at hx; subst hx; trivial⟩
  · rw [← heq]
    exact ⟨[], rfl, hi, fun x hx => by cases hx⟩

/-- the goal of a step from the goal after the clock has moved -/
theorem StepGoal.of_tick {cfg : Cfg} {fuel : Nat} {s : KS} {a : A} {q : QEntry ℚ} {rest : List (QEntry ℚ)}
    (hk : KI none s a) (hi : AInv cfg a) (hp : popMin s.agenda = some (q, rest))
    (h : AInv cfg (aTick a q.time) → StepGoal cfg fuel s (aTick a q.time).S a.txs) : StepGoal cfg fuel s a.S a.txs := by
  obtain ⟨acts0, h0, hiT, hok0⟩ := pop_tick hk hi hp
  obtain ⟨s', a', acts, outs, g1, g2, g3, g4, g5, g6⟩ := h hiT
  refine ⟨s', a', acts0 ++ acts, outs, g1, g2, g3, by simpa using runLts_append h0 g4, g5, ?_⟩
  intro x hx
  rcases List.mem_append.mp hx with hx | hx
  · exact hok0 x hx
  · exact g6 x hx

/-- a permutation goal from a permutation hypothesis between explicit concatenations, by counting -/
macro "perm_from" h:term : tactic =>
  `(tactic| (classical
             have hperm := $h
             rw [List.perm_iff_count] at hperm ⊢
             intro z
             have hz := hperm z
             simp only [List.count_append, List.count_cons, List.count_nil] at hz ⊢
             omega))

/-- the cells are those of another configuration with the same attributes -/
macro "cells_same" h:term : tactic =>
  `(tactic| exact ⟨($h).next, ($h).buf, ($h).lack, ($h).dup, ($h).rtt, ($h).dev, ($h).rto, ($h).cc, ($h).putAt, ($h).sent,
      ($h).tin, ($h).stopped, ($h).expire, ($h).timeout, ($h).start, ($h).proc⟩)

/-- `TmA` only looks at these components -/
theorem TmA.congr {a a' : A} {seq : Nat} (h : TmA a seq) (h1 : AL.get? seq a'.S.timers = AL.get? seq a.S.timers)
    (h2 : a'.tmc seq = a.tmc seq) (h3 : a'.tph seq = a.tph seq) (h4 : a'.S.now = a.S.now) : TmA a' seq := by
  unfold TmA at h ⊢
  rw [h1, h2, h3, h4]
  exact h

/-- `RunA` only looks at these components -/
theorem RunA.congr {a a' : A} {ph : RPhase} (h : RunA a ph) (h1 : a'.S.now = a.S.now) (h2 : a'.S.proc = a.S.proc)
    (h3 : a'.S.tokens = a.S.tokens) (h4 : a'.pend = a.pend) (h5 : a'.putAt = a.putAt) : RunA a' ph := by
  cases ph <;> simp only [RunA] at h ⊢ <;> (try rw [h1]) <;> (try rw [h2]) <;> (try rw [h3]) <;> (try rw [h4]) <;>
    (try rw [h5]) <;> exact h

theorem ScrA.congr {a a' : A} {ph : SPhase} (h : ScrA a ph) (h1 : a'.S.now = a.S.now) : ScrA a' ph := by
  cases ph <;> simp only [ScrA] at h ⊢ <;> (try rw [h1]) <;> exact h

/-- `resend_packet` changes nothing but the stamp of the segment -/
theorem resend_fields (S : Sender ℚ) (seq : Nat) :
    (S.resend seq).1.kind = S.kind ∧ (S.resend seq).1.cc = S.cc ∧ (S.resend seq).1.est = S.est ∧
    (S.resend seq).1.mss = S.mss ∧ (S.resend seq).1.size = S.size ∧ (S.resend seq).1.next_seq = S.next_seq ∧
    (S.resend seq).1.send_buffer = S.send_buffer ∧ (S.resend seq).1.last_ack = S.last_ack ∧
    (S.resend seq).1.dupack = S.dupack ∧ (S.resend seq).1.timers = S.timers ∧ (S.resend seq).1.tokens = S.tokens ∧
    (S.resend seq).1.proc = S.proc ∧ (S.resend seq).1.now = S.now := by
  unfold Sender.resend
  cases AL.get? seq S.sent <;> exact ⟨rfl, rfl, rfl, rfl, rfl, rfl, rfl, rfl, rfl, rfl, rfl, rfl, rfl⟩

theorem closeEvent_ok {S : KS} {e : EvId} {v : Val} (h : (S.ev e).out = some (.ok v)) :
    closeEvent (σ := St) { s := S } e = .ok S := by
  simp only [closeEvent, h]

/-- the event that is being processed keeps its outcome in the middle of a burst -/
theorem KK.cur_out {act : Option EvId} {s : KS} {κ : Kern} {e : EvId} (h : KK act s κ) (hc : κ.cur = some e) :
    e < s.events.size ∧ (s.ev e).cbs = none ∧ ∃ v, (s.ev e).out = some (.ok v) := by
  obtain ⟨c1, v, c2⟩ := h.cur e hc
  exact ⟨KState.lt_of_out (by rw [c2]; simp), c1, v, c2⟩

theorem rb_loadBit {s : KS} {k : Nat} {b : Bool} (h : TimerK.lookup s.shared k = .int (if b then 1 else 0)) (p : EvId)
    (cont : Nat → B ℚ) : runBurst p (loadNat k cont) s = runBurst p (cont (if b then 1 else 0)) s := by
  cases b with
  | true => exact rb_loadNat (n := 1) (by simpa using h) p cont
  | false => exact rb_loadNat (n := 0) (by simpa using h) p cont

/-- the configuration in which the burst of the `Timer` process of `seq` starts -/
def aTmRun (a : A) (seq : Nat) (q : QEntry ℚ) : A :=
  { aTick a q.time with tph := upd a.tph seq .running, cur := some q.ev }

/-- the popped event resumes the `Timer` process of `seq`: the state and configuration at the start of its burst -/
theorem tm_start {s : KS} {a : A} {q : QEntry ℚ} {rest : List (QEntry ℚ)} {seq : Nat} {k0 : Kind} (hk : KI none s a)
    (hp : popMin s.agenda = some (q, rest)) (hs : seq ∈ a.tks) (hent : (a.tph seq).entries = [q])
    (hev : EvIs s q.ev k0 [.resume (a.tmp seq)] okNone) (ow : Owned s q.ev (a.tmp seq))
    (hpe : EvIs s (a.tmp seq) .proc [] none) (arg : Resume) :
    KI (some (a.tmp seq)) (startSt s q rest (a.tmp seq) arg) (aTmRun a seq q) := by
  have pt := hk.k.ptm seq hs
  have fr := startSt_frame s q rest (a.tmp seq) arg
  obtain ⟨k1, k2, k3, k4⟩ := hk.k.keepO fr ow pt
  refine ⟨?_, ?_⟩
  · refine hk.k.start hp hev.lt hev.2.2 ?_ rfl rfl rfl rfl rfl rfl rfl rfl (k1 (by omega) (by simp)) (k2 (by omega) (by simp))
      (fun u hu => (hk.k.pend u hu).avoidO ow) ?_
    · have := tmEntries_upd_perm (keys := a.tks) hs hk.k.knd a.tph .running
      rw [hent] at this
      simp only [TPh.entries, List.append_nil] at this
      simp only [Kern.entries, kernOf, aTmRun, aTick]
      perm_from this
    · intro seq' hs'
      show TmEv _ seq' (a.tmp seq') (upd a.tph seq .running seq')
      by_cases he : seq' = seq
      · subst he
        rw [upd_same]
        exact hpe.keep fr (by simpa using ne_of_cbs hpe.2.1 hev.2.1 (by simp))
      · rw [upd_ne _ _ _ _ he]
        exact k4 seq' hs' (by omega) (by simp)
  · cells_same hk.c

/-- the burst of the `Timer` process of `seq` ends with `yield self.env.timeout(d)` -/
theorem tm_sleep_end {s : KS} {a : A} {seq : Nat} {e : EvId} {d w : ℚ} (h : KI (some (a.tmp seq)) s a) (hs : seq ∈ a.tks)
    (hph : a.tph seq = .running) (hcur : a.cur = some e) (hd : 0 ≤ d) (hw : w = s.now + d) :
    KI none (sleepSt s (a.tmp seq) d (.tmSleep seq w))
      { a with tph := upd a.tph seq (.sleep s.events.size ⟨s.now + d, NORMAL, s.eid, s.events.size⟩), cur := none } ∧
    ∃ v, ((sleepSt s (a.tmp seq) d (.tmSleep seq w)).ev e).out = some (.ok v) := by
  subst hw
  have pt : ProcTag s (a.tmp seq) (2 + seq) := h.k.ptm seq hs
  have fr := sleepSt_frame s (a.tmp seq) d (.tmSleep seq (s.now + d))
  obtain ⟨k1, k2, _, k4⟩ := h.k.keepN fr pt
  have hpe : EvIs s (a.tmp seq) .proc [] none := by
    have := h.k.tm seq hs
    simp only [kernOf, hph, TmEv] at this
    exact this
  obtain ⟨c1, _, v, c3⟩ := h.k.cur_out (κ := kernOf a) hcur
  refine ⟨⟨?_, ?_⟩, v, ?_⟩
  · refine h.k.sleep hd pt rfl ?_ rfl rfl rfl rfl rfl rfl rfl rfl (k1 (by omega)) (k2 (by omega)) ?_
    · have := tmEntries_upd_perm (keys := a.tks) hs h.k.knd a.tph
        (.sleep s.events.size ⟨s.now + d, NORMAL, s.eid, s.events.size⟩)
      rw [hph] at this
      simp only [TPh.entries, List.append_nil] at this
      simp only [Kern.entries, kernOf]
      perm_from this
    · intro seq' hs'
      show TmEv _ seq' (a.tmp seq') (upd a.tph seq _ seq')
      by_cases he : seq' = seq
      · subst he
        rw [upd_same]
        have hn := sleepSt_new s (a.tmp seq') d (.tmSleep seq' (s.now + d))
        exact ⟨rfl, hn.1, hn.2, hpe.keep fr (by simp)⟩
      · rw [upd_ne _ _ _ _ he]
        exact k4 seq' hs' (by omega)
  · cells_same h.c
  · rw [fr.ev e c1 (by simp)]; exact c3

/-- the burst of the `Timer` process of `seq` ends with `return` -/
theorem tm_ret_end {s : KS} {a : A} {seq : Nat} {e : EvId} {pr : ProcRec St} (h : KI (some (a.tmp seq)) s a) (hs : seq ∈ a.tks)
    (hph : a.tph seq = .running) (hcur : a.cur = some e) (htag : tagOf pr.st = 2 + seq) :
    KI none (finishSt s (a.tmp seq) pr .none)
      { a with tph := upd a.tph seq (.ending ⟨s.now + Num.zero, NORMAL, s.eid, a.tmp seq⟩), cur := none } ∧
    ∃ v, ((finishSt s (a.tmp seq) pr .none).ev e).out = some (.ok v) := by
  have pt : ProcTag s (a.tmp seq) (2 + seq) := h.k.ptm seq hs
  have pt0 : ProcTag s 0 1 := h.k.pt0
  have pt2 : ProcTag s 2 0 := h.k.pt2
  have fr := finishSt_frame s (a.tmp seq) pr .none
  obtain ⟨k1, k2, _, k4⟩ := h.k.keepP fr pt
  have hpe : EvIs s (a.tmp seq) .proc [] none := by
    have := h.k.tm seq hs
    simp only [kernOf, hph, TmEv] at this
    exact this
  obtain ⟨c1, c2, v, c3⟩ := h.k.cur_out (κ := kernOf a) hcur
  have hne : e ≠ a.tmp seq := ne_of_cbs c2 hpe.2.1 (by simp)
  have hP : ∀ seq' ∈ a.tks, seq' ≠ seq → a.tmp seq' ∉ [a.tmp seq] := fun seq' hs' he => by
    simpa using ProcTag.ne (show ProcTag s (a.tmp seq') (2 + seq') from h.k.ptm seq' hs') pt (by omega)
  refine ⟨⟨?_, ?_⟩, v, ?_⟩
  · refine h.k.finish pt htag ?_ rfl rfl rfl rfl rfl rfl rfl rfl
      (k1 (by omega) (by simpa using ProcTag.ne pt0 pt (by omega)))
      (k2 (by omega) (by simpa using ProcTag.ne pt2 pt (by omega))) ?_
    · have := tmEntries_upd_perm (keys := a.tks) hs h.k.knd a.tph (.ending ⟨s.now + Num.zero, NORMAL, s.eid, a.tmp seq⟩)
      rw [hph] at this
      simp only [TPh.entries, List.append_nil] at this
      simp only [Kern.entries, kernOf]
      perm_from this
    · intro seq' hs'
      show TmEv _ seq' (a.tmp seq') (upd a.tph seq _ seq')
      by_cases he : seq' = seq
      · subst he
        rw [upd_same]
        exact ⟨rfl, (finishSt_new s (a.tmp seq') pr .none hpe).1⟩
      · rw [upd_ne _ _ _ _ he]
        exact k4 seq' hs' (by omega) (hP seq' hs' he)
  · cells_same h.c
  · rw [fr.ev e c1 (by simpa using hne)]; exact c3

/-- `while env.now < self.expire_time: yield self.env.timeout(self.expire_time - env.now)` at the end of a burst of the
`Timer` process of `seq`: it sleeps until `expire_time`, or returns -/
theorem tm_loop_end (body : St → Resume → Burst ℚ St) (fuel : Nat) {pr : ProcRec St} {s : KS} {a : A} {seq : Nat} {e : EvId}
    (h : KI (some (a.tmp seq)) s a) (hs : seq ∈ a.tks) (hph : a.tph seq = .running) (hcur : a.cur = some e)
    (htag : tagOf pr.st = 2 + seq) :
    ∃ S ph', TimerK.afterBurst body (a.tmp seq) fuel pr (runBurst (a.tmp seq) (tmLoop seq s.now) s) = S ∧
      KI none S { a with tph := upd a.tph seq ph', cur := none } ∧ (∃ v, (S.ev e).out = some (.ok v)) ∧
      ((s.now < (a.tmc seq).expire ∧
          ph' = .sleep s.events.size ⟨s.now + ((a.tmc seq).expire - s.now), NORMAL, s.eid, s.events.size⟩) ∨
       (¬ s.now < (a.tmc seq).expire ∧ ph' = .ending ⟨s.now + Num.zero, NORMAL, s.eid, a.tmp seq⟩)) := by
  unfold tmLoop
  rw [rb_loadTime (h.c.expire seq hs)]
  by_cases hlt : s.now < (a.tmc seq).expire
  · rw [if_pos hlt]
    have hd : 0 ≤ (a.tmc seq).expire - s.now := by linarith
    obtain ⟨g1, g2⟩ := tm_sleep_end (w := s.now + ((a.tmc seq).expire - s.now)) h hs hph hcur hd rfl
    exact ⟨_, _, afterBurst_sleep body _ fuel pr s _ hd _, g1, g2, Or.inl ⟨hlt, rfl⟩⟩
  · rw [if_neg hlt]
    obtain ⟨g1, g2⟩ := tm_ret_end (pr := pr) h hs hph hcur htag
    exact ⟨_, _, afterBurst_ret body _ fuel pr s _, g1, g2, Or.inr ⟨hlt, rfl⟩⟩

/-- the invariants when the phase of one `Timer` process changes -/
theorem AInv.set_tph {cfg : Cfg} {a : A} (hi : AInv cfg a) (seq : Nat) (ph' : TPh)
    (hnew : seq ∈ a.tks → TmA { a with tph := upd a.tph seq ph' } seq) :
    AInv cfg { a with tph := upd a.tph seq ph' } := by
  refine ⟨hi.inv, hi.kind, hi.mss, hi.size, hi.mpos, hi.spos, hi.dvd, hi.tks, hi.nmul, hi.bufle, hi.tkeys, hi.cur,
    hi.run, hi.scr, hi.pend, ?_, hi.putAt⟩
  intro seq' hs'
  by_cases he : seq' = seq
  · subst he; exact hnew hs'
  · exact (hi.tm seq' hs').congr rfl rfl (upd_ne _ _ _ _ he) rfl

/-- the `Timer` process of a stopped timer has returned and its process event is processed: nothing is left of it -/
theorem kstep_tmEnding {cfg : Cfg} (fuel : Nat) {s : KS} {a : A} {q : QEntry ℚ} {rest : List (QEntry ℚ)} {seq : Nat}
    (hk : KI none s a) (hiT : AInv cfg (aTick a q.time)) (hp : popMin s.agenda = some (q, rest)) (hs : seq ∈ a.tks)
    (hph : a.tph seq = .ending q) : StepGoal cfg fuel s (aTick a q.time).S a.txs := by
  have htm := hk.k.tm seq hs
  simp only [kernOf, hph, TmEv] at htm
  obtain ⟨hqe, hev⟩ := htm
  have pt := hk.k.ptm seq hs
  have fr : Frame s (openEvent s q rest) [a.tmp seq] [] := hqe ▸ openEvent_frame s q rest
  obtain ⟨k1, k2, k3, k4⟩ := hk.k.keepP fr pt
  refine ⟨openEvent s q rest, { aTick a q.time with tph := upd a.tph seq .gone }, [], [], ?_, ⟨?_, ?_⟩, ?_, rfl, by simp [aTick], fun x hx => by cases hx⟩
  · exact step_noop _ _ hp (hqe ▸ hev.2.1) (hqe ▸ hev.2.2)
  · refine hk.k.opened hp ?_ rfl hiT.cur rfl rfl rfl rfl rfl (k1 (by omega) (by simp)) (k2 (by omega) (by simp)) ?_ hk.k.pnd ?_
    · have := tmEntries_upd_perm (keys := a.tks) hs hk.k.knd a.tph .gone
      simp only [hph, TPh.entries, List.append_nil] at this
      simp only [Kern.entries, kernOf, aTick]
      perm_from this
    · intro u hu
      exact ⟨hk.k.pend u hu, hqe ▸ ne_of_kind (hk.k.pend u hu).1 pt.1 (by simp)⟩
    · intro seq' hs'
      show TmEv _ seq' (a.tmp seq') (upd a.tph seq .gone seq')
      by_cases he : seq' = seq
      · subst he; rw [upd_same]; trivial
      · rw [upd_ne _ _ _ _ he]
        exact k4 seq' hs' (by omega) (by simp)
  · cells_same hk.c
  · have hd : AL.get? seq a.S.timers = none := by
      have := hiT.tm seq hs
      unfold TmA at this
      cases hg : AL.get? seq a.S.timers with
      | none => rfl
      | some r =>
        have hg' : AL.get? seq (aTick a q.time).S.timers = some r := hg
        rw [hg'] at this
        have h3 := this.2.2
        have hph' : (aTick a q.time).tph seq = .ending q := hph
        rw [hph'] at h3
        exact h3.elim
    refine ⟨hiT.inv, hiT.kind, hiT.mss, hiT.size, hiT.mpos, hiT.spos, hiT.dvd, hiT.tks, hiT.nmul, hiT.bufle, hiT.tkeys, hiT.cur,
      hiT.run, hiT.scr, hiT.pend, ?_, hiT.putAt⟩
    intro seq' hs'
    by_cases he : seq' = seq
    · subst he
      have := hiT.tm seq' hs'
      unfold TmA at this ⊢
      have hd' : AL.get? seq' (aTick a q.time).S.timers = none := hd
      show (match AL.get? seq' (aTick a q.time).S.timers with | some r => _ | none => _)
      rw [hd'] at this ⊢
      refine ⟨this.1, this.2.1, ?_⟩
      show (match upd a.tph seq' .gone seq' with | .init q => _ | .sleep _ q => _ | .ending q => _ | .gone => True | .running => False)
      rw [upd_same]; trivial
    · exact (hiT.tm seq' hs').congr rfl rfl (upd_ne _ _ _ _ he) rfl

end SndK
