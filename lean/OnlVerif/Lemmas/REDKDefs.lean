import OnlVerif.Lemmas.KernelStep
import OnlVerif.Lemmas.KAccess
import OnlVerif.Lemmas.Port
import OnlVerif.Net.REDOnK
/-!
# Generator → REDPort → sink on the kernel model: canonical configurations (definitions)

`A` is an abstract description of a kernel state of the program `REDOnK.body`: where the two processes are suspended,
which agenda entries exist, what the store holds, the attribute cells.  `KInv s a` says that the kernel state `s` *is* the
configuration `a`: it pins down every part of `s` that `Environment.step` and the two generators can read.  `toF a` is the
LTS state (`Net/Fifo.lean`, `Net/Port.lean` with RED) the configuration stands for.
-/

namespace REDK
open REDOnK

abbrev St := RSt ℚ
abbrev KS := KState ℚ St

/-- where `Port.run` is -/
inductive PPhase where
  /-- not started: its `Initialize` entry `q` is in the agenda -/
  | init (q : QEntry ℚ)
  /-- blocked in `store.get()`: the `StoreGet` event `g` waits in the get queue -/
  | W (g : EvId)
  /-- `store.get()` has been served with packet `id`: the `StoreGet` event `g` is triggered, entry `q` -/
  | H (g : EvId) (id : Int) (q : QEntry ℚ)
  /-- transmitting packet `id`: sleeping on timeout `t`, entry `q` -/
  | T (t : EvId) (id : Int) (q : QEntry ℚ)

/-- where `DistPacketGenerator.run` is -/
inductive SPhase where
  /-- not started: its `Initialize` entry `q`; the three scripts -/
  | init (q : QEntry ℚ) (gaps : List ℚ) (sizes : List Nat) (us : List ℚ)
  /-- sleeping on the initial delay (entry `q`) -/
  | delay (q : QEntry ℚ) (gaps : List ℚ) (sizes : List Nat) (us : List ℚ)
  /-- sleeping on the inter-arrival timeout (entry `q`) after which it creates packet `n + 1` of size `z` -/
  | wait (n : Nat) (z : Nat) (gaps : List ℚ) (sizes : List Nat) (us : List ℚ) (q : QEntry ℚ)
  /-- the generator has returned: the process event (entry `q`) is triggered -/
  | ending (q : QEntry ℚ)
  | done

structure A where
  port : PPhase
  src : SPhase
  /-- the `StorePut` event of the last `store.put`, triggered and not yet processed -/
  pend : Option (QEntry ℚ)
  /-- `store.items` -/
  items : List Int
  bytes : Int
  recv : Nat
  busy : Bool
  bsz : Nat
  /-- `packets_dropped` -/
  dropped : Nat
  /-- `average_queue_size` -/
  avg : ℚ
  /-- the ghost counter: accepted puts − issued gets -/
  len : Int
  /-- the sink's counters -/
  scnt : Nat
  sbytes : Nat
  /-- ids `put` has accepted so far -/
  accIds : List Int

def PPhase.entries : PPhase → List (QEntry ℚ)
  | .init q => [q]
  | .W _ => []
  | .H _ _ q => [q]
  | .T _ _ q => [q]

def SPhase.entries : SPhase → List (QEntry ℚ)
  | .init q _ _ _ => [q]
  | .delay q _ _ _ => [q]
  | .wait _ _ _ _ _ q => [q]
  | .ending q => [q]
  | .done => []

def A.entries (a : A) : List (QEntry ℚ) := a.port.entries ++ (a.src.entries ++ a.pend.toList)

def PPhase.getQ : PPhase → List EvId
  | .W g => [g]
  | _ => []

/-- kind, callbacks and outcome of a live event -/
def EvIs (s : KS) (e : EvId) (k : Kind) (cbs : List Cb) (out : Option Outcome) : Prop :=
  (s.ev e).kind = k ∧ (s.ev e).cbs = some cbs ∧ (s.ev e).out = out

/-- an attribute cell as `Call.load` returns it -/
def lookup (l : List (Nat × Val)) (k : Nat) : Val := ((l.find? (·.1 == k)).map (·.2)).getD .none

/-- the store record of the port -/
def storeRec (getQ : List EvId) (items : List Int) : ResRec :=
  { kind := .store, capacity := none, getQ := getQ, items := items }

/-! ## the kernel side of a configuration: events, process records, store, cells -/

def PortEv (s : KS) : PPhase → Prop
  | .init q => q.ev = 1 ∧ EvIs s 1 (.init 0) [.resume 0] (some (.ok .none)) ∧
      s.proc? 0 = some { st := .portStart, target := some 1 }
  | .W g => EvIs s g (.get 0) [.trigPut 0, .resume 0] none ∧
      s.proc? 0 = some { st := .portGet, target := some g }
  | .H g id q => q.ev = g ∧ EvIs s g (.get 0) [.trigPut 0, .resume 0] (some (.ok (.int id))) ∧
      s.proc? 0 = some { st := .portGet, target := some g }
  | .T t id q => q.ev = t ∧ EvIs s t .timeout [.resume 0] (some (.ok .none)) ∧
      s.proc? 0 = some { st := .portTx id, target := some t }

/-- the generator's local state carries the instant of its agenda entry: that this is `env.now` when it runs is proved -/
def SrcEv (s : KS) : SPhase → Prop
  | .init q gaps sizes us => q.ev = 3 ∧ EvIs s 3 (.init 2) [.resume 2] (some (.ok .none)) ∧
      s.proc? 2 = some { st := .genStart gaps sizes us, target := some 3 } ∧ EvIs s 2 .proc [] none
  | .delay q gaps sizes us => EvIs s q.ev .timeout [.resume 2] (some (.ok .none)) ∧
      s.proc? 2 = some { st := .genDelay q.time gaps sizes us, target := some q.ev } ∧ EvIs s 2 .proc [] none
  | .wait n z gaps sizes us q => EvIs s q.ev .timeout [.resume 2] (some (.ok .none)) ∧
      s.proc? 2 = some { st := .genWait q.time n z gaps sizes us, target := some q.ev } ∧ EvIs s 2 .proc [] none
  | .ending q => q.ev = 2 ∧ EvIs s 2 .proc [] (some (.ok .none))
  | .done => True

/-- the kernel state `s` has the configuration `a` -/
structure KInv (s : KS) (a : A) : Prop where
  wf : AgendaWF s
  ag : s.agenda.Perm a.entries
  rsz : 0 < s.resources.size
  res : s.res 0 = storeRec a.port.getQ a.items
  port : PortEv s a.port
  src : SrcEv s a.src
  pend : ∀ u, a.pend = some u → EvIs s u.ev (.put 0) [.trigGet 0] (some (.ok .none))
  c0 : lookup s.shared 0 = .int a.bytes
  c1 : lookup s.shared 1 = .int a.recv
  c2 : lookup s.shared 2 = .int (if a.busy then 1 else 0)
  c3 : lookup s.shared 3 = .int a.bsz
  c4 : lookup s.shared 4 = .int a.dropped
  c5 : lookup s.shared 5 = TimeCell.enc a.avg
  c6 : lookup s.shared 6 = .int a.len
  c7 : lookup s.shared 7 = .int a.scnt
  c8 : lookup s.shared 8 = .int a.sbytes

/-! ## the abstract side -/

def GapsOK (l : List ℚ) : Prop := ∀ x ∈ l, 0 ≤ x

/-- the server is idle (blocked in `get` or not started) -/
def PPhase.idle : PPhase → Bool
  | .init _ => true
  | .W _ => true
  | _ => false

def PPhase.isW : PPhase → Bool
  | .W _ => true
  | _ => false

/-- the packet the server holds outside the store -/
def PPhase.inHand : PPhase → List Int
  | .H _ id _ => [id]
  | .T _ id _ => [id]
  | _ => []

def PortA (items : List Int) (pend : Option (QEntry ℚ)) (now : ℚ) : PPhase → Prop
  | .init q => q.time = now ∧ q.prio = URGENT ∧ items = [] ∧ pend = none
  | .W _ => True
  | .H _ _ q => q.time = now ∧ q.prio = NORMAL
  | .T _ _ q => q.prio = NORMAL

variable (c : Cfg ℚ) (sizes0 : List Nat)

def SrcA (pend : Option (QEntry ℚ)) (now : ℚ) : SPhase → Prop
  | .init q gaps _ _ => q.time = now ∧ now = 0 ∧ q.prio = URGENT ∧ GapsOK gaps ∧ 0 ≤ c.initialDelay ∧ pend = none
  | .delay q gaps _ _ => q.prio = NORMAL ∧ GapsOK gaps ∧ pend = none
  | .wait _ _ gaps _ _ q => q.prio = NORMAL ∧ GapsOK gaps ∧ ∀ u, pend = some u → u.eid < q.eid
  | .ending q => q.time = now ∧ q.prio = NORMAL
  | .done => True

/-- what the loop head of the generator does at instant `t`: the next gap and size, or stop -/
def genNext (t : ℚ) (gaps : List ℚ) (sizes : List Nat) : Option (ℚ × Nat × List ℚ × List Nat) :=
  if Gen.running c.finish t then
    match gaps with
    | [] => none
    | gap :: gaps' =>
      match sizes with
      | [] => none
      | z :: sizes' => some (gap, z, gaps', sizes')
  else none

/-- `current_queue_size` as the program computes it -/
def curOf (a : A) : Nat := if c.limitBytes then a.bytes.toNat else a.len.toNat

/-- the new average at an arrival -/
def avgNew (a : A) : ℚ := Port.redAvg a.avg (Num.ofNat (curOf c a)) c.w

/-- the draw attached to the arrival: the head of the script if `random.uniform` is called, else `0` -/
def uAtt (avg : ℚ) (us : List ℚ) : ℚ := if needsDraw c avg then us.headD 0 else 0

/-- what is left of the script after the arrival -/
def usAfter (avg : ℚ) (us : List ℚ) : List ℚ := if needsDraw c avg then us.tail else us

/-- RED's decision -/
def dropQ (avg u : ℚ) : Bool := Port.redDrop (Num.ofNat c.qlimit) c.maxTh c.minTh c.maxP avg u

/-- the packets the generator will still emit -/
def SPhase.pred : SPhase → List (GenPkt ℚ)
  | .init _ gaps sizes _ => Gen.emit c.finish (0 + c.initialDelay) 0 (gaps.zip sizes)
  | .delay q gaps sizes _ => Gen.emit c.finish q.time 0 (gaps.zip sizes)
  | .wait n z gaps sizes _ q => { id := n + 1, time := q.time, size := z } :: Gen.emit c.finish q.time (n + 1) (gaps.zip sizes)
  | _ => []

/-- packets sent so far, sizes and draws still in the generator's hands -/
def SPhase.sent : SPhase → Option Nat
  | .init _ _ _ _ => some 0
  | .delay _ _ _ _ => some 0
  | .wait n _ _ _ _ _ => some n
  | _ => none

def SPhase.sizesLeft : SPhase → Option (List Nat)
  | .init _ _ sizes _ => some sizes
  | .delay _ _ sizes _ => some sizes
  | .wait _ z _ sizes _ _ => some (z :: sizes)
  | _ => none

/-- packets still to come at most, and draws left -/
def SPhase.todo : SPhase → Nat × List ℚ
  | .init _ gaps _ us => (gaps.length, us)
  | .delay _ gaps _ us => (gaps.length, us)
  | .wait _ _ gaps _ us _ => (gaps.length + 1, us)
  | _ => (0, [])

/-- a generator packet as a triple -/
def gtrip (p : GenPkt ℚ) : Int × ℚ × Nat := ((p.id : Int), p.time, p.size)

/-- the generator's ghost invariant: emitted so far ++ still to come = the generator law; bookkeeping of the scripts -/
structure GenInv (gaps0 : List ℚ) (src : SPhase) (recv : Nat) (gens : List (Int × ℚ)) : Prop where
  law : gens.map (fun x => (x.1, x.2, szOf sizes0 x.1)) ++ (src.pred c).map gtrip =
    (Gen.run 0 c.initialDelay c.finish (gaps0.zip sizes0)).map gtrip
  sent : ∀ n, src.sent = some n → n = recv
  sizes : ∀ n l, src.sent = some n → src.sizesLeft = some l → sizes0.drop n = l
  draws : src.todo.1 ≤ src.todo.2.length
  ngen : gens.length = recv

/-- the sink's ghost invariant -/
structure SinkInv (scnt sbytes : Nat) (outs sinks : List (Int × ℚ)) : Prop where
  same : sinks = outs
  cnt : scnt = outs.length
  bytes : sbytes = (outs.map (fun x => szOf sizes0 x.1)).sum

def gensV (vs : List (View ℚ)) : List (Int × ℚ) := vs.filterMap View.gen?
def usV (vs : List (View ℚ)) : List ℚ := vs.filterMap View.u?
def outsV (vs : List (View ℚ)) : List (Int × ℚ) := vs.filterMap View.out?
def sinksV (vs : List (View ℚ)) : List (Int × ℚ) := vs.filterMap View.sink?

/-- what holds of a configuration at instant `now` when `vs` are the views of the trace so far -/
structure AInv (gaps0 : List ℚ) (a : A) (now : ℚ) (vs : List (View ℚ)) : Prop where
  port : PortA a.items a.pend now a.port
  src : SrcA c a.pend now a.src
  pend : ∀ u, a.pend = some u → u.time = now ∧ u.prio = NORMAL
  /-- a waiting packet beside an idle server means the `StorePut` event that will hand it over is pending -/
  idle : a.port.idle = true → a.items ≠ [] → a.pend.isSome = true
  due : ∀ x ∈ a.entries, now ≤ x.time
  /-- the ghost counter against the real length of the store -/
  len : a.len = (a.items.length : Int) - (if a.port.isW then 1 else 0)
  /-- every packet the port holds has arrived: its draw is in the log -/
  held : ∀ id ∈ a.port.inHand ++ a.items, 1 ≤ id ∧ id ≤ (a.recv : Int)
  ulen : (usV vs).length = a.recv
  gen : GenInv c sizes0 gaps0 a.src a.recv (gensV vs)
  sink : SinkInv sizes0 a.scnt a.sbytes (outsV vs) (sinksV vs)
  nacc : a.accIds.length + a.dropped = a.recv

/-- number of kernel steps a configuration still needs -/
def PPhase.mu : PPhase → Nat
  | .init _ => 1
  | .W _ => 0
  | .H _ _ _ => 2
  | .T _ _ _ => 1

def SPhase.mu : SPhase → Nat
  | .init _ gaps _ _ => 4 * gaps.length + 3
  | .delay _ gaps _ _ => 4 * gaps.length + 2
  | .wait _ _ gaps _ _ _ => 4 * gaps.length + 5
  | .ending _ => 1
  | .done => 0

def A.mu (a : A) : Nat := a.port.mu + a.src.mu + (if a.pend.isSome then 1 else 0) + 2 * a.items.length

/-- the packet object behind an id for the LTS; `ulog` = the draws attached to the arrivals so far -/
abbrev pk (ulog : List ℚ) (id : Int) : Pkt ℚ := pktOf c sizes0 ulog id

/-- **the LTS state a configuration stands for** -/
def toF (a : A) (now : ℚ) (ulog : List ℚ) : FState ℚ (PortSt ℚ) :=
  { now := now
    dev := { byteSize := a.bytes, received := a.recv, dropped := a.dropped, busy := a.busy, busySize := a.bsz, avg := a.avg }
    items := a.items.map (pk c sizes0 ulog)
    getPending := match a.port with | .W _ => true | _ => false
    handed := match a.port with | .H _ id _ => some (pk c sizes0 ulog id) | _ => none
    tx := match a.port with | .T _ id q => some (pk c sizes0 ulog id, q.time, 0) | _ => none
    started := match a.port with | .init _ => false | _ => true }

/-- the fields an arrival changes, whatever the decision -/
def A.arrive (a : A) (S' : SPhase) : A := { a with src := S', recv := a.recv + 1, avg := avgNew c a }

/-- **one kernel step, seen on configurations**: the agenda entry `q` is processed; `new` are the views appended -/
inductive AStep : A → QEntry ℚ → A → List (View ℚ) → Prop
  /-- `Port.run` starts and blocks in `store.get()` -/
  | portInit (a : A) (q : QEntry ℚ) (g : EvId) (h : a.port = .init q) :
      AStep a q { a with port := .W g, len := a.len - 1 } []
  /-- the generator starts and sleeps for the initial delay -/
  | srcInit (a : A) (q q' : QEntry ℚ) (gaps : List ℚ) (sizes : List Nat) (us : List ℚ)
      (h : a.src = .init q gaps sizes us) (ht : q'.time = q.time + c.initialDelay) (hp : q'.prio = NORMAL) :
      AStep a q { a with src := .delay q' gaps sizes us } []
  /-- the initial delay is over and the loop does not start (`now ≥ finish`, or a script is empty) -/
  | srcDelayEnd (a : A) (q q' : QEntry ℚ) (gaps : List ℚ) (sizes : List Nat) (us : List ℚ)
      (h : a.src = .delay q gaps sizes us) (hn : genNext c q.time gaps sizes = none)
      (ht : q'.time = q.time ∧ q'.prio = NORMAL) :
      AStep a q { a with src := .ending q' } []
  /-- the initial delay is over: the generator sleeps until the first arrival -/
  | srcDelayWait (a : A) (q q' : QEntry ℚ) (gaps : List ℚ) (sizes : List Nat) (us : List ℚ)
      (gap : ℚ) (z : Nat) (gaps' : List ℚ) (sizes' : List Nat)
      (h : a.src = .delay q gaps sizes us) (hn : genNext c q.time gaps sizes = some (gap, z, gaps', sizes'))
      (ht : q'.time = q.time + gap ∧ q'.prio = NORMAL) :
      AStep a q { a with src := .wait 0 z gaps' sizes' us q' } []
  /-- an arrival is accepted, then the generator returns -/
  | srcAccEnd (a : A) (q u q' : QEntry ℚ) (n z : Nat) (gaps : List ℚ) (sizes : List Nat) (us : List ℚ)
      (h : a.src = .wait n z gaps sizes us q) (hn : a.pend = none)
      (hd : needsDraw c (avgNew c a) = true → us ≠ [])
      (hacc : dropQ c (avgNew c a) (uAtt c (avgNew c a) us) = false)
      (hnx : genNext c q.time gaps sizes = none)
      (hu : u.time = q.time ∧ u.prio = NORMAL) (ht : q'.time = q.time ∧ q'.prio = NORMAL) :
      AStep a q { (a.arrive c (.ending q')) with pend := some u, items := a.items ++ [(n : Int) + 1], bytes := a.bytes + (z : Int), len := a.len + 1, accIds := a.accIds ++ [(n : Int) + 1] }
        [.gen ((n : Int) + 1) q.time, .u (uAtt c (avgNew c a) us)]
  /-- an arrival is accepted, then the generator sleeps until the next one -/
  | srcAccWait (a : A) (q u q' : QEntry ℚ) (n z : Nat) (gaps : List ℚ) (sizes : List Nat) (us : List ℚ)
      (gap : ℚ) (z' : Nat) (gaps' : List ℚ) (sizes' : List Nat)
      (h : a.src = .wait n z gaps sizes us q) (hn : a.pend = none)
      (hd : needsDraw c (avgNew c a) = true → us ≠ [])
      (hacc : dropQ c (avgNew c a) (uAtt c (avgNew c a) us) = false)
      (hnx : genNext c q.time gaps sizes = some (gap, z', gaps', sizes'))
      (hu : u.time = q.time ∧ u.prio = NORMAL) (ht : q'.time = q.time + gap ∧ q'.prio = NORMAL) (ho : u.eid < q'.eid) :
      AStep a q { (a.arrive c (.wait (n + 1) z' gaps' sizes' (usAfter c (avgNew c a) us) q')) with pend := some u, items := a.items ++ [(n : Int) + 1], bytes := a.bytes + (z : Int), len := a.len + 1, accIds := a.accIds ++ [(n : Int) + 1] }
        [.gen ((n : Int) + 1) q.time, .u (uAtt c (avgNew c a) us)]
  /-- an arrival is refused, then the generator returns -/
  | srcDropEnd (a : A) (q q' : QEntry ℚ) (n z : Nat) (gaps : List ℚ) (sizes : List Nat) (us : List ℚ)
      (h : a.src = .wait n z gaps sizes us q) (hn : a.pend = none)
      (hd : needsDraw c (avgNew c a) = true → us ≠ [])
      (hdrop : dropQ c (avgNew c a) (uAtt c (avgNew c a) us) = true)
      (hnx : genNext c q.time gaps sizes = none)
      (ht : q'.time = q.time ∧ q'.prio = NORMAL) :
      AStep a q { (a.arrive c (.ending q')) with dropped := a.dropped + 1 }
        [.gen ((n : Int) + 1) q.time, .u (uAtt c (avgNew c a) us)]
  /-- an arrival is refused, then the generator sleeps until the next one -/
  | srcDropWait (a : A) (q q' : QEntry ℚ) (n z : Nat) (gaps : List ℚ) (sizes : List Nat) (us : List ℚ)
      (gap : ℚ) (z' : Nat) (gaps' : List ℚ) (sizes' : List Nat)
      (h : a.src = .wait n z gaps sizes us q) (hn : a.pend = none)
      (hd : needsDraw c (avgNew c a) = true → us ≠ [])
      (hdrop : dropQ c (avgNew c a) (uAtt c (avgNew c a) us) = true)
      (hnx : genNext c q.time gaps sizes = some (gap, z', gaps', sizes'))
      (ht : q'.time = q.time + gap ∧ q'.prio = NORMAL) :
      AStep a q { (a.arrive c (.wait (n + 1) z' gaps' sizes' (usAfter c (avgNew c a) us) q')) with dropped := a.dropped + 1 }
        [.gen ((n : Int) + 1) q.time, .u (uAtt c (avgNew c a) us)]
  /-- the `StorePut` event is processed and nobody waits for its item (or the waiting server finds the store empty) -/
  | putIdle (a : A) (q : QEntry ℚ) (h : a.pend = some q) (hw : a.port.getQ = [] ∨ a.items = []) :
      AStep a q { a with pend := none } []
  /-- the `StorePut` event is processed: the store hands the head item to the waiting server -/
  | putHand (a : A) (q q' : QEntry ℚ) (g : EvId) (i : Int) (is : List Int) (h : a.pend = some q) (hw : a.port = .W g)
      (hi : a.items = i :: is) (ht : q'.time = q.time ∧ q'.prio = NORMAL) :
      AStep a q { a with pend := none, port := .H g i q', items := is } []
  /-- the `StoreGet` event is processed: the server resumes with the packet and starts to transmit -/
  | serveTx (a : A) (q q' : QEntry ℚ) (g t : EvId) (id : Int) (h : a.port = .H g id q) (hr : 0 < c.rate)
      (ht : q'.time = q.time + txTime sizes0 c.rate id ∧ q'.prio = NORMAL) :
      AStep a q { a with port := .T t id q', busy := true, bsz := szOf sizes0 id } []
  /-- `rate ≤ 0`: the `StoreGet` event is processed, the packet leaves in the same burst, the store is empty -/
  | serveNowIdle (a : A) (q : QEntry ℚ) (g g' : EvId) (id : Int) (h : a.port = .H g id q) (hr : ¬ 0 < c.rate)
      (hi : a.items = []) :
      AStep a q { a with port := .W g', bytes := a.bytes - (szOf sizes0 id : Int), busy := false, bsz := 0, len := a.len - 1, scnt := a.scnt + 1, sbytes := a.sbytes + szOf sizes0 id }
        [.out id q.time, .sink id q.time]
  /-- `rate ≤ 0`: the packet leaves in the burst that took it and the next one is taken at once -/
  | serveNowNext (a : A) (q q' : QEntry ℚ) (g g' : EvId) (id i : Int) (is : List Int) (h : a.port = .H g id q)
      (hr : ¬ 0 < c.rate) (hi : a.items = i :: is) (ht : q'.time = q.time ∧ q'.prio = NORMAL) :
      AStep a q { a with port := .H g' i q', items := is, bytes := a.bytes - (szOf sizes0 id : Int), busy := false, bsz := 0, len := a.len - 1, scnt := a.scnt + 1, sbytes := a.sbytes + szOf sizes0 id }
        [.out id q.time, .sink id q.time]
  /-- the transmission ends, the store is empty: the server blocks in `get` -/
  | fireIdle (a : A) (q : QEntry ℚ) (t g : EvId) (id : Int) (h : a.port = .T t id q) (hi : a.items = []) :
      AStep a q { a with port := .W g, bytes := a.bytes - (szOf sizes0 id : Int), busy := false, bsz := 0, len := a.len - 1, scnt := a.scnt + 1, sbytes := a.sbytes + szOf sizes0 id }
        [.out id q.time, .sink id q.time]
  /-- the transmission ends and the next packet is taken at once -/
  | fireNext (a : A) (q q' : QEntry ℚ) (t g : EvId) (id i : Int) (is : List Int) (h : a.port = .T t id q)
      (hi : a.items = i :: is) (ht : q'.time = q.time ∧ q'.prio = NORMAL) :
      AStep a q { a with port := .H g i q', items := is, bytes := a.bytes - (szOf sizes0 id : Int), busy := false, bsz := 0, len := a.len - 1, scnt := a.scnt + 1, sbytes := a.sbytes + szOf sizes0 id }
        [.out id q.time, .sink id q.time]
  /-- the process event of the finished generator is processed -/
  | srcEnd (a : A) (q : QEntry ℚ) (h : a.src = .ending q) : AStep a q { a with src := .done } []

end REDK
