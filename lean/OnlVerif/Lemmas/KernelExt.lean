import OnlVerif.Lemmas.Agenda
import OnlVerif.Kernel.Step
/-!
# The agenda only grows, by fresh entries that are due no earlier than now

`Ext s s'` relates a kernel state to a later state *within one kernel step* (no pop in between):
the clock is unchanged, and the agenda of `s'` is the agenda of `s` with new entries pushed in
front, each due at `now` or later and carrying a fresh `eid`.  Every state transformer of the
model except the pop in `step` satisfies `Ext`; this is the frame in which C01 is proved.
-/

variable {σ : Type}

structure Ext (s s' : KState ℚ σ) : Prop where
  now_eq : s'.now = s.now
  eid_le : s.eid ≤ s'.eid
  grows : ∃ new : List (QEntry ℚ), s'.agenda = new ++ s.agenda ∧
    ∀ q ∈ new, s.now ≤ q.time ∧ s.eid ≤ q.eid ∧ q.eid < s'.eid
  /-- new entries are `(now + d, prio, eid, _)` of a `schedule` call: listed newest first, eids strictly decreasing -/
  fresh : ∃ new : List (QEntry ℚ), s'.agenda = new ++ s.agenda ∧ new.Pairwise (fun a b => b.eid < a.eid)

namespace Ext

theorem refl (s : KState ℚ σ) : Ext s s :=
  ⟨rfl, Nat.le_refl _, ⟨[], rfl, by simp⟩, ⟨[], rfl, List.Pairwise.nil⟩⟩

/-- a transformer that touches neither clock, agenda nor eid counter -/
theorem of_frame {s s' : KState ℚ σ} (h1 : s'.now = s.now) (h2 : s'.agenda = s.agenda) (h3 : s'.eid = s.eid) :
    Ext s s' :=
  ⟨h1, by rw [h3], ⟨[], by simp [h2], by simp⟩, ⟨[], by simp [h2], List.Pairwise.nil⟩⟩

theorem trans {s1 s2 s3 : KState ℚ σ} (h12 : Ext s1 s2) (h23 : Ext s2 s3) : Ext s1 s3 := by
  obtain ⟨n12, e12, ⟨new1, a1, p1⟩, ⟨new1', a1', f1⟩⟩ := h12
  obtain ⟨n23, e23, ⟨new2, a2, p2⟩, ⟨new2', a2', f2⟩⟩ := h23
  have hn1 : new1' = new1 := List.append_cancel_right (a1'.symm.trans a1)
  have hn2 : new2' = new2 := List.append_cancel_right (a2'.symm.trans a2)
  subst hn1 hn2
  refine ⟨n23.trans n12, Nat.le_trans e12 e23, ⟨new2' ++ new1', by rw [a2, a1, List.append_assoc], ?_⟩,
    ⟨new2' ++ new1', by rw [a2, a1, List.append_assoc], ?_⟩⟩
  · intro q hq
    rcases List.mem_append.mp hq with hq | hq
    · have := p2 q hq
      exact ⟨by rw [← n12]; exact this.1, Nat.le_trans e12 this.2.1, this.2.2⟩
    · have := p1 q hq
      exact ⟨this.1, this.2.1, Nat.lt_of_lt_of_le this.2.2 e23⟩
  · rw [List.pairwise_append]
    refine ⟨f2, f1, ?_⟩
    intro a ha b hb
    exact Nat.lt_of_lt_of_le (p1 b hb).2.2 (p2 a ha).2.1

theorem schedule (s : KState ℚ σ) (e : EvId) (p : Nat) (d : ℚ) (hd : 0 ≤ d) : Ext s (s.schedule e p d) := by
  refine ⟨rfl, Nat.le_succ _, ⟨[{ time := s.now + d, prio := p, eid := s.eid, ev := e }], rfl, ?_⟩,
    ⟨[{ time := s.now + d, prio := p, eid := s.eid, ev := e }], rfl, List.pairwise_singleton _ _⟩⟩
  intro q hq
  rw [List.mem_singleton] at hq
  subst hq
  exact ⟨by show s.now ≤ s.now + d; linarith, Nat.le_refl _, Nat.lt_succ_self _⟩

end Ext

theorem zero_eq : (Num.zero : ℚ) = 0 := by
  show ((0 : ℕ) : ℚ) = 0
  simp

/-! ## frame facts of the primitive updates -/

section frames
variable (s : KState ℚ σ)

theorem ext_setEv (e : EvId) (r : EvRec ℚ) : Ext s (s.setEv e r) := Ext.of_frame rfl rfl rfl
theorem ext_emit (o : Obs ℚ) : Ext s (s.emit o) := Ext.of_frame rfl rfl rfl
theorem ext_setProc (p : EvId) (r : ProcRec σ) : Ext s (s.setProc p r) := Ext.of_frame rfl rfl rfl
theorem ext_setRes (r : ResId) (x : ResRec) : Ext s (s.setRes r x) := Ext.of_frame rfl rfl rfl
theorem ext_newEv (r : EvRec ℚ) : Ext s (s.newEv r).1 := Ext.of_frame rfl rfl rfl
theorem ext_newLabelled (r : EvRec ℚ) : Ext s (s.newLabelled r).1 := Ext.of_frame rfl rfl rfl
theorem ext_addCb (e : EvId) (cb : Cb) : Ext s (s.addCb e cb) := Ext.of_frame rfl rfl rfl
theorem ext_active (a : Option EvId) : Ext s { s with active := a } := Ext.of_frame rfl rfl rfl
theorem ext_shared (l : List (Nat × Val)) : Ext s { s with shared := l } := Ext.of_frame rfl rfl rfl

theorem ext_trigger (e : EvId) (o : Outcome) : Ext s (s.trigger e o) := by
  unfold KState.trigger
  exact (ext_setEv s e _).trans (Ext.schedule _ _ _ _ (by rw [zero_eq]))

end frames

/-! ## interrupts, resources, conditions -/

theorem ext_mkInterrupt (s : KState ℚ σ) (p : EvId) (c : Val) : Ext s (mkInterrupt s p c).1 := by
  unfold mkInterrupt
  split
  · exact Ext.refl s
  · split
    · exact Ext.refl s
    · exact ((ext_newEv s _).trans (ext_setEv _ _ _)).trans (Ext.schedule _ _ _ _ (by rw [zero_eq]))

theorem ext_preemptStep (s : KState ℚ σ) (r : ResId) (e : EvId) : Ext s (preemptStep s r e) := by
  unfold preemptStep
  simp only
  split
  · split
    · exact Ext.refl s
    · split
      · split
        · exact (ext_setRes s _ _).trans (ext_mkInterrupt _ _ _)
        · exact ext_setRes s _ _
      · exact Ext.refl s
  · exact Ext.refl s

theorem ext_prePut (s : KState ℚ σ) (r : ResId) (e : EvId) : Ext s (prePut s r e) := by
  unfold prePut
  split
  · exact ext_preemptStep s r e
  · exact Ext.refl s

theorem ext_applyPut (s : KState ℚ σ) (r : ResId) (e : EvId) : Ext s (applyPut s r e) := by
  unfold applyPut
  simp only
  split
  · exact ((ext_setRes _ _ _).trans (ext_setEv _ _ _)).trans (ext_trigger _ _ _)
  · exact ((ext_setRes _ _ _).trans (ext_setEv _ _ _)).trans (ext_trigger _ _ _)
  · exact ((ext_setRes _ _ _).trans (ext_setEv _ _ _)).trans (ext_trigger _ _ _)
  · exact (ext_setRes _ _ _).trans (ext_trigger _ _ _)
  · exact (ext_setRes _ _ _).trans (ext_trigger _ _ _)
  · exact (ext_setRes _ _ _).trans (ext_trigger _ _ _)
  · exact (ext_setRes _ _ _).trans (ext_trigger _ _ _)

theorem ext_doPut (s : KState ℚ σ) (r : ResId) (e : EvId) : Ext s (doPut s r e).1 := by
  unfold doPut
  split
  · exact (ext_prePut s r e).trans (ext_applyPut _ _ _)
  · exact ext_prePut s r e

theorem ext_doGet (s : KState ℚ σ) (r : ResId) (e : EvId) : Ext s (doGet s r e).1 := by
  unfold doGet
  split
  · exact (ext_setRes _ _ _).trans (ext_trigger _ _ _)
  · exact Ext.refl s

theorem ext_dropPutQ (s : KState ℚ σ) (r : ResId) (e : EvId) : Ext s (dropPutQ s r e) := ext_setRes s _ _
theorem ext_dropGetQ (s : KState ℚ σ) (r : ResId) (e : EvId) : Ext s (dropGetQ s r e) := ext_setRes s _ _

theorem ext_scanPut (r : ResId) (q : List EvId) (s : KState ℚ σ) : Ext s (scanPut r q s) := by
  induction q generalizing s with
  | nil => exact Ext.refl s
  | cons e rest ih =>
    unfold scanPut
    simp only
    have h1 : Ext s (if (doPut s r e).1.triggered e then dropPutQ (doPut s r e).1 r e else (doPut s r e).1) := by
      split
      · exact (ext_doPut s r e).trans (ext_dropPutQ _ _ _)
      · exact ext_doPut s r e
    split
    · exact h1.trans (ih _)
    · exact h1

theorem ext_scanGet (r : ResId) (q : List EvId) (s : KState ℚ σ) : Ext s (scanGet r q s) := by
  induction q generalizing s with
  | nil => exact Ext.refl s
  | cons e rest ih =>
    unfold scanGet
    simp only
    have h1 : Ext s (if (doGet s r e).1.triggered e then dropGetQ (doGet s r e).1 r e else (doGet s r e).1) := by
      split
      · exact (ext_doGet s r e).trans (ext_dropGetQ _ _ _)
      · exact ext_doGet s r e
    split
    · exact h1.trans (ih _)
    · exact h1

theorem ext_triggerPut (s : KState ℚ σ) (r : ResId) : Ext s (triggerPut s r) := ext_scanPut r _ s
theorem ext_triggerGet (s : KState ℚ σ) (r : ResId) : Ext s (triggerGet s r) := ext_scanGet r _ s

theorem ext_mkPut (s : KState ℚ σ) (r : ResId) (rq : ReqData ℚ) : Ext s (mkPut s r rq).1 := by
  unfold mkPut
  exact (((ext_newLabelled s _).trans (ext_setRes _ _ _)).trans (ext_addCb _ _ _)).trans (ext_triggerPut _ _)

theorem ext_mkGet (s : KState ℚ σ) (r : ResId) (rq : ReqData ℚ) : Ext s (mkGet s r rq).1 := by
  unfold mkGet
  exact (((ext_newLabelled s _).trans (ext_setRes _ _ _)).trans (ext_addCb _ _ _)).trans (ext_triggerGet _ _)

theorem ext_cancelReq (s : KState ℚ σ) (e : EvId) : Ext s (cancelReq s e).1 := by
  unfold cancelReq
  split
  · exact Ext.refl s
  · split
    · split
      · exact (ext_dropPutQ s _ _).trans (ext_triggerPut _ _)
      · exact Ext.refl s
    · split
      · exact (ext_dropGetQ s _ _).trans (ext_triggerGet _ _)
      · exact Ext.refl s
    · exact Ext.refl s

theorem ext_condCheck (s : KState ℚ σ) (c e : EvId) : Ext s (condCheck s c e) := by
  unfold condCheck
  split
  · exact Ext.refl s
  · simp only
    split
    · exact ((ext_setEv s _ _).trans (ext_setEv _ _ _)).trans (ext_trigger _ _ _)
    · split
      · exact (ext_setEv s _ _).trans (ext_trigger _ _ _)
      · exact ext_setEv s _ _

theorem ext_foldl {α : Type} (f : KState ℚ σ → α → KState ℚ σ) (hf : ∀ s a, Ext s (f s a)) (l : List α)
    (s : KState ℚ σ) : Ext s (l.foldl f s) := by
  induction l generalizing s with
  | nil => exact Ext.refl s
  | cons a l ih => exact (hf s a).trans (ih _)

theorem ext_eraseCheck (s : KState ℚ σ) (c e : EvId) : Ext s (eraseCheck s c e) := by
  unfold eraseCheck
  split
  · split
    · exact ext_setEv s _ _
    · exact Ext.refl s
  · exact Ext.refl s

theorem ext_removeChecks (fuel : Nat) (c : EvId) (s : KState ℚ σ) : Ext s (removeChecks fuel c s) := by
  induction fuel generalizing c s with
  | zero => exact Ext.refl s
  | succ n ih =>
    unfold removeChecks
    apply ext_foldl
    intro s e
    split
    · exact (ext_eraseCheck s c e).trans (ih _ _)
    · exact ext_eraseCheck s c e

theorem ext_condBuild (s : KState ℚ σ) (c : EvId) : Ext s (condBuild s c) := by
  unfold condBuild
  simp only
  split
  · exact (ext_removeChecks _ _ s).trans (ext_setEv _ _ _)
  · exact ext_removeChecks _ _ s

theorem ext_mkCond (s : KState ℚ σ) (all : Bool) (ops : List EvId) : Ext s (mkCond s all ops).1 := by
  unfold mkCond
  simp only
  split
  · exact (ext_newLabelled s _).trans (ext_trigger _ _ _)
  · refine ((ext_newLabelled s _).trans (ext_foldl _ ?_ _ _)).trans (ext_addCb _ _ _)
    intro s e
    split
    · exact ext_condCheck _ _ _
    · exact ext_addCb _ _ _

/-! ## API calls, bursts, `_resume` -/

theorem ext_doCall (s : KState ℚ σ) (self : EvId) (c : Call ℚ σ) : Ext s (doCall s self c).1 := by
  cases c <;> simp only [doCall]
  case timeout d v =>
    split
    · exact Ext.refl s
    · rename_i hd
      exact (ext_newLabelled s _).trans (Ext.schedule _ _ _ _ (by rw [zero_eq] at hd; exact not_lt.mp hd))
  case event => exact ext_newLabelled s _
  case succeed e v => split <;> first | exact Ext.refl s | exact ext_trigger s _ _
  case fail e x => split <;> first | exact Ext.refl s | exact ext_trigger s _ _
  case spawn st =>
    exact (((ext_newLabelled s _).trans (ext_newEv _ _)).trans (Ext.schedule _ _ _ _ (by rw [zero_eq]))).trans
      (ext_setProc _ _ _)
  case interrupt p cause =>
    split
    · exact Ext.refl s
    · have := ext_mkInterrupt s p cause
      generalize mkInterrupt s p cause = r at this ⊢
      obtain ⟨s1, o⟩ := r
      cases o <;> exact this
  case probe e tag => split <;> first | exact Ext.refl s | exact ext_addCb s _ _
  case cond all ops => exact ext_mkCond s all ops
  case request r prio pre => exact ext_mkPut s r _
  case release r req => exact ext_mkGet s r _
  case cancel e =>
    have := ext_cancelReq s e
    generalize cancelReq s e = r at this ⊢
    obtain ⟨s1, o⟩ := r
    cases o <;> exact this
  case cput r a => split <;> first | exact Ext.refl s | exact ext_mkPut s r _
  case cget r a => split <;> first | exact Ext.refl s | exact ext_mkGet s r _
  case sput r it => exact ext_mkPut s r _
  case sget r f => exact ext_mkGet s r _
  case log what v => exact ext_emit s _
  case load k => exact Ext.refl s
  case store k v => exact ext_shared s _

theorem ext_noteErr (self : EvId) (sr : KState ℚ σ × Reply) : Ext sr.1 (noteErr self sr) := by
  unfold noteErr
  split
  · exact ext_emit _ _
  · exact Ext.refl _

theorem ext_runBurst (self : EvId) (b : Burst ℚ σ) (s : KState ℚ σ) : Ext s (runBurst self b s).1 := by
  induction b generalizing s with
  | call c k ih =>
    simp only [runBurst]
    exact ((ext_doCall s self c).trans (ext_noteErr self _)).trans (ih _ _)
  | yield e st => exact Ext.refl s
  | ret v => exact Ext.refl s
  | raise x => exact Ext.refl s

theorem ext_deliver (s : KState ℚ σ) (p e : EvId) : Ext s (deliver s p e).1 := by
  unfold deliver
  simp only
  split
  · exact ext_active s _
  · exact (ext_active s _).trans (ext_setEv _ _ _)
  · exact ext_active s _

theorem ext_finishProc (s : KState ℚ σ) (p : EvId) (pr : ProcRec σ) (o : Outcome) : Ext s (finishProc s p pr o) := by
  unfold finishProc
  exact (((ext_trigger s _ _).trans (ext_emit _ _)).trans (ext_setProc _ _ _)).trans (ext_active _ _)

theorem ext_register (s s' : KState ℚ σ) (p e' : EvId) (h : register s p e' = some s') : Ext s s' := by
  unfold register at h
  split at h
  · cases h
  · cases h
    exact (ext_addCb s _ _).trans (ext_active _ _)

theorem ext_resume (body : σ → Resume → Burst ℚ σ) (p : EvId) (fuel : Nat) (e : EvId) (s : KState ℚ σ) :
    Ext s (resume body p fuel e s) := by
  induction fuel generalizing e s with
  | zero => exact Ext.refl s
  | succ n ih =>
    unfold resume
    split
    · exact Ext.refl s
    · rename_i pr _
      simp only
      have hb : Ext s (runBurst p (body pr.st (deliver s p e).2)
          ((deliver s p e).1.emit (.resumed p (deliver s p e).2 (deliver s p e).1.now))).1 :=
        ((ext_deliver s p e).trans (ext_emit _ _)).trans (ext_runBurst _ _ _)
      split
      · exact hb.trans (ext_finishProc _ _ _ _)
      · exact hb.trans (ext_finishProc _ _ _ _)
      · split
        · rename_i s3 hr
          exact (hb.trans (ext_setProc _ _ _)).trans (ext_register _ _ _ _ hr)
        · exact (hb.trans (ext_setProc _ _ _)).trans (ih _ _)

theorem ext_deliverInterrupt (body : σ → Resume → Burst ℚ σ) (fuel : Nat) (iv p : EvId) (s : KState ℚ σ) :
    Ext s (deliverInterrupt body fuel iv p s) := by
  unfold deliverInterrupt
  split
  · exact Ext.refl s
  · split
    · exact Ext.refl s
    · simp only
      split
      · exact (ext_setEv s _ _).trans (ext_resume _ _ _ _ _)
      · exact ext_resume _ _ _ _ _

theorem ext_runCb (body : σ → Resume → Burst ℚ σ) (fuel : Nat) (e : EvId) (l : LoopSt ℚ σ) (cb : Cb) :
    Ext l.s (runCb body fuel e l cb).s := by
  unfold runCb
  split
  · exact Ext.refl _
  · simp only
    cases cb with
    | resume p => exact ext_resume _ _ _ _ _
    | probe tag => exact ext_emit _ _
    | stop => simp only; split <;> exact Ext.refl _
    | intr iv =>
      simp only
      split
      · exact ext_deliverInterrupt _ _ _ _ _
      · exact Ext.refl _
    | check c => exact ext_condCheck _ _ _
    | build c => exact ext_condBuild _ _
    | trigPut r => exact ext_triggerPut _ _
    | trigGet r => exact ext_triggerGet _ _

theorem ext_foldCbs (body : σ → Resume → Burst ℚ σ) (fuel : Nat) (e : EvId) (cbs : List Cb) (l : LoopSt ℚ σ) :
    Ext l.s (cbs.foldl (runCb body fuel e) l).s := by
  induction cbs generalizing l with
  | nil => exact Ext.refl _
  | cons c cs ih => exact (ext_runCb body fuel e l c).trans (ih _)
