import OnlVerif.Lemmas.Agenda
import OnlVerif.Lemmas.KernelRel
/-!
# The agenda only grows, by fresh entries that are due no earlier than now

`Ext s s'` relates a kernel state to a later state *within one kernel step* (no pop in between):
the clock is unchanged, and the agenda of `s'` is the agenda of `s` with new entries pushed in
front, each due at `now` or later and carrying a fresh `eid`.  Every state transformer of the
model except the pop in `step` satisfies `Ext`; this is the frame in which C01 is proved.
-/

variable {σ : Type}

structure Ext (s s' : KState ℚ σ) : Prop where
  now_eq : s'.now = s.now
  eid_le : s.eid ≤ s'.eid
  grows : ∃ new : List (QEntry ℚ), s'.agenda = new ++ s.agenda ∧
    ∀ q ∈ new, s.now ≤ q.time ∧ s.eid ≤ q.eid ∧ q.eid < s'.eid
  /-- new entries are `(now + d, prio, eid, _)` of a `schedule` call: listed newest first, eids strictly decreasing -/
  fresh : ∃ new : List (QEntry ℚ), s'.agenda = new ++ s.agenda ∧ new.Pairwise (fun a b => b.eid < a.eid)

namespace Ext

theorem refl (s : KState ℚ σ) : Ext s s :=
  ⟨rfl, Nat.le_refl _, ⟨[], rfl, by simp⟩, ⟨[], rfl, List.Pairwise.nil⟩⟩

/-- a transformer that touches neither clock, agenda nor eid counter -/
theorem of_frame {s s' : KState ℚ σ} (h1 : s'.now = s.now) (h2 : s'.agenda = s.agenda) (h3 : s'.eid = s.eid) :
    Ext s s' :=
  ⟨h1, by rw [h3], ⟨[], by simp [h2], by simp⟩, ⟨[], by simp [h2], List.Pairwise.nil⟩⟩

theorem trans {s1 s2 s3 : KState ℚ σ} (h12 : Ext s1 s2) (h23 : Ext s2 s3) : Ext s1 s3 := by
  obtain ⟨n12, e12, ⟨new1, a1, p1⟩, ⟨new1', a1', f1⟩⟩ := h12
  obtain ⟨n23, e23, ⟨new2, a2, p2⟩, ⟨new2', a2', f2⟩⟩ := h23
  have hn1 : new1' = new1 := List.append_cancel_right (a1'.symm.trans a1)
  have hn2 : new2' = new2 := List.append_cancel_right (a2'.symm.trans a2)
  subst hn1 hn2
  refine ⟨n23.trans n12, Nat.le_trans e12 e23, ⟨new2' ++ new1', by rw [a2, a1, List.append_assoc], ?_⟩,
    ⟨new2' ++ new1', by rw [a2, a1, List.append_assoc], ?_⟩⟩
  · intro q hq
    rcases List.mem_append.mp hq with hq | hq
    · have := p2 q hq
      exact ⟨by rw [← n12]; exact this.1, Nat.le_trans e12 this.2.1, this.2.2⟩
    · have := p1 q hq
      exact ⟨this.1, this.2.1, Nat.lt_of_lt_of_le this.2.2 e23⟩
  · rw [List.pairwise_append]
    refine ⟨f2, f1, ?_⟩
    intro a ha b hb
    exact Nat.lt_of_lt_of_le (p1 b hb).2.2 (p2 a ha).2.1

theorem schedule (s : KState ℚ σ) (e : EvId) (p : Nat) (d : ℚ) (hd : 0 ≤ d) : Ext s (s.schedule e p d) := by
  refine ⟨rfl, Nat.le_succ _, ⟨[{ time := s.now + d, prio := p, eid := s.eid, ev := e }], rfl, ?_⟩,
    ⟨[{ time := s.now + d, prio := p, eid := s.eid, ev := e }], rfl, List.pairwise_singleton _ _⟩⟩
  intro q hq
  rw [List.mem_singleton] at hq
  subst hq
  exact ⟨by show s.now ≤ s.now + d; linarith, Nat.le_refl _, Nat.lt_succ_self _⟩

end Ext

theorem zero_eq : (Num.zero : ℚ) = 0 := zero_eq'

/-- `Ext` contains every leaf update of the kernel model -/
theorem Ext.krel : KRel (Ext (σ := σ)) where
  refl := Ext.refl
  trans := Ext.trans
  emit _ _ := Ext.of_frame rfl rfl rfl
  active _ _ := Ext.of_frame rfl rfl rfl
  shared _ _ := Ext.of_frame rfl rfl rfl
  setProc _ _ _ := Ext.of_frame rfl rfl rfl
  newEv _ _ _ := Ext.of_frame rfl rfl rfl
  newLabelled _ _ _ := Ext.of_frame rfl rfl rfl
  newReq _ _ _ _ _ := Ext.of_frame rfl rfl rfl
  schedule s e p d hd _ := Ext.schedule s e p d hd
  setOut _ _ _ := Ext.of_frame rfl rfl rfl
  defuse _ _ := Ext.of_frame rfl rfl rfl
  bumpCount _ _ := Ext.of_frame rfl rfl rfl
  setUsage _ _ := Ext.of_frame rfl rfl rfl
  eraseCb _ _ _ := Ext.of_frame rfl rfl rfl
  addCb _ _ _ _ := Ext.of_frame rfl rfl rfl
  eraseUser _ _ _ := Ext.of_frame rfl rfl rfl
  addUser _ _ _ _ _ := Ext.of_frame rfl rfl rfl
  addLevel _ _ _ _ _ := Ext.of_frame rfl rfl rfl
  subLevel _ _ _ _ _ := Ext.of_frame rfl rfl rfl
  addItem _ _ _ _ _ := Ext.of_frame rfl rfl rfl
  tailItems _ _ := Ext.of_frame rfl rfl rfl
  eraseItem _ _ _ := Ext.of_frame rfl rfl rfl
  dropPutQ _ _ _ := Ext.of_frame rfl rfl rfl
  dropGetQ _ _ _ := Ext.of_frame rfl rfl rfl
  enqPut _ _ _ _ := Ext.of_frame rfl rfl rfl
  enqGet _ _ _ _ := Ext.of_frame rfl rfl rfl

/-- the callback loop of a step only adds fresh entries that are due no earlier than now -/
theorem ext_foldCbs (body : σ → Resume → Burst ℚ σ) (fuel : Nat) (e : EvId) (cbs : List Cb) (l : LoopSt ℚ σ) :
    Ext l.s (cbs.foldl (runCb body fuel e) l).s := Ext.krel.foldCbs body fuel e cbs l

theorem ext_doCall (s : KState ℚ σ) (self : EvId) (c : Call ℚ σ) : Ext s (doCall s self c).1 := Ext.krel.doCall s self c
