import OnlVerif.Lemmas.WFQKAbs
import Mathlib.Tactic.Linarith
import Mathlib.Tactic.Ring
import Mathlib.Tactic.FieldSimp
/-!
# The WFQ scheduler on the kernel model: the two grids

Instants live on `ℤ / d1`; virtual time and finish times on `ℤ / (d1 · L)`.  The weight sum over the active classes is a
natural number between 1 and `wTotal` (so it divides `L`), hence dividing an instant difference by it, and a transmission time
by a single weight, stays on the fine grid: the grid is closed under what `put` and the bookkeeping of `run` compute.
-/

set_option linter.unusedSimpArgs false
set_option linter.unusedVariables false

namespace WFQK
open WFQOnK

variable {d : Nat}

/-! ## closure of a grid -/

theorem onGrid_zero : OnGrid d 0 := ⟨0, by simp⟩

theorem onGrid_add {x y : ℚ} (hx : OnGrid d x) (hy : OnGrid d y) : OnGrid d (x + y) := by
  obtain ⟨k, rfl⟩ := hx
  obtain ⟨l, rfl⟩ := hy
  exact ⟨k + l, by push_cast; rw [add_div]⟩

theorem onGrid_sub {x y : ℚ} (hx : OnGrid d x) (hy : OnGrid d y) : OnGrid d (x - y) := by
  obtain ⟨k, rfl⟩ := hx
  obtain ⟨l, rfl⟩ := hy
  exact ⟨k - l, by push_cast; rw [sub_div]⟩

theorem onGrid_max {x y : ℚ} (hx : OnGrid d x) (hy : OnGrid d y) : OnGrid d (max x y) := by
  rcases max_choice x y with h | h <;> rw [h] <;> assumption

theorem onGrid_pymax {x y : ℚ} (hx : OnGrid d x) (hy : OnGrid d y) : OnGrid d (Num.pymax x y) := by
  unfold Num.pymax
  split <;> assumption

/-- the coarse grid lies inside the fine one -/
theorem onGrid_fine {d1 L : Nat} {x : ℚ} (hL : 0 < L) (hx : OnGrid d1 x) : OnGrid (d1 * L) x := by
  obtain ⟨k, rfl⟩ := hx
  refine ⟨k * L, ?_⟩
  have hL' : (L : ℚ) ≠ 0 := Nat.cast_ne_zero.mpr (Nat.pos_iff_ne_zero.mp hL)
  push_cast
  rw [mul_div_mul_right _ _ hL']

/-- **division by a whole number that divides `L` leads from the coarse grid into the fine one** -/
theorem onGrid_div {d1 L : Nat} {x : ℚ} (hx : OnGrid d1 x) (k : Nat) (hk : 1 ≤ k) (hdiv : k ∣ L) (hd : 0 < d1) (hL : 0 < L) :
    OnGrid (d1 * L) (x / (k : ℚ)) := by
  obtain ⟨m, rfl⟩ := hx
  obtain ⟨j, rfl⟩ := hdiv
  have hj : 0 < j := Nat.pos_of_mul_pos_left (a := k) hL
  refine ⟨m * j, ?_⟩
  have hk' : (k : ℚ) ≠ 0 := Nat.cast_ne_zero.mpr (by omega)
  have hj' : (j : ℚ) ≠ 0 := Nat.cast_ne_zero.mpr (by omega)
  have hd' : (d1 : ℚ) ≠ 0 := Nat.cast_ne_zero.mpr (by omega)
  push_cast
  field_simp

/-! ## the weights are whole numbers -/

variable {F : Nat} {cfg : WfqCfg ℚ}

/-- a configured weight is a positive natural number, the one `wTotal` adds up -/
theorem wOf_nat (hc : CfgOK F cfg) {c : Nat} (h : c < F) :
    ∃ n : Nat, 1 ≤ n ∧ wOf cfg c = (n : ℚ) ∧ (wOf cfg c).num.toNat = n := by
  obtain ⟨n, hn, hl⟩ := hc.w c h
  refine ⟨n, hn, ?_, ?_⟩
  · unfold wOf; rw [hl]; rfl
  · unfold wOf; rw [hl]
    show ((n : ℚ)).num.toNat = n
    rw [Rat.num_natCast, Int.toNat_natCast]

theorem mem_le_sum : ∀ (l : List Nat) (x : Nat), x ∈ l → x ≤ l.sum
  | [], _, h => by cases h
  | y :: r, x, h => by
    rw [List.sum_cons]
    rcases List.mem_cons.mp h with rfl | h
    · omega
    · have := mem_le_sum r x h
      omega

/-- a single weight is a whole number in `1 … wTotal` -/
theorem wOf_le_total (hc : CfgOK F cfg) {c : Nat} (h : c < F) :
    ∃ n : Nat, wOf cfg c = (n : ℚ) ∧ 1 ≤ n ∧ n ≤ wTotal F cfg := by
  obtain ⟨n, hn, h1, h2⟩ := wOf_nat hc h
  refine ⟨n, h1, hn, ?_⟩
  unfold wTotal
  apply mem_le_sum
  rw [← h2]
  exact List.mem_map_of_mem (f := fun c => (wOf cfg c).num.toNat) (List.mem_range.mpr h)

/-- the sum of the weights of the classes `c, …, c + n - 1`, as a natural number -/
def wRange (cfg : WfqCfg ℚ) (c n : Nat) : Nat := ((List.range' c n).map fun c => (wOf cfg c).num.toNat).sum

theorem wRange_zero (c : Nat) : wRange cfg c 0 = 0 := rfl

theorem wRange_succ (c n : Nat) : wRange cfg c (n + 1) = (wOf cfg c).num.toNat + wRange cfg (c + 1) n := by
  unfold wRange
  rw [List.range'_succ, List.map_cons, List.sum_cons]

theorem wTotal_eq : wTotal F cfg = wRange cfg 0 F := by
  unfold wTotal wRange
  rw [List.range_eq_range']

/-- **the weight sum is a natural number** (accumulator generalised): it grows by at most the weights of the classes scanned,
and by at least 1 if one of them is active -/
theorem wsum_nat_acc (hc : CfgOK F cfg) (act : Nat → Bool) : ∀ (n c k0 : Nat), c + n ≤ F →
    ∃ k : Nat, wsum cfg act c n (k0 : ℚ) = (k : ℚ) ∧ k0 ≤ k ∧ k ≤ k0 + wRange cfg c n ∧
      ((∃ c', c ≤ c' ∧ c' < c + n ∧ act c' = true) → k0 + 1 ≤ k)
  | 0, c, k0, _ => ⟨k0, rfl, le_refl _, by simp [wRange_zero], by rintro ⟨c', h1, h2, -⟩; omega⟩
  | n + 1, c, k0, h => by
    obtain ⟨m, hm, h1, h2⟩ := wOf_nat hc (show c < F by omega)
    rw [wRange_succ, h2]
    unfold wsum
    cases ha : act c with
    | true =>
      obtain ⟨k, e1, e2, e3, -⟩ := wsum_nat_acc hc act n (c + 1) (k0 + m) (by omega)
      refine ⟨k, ?_, by omega, by omega, fun _ => by omega⟩
      rw [if_pos rfl, h1, ← e1]
      push_cast
      rfl
    | false =>
      obtain ⟨k, e1, e2, e3, e4⟩ := wsum_nat_acc hc act n (c + 1) k0 (by omega)
      refine ⟨k, ?_, e2, by omega, ?_⟩
      · rw [if_neg (by simp), e1]
      · rintro ⟨c', g1, g2, g3⟩
        apply e4
        refine ⟨c', ?_, by omega, g3⟩
        rcases Nat.lt_or_ge c c' with g | g
        · exact g
        · have : c' = c := by omega
          rw [this, ha] at g3
          cases g3

/-- the weight sum over `c, …, c + n - 1` from 0 -/
theorem wsum_nat (hc : CfgOK F cfg) (act : Nat → Bool) (c n : Nat) (h : c + n ≤ F) :
    ∃ k : Nat, wsum cfg act c n 0 = (k : ℚ) ∧ k ≤ wRange cfg c n := by
  obtain ⟨k, e1, -, e3, -⟩ := wsum_nat_acc hc act n c 0 h
  exact ⟨k, by simpa using e1, by omega⟩

/-- the same with the bound spelt out -/
theorem wsum_nat_range (hc : CfgOK F cfg) (act : Nat → Bool) (c n : Nat) (h : c + n ≤ F) :
    ∃ k : Nat, wsum cfg act c n 0 = (k : ℚ) ∧ k ≤ ((List.range' c n).map fun c => (wOf cfg c).num.toNat).sum :=
  wsum_nat hc act c n h

/-- the weight sum of a configuration is a natural number `≤ wTotal` -/
theorem ws_nat (hc : CfgOK F cfg) (a : A) : ∃ k : Nat, a.ws F cfg = (k : ℚ) ∧ k ≤ wTotal F cfg := by
  unfold A.ws
  rw [wTotal_eq]
  exact wsum_nat hc a.act 0 F (by omega)

/-- … and `≥ 1` when a class is active -/
theorem ws_nat_pos (hc : CfgOK F cfg) (a : A) (hact : ∃ c, c < F ∧ a.act c = true) :
    ∃ k : Nat, a.ws F cfg = (k : ℚ) ∧ 1 ≤ k ∧ k ≤ wTotal F cfg := by
  obtain ⟨k, e1, -, e3, e4⟩ := wsum_nat_acc hc a.act F 0 0 (by omega)
  obtain ⟨c, h1, h2⟩ := hact
  refine ⟨k, by simpa [A.ws] using e1, ?_, by rw [wTotal_eq]; omega⟩
  have := e4 ⟨c, by omega, by omega, h2⟩
  omega

theorem ws_pos (hc : CfgOK F cfg) (a : A) (hact : ∃ c, c < F ∧ a.act c = true) : 0 < a.ws F cfg := by
  obtain ⟨k, e1, e2, -⟩ := ws_nat_pos hc a hact
  rw [e1]
  exact Nat.cast_pos.mpr (by omega)

/-! ## what `put` and the bookkeeping of `run` compute stays on the fine grid -/

variable {scale d1 L : Nat}

/-- the advanced virtual time `vtime + (now - last_time) / weight_sum` -/
theorem onGrid_adv (hc : CfgOK F cfg)
    (hg : 0 < d1 ∧ 0 < L ∧ scale = d1 * L ∧ ∀ k : Nat, 1 ≤ k → k ≤ wTotal F cfg → k ∣ L)
    (a : A) {now : ℚ} (hn : OnGrid d1 now) (hl : OnGrid d1 a.last) (hv : OnGrid scale a.vtime)
    (hact : ∃ c, c < F ∧ a.act c = true) :
    OnGrid scale (a.vtime + (now - a.last) / a.ws F cfg) := by
  obtain ⟨k, e1, e2, e3⟩ := ws_nat_pos hc a hact
  obtain ⟨h1, h2, h3, h4⟩ := hg
  refine onGrid_add hv ?_
  rw [e1, h3]
  exact onGrid_div (onGrid_sub hn hl) k e2 (h4 k e2 e3) h1 h2

/-- the stamp, spelt out -/
theorem stampOf_def (f v w : ℚ) (size : Nat) :
    WFQ.stampOf cfg f v w size = Num.pymax f v + Num.ofNat (size * 8) / (cfg.rate * w) := rfl

/-- the stamp is `max(F, V)` plus the transmission time divided by the weight -/
theorem stampOf_tx (f v w : ℚ) (size' : Int → Nat) (id : Int) :
    WFQ.stampOf cfg f v w (size' id) = max f v + txTime size' cfg.rate id / w := by
  rw [stampOf_def, Num.pymax_eq]
  unfold txTime
  rw [div_mul_eq_div_div]

/-- **the stamp lies on the fine grid** when `F`, `V` do, the transmission time is an instant difference and the weight a
whole number dividing `L` -/
theorem onGrid_stamp (hg : 0 < d1 ∧ 0 < L ∧ scale = d1 * L) {f v : ℚ} (hf : OnGrid scale f) (hv : OnGrid scale v)
    (size' : Int → Nat) (id : Int) (htx : OnGrid d1 (txTime size' cfg.rate id)) (k : Nat) (hk : 1 ≤ k) (hdiv : k ∣ L) :
    OnGrid scale (WFQ.stampOf cfg f v (k : ℚ) (size' id)) := by
  rw [stampOf_tx]
  refine onGrid_add (onGrid_max hf hv) ?_
  rw [hg.2.2]
  exact onGrid_div htx k hk hdiv hg.1 hg.2.1

/-- … for the weight of a configured class -/
theorem onGrid_stamp_cls (hc : CfgOK F cfg)
    (hg : 0 < d1 ∧ 0 < L ∧ scale = d1 * L ∧ ∀ k : Nat, 1 ≤ k → k ≤ wTotal F cfg → k ∣ L)
    {f v : ℚ} (hf : OnGrid scale f) (hv : OnGrid scale v) (size' : Int → Nat) (id : Int)
    (htx : OnGrid d1 (txTime size' cfg.rate id)) {c : Nat} (hcF : c < F) :
    OnGrid scale (WFQ.stampOf cfg f v (wOf cfg c) (size' id)) := by
  obtain ⟨k, e1, e2, e3⟩ := wOf_le_total hc hcF
  rw [e1]
  exact onGrid_stamp ⟨hg.1, hg.2.1, hg.2.2.1⟩ hf hv size' id htx k e2 (hg.2.2.2 k e2 e3)

end WFQK
