import Mathlib.Tactic.Ring
import OnlVerif.Lemmas.StampTrans
/-!
# Generic invariants of the StampServer: loop shape, conservation, counters, per-flow order

They hold for every scheduler record `d : Sched ℚ σ`.
-/

namespace Stamp
variable {σ : Type}

/-- packets the loop holds outside the store and that have not left yet -/
def inHand (s : StState ℚ σ) : List SPkt :=
  (match s.handed with | some it => [it.pkt] | none => []) ++
  (match s.spawned with | some p => [p] | none => []) ++
  (match s.tx with | some (p, _) => [p] | none => [])

/-- packets waiting in the store, in order of arrival -/
def waiting (s : StState ℚ σ) : List SPkt := s.items.map (·.pkt)

/-- packets waiting or in transmission (what `queue_count` counts) -/
def held (s : StState ℚ σ) : List SPkt := inHand s ++ waiting s

/-- the packet whose transmission has ended but whose end the loop has not yet processed -/
def finL (s : StState ℚ σ) : List SPkt := match s.fin with | some p => [p] | none => []

/-- the loop is in exactly one place, and `current_packet` is the packet in transmission -/
def Shape (s : StState ℚ σ) : Prop :=
  s.currentPacket = s.tx.map Prod.fst ∧
  ((s.started = false ∧ s.getPending = false ∧ s.handed = none ∧ s.spawned = none ∧ s.tx = none ∧ s.fin = none) ∨
   (s.started = true ∧ s.getPending = true ∧ s.handed = none ∧ s.spawned = none ∧ s.tx = none ∧ s.fin = none) ∨
   (s.started = true ∧ s.getPending = false ∧ s.handed.isSome ∧ s.spawned = none ∧ s.tx = none ∧ s.fin = none) ∨
   (s.started = true ∧ s.getPending = false ∧ s.handed = none ∧ s.spawned.isSome ∧ s.tx = none ∧ s.fin = none) ∨
   (s.started = true ∧ s.getPending = false ∧ s.handed = none ∧ s.spawned = none ∧ s.tx.isSome ∧ s.fin = none) ∨
   (s.started = true ∧ s.getPending = false ∧ s.handed = none ∧ s.spawned = none ∧ s.tx = none ∧ s.fin.isSome))

theorem Shape.of_not_started {s : StState ℚ σ} (h : Shape s) (h1 : s.started = false) :
    s.getPending = false ∧ s.handed = none ∧ s.spawned = none ∧ s.tx = none ∧ s.fin = none := by
  rcases h with ⟨_, h | h | h | h | h | h⟩ <;> simp_all

theorem Shape.of_getPending {s : StState ℚ σ} (h : Shape s) (h1 : s.getPending = true) :
    s.started = true ∧ s.handed = none ∧ s.spawned = none ∧ s.tx = none ∧ s.fin = none := by
  rcases h with ⟨_, h | h | h | h | h | h⟩ <;> simp_all

theorem Shape.of_handed {s : StState ℚ σ} {it : Item ℚ} (h : Shape s) (h1 : s.handed = some it) :
    s.started = true ∧ s.getPending = false ∧ s.spawned = none ∧ s.tx = none ∧ s.fin = none := by
  rcases h with ⟨_, h | h | h | h | h | h⟩ <;> simp_all

theorem Shape.of_spawned {s : StState ℚ σ} {p : SPkt} (h : Shape s) (h1 : s.spawned = some p) :
    s.started = true ∧ s.getPending = false ∧ s.handed = none ∧ s.tx = none ∧ s.fin = none := by
  rcases h with ⟨_, h | h | h | h | h | h⟩ <;> simp_all

theorem Shape.of_tx {s : StState ℚ σ} {x : SPkt × ℚ} (h : Shape s) (h1 : s.tx = some x) :
    s.started = true ∧ s.getPending = false ∧ s.handed = none ∧ s.spawned = none ∧ s.fin = none := by
  rcases h with ⟨_, h | h | h | h | h | h⟩ <;> simp_all

theorem Shape.of_fin {s : StState ℚ σ} {p : SPkt} (h : Shape s) (h1 : s.fin = some p) :
    s.started = true ∧ s.getPending = false ∧ s.handed = none ∧ s.spawned = none ∧ s.tx = none := by
  rcases h with ⟨_, h | h | h | h | h | h⟩ <;> simp_all

/-- a started loop that holds nothing is blocked in `get` -/
theorem Shape.idle_waits {s : StState ℚ σ} (h : Shape s) (h0 : s.started = true) (h1 : s.handed = none)
    (h2 : s.spawned = none) (h3 : s.tx = none) (h4 : s.fin = none) : s.getPending = true := by
  rcases h with ⟨_, h | h | h | h | h | h⟩ <;> simp_all

theorem init_shape (sch : σ) (t0 : ℚ) : Shape (init sch t0) := by simp [Shape, init]

/-- **The loop shape is invariant**: at most one packet is outside the store, in exactly one phase. -/
theorem step_shape {d : Sched ℚ σ} {s s' : StState ℚ σ} {a : StAct ℚ} {o : StOut}
    (hs : Shape s) (ht : Trans d s a s' o) : Shape s' := by
  cases ht with
  | initBlock h1 h2 =>
    have := hs.of_not_started h1
    simp [Shape, this, hs.1]
  | initServe id it rest h1 h2 =>
    have := hs.of_not_started h1
    simp [Shape, this, hs.1]
  | put p sch stamp h1 => exact hs
  | handoff id it rest h1 h2 =>
    have := hs.of_getPending h1
    simp [Shape, this, hs.1]
  | resume it h1 =>
    have := hs.of_handed h1
    simp [Shape, this, hs.1]
  | sendInit p h1 h2 h3 =>
    have := hs.of_spawned h1
    simp [Shape, this]
  | sendFire p due h1 h2 =>
    have := hs.of_tx h1
    simp [Shape, release, this]
  | doneBlock p sch h1 h2 h3 =>
    have := hs.of_fin h1
    simp [Shape, this, hs.1]
  | doneServe p sch id it rest h1 h2 h3 =>
    have := hs.of_fin h1
    simp [Shape, this, hs.1]
  | tick t h1 => exact hs
  | sample b => exact hs

theorem run_shape {d : Sched ℚ σ} {s0 s : StState ℚ σ} {ins outs : List SPkt} (h0 : Shape s0)
    (h : Run d s0 s ins outs) : Shape s := by
  induction h with
  | nil => exact h0
  | snoc _ ht ih => exact step_shape ih ht

/-! ### weighted sums over packet lists -/

def msum (g : SPkt → Int) (l : List SPkt) : Int := (l.map g).sum

@[simp] theorem msum_nil (g : SPkt → Int) : msum g [] = 0 := rfl
@[simp] theorem msum_cons (g : SPkt → Int) (p : SPkt) (l : List SPkt) : msum g (p :: l) = g p + msum g l := by
  simp [msum]
@[simp] theorem msum_append (g : SPkt → Int) (l1 l2 : List SPkt) : msum g (l1 ++ l2) = msum g l1 + msum g l2 := by
  simp [msum]

/-- 1 for packets of flow `f` -/
def ind (f : Nat) (p : SPkt) : Int := if p.flow = f then 1 else 0
/-- the size of packets of flow `f` -/
def szind (f : Nat) (p : SPkt) : Int := if p.flow = f then (p.size : Int) else 0

theorem held_picked {s : StState ℚ σ} {id : Nat} {it : Item ℚ} {rest : List (Item ℚ)} (h : Picked s.items id it rest) :
    ∃ pre post : List (Item ℚ), s.items = pre ++ it :: post ∧ rest = pre ++ post := by
  obtain ⟨pre, post, h1, h2, _, _⟩ := h
  exact ⟨pre, post, h1, h2⟩

/-- closes the arithmetic side goals of the counter invariant -/
macro "close_cnt" : tactic =>
  `(tactic| first | rfl | (simp [ind, szind, eq_comm]; done) | (simp [ind, szind, eq_comm]; ring1) |
    (simp [ind, szind, eq_comm]; split <;> ring1))

/-- conservation + counters -/
structure GInv (s : StState ℚ σ) : Prop where
  shape : Shape s
  cnt : ∀ f, getD s.queueCount f = msum (ind f) (held s)
  byt : ∀ f, getD s.queueBytes f = msum (szind f) (held s)

theorem init_ginv (sch : σ) (t0 : ℚ) : GInv (init sch t0) := by
  refine ⟨init_shape sch t0, ?_, ?_⟩ <;> intro f <;> simp [init, getD, held, inHand, waiting]

/-- **One step conserves packets** (as a permutation: what was held plus what entered is what left plus what is
held now) and keeps the counters equal to the packets of each flow waiting or in transmission. -/
theorem step_ginv {d : Sched ℚ σ} {s s' : StState ℚ σ} {a : StAct ℚ} {o : StOut}
    (hi : GInv s) (ht : Trans d s a s' o) :
    GInv s' ∧ (held s ++ entered a o).Perm (left o ++ held s') := by
  have hsh' := step_shape hi.shape ht
  have hs := hi.shape
  cases ht with
  | initBlock h1 h2 =>
    refine ⟨⟨hsh', fun f => ?_, fun f => ?_⟩, ?_⟩
    · simpa [held, inHand, waiting] using hi.cnt f
    · simpa [held, inHand, waiting] using hi.byt f
    · simp [held, inHand, waiting, entered, left]
  | initServe id it rest h1 h2 =>
    have hx := hs.of_not_started h1
    obtain ⟨pre, post, hl, rfl⟩ := held_picked h2
    refine ⟨⟨hsh', fun f => ?_, fun f => ?_⟩, ?_⟩
    · have := hi.cnt f
      simp only [held, inHand, waiting, hx, hl] at this ⊢
      rw [this]; close_cnt
    · have := hi.byt f
      simp only [held, inHand, waiting, hx, hl] at this ⊢
      rw [this]; close_cnt
    · simp only [held, inHand, waiting, hx, hl, entered, left]
      simpa using List.perm_middle
  | put p sch stamp h1 =>
    refine ⟨⟨hsh', fun f => ?_, fun f => ?_⟩, ?_⟩
    · have := hi.cnt f
      simp only [held, inHand, waiting, enqueue, getD_bump] at this ⊢
      rw [this]; close_cnt
    · have := hi.byt f
      simp only [held, inHand, waiting, enqueue, getD_bump] at this ⊢
      rw [this]; close_cnt
    · simp [held, inHand, waiting, enqueue, entered, left]
  | handoff id it rest h1 h2 =>
    have hx := hs.of_getPending h1
    obtain ⟨pre, post, hl, rfl⟩ := held_picked h2
    refine ⟨⟨hsh', fun f => ?_, fun f => ?_⟩, ?_⟩
    · have := hi.cnt f
      simp only [held, inHand, waiting, hx, hl] at this ⊢
      rw [this]; close_cnt
    · have := hi.byt f
      simp only [held, inHand, waiting, hx, hl] at this ⊢
      rw [this]; close_cnt
    · simp only [held, inHand, waiting, hx, hl, entered, left]
      simpa using List.perm_middle
  | resume it h1 =>
    have hx := hs.of_handed h1
    refine ⟨⟨hsh', fun f => ?_, fun f => ?_⟩, ?_⟩
    · have := hi.cnt f
      simp only [held, inHand, waiting, hx, h1] at this ⊢
      rw [this]; close_cnt
    · have := hi.byt f
      simp only [held, inHand, waiting, hx, h1] at this ⊢
      rw [this]; close_cnt
    · simp [held, inHand, waiting, hx, h1, entered, left]
  | sendInit p h1 h2 h3 =>
    have hx := hs.of_spawned h1
    refine ⟨⟨hsh', fun f => ?_, fun f => ?_⟩, ?_⟩
    · have := hi.cnt f
      simp only [held, inHand, waiting, hx, h1] at this ⊢
      rw [this]; close_cnt
    · have := hi.byt f
      simp only [held, inHand, waiting, hx, h1] at this ⊢
      rw [this]; close_cnt
    · simp [held, inHand, waiting, hx, h1, entered, left]
  | sendFire p due h1 h2 =>
    have hx := hs.of_tx h1
    refine ⟨⟨hsh', fun f => ?_, fun f => ?_⟩, ?_⟩
    · have := hi.cnt f
      simp only [held, inHand, waiting, hx, h1, release, getD_bump] at this ⊢
      rw [this]; close_cnt
    · have := hi.byt f
      simp only [held, inHand, waiting, hx, h1, release, getD_bump] at this ⊢
      rw [this]; close_cnt
    · simp [held, inHand, waiting, hx, h1, release, entered, left]
  | doneBlock p sch h1 h2 h3 =>
    have hx := hs.of_fin h1
    refine ⟨⟨hsh', fun f => ?_, fun f => ?_⟩, ?_⟩
    · simpa [held, inHand, waiting, hx] using hi.cnt f
    · simpa [held, inHand, waiting, hx] using hi.byt f
    · simp [held, inHand, waiting, hx, entered, left]
  | doneServe p sch id it rest h1 h2 h3 =>
    have hx := hs.of_fin h1
    obtain ⟨pre, post, hl, rfl⟩ := held_picked h3
    refine ⟨⟨hsh', fun f => ?_, fun f => ?_⟩, ?_⟩
    · have := hi.cnt f
      simp only [held, inHand, waiting, hx, hl] at this ⊢
      rw [this]; close_cnt
    · have := hi.byt f
      simp only [held, inHand, waiting, hx, hl] at this ⊢
      rw [this]; close_cnt
    · simp only [held, inHand, waiting, hx, hl, entered, left]
      simpa using List.perm_middle
  | tick t h1 =>
    exact ⟨⟨hsh', hi.cnt, hi.byt⟩, by simp [held, inHand, waiting, entered, left]⟩
  | sample b =>
    exact ⟨hi, by simp [entered, left]⟩

/-- conservation over whole runs -/
theorem run_ginv {d : Sched ℚ σ} {s0 s : StState ℚ σ} {ins outs : List SPkt} (h0 : GInv s0)
    (h : Run d s0 s ins outs) : GInv s ∧ (held s0 ++ ins).Perm (outs ++ held s) := by
  induction h with
  | nil => exact ⟨h0, by simp⟩
  | @snoc s1 s2 i1 o1 a o _ ht ih =>
    obtain ⟨hg, hp⟩ := step_ginv ih.1 ht
    refine ⟨hg, ?_⟩
    calc (held s0 ++ (i1 ++ entered a o)).Perm ((held s0 ++ i1) ++ entered a o) := by rw [List.append_assoc]
      _ |>.Perm ((o1 ++ held s1) ++ entered a o) := List.Perm.append_right _ ih.2
      _ |>.Perm (o1 ++ (held s1 ++ entered a o)) := by rw [List.append_assoc]
      _ |>.Perm (o1 ++ (left o ++ held s2)) := List.Perm.append_left _ hp
      _ |>.Perm ((o1 ++ left o) ++ held s2) := by rw [List.append_assoc]

/-- **Drain / never idle with a backlog**: when the clock may advance and nothing is in transmission, the
scheduler holds nothing at all (and is blocked in `get`). -/
theorem tick_idle_empty {s : StState ℚ σ} {t : ℚ} (hs : Shape s) (ht : TickOk s t) (htx : s.tx = none) :
    s.items = [] ∧ held s = [] ∧ s.fin = none ∧ s.getPending = true := by
  obtain ⟨_, h1, h2, h3, h4, h5, _⟩ := ht
  have hg := hs.idle_waits h1 h2 h3 htx h4
  have hi : s.items = [] := by
    by_contra hc
    exact h5 ⟨hg, hc⟩
  exact ⟨hi, by simp [held, inHand, waiting, h2, h3, htx, hi], h4, hg⟩

/-! ### per-flow order -/

/-- among the waiting items, those of one flow carry strictly increasing stamps (in order of arrival) -/
def FlowSorted (l : List (Item ℚ)) : Prop := l.Pairwise fun a b => a.pkt.flow = b.pkt.flow → a.stamp < b.stamp

def ofFlow (f : Nat) (l : List SPkt) : List SPkt := l.filter fun p => p.flow = f

@[simp] theorem ofFlow_nil (f : Nat) : ofFlow f [] = [] := rfl
theorem ofFlow_cons (f : Nat) (p : SPkt) (l : List SPkt) : ofFlow f (p :: l) = ofFlow f [p] ++ ofFlow f l := by
  simp only [ofFlow, List.filter_cons, List.filter_nil]
  split <;> simp
@[simp] theorem ofFlow_append (f : Nat) (l1 l2 : List SPkt) : ofFlow f (l1 ++ l2) = ofFlow f l1 ++ ofFlow f l2 := by
  simp [ofFlow]

/-- with per-flow increasing stamps, the item of minimal key is the *oldest* waiting packet of its flow -/
theorem picked_ofFlow {l : List (Item ℚ)} {id : Nat} {it : Item ℚ} {rest : List (Item ℚ)} (hs : FlowSorted l)
    (hp : Picked l id it rest) (f : Nat) :
    ofFlow f (l.map (·.pkt)) = ofFlow f [it.pkt] ++ ofFlow f (rest.map (·.pkt)) := by
  obtain ⟨pre, post, rfl, rfl, _, hm⟩ := hp
  by_cases hf : it.pkt.flow = f
  · have hpre : ofFlow f (pre.map (·.pkt)) = [] := by
      simp only [ofFlow, List.filter_eq_nil_iff, List.mem_map, forall_exists_index, and_imp, forall_apply_eq_imp_iff₂,
        decide_eq_true_eq]
      intro x hx hxf
      have h1 : x.stamp < it.stamp := by
        have := (List.pairwise_append.mp hs).2.2 x hx it (by simp)
        exact this (by rw [hxf, hf])
      have h2 : it.stamp ≤ x.stamp := hm.stamp_le (by simp [hx])
      exact absurd h1 (not_lt.mpr h2)
    simp only [List.map_append, List.map_cons, ofFlow_append, hpre, List.nil_append]
    simp [ofFlow, hf]
  · simp [ofFlow, hf]

theorem flowSorted_picked {l : List (Item ℚ)} {id : Nat} {it : Item ℚ} {rest : List (Item ℚ)} (hs : FlowSorted l)
    (hp : Picked l id it rest) : FlowSorted rest := by
  obtain ⟨pre, post, rfl, rfl, _, _⟩ := hp
  exact hs.sublist (by simp)

/-- one step keeps the packets of every flow in order (given the per-flow stamp order of the store) -/
theorem step_fifo {d : Sched ℚ σ} {s s' : StState ℚ σ} {a : StAct ℚ} {o : StOut} (hs : Shape s)
    (hso : FlowSorted s.items) (ht : Trans d s a s' o) (f : Nat) :
    ofFlow f (held s) ++ ofFlow f (entered a o) = ofFlow f (left o) ++ ofFlow f (held s') := by
  cases ht with
  | initBlock h1 h2 => simp [held, inHand, waiting, entered, left]
  | initServe id it rest h1 h2 =>
    have hx := hs.of_not_started h1
    simp only [held, inHand, waiting, hx, entered, left, List.nil_append, List.append_nil, ofFlow_nil, ofFlow_append]
    exact picked_ofFlow hso h2 f
  | put p sch stamp h1 => simp [held, inHand, waiting, enqueue, entered, left]
  | handoff id it rest h1 h2 =>
    have hx := hs.of_getPending h1
    simp only [held, inHand, waiting, hx, entered, left, List.nil_append, List.append_nil, ofFlow_nil, ofFlow_append]
    exact picked_ofFlow hso h2 f
  | resume it h1 =>
    have hx := hs.of_handed h1
    simp [held, inHand, waiting, hx, h1, entered, left]
  | sendInit p h1 h2 h3 =>
    have hx := hs.of_spawned h1
    simp [held, inHand, waiting, hx, h1, entered, left]
  | sendFire p due h1 h2 =>
    have hx := hs.of_tx h1
    simp [held, inHand, waiting, hx, h1, release, entered, left]
    exact ofFlow_cons f p _
  | doneBlock p sch h1 h2 h3 =>
    have hx := hs.of_fin h1
    simp [held, inHand, waiting, hx, entered, left]
  | doneServe p sch id it rest h1 h2 h3 =>
    have hx := hs.of_fin h1
    simp only [held, inHand, waiting, hx, entered, left, List.nil_append, List.append_nil, ofFlow_nil, ofFlow_append]
    exact picked_ofFlow hso h3 f
  | tick t h1 => simp [held, inHand, waiting, entered, left]
  | sample b => simp [entered, left]

/-- **Per-flow FIFO over whole runs**: if along the run the store keeps per-flow increasing stamps, then for
every flow the accepted packets are, in order, the departed packets followed by the packets still held. -/
theorem run_fifo {d : Sched ℚ σ} {s0 s : StState ℚ σ} {ins outs : List SPkt} (h0 : Shape s0)
    (hso : ∀ s1 i1 o1, Run d s0 s1 i1 o1 → FlowSorted s1.items) (h : Run d s0 s ins outs) (f : Nat) :
    ofFlow f (held s0) ++ ofFlow f ins = ofFlow f outs ++ ofFlow f (held s) := by
  induction h with
  | nil => simp
  | @snoc s1 s2 i1 o1 a o hr ht ih =>
    have h1 := step_fifo (run_shape h0 hr) (hso _ _ _ hr) ht f
    simp only [ofFlow_append]
    calc ofFlow f (held s0) ++ (ofFlow f i1 ++ ofFlow f (entered a o))
        = (ofFlow f (held s0) ++ ofFlow f i1) ++ ofFlow f (entered a o) := by rw [List.append_assoc]
      _ = (ofFlow f o1 ++ ofFlow f (held s1)) ++ ofFlow f (entered a o) := by rw [ih]
      _ = ofFlow f o1 ++ (ofFlow f (held s1) ++ ofFlow f (entered a o)) := by rw [List.append_assoc]
      _ = ofFlow f o1 ++ (ofFlow f (left o) ++ ofFlow f (held s2)) := by rw [h1]
      _ = ofFlow f o1 ++ ofFlow f (left o) ++ ofFlow f (held s2) := by rw [List.append_assoc]

end Stamp

namespace Stamp
variable {σ : Type}

/-! ### packets the scheduler still accounts for (incl. the one whose end the loop has not processed) -/

/-- waiting, in transmission, or transmitted but not yet booked out by the loop -/
def held' (s : StState ℚ σ) : List SPkt := held s ++ finL s

/-- the packet the loop books out in a `sendDone` burst -/
def booked (a : StAct ℚ) (s : StState ℚ σ) : List SPkt :=
  match a with
  | .sendDone _ => finL s
  | _ => []

theorem msum_perm (g : SPkt → Int) {l1 l2 : List SPkt} (h : l1.Perm l2) : msum g l1 = msum g l2 := by
  induction h with
  | nil => rfl
  | cons x _ ih => simp [ih]
  | swap x y l => simp; ring
  | trans _ _ ih1 ih2 => rw [ih1, ih2]

theorem step_held' {d : Sched ℚ σ} {s s' : StState ℚ σ} {a : StAct ℚ} {o : StOut} (hi : GInv s)
    (ht : Trans d s a s' o) (g : SPkt → Int) :
    msum g (held' s') = msum g (held' s) + msum g (entered a o) - msum g (booked a s) := by
  have hp := msum_perm g (step_ginv hi ht).2
  have hs := hi.shape
  simp only [msum_append] at hp
  cases ht with
  | initBlock h1 h2 => simp only [held', finL, booked, msum_append, entered, left, msum_nil] at hp ⊢; linarith
  | initServe id it rest h1 h2 => simp only [held', finL, booked, msum_append, entered, left, msum_nil] at hp ⊢; linarith
  | put p sch stamp h1 =>
    simp only [held', finL, booked, msum_append, entered, left, msum_nil, enqueue] at hp ⊢; linarith
  | handoff id it rest h1 h2 => simp only [held', finL, booked, msum_append, entered, left, msum_nil] at hp ⊢; linarith
  | resume it h1 => simp only [held', finL, booked, msum_append, entered, left, msum_nil] at hp ⊢; linarith
  | sendInit p h1 h2 h3 => simp only [held', finL, booked, msum_append, entered, left, msum_nil] at hp ⊢; linarith
  | sendFire p due h1 h2 =>
    have hx := hs.of_tx h1
    simp only [held', finL, booked, msum_append, entered, left, msum_nil, release, hx, msum_cons] at hp ⊢; linarith
  | doneBlock p sch h1 h2 h3 =>
    simp only [held', finL, booked, msum_append, entered, left, msum_nil, h1, msum_cons] at hp ⊢; linarith
  | doneServe p sch id it rest h1 h2 h3 =>
    simp only [held', finL, booked, msum_append, entered, left, msum_nil, h1, msum_cons] at hp ⊢; linarith
  | tick t h1 => simp only [held', finL, booked, msum_append, entered, left, msum_nil] at hp ⊢; linarith
  | sample b => simp only [held', finL, booked, msum_append, entered, left, msum_nil] at hp ⊢; linarith

theorem step_held'_mem {d : Sched ℚ σ} {s s' : StState ℚ σ} {a : StAct ℚ} {o : StOut} (hi : GInv s)
    (ht : Trans d s a s' o) {p : SPkt} (hp : p ∈ held' s') : p ∈ held' s ∨ p ∈ entered a o := by
  have hperm := (step_ginv hi ht).2
  have hs := hi.shape
  simp only [held', List.mem_append] at hp ⊢
  rcases hp with hp | hp
  · have : p ∈ left o ++ held s' := List.mem_append_right _ hp
    have := (hperm.mem_iff).mpr this
    rcases List.mem_append.mp this with h | h
    · exact Or.inl (Or.inl h)
    · exact Or.inr h
  · cases ht with
    | sendFire q due h1 h2 =>
      simp only [finL, release, List.mem_singleton] at hp
      subst hp
      exact Or.inl (Or.inl (by simp [held, inHand, h1]))
    | doneBlock q sch h1 h2 h3 => simp [finL] at hp
    | doneServe q sch id it rest h1 h2 h3 => simp [finL] at hp
    | put q sch stamp h1 => exact Or.inl (Or.inr (by simpa [finL, enqueue] using hp))
    | _ => exact Or.inl (Or.inr (by simpa [finL] using hp))

/-- `total_packets` (the sum of the per-flow counters) is the number of packets waiting or in transmission -/
def Tot (s : StState ℚ σ) : Prop := qcTotal s.queueCount = ((held s).length : Int)

theorem init_tot (sch : σ) (t0 : ℚ) : Tot (init sch t0) := by
  simp [Tot, init, qcTotal, held, inHand, waiting]

theorem step_tot {d : Sched ℚ σ} {s s' : StState ℚ σ} {a : StAct ℚ} {o : StOut} (hi : GInv s)
    (ht : Trans d s a s' o) (h : Tot s) : Tot s' := by
  have hl := (step_ginv hi ht).2.length_eq
  simp only [List.length_append] at hl
  unfold Tot at h ⊢
  cases ht with
  | put p sch stamp h1 =>
    simp only [enqueue, qcTotal_bump, entered, left, List.length_cons, List.length_nil] at hl ⊢
    omega
  | sendFire p due h1 h2 =>
    simp only [release, qcTotal_bump, entered, left, List.length_cons, List.length_nil] at hl ⊢
    omega
  | initBlock h1 h2 => simp only [entered, left, List.length_nil] at hl ⊢; omega
  | initServe id it rest h1 h2 => simp only [entered, left, List.length_nil] at hl ⊢; omega
  | handoff id it rest h1 h2 => simp only [entered, left, List.length_nil] at hl ⊢; omega
  | resume it h1 => simp only [entered, left, List.length_nil] at hl ⊢; omega
  | sendInit p h1 h2 h3 => simp only [entered, left, List.length_nil] at hl ⊢; omega
  | doneBlock p sch h1 h2 h3 => simp only [entered, left, List.length_nil] at hl ⊢; omega
  | doneServe p sch id it rest h1 h2 h3 => simp only [entered, left, List.length_nil] at hl ⊢; omega
  | tick t h1 => simp only [entered, left, List.length_nil] at hl ⊢; omega
  | sample b => simp only [entered, left, List.length_nil] at hl ⊢; omega

/-- `total_packets == 0` iff nothing is waiting or in transmission -/
theorem Tot.zero_iff {s : StState ℚ σ} (h : Tot s) : qcTotal s.queueCount = 0 ↔ held s = [] := by
  unfold Tot at h
  rw [h]
  constructor
  · intro h0
    exact List.eq_nil_of_length_eq_zero (by exact_mod_cast h0)
  · intro h0; simp [h0]

theorem run_ginv' {d : Sched ℚ σ} {s0 s : StState ℚ σ} {ins outs : List SPkt} (h0 : GInv s0)
    (h : Run d s0 s ins outs) : GInv s := (run_ginv h0 h).1

/-! ### failures of the generic bursts are rejections, never exceptions -/

theorem pick_no_raise (l : List (Item ℚ)) (id : Nat) (e : String) : pick l id ≠ .error (.raise e) := by
  unfold pick
  split
  · simp
  · split <;> simp

theorem issueGet_no_raise {σ : Type} (s : StState ℚ σ) (ch : Option Nat) (e : String) :
    issueGet s ch ≠ .error (.raise e) := by
  unfold issueGet
  split
  · simp
  · simp
  · simp
  · rename_i id _
    split
    · rename_i e' he
      intro hc
      simp only [Except.error.injEq] at hc
      subst hc
      exact pick_no_raise _ _ _ he
    · simp

/-- **No exception from the skeleton**: with a positive rate, a `put` whose stamp computation succeeds and a
bookkeeping burst that succeeds, every failure of `step` is a `reject` (a wrong label), never a `raise`. -/
theorem step_no_raise_of {d : Sched ℚ σ} (hrate : 0 < d.rate) (s : StState ℚ σ) (a : StAct ℚ)
    (hput : ∀ p, a = .put p → ∃ r, d.onPut s.sch s.now (qcTotal s.queueCount) p = .ok r)
    (hdone : ∀ p, s.fin = some p → ∃ r, d.onDone s.sch s.now p = .ok r) (e : String) :
    step d s a ≠ .error (.raise e) := by
  cases a with
  | init ch =>
    simp only [step, doInit]
    split
    · simp
    · split
      · rename_i e' he
        intro hc
        simp only [Except.error.injEq] at hc
        subst hc
        exact issueGet_no_raise _ _ _ he
      · simp
  | put p =>
    obtain ⟨r, hr⟩ := hput p rfl
    simp only [step, doPut, hr]
    simp
  | handoff id =>
    simp only [step, doHandoff]
    split
    · split
      · rename_i e' he
        intro hc
        simp only [Except.error.injEq] at hc
        subst hc
        exact pick_no_raise _ _ _ he
      · simp
    · simp
  | resume =>
    simp only [step, doResume]
    split <;> simp
  | sendInit =>
    simp only [step, doSendInit]
    split
    · simp
    · rename_i p _
      have h1 : ¬ Num.eqb d.rate (Num.zero : ℚ) = true := by
        rw [zero_eq_q, Num.eqb_iff]; exact ne_of_gt hrate
      rw [if_neg h1]
      have h2 : ¬ txTime d p < (Num.zero : ℚ) := by
        rw [zero_eq_q, not_lt]
        show 0 ≤ ((p.size * 8 : ℕ) : ℚ) / d.rate
        exact div_nonneg (by exact_mod_cast Nat.zero_le _) (le_of_lt hrate)
      rw [if_neg h2]
      simp
  | sendFire =>
    simp only [step, doSendFire]
    split
    · simp
    · split
      · simp
      · split <;> simp
  | sendDone ch =>
    simp only [step, doSendDone]
    split
    · simp
    · rename_i p hfin
      obtain ⟨r, hr⟩ := hdone p hfin
      rw [hr]
      simp only
      split
      · rename_i e' he
        intro hc
        simp only [Except.error.injEq] at hc
        subst hc
        exact issueGet_no_raise _ _ _ he
      · simp
  | tick t =>
    simp only [step, doTick]
    split <;> simp
  | sample b => simp [step]

end Stamp
