import OnlVerif.Lemmas.SplitWFCall
/-!
# Well-scopedness is kept by `_resume`, interrupt delivery, the callback loop, a step, whole runs (C03, stage 3)

Under the run-level domain hypothesis `ScopedStep` / `ScopedRun` ("every id the program names exists").  Also: the empty
environment is well-scoped, and outside spawns and the set-ups of `run(until=…)` keep well-scopedness.
-/

variable {σ : Type}

namespace SplitWF
variable {I : IdSt σ} {s : KState ℚ σ}

theorem st?_eq_state? (r : StepResult ℚ σ) : r.st? = r.state? := by cases r <;> rfl

theorem proc?_mem (s : KState ℚ σ) (p : EvId) (pr : ProcRec σ) (h : s.proc? p = some pr) : ∃ x ∈ s.procs, x.2 = pr := by
  unfold KState.proc? at h
  cases hf : s.procs.find? (·.1 == p) with
  | none => rw [hf] at h; cases h
  | some x =>
    rw [hf] at h
    simp only [Option.map_some, Option.some.injEq] at h
    exact ⟨x, List.mem_of_find?_eq_some hf, h⟩

theorem SB.proc_st {n : Nat} (h : SB I n s) (p : EvId) (pr : ProcRec σ) (hp : s.proc? p = some pr) : I.below n pr.st := by
  obtain ⟨x, hx, rfl⟩ := proc?_mem s p pr hp
  exact (h.procs x hx).2.2

theorem ws_deliverSt (h : WS I s) (p e : EvId) (hp : p < s.events.size) : WS I (deliverSt s p e) := by
  unfold deliverSt
  have ha : SB I s.events.size ({ s with active := some p } : KState ℚ σ) :=
    SB.withActive h _ (fun q hq => by simp only [Option.some.injEq] at hq; subst hq; exact hp)
  split
  · exact WS.of_le (ha.defuse e) (by simp [KState.defuse, KState.setEv])
  · exact ha

theorem resumeArg_below (h : WS I s) (p e : EvId) : resumeBelow s.events.size (resumeArg s p e) := by
  unfold resumeArg
  cases ho : (s.ev e).out with
  | none => trivial
  | some o =>
    have := h.out_below e o ho
    cases o with
    | ok v =>
      simp only
      split
      · trivial
      · exact this
    | fail x => exact this

theorem ws_finishProc (h : WS I s) (p : EvId) (pr : ProcRec σ) (o : Outcome) (hp : p < s.events.size)
    (ho : outBelow s.events.size o) (hst : I.below s.events.size pr.st) : WS I (finishProc s p pr o) := by
  unfold finishProc
  simp only
  refine WS.of_le (SB.withActive (((SB.trigger h p o hp ho).emit (Obs.ended p o s.now) ⟨hp, ho⟩).setProc p
    { pr with target := none } hp (fun t ht => by simp at ht) hst) none (fun q hq => by cases hq)) ?_
  simp [KState.trigger, KState.schedule, KState.setOut, KState.setEv, KState.emit, KState.setProc]

theorem ws_register (h : WS I s) (p e' : EvId) (s' : KState ℚ σ) (hp : p < s.events.size) (hr : register s p e' = some s') :
    WS I s' := by
  unfold register at hr
  split at hr
  · cases hr
  · cases hr
    exact WS.of_le (SB.withActive (SB.addCb h e' (Cb.resume p) hp) none (fun q hq => by cases hq)) (by simp [KState.addCb, KState.setEv])

/-- the domain hypothesis as the parameter of the mirror predicates -/
abbrev scopedP (I : IdSt σ) (body : σ → Resume → Burst ℚ σ) : EvId → σ → Resume → KState ℚ σ → Prop :=
  fun p st r s => ScopedBurst I p (body st r) s

/-- **`Process._resume`** -/
theorem ws_resume (body : σ → Resume → Burst ℚ σ) (p : EvId) : ∀ (fuel : Nat) (e : EvId) (s : KState ℚ σ), WS I s →
    p < s.events.size → ResumeAll (scopedP I body) body p fuel e s → WS I (resume body p fuel e s)
  | 0, _, _, h, _, _ => h
  | fuel + 1, e, s, h, hp, hR => by
    unfold resume
    unfold ResumeAll at hR
    cases hpr : s.proc? p with
    | none => exact h
    | some pr =>
      rw [hpr] at hR
      simp only [deliver] at hR ⊢
      obtain ⟨hb, hrest⟩ := hR
      have hd : WS I (deliverSt s p e) := ws_deliverSt h p e hp
      have hgd : s.events.size ≤ (deliverSt s p e).events.size := (Grow.krel.deliver s p e).2
      have hp1 : p < (deliverSt s p e).events.size := Nat.lt_of_lt_of_le hp hgd
      have hstart : WS I ((deliverSt s p e).emit (.resumed p (resumeArg s p e) (deliverSt s p e).now)) :=
        SB.emit hd _ ⟨hp1, (resumeArg_below h p e).mono hgd⟩
      have hbt := ws_runBurst p (body pr.st (resumeArg s p e)) _ hstart hp1 hb
      have hgb : (deliverSt s p e).events.size ≤ (runBurst p (body pr.st (resumeArg s p e))
          ((deliverSt s p e).emit (.resumed p (resumeArg s p e) (deliverSt s p e).now))).1.events.size :=
        (Grow.krel.runBurst p _ ((deliverSt s p e).emit (.resumed p (resumeArg s p e) (deliverSt s p e).now))).2
      generalize runBurst p (body pr.st (resumeArg s p e))
          ((deliverSt s p e).emit (.resumed p (resumeArg s p e) (deliverSt s p e).now)) = bt at hbt hrest hgb ⊢
      obtain ⟨s1, tm⟩ := bt
      have hp2 : p < s1.events.size := Nat.lt_of_lt_of_le hp1 hgb
      have hst : I.below s1.events.size pr.st := I.mono (SB.proc_st h p pr hpr) (Nat.le_trans hgd hgb)
      cases tm with
      | returned v => exact ws_finishProc hbt.1 p pr _ hp2 hbt.2 hst
      | raised x => exact ws_finishProc hbt.1 p pr _ hp2 hbt.2 hst
      | yielded e' st' =>
        simp only at hrest ⊢
        have h2 : WS I (s1.setProc p { st := st', target := some e' }) :=
          SB.setProc hbt.1 p _ hp2 (fun t ht => by simp only [Option.some.injEq] at ht; subst ht; exact hbt.2.1) hbt.2.2
        cases hreg : register (s1.setProc p { st := st', target := some e' }) p e' with
        | some s3 => exact ws_register h2 p e' s3 hp2 hreg
        | none =>
          rw [hreg] at hrest
          exact ws_resume body p fuel e' _ h2 hp2 hrest

/-- **`Interruption._interrupt`** -/
theorem ws_deliverInterrupt (body : σ → Resume → Burst ℚ σ) (fuel : Nat) (iv p : EvId) (h : WS I s) (hp : p < s.events.size)
    (hA : IntrAll (scopedP I body) body fuel iv p s) : WS I (deliverInterrupt body fuel iv p s) := by
  unfold deliverInterrupt
  unfold IntrAll at hA
  split
  · exact h
  · rename_i ht
    rw [if_neg ht] at hA
    cases hpr : s.proc? p with
    | none => exact h
    | some pr =>
      rw [hpr] at hA
      simp only at hA ⊢
      cases htg : pr.target with
      | none =>
        rw [htg] at hA
        exact ws_resume body p fuel iv s h hp hA
      | some t =>
        rw [htg] at hA
        simp only at hA ⊢
        refine ws_resume body p fuel iv _ (WS.of_le (SB.eraseCb h t _) (by simp [KState.eraseCb, KState.setEv])) ?_ hA
        simpa [KState.eraseCb, KState.setEv] using hp

/-- **one callback invocation** -/
theorem ws_runCb (body : σ → Resume → Burst ℚ σ) (fuel : Nat) (e : EvId) (l : LoopSt ℚ σ) (cb : Cb) (h : WS I l.s)
    (he : e < l.s.events.size) (hcb : cbBelow l.s.events.size cb) (hA : CbAll (scopedP I body) body fuel e l.s cb) :
    WS I (runCb body fuel e l cb).s := by
  unfold runCb
  cases cb with
  | resume p => exact ws_resume body p fuel e l.s h hcb hA
  | probe tag =>
    simp only
    refine SB.emit h _ ⟨he, ?_⟩
    cases ho : (l.s.ev e).out with
    | none => trivial
    | some o =>
      have := h.out_below e o ho
      cases o with
      | ok v => exact freezeVal_below l.s _ v this
      | fail x => exact this
  | stop => exact h
  | intr iv =>
    simp only
    simp only [CbAll] at hA
    cases hk : (l.s.ev iv).kind with
    | intr p =>
      rw [hk] at hA
      simp only at hA ⊢
      have hp : p < l.s.events.size := by
        have := (h.events iv).kind
        rw [hk] at this
        exact this
      exact ws_deliverInterrupt body fuel iv p h hp hA
    | _ => exact h
  | check c => exact WS.of_le (sb_condCheck h c e hcb) (Grow.krel.condCheck l.s c e).2
  | build c => exact ws_condBuild h c
  | trigPut r => exact ws_triggerPut h r
  | trigGet r => exact ws_triggerGet h r

/-- **the callback loop of a step** -/
theorem ws_foldCbs (body : σ → Resume → Burst ℚ σ) (fuel : Nat) (e : EvId) : ∀ (cbs : List Cb) (l : LoopSt ℚ σ), WS I l.s →
    e < l.s.events.size → (∀ cb ∈ cbs, cbBelow l.s.events.size cb) → CbsAll (scopedP I body) body fuel e cbs l →
    WS I (cbs.foldl (runCb body fuel e) l).s
  | [], _, h, _, _, _ => h
  | cb :: cbs, l, h, he, hcbs, hA => by
    rw [List.foldl_cons]
    have hg : l.s.events.size ≤ (runCb body fuel e l cb).s.events.size := (Grow.krel.runCb body fuel e l cb).2
    exact ws_foldCbs body fuel e cbs _ (ws_runCb body fuel e l cb h he (hcbs cb List.mem_cons_self) hA.1)
      (Nat.lt_of_lt_of_le he hg) (fun c hc => (hcbs c (List.mem_cons_of_mem _ hc)).mono hg) hA.2

theorem ws_openEvent (h : WS I s) (q : QEntry ℚ) (rest : List (QEntry ℚ)) (hq : popMin s.agenda = some (q, rest)) :
    WS I (openEvent s q rest) := by
  have hsub := popMin_sublist _ _ _ hq
  have h1 : SB I s.events.size (s.setEv q.ev { s.ev q.ev with cbs := none }) :=
    SB.setEv h q.ev _ ⟨(h.events q.ev).kind, fun l hl => (by cases hl), (h.events q.ev).out, (h.events q.ev).req⟩
  refine WS.of_le (n := s.events.size) ⟨h1.events, fun x hx => h.agenda x (hsub.subset hx), h.procs, h.active, h.trace,
    h.shared, h.resources⟩ ?_
  simp [openEvent]

/-- **one kernel step keeps well-scopedness**, however it ends -/
theorem ws_step (body : σ → Resume → Burst ℚ σ) (fuel : Nat) (s s' : KState ℚ σ) (h : WS I s)
    (hS : ScopedStep I body fuel s) (hs : (step body fuel s).state? = some s') : WS I s' := by
  unfold step at hs
  unfold ScopedStep StepAll at hS
  split at hs
  · cases hs
  · rename_i q rest hq
    rw [hq] at hS
    simp only at hS
    have ho := ws_openEvent h q rest hq
    split at hs
    · cases hs; exact ho
    · rename_i cbs hc
      rw [hc] at hS
      simp only at hS
      rw [closeEvent_state] at hs
      cases hs
      have hqm : q ∈ s.agenda := (popMin_spec _ _ _ hq).1.symm.subset List.mem_cons_self
      have hge : s.events.size ≤ (openEvent s q rest).events.size := by simp [openEvent]
      exact ws_foldCbs body fuel q.ev cbs { s := openEvent s q rest } ho (Nat.lt_of_lt_of_le (h.agenda q hqm) hge)
        (fun cb hcb => ((h.events q.ev).cbs cbs hc cb hcb).mono hge) hS

/-- **well-scopedness holds in every state of a run that names existing ids only** -/
theorem ws_reach (body : σ → Resume → Burst ℚ σ) (fuel : Nat) (s0 s : KState ℚ σ) (h0 : WS I s0)
    (hS : ScopedRun I body fuel s0) (hr : KReach body fuel s0 s) : WS I s := by
  induction hr with
  | init => exact h0
  | step hr' hs ih => exact ws_step body fuel _ _ ih (hS _ hr') hs

theorem kreach_trans {body : σ → Resume → Burst ℚ σ} {fuel : Nat} {s0 s1 s2 : KState ℚ σ}
    (h1 : KReach body fuel s0 s1) (h2 : KReach body fuel s1 s2) : KReach body fuel s0 s2 := by
  induction h2 with
  | init => exact h1
  | step _ hs ih => exact KReach.step ih hs

theorem ScopedRun.tail {body : σ → Resume → Burst ℚ σ} {fuel : Nat} {s0 s : KState ℚ σ} (hS : ScopedRun I body fuel s0)
    (hr : KReach body fuel s0 s) : ScopedRun I body fuel s :=
  fun s' hr' => hS s' (kreach_trans hr hr')

/-! ## initial states, outside spawns, `run(until=…)` set-ups -/

/-- the empty environment (resources with empty queues and no users) is well-scoped -/
theorem ws_init (t0 : ℚ) (rs : Array ResRec)
    (hrs : ∀ r, (rs.getD r default).putQ = [] ∧ (rs.getD r default).getQ = [] ∧ (rs.getD r default).users = []) :
    WS I ({ now := t0, resources := rs } : KState ℚ σ) := by
  refine ⟨fun i => ?_, fun q hq => (by cases hq), fun pr hpr => (by cases hpr), fun p hp => (by cases hp),
    fun o ho => (by simp at ho), fun kv hkv => (by cases hkv), fun r => ?_⟩
  · have : ({ now := t0, resources := rs } : KState ℚ σ).ev i = default := by simp [KState.ev]
    rw [this]
    exact recBelow_default _ _
  · show resBelow _ (rs.getD r default)
    obtain ⟨h1, h2, h3⟩ := hrs r
    exact ⟨(by rw [h1]; intro e he; cases he), (by rw [h2]; intro e he; cases he), (by rw [h3]; intro e he; cases he)⟩

/-- starting a process from outside (`env.process(...)` in the main program) -/
theorem ws_spawn (h : WS I s) (self : EvId) (st : σ) (hst : I.below s.events.size st) : WS I (doCall s self (.spawn st)).1 :=
  (ws_doCall h self (.spawn st) (fun _ _ hc => by cases hc) hst).1

/-- `run(until=event)` subscribes `StopSimulation.callback` -/
theorem ws_until_event (h : WS I s) (e : EvId) : WS I (s.addCb e .stop) :=
  WS.of_le (SB.addCb h e .stop trivial) (by simp [KState.addCb, KState.setEv])

/-- `run(until=number)`: the sentinel record, its agenda entry, its stop callback -/
theorem ws_until_time (h : WS I s) (t : ℚ) : WS I (SplitCfg.plant t s) := by
  unfold SplitCfg.plant
  have h1 : SB I (s.events.size + 1) s := SB.mono h (Nat.le_succ _)
  refine WS.of_le (((h1.newEv _ (recBelow_fresh _ _ .sentinel trivial _ (fun x hx => ?_))).scheduleAt _ _ _
    (Nat.lt_succ_self _)).addCb _ _ trivial) ?_
  · simp only [Option.some.injEq] at hx
    subst hx
    trivial
  · simp [KState.addCb, KState.setEv, KState.scheduleAt, KState.newEv]

end SplitWF
