import OnlVerif.Lemmas.SndKStepTm3
/-!
# The TCP sender on the kernel model: a `StorePut` of the wake-up store is processed (`handoff`, or nothing)
-/

set_option linter.unusedSimpArgs false

namespace SndK
open SenderOnK TcpSender

/-- the hand-off of a token to the blocked `get` of `run` -/
theorem KK.hand {s : KS} {κ : Kern} {g : EvId} {t0 : ℚ} {n : Nat} (h : KK none s κ) (hrun : κ.run = .blocked g t0) :
    KK none (handSt s g (List.replicate n 1))
      { κ with run := .handed g t0 ⟨s.now, NORMAL, s.eid, g⟩, tokens := n } := by
  have hr := h.run
  rw [hrun] at hr
  obtain ⟨hg, hpr, hp0⟩ := hr
  have fr := handSt_frame s g (List.replicate n 1)
  have ow : Owned s g 0 := Or.inr (Or.inr ⟨hg.1, rfl⟩)
  obtain ⟨_, k2, k3, k4⟩ := h.keepO fr ow h.pt0
  have hne : (0 : EvId) ≠ g := ne_of_kind hp0.1 hg.1 (by simp)
  refine ⟨h.act, h.now, ?_, ?_, by simpa [handSt] using h.rsz, ?_, ?_, k2 (by omega) (by simp), k3, h.pnd,
    fun seq hs => k4 seq hs (by omega) (by simp), h.pt0.keep fr (by simp), h.pt2.keep fr (by simp),
    fun seq hs => (h.ptm seq hs).keep fr (by simp), h.knd, h.tx, ?_⟩
  · exact wf_push1 h.wf _ rfl rfl rfl rfl (le_refl _)
  · show (_ :: s.agenda).Perm _
    have := h.ag
    simp only [Kern.entries, hrun, RPhase.entries, List.nil_append] at this
    simp only [Kern.entries, RPhase.entries, List.singleton_append]
    exact List.Perm.cons _ this
  · exact res0_set s _ _ h.rsz rfl _ rfl
  · refine ⟨rfl, ?_, hpr, hp0.keep fr (by simpa using hne)⟩
    unfold EvIs
    rw [handSt_ev, if_pos ⟨rfl, hg.lt⟩]
    exact ⟨hg.1, hg.2.1, rfl⟩
  · intro e he
    have := h.cur e he
    have hlt : e < s.events.size := KState.lt_of_out (by obtain ⟨_, v, c⟩ := this; rw [c]; simp)
    have hne' : e ≠ g := ne_of_cbs this.1 hg.2.1 (by simp)
    rw [fr.ev e hlt (by simpa using hne')]
    exact this

theorem pymax_of_le {x y : ℚ} (h : x ≤ y) : Num.pymax x y = y := by
  unfold Num.pymax
  split
  · rfl
  · rename_i hn; exact le_antisymm h (not_lt.mp hn)

/-- a `StorePut` of the wake-up store is processed: if `run` waits in `get()` and a token is there, the token is handed over
(LTS action `handoff`); otherwise nothing happens -/
theorem kstep_pend {cfg : Cfg} (fuel : Nat) {s : KS} {a : A} {q : QEntry ℚ} {rest : List (QEntry ℚ)}
    (hk : KI none s a) (hiT : AInv cfg (aTick a q.time)) (hp : popMin s.agenda = some (q, rest)) (hu : q ∈ a.pend) :
    StepGoal cfg fuel s (aTick a q.time).S a.txs := by
  have hpe := hk.k.pend q hu
  have hstep := step_put (body cfg) fuel hp hpe.2.1
  have sg : Sig s q.ev (.put 0) (some [.trigGet 0]) := ⟨hpe.1, hpe.2.1⟩
  have fr := openEvent_frame s q rest
  have hcur := openEvent_cur s q rest hpe.lt
  have hnd : a.pend.Nodup := (List.Nodup.of_map _ hk.k.pnd)
  -- the state after `openEvent`, with the popped `StorePut` removed from the configuration
  have h0 : KK none (openEvent s q rest) (kernOf { aTick a q.time with pend := a.pend.erase q }) := by
    refine hk.k.opened hp ?_ rfl hiT.cur rfl rfl rfl rfl rfl
      (hk.k.run.keep fr (hk.k.run.avoid hk.k.pt0 sg (by simp) (by simp) (by simp)) (by simp))
      (hk.k.scr.keep fr (hk.k.scr.avoid hk.k.pt2 sg (by simp) (by simp) (by simp)) (by simp)) ?_ ?_ ?_
    · simp only [Kern.entries, kernOf, aTick]
      perm_from (List.perm_cons_erase hu)
    · intro u hu'
      have hu'' : u ∈ a.pend.erase q := hu'
      have hmem := List.mem_of_mem_erase hu''
      refine ⟨hk.k.pend u hmem, ?_⟩
      intro he
      have : u = q := List.inj_on_of_nodup_map hk.k.pnd hmem hu he
      subst this
      exact (List.Nodup.not_mem_erase hnd) hu''
    · show (evs (a.pend.erase q)).Nodup
      exact hk.k.pnd.sublist ((List.erase_sublist).map _)
    · intro seq hs
      exact (hk.k.tm seq hs).keep fr ((hk.k.tm seq hs).avoid (hk.k.ptm seq hs) sg (by simp) (by simp) (by simp)) (by simp)
  have hc0 : CellsOK (openEvent s q rest) { aTick a q.time with pend := a.pend.erase q } := by cells_same hk.c
  have htok0 : (openEvent s q rest).resources.getD 0 default = storeRec a.run.getQ (List.replicate a.S.tokens 1) := h0.tok
  have hpendT : ∀ u ∈ a.pend.erase q, u.time = (aTick a q.time).S.now ∧ u.prio = NORMAL :=
    fun u hu' => hiT.pend u (List.mem_of_mem_erase hu')
  have hrT := hiT.run
  -- the invariants when nothing but the list of pending puts changes
  have hiBase : RunA { aTick a q.time with pend := a.pend.erase q } a.run →
      AInv cfg { aTick a q.time with pend := a.pend.erase q } := fun hr =>
    ⟨hiT.inv, hiT.kind, hiT.mss, hiT.size, hiT.mpos, hiT.spos, hiT.dvd, hiT.tks, hiT.nmul, hiT.bufle, hiT.tkeys, hiT.cur, hr,
      hiT.scr, hpendT, fun seq hs => (hiT.tm seq hs).congr rfl rfl rfl rfl, hiT.putAt⟩
  have hquiet : a.run.getQ = [] ∨ a.S.tokens = 0 → RunA { aTick a q.time with pend := a.pend.erase q } a.run →
      StepGoal cfg fuel s (aTick a q.time).S a.txs := by
    intro hq hr
    have htg : triggerGet (openEvent s q rest) 0 = openEvent s q rest := by
      rcases hq with hq | hq
      · rw [hq] at htok0
        exact triggerGet_none _ 0 _ htok0
      · cases hrun : a.run with
        | blocked g t0 =>
          rw [hrun, hq] at htok0
          have hr0 : RunEv (openEvent s q rest) (.blocked g t0) := by
            have := h0.run
            rwa [show (kernOf { aTick a q.time with pend := a.pend.erase q }).run = a.run from rfl, hrun] at this
          exact triggerGet_empty _ 0 g htok0 hr0.1.2.2
        | init q' => rw [hrun] at htok0; exact triggerGet_none _ 0 _ htok0
        | handed g t0 q' => rw [hrun] at htok0; exact triggerGet_none _ 0 _ htok0
        | ending q' => rw [hrun] at htok0; exact triggerGet_none _ 0 _ htok0
        | done => rw [hrun] at htok0; exact triggerGet_none _ 0 _ htok0
        | running => rw [hrun] at htok0; exact triggerGet_none _ 0 _ htok0
    refine ⟨openEvent s q rest, { aTick a q.time with pend := a.pend.erase q }, [], [], ?_, ⟨h0, hc0⟩, hiBase hr, rfl,
      by simp [aTick], fun x hx => by cases hx⟩
    rw [hstep, htg]
    exact closeEvent_ok (hcur.2.1.trans hpe.2.2)
  cases hrun : a.run with
  | blocked g t0 =>
    have hrT' : RunA (aTick a q.time) (.blocked g t0) := by have := hiT.run; rwa [show (aTick a q.time).run = a.run from rfl, hrun] at this
    obtain ⟨b1, b2, b3, b4⟩ := hrT'
    cases htk : a.S.tokens with
    | zero =>
      refine hquiet (Or.inr htk) ?_
      rw [hrun]
      exact ⟨b1, b2, by show a.S.tokens ≤ _; omega, fun hpos => by
        have : (0 : Nat) < a.S.tokens := hpos
        omega⟩
    | succ n =>
      -- the hand-off
      have hr0 : RunEv (openEvent s q rest) (.blocked g t0) := by
        have := h0.run
        rwa [show (kernOf { aTick a q.time with pend := a.pend.erase q }).run = a.run from rfl, hrun] at this
      have htg : triggerGet (openEvent s q rest) 0 = handSt (openEvent s q rest) g (List.replicate n 1) := by
        rw [hrun, htk, List.replicate_succ] at htok0
        rw [triggerGet_hand _ 0 g 1 (List.replicate n 1) h0.rsz hr0.1.lt htok0]
        rfl
      have h1 := KK.hand (n := n) h0 (show (kernOf { aTick a q.time with pend := a.pend.erase q }).run = .blocked g t0 from hrun)
      have hne : q.ev ≠ g := by
        intro e
        have : ((openEvent s q rest).ev q.ev).kind = .get 0 := e ▸ hr0.1.1
        rw [hcur.2.2, hpe.1] at this
        cases this
      have hput : a.putAt = q.time := b4 (by show 0 < a.S.tokens; omega)
      let qh : QEntry ℚ := ⟨q.time, NORMAL, s.eid, g⟩
      let Sh : Sender ℚ := { (aTick a q.time).S with tokens := n, proc := .runnable }
      refine ⟨handSt (openEvent s q rest) g (List.replicate n 1),
        { aTick a q.time with pend := a.pend.erase q, run := .handed g t0 qh, S := Sh },
        [.handoff], [], ?_, ⟨h1, by cells_same hk.c⟩, ?_, ?_, by simp [aTick],
        fun x hx => by simp only [List.mem_singleton] at hx; subst hx; trivial⟩
      · rw [hstep, htg]
        have hfr := handSt_frame (openEvent s q rest) g (List.replicate n 1)
        have : ((handSt (openEvent s q rest) g (List.replicate n 1)).ev q.ev).out = okNone := by
          rw [hfr.ev q.ev (by simpa [openEvent] using hpe.lt) (by simpa using hne)]
          exact hcur.2.1.trans hpe.2.2
        exact closeEvent_ok this
      · refine ⟨hiT.inv.transfer rfl rfl rfl rfl rfl hiT.inv.buf, hiT.kind, hiT.mss, hiT.size, hiT.mpos, hiT.spos, hiT.dvd, hiT.tks,
          hiT.nmul, hiT.bufle, hiT.tkeys, hiT.cur, ?_, hiT.scr, hpendT, fun seq hs => (hiT.tm seq hs).congr rfl rfl rfl rfl,
          hiT.putAt⟩
        refine ⟨rfl, rfl, rfl, ?_⟩
        show Num.pymax t0 a.putAt = q.time
        rw [hput]
        exact pymax_of_le b2
      · apply runLts_one
        show Sender.handoffStep _ = _
        unfold Sender.handoffStep
        have c1 : (aTick a q.time).S.proc = .blocked := b1
        have c2 : (aTick a q.time).S.tokens > 0 := by show a.S.tokens > 0; omega
        simp only [c1, c2, and_self, if_true]
        have : (aTick a q.time).S.tokens - 1 = n := by show a.S.tokens - 1 = n; omega
        rw [this]
  | init q' => refine hquiet (Or.inl (by rw [hrun]; rfl)) ?_; rw [hrun]; have := hiT.run; rwa [show (aTick a q.time).run = a.run from rfl, hrun] at this
  | handed g t0 q' => refine hquiet (Or.inl (by rw [hrun]; rfl)) ?_; rw [hrun]; have := hiT.run; rwa [show (aTick a q.time).run = a.run from rfl, hrun] at this
  | ending q' => refine hquiet (Or.inl (by rw [hrun]; rfl)) ?_; rw [hrun]; have := hiT.run; rwa [show (aTick a q.time).run = a.run from rfl, hrun] at this
  | done => refine hquiet (Or.inl (by rw [hrun]; rfl)) ?_; rw [hrun]; have := hiT.run; rwa [show (aTick a q.time).run = a.run from rfl, hrun] at this
  | running => refine hquiet (Or.inl (by rw [hrun]; rfl)) ?_; rw [hrun]; have := hiT.run; rwa [show (aTick a q.time).run = a.run from rfl, hrun] at this

end SndK
