import OnlVerif.Lemmas.TimerKFrame
import OnlVerif.Lemmas.StampWfq
import OnlVerif.Net.WFQOnK
/-!
# The WFQ scheduler on the kernel model: canonical configurations (definitions)

`A` is an abstract description of a kernel state of the program `WFQOnK.prog`: where `WFQ.run` (and the sender process it has
spawned) and the source are suspended, which agenda entries exist, what the `PriorityStore` holds, the attribute cells
(`vtime`, `last_time`, `finish_times`, `class_count`, `active_set`, the counters), and (ghost) the `put` history.  `KInv s a`
says that the kernel state `s` *is* the configuration `a`.  `AInv` is what holds of the configurations of a run.  `AStep` is
one kernel step seen on configurations; `toM` is the LTS state a configuration stands for.  (Same plan as `VCKDefs.lean`.)
-/

namespace WFQK
open WFQOnK
open TimerK (lookup)

abbrev St := WfqKSt ℚ
abbrev KS := KState ℚ St

/-- a `put` that has happened: packet id, arrival instant, stamp (finish time) -/
abbrev PutRec := Int × ℚ × ℚ

/-- where `WFQ.run` (with the sender it waits for) is -/
inductive RPhase where
  /-- not started: its `Initialize` entry `q` is in the agenda -/
  | init (q : QEntry ℚ)
  /-- blocked in `store.get()` (event `g`) -/
  | W (g : EvId)
  /-- that `get` has been served with the item of `w`: entry `q` -/
  | H (g : EvId) (w : PutRec) (q : QEntry ℚ)
  /-- the sender process `p` of packet `id` has been created: its `Initialize` entry `q` -/
  | S (p : EvId) (id : Int) (q : QEntry ℚ)
  /-- the sender `p` sleeps on timeout `t` (entry `q`, due at `q.time`) -/
  | T (p t : EvId) (id : Int) (q : QEntry ℚ)
  /-- the sender's generator has returned: its process event `p` is triggered (entry `q`) -/
  | F (p : EvId) (id : Int) (q : QEntry ℚ)

/-- where the source is -/
inductive SPhase where
  | init (q : QEntry ℚ) (arr : List (ℚ × Int))
  /-- sleeping on the timeout (entry `q`) after which it puts packet `id`; `rest` still to come -/
  | wait (id : Int) (rest : List (ℚ × Int)) (q : QEntry ℚ)
  /-- the generator has returned: the process event (entry `q`) is triggered -/
  | ending (q : QEntry ℚ)
  | done

/-- `g x := v` -/
def upd {β : Type} (g : Nat → β) (f : Nat) (v : β) : Nat → β := fun x => if x = f then v else g x

@[simp] theorem upd_same {β : Type} (g : Nat → β) (f : Nat) (v : β) : upd g f v f = v := by simp [upd]
theorem upd_ne {β : Type} (g : Nat → β) (f f' : Nat) (v : β) (h : f' ≠ f) : upd g f v f' = g f' := by simp [upd, h]
theorem upd_apply {β : Type} (g : Nat → β) (f f' : Nat) (v : β) : upd g f v f' = if f' = f then v else g f' := rfl

structure A where
  run : RPhase
  src : SPhase
  /-- the `StorePut` events that are triggered and not yet processed -/
  pend : List (QEntry ℚ)
  /-- `store.items`: the packets waiting, in the order of their `put` -/
  items : List PutRec
  /-- `queue_count[f]` -/
  cnt : Nat → Int
  /-- `queue_byte_size[f]` -/
  byt : Nat → Int
  /-- `packets_received` -/
  recv : Int
  /-- `current_packet` -/
  cur : Option Int
  /-- `vtime` -/
  vtime : ℚ
  /-- `last_time` -/
  last : ℚ
  /-- `reset_vtime` has run at least once: `finish_times` has its keys (those of `weights`) -/
  fset : Bool
  /-- `finish_times[c]` (meaningful once `fset`) -/
  fin : Nat → ℚ
  /-- `class_count.get(c)` -/
  cls : Nat → Option Int
  /-- `c in active_set` -/
  act : Nat → Bool
  /-- (ghost) every `put` so far, in order -/
  puts : List PutRec

def RPhase.entries : RPhase → List (QEntry ℚ)
  | .init q => [q]
  | .W _ => []
  | .H _ _ q => [q]
  | .S _ _ q => [q]
  | .T _ _ _ q => [q]
  | .F _ _ q => [q]

def SPhase.entries : SPhase → List (QEntry ℚ)
  | .init q _ => [q]
  | .wait _ _ q => [q]
  | .ending q => [q]
  | .done => []

def A.entries (a : A) : List (QEntry ℚ) := a.run.entries ++ (a.src.entries ++ a.pend)

/-- the events a configuration talks about (pairwise different); the process event of `WFQ.run` is 0, of the source 2 -/
def RPhase.ids : RPhase → List EvId
  | .init _ => [0, 1]
  | .W g => [0, g]
  | .H g _ _ => [0, g]
  | .S p _ _ => [0, p, p + 1]
  | .T p t _ _ => [0, p, t]
  | .F p _ _ => [0, p]

def SPhase.ids : SPhase → List EvId
  | .init _ _ => [2, 3]
  | .wait _ _ q => [2, q.ev]
  | .ending _ => [2]
  | .done => []

def pendIds (l : List (QEntry ℚ)) : List EvId := l.map (·.ev)

def A.ids (a : A) : List EvId := a.run.ids ++ (a.src.ids ++ pendIds a.pend)

/-- the `get_queue` of the store -/
def RPhase.getQ : RPhase → List EvId
  | .W g => [g]
  | _ => []

/-- kind, callbacks and outcome of a live event -/
def EvIs (s : KS) (e : EvId) (k : Kind) (cbs : List Cb) (out : Option Outcome) : Prop :=
  (s.ev e).kind = k ∧ (s.ev e).cbs = some cbs ∧ (s.ev e).out = out

/-- the record of an unbounded `PriorityStore` -/
def pstoreRec (getQ : List EvId) (items : List Int) : ResRec :=
  { kind := .pstore, capacity := none, getQ := getQ, items := items }

variable (N scale : Nat)

/-- the integer that carries the `PriorityItem` of a `put` -/
def codeOf (w : PutRec) : Int := stampItem scale N w.2.2 w.1

/-! ## the kernel side of a configuration -/

variable (size : Int → Nat) (rate : ℚ)

/-- `run` carries the instant it resumes at after the transmission: `q.time + 8·size/rate` while the sender has not started
(phase `S`, entry `q` due now), the due time of the sender's timeout afterwards -/
def RunEv (s : KS) : RPhase → Prop
  | .init q => q.ev = 1 ∧ EvIs s 1 (.init 0) [.resume 0] (some (.ok .none)) ∧
      s.proc? 0 = some { st := .runStart, target := some 1 } ∧ EvIs s 0 .proc [] none
  | .W g => EvIs s g (.get 0) [.trigPut 0, .resume 0] none ∧
      s.proc? 0 = some { st := .runGet, target := some g } ∧ EvIs s 0 .proc [] none
  | .H g w q => q.ev = g ∧ EvIs s g (.get 0) [.trigPut 0, .resume 0] (some (.ok (.int (codeOf N scale w)))) ∧
      s.proc? 0 = some { st := .runGet, target := some g } ∧ EvIs s 0 .proc [] none
  | .S p id q => q.ev = p + 1 ∧ EvIs s (p + 1) (.init p) [.resume p] (some (.ok .none)) ∧
      s.proc? p = some { st := .sendStart id, target := some (p + 1) } ∧ EvIs s p .proc [.resume 0] none ∧
      s.proc? 0 = some { st := .runSend id (q.time + txTime size rate id), target := some p } ∧ EvIs s 0 .proc [] none
  | .T p t id q => q.ev = t ∧ EvIs s t .timeout [.resume p] (some (.ok .none)) ∧
      s.proc? p = some { st := .sendTx id, target := some t } ∧ EvIs s p .proc [.resume 0] none ∧
      s.proc? 0 = some { st := .runSend id q.time, target := some p } ∧ EvIs s 0 .proc [] none
  | .F p id q => q.ev = p ∧ EvIs s p .proc [.resume 0] (some (.ok .none)) ∧
      s.proc? 0 = some { st := .runSend id q.time, target := some p } ∧ EvIs s 0 .proc [] none

/-- the source carries the instant it resumes at: the due time of the entry it waits for -/
def SrcEv (s : KS) : SPhase → Prop
  | .init q arr => q.ev = 3 ∧ EvIs s 3 (.init 2) [.resume 2] (some (.ok .none)) ∧
      s.proc? 2 = some { st := .src q.time none arr, target := some 3 } ∧ EvIs s 2 .proc [] none
  | .wait id rest q => EvIs s q.ev .timeout [.resume 2] (some (.ok .none)) ∧
      s.proc? 2 = some { st := .src q.time (some id) rest, target := some q.ev } ∧ EvIs s 2 .proc [] none
  | .ending q => q.ev = 2 ∧ EvIs s 2 .proc [] (some (.ok .none))
  | .done => True

/-- the value of the `current_packet` cell -/
def curVal : Option Int → Val
  | some id => .int id
  | none => .none

/-- the value of a `class_count` cell -/
def clsVal : Option Int → Val
  | some n => .int n
  | none => .none

/-- the kernel state `s` has the configuration `a` -/
structure KInv (F : Nat) (s : KS) (a : A) : Prop where
  wf : AgendaWF s
  ag : s.agenda.Perm a.entries
  rsz : s.resources.size = 1
  st : s.res 0 = pstoreRec a.run.getQ (a.items.map (codeOf N scale))
  run : RunEv N scale size rate s a.run
  src : SrcEv s a.src
  pend : ∀ u ∈ a.pend, EvIs s u.ev (.put 0) [.trigGet 0] (some (.ok .none))
  nd : a.ids.Nodup
  c0 : lookup s.shared cRecv = .int a.recv
  c1 : lookup s.shared cCur = curVal a.cur
  cvt : lookup s.shared cVtime = TimeCell.enc a.vtime
  cl : lookup s.shared cLast = TimeCell.enc a.last
  cc : ∀ f, f < F → lookup s.shared (cCount f) = .int (a.cnt f)
  cb : ∀ f, f < F → lookup s.shared (cBytes f) = .int (a.byt f)
  cf : ∀ c, c < F → lookup s.shared (cFin c) = if a.fset then TimeCell.enc (a.fin c) else Val.none
  ck : ∀ c, c < F → lookup s.shared (cCls c) = clsVal (a.cls c)
  cact : ∀ c, c < F → lookup s.shared (cAct c) = .int (if a.act c then 1 else 0)

/-! ## the abstract side -/

variable (F : Nat) (flow : Int → Nat) (cfg : WfqCfg ℚ)

/-- `x` lies on the grid `ℤ / d` -/
def OnGrid (d : Nat) (x : ℚ) : Prop := ∃ k : ℤ, x = k / (d : ℚ)

/-- the weight of a class (0 for an unconfigured one) -/
def wOf (c : Nat) : ℚ := (Stamp.lookup cfg.weights c).getD 0

/-- the configuration names exactly the classes `0 … F-1`, each with a positive whole weight (`weights: Dict[FlowId, int]`),
`flow2class` is the identity -/
structure CfgOK : Prop where
  rate : 0 < cfg.rate
  w : ∀ f, f < F → ∃ n : Nat, 0 < n ∧ Stamp.lookup cfg.weights f = some (n : ℚ)
  keys : ∀ kv ∈ cfg.weights, kv.1 < F
  nodup : (cfg.weights.map (·.1)).Nodup
  f2c : ∀ f, f < F → Stamp.lookup cfg.flow2class f = some f

/-- the sum of all weights, as a natural number -/
def wTotal : Nat := ((List.range F).map fun c => (wOf cfg c).num.toNat).sum

/-- **the grids.**  Instants (arrivals, departures) lie on `ℤ / d1`; virtual time and finish times on `ℤ / scale` with
`scale = d1 · L`, where every possible weight sum `1 … wTotal` divides `L` (so dividing an instant difference by a weight sum,
and a transmission time by a weight, stays on the grid) -/
structure GridOK (d1 L : Nat) (arrivals : List (ℚ × Int)) : Prop where
  d1pos : 0 < d1
  Lpos : 0 < L
  sc : scale = d1 * L
  div : ∀ k : Nat, 1 ≤ k → k ≤ wTotal F cfg → k ∣ L
  gaps : ∀ x ∈ arrivals, OnGrid d1 x.1
  tx : ∀ x ∈ arrivals, OnGrid d1 (txTime size cfg.rate x.2)

/-- gaps are not negative, packets belong to configured flows, ids increase and stay inside `0 … N-1`; gaps and transmission
times lie on the grid `ℤ / d1` -/
structure WorkOK (d1 : Nat) (l : List (ℚ × Int)) : Prop where
  gap : ∀ x ∈ l, 0 ≤ x.1 ∧ flow x.2 < F ∧ 0 ≤ x.2 ∧ x.2 < N ∧ OnGrid d1 x.1 ∧ OnGrid d1 (txTime size cfg.rate x.2)
  inc : (l.map (·.2)).Pairwise (· < ·)

/-- `sum(queue_count.values())` over flows `f, …, f + n - 1` -/
def sumFrom (c : Nat → Int) : Nat → Nat → Int
  | _, 0 => 0
  | f, n + 1 => c f + sumFrom c (f + 1) n

/-- `total_packets` of a configuration -/
def A.total (a : A) : Int := sumFrom a.cnt 0 F

/-- `weight_sum` over the active classes among `c, …, c + n - 1`, ascending, added to `acc` -/
def wsum (act : Nat → Bool) : Nat → Nat → ℚ → ℚ
  | _, 0, acc => acc
  | c, n + 1, acc => if act c then wsum act (c + 1) n (acc + wOf cfg c) else wsum act (c + 1) n acc

/-- the weight sum of a configuration -/
def A.ws (a : A) : ℚ := wsum cfg a.act 0 F 0

/-- `len(active_set)` over the classes `c, …, c + n - 1` added to `acc` -/
def nAct (act : Nat → Bool) : Nat → Nat → Int → Int
  | _, 0, acc => acc
  | c, n + 1, acc => nAct act (c + 1) n (acc + (if act c then 1 else 0))

/-- the packet the server has taken from the store and not yet counted out of `queue_count` (phases `H`, `S`, `T`) -/
def RPhase.held : RPhase → Option Int
  | .H _ w _ => some w.1
  | .S _ id _ => some id
  | .T _ _ id _ => some id
  | _ => none

/-- the packet the server has taken from the store and not yet booked out of `class_count` (phases `H`, `S`, `T`, `F`) -/
def RPhase.heldC : RPhase → Option Int
  | .H _ w _ => some w.1
  | .S _ id _ => some id
  | .T _ _ id _ => some id
  | .F _ id _ => some id
  | _ => none

/-- 1 if the packet `o` belongs to flow `f` -/
def ind (o : Option Int) (f : Nat) : Int :=
  match o with
  | some id => if flow id = f then 1 else 0
  | none => 0

/-- the number of waiting packets of flow `f` -/
def nItems (l : List PutRec) (f : Nat) : Int := ((l.filter fun w => flow w.1 = f).length : Int)

def RunA (a : A) (now : ℚ) (d1 : Nat) : RPhase → Prop
  | .init q => q.time = now ∧ q.prio = URGENT ∧ a.pend = [] ∧ a.items = [] ∧ a.cur = none ∧ a.puts = []
  | .W _ => (a.items ≠ [] → a.pend ≠ []) ∧ a.cur = none
  | .H _ w q => q.time = now ∧ q.prio = NORMAL ∧ a.cur = none ∧ w ∈ a.puts ∧ w ∉ a.items ∧ a.last = now
  | .S _ id q => q.time = now ∧ q.prio = URGENT ∧ a.cur = none ∧ flow id < F ∧ (∃ w ∈ a.puts, w.1 = id) ∧
      OnGrid d1 (txTime size cfg.rate id)
  | .T _ _ id q => q.prio = NORMAL ∧ a.cur = some id ∧ flow id < F ∧ (∃ w ∈ a.puts, w.1 = id)
  | .F _ id q => q.time = now ∧ q.prio = NORMAL ∧ a.cur = none ∧ flow id < F ∧ (∃ w ∈ a.puts, w.1 = id)

def SrcA (a : A) (now : ℚ) (d1 : Nat) : SPhase → Prop
  | .init q arr => q.time = now ∧ now = 0 ∧ q.prio = URGENT ∧ WorkOK N size F flow cfg d1 arr ∧ a.puts = []
  | .wait id rest q => q.prio = NORMAL ∧ WorkOK N size F flow cfg d1 ((0, id) :: rest) ∧ OnGrid d1 q.time ∧
      ∀ w ∈ a.puts, w.1 < id
  | .ending q => q.time = now ∧ q.prio = NORMAL
  | .done => True

/-- what holds of a configuration at instant `now` -/
structure AInv (d1 L : Nat) (a : A) (now : ℚ) : Prop where
  run : RunA size F flow cfg a now d1 a.run
  src : SrcA N size F flow cfg a now d1 a.src
  pend : ∀ u ∈ a.pend, u.time = now ∧ u.prio = NORMAL
  due : ∀ x ∈ a.entries, now ≤ x.time
  /-- the waiting packets are `put`s, in `put` order -/
  sub : a.items.Sublist a.puts
  /-- ids increase and arrival instants do not decrease along the `put`s -/
  mono : a.puts.Pairwise fun x y => x.1 < y.1 ∧ x.2.1 ≤ y.2.1
  /-- every `put` so far: a configured flow, an id in `0 … N-1`, not later than now, a stamp on the grid -/
  putOK : ∀ w ∈ a.puts, flow w.1 < F ∧ 0 ≤ w.1 ∧ w.1 < N ∧ w.2.1 ≤ now ∧ OnGrid scale w.2.2 ∧
    OnGrid d1 (txTime size cfg.rate w.1)
  /-- a flow that is not a dict key yet has counters 0 and no `class_count` entry; a key has one -/
  keysOK : ∀ f, f < F → (f ∉ keysOf flow (a.puts.map (·.1)) → a.cnt f = 0 ∧ a.byt f = 0 ∧ a.cls f = none) ∧
    (f ∈ keysOf flow (a.puts.map (·.1)) → ∃ n, a.cls f = some n)
  /-- `queue_count` is exact: waiting + taken and not yet counted out -/
  cntOK : ∀ f, f < F → a.cnt f = nItems flow a.items f + ind flow a.run.held f
  /-- `class_count` is exact: waiting + taken and not yet booked out -/
  clsOK : ∀ c, c < F → (a.cls c).getD 0 = nItems flow a.items c + ind flow a.run.heldC c
  /-- `active_set` = the classes with a positive `class_count` -/
  actOK : ∀ c, c < F → (a.act c = true ↔ 0 < (a.cls c).getD 0)
  /-- `finish_times` has its keys once a packet has arrived -/
  fsetOK : a.puts ≠ [] → a.fset = true
  /-- a pending `StorePut` belongs to a `put` of this instant, which set `last_time` -/
  pendLast : a.pend ≠ [] → a.last = now
  /-- `last_time` is an instant; virtual time and finish times stay on the fine grid -/
  lastG : OnGrid d1 a.last
  lastLe : a.last ≤ now
  vtG : OnGrid scale a.vtime
  finG : ∀ c, c < F → OnGrid scale (a.fin c)
  /-- every agenda entry is due at an instant on the grid `ℤ / d1` -/
  entG : ∀ x ∈ a.entries, OnGrid d1 x.time
  cfgOK : CfgOK F cfg
  grid : 0 < d1 ∧ 0 < L ∧ scale = d1 * L ∧ ∀ k : Nat, 1 ≤ k → k ≤ wTotal F cfg → k ∣ L

/-! ## one kernel step, seen on configurations -/

/-- the source after the `put` (or at its start) at instant `now`: it sleeps on a fresh timeout (event `ev`, entry counter
`eid`) or ends (its process event 2 is triggered) -/
def srcNext (now : ℚ) (eid : Nat) (ev : EvId) : List (ℚ × Int) → SPhase
  | [] => .ending ⟨now, NORMAL, eid, 2⟩
  | (gap, id) :: rest => .wait id rest ⟨now + gap, NORMAL, eid, ev⟩

/-- `w` carries the least integer among the waiting packets: what the `PriorityStore` of `K` hands out -/
def IsLeast (l : List PutRec) (w : PutRec) : Prop := w ∈ l ∧ ∀ x ∈ l, codeOf N scale w ≤ codeOf N scale x

/-- the virtual time an arrival at `now` sees: `reset_vtime()` if `total_packets == 0`, else `update_vtime()` -/
def A.advV (a : A) (now : ℚ) : ℚ := if a.total F = 0 then 0 else a.vtime + (now - a.last) / a.ws F cfg

/-- … and the finish times -/
def A.advFin (a : A) : Nat → ℚ := if a.total F = 0 then fun _ => 0 else a.fin

/-- the record of the `put` of packet `id` at instant `now` in configuration `a` -/
def putRec (a : A) (now : ℚ) (id : Int) : PutRec :=
  (id, now, WFQ.stampOf cfg (a.advFin F (flow id)) (a.advV F cfg now) (wOf cfg (flow id)) (size id))

/-- the attributes after `put(packet id)` at `now` -/
def A.afterPut (a : A) (now : ℚ) (id : Int) : A :=
  { a with
    items := a.items ++ [putRec size F flow cfg a now id]
    cnt := upd a.cnt (flow id) (a.cnt (flow id) + 1)
    byt := upd a.byt (flow id) (a.byt (flow id) + (size id : Int))
    recv := a.recv + 1
    vtime := a.advV F cfg now
    last := now
    fset := true
    fin := upd (a.advFin F) (flow id) (putRec size F flow cfg a now id).2.2
    cls := upd a.cls (flow id) (some ((a.cls (flow id)).getD 0 + 1))
    act := upd a.act (flow id) true
    puts := a.puts ++ [putRec size F flow cfg a now id] }

/-- `active_set` after `class_count[c] -= 1; if class_count[c] == 0: active_set.remove(c)` -/
def actAfter (a : A) (c : Nat) : Nat → Bool := if (a.cls c).getD 0 - 1 = 0 then upd a.act c false else a.act

/-- the attributes after the bookkeeping of `run` for the packet `id0` that has just been transmitted, at `now` -/
def A.afterDone (a : A) (now : ℚ) (id0 : Int) : A :=
  { a with
    vtime := if nAct (actAfter a (flow id0)) 0 F 0 = 0 then 0 else a.vtime + (now - a.last) / a.ws F cfg
    fin := if nAct (actAfter a (flow id0)) 0 F 0 = 0 then fun _ => 0 else a.fin
    cls := upd a.cls (flow id0) (some ((a.cls (flow id0)).getD 0 - 1))
    act := actAfter a (flow id0)
    last := now }

/-- **one kernel step, seen on configurations**: processing the agenda entry `q` in a kernel state with `n` events and entry
counter `e` takes `a` to `a'` and appends `new` to the history -/
inductive AStep (n e : Nat) : A → QEntry ℚ → A → List (HEv ℚ) → Prop
  | runInit (a : A) (q : QEntry ℚ) (h : a.run = .init q) : AStep n e a q { a with run := .W n } [.get q.time]
  | pktResume (a : A) (q : QEntry ℚ) (g : EvId) (w : PutRec) (h : a.run = .H g w q) :
      AStep n e a q { a with run := .S n w.1 ⟨q.time, URGENT, e, n + 1⟩ } [.serve w.1 q.time]
  | sendInit (a : A) (q : QEntry ℚ) (p : EvId) (id : Int) (h : a.run = .S p id q) :
      AStep n e a q { a with run := .T p n id ⟨q.time + txTime size cfg.rate id, NORMAL, e, n⟩, cur := some id } []
  | sendFire (a : A) (q : QEntry ℚ) (p t : EvId) (id : Int) (h : a.run = .T p t id q) :
      AStep n e a q { a with run := .F p id ⟨q.time, NORMAL, e, p⟩, cnt := upd a.cnt (flow id) (a.cnt (flow id) + -1),
                             byt := upd a.byt (flow id) (a.byt (flow id) + -(size id : Int)), cur := none } [.out id q.time]
  | doneHit (a : A) (q : QEntry ℚ) (p : EvId) (id0 : Int) (w : PutRec) (h : a.run = .F p id0 q)
      (hw : IsLeast N scale a.items w) :
      AStep n e a q { a.afterDone F flow cfg q.time id0 with run := .H n w ⟨q.time, NORMAL, e, n⟩, items := a.items.erase w }
        [.done (a.afterDone F flow cfg q.time id0).vtime, .get q.time]
  | doneBlock (a : A) (q : QEntry ℚ) (p : EvId) (id0 : Int) (h : a.run = .F p id0 q) (hit : a.items = []) :
      AStep n e a q { a.afterDone F flow cfg q.time id0 with run := .W n }
        [.done (a.afterDone F flow cfg q.time id0).vtime, .get q.time]
  | srcInit (a : A) (q : QEntry ℚ) (arr : List (ℚ × Int)) (h : a.src = .init q arr) :
      AStep n e a q { a with src := srcNext q.time e n arr } []
  | srcPut (a : A) (q : QEntry ℚ) (id : Int) (arr : List (ℚ × Int)) (h : a.src = .wait id arr q) :
      AStep n e a q { a.afterPut size F flow cfg q.time id with
        src := srcNext q.time (e + 1) (n + 1) arr
        pend := a.pend ++ [⟨q.time, NORMAL, e, n⟩] }
        [.put id q.time, .vtime (a.advV F cfg q.time), .stamp (putRec size F flow cfg a q.time id).2.2]
  | srcEnd (a : A) (q : QEntry ℚ) (h : a.src = .ending q) : AStep n e a q { a with src := .done } []
  | pendNoop (a : A) (q : QEntry ℚ) (l1 l2 : List (QEntry ℚ)) (hpe : a.pend = l1 ++ q :: l2)
      (hno : ¬ (a.items ≠ [] ∧ ∃ g, a.run = .W g)) :
      AStep n e a q { a with pend := l1 ++ l2 } []
  | pendHand (a : A) (q : QEntry ℚ) (g : EvId) (w : PutRec) (l1 l2 : List (QEntry ℚ)) (hpe : a.pend = l1 ++ q :: l2)
      (h : a.run = .W g) (hw : IsLeast N scale a.items w) :
      AStep n e a q { a with pend := l1 ++ l2, run := .H g w ⟨q.time, NORMAL, e, g⟩, items := a.items.erase w } []

/-! ## the LTS state of a configuration -/

/-- the `PriorityItem` of a `put` -/
def itemW (w : PutRec) : Item ℚ := { stamp := w.2.2, arr := w.2.1, pkt := pktOf flow size w.1 }

/-- the dict with keys `keys` (in this order) and values `g` -/
def dictOf {β : Type} (keys : List Nat) (g : Nat → β) : List (Nat × β) := keys.map fun f => (f, g f)

/-- the keys of `queue_count` / `queue_byte_size` / `class_count`: the flows in the order of their first `put` -/
def A.keys (a : A) : List Nat := keysOf flow (a.puts.map (·.1))

/-- **the LTS state a configuration stands for** -/
def toM (a : A) (now : ℚ) : StState ℚ (WfqSt ℚ) :=
  { now := now
    sch := { vtime := a.vtime, lastTime := a.last,
             finish := if a.fset then cfg.weights.map fun kv => (kv.1, a.fin kv.1) else [],
             active := (List.range F).filter fun c => a.act c,
             classCount := dictOf (a.keys flow) fun c => (a.cls c).getD 0 }
    items := a.items.map (itemW size flow)
    getPending := match a.run with | .W _ => true | _ => false
    handed := match a.run with | .H _ w _ => some (itemW size flow w) | _ => none
    spawned := match a.run with | .S _ id _ => some (pktOf flow size id) | _ => none
    tx := match a.run with | .T _ _ id q => some (pktOf flow size id, q.time) | _ => none
    fin := match a.run with | .F _ id _ => some (pktOf flow size id) | _ => none
    currentPacket := a.cur.map (pktOf flow size)
    queueCount := dictOf (a.keys flow) a.cnt
    queueBytes := dictOf (a.keys flow) a.byt
    started := match a.run with | .init _ => false | _ => true }

/-- the packets a history hands to `put` / to `out.put`, as the LTS sees them -/
def putPk (h : List (HEv ℚ)) : List SPkt := h.filterMap fun | .put id _ => some (pktOf flow size id) | _ => none
def outPk (h : List (HEv ℚ)) : List SPkt := h.filterMap fun | .out id _ => some (pktOf flow size id) | _ => none

/-- number of kernel steps a configuration still needs (an upper bound) -/
def RPhase.mu : RPhase → Nat
  | .init _ => 1
  | .W _ => 0
  | .H _ _ _ => 4
  | .S _ _ _ => 3
  | .T _ _ _ _ => 2
  | .F _ _ _ => 1

def SPhase.mu : SPhase → Nat
  | .init _ arr => 6 * arr.length + 2
  | .wait _ rest _ => 6 * rest.length + 7
  | .ending _ => 1
  | .done => 0

def A.mu (a : A) : Nat := a.run.mu + a.src.mu + a.pend.length + 4 * a.items.length

/-- the configuration of the initial state -/
def a0 (arrivals : List (ℚ × Int)) : A :=
  { run := .init ⟨0, URGENT, 0, 1⟩, src := .init ⟨0, URGENT, 1, 3⟩ arrivals, pend := [], items := [], cnt := fun _ => 0,
    byt := fun _ => 0, recv := 0, cur := none, vtime := 0, last := 0, fset := false, fin := fun _ => 0,
    cls := fun _ => none, act := fun _ => false, puts := [] }

/-- the history-linked part: the `put` and `stamp` observations are the ghost `puts` -/
structure LInv (a : A) (h : List (HEv ℚ)) : Prop where
  puts : (h.filterMap fun | HEv.put id t => some (id, t) | _ => none) = a.puts.map fun w => (w.1, w.2.1)
  stamps : (h.filterMap fun | HEv.stamp x => some x | _ => none) = a.puts.map fun w => w.2.2
  recv : a.recv = a.puts.length

end WFQK
