import OnlVerif.Lemmas.WFQKGrid
/-!
# The WFQ scheduler on the kernel model: every configuration step keeps `AInv` and lowers the step bound; the initial
configuration
-/

set_option linter.unusedSimpArgs false
set_option linter.unusedVariables false

namespace WFQK
open WFQOnK QEntry

variable {N scale F : Nat} {flow size : Int → Nat} {cfg : WfqCfg ℚ} {d1 L : Nat}
variable {a a' : A} {now : ℚ} {q : QEntry ℚ} {n e : Nat} {new : List (HEv ℚ)}

theorem txTime_nonneg {rate : ℚ} (hrate : 0 < rate) (id : Int) : 0 ≤ txTime size rate id := by
  unfold txTime
  rw [Num.ofNat_rat]
  exact div_nonneg (Nat.cast_nonneg _) (le_of_lt hrate)

/-! ## dict keys -/

theorem mem_addKey (l : List Nat) (k x : Nat) : x ∈ addKey l k ↔ x ∈ l ∨ x = k := by
  unfold addKey
  split
  · rename_i h
    constructor
    · exact Or.inl
    · rintro (h1 | rfl)
      · exact h1
      · simpa using h
  · simp

theorem keysOf_snoc (ids : List Int) (id : Int) : keysOf flow (ids ++ [id]) = addKey (keysOf flow ids) (flow id) := by
  simp [keysOf, List.foldl_append]

theorem mem_foldl_addKey (x : Nat) : ∀ (ids : List Int) (init : List Nat),
    x ∈ ids.foldl (fun l id => addKey l (flow id)) init ↔ x ∈ init ∨ ∃ id ∈ ids, flow id = x
  | [], init => by simp
  | id :: r, init => by
    rw [List.foldl_cons, mem_foldl_addKey x r, mem_addKey]
    constructor
    · rintro ((h | h) | ⟨i, hi, h⟩)
      · exact Or.inl h
      · exact Or.inr ⟨id, List.mem_cons_self, h.symm⟩
      · exact Or.inr ⟨i, List.mem_cons_of_mem _ hi, h⟩
    · rintro (h | ⟨i, hi, h⟩)
      · exact Or.inl (Or.inl h)
      · rcases List.mem_cons.mp hi with rfl | hi
        · exact Or.inl (Or.inr h.symm)
        · exact Or.inr ⟨i, hi, h⟩

/-- the flow of a packet that has been `put` is a dict key -/
theorem mem_keysOf {ids : List Int} {id : Int} (h : id ∈ ids) : flow id ∈ keysOf flow ids := by
  unfold keysOf
  exact (mem_foldl_addKey _ _ _).mpr (Or.inr ⟨id, h, rfl⟩)

theorem flow_mem_keys {w : PutRec} (hw : w ∈ a.puts) : flow w.1 ∈ keysOf flow (a.puts.map (·.1)) :=
  mem_keysOf (List.mem_map_of_mem hw)

/-! ## the `put` history -/

/-- the waiting packets are pairwise different -/
theorem items_nodup (hi : AInv N scale size F flow cfg d1 L a now) : a.items.Nodup := by
  have : a.puts.Nodup := hi.mono.imp (fun {x y} h hxy => by rw [hxy] at h; exact lt_irrefl _ h.1)
  exact hi.sub.nodup this

theorem not_mem_erase (hi : AInv N scale size F flow cfg d1 L a now) (w : PutRec) : w ∉ a.items.erase w :=
  fun h => ((items_nodup hi).mem_erase_iff.mp h).1 rfl

/-! ## counting the waiting packets of a flow -/

theorem nItems_nonneg (l : List PutRec) (f : Nat) : 0 ≤ nItems flow l f := Int.natCast_nonneg _

theorem ind_nonneg (o : Option Int) (f : Nat) : 0 ≤ ind flow o f := by
  cases o with
  | none => exact le_refl _
  | some id =>
    show 0 ≤ (if flow id = f then (1 : Int) else 0)
    split <;> omega

theorem ind_some (id : Int) (f : Nat) : ind flow (some id) f = if flow id = f then 1 else 0 := rfl

theorem ind_none (f : Nat) : ind flow none f = 0 := rfl

theorem nItems_snoc (l : List PutRec) (w : PutRec) (f : Nat) :
    nItems flow (l ++ [w]) f = nItems flow l f + (if flow w.1 = f then 1 else 0) := by
  unfold nItems
  rw [List.filter_append, List.length_append]
  by_cases h : flow w.1 = f <;> simp [h]

/-- taking a waiting packet out lowers the count of its flow by one -/
theorem nItems_erase {l : List PutRec} {w : PutRec} (hw : w ∈ l) (f : Nat) :
    nItems flow l f = nItems flow (l.erase w) f + (if flow w.1 = f then 1 else 0) := by
  unfold nItems
  have := ((List.perm_cons_erase hw).filter (fun w => decide (flow w.1 = f))).length_eq
  rw [this]
  by_cases h : flow w.1 = f <;> simp [h]

/-- a packet not yet counted out of `queue_count` is not yet booked out of `class_count` either -/
theorem ind_held_le (r : RPhase) (f : Nat) : ind flow r.held f ≤ ind flow r.heldC f := by
  cases r with
  | F p id q => exact ind_nonneg _ _
  | _ => exact le_refl _

theorem sumFrom_zero (g : Nat → Int) : ∀ (n c : Nat), (∀ f, c ≤ f → f < c + n → g f = 0) → sumFrom g c n = 0
  | 0, _, _ => rfl
  | n + 1, c, h => by
    unfold sumFrom
    rw [h c (le_refl _) (by omega), sumFrom_zero g n (c + 1) (fun f h1 h2 => h f (by omega) (by omega))]
    rfl

theorem cls_nonneg (hi : AInv N scale size F flow cfg d1 L a now) {c : Nat} (hc : c < F) : 0 ≤ (a.cls c).getD 0 := by
  rw [hi.clsOK c hc]
  have := nItems_nonneg (flow := flow) a.items c
  have := ind_nonneg (flow := flow) a.run.heldC c
  omega

/-- `total_packets ≠ 0`: some class is active -/
theorem act_of_total (hi : AInv N scale size F flow cfg d1 L a now) (h : a.total F ≠ 0) : ∃ c, c < F ∧ a.act c = true := by
  by_contra hno
  apply h
  unfold A.total
  apply sumFrom_zero
  intro f _ hf
  have hfF : f < F := by omega
  by_contra hne
  apply hno
  refine ⟨f, hfF, (hi.actOK f hfF).mpr ?_⟩
  have h1 := hi.cntOK f hfF
  have h2 := hi.clsOK f hfF
  have h3 := nItems_nonneg (flow := flow) a.items f
  have h4 := ind_nonneg (flow := flow) a.run.held f
  have h5 := ind_held_le (flow := flow) a.run f
  omega

/-! ## the work list -/

theorem workOK_tail {x : ℚ × Int} {l : List (ℚ × Int)} (hw : WorkOK N size F flow cfg d1 (x :: l)) :
    WorkOK N size F flow cfg d1 l :=
  ⟨fun y hy => hw.gap y (List.mem_cons_of_mem _ hy), by
    have := hw.inc
    rw [List.map_cons] at this
    exact (List.pairwise_cons.mp this).2⟩

theorem workOK_head_lt {g : ℚ} {id : Int} {l : List (ℚ × Int)} (hw : WorkOK N size F flow cfg d1 ((g, id) :: l)) :
    ∀ x ∈ l, id < x.2 := by
  have := hw.inc
  rw [List.map_cons] at this
  intro x hx
  exact (List.pairwise_cons.mp this).1 x.2 (List.mem_map_of_mem hx)

theorem srcA_congr {a a' : A} (h : a'.puts = a.puts) {s : SPhase} (hs : SrcA N size F flow cfg a now d1 s) :
    SrcA N size F flow cfg a' now d1 s := by
  cases s with
  | init q arr => exact ⟨hs.1, hs.2.1, hs.2.2.1, hs.2.2.2.1, h.trans hs.2.2.2.2⟩
  | wait id rest q => exact ⟨hs.1, hs.2.1, hs.2.2.1, fun w hw => hs.2.2.2 w (h ▸ hw)⟩
  | ending q => exact hs
  | done => trivial

/-- where the source goes next: the invariant of the new phase, its entry, its measure -/
theorem srcNext_ok {arr : List (ℚ × Int)} (hw : WorkOK N size F flow cfg d1 arr) (t : ℚ) (ht : OnGrid d1 t) (eid ev : Nat)
    (hp : ∀ x ∈ arr, ∀ w ∈ a.puts, w.1 < x.2) :
    SrcA N size F flow cfg a t d1 (srcNext t eid ev arr) ∧
    (∀ x ∈ (srcNext t eid ev arr).entries, t ≤ x.time ∧ OnGrid d1 x.time) ∧
    (srcNext t eid ev arr).mu ≤ 6 * arr.length + 1 := by
  cases arr with
  | nil =>
    refine ⟨⟨rfl, rfl⟩, ?_, by simp [srcNext, SPhase.mu]⟩
    simp only [srcNext, SPhase.entries, List.mem_singleton]
    rintro y rfl
    exact ⟨le_refl _, ht⟩
  | cons x r =>
    obtain ⟨gap, id⟩ := x
    have h1 := hw.gap (gap, id) (by simp)
    refine ⟨⟨rfl, ⟨?_, hw.inc⟩, onGrid_add ht h1.2.2.2.2.1, hp (gap, id) (by simp)⟩, ?_, by simp [srcNext, SPhase.mu]; omega⟩
    · intro y hy
      rcases List.mem_cons.mp hy with rfl | hy
      · exact ⟨le_refl _, h1.2.1, h1.2.2.1, h1.2.2.2.1, onGrid_zero, h1.2.2.2.2.2⟩
      · exact hw.gap y (List.mem_cons_of_mem _ hy)
    · simp only [srcNext, SPhase.entries, List.mem_singleton]
      rintro y rfl
      refine ⟨?_, onGrid_add ht h1.2.2.2.2.1⟩
      show t ≤ t + gap
      linarith [h1.1]

/-! ## steps that leave the `put` history and the WFQ attributes alone -/

theorem ainv_gen (hi : AInv N scale size F flow cfg d1 L a q.time) (a' : A)
    (hr : RunA size F flow cfg a' q.time d1 a'.run) (hrd : ∀ x ∈ a'.run.entries, q.time ≤ x.time ∧ OnGrid d1 x.time)
    (hs : SrcA N size F flow cfg a' q.time d1 a'.src) (hsd : ∀ x ∈ a'.src.entries, q.time ≤ x.time ∧ OnGrid d1 x.time)
    (hpend : ∀ u ∈ a'.pend, u ∈ a.pend) (hputs : a'.puts = a.puts)
    (hattr : a'.vtime = a.vtime ∧ a'.last = a.last ∧ a'.fset = a.fset ∧ a'.fin = a.fin ∧ a'.cls = a.cls ∧ a'.act = a.act)
    (hitems : a'.items.Sublist a.items)
    (hkeys : ∀ f, f ∉ keysOf flow (a.puts.map (·.1)) → a'.cnt f = a.cnt f ∧ a'.byt f = a.byt f)
    (hcnt : ∀ f, f < F → a'.cnt f = nItems flow a'.items f + ind flow a'.run.held f)
    (hcls : ∀ c, c < F → (a.cls c).getD 0 = nItems flow a'.items c + ind flow a'.run.heldC c) :
    AInv N scale size F flow cfg d1 L a' q.time := by
  obtain ⟨e1, e2, e3, e4, e5, e6⟩ := hattr
  refine ⟨hr, hs, fun u hu => hi.pend u (hpend u hu), ?_, ?_, ?_, ?_, ?_, hcnt, ?_, ?_, ?_, ?_, ?_, ?_, ?_, ?_, ?_,
    hi.cfgOK, hi.grid⟩
  · intro x hx
    simp only [A.entries, List.mem_append] at hx
    rcases hx with hx | hx | hx
    · exact (hrd x hx).1
    · exact (hsd x hx).1
    · exact hi.due x (mem_pend (hpend x hx))
  · rw [hputs]; exact hitems.trans hi.sub
  · rw [hputs]; exact hi.mono
  · rw [hputs]; exact hi.putOK
  · intro f hf
    rw [hputs, e5]
    refine ⟨fun hk => ?_, (hi.keysOK f hf).2⟩
    obtain ⟨h1, h2⟩ := hkeys f hk
    rw [h1, h2]; exact (hi.keysOK f hf).1 hk
  · intro c hc; rw [e5]; exact hcls c hc
  · intro c hc; rw [e5, e6]; exact hi.actOK c hc
  · rw [hputs, e3]; exact hi.fsetOK
  · intro hpe
    rw [e2]
    apply hi.pendLast
    obtain ⟨u, hu⟩ := List.exists_mem_of_ne_nil _ hpe
    exact List.ne_nil_of_mem (hpend u hu)
  · rw [e2]; exact hi.lastG
  · rw [e2]; exact hi.lastLe
  · rw [e1]; exact hi.vtG
  · rw [e4]; exact hi.finG
  · intro x hx
    simp only [A.entries, List.mem_append] at hx
    rcases hx with hx | hx | hx
    · exact (hrd x hx).2
    · exact (hsd x hx).2
    · exact hi.entG x (mem_pend (hpend x hx))

/-! ## the bookkeeping of `run` after a transmission -/

/-- the configuration after `A.afterDone` (phase `F`, packet `id0`) with the new phase `a'.run` and store `a'.items` -/
theorem ainv_done (hi : AInv N scale size F flow cfg d1 L a q.time) {p : EvId} {id0 : Int} (h0 : a.run = .F p id0 q) (a' : A)
    (e_src : a'.src = a.src) (e_pend : a'.pend = a.pend) (e_cnt : a'.cnt = a.cnt) (e_byt : a'.byt = a.byt)
    (e_puts : a'.puts = a.puts) (e_fset : a'.fset = a.fset) (e_last : a'.last = q.time)
    (e_vt : a'.vtime = if nAct (actAfter a (flow id0)) 0 F 0 = 0 then 0 else a.vtime + (q.time - a.last) / a.ws F cfg)
    (e_fin : a'.fin = if nAct (actAfter a (flow id0)) 0 F 0 = 0 then fun _ => 0 else a.fin)
    (e_cls : a'.cls = upd a.cls (flow id0) (some ((a.cls (flow id0)).getD 0 - 1)))
    (e_act : a'.act = actAfter a (flow id0))
    (hr : RunA size F flow cfg a' q.time d1 a'.run) (hrd : ∀ x ∈ a'.run.entries, q.time ≤ x.time ∧ OnGrid d1 x.time)
    (hitems : a'.items.Sublist a.items)
    (hcnt : ∀ f, f < F → a.cnt f = nItems flow a'.items f + ind flow a'.run.held f)
    (hcls : ∀ c, c < F → nItems flow a.items c = nItems flow a'.items c + ind flow a'.run.heldC c) :
    AInv N scale size F flow cfg d1 L a' q.time := by
  have hrun := hi.run
  rw [h0] at hrun
  obtain ⟨-, -, -, hfid, w0, hw0, hw0id⟩ := hrun
  have hqe : q ∈ a.entries := mem_run (by simp [h0, RPhase.entries])
  have hqG : OnGrid d1 q.time := hi.entG q hqe
  have hkey : flow id0 ∈ keysOf flow (a.puts.map (·.1)) := hw0id ▸ flow_mem_keys hw0
  -- the class of the departed packet is booked in and active
  have hc0 : (a.cls (flow id0)).getD 0 = nItems flow a.items (flow id0) + 1 := by
    have := hi.clsOK (flow id0) hfid
    rw [h0] at this
    rw [this]
    show _ + ind flow (some id0) (flow id0) = _
    rw [ind_some, if_pos rfl]
  have hact0 : a.act (flow id0) = true := by
    refine (hi.actOK _ hfid).mpr ?_
    have := nItems_nonneg (flow := flow) a.items (flow id0)
    omega
  have hsrc : ∀ x ∈ a.src.entries, q.time ≤ x.time ∧ OnGrid d1 x.time :=
    fun x hx => ⟨hi.due x (mem_src hx), hi.entG x (mem_src hx)⟩
  refine ⟨hr, ?_, ?_, ?_, ?_, ?_, ?_, ?_, ?_, ?_, ?_, ?_, fun _ => e_last, ?_, ?_, ?_, ?_, ?_, hi.cfgOK, hi.grid⟩
  · rw [e_src]; exact srcA_congr e_puts hi.src
  · rw [e_pend]; exact hi.pend
  · intro x hx
    simp only [A.entries, List.mem_append] at hx
    rcases hx with hx | hx | hx
    · exact (hrd x hx).1
    · rw [e_src] at hx; exact (hsrc x hx).1
    · rw [e_pend] at hx; exact hi.due x (mem_pend hx)
  · rw [e_puts]; exact hitems.trans hi.sub
  · rw [e_puts]; exact hi.mono
  · rw [e_puts]; exact hi.putOK
  · intro f hf
    rw [e_puts, e_cnt, e_byt, e_cls]
    constructor
    · intro hk
      have hne : f ≠ flow id0 := fun h1 => hk (h1 ▸ hkey)
      rw [upd_ne _ _ _ _ hne]
      exact (hi.keysOK f hf).1 hk
    · intro hk
      rw [upd_apply]
      split
      · exact ⟨_, rfl⟩
      · exact (hi.keysOK f hf).2 hk
  · intro f hf; rw [e_cnt]; exact hcnt f hf
  · intro c hc
    rw [e_cls, ← hcls c hc, upd_apply]
    by_cases hcc : c = flow id0
    · rw [if_pos hcc, hcc]
      show (a.cls (flow id0)).getD 0 - 1 = _
      omega
    · rw [if_neg hcc]
      have := hi.clsOK c hc
      rw [h0] at this
      rw [this]
      show _ + ind flow (some id0) c = _
      rw [ind_some, if_neg (fun h1 => hcc h1.symm)]
      omega
  · intro c hc
    rw [e_act, e_cls, upd_apply]
    unfold actAfter
    have hn := nItems_nonneg (flow := flow) a.items (flow id0)
    by_cases hcc : c = flow id0
    · rw [if_pos hcc, hcc]
      show _ ↔ 0 < (a.cls (flow id0)).getD 0 - 1
      by_cases hz : (a.cls (flow id0)).getD 0 - 1 = 0
      · rw [if_pos hz, upd_same, hz]
        simp
      · rw [if_neg hz, hact0]
        constructor
        · intro _; omega
        · intro _; rfl
    · rw [if_neg hcc]
      split
      · rw [upd_ne _ _ _ _ hcc]; exact hi.actOK c hc
      · exact hi.actOK c hc
  · rw [e_puts, e_fset]; exact hi.fsetOK
  · rw [e_last]; exact hqG
  · rw [e_last]
  · rw [e_vt]
    split
    · exact onGrid_zero
    · exact onGrid_adv hi.cfgOK hi.grid a hqG hi.lastG hi.vtG ⟨flow id0, hfid, hact0⟩
  · intro c hc
    rw [e_fin]
    split
    · exact onGrid_zero
    · exact hi.finG c hc
  · intro x hx
    simp only [A.entries, List.mem_append] at hx
    rcases hx with hx | hx | hx
    · exact (hrd x hx).2
    · rw [e_src] at hx; exact (hsrc x hx).2
    · rw [e_pend] at hx; exact hi.entG x (mem_pend hx)

/-! ## the `put` -/

theorem ainv_put (hi : AInv N scale size F flow cfg d1 L a q.time) (hq : IsMin a q) {id : Int} {arr : List (ℚ × Int)}
    (h : a.src = .wait id arr q) :
    AInv N scale size F flow cfg d1 L { a.afterPut size F flow cfg q.time id with
        src := srcNext q.time (e + 1) (n + 1) arr
        pend := a.pend ++ [⟨q.time, NORMAL, e, n⟩] } q.time := by
  obtain ⟨pr, hpr⟩ : ∃ pr, pr = putRec size F flow cfg a q.time id := ⟨_, rfl⟩
  have hpr1 : pr.1 = id := by rw [hpr]; rfl
  have hpr2 : pr.2.1 = q.time := by rw [hpr]; rfl
  have hpr3 : pr.2.2 = WFQ.stampOf cfg (a.advFin F (flow id)) (a.advV F cfg q.time) (wOf cfg (flow id)) (size id) := by
    rw [hpr]; rfl
  generalize ha' : ({ a.afterPut size F flow cfg q.time id with
        src := srcNext q.time (e + 1) (n + 1) arr
        pend := a.pend ++ [⟨q.time, NORMAL, e, n⟩] } : A) = a'
  have e_run : a'.run = a.run := by rw [← ha']; rfl
  have e_src : a'.src = srcNext q.time (e + 1) (n + 1) arr := by rw [← ha']
  have e_pend : a'.pend = a.pend ++ [⟨q.time, NORMAL, e, n⟩] := by rw [← ha']
  have e_items : a'.items = a.items ++ [pr] := by rw [← ha', hpr]; rfl
  have e_cnt : a'.cnt = upd a.cnt (flow id) (a.cnt (flow id) + 1) := by rw [← ha']; rfl
  have e_byt : a'.byt = upd a.byt (flow id) (a.byt (flow id) + (size id : Int)) := by rw [← ha']; rfl
  have e_cur : a'.cur = a.cur := by rw [← ha']; rfl
  have e_vt : a'.vtime = a.advV F cfg q.time := by rw [← ha']; rfl
  have e_last : a'.last = q.time := by rw [← ha']; rfl
  have e_fset : a'.fset = true := by rw [← ha']; rfl
  have e_fin : a'.fin = upd (a.advFin F) (flow id) pr.2.2 := by rw [← ha', hpr]; rfl
  have e_cls : a'.cls = upd a.cls (flow id) (some ((a.cls (flow id)).getD 0 + 1)) := by rw [← ha']; rfl
  have e_act : a'.act = upd a.act (flow id) true := by rw [← ha']; rfl
  have e_puts : a'.puts = a.puts ++ [pr] := by rw [← ha', hpr]; rfl
  clear ha' hpr
  have hs := hi.src
  rw [h] at hs
  obtain ⟨hqp, hwk, hqG, hlt⟩ := hs
  have hid := hwk.gap (0, id) (by simp)
  have hfid : flow id < F := hid.2.1
  have hvG : OnGrid scale (a.advV F cfg q.time) := by
    unfold A.advV
    split
    · exact onGrid_zero
    · rename_i ht
      exact onGrid_adv hi.cfgOK hi.grid a hqG hi.lastG hi.vtG (act_of_total hi ht)
  have hfG : ∀ c, c < F → OnGrid scale (a.advFin F c) := by
    intro c hc
    unfold A.advFin
    split
    · exact onGrid_zero
    · exact hi.finG c hc
  have hstamp : OnGrid scale pr.2.2 := by
    rw [hpr3]
    exact onGrid_stamp_cls hi.cfgOK hi.grid (hfG _ hfid) hvG size id hid.2.2.2.2.2 hfid
  have hlt' := workOK_head_lt hwk
  have hnext := srcNext_ok (a := a') (workOK_tail hwk) q.time hqG (e + 1) (n + 1) (by
    intro x hx w hw
    rw [e_puts] at hw
    rcases List.mem_append.mp hw with hw | hw
    · exact lt_trans (hlt w hw) (hlt' x hx)
    · rw [List.mem_singleton.mp hw, hpr1]; exact hlt' x hx)
  have hrun := hi.run
  refine ⟨?_, ?_, ?_, ?_, ?_, ?_, ?_, ?_, ?_, ?_, ?_, fun _ => e_fset, fun _ => e_last, ?_, ?_, ?_, ?_, ?_,
    hi.cfgOK, hi.grid⟩
  · rw [e_run]
    cases hr : a.run with
    | init q0 =>
      rw [hr] at hrun
      exact (hi.not_prio_lt hq (mem_run (by simp [hr, RPhase.entries])) hrun.1 (by rw [hrun.2.1, hqp]; decide)).elim
    | W g =>
      rw [hr] at hrun
      exact ⟨fun _ => by rw [e_pend]; simp, by rw [e_cur]; exact hrun.2⟩
    | H g w q0 =>
      rw [hr] at hrun
      obtain ⟨h1, h2, h3, h4, h5, h6⟩ := hrun
      refine ⟨h1, h2, by rw [e_cur]; exact h3, by rw [e_puts]; exact List.mem_append_left _ h4, ?_, e_last⟩
      rw [e_items]
      intro h7
      rcases List.mem_append.mp h7 with h7 | h7
      · exact h5 h7
      · have := hlt w h4
        rw [List.mem_singleton.mp h7, hpr1] at this
        exact lt_irrefl _ this
    | S p id0 q0 =>
      rw [hr] at hrun
      obtain ⟨h1, h2, h3, h4, ⟨w, h5, h6⟩, h7⟩ := hrun
      exact ⟨h1, h2, by rw [e_cur]; exact h3, h4, ⟨w, by rw [e_puts]; exact List.mem_append_left _ h5, h6⟩, h7⟩
    | T p t id0 q0 =>
      rw [hr] at hrun
      obtain ⟨h2, h3, h4, w, h5, h6⟩ := hrun
      exact ⟨h2, by rw [e_cur]; exact h3, h4, w, by rw [e_puts]; exact List.mem_append_left _ h5, h6⟩
    | F p id0 q0 =>
      rw [hr] at hrun
      obtain ⟨h1, h2, h3, h4, w, h5, h6⟩ := hrun
      exact ⟨h1, h2, by rw [e_cur]; exact h3, h4, w, by rw [e_puts]; exact List.mem_append_left _ h5, h6⟩
  · rw [e_src]; exact hnext.1
  · intro u hu
    rw [e_pend] at hu
    rcases List.mem_append.mp hu with hu | hu
    · exact hi.pend u hu
    · rw [List.mem_singleton.mp hu]; exact ⟨rfl, rfl⟩
  · intro x hx
    simp only [A.entries, List.mem_append, e_run, e_src, e_pend] at hx
    rcases hx with hx | hx | hx | hx
    · exact hi.due x (mem_run hx)
    · exact (hnext.2.1 x hx).1
    · exact hi.due x (mem_pend hx)
    · rw [List.mem_singleton.mp hx]
  · rw [e_items, e_puts]; exact List.Sublist.append hi.sub (List.Sublist.refl _)
  · rw [e_puts]
    refine List.pairwise_append.mpr ⟨hi.mono, List.pairwise_singleton _ _, ?_⟩
    intro x hx y hy
    rw [List.mem_singleton.mp hy, hpr1, hpr2]
    exact ⟨hlt x hx, (hi.putOK x hx).2.2.2.1⟩
  · intro w hw
    rw [e_puts] at hw
    rcases List.mem_append.mp hw with hw | hw
    · exact hi.putOK w hw
    · rw [List.mem_singleton.mp hw, hpr1, hpr2]
      exact ⟨hfid, hid.2.2.1, hid.2.2.2.1, le_refl _, hstamp, hid.2.2.2.2.2⟩
  · intro f hf
    have hk : keysOf flow (a'.puts.map (·.1)) = addKey (keysOf flow (a.puts.map (·.1))) (flow id) := by
      rw [e_puts, List.map_append, List.map_singleton, keysOf_snoc, hpr1]
    rw [hk, e_cnt, e_byt, e_cls]
    constructor
    · intro hn
      have hk1 : f ∉ keysOf flow (a.puts.map (·.1)) := fun h1 => hn ((mem_addKey _ _ _).mpr (Or.inl h1))
      have hk2 : f ≠ flow id := fun h1 => hn ((mem_addKey _ _ _).mpr (Or.inr h1))
      rw [upd_ne _ _ _ _ hk2, upd_ne _ _ _ _ hk2, upd_ne _ _ _ _ hk2]
      exact (hi.keysOK f hf).1 hk1
    · intro hm
      rw [upd_apply]
      split
      · exact ⟨_, rfl⟩
      · rename_i hne
        rcases (mem_addKey _ _ _).mp hm with h1 | h1
        · exact (hi.keysOK f hf).2 h1
        · exact absurd h1 hne
  · intro f hf
    rw [e_cnt, e_items, e_run, nItems_snoc, hpr1, upd_apply]
    have := hi.cntOK f hf
    by_cases hff : f = flow id
    · subst hff
      rw [if_pos rfl, if_pos rfl]
      omega
    · rw [if_neg hff, if_neg (fun h1 => hff h1.symm)]
      omega
  · intro c hc
    rw [e_cls, e_items, e_run, nItems_snoc, hpr1, upd_apply]
    have := hi.clsOK c hc
    by_cases hcc : c = flow id
    · subst hcc
      rw [if_pos rfl, if_pos rfl]
      show (a.cls (flow id)).getD 0 + 1 = _
      omega
    · rw [if_neg hcc, if_neg (fun h1 => hcc h1.symm)]
      omega
  · intro c hc
    rw [e_act, e_cls, upd_apply, upd_apply]
    by_cases hcc : c = flow id
    · subst hcc
      rw [if_pos rfl, if_pos rfl]
      show _ ↔ 0 < (a.cls (flow id)).getD 0 + 1
      have := cls_nonneg hi hc
      constructor
      · intro _; omega
      · intro _; rfl
    · rw [if_neg hcc, if_neg hcc]
      exact hi.actOK c hc
  · rw [e_last]; exact hqG
  · rw [e_last]
  · rw [e_vt]; exact hvG
  · intro c hc
    rw [e_fin, upd_apply]
    split
    · exact hstamp
    · exact hfG c hc
  · intro x hx
    simp only [A.entries, List.mem_append, e_run, e_src, e_pend] at hx
    rcases hx with hx | hx | hx | hx
    · exact hi.entG x (mem_run hx)
    · exact (hnext.2.1 x hx).2
    · exact hi.entG x (mem_pend hx)
    · rw [List.mem_singleton.mp hx]; exact hqG

/-! ## every step -/

theorem erase_pend_mem {l1 l2 : List (QEntry ℚ)} (hpe : a.pend = l1 ++ q :: l2) : ∀ u ∈ l1 ++ l2, u ∈ a.pend := by
  intro u hu
  rw [hpe]
  rcases List.mem_append.mp hu with h | h
  · exact List.mem_append_left _ h
  · exact List.mem_append_right _ (List.mem_cons_of_mem _ h)

/-- **every configuration step is sound**: it keeps `AInv` (at the instant of the processed entry) and uses up the measure -/
theorem astep_sound (hi : AInv N scale size F flow cfg d1 L a now) (hq : IsMin a q)
    (h : AStep N scale size F flow cfg n e a q a' new) : AInv N scale size F flow cfg d1 L a' q.time ∧ a'.mu + 1 ≤ a.mu := by
  have hi := hi.advance hq
  have hrun := hi.run
  have hqG : OnGrid d1 q.time := hi.entG q hq.1
  have hsrc0 : ∀ x ∈ a.src.entries, q.time ≤ x.time ∧ OnGrid d1 x.time :=
    fun x hx => ⟨hi.due x (mem_src hx), hi.entG x (mem_src hx)⟩
  have hrun0 : ∀ x ∈ a.run.entries, q.time ≤ x.time ∧ OnGrid d1 x.time :=
    fun x hx => ⟨hi.due x (mem_run hx), hi.entG x (mem_run hx)⟩
  have hat : a.vtime = a.vtime ∧ a.last = a.last ∧ a.fset = a.fset ∧ a.fin = a.fin ∧ a.cls = a.cls ∧ a.act = a.act :=
    ⟨rfl, rfl, rfl, rfl, rfl, rfl⟩
  cases h with
  | runInit h0 =>
    rw [h0] at hrun
    obtain ⟨-, -, hpe, hit, hcur, hpu⟩ := hrun
    refine ⟨ainv_gen hi _ ⟨fun h1 => absurd hit h1, hcur⟩ (by simp [RPhase.entries]) (srcA_congr rfl hi.src) hsrc0
      (fun u hu => hu) rfl hat (List.Sublist.refl _) (fun f _ => ⟨rfl, rfl⟩) ?_ ?_, ?_⟩
    · intro f hf; have := hi.cntOK f hf; rw [h0] at this; exact this
    · intro c hc; have := hi.clsOK c hc; rw [h0] at this; exact this
    · simp only [A.mu, RPhase.mu, h0]; omega
  | pktResume g w h0 =>
    rw [h0] at hrun
    obtain ⟨-, -, hcur, hwp, -, -⟩ := hrun
    refine ⟨ainv_gen hi _ ⟨rfl, rfl, hcur, (hi.putOK w hwp).1, ⟨w, hwp, rfl⟩, (hi.putOK w hwp).2.2.2.2.2⟩ ?_
      (srcA_congr rfl hi.src) hsrc0 (fun u hu => hu) rfl hat (List.Sublist.refl _) (fun f _ => ⟨rfl, rfl⟩) ?_ ?_, ?_⟩
    · simp only [RPhase.entries, List.mem_singleton]; rintro x rfl; exact ⟨le_refl _, hqG⟩
    · intro f hf; have := hi.cntOK f hf; rw [h0] at this; exact this
    · intro c hc; have := hi.clsOK c hc; rw [h0] at this; exact this
    · simp only [A.mu, RPhase.mu, h0]; omega
  | sendInit p id h0 =>
    rw [h0] at hrun
    obtain ⟨-, -, hcur, hfid, hex, htx⟩ := hrun
    have hd := txTime_nonneg (size := size) hi.cfgOK.rate id
    refine ⟨ainv_gen hi _ ⟨rfl, rfl, hfid, hex⟩ ?_
      (srcA_congr rfl hi.src) hsrc0 (fun u hu => hu) rfl hat (List.Sublist.refl _) (fun f _ => ⟨rfl, rfl⟩) ?_ ?_, ?_⟩
    · simp only [RPhase.entries, List.mem_singleton]
      rintro x rfl
      refine ⟨?_, onGrid_add hqG htx⟩
      show q.time ≤ q.time + _
      linarith
    · intro f hf; have := hi.cntOK f hf; rw [h0] at this; exact this
    · intro c hc; have := hi.clsOK c hc; rw [h0] at this; exact this
    · simp only [A.mu, RPhase.mu, h0]; omega
  | sendFire p t id h0 =>
    rw [h0] at hrun
    obtain ⟨-, hcur, hfid, w, hwp, hwid⟩ := hrun
    refine ⟨ainv_gen hi _ ⟨rfl, rfl, rfl, hfid, w, hwp, hwid⟩ ?_
      (srcA_congr rfl hi.src) hsrc0 (fun u hu => hu) rfl hat (List.Sublist.refl _) ?_ ?_ ?_, ?_⟩
    · simp only [RPhase.entries, List.mem_singleton]; rintro x rfl; exact ⟨le_refl _, hqG⟩
    · intro f hf
      have hff : f ≠ flow id := by
        rintro rfl
        exact hf (hwid ▸ flow_mem_keys hwp)
      exact ⟨upd_ne _ _ _ _ hff, upd_ne _ _ _ _ hff⟩
    · intro f hf
      have := hi.cntOK f hf
      rw [h0] at this
      show upd a.cnt (flow id) (a.cnt (flow id) + -1) f = nItems flow a.items f + 0
      have h2 : ind flow (RPhase.T p t id q).held f = if flow id = f then 1 else 0 := rfl
      rw [h2] at this
      rw [upd_apply]
      by_cases hff : f = flow id
      · subst hff
        rw [if_pos rfl] at this ⊢
        omega
      · rw [if_neg hff]
        rw [if_neg (fun h1 => hff h1.symm)] at this
        omega
    · intro c hc; have := hi.clsOK c hc; rw [h0] at this; exact this
    · simp only [A.mu, RPhase.mu, h0]; omega
  | doneHit p id0 w h0 hw =>
    rw [h0] at hrun
    obtain ⟨-, -, hcur, -⟩ := hrun
    refine ⟨ainv_done hi h0 _ rfl rfl rfl rfl rfl rfl rfl rfl rfl rfl rfl
      ⟨rfl, rfl, hcur, hi.sub.subset hw.1, not_mem_erase hi w, rfl⟩ ?_ List.erase_sublist ?_ ?_, ?_⟩
    · simp only [RPhase.entries, List.mem_singleton]; rintro x rfl; exact ⟨le_refl _, hqG⟩
    · intro f hf
      have := hi.cntOK f hf
      rw [h0] at this
      show a.cnt f = nItems flow (a.items.erase w) f + ind flow (some w.1) f
      rw [this, nItems_erase hw.1 f]
      show _ + ind flow none f = _
      rw [ind_none, ind_some]
      omega
    · intro c hc
      show nItems flow a.items c = nItems flow (a.items.erase w) c + ind flow (some w.1) c
      rw [nItems_erase hw.1 c, ind_some]
    · have := List.length_erase_of_mem hw.1
      have hpos := List.length_pos_of_mem hw.1
      simp only [A.mu, RPhase.mu, h0, this, A.afterDone]; omega
  | doneBlock p id0 h0 hit =>
    rw [h0] at hrun
    obtain ⟨-, -, hcur, -⟩ := hrun
    refine ⟨ainv_done hi h0 _ rfl rfl rfl rfl rfl rfl rfl rfl rfl rfl rfl
      ⟨fun h1 => absurd hit h1, hcur⟩ (by simp [RPhase.entries]) (List.Sublist.refl _) ?_ ?_, ?_⟩
    · intro f hf; have := hi.cntOK f hf; rw [h0] at this; exact this
    · intro c hc
      show nItems flow a.items c = nItems flow a.items c + ind flow none c
      rw [ind_none]
      omega
    · simp only [A.mu, RPhase.mu, h0, A.afterDone]; omega
  | srcInit arr h0 =>
    have hs := hi.src
    rw [h0] at hs
    obtain ⟨-, ht0, -, hwk, hpu⟩ := hs
    have hnext := srcNext_ok (a := { a with src := srcNext q.time e n arr }) hwk q.time hqG e n
      (by intro x _ w hw; rw [show ({ a with src := srcNext q.time e n arr } : A).puts = a.puts from rfl, hpu] at hw; cases hw)
    refine ⟨ainv_gen hi _ hi.run hrun0 hnext.1 hnext.2.1 (fun u hu => hu) rfl hat (List.Sublist.refl _)
      (fun f _ => ⟨rfl, rfl⟩) hi.cntOK hi.clsOK, ?_⟩
    have := hnext.2.2
    simp only [A.mu, SPhase.mu, h0] at this ⊢; omega
  | srcPut id arr h0 =>
    refine ⟨ainv_put hi hq h0, ?_⟩
    have hs := hi.src
    rw [h0] at hs
    have hnext := srcNext_ok (a := a) (workOK_tail hs.2.1) q.time hs.2.2.1 (e + 1) (n + 1)
      (fun x hx w hw => lt_trans (hs.2.2.2 w hw) (workOK_head_lt hs.2.1 x hx))
    have := hnext.2.2
    simp only [A.mu, SPhase.mu, h0, A.afterPut, List.length_append, List.length_singleton] at this ⊢; omega
  | srcEnd h0 =>
    refine ⟨ainv_gen hi _ hi.run hrun0 trivial (by simp [SPhase.entries]) (fun u hu => hu) rfl hat (List.Sublist.refl _)
      (fun f _ => ⟨rfl, rfl⟩) hi.cntOK hi.clsOK, ?_⟩
    simp only [A.mu, SPhase.mu, h0]; omega
  | pendNoop l1 l2 hpe hno =>
    refine ⟨ainv_gen hi _ ?_ hrun0 (srcA_congr rfl hi.src) hsrc0 (erase_pend_mem hpe) rfl hat (List.Sublist.refl _)
      (fun f _ => ⟨rfl, rfl⟩) hi.cntOK hi.clsOK, ?_⟩
    · show RunA size F flow cfg _ q.time d1 a.run
      cases hr : a.run with
      | init q0 =>
        rw [hr] at hrun
        rw [hrun.2.2.1] at hpe
        simp at hpe
      | W g =>
        rw [hr] at hrun
        refine ⟨fun h1 => (hno ⟨h1, g, hr⟩).elim, hrun.2⟩
      | H g w q0 => rw [hr] at hrun; exact hrun
      | S p id0 q0 => rw [hr] at hrun; exact hrun
      | T p t id0 q0 => rw [hr] at hrun; exact hrun
      | F p id0 q0 => rw [hr] at hrun; exact hrun
    · simp only [A.mu, hpe, List.length_append, List.length_cons]; omega
  | pendHand g w l1 l2 hpe h0 hw =>
    rw [h0] at hrun
    have hlast : a.last = q.time := hi.pendLast (by rw [hpe]; simp)
    refine ⟨ainv_gen hi _ ⟨rfl, rfl, hrun.2, hi.sub.subset hw.1, not_mem_erase hi w, hlast⟩ ?_
      (srcA_congr rfl hi.src) hsrc0 (erase_pend_mem hpe) rfl hat List.erase_sublist (fun f _ => ⟨rfl, rfl⟩) ?_ ?_, ?_⟩
    · simp only [RPhase.entries, List.mem_singleton]; rintro x rfl; exact ⟨le_refl _, hqG⟩
    · intro f hf
      have := hi.cntOK f hf
      rw [h0] at this
      show a.cnt f = nItems flow (a.items.erase w) f + ind flow (some w.1) f
      rw [this, nItems_erase hw.1 f]
      show _ + ind flow none f = _
      rw [ind_none, ind_some]
      omega
    · intro c hc
      have := hi.clsOK c hc
      rw [h0] at this
      show (a.cls c).getD 0 = nItems flow (a.items.erase w) c + ind flow (some w.1) c
      rw [this, nItems_erase hw.1 c]
      show _ + ind flow none c = _
      rw [ind_none, ind_some]
      omega
    · have := List.length_erase_of_mem hw.1
      have hpos := List.length_pos_of_mem hw.1
      simp only [A.mu, RPhase.mu, h0, hpe, this, List.length_append, List.length_cons]; omega

/-! ## the history-linked part -/

theorem linv_step {h0 : List (HEv ℚ)} (hl : LInv a h0) (h : AStep N scale size F flow cfg n e a q a' new) :
    LInv a' (h0 ++ new) := by
  obtain ⟨h1, h2, h3⟩ := hl
  cases h with
  | srcPut id arr hs =>
    refine ⟨?_, ?_, ?_⟩
    · simp [List.filterMap_append, h1, putRec, A.afterPut]
    · simp [List.filterMap_append, h2, putRec, A.afterPut]
    · simp [h3, A.afterPut]
  | doneHit p id0 w hr hw =>
    exact ⟨by simp [List.filterMap_append, h1, A.afterDone], by simp [List.filterMap_append, h2, A.afterDone],
      by simp [h3, A.afterDone]⟩
  | doneBlock p id0 hr hit =>
    exact ⟨by simp [List.filterMap_append, h1, A.afterDone], by simp [List.filterMap_append, h2, A.afterDone],
      by simp [h3, A.afterDone]⟩
  | _ => exact ⟨by simp [List.filterMap_append, h1], by simp [List.filterMap_append, h2], by simp [h3]⟩

/-! ## the initial configuration -/

theorem ainv_init {arrivals : List (ℚ × Int)} (hc : CfgOK F cfg) (hg : GridOK scale size F cfg d1 L arrivals)
    (hw : WorkOK N size F flow cfg d1 arrivals) : AInv N scale size F flow cfg d1 L (a0 arrivals) 0 := by
  refine ⟨⟨rfl, rfl, rfl, rfl, rfl, rfl⟩, ⟨rfl, rfl, rfl, hw, rfl⟩, ?_, ?_, List.Sublist.refl _, List.Pairwise.nil, ?_,
    fun _ _ => ⟨fun _ => ⟨rfl, rfl, rfl⟩, fun h => by simp [a0, keysOf] at h⟩, ?_, ?_, ?_, fun h => absurd rfl h,
    fun h => absurd rfl h, onGrid_zero, le_refl _, onGrid_zero, fun _ _ => onGrid_zero, ?_, hc,
    ⟨hg.d1pos, hg.Lpos, hg.sc, hg.div⟩⟩
  · intro u hu; simp [a0] at hu
  · intro x hx
    simp [A.entries, a0, RPhase.entries, SPhase.entries] at hx
    rcases hx with rfl | rfl <;> exact le_refl _
  · intro w hw; simp [a0] at hw
  · intro f _; rfl
  · intro c _; rfl
  · intro c _
    show (false = true ↔ (0 : Int) < 0)
    simp
  · intro x hx
    simp [A.entries, a0, RPhase.entries, SPhase.entries] at hx
    rcases hx with rfl | rfl <;> exact onGrid_zero

theorem linv_init (arrivals : List (ℚ × Int)) : LInv (a0 arrivals) [] := ⟨rfl, rfl, rfl⟩

theorem a0_mu (arrivals : List (ℚ × Int)) : (a0 arrivals).mu = 6 * arrivals.length + 3 := by
  simp [A.mu, a0, RPhase.mu, SPhase.mu]; omega

end WFQK
