import OnlVerif.Lemmas.KernelStep
import OnlVerif.Lemmas.KAccess
import OnlVerif.Lemmas.TimerFire
import OnlVerif.Util.TimerOnK
/-!
# The Timer on the kernel model: canonical configurations (definitions)

`A` is an abstract description of a kernel state of the program `TimerOnK.body`: which process is `self.proc` and where
it is (not started / sleeping / finished), the interrupt that is on its way to the previous process, where the controller
is, the agenda entries that have nothing left to do (timeouts of interrupted processes, process events of finished
generators), the attribute cells.  `KInv s a` says that the kernel state `s` *is* the configuration `a`: it pins down every
part of `s` that `Environment.step` and the generators can read.  `toT a` is the LTS state (`Util/Timer.lean`) the
configuration stands for, `oOf a` the state of the property's oracle (`TimerOnK.ostep`).
-/

namespace TimerK
open TimerOnK
open Timer (CbOp PStat UEv)

abbrev St := TSt ℚ
abbrev KS := KState ℚ St
abbrev Op := CbOp ℚ

/-- where `self.proc` is -/
inductive TPhase where
  /-- not started: its `Initialize` entry `q` is in the agenda -/
  | init (q : QEntry ℚ)
  /-- sleeping on timeout `t` (entry `q`, due at `q.time`) -/
  | sleep (t : EvId) (q : QEntry ℚ)
  /-- the generator has returned (`not is_alive`) -/
  | dead

/-- the previous `self.proc`, still asleep, and the `Interruption` on its way to it -/
structure Old where
  /-- the `Interruption` event -/
  iv : EvId
  /-- the victim -/
  p : EvId
  /-- the timeout the victim sleeps on -/
  t : EvId
  qi : QEntry ℚ
  qt : QEntry ℚ

/-- where the controller is -/
inductive CPhase where
  | init (q : QEntry ℚ) (rest : List (ℚ × Op))
  /-- sleeping on the timeout (entry `q`) after which it calls `op`; `rest` still to come -/
  | wait (op : Op) (rest : List (ℚ × Op)) (q : QEntry ℚ)
  | done

structure A where
  /-- the controller process -/
  cp : EvId
  /-- `self.proc` -/
  cur : EvId
  ph : TPhase
  old : Option Old
  /-- the timer processes that have finished before `cur` was started, oldest first -/
  dead : List EvId
  ctl : CPhase
  /-- entries whose event has no callback left: timeouts of interrupted processes, process events of finished generators -/
  noop : List (QEntry ℚ)
  stopped : Bool
  expire : ℚ
  timeout : ℚ
  start : ℚ
  /-- number of callback invocations so far -/
  fired : Nat

def TPhase.entries : TPhase → List (QEntry ℚ)
  | .init q => [q]
  | .sleep _ q => [q]
  | .dead => []

def Old.entries (o : Old) : List (QEntry ℚ) := [o.qi, o.qt]

def oldEntries : Option Old → List (QEntry ℚ)
  | none => []
  | some o => o.entries

def CPhase.entries : CPhase → List (QEntry ℚ)
  | .init q _ => [q]
  | .wait _ _ q => [q]
  | .done => []

def A.entries (a : A) : List (QEntry ℚ) := a.ph.entries ++ (oldEntries a.old ++ (a.ctl.entries ++ a.noop))

/-- the events a configuration talks about (pairwise different) -/
def TPhase.ids (cur : EvId) : TPhase → List EvId
  | .init q => [cur, q.ev]
  | .sleep t _ => [cur, t]
  | .dead => []

def oldIds : Option Old → List EvId
  | none => []
  | some o => [o.iv, o.p, o.t]

def CPhase.ids (cp : EvId) : CPhase → List EvId
  | .init q _ => [cp, q.ev]
  | .wait _ _ q => [cp, q.ev]
  | .done => []

/-- the events of a list of entries -/
def evs (l : List (QEntry ℚ)) : List EvId := l.map (·.ev)

def A.ids (a : A) : List EvId := a.ph.ids a.cur ++ (oldIds a.old ++ (a.ctl.ids a.cp ++ evs a.noop))

/-- kind, callbacks and outcome of a live event -/
def EvIs (s : KS) (e : EvId) (k : Kind) (cbs : List Cb) (out : Option Outcome) : Prop :=
  (s.ev e).kind = k ∧ (s.ev e).cbs = some cbs ∧ (s.ev e).out = out

/-- an event with nothing left to do: no callbacks, a successful outcome -/
def NoopEv (s : KS) (e : EvId) : Prop :=
  (s.ev e).cbs = some [] ∧ (∃ v, (s.ev e).out = some (.ok v)) ∧ ((s.ev e).kind = .timeout ∨ (s.ev e).kind = .proc)

/-- the exception `Process.interrupt("restart timer")` throws into the victim -/
def intrExc : Exc := ⟨"Interrupt", [.str "restart timer"]⟩

/-! ## the kernel side of a configuration: events, process records, cells -/

def TmEv (s : KS) (cur : EvId) : TPhase → Prop
  | .init q => q.ev = cur + 1 ∧ EvIs s (cur + 1) (.init cur) [.resume cur] (some (.ok .none)) ∧
      s.proc? cur = some { st := .tmStart q.time, target := some (cur + 1) } ∧ EvIs s cur .proc [] none
  | .sleep t q => q.ev = t ∧ EvIs s t .timeout [.resume cur] (some (.ok .none)) ∧
      s.proc? cur = some { st := .tmSleep q.time, target := some t } ∧ EvIs s cur .proc [] none
  | .dead => (s.ev cur).kind = .proc ∧ ∃ o, (s.ev cur).out = some o

def OldEv (s : KS) (o : Old) : Prop :=
  o.qi.ev = o.iv ∧ EvIs s o.iv (.intr o.p) [.intr o.iv] (some (.fail intrExc)) ∧ (s.ev o.iv).defused = true ∧
  o.qt.ev = o.t ∧ EvIs s o.t .timeout [.resume o.p] (some (.ok .none)) ∧
  s.proc? o.p = some { st := .tmSleep o.qt.time, target := some o.t } ∧ EvIs s o.p .proc [] none

def CtlEv (s : KS) (cp : EvId) : CPhase → Prop
  | .init q rest => q.ev = cp + 1 ∧ EvIs s (cp + 1) (.init cp) [.resume cp] (some (.ok .none)) ∧
      s.proc? cp = some { st := .ctl q.time none rest, target := some (cp + 1) } ∧ EvIs s cp .proc [] none
  | .wait op rest q => EvIs s q.ev .timeout [.resume cp] (some (.ok .none)) ∧
      s.proc? cp = some { st := .ctl q.time (some op) rest, target := some q.ev } ∧ EvIs s cp .proc [] none
  | .done => True

/-- the LTS status of the previous process while the `Interruption` is on its way -/
def oldStat : Option Old → List (PStat ℚ)
  | none => []
  | some o => [.sleeping o.qt.time]

/-- an attribute cell as `Call.load` returns it -/
def lookup (l : List (Nat × Val)) (k : Nat) : Val := ((l.find? (·.1 == k)).map (·.2)).getD .none

/-- the kernel state `s` has the configuration `a` -/
structure KInv (s : KS) (a : A) : Prop where
  wf : AgendaWF s
  ag : s.agenda.Perm a.entries
  tm : TmEv s a.cur a.ph
  old : ∀ o, a.old = some o → OldEv s o
  ctl : CtlEv s a.cp a.ctl
  noop : ∀ q ∈ a.noop, NoopEv s q.ev
  nd : a.ids.Nodup
  c0 : lookup s.shared 0 = .int (if a.stopped then 1 else 0)
  c1 : lookup s.shared 1 = TimeCell.enc a.expire
  c2 : lookup s.shared 2 = TimeCell.enc a.timeout
  c3 : lookup s.shared 3 = TimeCell.enc a.start
  c4 : lookup s.shared 4 = .ev a.cur
  c5 : lookup s.shared 5 = .int a.fired
  /-- (ghost cell) the number of processes the timer has started -/
  c6 : lookup s.shared 6 = .int ((a.dead.length + (oldStat a.old).length + 1 : Nat) : Int)

/-! ## the abstract side -/

/-- gaps are not negative, `restart` arguments are positive -/
def OpOK : Op → Prop
  | .stop => True
  | .restart tau => 0 < tau

def ScriptOK (l : List (ℚ × Op)) : Prop := ∀ x ∈ l, 0 ≤ x.1 ∧ OpOK x.2

def CbsOK (cbs : List (Option Op)) : Prop := ∀ op, some op ∈ cbs → OpOK op

def PhA (a : A) (now : ℚ) : TPhase → Prop
  | .init q => q.time = now ∧ q.prio = URGENT ∧ now < a.expire ∧ ∀ o, a.old = some o → o.qi.eid < q.eid
  | .sleep _ q => q.prio = NORMAL ∧ a.expire ≤ q.time ∧ a.old = none
  | .dead => a.old = none

def CtlA (now : ℚ) : CPhase → Prop
  | .init q rest => q.time = now ∧ q.prio = URGENT ∧ ScriptOK rest
  | .wait op rest _ => OpOK op ∧ ScriptOK rest
  | .done => True

def CPhase.prioOK : CPhase → Prop
  | .wait _ _ q => q.prio = NORMAL
  | _ => True

/-- the state of the property's oracle a configuration stands for -/
def oOf (a : A) : OSt ℚ :=
  { pending := if a.stopped then none else
      match a.ph with
      | .init _ => some a.expire
      | .sleep _ q => some q.time
      | .dead => none
    timeout := a.timeout, stopped := a.stopped, fired := a.fired }

/-- the LTS status of `self.proc` -/
def TPhase.stat : TPhase → PStat ℚ
  | .init _ => .notStarted
  | .sleep _ q => .sleeping q.time
  | .dead => .finished

/-- number of timer processes before `self.proc` -/
def A.nprev (a : A) : Nat := a.dead.length + (oldStat a.old).length

/-- **the LTS state a configuration stands for** -/
def toT (auto : Bool) (arg : Int) (a : A) (now : ℚ) : Timer.State ℚ :=
  { now := now, timeout := a.timeout, expire := a.expire, start := a.start, stopped := a.stopped, auto := auto, args := [arg]
    procs := a.dead.map (fun _ => PStat.finished) ++ (oldStat a.old ++ [a.ph.stat])
    proc := a.nprev
    uq := (match a.old with | some _ => [UEv.intr a.dead.length] | none => []) ++
          (match a.ph with | .init _ => [UEv.init a.nprev] | _ => []) }

/-- the attributes after the callback's own call -/
def cbCells (now : ℚ) (a : A) : Option Op → A
  | none => a
  | some .stop => { a with stopped := true, expire := now }
  | some (.restart tau) => { a with start := now, timeout := tau, expire := now + tau }

/-- `if self.auto_restart: self.expire_time = env.now + self.timeout` -/
def rearm (auto : Bool) (now : ℚ) (a : A) : A := if auto then { a with expire := now + a.timeout } else a

/-- the attributes after a callback invocation at `now` -/
def fireA (auto : Bool) (cbs : List (Option Op)) (now : ℚ) (a : A) : A :=
  rearm auto now (cbCells now { a with fired := a.fired + 1 } (cbAt cbs a.fired))

/-- the attributes after the wake-up of `self.proc` at `now`: nothing happens if `stopped` -/
def wakeCells (auto : Bool) (cbs : List (Option Op)) (now : ℚ) (a : A) : A :=
  if a.stopped then a else fireA auto cbs now a

/-- the callback invocation of a wake-up at `now` -/
def wakeFires (a : A) (now : ℚ) : List (HEv ℚ) := if a.stopped then [] else [.fire now]

/-- the controller goes on after a call: it sleeps until the next one (timeout event `e`) or returns -/
def ctlNext (now : ℚ) (eid : Nat) (e : EvId) (a : A) : List (ℚ × Op) → A
  | [] => { a with ctl := .done, noop := a.noop ++ [⟨now, NORMAL, eid, a.cp⟩] }
  | (gap, op) :: rest => { a with ctl := .wait op rest ⟨now + gap, NORMAL, eid, e⟩ }

variable (auto : Bool) (cbs : List (Option Op)) (T : ℚ)

/-- what holds of a configuration at instant `now` after the call/fire history `hist` -/
structure AInv (a : A) (now : ℚ) (hist : List (HEv ℚ)) : Prop where
  ph : PhA a now a.ph
  old : ∀ o, a.old = some o → o.qi.time = now ∧ o.qi.prio = URGENT ∧ o.qt.prio = NORMAL
  ctl : CtlA now a.ctl
  cprio : a.ctl.prioOK
  nprio : ∀ x ∈ a.noop, x.prio = NORMAL
  due : ∀ x ∈ a.entries, now ≤ x.time
  tpos : 0 < a.timeout
  /-- the history so far passes the property's oracle, which is now in the state the configuration stands for -/
  orc : orun auto cbs (o0 T) hist = some (oOf a)

end TimerK
