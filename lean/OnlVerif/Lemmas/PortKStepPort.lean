import OnlVerif.Lemmas.PortKFrame
/-!
# The Port on the kernel model: kernel steps that run `Port.run`

Each lemma executes `Environment.step` of the kernel model symbolically on a state with configuration `a` whose next
agenda entry belongs to the port process, and shows that the resulting state has the configuration `AStep` names.
-/

set_option linter.unusedSimpArgs false

namespace PortK
open PortOnK

variable {size : Int → Nat} {rate : ℚ} {ql : Option Int}
variable {s : KS} {a : A} {q : QEntry ℚ} {rest : List (QEntry ℚ)}

theorem txTime_nonneg (hr : 0 < rate) (id : Int) : 0 ≤ txTime size rate id := by
  unfold txTime; rw [Num.ofNat_rat]; exact div_nonneg (Nat.cast_nonneg _) (le_of_lt hr)

/-- the port's `Initialize` event: `Port.run` starts, finds the store empty and blocks in `store.get()` -/
theorem kstep_portInit (fuel : Nat) (hk : KInv s a) (hport : a.port = .init q) (hit : a.items = [])
    (hp : popMin s.agenda = some (q, rest)) (hrest : rest.Perm (a.src.entries ++ a.pend.toList)) :
    ∃ s', step (body size rate ql) (fuel + 1) s = .ok s' ∧ KInv s' { a with port := .W s.events.size } ∧
      s'.now = q.time ∧ outsOf s'.trace = outsOf s.trace := by
  have hpk := hk.port
  rw [hport] at hpk
  obtain ⟨hqe, ⟨hkind, hcbs, hout⟩, hproc⟩ := hpk
  have hcbs0 := hcbs
  have hgs : 1 < s.events.size := KState.lt_of_cbs hcbs
  have hres := hk.res
  have hrsz := hk.rsz
  have hwf := openEvent_wf s q rest hk.wf hp
  have hc0 := hk.c0; have hc1 := hk.c1; have hc2 := hk.c2; have hc3 := hk.c3; have hc4 := hk.c4
  rw [step_eq _ _ _ _ _ _ hp (hqe ▸ hcbs)]
  simp only [List.foldl, runCb]
  rw [resume_eq _ _ _ _ _ _ (show (openEvent s q rest).proc? 0 = _ from hproc)]
  simp only [KState.ev, KState.res] at hkind hcbs hout hres
  rw [hport, hit] at hres
  ksimp [hqe, hgs, hkind, hcbs, hout, hres, hrsz, Nat.ne_of_lt hgs, PPhase.getQ]
  have hfr : ∀ x < s.events.size, (∀ c, (s.ev x).cbs = some c → c ∉ [[Cb.resume 0]]) → x ≠ 1 := by
    intro x _ hc; rintro rfl; exact hc _ hcbs0 (by simp)
  refine ⟨⟨?_, hrest, ?_, ?_, ?_, ?_, ?_, ?_, ?_, ?_, ?_, ?_⟩, ?_⟩
  · exact wf_same hwf.1 rfl rfl rfl
  · ksimp [hrsz]
  · ksimp [hrsz, hit, PPhase.getQ]
  · refine ⟨?_, ?_⟩
    · ksimp [EvIs]
    · ksimp
  · refine SrcEv.frame hk.src (evFrame_of [[.resume 0]] ?_) (by decide) (by decide) (by ksimp)
    frame_ev hfr
  · refine pend_frame hk.pend (evFrame_of [[.resume 0]] ?_) (by decide)
    frame_ev hfr
  · ksimp [hc0]
  · ksimp [hc1]
  · ksimp [hc2]
  · ksimp [hc3]
  · ksimp [hc4]
  · simp [outsOf_push]

/-- the `StoreGet` event of the port: the server resumes with the packet and starts to transmit -/
theorem kstep_serve (fuel : Nat) (hr : 0 < rate) {g : EvId} {id : Int} (hk : KInv s a) (hport : a.port = .H g id q)
    (hp : popMin s.agenda = some (q, rest)) (hrest : rest.Perm (a.src.entries ++ a.pend.toList)) :
    ∃ s', step (body size rate ql) (fuel + 1) s = .ok s' ∧
      KInv s' { a with port := .T s.events.size id ⟨q.time + txTime size rate id, NORMAL, s.eid, s.events.size⟩,
                       busy := true, bsz := size id } ∧
      s'.now = q.time ∧ outsOf s'.trace = outsOf s.trace := by
  have hpk := hk.port
  rw [hport] at hpk
  obtain ⟨hqe, ⟨hkind, hcbs, hout⟩, hproc⟩ := hpk
  have hcbs0 := hcbs
  have hgs : g < s.events.size := KState.lt_of_cbs hcbs
  have hres := hk.res
  have hrsz := hk.rsz
  have htx := txTime_nonneg (size := size) hr id
  have hwf := openEvent_wf s q rest hk.wf hp
  have hc0 := hk.c0; have hc1 := hk.c1; have hc2 := hk.c2; have hc3 := hk.c3; have hc4 := hk.c4
  rw [step_eq _ _ _ _ _ _ hp (hqe ▸ hcbs)]
  simp only [List.foldl, runCb]
  rw [triggerPut_none _ (by show (s.res 0).putQ = []; rw [hres]; rfl)]
  rw [resume_eq _ _ _ _ _ _ (show (openEvent s q rest).proc? 0 = _ from hproc)]
  simp only [KState.ev, KState.res] at hkind hcbs hout hres
  ksimp [hqe, hgs, hkind, hcbs, hout, hres, hrsz, htx, hr, Nat.ne_of_lt hgs]
  have hfr : ∀ x < s.events.size, (∀ c, (s.ev x).cbs = some c → c ∉ [[Cb.trigPut 0, Cb.resume 0]]) → x ≠ g := by
    intro x _ hc; rintro rfl; exact hc _ hcbs0 (by simp)
  refine ⟨⟨?_, ?_, hrsz, ?_, ?_, ?_, ?_, ?_, ?_, ?_, ?_, ?_⟩, ?_⟩
  · exact wf_push1 hwf.1 _ rfl rfl rfl rfl (by show q.time ≤ q.time + txTime size rate id; linarith)
  · exact List.Perm.cons _ hrest
  · rw [hport] at hres; exact hres
  · refine ⟨rfl, ?_, ?_⟩
    · ksimp [EvIs]
    · ksimp
  · refine SrcEv.frame hk.src (evFrame_of [[.trigPut 0, .resume 0]] ?_) (by decide) (by decide) (by ksimp)
    frame_ev hfr
  · refine pend_frame hk.pend (evFrame_of [[.trigPut 0, .resume 0]] ?_) (by decide)
    frame_ev hfr
  · ksimp [hc0]
  · ksimp [hc1]
  · ksimp
  · ksimp
  · ksimp [hc4]
  · simp [outsOf_push]

/-- `rate ≤ 0`: the `StoreGet` event of the port: the packet is forwarded in the same burst; the store is empty -/
theorem kstep_serveNowIdle (fuel : Nat) (hr : ¬ 0 < rate) {g : EvId} {id : Int} (hk : KInv s a)
    (hport : a.port = .H g id q) (hit : a.items = []) (hp : popMin s.agenda = some (q, rest))
    (hrest : rest.Perm (a.src.entries ++ a.pend.toList)) :
    ∃ s', step (body size rate ql) (fuel + 1) s = .ok s' ∧
      KInv s' { a with port := .W s.events.size, bytes := a.bytes - (size id : Int), busy := false, bsz := 0,
                       last := some q.time } ∧
      s'.now = q.time ∧ outsOf s'.trace = outsOf s.trace ++ [(id, q.time)] := by
  have hpk := hk.port
  rw [hport] at hpk
  obtain ⟨hqe, ⟨hkind, hcbs, hout⟩, hproc⟩ := hpk
  have hcbs0 := hcbs
  have hgs : g < s.events.size := KState.lt_of_cbs hcbs
  have hres := hk.res
  have hrsz := hk.rsz
  have hwf := openEvent_wf s q rest hk.wf hp
  have hc0 := hk.c0; have hc1 := hk.c1; have hc2 := hk.c2; have hc3 := hk.c3; have hc4 := hk.c4
  rw [step_eq _ _ _ _ _ _ hp (hqe ▸ hcbs)]
  simp only [List.foldl, runCb]
  rw [triggerPut_none _ (by show (s.res 0).putQ = []; rw [hres]; rfl)]
  rw [resume_eq _ _ _ _ _ _ (show (openEvent s q rest).proc? 0 = _ from hproc)]
  simp only [KState.ev, KState.res] at hkind hcbs hout hres
  rw [hport, hit] at hres
  ksimp [hqe, hgs, hkind, hcbs, hout, hres, hrsz, hr, Nat.ne_of_lt hgs, PPhase.getQ, hc0]
  have hfr : ∀ x < s.events.size, (∀ c, (s.ev x).cbs = some c → c ∉ [[Cb.trigPut 0, Cb.resume 0]]) → x ≠ g := by
    intro x _ hc; rintro rfl; exact hc _ hcbs0 (by simp)
  refine ⟨⟨?_, hrest, ?_, ?_, ?_, ?_, ?_, ?_, ?_, ?_, ?_, ?_⟩, ?_⟩
  · exact wf_same hwf.1 rfl rfl rfl
  · ksimp [hrsz]
  · ksimp [hrsz, hit, PPhase.getQ]
  · refine ⟨?_, ?_⟩
    · ksimp [EvIs]
    · ksimp
  · refine SrcEv.frame hk.src (evFrame_of [[.trigPut 0, .resume 0]] ?_) (by decide) (by decide) (by ksimp)
    frame_ev hfr
  · refine pend_frame hk.pend (evFrame_of [[.trigPut 0, .resume 0]] ?_) (by decide)
    frame_ev hfr
  · ksimp
  · ksimp [hc1]
  · ksimp
  · ksimp
  · ksimp [hc4]
  · simp [outsOf_push]

/-- `rate ≤ 0`: the packet is forwarded in the burst that took it and the next packet is taken at once -/
theorem kstep_serveNowNext (fuel : Nat) (hr : ¬ 0 < rate) {g : EvId} {id i : Int} {is : List Int} (hk : KInv s a)
    (hport : a.port = .H g id q) (hit : a.items = i :: is) (hp : popMin s.agenda = some (q, rest))
    (hrest : rest.Perm (a.src.entries ++ a.pend.toList)) :
    ∃ s', step (body size rate ql) (fuel + 1) s = .ok s' ∧
      KInv s' { a with port := .H s.events.size i ⟨q.time, NORMAL, s.eid, s.events.size⟩, items := is,
                       bytes := a.bytes - (size id : Int), busy := false, bsz := 0, last := some q.time } ∧
      s'.now = q.time ∧ outsOf s'.trace = outsOf s.trace ++ [(id, q.time)] := by
  have hpk := hk.port
  rw [hport] at hpk
  obtain ⟨hqe, ⟨hkind, hcbs, hout⟩, hproc⟩ := hpk
  have hcbs0 := hcbs
  have hgs : g < s.events.size := KState.lt_of_cbs hcbs
  have hres := hk.res
  have hrsz := hk.rsz
  have hwf := openEvent_wf s q rest hk.wf hp
  have hc0 := hk.c0; have hc1 := hk.c1; have hc2 := hk.c2; have hc3 := hk.c3; have hc4 := hk.c4
  rw [step_eq _ _ _ _ _ _ hp (hqe ▸ hcbs)]
  simp only [List.foldl, runCb]
  rw [triggerPut_none _ (by show (s.res 0).putQ = []; rw [hres]; rfl)]
  rw [resume_eq _ _ _ _ _ _ (show (openEvent s q rest).proc? 0 = _ from hproc)]
  simp only [KState.ev, KState.res] at hkind hcbs hout hres
  rw [hport, hit] at hres
  ksimp [hqe, hgs, hkind, hcbs, hout, hres, hrsz, hr, Nat.ne_of_lt hgs, PPhase.getQ, hc0]
  have hfr : ∀ x < s.events.size, (∀ c, (s.ev x).cbs = some c → c ∉ [[Cb.trigPut 0, Cb.resume 0]]) → x ≠ g := by
    intro x _ hc; rintro rfl; exact hc _ hcbs0 (by simp)
  refine ⟨⟨?_, ?_, ?_, ?_, ?_, ?_, ?_, ?_, ?_, ?_, ?_, ?_⟩, ?_⟩
  · exact wf_push1 hwf.1 _ rfl rfl rfl rfl (le_refl _)
  · exact List.Perm.cons _ hrest
  · ksimp [hrsz]
  · ksimp [hrsz, hit, PPhase.getQ]
  · refine ⟨rfl, ?_, ?_⟩
    · ksimp [EvIs]
    · ksimp
  · refine SrcEv.frame hk.src (evFrame_of [[.trigPut 0, .resume 0]] ?_) (by decide) (by decide) (by ksimp)
    frame_ev hfr
  · refine pend_frame hk.pend (evFrame_of [[.trigPut 0, .resume 0]] ?_) (by decide)
    frame_ev hfr
  · ksimp
  · ksimp [hc1]
  · ksimp
  · ksimp
  · ksimp [hc4]
  · simp [outsOf_push]

/-- the transmission timeout fires and the store is empty: `out.put(packet)`, then the server blocks in `get` -/
theorem kstep_fireIdle (fuel : Nat) {t : EvId} {id : Int} (hk : KInv s a) (hport : a.port = .T t id q)
    (hit : a.items = []) (hp : popMin s.agenda = some (q, rest))
    (hrest : rest.Perm (a.src.entries ++ a.pend.toList)) :
    ∃ s', step (body size rate ql) (fuel + 1) s = .ok s' ∧
      KInv s' { a with port := .W s.events.size, bytes := a.bytes - (size id : Int), busy := false, bsz := 0,
                       last := some q.time } ∧
      s'.now = q.time ∧ outsOf s'.trace = outsOf s.trace ++ [(id, q.time)] := by
  have hpk := hk.port
  rw [hport] at hpk
  obtain ⟨hqe, ⟨hkind, hcbs, hout⟩, hproc⟩ := hpk
  have hcbs0 := hcbs
  have hgs : t < s.events.size := KState.lt_of_cbs hcbs
  have hres := hk.res
  have hrsz := hk.rsz
  have hwf := openEvent_wf s q rest hk.wf hp
  have hc0 := hk.c0; have hc1 := hk.c1; have hc2 := hk.c2; have hc3 := hk.c3; have hc4 := hk.c4
  rw [step_eq _ _ _ _ _ _ hp (hqe ▸ hcbs)]
  simp only [List.foldl, runCb]
  rw [resume_eq _ _ _ _ _ _ (show (openEvent s q rest).proc? 0 = _ from hproc)]
  simp only [KState.ev, KState.res] at hkind hcbs hout hres
  rw [hport, hit] at hres
  ksimp [hqe, hgs, hkind, hcbs, hout, hres, hrsz, Nat.ne_of_lt hgs, PPhase.getQ, hc0]
  have hfr : ∀ x < s.events.size, (∀ c, (s.ev x).cbs = some c → c ∉ [[Cb.resume 0]]) → x ≠ t := by
    intro x _ hc; rintro rfl; exact hc _ hcbs0 (by simp)
  refine ⟨⟨?_, hrest, ?_, ?_, ?_, ?_, ?_, ?_, ?_, ?_, ?_, ?_⟩, ?_⟩
  · exact wf_same hwf.1 rfl rfl rfl
  · ksimp [hrsz]
  · ksimp [hrsz, hit, PPhase.getQ]
  · refine ⟨?_, ?_⟩
    · ksimp [EvIs]
    · ksimp
  · refine SrcEv.frame hk.src (evFrame_of [[.resume 0]] ?_) (by decide) (by decide) (by ksimp)
    frame_ev hfr
  · refine pend_frame hk.pend (evFrame_of [[.resume 0]] ?_) (by decide)
    frame_ev hfr
  · ksimp
  · ksimp [hc1]
  · ksimp
  · ksimp
  · ksimp [hc4]
  · simp [outsOf_push]

/-- the transmission timeout fires and a packet waits: `out.put(packet)`, then `store.get()` is served at once -/
theorem kstep_fireNext (fuel : Nat) {t : EvId} {id i : Int} {is : List Int} (hk : KInv s a)
    (hport : a.port = .T t id q) (hit : a.items = i :: is) (hp : popMin s.agenda = some (q, rest))
    (hrest : rest.Perm (a.src.entries ++ a.pend.toList)) :
    ∃ s', step (body size rate ql) (fuel + 1) s = .ok s' ∧
      KInv s' { a with port := .H s.events.size i ⟨q.time, NORMAL, s.eid, s.events.size⟩, items := is,
                       bytes := a.bytes - (size id : Int), busy := false, bsz := 0, last := some q.time } ∧
      s'.now = q.time ∧ outsOf s'.trace = outsOf s.trace ++ [(id, q.time)] := by
  have hpk := hk.port
  rw [hport] at hpk
  obtain ⟨hqe, ⟨hkind, hcbs, hout⟩, hproc⟩ := hpk
  have hcbs0 := hcbs
  have hgs : t < s.events.size := KState.lt_of_cbs hcbs
  have hres := hk.res
  have hrsz := hk.rsz
  have hwf := openEvent_wf s q rest hk.wf hp
  have hc0 := hk.c0; have hc1 := hk.c1; have hc2 := hk.c2; have hc3 := hk.c3; have hc4 := hk.c4
  rw [step_eq _ _ _ _ _ _ hp (hqe ▸ hcbs)]
  simp only [List.foldl, runCb]
  rw [resume_eq _ _ _ _ _ _ (show (openEvent s q rest).proc? 0 = _ from hproc)]
  simp only [KState.ev, KState.res] at hkind hcbs hout hres
  rw [hport, hit] at hres
  ksimp [hqe, hgs, hkind, hcbs, hout, hres, hrsz, Nat.ne_of_lt hgs, PPhase.getQ, hc0]
  have hfr : ∀ x < s.events.size, (∀ c, (s.ev x).cbs = some c → c ∉ [[Cb.resume 0]]) → x ≠ t := by
    intro x _ hc; rintro rfl; exact hc _ hcbs0 (by simp)
  refine ⟨⟨?_, ?_, ?_, ?_, ?_, ?_, ?_, ?_, ?_, ?_, ?_, ?_⟩, ?_⟩
  · exact wf_push1 hwf.1 _ rfl rfl rfl rfl (le_refl _)
  · exact List.Perm.cons _ hrest
  · ksimp [hrsz]
  · ksimp [hrsz, hit, PPhase.getQ]
  · refine ⟨rfl, ?_, ?_⟩
    · ksimp [EvIs]
    · ksimp
  · refine SrcEv.frame hk.src (evFrame_of [[.resume 0]] ?_) (by decide) (by decide) (by ksimp)
    frame_ev hfr
  · refine pend_frame hk.pend (evFrame_of [[.resume 0]] ?_) (by decide)
    frame_ev hfr
  · ksimp
  · ksimp [hc1]
  · ksimp
  · ksimp
  · ksimp [hc4]
  · simp [outsOf_push]

end PortK
