import OnlVerif.Lemmas.GenKernelDefs
import OnlVerif.Lemmas.KAccess
/-!
# Capacities (`ExtInt`) against the model's `Option Nat`, and two facts about `finish` / `doPut` - shared by the bridge lemmas of
the resource classes (C06) and of the containers / stores (C07); nothing here mentions a source-derived definition
-/

namespace GenKernel
variable {τ σ : Type} [Num τ]

/-! ## capacities -/

theorem fin_lt_capOf (n : Nat) (cap : Option Nat) : (ExtInt.fin (n : Int) < capOf cap) ↔ hasRoom cap n = true := by
  show ExtInt.lt _ _ = true ↔ _
  cases cap with
  | none => simp [capOf, hasRoom, ExtInt.lt]
  | some c => simp [capOf, hasRoom, ExtInt.lt]

theorem capOf_le_fin (n : Nat) (cap : Option Nat) :
    (capOf cap ≤ ExtInt.fin (n : Int)) ↔ cap.any (fun c => decide (c ≤ n)) = true := by
  show ExtInt.le _ _ = true ↔ _
  cases cap with
  | none => simp [capOf, ExtInt.le]
  | some c => simp [capOf, ExtInt.le]

theorem fin_le_sub_capOf (a lv : Int) (cap : Option Nat) :
    (ExtInt.fin a ≤ ExtInt.subInt (capOf cap) lv) ↔
      (match cap with | none => true | some c => decide (a ≤ (c : Int) - lv)) = true := by
  show ExtInt.le _ _ = true ↔ _
  cases cap with
  | none => simp [capOf, ExtInt.le, ExtInt.subInt]
  | some c => simp [capOf, ExtInt.le, ExtInt.subInt]

theorem finish_ret {cx : Cx} {s : KState τ σ} {eff : List (KEff τ)} {ret : Bool} {p : KState τ σ × Bool}
    (h : finish cx s eff ret = some p) : ret = p.2 := by
  unfold finish at h
  cases hr : runEff cx eff s with
  | none => rw [hr] at h; cases h
  | some s' => rw [hr] at h; simp only [Option.map_some, Option.some.injEq] at h; rw [← h]

theorem doPut_snd (s : KState τ σ) (r : ResId) (e : EvId) : (doPut s r e).2 = canPut (prePut s r e) r e := by
  unfold doPut
  split
  · rename_i h; rw [h]
  · rename_i h; simpa using h

end GenKernel
