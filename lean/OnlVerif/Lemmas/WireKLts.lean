import OnlVerif.Lemmas.WireKRun
import OnlVerif.Lemmas.Fifo
import OnlVerif.Lemmas.PortKAbsStep
/-!
# The Wire on the kernel model: every configuration step is accepted by the FifoServer LTS of the wire

`toF a now gh` is the LTS state a configuration stands for, with `gh` in the ghost fields of the device state
(`lastDone`, `curD`, `log`: written by the LTS for its own theorems, read by no decision).  For each constructor of `AStep`
the LTS accepts the corresponding action (`init`, `put`, `handoff`, `resume x y` with the two draws, `fire`, or nothing) from
`toF a` to `toF a'`, whatever the ghost values; and the clock advance is an accepted `tick`.
-/

set_option linter.unusedSimpArgs false

namespace WireK
open WireOnK QEntry

variable {cfg : WireCfg ℚ} {losses delays : List ℚ}
variable {arrivals : List ℚ} {a : A} {outs : List (Int × ℚ)} {q : QEntry ℚ}

/-- the packet object of a configuration -/
def A.pkt (a : A) (id : Int) : Pkt ℚ := pktOf (a.ctOf id) id

/-- **the LTS state a configuration stands for** -/
def toF (a : A) (now : ℚ) (gh : WireSt ℚ) : FState ℚ (WireSt ℚ) :=
  { now := now
    dev := { gh with packetsRec := a.cts.length }
    items := a.items.map a.pkt
    getPending := match a.wire with | .W _ _ _ _ => true | _ => false
    handed := match a.wire with | .H _ id _ _ _ _ => some (a.pkt id) | _ => none
    tx := match a.wire with | .T _ id q _ _ => some (a.pkt id, q.time, 0) | _ => none
    started := match a.wire with | .init _ => false | _ => true }

/-- what the LTS side of a configuration step delivers: from every ghost value, an accepted action sequence into the new
configuration's LTS state with some ghost value, with the packets that entered and left -/
def LtsOK (cfg : WireCfg ℚ) (a : A) (now : ℚ) (a' : A) (ins : List Nat) (lf : List Int) : Prop :=
  ∀ gh, ∃ gh' acts, Fifo.runActs (Wire.dev cfg) (toF a now gh) acts = .ok (toF a' now gh', ins, lf.map Int.toNat)

theorem ltsOK_nothing {a' : A} {now : ℚ} (h : ∀ gh, toF a' now gh = toF a now gh) : LtsOK cfg a now a' [] [] := by
  intro gh
  exact ⟨gh, [], by rw [h]; rfl⟩

theorem pkt_wire (a : A) (w : WPhase) : ({ a with wire := w } : A).pkt = a.pkt := rfl
theorem pkt_wire_items (a : A) (w : WPhase) (is : List Int) : ({ a with wire := w, items := is } : A).pkt = a.pkt := rfl
theorem pkt_hand (a : A) (w : WPhase) (is : List Int) : ({ a with pend := none, wire := w, items := is } : A).pkt = a.pkt := rfl

variable (hi : AInv cfg losses delays arrivals a q.time outs)
include hi

theorem lts_wireInit (g : EvId) (h : a.wire = .init q) : LtsOK cfg a q.time { a with wire := .W g q.time 0 0 } [] [] := by
  have hp := hi.wire
  rw [h] at hp
  obtain ⟨-, -, hit, -, -⟩ := hp
  intro gh
  refine ⟨gh, [.init], ?_⟩
  simp [Fifo.runActs, Fifo.step, toF, h, hit, Fifo.issueGet, Fifo.entered, Fifo.left]

omit hi in
theorem pkt_put (a a' : A) (x : ℚ) (hc : a'.cts = a.cts ++ [x]) (id : Int) (h : id.toNat < a.cts.length) : a'.pkt id = a.pkt id := by
  unfold A.pkt
  rw [ctOf_put a a' x hc id h]

/-- `Wire.put`: the LTS accepts `put` of the source's next packet and stores it with the stamp `now` -/
theorem lts_put (a' : A) (next : Nat) (hnext : next = a.cts.length) (hw : a'.wire = a.wire) (hc : a'.cts = a.cts ++ [q.time])
    (hit : a'.items = a.items ++ [(next : Int)]) : LtsOK cfg a q.time a' [next] [] := by
  have hits : ∀ i ∈ a.items, i.toNat < a.cts.length := fun i hi' => (hi.its i hi').2.1
  have hnew : a'.pkt (next : Int) = { pktOf 0 (next : Int) with ctime := q.time } := by
    unfold A.pkt
    rw [hnext, ctOf_new a a' q.time hc]; rfl
  have hitems : a'.items.map a'.pkt = a.items.map a.pkt ++ [{ pktOf 0 (next : Int) with ctime := q.time }] := by
    rw [hit, List.map_append, List.map_singleton, hnew]
    congr 1
    apply List.map_congr_left
    intro i hi'
    exact pkt_put a a' q.time hc i (hits i hi')
  have hp := hi.wire
  intro gh
  refine ⟨gh, [.put (pktOf 0 (next : Int))], ?_⟩
  have hlen : a'.cts.length = a.cts.length + 1 := by rw [hc]; simp
  simp only [Fifo.runActs, Fifo.step, Wire.dev, Wire.admitPkt, if_true, Fifo.entered, Fifo.left, List.nil_append,
    List.append_nil, List.map_nil]
  congr 1
  simp only [Prod.mk.injEq, and_true]
  refine ⟨?_, by simp [pktOf]⟩
  unfold toF
  rw [hw, hitems, hlen]
  cases hwire : a.wire with
  | init q0 => rfl
  | W g t0 nl nd => rfl
  | H g id q0 t0 nl nd =>
    rw [hwire] at hp
    simp only
    rw [pkt_put a a' q.time hc id hp.2.2.2.2]
  | T t id q0 nl nd =>
    rw [hwire] at hp
    simp only
    rw [pkt_put a a' q.time hc id hp.2.2]

theorem lts_putHand (q' : QEntry ℚ) (g : EvId) (t0 : ℚ) (nl nd : Nat) (i : Int) (is : List Int)
    (hw : a.wire = .W g t0 nl nd) (hit : a.items = i :: is) :
    LtsOK cfg a q.time { a with pend := none, wire := .H g i q' t0 nl nd, items := is } [] [] := by
  intro gh
  refine ⟨gh, [.handoff], ?_⟩
  simp [Fifo.runActs, Fifo.step, toF, hw, hit, Fifo.entered, Fifo.left, A.pkt, A.ctOf]

theorem lts_serveLostIdle (g g' : EvId) (id : Int) (t0 : ℚ) (nl nd : Nat)
    (h : a.wire = .H g id q t0 nl nd) (hl : isLost cfg (draw losses nl) = true) (hit : a.items = []) :
    LtsOK cfg a q.time { a with wire := .W g' q.time (nlNext cfg nl) nd } [] [id] := by
  intro gh
  refine ⟨Wire.logLost { gh with packetsRec := a.cts.length } q.time (a.pkt id), [.resume (draw losses nl) (draw delays nd)], ?_⟩
  have hl' : Wire.lostNow cfg (draw losses nl) = true := hl
  simp [Fifo.runActs, Fifo.step, toF, h, hit, Fifo.issueGet, Fifo.proceed, Fifo.entered, Fifo.left, Wire.dev, Wire.onResume, hl',
    Wire.onDone, Wire.logLost, A.pkt, pktOf]

theorem lts_serveLostNext (q' : QEntry ℚ) (g g' : EvId) (id : Int) (t0 : ℚ) (nl nd : Nat) (i : Int) (is : List Int)
    (h : a.wire = .H g id q t0 nl nd) (hl : isLost cfg (draw losses nl) = true) (hit : a.items = i :: is) :
    LtsOK cfg a q.time { a with wire := .H g' i q' q.time (nlNext cfg nl) nd, items := is } [] [id] := by
  intro gh
  refine ⟨Wire.logLost { gh with packetsRec := a.cts.length } q.time (a.pkt id), [.resume (draw losses nl) (draw delays nd)], ?_⟩
  have hl' : Wire.lostNow cfg (draw losses nl) = true := hl
  simp [Fifo.runActs, Fifo.step, toF, h, hit, Fifo.issueGet, Fifo.proceed, Fifo.entered, Fifo.left, Wire.dev, Wire.onResume, hl',
    Wire.onDone, Wire.logLost, A.pkt, pktOf, A.ctOf]

theorem lts_serveWait (q' : QEntry ℚ) (g t : EvId) (id : Int) (t0 : ℚ) (nl nd : Nat) (h : a.wire = .H g id q t0 nl nd)
    (hl : isLost cfg (draw losses nl) = false) (hw : q.time - a.ctOf id < draw delays nd)
    (ht : q'.time = q.time + (draw delays nd - (q.time - a.ctOf id))) :
    LtsOK cfg a q.time { a with wire := .T t id q' (nlNext cfg nl) (nd + 1) } [] [] := by
  intro gh
  refine ⟨Wire.setD { gh with packetsRec := a.cts.length } (draw delays nd), [.resume (draw losses nl) (draw delays nd)], ?_⟩
  have hl' : Wire.lostNow cfg (draw losses nl) = false := hl
  have hq' : Wire.queued q.time (a.pkt id) < draw delays nd := hw
  simp [Fifo.runActs, Fifo.step, toF, h, Fifo.proceed, Fifo.entered, Fifo.left, Wire.dev, Wire.onResume, hl', hq',
    Wire.setD, ht, pkt_wire]
  simp [Wire.queued, A.pkt, pktOf]

theorem lts_serveOutIdle (g g' : EvId) (id : Int) (t0 : ℚ) (nl nd : Nat) (h : a.wire = .H g id q t0 nl nd)
    (hl : isLost cfg (draw losses nl) = false) (hw : ¬ q.time - a.ctOf id < draw delays nd) (hit : a.items = []) :
    LtsOK cfg a q.time { a with wire := .W g' q.time (nlNext cfg nl) (nd + 1) } [] [id] := by
  intro gh
  refine ⟨Wire.logOut (Wire.setD { gh with packetsRec := a.cts.length } (draw delays nd)) q.time (a.pkt id),
    [.resume (draw losses nl) (draw delays nd)], ?_⟩
  have hl' : Wire.lostNow cfg (draw losses nl) = false := hl
  simp [Fifo.runActs, Fifo.step, toF, h, hit, Fifo.issueGet, Fifo.proceed, Fifo.entered, Fifo.left, Wire.dev, Wire.onResume, hl', hw,
    Wire.onDone, Wire.logOut, Wire.setD, A.pkt, pktOf, Wire.queued]

theorem lts_serveOutNext (q' : QEntry ℚ) (g g' : EvId) (id : Int) (t0 : ℚ) (nl nd : Nat) (i : Int) (is : List Int)
    (h : a.wire = .H g id q t0 nl nd) (hl : isLost cfg (draw losses nl) = false)
    (hw : ¬ q.time - a.ctOf id < draw delays nd) (hit : a.items = i :: is) :
    LtsOK cfg a q.time { a with wire := .H g' i q' q.time (nlNext cfg nl) (nd + 1), items := is } [] [id] := by
  intro gh
  refine ⟨Wire.logOut (Wire.setD { gh with packetsRec := a.cts.length } (draw delays nd)) q.time (a.pkt id),
    [.resume (draw losses nl) (draw delays nd)], ?_⟩
  have hl' : Wire.lostNow cfg (draw losses nl) = false := hl
  have hq' : ¬ Wire.queued q.time (a.pkt id) < draw delays nd := hw
  simp [Fifo.runActs, Fifo.step, toF, h, hit, Fifo.issueGet, Fifo.proceed, Fifo.entered, Fifo.left, Wire.dev, Wire.onResume, hl', hq',
    Wire.onDone, Wire.logOut, Wire.setD, pkt_wire_items]
  simp [A.pkt, pktOf]

theorem lts_fireIdle (t g : EvId) (id : Int) (nl nd : Nat) (h : a.wire = .T t id q nl nd) (hit : a.items = []) :
    LtsOK cfg a q.time { a with wire := .W g q.time nl nd } [] [id] := by
  intro gh
  refine ⟨Wire.logOut { gh with packetsRec := a.cts.length } q.time (a.pkt id), [.fire], ?_⟩
  simp [Fifo.runActs, Fifo.step, toF, h, hit, Fifo.issueGet, Fifo.proceed, Fifo.entered, Fifo.left, Wire.dev, Wire.onFire,
    Wire.onDone, Wire.logOut, A.pkt, pktOf]

theorem lts_fireNext (q' : QEntry ℚ) (t g : EvId) (id : Int) (nl nd : Nat) (i : Int) (is : List Int)
    (h : a.wire = .T t id q nl nd) (hit : a.items = i :: is) :
    LtsOK cfg a q.time { a with wire := .H g i q' q.time nl nd, items := is } [] [id] := by
  intro gh
  refine ⟨Wire.logOut { gh with packetsRec := a.cts.length } q.time (a.pkt id), [.fire], ?_⟩
  simp [Fifo.runActs, Fifo.step, toF, h, hit, Fifo.issueGet, Fifo.proceed, Fifo.entered, Fifo.left, Wire.dev, Wire.onFire,
    Wire.onDone, Wire.logOut, A.pkt, pktOf, A.ctOf]

omit hi in
/-- the LTS accepts the clock advance to the next entry, whatever the ghost values -/
theorem lts_tick {now : ℚ} (hi' : AInv cfg losses delays arrivals a now outs) (hq : IsMin a q) (h : now < q.time)
    (gh : WireSt ℚ) :
    Fifo.step (Wire.dev cfg) (toF a now gh) (.tick q.time) = .ok (toF a q.time gh, .nothing) := by
  have hne : ∀ x ∈ a.entries, x.time ≠ now := fun x hx hxt => absurd (hi'.time_eq hq hx hxt) (ne_of_gt h)
  have hp := hi'.wire
  cases hwire : a.wire with
  | init q0 => rw [hwire] at hp; exact absurd hp.1 (hne q0 (mem_wire (by simp [hwire, WPhase.entries])))
  | H g id q0 t0 nl nd => rw [hwire] at hp; exact absurd hp.1 (hne q0 (mem_wire (by simp [hwire, WPhase.entries])))
  | T t id q0 nl nd =>
    have h2 : ¬ q0.time < q.time := not_lt.mpr (not_keyLt_time (hq.2 q0 (mem_wire (by simp [hwire, WPhase.entries]))))
    simp [Fifo.step, toF, hwire, not_lt.mpr (le_of_lt h), h2]
  | W g t0 nl nd =>
    have hit : a.items = [] := by
      by_contra hc
      have := hi'.idle (by simp [hwire, WPhase.idle]) hc
      obtain ⟨u, hu⟩ := Option.isSome_iff_exists.mp this
      exact absurd (hi'.pend u hu).1 (hne u (mem_pend hu))
    simp [Fifo.step, toF, hwire, not_lt.mpr (le_of_lt h), hit]

omit hi in
/-- zero or one `tick` brings the LTS to the instant of the next entry -/
theorem lts_advance {now : ℚ} (hi' : AInv cfg losses delays arrivals a now outs) (hq : IsMin a q) (gh : WireSt ℚ) :
    ∃ acts, Fifo.runActs (Wire.dev cfg) (toF a now gh) acts = .ok (toF a q.time gh, [], []) := by
  rcases eq_or_lt_of_le (hi'.now_le hq) with h | h
  · exact ⟨[], by rw [← h]; rfl⟩
  · refine ⟨[.tick q.time], ?_⟩
    simp [Fifo.runActs, lts_tick hi' hq h gh, Fifo.entered, Fifo.left]

/-- **every configuration step is accepted by the LTS of the wire**: the packets that enter are the source's next one (a
`put`) or none; the packets that leave are the step's `lf` -/
theorem lts_step (hq : IsMin a q) {a' : A} {new : List (Int × ℚ)} {lf : List Int}
    (hs : AStep cfg losses delays a q a' new lf) :
    ∃ ins, LtsOK cfg a q.time a' ins lf ∧ List.range a'.cts.length = List.range a.cts.length ++ ins := by
  cases hs with
  | wireInit g h => exact ⟨[], lts_wireInit hi g h, by simp⟩
  | srcInitEnd q' h ht hp => exact ⟨[], ltsOK_nothing (fun gh => rfl), by simp⟩
  | srcInitWait q' gap rest h ht hp => exact ⟨[], ltsOK_nothing (fun gh => rfl), by simp⟩
  | srcPutEnd u q' next h hn hu ht =>
    have hs := hi.src
    rw [h] at hs
    refine ⟨[next], lts_put hi _ next hs.2.2.1 rfl rfl rfl, ?_⟩
    simp [List.range_succ, hs.2.2.1]
  | srcPutWait u q' next gap rest h hn hu ht ho =>
    have hs := hi.src
    rw [h] at hs
    refine ⟨[next], lts_put hi _ next hs.2.2.1 rfl rfl rfl, ?_⟩
    simp [List.range_succ, hs.2.2.1]
  | putIdle h hw => exact ⟨[], ltsOK_nothing (fun gh => rfl), by simp⟩
  | putHand q' g t0 nl nd i is h hw hit ht => exact ⟨[], lts_putHand hi q' g t0 nl nd i is hw hit, by simp⟩
  | serveLostIdle g g' id t0 nl nd h hl hit => exact ⟨[], lts_serveLostIdle hi g g' id t0 nl nd h hl hit, by simp⟩
  | serveLostNext q' g g' id t0 nl nd i is h hl hit ht =>
    exact ⟨[], lts_serveLostNext hi q' g g' id t0 nl nd i is h hl hit, by simp⟩
  | serveWait q' g t id t0 nl nd h hl hw ht => exact ⟨[], lts_serveWait hi q' g t id t0 nl nd h hl hw ht.1, by simp⟩
  | serveOutIdle g g' id t0 nl nd h hl hw hit => exact ⟨[], lts_serveOutIdle hi g g' id t0 nl nd h hl hw hit, by simp⟩
  | serveOutNext q' g g' id t0 nl nd i is h hl hw hit ht =>
    exact ⟨[], lts_serveOutNext hi q' g g' id t0 nl nd i is h hl hw hit, by simp⟩
  | fireIdle t g id nl nd h hit => exact ⟨[], lts_fireIdle hi t g id nl nd h hit, by simp⟩
  | fireNext q' t g id nl nd i is h hit ht => exact ⟨[], lts_fireNext hi q' t g id nl nd i is h hit, by simp⟩
  | srcEnd h => exact ⟨[], ltsOK_nothing (fun gh => rfl), by simp⟩

end WireK
