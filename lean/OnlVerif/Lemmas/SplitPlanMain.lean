import OnlVerif.Lemmas.SplitPlanInert
/-!
# Split transparency for reachable states: the assembled statements (C03)

* `Reach I body fuel s` — `s` is reachable from an empty environment by outside spawns, set-ups of `run(until=…)` and kernel
  steps that name existing ids only; every such state is well-scoped and its agenda is sorted (`Reach.ws`, `Reach.sorted`);
* `initState` — an empty environment plus processes started from outside; it is well-scoped, sorted, stop-free;
* `runUntilTime_transparent_ws` — `run(until=number)` from a well-scoped state, all invariant hypotheses discharged;
* `plan_transparent`, `plan_observations` — the chained theorem for whole split plans.
-/

variable {σ : Type}

namespace SplitWF
variable {I : IdSt σ}

/-- **reachable states**: from an empty environment by outside spawns, `run(until=…)` set-ups and kernel steps in which
the program names existing ids only -/
inductive Reach (I : IdSt σ) (body : σ → Resume → Burst ℚ σ) (fuel : Nat) : KState ℚ σ → Prop
  | init (t0 : ℚ) (rs : Array ResRec)
      (hrs : ∀ r, (rs.getD r default).putQ = [] ∧ (rs.getD r default).getQ = [] ∧ (rs.getD r default).users = []) :
      Reach I body fuel { now := t0, resources := rs }
  | spawn {s : KState ℚ σ} (self : EvId) (st : σ) : Reach I body fuel s → I.below s.events.size st →
      Reach I body fuel (doCall s self (.spawn st)).1
  | step {s s' : KState ℚ σ} : Reach I body fuel s → ScopedStep I body fuel s → (step body fuel s).state? = some s' →
      Reach I body fuel s'
  | untilEvent {s : KState ℚ σ} (e : EvId) : Reach I body fuel s → Reach I body fuel (s.addCb e .stop)
  | untilTime {s : KState ℚ σ} (t : ℚ) : Reach I body fuel s → Reach I body fuel (SplitCfg.plant t s)

/-- **every reachable state is well-scoped** -/
theorem Reach.ws {body : σ → Resume → Burst ℚ σ} {fuel : Nat} {s : KState ℚ σ} (h : Reach I body fuel s) : WS I s := by
  induction h with
  | init t0 rs hrs => exact ws_init t0 rs hrs
  | spawn self st _ hst ih => exact ws_spawn ih self st hst
  | step _ hS hs ih => exact ws_step _ _ _ _ ih hS hs
  | untilEvent e _ ih => exact ws_until_event ih e
  | untilTime t _ ih => exact ws_until_time ih t

theorem sortedAg_plant (t : ℚ) (s : KState ℚ σ) (h : SortedAg s) : SortedAg (SplitCfg.plant t s) := by
  refine ⟨?_, ?_⟩
  · show ({ time := t, prio := URGENT, eid := s.eid, ev := s.events.size } :: s.agenda).Pairwise _
    exact List.pairwise_cons.mpr ⟨fun x hx => h.below x hx, h.sorted⟩
  · intro x hx
    have hx' : x ∈ { time := t, prio := URGENT, eid := s.eid, ev := s.events.size } :: s.agenda := hx
    show x.eid < s.eid + 1
    rcases List.mem_cons.mp hx' with rfl | hx'
    · exact Nat.lt_succ_self _
    · exact Nat.lt_succ_of_lt (h.below x hx')

/-- **the agenda of every reachable state is newest-first** -/
theorem Reach.sorted {body : σ → Resume → Burst ℚ σ} {fuel : Nat} {s : KState ℚ σ} (h : Reach I body fuel s) : SortedAg s := by
  induction h with
  | init t0 rs hrs => exact ⟨List.Pairwise.nil, fun x hx => by cases hx⟩
  | spawn self st _ _ ih => exact SortedAg.krel.doCall _ self _ ih
  | step _ _ hs ih => exact SplitCfg.sortedAg_step _ _ _ _ ih (by rw [st?_eq_state?]; exact hs)
  | untilEvent e _ ih => exact ⟨ih.sorted, ih.below⟩
  | untilTime t _ ih => exact sortedAg_plant t _ ih

theorem allStopFree_empty (t0 : ℚ) (rs : Array ResRec) : AllStopFree ({ now := t0, resources := rs } : KState ℚ σ) := by
  apply (StopFree.iff _ _).mpr
  intro e _
  exact KState.hasStop_default _ e (Nat.zero_le _)

theorem allStopFree_doCall (s : KState ℚ σ) (self : EvId) (c : Call ℚ σ) (h : AllStopFree s) :
    AllStopFree (doCall s self c).1 := by
  have := doCall_stripBy (fun _ => true) s self c
  rw [show s.stripBy (fun _ => true) = s from h] at this
  exact (congrArg Prod.fst this).symm

/-- an environment created at time `t0` with resources `rs`, and the processes started from outside, in order -/
def initState (t0 : ℚ) (rs : Array ResRec) (mains : List σ) : KState ℚ σ :=
  mains.foldl (fun s st => (doCall s 0 (.spawn st)).1) { now := t0, resources := rs }

theorem spawns_facts (mains : List σ) : ∀ (s : KState ℚ σ), WS I s → SortedAg s → AllStopFree s →
    (∀ st ∈ mains, I.below s.events.size st) →
    WS I (mains.foldl (fun s st => (doCall s 0 (.spawn st)).1) s) ∧
      SortedAg (mains.foldl (fun s st => (doCall s 0 (.spawn st)).1) s) ∧
      AllStopFree (mains.foldl (fun s st => (doCall s 0 (.spawn st)).1) s) ∧
      s.events.size + 2 * mains.length ≤ (mains.foldl (fun s st => (doCall s 0 (.spawn st)).1) s).events.size := by
  induction mains with
  | nil => intro s h1 h2 h3 _; exact ⟨h1, h2, h3, Nat.le_refl _⟩
  | cons st rest ih =>
    intro s h1 h2 h3 hm
    rw [List.foldl_cons]
    have hsz : (doCall s 0 (.spawn st)).1.events.size = s.events.size + 2 := by
      simp [doCall, KState.newLabelled, KState.setProc, KState.newEv, KState.schedule]
    obtain ⟨a, b, c, d⟩ := ih (doCall s 0 (.spawn st)).1 (ws_spawn h1 0 st (hm st List.mem_cons_self))
      (SortedAg.krel.doCall s 0 _ h2) (allStopFree_doCall s 0 _ h3)
      (fun st' hst' => I.mono (hm st' (List.mem_cons_of_mem _ hst')) (by rw [hsz]; exact Nat.le_add_right _ _))
    refine ⟨a, b, c, ?_⟩
    rw [hsz] at d
    rw [List.length_cons]
    omega

/-- **the initial states of the correspondence check** are well-scoped, sorted and stop-free -/
theorem initState_facts (t0 : ℚ) (rs : Array ResRec) (mains : List σ)
    (hrs : ∀ r, (rs.getD r default).putQ = [] ∧ (rs.getD r default).getQ = [] ∧ (rs.getD r default).users = [])
    (hm : ∀ st ∈ mains, I.below 0 st) :
    WS I (initState t0 rs mains) ∧ SortedAg (initState t0 rs mains) ∧ AllStopFree (initState t0 rs mains) ∧
      2 * mains.length ≤ (initState t0 rs mains).events.size := by
  obtain ⟨a, b, c, d⟩ := spawns_facts (I := I) mains { now := t0, resources := rs } (ws_init t0 rs hrs)
    ⟨List.Pairwise.nil, fun x hx => by cases hx⟩ (allStopFree_empty t0 rs) hm
  refine ⟨a, b, c, ?_⟩
  have : ({ now := t0, resources := rs } : KState ℚ σ).events.size = 0 := rfl
  rw [this, Nat.zero_add] at d
  exact d

/-- **`run(until=number)` from a well-scoped state is transparent up to the renaming of ids**, under the run-level
id-opacity hypothesis `SimAlong`: the statement of `SplitCfg.runUntilTime_transparent_run` with `Closed` and `FuelAlong`
discharged, and `now < t` read off the normal return -/
theorem runUntilTime_transparent_ws_run (body : σ → Resume → Burst ℚ σ) (fuel n : Nat) (t : ℚ) (s s' : KState ℚ σ) (v : Val)
    (hpos : 0 < s.events.size) (hws : WS I s) (hS : ScopedRun I body fuel s) (hs : SortedAg s) (hns : AllStopFree s)
    (hsim : (SplitCfg.at s hpos t (I.rn s.events.size)).SimAlong body fuel s)
    (h : runUntilTime body fuel n t s = .returned v s') :
    s.now < t ∧ v = .none ∧ ∃ k sk, k < n ∧ stepN body fuel k s = .ok sk ∧
      s' = (SplitCfg.at s hpos t (I.rn s.events.size)).afterSentinel sk ∧
      (SplitCfg.at s hpos t (I.rn s.events.size)).Inv sk ∧ AllStopFree s' ∧
      (∀ j, j < k → ∀ sj m rest, stepN body fuel j s = .ok sj → popMin sj.agenda = some (m, rest) →
        (m.time < t ∨ (m.time = t ∧ m.prio = URGENT ∧ m.eid < s.eid))) ∧
      (∀ m rest, popMin sk.agenda = some (m, rest) → ¬ (m.time < t ∨ (m.time = t ∧ m.prio = URGENT ∧ m.eid < s.eid))) := by
  have hlt : s.now < t := by
    apply Classical.byContradiction
    intro hc
    unfold runUntilTime at h
    rw [if_pos (not_lt.mp hc)] at h
    cases h
  let c : SplitCfg σ := SplitCfg.at s hpos t (I.rn s.events.size)
  obtain ⟨hv, k, sk, hk, h1, h2, h3, _, _, h5, h6, h7⟩ := c.runUntilTime_transparent_run body fuel n s s' v rfl rfl hlt
    (closed_of_ws c hws hs rfl rfl rfl) hs hns hsim (fuelAlong_of_ws c body fuel hws hS) h
  exact ⟨hlt, hv, k, sk, hk, h1, h2, h3, h5, h6, h7⟩

/-- … and under the program-level hypothesis `BodySim` at the split index -/
theorem runUntilTime_transparent_ws (body : σ → Resume → Burst ℚ σ) (fuel n : Nat) (t : ℚ) (s s' : KState ℚ σ) (v : Val)
    (hpos : 0 < s.events.size) (hws : WS I s) (hS : ScopedRun I body fuel s) (hs : SortedAg s) (hns : AllStopFree s)
    (hB : BodySim (shAt s.events.size) (I.rn s.events.size) body)
    (h : runUntilTime body fuel n t s = .returned v s') :
    s.now < t ∧ v = .none ∧ ∃ k sk, k < n ∧ stepN body fuel k s = .ok sk ∧
      s' = (SplitCfg.at s hpos t (I.rn s.events.size)).afterSentinel sk ∧
      (SplitCfg.at s hpos t (I.rn s.events.size)).Inv sk ∧ AllStopFree s' ∧
      (∀ j, j < k → ∀ sj m rest, stepN body fuel j s = .ok sj → popMin sj.agenda = some (m, rest) →
        (m.time < t ∨ (m.time = t ∧ m.prio = URGENT ∧ m.eid < s.eid))) ∧
      (∀ m rest, popMin sk.agenda = some (m, rest) → ¬ (m.time < t ∨ (m.time = t ∧ m.prio = URGENT ∧ m.eid < s.eid))) :=
  runUntilTime_transparent_ws_run body fuel n t s s' v hpos hws hS hs hns
    (SplitCfg.simAlong_of_bodySim (SplitCfg.at s hpos t (I.rn s.events.size)) body hB fuel s) h

end SplitWF

namespace SplitPlan
open SplitWF
variable {I : IdSt σ}

/-- **split plans are transparent** (at least one event exists), under the run-level id-opacity hypothesis `PlanSim`: the
split execution ends in the state of `K` uninterrupted steps, transformed once per numeric stop (`stackT`), with some clock -/
theorem plan_transparent_run (body : σ → Resume → Burst ℚ σ) (fuel budget : Nat) (plan : List Piece) (s0 S' : KState ℚ σ)
    (h0 : WS I s0) (hs0 : SortedAg s0) (hns0 : AllStopFree s0) (hpos : 0 < s0.events.size) (hS : ScopedRun I body fuel s0)
    (hsim : PlanSim I body fuel budget plan s0)
    (h : execPlan body fuel budget plan s0 = some S') :
    ∃ K sK cs x, stepN body fuel K s0 = .ok sK ∧ cs.length = numStops plan ∧ StackOK I cs sK ∧ S' = splitState cs sK x ∧
      S'.trace = sK.trace.map (rnObs (stackρ cs)) ∧ viewTrace S' = viewTrace sK ∧ viewProcs S' = viewProcs sK ∧
      AllStopFree S' ∧ SortedAg S' ∧ WS I S' ∧ WS I sK := by
  have r0 : Rel I body fuel [] s0 s0 := ⟨h0, hS, trivial, trivial, ⟨s0.now, rfl⟩, hs0, hns0⟩
  obtain ⟨K, sK, cs, h1, r, hl⟩ := execPlan_stack body fuel budget plan [] s0 s0 S' r0 hpos hsim h
  obtain ⟨x, hx⟩ := r.eq
  refine ⟨K, sK, cs, x, h1, by simpa using hl, r.ok, hx, ?_, ?_, ?_, r.nostop, r.sorted, r.wsS, r.ws⟩
  · rw [hx]
    exact trace_stackT cs sK
  · rw [hx, viewTrace_splitState, viewTrace_stackT cs sK r.ok]
  · rw [hx, viewProcs_splitState, viewProcs_stackT cs sK r.ok]

/-- … and under the program-level hypothesis `BodySim` at every split index -/
theorem plan_transparent (body : σ → Resume → Burst ℚ σ) (fuel budget : Nat)
    (hB : ∀ u, 0 < u → BodySim (shAt u) (I.rn u) body) (plan : List Piece) (s0 S' : KState ℚ σ)
    (h0 : WS I s0) (hs0 : SortedAg s0) (hns0 : AllStopFree s0) (hpos : 0 < s0.events.size) (hS : ScopedRun I body fuel s0)
    (h : execPlan body fuel budget plan s0 = some S') :
    ∃ K sK cs x, stepN body fuel K s0 = .ok sK ∧ cs.length = numStops plan ∧ StackOK I cs sK ∧ S' = splitState cs sK x ∧
      S'.trace = sK.trace.map (rnObs (stackρ cs)) ∧ viewTrace S' = viewTrace sK ∧ viewProcs S' = viewProcs sK ∧
      AllStopFree S' ∧ SortedAg S' ∧ WS I S' ∧ WS I sK :=
  plan_transparent_run body fuel budget plan s0 S' h0 hs0 hns0 hpos hS (planSim_of_bodySim body fuel budget hB plan s0) h

/-- **what a split plan lets the program and the harness observe is what the uninterrupted run lets them observe**, from
every well-scoped state (with or without events), under the run-level hypothesis -/
theorem plan_observations_run (body : σ → Resume → Burst ℚ σ) (fuel budget : Nat) (plan : List Piece) (s0 S' : KState ℚ σ)
    (h0 : WS I s0) (hs0 : SortedAg s0) (hns0 : AllStopFree s0) (hS : ScopedRun I body fuel s0)
    (hsim : PlanSim I body fuel budget plan s0)
    (h : execPlan body fuel budget plan s0 = some S') :
    ∃ K sK, stepN body fuel K s0 = .ok sK ∧ viewTrace S' = viewTrace sK ∧ viewProcs S' = viewProcs sK ∧
      S'.procs.length = sK.procs.length := by
  by_cases hpos : 0 < s0.events.size
  · obtain ⟨K, sK, cs, x, h1, _, _, _, _, h6, h7, _⟩ := plan_transparent_run body fuel budget plan s0 S' h0 hs0 hns0 hpos hS hsim h
    refine ⟨K, sK, h1, h6, h7, ?_⟩
    have := congrArg List.length h7
    simpa [viewProcs] using this
  · have hz : s0.events.size = 0 := Nat.eq_zero_of_not_pos hpos
    obtain ⟨a, b, c⟩ := empty_table_inert s0 h0 hz
    obtain ⟨d, e, _⟩ := execPlan_inert body fuel budget plan s0 S' a h
    refine ⟨0, s0, rfl, ?_, ?_, by rw [e]⟩
    · unfold viewTrace; rw [d, c]; rfl
    · unfold viewProcs; rw [e, b]; rfl

/-- … and under the program-level hypothesis -/
theorem plan_observations (body : σ → Resume → Burst ℚ σ) (fuel budget : Nat)
    (hB : ∀ u, 0 < u → BodySim (shAt u) (I.rn u) body) (plan : List Piece) (s0 S' : KState ℚ σ)
    (h0 : WS I s0) (hs0 : SortedAg s0) (hns0 : AllStopFree s0) (hS : ScopedRun I body fuel s0)
    (h : execPlan body fuel budget plan s0 = some S') :
    ∃ K sK, stepN body fuel K s0 = .ok sK ∧ viewTrace S' = viewTrace sK ∧ viewProcs S' = viewProcs sK ∧
      S'.procs.length = sK.procs.length :=
  plan_observations_run body fuel budget plan s0 S' h0 hs0 hns0 hS (planSim_of_bodySim body fuel budget hB plan s0) h

end SplitPlan
