import OnlVerif.Lemmas.MultiQueueStep
import OnlVerif.Net.Sched.SP
import OnlVerif.Net.Sched.RR
import OnlVerif.Net.Sched.WRR
import OnlVerif.Net.Sched.DRR
/-!
# The four scheduler records are lawful

Each `run()` blocks on the wake-up token only behind `if self.total_packets == 0`; SP, RR and WRR never park a
packet, and DRR issues `store.get()` only when no head-of-line packet of that class is parked.
-/

theorem SP.neverParks (c : SP.Cfg ℚ) : MQ.NeverParks (SP.sched c) := by
  intro k v cl p k' h
  simp only [SP.sched, SP.onPkt] at h
  split at h <;> cases h

theorem SP.lawful (c : SP.Cfg ℚ) : MQ.Lawful (SP.sched c) := by
  refine ⟨?_, fun _ _ _ _ _ => Or.inr (SP.neverParks c)⟩
  intro k v k' h
  simp only [SP.sched, SP.micro] at h
  split at h
  · split at h
    · cases h
    · split at h
      · split at h <;> cases h
      · cases h
  · split at h
    · assumption
    · cases h
  · cases h
  · cases h

theorem RR.neverParks (c : RR.Cfg ℚ) : MQ.NeverParks (RR.sched c) := by
  intro k v cl p k' h
  simp only [RR.sched, RR.onPkt] at h
  split at h <;> cases h

theorem RR.lawful (c : RR.Cfg ℚ) : MQ.Lawful (RR.sched c) := by
  refine ⟨?_, fun _ _ _ _ _ => Or.inr (RR.neverParks c)⟩
  intro k v k' h
  simp only [RR.sched, RR.micro] at h
  split at h
  · split at h
    · cases h
    · split at h
      · split at h <;> cases h
      · cases h
  · split at h
    · assumption
    · cases h
  · cases h
  · cases h

theorem WRR.neverParks (c : WRR.Cfg ℚ) : MQ.NeverParks (WRR.sched c) := by
  intro k v cl p k' h
  simp only [WRR.sched, WRR.onPkt] at h
  split at h <;> cases h

theorem WRR.lawful (c : WRR.Cfg ℚ) : MQ.Lawful (WRR.sched c) := by
  refine ⟨?_, fun _ _ _ _ _ => Or.inr (WRR.neverParks c)⟩
  intro k v k' h
  simp only [WRR.sched, WRR.micro] at h
  split at h
  · split at h
    · cases h
    · split at h
      · split at h
        · split at h <;> cases h
        · cases h
      · cases h
  · split at h
    · assumption
    · cases h
  · cases h
  · cases h

theorem DRR.lawful (c : DRR.Cfg ℚ) : MQ.Lawful (DRR.sched c) := by
  refine ⟨?_, ?_⟩
  · intro k v k' h
    simp only [DRR.sched, DRR.micro] at h
    split at h
    · split at h
      · cases h
      · split at h
        · assumption
        · cases h
    · split at h
      · cases h
      · split at h
        · split at h <;> cases h
        · cases h
    · split at h
      · cases h
      · split at h
        · cases h
        · split at h
          · split at h <;> cases h
          · cases h
    · cases h
    · cases h
  · intro k v cl k' h
    left
    simp only [DRR.sched, DRR.micro] at h
    split at h
    · split at h
      · cases h
      · split at h <;> cases h
    · split at h
      · cases h
      · split at h
        · split at h <;> cases h
        · cases h
    · split at h
      · cases h
      · split at h
        · cases h
        · split at h
          · split at h
            · cases h
            · rename_i hp
              simp only [MQ.Micro.get.injEq] at h
              obtain ⟨rfl, _⟩ := h
              exact hp
          · cases h
    · cases h
    · cases h
