import OnlVerif.Lemmas.SchedDRRCredit
/-!
# DRR: the ledger `S_c + credit_c = Q_c·visits_c − forfeited_c`, cyclic visits, accounting of departures

* `LedgerK`: for every class the bytes booked plus the credit equal quantum × visits minus the credit forgotten.
* `psi`: visits of a class minus "has this round's visit point been passed"; for two backlogged classes the
  difference of their `psi` never changes (each round visits both exactly once), so their visit counts differ by at
  most one more than their positions in the round.
* forfeited credit changes only when a class empties; booked bytes plus the packet whose sender has just ended
  account for the departures.
-/

namespace DRR
open MQ

/-- has the `for` loop of the current round passed the point where entry `i` receives its quantum? -/
def passed (i : Nat) : Pc → Int
  | .top => 0
  | .visit m => if i < m then 1 else 0
  | .inner m => if i ≤ m then 1 else 0
  | .gotPkt m => if i ≤ m then 1 else 0
  | .sent m => if i ≤ m then 1 else 0

theorem passed_range (i : Nat) (pc : Pc) : 0 ≤ passed i pc ∧ passed i pc ≤ 1 := by
  cases pc <;> simp only [passed] <;> (try split) <;> omega

def psi (k : Ctl ℚ) (i c : Nat) : Int := cnt k.visits c - passed i k.pc

def LedgerK (cfg : Cfg ℚ) (k : Ctl ℚ) : Prop :=
  ∀ cls d q, lookup k.deficit cls = some d → quantum cfg cls = some q →
    (cnt k.sentBytes cls : ℚ) + d = q * (cnt k.visits cls : ℚ) - acc k.forfeited cls

/-- class `c` is backlogged: `class_count[c] > 0` -/
def Pos (k : Ctl ℚ) (c : Nat) : Prop := ∃ n, lookup k.classCount c = some n ∧ 0 < n

theorem index_inj {β : Type} (m : List (Nat × β)) (hn : (m.map (·.1)).Nodup) (i j c : Nat) (v w : β)
    (hi : m[i]? = some (c, v)) (hj : m[j]? = some (c, w)) : i = j := by
  have hil : i < (m.map (·.1)).length := by
    rw [List.length_map]; by_contra hc; rw [List.getElem?_eq_none (not_lt.mp hc)] at hi; cases hi
  have hjl : j < (m.map (·.1)).length := by
    rw [List.length_map]; by_contra hc; rw [List.getElem?_eq_none (not_lt.mp hc)] at hj; cases hj
  have e1 : (m.map (·.1))[i] = c := by
    have : (m.map (·.1))[i]? = some c := by rw [List.getElem?_map, hi]; rfl
    rw [List.getElem?_eq_getElem hil] at this; exact Option.some.inj this
  have e2 : (m.map (·.1))[j] = c := by
    have : (m.map (·.1))[j]? = some c := by rw [List.getElem?_map, hj]; rfl
    rw [List.getElem?_eq_getElem hjl] at this; exact Option.some.inj this
  exact (List.getElem_inj hn).mp (e1.trans e2.symm)

/-- the phase in which a DRR burst ends is a `yield` -/
theorem dsettles_end (cfg : Cfg ℚ) (s s' : St) (hs : DSettles cfg s s') :
    (∃ c p, s'.phase = .pktHanded c p) ∨ (∃ p, s'.phase = .spawned p) ∨ s'.phase = .waitToken ∨ s'.phase = .tokenHanded := by
  induction hs with
  | topGo s s' _ _ _ ih => exact ih
  | topBlock s _ _ =>
    unfold blockOnToken; split
    · exact Or.inr (Or.inr (Or.inr rfl))
    · exact Or.inr (Or.inr (Or.inl rfl))
  | topSpin s s' _ _ _ _ ih => exact ih
  | roundEnd s i s' _ _ _ ih => exact ih
  | visitAdd s i cls n d q s' _ _ _ _ _ _ ih => exact ih
  | visitSkip s i cls n s' _ _ _ _ ih => exact ih
  | innerExit s i cls n d s' _ _ _ _ _ ih => exact ih
  | innerGet s i cls n d s' _ _ _ _ _ _ hg =>
    unfold issueGet at hg
    split at hg
    · simp only [Except.ok.injEq] at hg; subst hg; exact Or.inl ⟨_, _, rfl⟩
    · cases hg
  | takeSend s i cls n d p _ _ _ _ _ _ _ _ => exact Or.inr (Or.inl ⟨p, rfl⟩)
  | takePark s i cls n d p s' _ _ _ _ _ _ _ _ _ ih => exact ih

/-- a burst: the ledger stays balanced; counts, booked bytes and forfeited credit are untouched; for two backlogged
entries the difference of `psi` is unchanged -/
theorem dsettles_fair (cfg : Cfg ℚ) (s s' : St) (hs : DSettles cfg s s') (hn : (s.ctl.classCount.map (·.1)).Nodup)
    (hl : LedgerK cfg s.ctl) :
    LedgerK cfg s'.ctl ∧ s'.ctl.classCount = s.ctl.classCount ∧ s'.ctl.sentBytes = s.ctl.sentBytes ∧
    s'.ctl.forfeited = s.ctl.forfeited ∧
    (∀ ia ib a b na nb, s.ctl.classCount[ia]? = some (a, na) → s.ctl.classCount[ib]? = some (b, nb) → 0 < na → 0 < nb →
      psi s'.ctl ia a - psi s'.ctl ib b = psi s.ctl ia a - psi s.ctl ib b) := by
  induction hs with
  | topGo s s' hpc _ _ ih =>
    obtain ⟨h1, h2, h3, h4, h5⟩ := ih hn hl
    refine ⟨h1, h2, h3, h4, fun ia ib a b na nb ha hb hna hnb => ?_⟩
    rw [h5 ia ib a b na nb ha hb hna hnb]
    simp [psi, passed, hpc]
  | topBlock s hpc _ =>
    have : (blockOnToken ({ s with ctl := { s.ctl with pc := Pc.top } } : St)).ctl = { s.ctl with pc := Pc.top } := by
      unfold blockOnToken; split <;> rfl
    rw [this]
    exact ⟨hl, rfl, rfl, rfl, fun ia ib a b na nb _ _ _ _ => by simp [psi, passed, hpc]⟩
  | topSpin s s' hpc _ _ _ ih =>
    obtain ⟨h1, h2, h3, h4, h5⟩ := ih hn hl
    refine ⟨h1, h2, h3, h4, fun ia ib a b na nb ha hb hna hnb => ?_⟩
    rw [h5 ia ib a b na nb ha hb hna hnb]
    simp [psi, passed, hpc]
  | roundEnd s i s' hpc hnone _ ih =>
    obtain ⟨h1, h2, h3, h4, h5⟩ := ih hn hl
    refine ⟨h1, h2, h3, h4, fun ia ib a b na nb ha hb hna hnb => ?_⟩
    rw [h5 ia ib a b na nb ha hb hna hnb]
    have hlen : s.ctl.classCount.length ≤ i := by
      by_contra hc
      rw [List.getElem?_eq_getElem (not_le.mp hc)] at hnone; cases hnone
    have hia : ia < i := by
      by_contra hc
      rw [List.getElem?_eq_none (le_trans hlen (not_lt.mp hc))] at ha; cases ha
    have hib : ib < i := by
      by_contra hc
      rw [List.getElem?_eq_none (le_trans hlen (not_lt.mp hc))] at hb; cases hb
    simp [psi, passed, hpc, hia, hib]
  | visitAdd s i cls n d q s' hpc hcc hpos hd hq _ ih =>
    have hl' : LedgerK cfg ({ addQuantum s.ctl cls d q with pc := Pc.inner i } : Ctl ℚ) := by
      intro c d' q' hd' hq'
      simp only [addQuantum] at hd' ⊢
      by_cases hc : c = cls
      · subst hc
        rw [lookup_setKey_same] at hd'; cases hd'
        rw [hq] at hq'; cases hq'
        have := hl c d q hd hq
        rw [cnt_bump]; simp only [if_true]
        push_cast
        linarith
      · rw [lookup_setKey_ne _ _ _ _ hc] at hd'
        rw [cnt_bump]; simp only [hc, if_false, add_zero]
        exact hl c d' q' hd' hq'
    obtain ⟨h1, h2, h3, h4, h5⟩ := ih hn hl'
    refine ⟨h1, h2, h3, h4, fun ia ib a b na nb ha hb hna hnb => ?_⟩
    rw [h5 ia ib a b na nb ha hb hna hnb]
    have key : ∀ j c m, s.ctl.classCount[j]? = some (c, m) →
        psi ({ addQuantum s.ctl cls d q with pc := Pc.inner i } : Ctl ℚ) j c = psi s.ctl j c := by
      intro j c m hj
      simp only [psi, addQuantum, passed, hpc, cnt_bump]
      by_cases hji : j = i
      · subst hji
        rw [hcc] at hj; cases hj
        simp
      · have hc : c ≠ cls := fun hx => hji (index_inj _ hn j i c m n hj (hx ▸ hcc))
        have h1 : (j < i) = (j ≤ i) := by
          apply propext; constructor
          · exact Nat.le_of_lt
          · intro hle; exact Nat.lt_of_le_of_ne hle hji
        simp [hc, h1]
    rw [key ia a na ha, key ib b nb hb]
  | visitSkip s i cls n s' hpc hcc hnp _ ih =>
    obtain ⟨h1, h2, h3, h4, h5⟩ := ih hn hl
    refine ⟨h1, h2, h3, h4, fun ia ib a b na nb ha hb hna hnb => ?_⟩
    rw [h5 ia ib a b na nb ha hb hna hnb]
    have key : ∀ j c m, s.ctl.classCount[j]? = some (c, m) → 0 < m →
        psi ({ s.ctl with pc := Pc.inner i } : Ctl ℚ) j c = psi s.ctl j c := by
      intro j c m hj hm
      simp only [psi, passed, hpc]
      by_cases hji : j = i
      · subst hji
        rw [hcc] at hj; cases hj
        exact absurd hm hnp
      · have h1 : (j < i) = (j ≤ i) := by
          apply propext; constructor
          · exact Nat.le_of_lt
          · intro hle; exact Nat.lt_of_le_of_ne hle hji
        simp [h1]
    rw [key ia a na ha hna, key ib b nb hb hnb]
  | innerExit s i cls n d s' hpc hcc hd hcond _ ih =>
    obtain ⟨h1, h2, h3, h4, h5⟩ := ih hn hl
    refine ⟨h1, h2, h3, h4, fun ia ib a b na nb ha hb hna hnb => ?_⟩
    rw [h5 ia ib a b na nb ha hb hna hnb]
    simp [psi, passed, hpc, Nat.lt_succ_iff]
  | innerGet s i cls n d s' hpc hcc hd hdp hnp hhol hg =>
    unfold issueGet at hg
    split at hg
    · simp only [Except.ok.injEq] at hg
      subst hg
      exact ⟨hl, rfl, rfl, rfl, fun ia ib a b na nb _ _ _ _ => by simp [psi, passed, hpc]⟩
    · cases hg
  | takeSend s i cls n d p hpc hcc hd hdp hnp hhol hcl hle =>
    exact ⟨hl, rfl, rfl, rfl, fun ia ib a b na nb _ _ _ _ => by simp [psi, passed, hpc, spawn]⟩
  | takePark s i cls n d p s' hpc hcc hd hdp hnp hhol hcl hle _ ih =>
    obtain ⟨h1, h2, h3, h4, h5⟩ := ih hn hl
    refine ⟨h1, h2, h3, h4, fun ia ib a b na nb ha hb hna hnb => ?_⟩
    rw [h5 ia ib a b na nb ha hb hna hnb]
    simp [psi, passed, hpc, Nat.lt_succ_iff]

/-! ### whole steps -/

theorem book_classCount (k : Ctl ℚ) (cls : Nat) (d : ℚ) (n : Int) (p : MPkt) :
    (book k cls d n p).classCount = setKey k.classCount cls (n - 1) := by unfold book; split <;> rfl
theorem book_visits (k : Ctl ℚ) (cls : Nat) (d : ℚ) (n : Int) (p : MPkt) : (book k cls d n p).visits = k.visits := by
  unfold book; split <;> rfl
theorem book_sentBytes (k : Ctl ℚ) (cls : Nat) (d : ℚ) (n : Int) (p : MPkt) :
    (book k cls d n p).sentBytes = bump k.sentBytes cls p.size := by unfold book; split <;> rfl
theorem book_deficit (k : Ctl ℚ) (cls : Nat) (d : ℚ) (n : Int) (p : MPkt) :
    (book k cls d n p).deficit = setKey k.deficit cls (if n - 1 = 0 then 0 else d - p.size) := by
  unfold book; split
  · show setKey k.deficit cls Num.zero = setKey k.deficit cls 0
    rw [zero_eq']
  · rfl
theorem book_forfeited (k : Ctl ℚ) (cls : Nat) (d : ℚ) (n : Int) (p : MPkt) :
    (book k cls d n p).forfeited = if n - 1 = 0 then setKey k.forfeited cls (acc k.forfeited cls + (d - p.size)) else k.forfeited := by
  unfold book; split
  · rfl
  · rfl

/-- bytes of class `c` whose sender has ended but which the loop has not booked yet -/
def pend (cfg : Cfg ℚ) (s : St) (c : Nat) : Int :=
  match s.phase with
  | .finished p => if classOf cfg p.flow = some c then (p.size : Int) else 0
  | _ => 0

/-- bytes of class `c` that depart with this output -/
def depB (cfg : Cfg ℚ) (o : MOut ℚ) (c : Nat) : Int :=
  match o with
  | .depart p => if classOf cfg p.flow = some c then (p.size : Int) else 0
  | _ => 0

theorem pend_of_end (cfg : Cfg ℚ) (s' : St) (c : Nat)
    (h : (∃ c p, s'.phase = .pktHanded c p) ∨ (∃ p, s'.phase = .spawned p) ∨ s'.phase = .waitToken ∨ s'.phase = .tokenHanded) :
    pend cfg s' c = 0 := by
  rcases h with ⟨c', p, h⟩ | ⟨p, h⟩ | h | h <;> simp [pend, h]

/-- the four facts fairness needs, for a step that starts a burst at `s0` (same control data as `s` up to `k0`) -/
theorem fair_of_burst (cfg : Cfg ℚ) (s0 s' : St) (hs : DSettles cfg s0 s') (hn : (s0.ctl.classCount.map (·.1)).Nodup)
    (hl : LedgerK cfg s0.ctl) :
    LedgerK cfg s'.ctl ∧
    (∀ ia ib a b na nb, s'.ctl.classCount[ia]? = some (a, na) → s'.ctl.classCount[ib]? = some (b, nb) → 0 < na → 0 < nb →
      psi s'.ctl ia a - psi s'.ctl ib b = psi s0.ctl ia a - psi s0.ctl ib b) ∧
    s'.ctl.classCount = s0.ctl.classCount ∧ s'.ctl.forfeited = s0.ctl.forfeited ∧ s'.ctl.sentBytes = s0.ctl.sentBytes := by
  obtain ⟨h1, h2, h3, h4, h5⟩ := dsettles_fair cfg s0 s' hs hn hl
  exact ⟨h1, fun ia ib a b na nb ha hb => h5 ia ib a b na nb (h2 ▸ ha) (h2 ▸ hb), h2, h4, h3⟩

theorem dtrans_fair (cfg : Cfg ℚ) (L : ℚ) (s s' : St) (a : MAct ℚ) (o : MOut ℚ) (ht : DTrans cfg s a s' o)
    (hc : Credit cfg L s) (hl : LedgerK cfg s.ctl) :
    LedgerK cfg s'.ctl ∧
    (∀ ia ib a b na nb, s'.ctl.classCount[ia]? = some (a, na) → s'.ctl.classCount[ib]? = some (b, nb) → 0 < na → 0 < nb →
      psi s'.ctl ia a - psi s'.ctl ib b = psi s.ctl ia a - psi s.ctl ib b) ∧
    (∀ c, Pos s'.ctl c → acc s'.ctl.forfeited c = acc s.ctl.forfeited c) ∧
    (∀ c, cnt s'.ctl.sentBytes c + pend cfg s' c = cnt s.ctl.sentBytes c + pend cfg s c + depB cfg o c) := by
  cases ht with
  | init _ hp hs =>
    obtain ⟨h1, h2, h3, h4, h5⟩ := fair_of_burst cfg _ s' hs hc.nodup hl
    refine ⟨h1, h2, fun c _ => by rw [h4], fun c => ?_⟩
    rw [h5, pend_of_end cfg s' c (dsettles_end cfg _ s' hs)]
    simp [pend, hp, depB]
  | put p cls n hcl hn =>
    have hctl : ∀ (t : St), (enqueue (countIn (postToken t) p) cls p).phase = t.phase ∧
        (enqueue (countIn (postToken t) p) cls p).ctl = t.ctl := by
      intro t; unfold postToken; split <;> exact ⟨rfl, rfl⟩
    obtain ⟨e1, e2⟩ := hctl { s with ctl := { s.ctl with classCount := setKey s.ctl.classCount cls (n + 1) } }
    rw [e2]
    refine ⟨hl, fun ia ib a b na nb _ _ _ _ => rfl, fun c _ => rfl, fun c => ?_⟩
    simp only [pend, e1, depB]; omega
  | tokenHandoff n hp htk =>
    exact ⟨hl, fun ia ib a b na nb _ _ _ _ => rfl, fun c _ => rfl, fun c => by simp [pend, hp, depB]⟩
  | wake _ hp hs =>
    obtain ⟨h1, h2, h3, h4, h5⟩ := fair_of_burst cfg _ s' hs hc.nodup hl
    refine ⟨h1, h2, fun c _ => by rw [h4], fun c => ?_⟩
    rw [h5, pend_of_end cfg s' c (dsettles_end cfg _ s' hs)]
    simp [pend, hp, depB]
  | resumeSend cls p i d hp hpc hd hcl hle =>
    refine ⟨hl, fun ia ib a b na nb _ _ _ _ => ?_, fun c _ => rfl, fun c => by simp [pend, hp, depB, spawn]⟩
    simp [psi, passed, hpc, spawn]
  | resumePark cls p i d _ hp hpc hd hcl hle hnone hs =>
    obtain ⟨h1, h2, h3, h4, h5⟩ := fair_of_burst cfg _ s' hs hc.nodup hl
    refine ⟨h1, fun ia ib a b na nb ha hb hna hnb => ?_, fun c _ => by rw [h4], fun c => ?_⟩
    · rw [h2 ia ib a b na nb ha hb hna hnb]
      simp [psi, passed, hpc, Nat.lt_succ_iff]
    · rw [h5, pend_of_end cfg s' c (dsettles_end cfg _ s' hs)]
      simp [pend, hp, depB]
  | sendInit p hp =>
    exact ⟨hl, fun ia ib a b na nb _ _ _ _ => rfl, fun c _ => rfl, fun c => by simp [pend, hp, depB]⟩
  | sendFire p due hp hnow =>
    refine ⟨hl, fun ia ib a b na nb _ _ _ _ => rfl, fun c _ => rfl, fun c => ?_⟩
    simp [pend, hp, depB, countOut]
  | sendDone p i cls n d _ hp hpc hcc hd hs =>
    have hkey : keyAt s.ctl i = some cls := by simp [keyAt, hcc]
    have hcn : lookup s.ctl.classCount cls = some n := lookup_of_getElem _ hc.nodup i cls n hcc
    have hcl : classOf cfg p.flow = some cls := by
      rw [(hc.txClass i p hpc (Or.inr (Or.inr hp))).1]; exact hkey
    have hn1 : ((book s.ctl cls d n p).classCount.map (·.1)).Nodup := by
      rw [book_classCount, keys_setKey_present _ _ _ _ hcn]; exact hc.nodup
    have hl1 : LedgerK cfg ({ book s.ctl cls d n p with pc := Pc.inner i } : Ctl ℚ) := by
      intro c d' q hd' hq
      have hd'' : lookup (book s.ctl cls d n p).deficit c = some d' := hd'
      show ((cnt (book s.ctl cls d n p).sentBytes c : Int) : ℚ) + d' =
        q * ((cnt (book s.ctl cls d n p).visits c : Int) : ℚ) - acc (book s.ctl cls d n p).forfeited c
      rw [book_deficit] at hd''
      rw [book_sentBytes, book_visits, book_forfeited, cnt_bump]
      by_cases hcc' : c = cls
      · subst hcc'
        rw [lookup_setKey_same] at hd''; cases hd''
        have := hl c d q hd hq
        simp only [if_true]
        split
        · simp only [acc, lookup_setKey_same, Option.getD_some]
          push_cast
          have e : acc s.ctl.forfeited c = (lookup s.ctl.forfeited c).getD Num.zero := rfl
          rw [← e]; linarith
        · push_cast; linarith
      · rw [lookup_setKey_ne _ _ _ _ hcc'] at hd''
        have := hl c d' q hd'' hq
        simp only [hcc', if_false, add_zero]
        split
        · simp only [acc, lookup_setKey_ne _ _ _ _ hcc']
          exact this
        · exact this
    obtain ⟨h1, h2, h3, h4, h5⟩ := fair_of_burst cfg _ s' hs hn1 hl1
    refine ⟨h1, fun ia ib a b na nb ha hb hna hnb => ?_, fun c hpos => ?_, fun c => ?_⟩
    · rw [h2 ia ib a b na nb ha hb hna hnb]
      simp [psi, passed, hpc, book_visits]
    · rw [h4]
      show acc (book s.ctl cls d n p).forfeited c = acc s.ctl.forfeited c
      rw [book_forfeited]
      split
      · rename_i hz
        by_cases hcc' : c = cls
        · subst hcc'
          obtain ⟨m, hm, hmpos⟩ := hpos
          rw [h3] at hm
          have : lookup (book s.ctl c d n p).classCount c = some m := hm
          rw [book_classCount, lookup_setKey_same] at this
          cases this; omega
        · simp only [acc, lookup_setKey_ne _ _ _ _ hcc']
      · rfl
    · rw [h5, pend_of_end cfg s' c (dsettles_end cfg _ s' hs)]
      show cnt (book s.ctl cls d n p).sentBytes c + 0 = _
      rw [book_sentBytes, cnt_bump]
      simp only [pend, hp, depB, hcl]
      by_cases hcc' : c = cls
      · subst hcc'; simp
      · have : ¬ (some cls = some c) := fun hx => hcc' (Option.some.inj hx).symm
        simp [hcc', this]
  | tickIdle t h1 h2 h3 =>
    exact ⟨hl, fun ia ib a b na nb _ _ _ _ => rfl, fun c _ => rfl, fun c => by simp [pend, h2, depB]⟩
  | tickBusy t p due h1 h2 h3 =>
    exact ⟨hl, fun ia ib a b na nb _ _ _ _ => rfl, fun c _ => rfl, fun c => by simp [pend, h2, depB]⟩
  | sample inc => exact ⟨hl, fun ia ib a b na nb _ _ _ _ => rfl, fun c _ => rfl, fun c => by simp [depB]⟩

end DRR
