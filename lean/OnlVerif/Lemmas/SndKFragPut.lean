import OnlVerif.Lemmas.SndKFragAck
/-!
# The TCP sender on the kernel model: the new-ACK block of `put` and `put` as a whole
-/

set_option linter.unusedSimpArgs false

namespace SndK
open SenderOnK TcpSender
open TimerK (lookup)

variable {s : KS} {a : A} {p : EvId}

theorem cancel1_fields (cond : Nat → Bool) (S : Sender ℚ) (c : Nat) :
    (cancel1 cond S c).kind = S.kind ∧ (cancel1 cond S c).cc = S.cc ∧ (cancel1 cond S c).est = S.est ∧
    (cancel1 cond S c).mss = S.mss ∧ (cancel1 cond S c).size = S.size ∧ (cancel1 cond S c).next_seq = S.next_seq ∧
    (cancel1 cond S c).send_buffer = S.send_buffer ∧ (cancel1 cond S c).last_ack = S.last_ack ∧
    (cancel1 cond S c).dupack = S.dupack ∧ (cancel1 cond S c).tokens = S.tokens ∧ (cancel1 cond S c).proc = S.proc ∧
    (cancel1 cond S c).now = S.now := by
  unfold cancel1
  split <;> exact ⟨rfl, rfl, rfl, rfl, rfl, rfl, rfl, rfl, rfl, rfl, rfl, rfl⟩

theorem cancelS_fields (cond : Nat → Bool) : ∀ (cs : List Nat) (S : Sender ℚ),
    (cancelS cond S cs).kind = S.kind ∧ (cancelS cond S cs).cc = S.cc ∧ (cancelS cond S cs).est = S.est ∧
    (cancelS cond S cs).mss = S.mss ∧ (cancelS cond S cs).size = S.size ∧ (cancelS cond S cs).next_seq = S.next_seq ∧
    (cancelS cond S cs).send_buffer = S.send_buffer ∧ (cancelS cond S cs).last_ack = S.last_ack ∧
    (cancelS cond S cs).dupack = S.dupack ∧ (cancelS cond S cs).tokens = S.tokens ∧ (cancelS cond S cs).proc = S.proc ∧
    (cancelS cond S cs).now = S.now
  | [], _ => ⟨rfl, rfl, rfl, rfl, rfl, rfl, rfl, rfl, rfl, rfl, rfl, rfl⟩
  | c :: cs, S => by
    obtain ⟨f1, f2, f3, f4, f5, f6, f7, f8, f9, f10, f11, f12⟩ := cancelS_fields cond cs (cancel1 cond S c)
    obtain ⟨g1, g2, g3, g4, g5, g6, g7, g8, g9, g10, g11, g12⟩ := cancel1_fields cond S c
    exact ⟨f1.trans g1, f2.trans g2, f3.trans g3, f4.trans g4, f5.trans g5, f6.trans g6, f7.trans g7, f8.trans g8,
      f9.trans g9, f10.trans g10, f11.trans g11, f12.trans g12⟩

/-- the LTS state in the new-ACK block before the timers are cancelled -/
def sAck (S : Sender ℚ) (x : Ack) : Sender ℚ :=
  (S.noteAck x).growWindow (TCPPacketGenerator.put_sample_rtt S.now x.ptime)

/-- the configuration after the cancellation loop of the new-ACK block -/
def aAck4 (cfg : Cfg) (a : A) (x : Ack) : A :=
  cancelA (covCond x.ackno x.pid) a.S.now { a with S := sAck a.S x } (cands cfg.mss 0 (a.S.next_seq / cfg.mss))

/-- the configuration after the new-ACK block (`q'`: the entry of the `StorePut` of the wake-up token) -/
def aNewAck (cfg : Cfg) (a : A) (x : Ack) (q' : QEntry ℚ) : A :=
  { aAck4 cfg a x with putAt := a.S.now, pend := (aAck4 cfg a x).pend ++ [q'],
                       S := { (aAck4 cfg a x).S with tokens := (aAck4 cfg a x).S.tokens + 1 } }

theorem frag_newAck {cfg : Cfg} (h : KI (some p) s a) (hkind : a.S.kind = cfg.kind) (x : Ack)
    (hsafe : CC.ackReceivedSafe a.S.kind a.S.cc (TCPPacketGenerator.put_sample_rtt a.S.now x.ptime) a.S.now = true)
    (hk : AL.keys a.S.timers = AL.keys a.S.sent) (hn : (AL.keys a.S.timers).Nodup) {now : ℚ} (hnow : a.S.now = now) :
    ∃ s' q', (∀ cont, runBurst p (sndNewAck cfg now x cont) s = runBurst p cont s') ∧ q'.time = a.S.now ∧
      q'.prio = NORMAL ∧ KI (some p) s' (aNewAck cfg a x q') := by
  subst hnow
  have h1 := h.set_est (TCPPacketGenerator.put_estimator a.S.est a.S.now x.ptime)
  have h2 := h1.set_lack x.ackno
  have h3 := h2.set_cc (CC.ackReceived a.S.kind a.S.cc (TCPPacketGenerator.put_sample_rtt a.S.now x.ptime) a.S.now)
  have h3' : KI (some p) _ { a with S := sAck a.S x } := h3.congr rfl
  obtain ⟨s4, r4, h4⟩ := frag_cancel (p := p) cfg.mss a.S.now x.ackno x.pid (a.S.next_seq / cfg.mss) 0 _ _ h3' hk hn
  have h5 := h4.set_putAt a.S.now
  have hnow5 : s4.now = a.S.now := by
    have := h4.k.now
    rw [this]
    show (cancelA _ _ _ _).S.now = _
    rw [cancelA_S]
    exact (cancelS_fields _ _ _).2.2.2.2.2.2.2.2.2.2.2
  refine ⟨sputSt (setCell s4 cPutAt (TimeCell.enc a.S.now)) (aAck4 cfg a x).run.getQ
    (List.replicate (aAck4 cfg a x).S.tokens 1), ⟨s4.now, NORMAL, s4.eid, s4.events.size⟩, fun cont => ?_, hnow5, rfl, ?_⟩
  · unfold sndNewAck
    rw [rb_estCall h, rb_storeNat, rb_loadCC h2.c.cc]
    have hs' : CC.ackReceivedSafe cfg.kind a.S.cc (TCPPacketGenerator.put_sample_rtt a.S.now x.ptime) a.S.now = true := by
      rw [← hkind]; exact hsafe
    show runBurst p (if CC.ackReceivedSafe cfg.kind a.S.cc _ a.S.now = true then _ else _) _ = _
    rw [if_pos hs', rb_storeCC, ← hkind, rb_loadNat h3.c.next, r4, rb_storeTime]
    rw [rb_sput _ p _ _ h5.k.rsz h5.k.tok]
    rfl
  · refine ⟨h5.k.sput, ?_⟩
    cells_same h5.c

/-! ## `put(ack)` as a whole -/

theorem CancelRel.of_eq {now now' : ℚ} {a0 a a' a'' : A} {seq : Nat} (h : CancelRel now a0 a' seq) (hn : now = now')
    (h1 : AL.get? seq a0.S.timers = AL.get? seq a.S.timers) (h2 : a0.tmc seq = a.tmc seq)
    (h3 : AL.get? seq a''.S.timers = AL.get? seq a'.S.timers) (h4 : a''.tmc seq = a'.tmc seq) :
    CancelRel now' a a'' seq := by
  subst hn
  unfold CancelRel at h ⊢
  rw [h3, h4, ← h1, ← h2]
  exact h

theorem cands_nodup (mss : Nat) (hm : 0 < mss) (seq n : Nat) : (cands mss seq n).Nodup := by
  rw [cands_eq]
  refine List.Nodup.map ?_ List.nodup_range
  intro i j hij
  have hij' : seq + i * mss = seq + j * mss := hij
  have : i * mss = j * mss := by omega
  exact Nat.eq_of_mul_eq_mul_right hm this

theorem countDup_fields (S : Sender ℚ) (k : Nat) :
    (S.countDup k).kind = S.kind ∧ (S.countDup k).est = S.est ∧ (S.countDup k).mss = S.mss ∧ (S.countDup k).size = S.size ∧
    (S.countDup k).next_seq = S.next_seq ∧ (S.countDup k).send_buffer = S.send_buffer ∧ (S.countDup k).last_ack = S.last_ack ∧
    (S.countDup k).timers = S.timers ∧ (S.countDup k).sent = S.sent ∧ (S.countDup k).tokens = S.tokens ∧
    (S.countDup k).proc = S.proc ∧ (S.countDup k).now = S.now := by
  unfold Sender.countDup Sender.leaveDups
  split
  · exact ⟨rfl, rfl, rfl, rfl, rfl, rfl, rfl, rfl, rfl, rfl, rfl, rfl⟩
  · split
    · split <;> exact ⟨rfl, rfl, rfl, rfl, rfl, rfl, rfl, rfl, rfl, rfl, rfl, rfl⟩
    · exact ⟨rfl, rfl, rfl, rfl, rfl, rfl, rfl, rfl, rfl, rfl, rfl, rfl⟩

/-- what `put(ack)` at instant `now` does to a configuration, besides the LTS state: at most one more pending `StorePut`
(with one more token, put at `now`), and the timers it covers are stopped at `now` -/
structure PutRel (now : ℚ) (a a' : A) : Prop where
  run : a'.run = a.run
  scr : a'.scr = a.scr
  tks : a'.tks = a.tks
  tmp : a'.tmp = a.tmp
  tph : a'.tph = a.tph
  cur : a'.cur = a.cur
  tok : (a'.pend = a.pend ∧ a'.S.tokens = a.S.tokens ∧ a'.putAt = a.putAt) ∨
        (∃ q', a'.pend = a.pend ++ [q'] ∧ q'.time = now ∧ q'.prio = NORMAL ∧ a'.S.tokens = a.S.tokens + 1 ∧ a'.putAt = now)
  sub : (AL.keys a'.S.timers).Sublist (AL.keys a.S.timers)
  tm : ∀ seq, CancelRel now a a' seq
  fr : a'.S.kind = a.S.kind ∧ a'.S.mss = a.S.mss ∧ a'.S.size = a.S.size ∧ a'.S.next_seq = a.S.next_seq ∧
       a'.S.send_buffer = a.S.send_buffer ∧ a'.S.proc = a.S.proc ∧ a'.S.now = a.S.now

/-- a change of the LTS state that leaves `timers` and `tokens` alone -/
theorem PutRel.of_S {now : ℚ} {a : A} (S' : Sender ℚ) (txs' : List (Nat × ℚ)) (ht : S'.timers = a.S.timers)
    (hk : S'.tokens = a.S.tokens)
    (hf : S'.kind = a.S.kind ∧ S'.mss = a.S.mss ∧ S'.size = a.S.size ∧ S'.next_seq = a.S.next_seq ∧
       S'.send_buffer = a.S.send_buffer ∧ S'.proc = a.S.proc ∧ S'.now = a.S.now) :
    PutRel now a { a with S := S', txs := txs' } :=
  ⟨rfl, rfl, rfl, rfl, rfl, rfl, Or.inl ⟨rfl, hk, rfl⟩, by show (AL.keys S'.timers).Sublist _; rw [ht],
    fun seq => Or.inl ⟨by show AL.get? seq S'.timers = _; rw [ht], rfl⟩, hf⟩

theorem cCwnd_cell {c : CCState ℚ} {s : KS} (h : ∀ x ∈ ccCells c, lookup s.shared x.1 = x.2) :
    lookup s.shared cCwnd = TimeCell.enc c.cwnd :=
  h (cCC 1, TimeCell.enc c.cwnd) (by simp [ccCells])

theorem frag_put {cfg : Cfg} (h : KI (some p) s a) (hinv : Inv a.S) (hkind : a.S.kind = cfg.kind) (hmpos : 0 < cfg.mss)
    (htk : (AL.keys a.S.timers).Sublist (segKeys cfg.mss a.S.next_seq)) (x : Ack) (hok : AckOk a.S x) :
    ∃ s' a' outs, (∀ cont, runBurst p (sndPut cfg a.S.now x cont) s = runBurst p cont s') ∧ KI (some p) s' a' ∧
      a.S.ackStep x = .ok a'.S outs ∧ a'.txs = a.txs ++ outs.map txPair ∧ PutRel a.S.now a a' := by
  have hfid : ¬ x.fid < 10000 := Nat.not_lt.mpr hok.1
  by_cases hst : x.ackno < a.S.last_ack
  · -- overtaken by a later cumulative ACK: `put` returns at once
    refine ⟨s, { a with S := a.S, txs := a.txs }, [], fun cont => ?_, h, ackStep_stale a.S x hok hst, by simp,
      PutRel.of_S _ _ rfl rfl ⟨rfl, rfl, rfl, rfl, rfl, rfl, rfl⟩⟩
    unfold sndPut
    rw [if_neg hfid, rb_loadNat h.c.lack, if_pos hst]
  obtain ⟨c1, c2, c3, c4, c5, c6, c7, c8, c9, c10, c11, c12⟩ := countDup_fields a.S x.ackno
  obtain ⟨s1, r1, h1⟩ := frag_countDup (p := p) h x.ackno
  have hstart : ∀ cont, runBurst p (sndPut cfg a.S.now x cont) s =
      runBurst p (if (a.S.countDup x.ackno).dupack = 3 then
          ccCall CongestionControl.consecutive_dupacks_received <| sndResend a.S.now x.ackno cont
        else if (a.S.countDup x.ackno).dupack > 3 then
          ccCall CongestionControl.more_dupacks_received <| loadTime cCwnd fun cwnd =>
            if (Num.ofNat x.ackno : ℚ) ≤ Num.ofNat a.S.last_ack + cwnd then sndResend a.S.now x.ackno cont else cont
        else if (a.S.countDup x.ackno).dupack = 0 then sndNewAck cfg a.S.now x cont
        else cont) s1 := by
    intro cont
    unfold sndPut
    rw [if_neg hfid, rb_loadNat h.c.lack, if_neg hst, rb_loadNat h.c.dup, r1]
  rw [ackStep_unfold a.S x hok hst]
  by_cases d3 : (a.S.countDup x.ackno).dupack = 3
  · -- the third duplicate
    have h2 := h1.set_cc (CongestionControl.consecutive_dupacks_received (a.S.countDup x.ackno).cc)
    obtain ⟨s3, r3, h3⟩ := frag_resend h2 x.ackno (now := a.S.now) c12
    refine ⟨s3, _, _, fun cont => ?_, h3, ?_, rfl, ?_⟩
    · rw [hstart, if_pos d3, rb_ccCall h1]
      exact r3 cont
    · rw [if_pos d3]; rfl
    · obtain ⟨f1, f2, f3, f4, f5, f6, f7, f8, f9, f10, f11, f12, f13⟩ := resend_fields
        ({ a.S.countDup x.ackno with cc := CongestionControl.consecutive_dupacks_received (a.S.countDup x.ackno).cc } : Sender ℚ)
        x.ackno
      exact PutRel.of_S _ _ (f10.trans c8) (f11.trans c10)
        ⟨f1.trans c1, f4.trans c3, f5.trans c4, f6.trans c5, f7.trans c6, f12.trans c11, f13.trans c12⟩
  · by_cases dgt : (a.S.countDup x.ackno).dupack > 3
    · -- further duplicates
      have h2 := h1.set_cc (CongestionControl.more_dupacks_received (a.S.countDup x.ackno).cc)
      by_cases hw : (Num.ofNat x.ackno : ℚ) ≤ Num.ofNat a.S.last_ack +
          (CongestionControl.more_dupacks_received (a.S.countDup x.ackno).cc).cwnd
      · obtain ⟨s3, r3, h3⟩ := frag_resend h2 x.ackno (now := a.S.now) c12
        refine ⟨s3, _, _, fun cont => ?_, h3, ?_, rfl, ?_⟩
        · rw [hstart, if_neg d3, if_pos dgt, rb_ccCall h1, rb_loadTime (cCwnd_cell h2.c.cc), if_pos hw]
          exact r3 cont
        · rw [if_neg d3, if_pos dgt]
          unfold Sender.moreDup
          simp only
          rw [show (a.S.countDup x.ackno).last_ack = a.S.last_ack from c7, if_pos hw]
          rfl
        · obtain ⟨f1, f2, f3, f4, f5, f6, f7, f8, f9, f10, f11, f12, f13⟩ := resend_fields
            ({ a.S.countDup x.ackno with cc := CongestionControl.more_dupacks_received (a.S.countDup x.ackno).cc } : Sender ℚ)
            x.ackno
          exact PutRel.of_S _ _ (f10.trans c8) (f11.trans c10)
            ⟨f1.trans c1, f4.trans c3, f5.trans c4, f6.trans c5, f7.trans c6, f12.trans c11, f13.trans c12⟩
      · refine ⟨_, { a with S := { a.S.countDup x.ackno with
            cc := CongestionControl.more_dupacks_received (a.S.countDup x.ackno).cc }, txs := a.txs }, [],
          fun cont => ?_, h2, ?_, by simp, PutRel.of_S _ _ c8 c10 ⟨c1, c3, c4, c5, c6, c11, c12⟩⟩
        · rw [hstart, if_neg d3, if_pos dgt, rb_ccCall h1, rb_loadTime (cCwnd_cell h2.c.cc), if_neg hw]
        · rw [if_neg d3, if_pos dgt]
          unfold Sender.moreDup
          simp only
          rw [show (a.S.countDup x.ackno).last_ack = a.S.last_ack from c7, if_neg hw]
    · by_cases d0 : (a.S.countDup x.ackno).dupack = 0
      · -- a new ACK
        have hne := (ackStep_safe hinv x hok.1).1
        rw [ackStep_unfold a.S x hok hst, if_neg d3, if_neg dgt, if_pos d0] at hne
        have hsafe : CC.ackReceivedSafe (a.S.countDup x.ackno).kind (a.S.countDup x.ackno).cc
            (TCPPacketGenerator.put_sample_rtt (a.S.countDup x.ackno).now x.ptime) (a.S.countDup x.ackno).now = true := by
          by_contra hc
          apply hne .partialOp
          unfold Sender.newAck
          simp only [hc, if_false, Bool.false_eq_true]
        have hk1 : AL.keys (a.S.countDup x.ackno).timers = AL.keys (a.S.countDup x.ackno).sent := by
          rw [c8, c9]; exact hinv.keys
        have hn1 : (AL.keys (a.S.countDup x.ackno).timers).Nodup := by rw [c8]; exact hinv.nodup
        obtain ⟨s', q', r', hq1, hq2, h'⟩ := frag_newAck (cfg := cfg) (a := { a with S := a.S.countDup x.ackno }) h1
          (c1.trans hkind) x hsafe hk1 hn1 (now := a.S.now) c12
        -- the LTS side: the walk over the covered keys is the program's loop
        have hcs : (cands cfg.mss 0 ((a.S.countDup x.ackno).next_seq / cfg.mss)).Nodup := cands_nodup _ hmpos _ _
        have hsub : (AL.keys (sAck (a.S.countDup x.ackno) x).timers).Sublist
            (cands cfg.mss 0 ((a.S.countDup x.ackno).next_seq / cfg.mss)) := by
          show (AL.keys (a.S.countDup x.ackno).timers).Sublist _
          rw [c8, c5, ← segKeys_eq_cands]; exact htk
        have hdrop := dropSegs_cancelS (covCond x.ackno x.pid) _ (sAck (a.S.countDup x.ackno) x) _ hcs hsub hk1 hn1
          (fun k hk' => hk') (fun c _ hc => hc)
        have hS : (aNewAck cfg { a with S := a.S.countDup x.ackno } x q').S =
            (cancelS (covCond x.ackno x.pid) (sAck (a.S.countDup x.ackno) x)
              (cands cfg.mss 0 ((a.S.countDup x.ackno).next_seq / cfg.mss))).giveToken := by
          show ({ (aAck4 cfg _ x).S with tokens := _ } : Sender ℚ) = _
          unfold aAck4
          rw [cancelA_S]
          rfl
        obtain ⟨g1, g2, g3, g4, g5, g6, g7, g8, g9⟩ := cancelA_frame (covCond x.ackno x.pid) (a.S.countDup x.ackno).now
          (cands cfg.mss 0 ((a.S.countDup x.ackno).next_seq / cfg.mss)) { a with S := sAck (a.S.countDup x.ackno) x }
        obtain ⟨rel1, rel2⟩ := cancelA_rel (covCond x.ackno x.pid) (a.S.countDup x.ackno).now
          (cands cfg.mss 0 ((a.S.countDup x.ackno).next_seq / cfg.mss)) { a with S := sAck (a.S.countDup x.ackno) x } hn1
        refine ⟨s', _, [], fun cont => by rw [hstart, if_neg d3, if_neg dgt, if_pos d0]; exact r' cont, h', ?_,
          by simpa [aNewAck, aAck4] using g8, ?_⟩
        · rw [if_neg d3, if_neg dgt, if_pos d0, hS]
          unfold Sender.newAck
          simp only [hsafe, if_true]
          show Sender.finishAck (sAck (a.S.countDup x.ackno) x) x = _
          unfold Sender.finishAck
          have hcov : (sAck (a.S.countDup x.ackno) x).covered x.ackno x.pid =
              (AL.keys (sAck (a.S.countDup x.ackno) x).timers).filter (covCond x.ackno x.pid) := rfl
          rw [hcov, hdrop]
        · obtain ⟨k1, _, _, k4, k5, k6, k7, _, _, _, k11, k12⟩ := cancelS_fields (covCond x.ackno x.pid)
            (cands cfg.mss 0 ((a.S.countDup x.ackno).next_seq / cfg.mss)) (sAck (a.S.countDup x.ackno) x)
          have hfr : (aNewAck cfg { a with S := a.S.countDup x.ackno } x q').S.kind = a.S.kind ∧
              (aNewAck cfg { a with S := a.S.countDup x.ackno } x q').S.mss = a.S.mss ∧
              (aNewAck cfg { a with S := a.S.countDup x.ackno } x q').S.size = a.S.size ∧
              (aNewAck cfg { a with S := a.S.countDup x.ackno } x q').S.next_seq = a.S.next_seq ∧
              (aNewAck cfg { a with S := a.S.countDup x.ackno } x q').S.send_buffer = a.S.send_buffer ∧
              (aNewAck cfg { a with S := a.S.countDup x.ackno } x q').S.proc = a.S.proc ∧
              (aNewAck cfg { a with S := a.S.countDup x.ackno } x q').S.now = a.S.now := by
            rw [hS]
            exact ⟨k1.trans c1, k4.trans c3, k5.trans c4, k6.trans c5, k7.trans c6, k11.trans c11, k12.trans c12⟩
          refine ⟨g1, g2, g4, g5, g6, g9, Or.inr ⟨q', ?_, hq1.trans c12, hq2, ?_, c12⟩, ?_, ?_, hfr⟩
          · show (aAck4 cfg _ x).pend ++ [q'] = a.pend ++ [q']
            unfold aAck4; rw [g3]
          · show (aAck4 cfg _ x).S.tokens + 1 = a.S.tokens + 1
            unfold aAck4; rw [cancelA_S, (cancelS_fields _ _ _).2.2.2.2.2.2.2.2.2.1]
            show (a.S.countDup x.ackno).tokens + 1 = _
            rw [c10]
          · show (AL.keys (aAck4 cfg _ x).S.timers).Sublist (AL.keys a.S.timers)
            rw [← c8]; exact rel1
          · intro seq
            refine (rel2 seq).of_eq c12 ?_ rfl rfl rfl
            show AL.get? seq (a.S.countDup x.ackno).timers = _
            rw [c8]
      · -- the first two duplicates only count
        refine ⟨s1, { a with S := a.S.countDup x.ackno, txs := a.txs }, [], fun cont => ?_, h1, ?_, by simp,
          PutRel.of_S _ _ c8 c10 ⟨c1, c3, c4, c5, c6, c11, c12⟩⟩
        · rw [hstart, if_neg d3, if_neg dgt, if_neg d0]
        · rw [if_neg d3, if_neg dgt, if_neg d0]

end SndK
