import OnlVerif.Lemmas.VCKAbs
/-!
# The VirtualClock scheduler on the kernel model: the abstraction function `absVC` reads the configuration's LTS state off
the kernel state
-/

set_option linter.unusedSimpArgs false

namespace VCK
open VCOnK QEntry
open TimerK (lookup)

variable {N scale F : Nat} {flow size : Int → Nat} {cfg : VcCfg ℚ}
variable {s : KS} {a : A}

/-- `item.item` of a carried item is the packet id -/
theorem itemPkt_code (c i : Int) (h0 : 0 ≤ i) (h1 : i < N) : itemPkt N (c * (N : Int) + i) = i := by
  unfold itemPkt
  rw [Int.add_comm, Int.add_mul_emod_self_right]
  exact Int.emod_eq_of_lt h0 h1

theorem itemPkt_codeOf_af (w : PutRec) (h0 : 0 ≤ w.1) (h1 : w.1 < N) : itemPkt N (codeOf N scale w) = w.1 :=
  itemPkt_code _ _ h0 h1

theorem cellVal_eq (k : Nat) : cellVal s k = lookup s.shared k := rfl

theorem dec_enc (x : ℚ) : TimeCell.dec (TimeCell.enc x) = some x := by
  show (some (mkRat _ _) : Option ℚ) = some x
  congr 1
  by_cases h : x.num < 0
  · simp only [h, if_true]
    have : (-(x.num.natAbs : Int)) = x.num := by omega
    rw [this]
    exact Rat.mkRat_self x
  · simp only [h, if_false]
    have h2 : ((x.num.natAbs : Nat) : Int) = x.num := by omega
    have : ((if (0:Nat) = 1 then -((x.num.natAbs : Nat) : Int) else ((x.num.natAbs : Nat) : Int))) = x.num := by simp [h2]
    rw [this]
    exact Rat.mkRat_self x

theorem putsOf_linv {tr : Array (Obs ℚ)} (hl : LInv a (histOf tr)) : putsOf tr = a.puts.map fun w => (w.1, w.2.1) := by
  rw [← hl.puts]
  unfold putsOf
  apply List.filterMap_congr
  intro x _
  cases x <;> rfl

theorem stampsOf_linv {tr : Array (Obs ℚ)} (hl : LInv a (histOf tr)) : stampsOf tr = a.puts.map fun w => w.2.2 := by
  rw [← hl.stamps]
  unfold stampsOf
  apply List.filterMap_congr
  intro x _
  cases x <;> rfl

/-- the `k`-th `put` goes with the `k`-th `stamp`: the key of a packet that was `put` -/
theorem keyOf_eq {tr : Array (Obs ℚ)} (hl : LInv a (histOf tr)) (hn : (a.puts.map (·.1)).Nodup) {w : PutRec}
    (hw : w ∈ a.puts) : keyOf tr w.1 = (w.2.2, w.2.1) := by
  have e1 := putsOf_linv hl
  have e2 := stampsOf_linv hl
  unfold keyOf
  rw [e1, e2, List.zip_map]
  have key : ∀ (l : List PutRec), (l.map (·.1)).Nodup → w ∈ l →
      ((l.zip l).map (Prod.map (fun w : PutRec => (w.1, w.2.1)) (fun w : PutRec => w.2.2))).find? (·.1.1 == w.1) =
        some ((w.1, w.2.1), w.2.2) := by
    intro l
    induction l with
    | nil => intro _ h; cases h
    | cons x r ih =>
      intro hnd hm
      simp only [List.map_cons, List.nodup_cons] at hnd
      simp only [List.zip_cons_cons, List.map_cons, List.find?_cons, Prod.map]
      rcases List.mem_cons.mp hm with rfl | hm'
      · simp
      · have hne : ¬ x.1 = w.1 := fun h => hnd.1 (h ▸ List.mem_map_of_mem hm')
        have : (x.1 == w.1) = false := by simpa using hne
        simp only [this]
        exact ih hnd.2 hm'
  rw [key a.puts hn hw]

/-- the `PriorityItem` the abstraction function reads for a carried integer -/
theorem itemOf_eq {tr : Array (Obs ℚ)} (hl : LInv a (histOf tr)) (hn : (a.puts.map (·.1)).Nodup) {w : PutRec}
    (hw : w ∈ a.puts) (h0 : 0 ≤ w.1) (h1 : w.1 < N) :
    itemOf flow size N tr (codeOf N scale w) = itemW flow size w := by
  unfold itemOf itemW
  rw [itemPkt_codeOf_af w h0 h1, keyOf_eq hl hn hw]

theorem nodup_of_mono {l : List PutRec} (h : l.Pairwise fun x y => x.1 < y.1 ∧ x.2.1 ≤ y.2.1) : (l.map (·.1)).Nodup := by
  rw [List.Nodup, List.pairwise_map]
  exact h.imp fun hxy => ne_of_lt hxy.1

theorem mem_addKey_iff {l : List Nat} {k f : Nat} : f ∈ addKey l k ↔ f ∈ l ∨ f = k := by
  unfold addKey
  split
  · rename_i h
    constructor
    · exact Or.inl
    · rintro (h' | rfl)
      · exact h'
      · simpa using h
  · simp

theorem mem_foldl_addKey_iff (flow : Int → Nat) (ids : List Int) : ∀ (l : List Nat) (f : Nat),
    f ∈ ids.foldl (fun l id => addKey l (flow id)) l ↔ f ∈ l ∨ ∃ id ∈ ids, flow id = f := by
  induction ids with
  | nil => intro l f; simp
  | cons i r ih =>
    intro l f
    simp only [List.foldl_cons, ih, mem_addKey_iff, List.mem_cons, exists_eq_or_imp]
    constructor
    · rintro ((h | h) | h)
      · exact Or.inl h
      · exact Or.inr (Or.inl h.symm)
      · exact Or.inr (Or.inr h)
    · rintro (h | h | h)
      · exact Or.inl (Or.inl h)
      · exact Or.inl (Or.inr h.symm)
      · exact Or.inr h

/-- the dict keys are the flows of the packets `put` so far -/
theorem mem_keysOf_iff {flow : Int → Nat} {ids : List Int} {f : Nat} : f ∈ keysOf flow ids ↔ ∃ id ∈ ids, flow id = f := by
  unfold keysOf
  rw [mem_foldl_addKey_iff]
  simp

/-- an agenda entry of the server is identified by its event -/
theorem entry_of_ev (hk : KInv N scale F s a) {q0 : QEntry ℚ} (hq0 : a.run.entries = [q0]) (hev : q0.ev ∈ a.run.ids) :
    ∀ x ∈ s.agenda, x.ev = q0.ev → x = q0 := by
  intro x hx hxe
  have hx' : x ∈ a.entries := hk.ag.subset hx
  have hnd := hk.nd
  simp only [A.ids, List.nodup_append] at hnd
  obtain ⟨-, ⟨-, -, -⟩, hdis⟩ := hnd
  simp only [A.entries, List.mem_append, hq0, List.mem_singleton] at hx'
  rcases hx' with h | h | h
  · exact h
  · exfalso
    have hs := hk.src
    have : x.ev ∈ a.src.ids := by
      cases hsrc : a.src with
      | init q1 arr => rw [hsrc] at hs h; simp only [SPhase.entries, List.mem_singleton] at h; subst h; simp [SPhase.ids, hs.1]
      | wait id r q1 => rw [hsrc] at h; simp only [SPhase.entries, List.mem_singleton] at h; subst h; simp [SPhase.ids]
      | ending q1 => rw [hsrc] at hs h; simp only [SPhase.entries, List.mem_singleton] at h; subst h; simp [SPhase.ids, hs.1]
      | done => rw [hsrc] at h; simp [SPhase.entries] at h
    exact hdis _ hev _ (List.mem_append_left _ this) hxe.symm
  · exfalso
    have : x.ev ∈ pendIds a.pend := List.mem_map_of_mem h
    exact hdis _ hev _ (List.mem_append_right _ this) hxe.symm

/-- **the abstraction function reads the configuration's LTS state off the kernel state** -/
theorem absVC_eq (hk : KInv N scale F s a) (hi : AInv N scale F flow cfg a s.now) (hl : LInv a (histOf s.trace)) :
    absVC flow size cfg N s = toM flow size cfg a s.now := by
  have hn := nodup_of_mono hi.mono
  have hkeys : keysOf flow ((putsOf s.trace).map (·.1)) = a.keys flow := by
    have e1 := putsOf_linv hl
    unfold A.keys
    rw [e1, List.map_map]; rfl
  have hitem : ∀ w ∈ a.puts, itemOf flow size N s.trace (codeOf N scale w) = itemW flow size w := fun w hw =>
    itemOf_eq hl hn hw (hi.putOK w hw).2.1 (hi.putOK w hw).2.2.1
  have hph : absPhase s =
      { started := match a.run with | .init _ => false | _ => true
        getPending := match a.run with | .W _ => true | _ => false
        handed := match a.run with | .H _ w _ => some (codeOf N scale w) | _ => none
        spawned := match a.run with | .S _ id _ => some id | _ => none
        tx := match a.run with | .T _ _ id q => some (id, q.time) | _ => none
        fin := match a.run with | .F _ id _ => some id | _ => none } := by
    have hr := hk.run
    unfold absPhase
    cases hrun : a.run with
    | init q0 =>
      rw [hrun] at hr
      simp [runProc, hr.2.2.1]
    | W g =>
      rw [hrun] at hr
      simp [runProc, hr.2.1, hr.1.2.2]
    | H g w q0 =>
      rw [hrun] at hr
      simp [runProc, hr.2.2.1, hr.2.1.2.2]
    | S p id q0 =>
      rw [hrun] at hr
      simp [runProc, hr.2.2.2.2.1, hr.2.2.2.1.2.2, hr.2.2.1]
    | F p id q0 =>
      rw [hrun] at hr
      simp [runProc, hr.2.2.1, hr.2.1.2.2]
    | T p t id q0 =>
      rw [hrun] at hr
      have hdue : dueOf s t = q0.time := by
        unfold dueOf
        have hmem : q0 ∈ s.agenda := hk.ag.symm.subset (mem_run (by simp [hrun, RPhase.entries]))
        have huniq := entry_of_ev hk (q0 := q0) (by simp [hrun, RPhase.entries]) (by simp [hrun, RPhase.ids, hr.1])
        cases hf : s.agenda.find? (·.ev == t) with
        | none =>
          have := List.find?_eq_none.mp hf q0 hmem
          simp [hr.1] at this
        | some x =>
          have h1 := List.mem_of_find?_eq_some hf
          have h2 := List.find?_some hf
          simp only [beq_iff_eq] at h2
          rw [huniq x h1 (by rw [h2, hr.1])]
          rfl
      simp [runProc, hr.2.2.2.2.1, hr.2.2.2.1.2.2, hr.2.2.1, hdue]
  have hkF := hi.cfgOK.keys
  unfold absVC toM
  simp only [hkeys, hph, dictOf]
  congr 1
  · congr 1
    · apply List.map_congr_left
      intro kv hkv
      simp only [cellNum, cellVal_eq, hk.cv kv.1 (hkF kv hkv), dec_enc, Option.getD_some]
    · apply List.map_congr_left
      intro kv hkv
      simp only [cellNum, cellVal_eq, hk.ca kv.1 (hkF kv hkv), dec_enc, Option.getD_some]
  · show (s.res 0).items.map _ = _
    rw [hk.st]
    simp only [pstoreRec, List.map_map]
    apply List.map_congr_left
    intro w hw
    exact hitem w (hi.sub.subset hw)
  · cases hrun : a.run with
    | H g w q0 =>
      have := hi.run
      rw [hrun] at this
      simp only [Option.map_some]
      rw [hitem w this.2.2.2.1]
    | _ => rfl
  · cases hrun : a.run <;> rfl
  · cases hrun : a.run <;> rfl
  · cases hrun : a.run <;> rfl
  · rw [cellVal_eq, hk.c1]
    cases a.cur <;> rfl
  · apply List.map_congr_left
    intro f hf
    have hfF : f < F := by
      obtain ⟨id, hid, rfl⟩ := mem_keysOf_iff.mp hf
      obtain ⟨w, hw, rfl⟩ := List.mem_map.mp hid
      exact (hi.putOK w hw).1
    simp only [cellInt, cellVal_eq, hk.cc f hfF]
  · apply List.map_congr_left
    intro f hf
    have hfF : f < F := by
      obtain ⟨id, hid, rfl⟩ := mem_keysOf_iff.mp hf
      obtain ⟨w, hw, rfl⟩ := List.mem_map.mp hid
      exact (hi.putOK w hw).1
    simp only [cellInt, cellVal_eq, hk.cb f hfF]

end VCK
