import OnlVerif.Lemmas.SndKCells
/-!
# The TCP sender on the kernel model: the methods of the sender, fragment by fragment

Each lemma runs one method (or one block of a method) of `SenderOnK` in the middle of a burst of process `p`: from a state
with configuration `a` it reaches the continuation in a state whose configuration is `a` with the LTS state `S` replaced
by the result of the corresponding function of the sender LTS (`Tcp/CC.lean`).
-/

set_option linter.unusedSimpArgs false

namespace SndK
open SenderOnK
open TimerK (lookup)

variable {act : Option EvId} {s : KS} {a : A} {p : EvId}

theorem KI.log (h : KI act s a) (p : EvId) (seq : Nat) :
    KI act (s.emit (.log p "tx" (.int seq) s.now)) { a with txs := a.txs ++ [(seq, a.S.now)] } :=
  ⟨h.k.log p seq, ⟨h.c.next, h.c.buf, h.c.lack, h.c.dup, h.c.rtt, h.c.dev, h.c.rto, h.c.cc, h.c.putAt, h.c.sent, h.c.tin,
    h.c.stopped, h.c.expire, h.c.timeout, h.c.start, h.c.proc⟩⟩

/-! ## `resend_packet` -/

/-- the configuration after `resend_packet(seq)` -/
def aResend (a : A) (seq : Nat) : A :=
  { a with S := (a.S.resend seq).1, txs := a.txs ++ (a.S.resend seq).2.map txPair }

theorem frag_resend (h : KI (some p) s a) (seq : Nat) {now : ℚ} (hnow : a.S.now = now) :
    ∃ s', (∀ cont, runBurst p (sndResend now seq cont) s = runBurst p cont s') ∧ KI (some p) s' (aResend a seq) := by
  subst hnow
  unfold sndResend
  cases hg : AL.get? seq a.S.sent with
  | none =>
    refine ⟨s, fun cont => ?_, ?_⟩
    · rw [rb_loadOptTime (o := none) (by rw [h.c.sent seq, hg])]
    · have : aResend a seq = a := by
        unfold aResend Sender.resend
        rw [hg]
        simp
      rw [this]; exact h
  | some t0 =>
    refine ⟨(setCell s (cSent seq) (TimeCell.enc a.S.now)).emit (.log p "tx" (.int seq) s.now), fun cont => ?_, ?_⟩
    · rw [rb_loadOptTime (o := some t0) (by rw [h.c.sent seq, hg])]
      simp only [rb_storeTime, rb_log]
      rfl
    · have : aResend a seq =
          { a with S := { a.S with sent := AL.set seq a.S.now a.S.sent }, txs := a.txs ++ [(seq, a.S.now)] } := by
        unfold aResend Sender.resend
        rw [hg]
        rfl
      rw [this]
      exact (h.set_sent seq a.S.now).log p seq

theorem upd_upd {β : Type} (g : Nat → β) (k : Nat) (v w : β) : upd (upd g k v) k w = upd g k w := by
  funext x; simp only [upd]; split <;> rfl

/-- a configuration is its fields -/
theorem KI.congr {a' : A} (h : KI act s a) (e : a = a') : KI act s a' := e ▸ h

/-! ## `Timer.stop`, `Timer.restart`, `Timer.__init__` -/

theorem frag_tmStop (h : KI act s a) (now : ℚ) (seq : Nat) :
    ∃ s', (∀ cont, runBurst p (tmStop now seq cont) s = runBurst p cont s') ∧
      KI act s' { a with tmc := upd a.tmc seq { a.tmc seq with stopped := true, expire := now } } := by
  refine ⟨setCell (setCell s (cTmStopped seq) (.int 1)) (cTmExpire seq) (TimeCell.enc now), fun cont => ?_, ?_⟩
  · simp only [tmStop, rb_storeNat, rb_storeTime]
    rfl
  · refine ((h.set_stopped seq true).set_expire seq now).congr ?_
    simp only [upd_upd, upd_same]

/-- `restart(tau)` called by the timer's own process: the kernel refuses the self-interrupt -/
theorem frag_tmRestart (h : KI (some p) s a) {seq : Nat} (hs : seq ∈ a.tks) (hp : a.tmp seq = p)
    (hph : a.tph seq = .running) (now tau : ℚ) :
    ∃ s', (∀ cont, runBurst p (tmRestart now seq tau cont) s = runBurst p cont s') ∧
      KI (some p) s' { a with tmc := upd a.tmc seq { a.tmc seq with start := now, timeout := tau, expire := now + tau } } := by
  have h3 := ((h.set_start seq now).set_timeout seq tau).set_expire seq (now + tau)
  have hev := h3.k.tm seq hs
  simp only [kernOf, hph, hp, TmEv] at hev
  refine ⟨KState.emit (setCell (setCell (setCell s (cTmStart seq) (TimeCell.enc now)) (cTmTimeout seq) (TimeCell.enc tau))
    (cTmExpire seq) (TimeCell.enc (now + tau))) (.callErr p (runtimeErr "self") s.now), fun cont => ?_, ?_⟩
  · simp only [tmRestart, rb_storeTime]
    rw [rb_loadProc (e := p) (by rw [h3.c.proc seq hs]; exact congrArg Val.ev hp)]
    simp only [runBurst, doCall_interrupt_self _ p p _ hev.1 hev.2.2 h3.k.act, noteErr]
    rfl
  · refine KI.congr ⟨h3.k.emit _ rfl, ⟨h3.c.next, h3.c.buf, h3.c.lack, h3.c.dup, h3.c.rtt, h3.c.dev, h3.c.rto, h3.c.cc, h3.c.putAt,
      h3.c.sent, h3.c.tin, h3.c.stopped, h3.c.expire, h3.c.timeout, h3.c.start, h3.c.proc⟩⟩ ?_
    simp only [upd_upd, upd_same]

/-- `Timer(env, timeout=tmo, …, args=seq)` for a new segment, by the process that is executing -/
theorem frag_mkTimer (h : KI (some p) s a) {seq : Nat} (hseq : seq ∉ a.tks) {tmo : ℚ} (hpos : 0 < tmo) :
    ∃ s', (∀ cont, runBurst p (mkTimer a.S.now seq tmo cont) s = runBurst p cont s') ∧
      KI (some p) s' { a with tks := a.tks ++ [seq], tmp := upd a.tmp seq s.events.size,
                              tph := upd a.tph seq (.init ⟨a.S.now, URGENT, s.eid, s.events.size + 1⟩),
                              tmc := upd a.tmc seq ⟨false, a.S.now + tmo, tmo, a.S.now⟩ } := by
  have hn : s.now = a.S.now := h.k.now
  rw [← hn]
  refine ⟨setCell (spawnSt (setCell (setCell (setCell (setCell s (cTmTimeout seq) (TimeCell.enc tmo)) (cTmStart seq)
    (TimeCell.enc s.now)) (cTmExpire seq) (TimeCell.enc (s.now + tmo))) (cTmStopped seq) (.int (0 : Nat)))
    (.tmStart seq s.now)) (cTmProc seq) (.ev s.events.size), fun cont => ?_, ?_, ?_⟩
  · have : ¬ tmo ≤ (Num.zero : ℚ) := by rw [zero_eq']; exact not_le.mpr hpos
    simp only [mkTimer, this, if_false, rb_storeTime, rb_storeNat, rb_spawn, rb_storeVal]
    rfl
  · have h4 := (((h.k.setCell (cTmTimeout seq) (TimeCell.enc tmo)).setCell (cTmStart seq) (TimeCell.enc s.now)).setCell
      (cTmExpire seq) (TimeCell.enc (s.now + tmo))).setCell (cTmStopped seq) (.int (0 : Nat))
    exact (h4.spawn seq hseq).setCell _ _
  · have hc := h.c
    have hne : ∀ seq' ∈ a.tks, seq' ≠ seq := fun seq' hs he => hseq (he ▸ hs)
    refine ⟨?_, ?_, ?_, ?_, ?_, ?_, ?_, ?_, ?_, ?_, ?_, ?_, ?_, ?_, ?_, ?_⟩
    all_goals first | cg hc | skip
    all_goals
      intro seq' hs
      rcases List.mem_append.mp hs with hs | hs
      · have := hne seq' hs
        simp only [upd_ne _ _ _ _ this]
        strip
        first | exact hc.stopped _ hs | exact hc.expire _ hs | exact hc.timeout _ hs | exact hc.start _ hs | exact hc.proc _ hs
      · simp only [List.mem_singleton] at hs
        subst hs
        simp only [upd_same]
        strip
        try rfl

/-! ## `timeout_callback` -/

/-- the LTS state after `timeout_callback(seq)`, as `Sender.fireStep` builds it -/
def sFire (S : Sender ℚ) (seq : Nat) : Sender ℚ :=
  let S1 : Sender ℚ := { S with cc := CC.timerExpired S.kind S.cc }
  let S2 : Sender ℚ := { (S1.resend seq).1 with est := TCPPacketGenerator.timeout_backoff (S1.resend seq).1.est }
  { S2 with timers := AL.set seq (Sender.arm S2.now S2.est.rto) S2.timers }

/-- what `timeout_callback(seq)` hands to `out` -/
def oFire (S : Sender ℚ) (seq : Nat) : List (Tx ℚ) :=
  (({ S with cc := CC.timerExpired S.kind S.cc } : Sender ℚ).resend seq).2

/-- the configuration after `timeout_callback(seq)` run by the timer's own process -/
def aFire (a : A) (seq : Nat) : A :=
  { a with S := sFire a.S seq, txs := a.txs ++ (oFire a.S seq).map txPair,
           tmc := upd a.tmc seq { a.tmc seq with start := a.S.now, timeout := (sFire a.S seq).est.rto,
                                                 expire := a.S.now + (sFire a.S seq).est.rto } }

theorem resend_timers (S : Sender ℚ) (seq : Nat) : (S.resend seq).1.timers = S.timers := by
  unfold Sender.resend
  cases AL.get? seq S.sent <;> rfl

theorem resend_now (S : Sender ℚ) (seq : Nat) : (S.resend seq).1.now = S.now := by
  unfold Sender.resend
  cases AL.get? seq S.sent <;> rfl

theorem frag_timeout {cfg : Cfg} (h : KI (some p) s a) {seq : Nat} (hs : seq ∈ a.tks) (hp : a.tmp seq = p)
    (hph : a.tph seq = .running) (hkind : a.S.kind = cfg.kind) (hin : (AL.get? seq a.S.timers).isSome = true) :
    ∃ s', (∀ cont, runBurst p (sndTimeout cfg a.S.now seq cont) s = runBurst p cont s') ∧ KI (some p) s' (aFire a seq) := by
  have h2 := h.set_cc (CC.timerExpired a.S.kind a.S.cc)
  obtain ⟨s3, r3, h3⟩ := frag_resend h2 seq (now := a.S.now) rfl
  have h4 := h3.set_est (TCPPacketGenerator.timeout_backoff
    (aResend { a with S := { a.S with cc := CC.timerExpired a.S.kind a.S.cc } } seq).S.est)
  have hin4 : (AL.get? seq (aResend { a with S := { a.S with cc := CC.timerExpired a.S.kind a.S.cc } } seq).S.timers).isSome
      = true := by
    show (AL.get? seq (Sender.resend _ seq).1.timers).isSome = true
    rw [resend_timers]; exact hin
  obtain ⟨s5, r5, h5⟩ := frag_tmRestart h4 (seq := seq) hs hp hph a.S.now
    (TCPPacketGenerator.timeout_backoff (aResend { a with S := { a.S with cc := CC.timerExpired a.S.kind a.S.cc } } seq).S.est).rto
  refine ⟨s5, fun cont => ?_, ?_⟩
  · unfold sndTimeout
    rw [← hkind, rb_ccCall h, r3, rb_estCall h3]
    rw [rb_loadFlag (b := true) (by rw [h4.c.tin seq]; simp only [hin4])]
    simp only [if_true]
    rw [rb_loadTime h4.c.rto]
    exact r5 cont
  · have h6 := h5.upd_timer seq (Sender.arm a.S.now
      (TCPPacketGenerator.timeout_backoff (aResend { a with S := { a.S with cc := CC.timerExpired a.S.kind a.S.cc } } seq).S.est).rto)
      hin4
    refine h6.congr ?_
    unfold aFire sFire oFire aResend
    simp only [resend_now]

end SndK
