import Mathlib.Tactic.Linarith
import Mathlib.Tactic.Ring
import Mathlib.Algebra.Order.Field.Rat
import OnlVerif.Lemmas.Scalar
import OnlVerif.Net.StampServer
/-!
# The transitions of a StampServer as an inductive relation; runs

`step_trans` turns an accepted `Stamp.step` into one explicit case; invariants are then proved by `cases`
on `Trans` instead of unfolding `step` again.  `Run` is the forward (snoc) form of `runActs`.
-/

namespace Stamp
variable {σ : Type}

/-! ### finite maps -/

theorem lookup_setKey {β : Type} (m : List (Nat × β)) (k k' : Nat) (v : β) :
    lookup (setKey m k v) k' = if k' = k then some v else lookup m k' := by
  induction m with
  | nil =>
    simp only [setKey, lookup]
    by_cases h : k = k'
    · subst h; simp
    · simp [h, Ne.symm h]
  | cons x r ih =>
    obtain ⟨a, b⟩ := x
    simp only [setKey]
    by_cases h : a = k
    · subst h
      simp only [if_true, lookup]
      by_cases h2 : a = k'
      · subst h2; simp
      · simp [h2, Ne.symm h2]
    · simp only [h, if_false, lookup, ih]
      by_cases h2 : a = k'
      · subst h2; simp [h]
      · simp [h2]

theorem qcTotal_bump (m : List (Nat × Int)) (k : Nat) (d : Int) : qcTotal (bump m k d) = qcTotal m + d := by
  induction m with
  | nil => simp [bump, qcTotal]
  | cons x r ih =>
    obtain ⟨a, b⟩ := x
    simp only [bump]
    split
    · simp only [qcTotal]; ring
    · simp only [qcTotal, ih]; ring

theorem getD_bump (m : List (Nat × Int)) (k k' : Nat) (d : Int) :
    getD (bump m k d) k' = getD m k' + if k' = k then d else 0 := by
  induction m with
  | nil =>
    simp only [bump, getD]
    by_cases h : k = k'
    · subst h; simp
    · simp [h, Ne.symm h]
  | cons x r ih =>
    obtain ⟨a, b⟩ := x
    simp only [bump]
    by_cases h : a = k
    · subst h
      simp only [if_true, getD]
      by_cases h2 : a = k'
      · subst h2; simp
      · simp [h2, Ne.symm h2]
    · simp only [h, if_false, getD, ih]
      by_cases h2 : a = k'
      · subst h2; simp [h]
      · simp [h2]

/-! ### the key order over ℚ -/

/-- `(stamp, arrival)` of `a` is lexicographically below that of `b` -/
def KeyLt (a b : Item ℚ) : Prop := a.stamp < b.stamp ∨ (a.stamp = b.stamp ∧ a.arr < b.arr)

theorem keyLt_iff (a b : Item ℚ) : keyLt a b = true ↔ KeyLt a b := by
  unfold keyLt KeyLt
  simp only [Bool.or_eq_true, Bool.and_eq_true, Bool.not_eq_true', decide_eq_true_eq, decide_eq_false_iff_not, not_lt]
  constructor
  · rintro (h | ⟨h1, h2⟩)
    · exact Or.inl h
    · rcases lt_or_eq_of_le h1 with h | h
      · exact Or.inl h
      · exact Or.inr ⟨h, h2⟩
  · rintro (h | ⟨h1, h2⟩)
    · exact Or.inl h
    · exact Or.inr ⟨le_of_eq h1, h2⟩

/-- `it` has a minimal key in `l`: a smaller stamp than every other item, or the same stamp and no later arrival -/
def IsMin (it : Item ℚ) (l : List (Item ℚ)) : Prop := ∀ x ∈ l, ¬ KeyLt x it

theorem isMin_iff (it : Item ℚ) (l : List (Item ℚ)) : isMin it l = true ↔ IsMin it l := by
  unfold isMin IsMin
  simp only [List.all_eq_true, Bool.not_eq_true', ← keyLt_iff, Bool.not_eq_true]

theorem IsMin.stamp_le {it : Item ℚ} {l : List (Item ℚ)} (h : IsMin it l) {x : Item ℚ} (hx : x ∈ l) :
    it.stamp ≤ x.stamp := by
  by_contra hc
  exact h x hx (Or.inl (not_le.mp hc))

/-- minimality spelled out: smaller stamp first, the earlier arrival instant on equal stamps -/
theorem IsMin.spec {it : Item ℚ} {l : List (Item ℚ)} (h : IsMin it l) {x : Item ℚ} (hx : x ∈ l) :
    it.stamp < x.stamp ∨ (it.stamp = x.stamp ∧ it.arr ≤ x.arr) := by
  rcases lt_or_eq_of_le (h.stamp_le hx) with h1 | h1
  · exact Or.inl h1
  · refine Or.inr ⟨h1, ?_⟩
    by_contra hc
    exact h x hx (Or.inr ⟨h1.symm, not_le.mp hc⟩)

/-- `it` (packet id `id`) was taken out of `l`, leaving `rest`, and its key is minimal in `l` -/
def Picked (l : List (Item ℚ)) (id : Nat) (it : Item ℚ) (rest : List (Item ℚ)) : Prop :=
  ∃ pre post, l = pre ++ it :: post ∧ rest = pre ++ post ∧ it.pkt.id = id ∧ IsMin it l

theorem takeId_spec (id : Nat) (l : List (Item ℚ)) (it : Item ℚ) (rest : List (Item ℚ))
    (h : takeId id l = some (it, rest)) : ∃ pre post, l = pre ++ it :: post ∧ rest = pre ++ post ∧ it.pkt.id = id := by
  induction l generalizing rest with
  | nil => simp [takeId] at h
  | cons x xs ih =>
    simp only [takeId] at h
    split at h
    · rename_i hx
      simp only [Option.some.injEq, Prod.mk.injEq] at h
      obtain ⟨rfl, rfl⟩ := h
      exact ⟨[], xs, rfl, rfl, hx⟩
    · split at h
      · cases h
      · rename_i y r hr
        simp only [Option.some.injEq, Prod.mk.injEq] at h
        obtain ⟨rfl, rfl⟩ := h
        obtain ⟨pre, post, h1, h2, h3⟩ := ih r hr
        exact ⟨x :: pre, post, by rw [h1]; rfl, by rw [h2]; rfl, h3⟩

theorem pick_spec (l : List (Item ℚ)) (id : Nat) (it : Item ℚ) (rest : List (Item ℚ))
    (h : pick l id = .ok (it, rest)) : Picked l id it rest := by
  unfold pick at h
  split at h
  · cases h
  · rename_i it' rest' ht
    split at h
    · rename_i hm
      simp only [Except.ok.injEq, Prod.mk.injEq] at h
      obtain ⟨rfl, rfl⟩ := h
      obtain ⟨pre, post, h1, h2, h3⟩ := takeId_spec id l _ _ ht
      exact ⟨pre, post, h1, h2, h3, (isMin_iff _ _).mp hm⟩
    · cases h

/-- a minimal element whose id occurs first is accepted by `pick`: ties never make it fail -/
theorem pick_ok_of_min (l : List (Item ℚ)) (id : Nat) (it : Item ℚ) (rest : List (Item ℚ))
    (ht : takeId id l = some (it, rest)) (hm : IsMin it l) : pick l id = .ok (it, rest) := by
  unfold pick
  rw [ht]
  simp only
  rw [if_pos ((isMin_iff _ _).mpr hm)]

/-! ### transitions -/

/-- may the clock advance to `t`? -/
def TickOk (s : StState ℚ σ) (t : ℚ) : Prop :=
  s.now ≤ t ∧ s.started = true ∧ s.handed = none ∧ s.spawned = none ∧ s.fin = none ∧
  ¬ (s.getPending = true ∧ s.items ≠ []) ∧ (∀ p due, s.tx = some (p, due) → t ≤ due)

theorem tickOk_iff (s : StState ℚ σ) (t : ℚ) : tickOk s t = none ↔ TickOk s t := by
  unfold tickOk TickOk
  constructor
  · intro h
    split at h
    · cases h
    · rename_i h1
      split at h
      · cases h
      · rename_i h2
        split at h
        · cases h
        · rename_i h3
          split at h
          · cases h
          · rename_i h4
            split at h
            · cases h
            · rename_i h5
              split at h
              · cases h
              · rename_i h6
                refine ⟨not_lt.mp h1, by simpa using h2, by simpa using h3, by simpa using h4, by simpa using h5, ?_, ?_⟩
                · intro hc; apply h6; simp [hc.1, hc.2]
                · intro p due htx
                  rw [htx] at h
                  simp only at h
                  split at h
                  · cases h
                  · rename_i h7; exact not_lt.mp h7
  · rintro ⟨h1, h2, h3, h4, h5, h6, h7⟩
    rw [if_neg (not_lt.mpr h1)]
    simp only [h2, h3, h4, h5, Bool.not_true, Bool.false_eq_true, if_false, Option.isSome_none]
    have : ¬ ((s.getPending && !s.items.isEmpty) = true) := by
      intro hc
      simp only [Bool.and_eq_true, Bool.not_eq_true', List.isEmpty_eq_false_iff] at hc
      exact h6 ⟨hc.1, hc.2⟩
    rw [if_neg this]
    cases htx : s.tx with
    | none => rfl
    | some x =>
      obtain ⟨p, due⟩ := x
      simp only
      rw [if_neg (not_lt.mpr (h7 p due htx))]

inductive Trans (d : Sched ℚ σ) : StState ℚ σ → StAct ℚ → StState ℚ σ → StOut → Prop
  | initBlock (s) : s.started = false → s.items = [] →
      Trans d s (.init none) { s with started := true, getPending := true } .nothing
  | initServe (s id it rest) : s.started = false → Picked s.items id it rest →
      Trans d s (.init (some id)) { s with started := true, items := rest, handed := some it } .nothing
  | put (s p sch stamp) : d.onPut s.sch s.now (qcTotal s.queueCount) p = .ok (sch, stamp) →
      Trans d s (.put p) (enqueue s sch stamp p) .accepted
  | handoff (s id it rest) : s.getPending = true → Picked s.items id it rest →
      Trans d s (.handoff id) { s with items := rest, handed := some it, getPending := false } .nothing
  | resume (s it) : s.handed = some it →
      Trans d s .resume { s with handed := none, spawned := some it.pkt } .nothing
  | sendInit (s p) : s.spawned = some p → d.rate ≠ 0 → 0 ≤ txTime d p →
      Trans d s .sendInit { s with spawned := none, currentPacket := some p, tx := some (p, s.now + txTime d p) } .nothing
  | sendFire (s p due) : s.tx = some (p, due) → s.now = due →
      Trans d s .sendFire (release s p) (.depart p)
  | doneBlock (s p sch) : s.fin = some p → d.onDone s.sch s.now p = .ok sch → s.items = [] →
      Trans d s (.sendDone none) { s with sch := sch, fin := none, getPending := true } .nothing
  | doneServe (s p sch id it rest) : s.fin = some p → d.onDone s.sch s.now p = .ok sch → Picked s.items id it rest →
      Trans d s (.sendDone (some id)) { s with sch := sch, fin := none, items := rest, handed := some it } .nothing
  | tick (s t) : TickOk s t → Trans d s (.tick t) { s with now := t } .nothing
  | sample (s b) : Trans d s (.sample b) s (.samples (sampleAll s b))

/-- what an accepted `issueGet` did -/
theorem issueGet_spec (s s' : StState ℚ σ) (c : Option Nat) (h : issueGet s c = .ok s') :
    (c = none ∧ s.items = [] ∧ s' = { s with getPending := true }) ∨
    (∃ id it rest, c = some id ∧ Picked s.items id it rest ∧ s' = { s with items := rest, handed := some it }) := by
  unfold issueGet at h
  split at h
  · rename_i hi
    simp only [Except.ok.injEq] at h
    exact Or.inl ⟨rfl, hi, h.symm⟩
  · cases h
  · cases h
  · rename_i x xs id hi
    split at h
    · cases h
    · rename_i it rest hp
      simp only [Except.ok.injEq] at h
      exact Or.inr ⟨id, it, rest, rfl, pick_spec _ _ _ _ hp, h.symm⟩

theorem zero_eq_q : (Num.zero : ℚ) = 0 := zero_eq'

theorem step_trans (d : Sched ℚ σ) (s s' : StState ℚ σ) (a : StAct ℚ) (o : StOut)
    (h : step d s a = .ok (s', o)) : Trans d s a s' o := by
  cases a with
  | init c =>
    simp only [step, doInit] at h
    split at h
    · cases h
    · rename_i hst
      split at h
      · cases h
      · rename_i s1 hg
        simp only [Except.ok.injEq, Prod.mk.injEq] at h
        obtain ⟨rfl, rfl⟩ := h
        rcases issueGet_spec _ _ _ hg with ⟨rfl, hi, rfl⟩ | ⟨id, it, rest, rfl, hp, rfl⟩
        · exact Trans.initBlock s (by simpa using hst) hi
        · exact Trans.initServe s id it rest (by simpa using hst) hp
  | put p =>
    simp only [step, doPut] at h
    split at h
    · cases h
    · rename_i sch stamp hp
      simp only [Except.ok.injEq, Prod.mk.injEq] at h
      obtain ⟨rfl, rfl⟩ := h
      exact Trans.put s p sch stamp hp
  | handoff id =>
    simp only [step, doHandoff] at h
    split at h
    · rename_i hg
      split at h
      · cases h
      · rename_i it rest hp
        simp only [Except.ok.injEq, Prod.mk.injEq] at h
        obtain ⟨rfl, rfl⟩ := h
        exact Trans.handoff s id it rest hg (pick_spec _ _ _ _ hp)
    · cases h
  | resume =>
    simp only [step, doResume] at h
    split at h
    · cases h
    · rename_i it hh
      simp only [Except.ok.injEq, Prod.mk.injEq] at h
      obtain ⟨rfl, rfl⟩ := h
      exact Trans.resume s it hh
  | sendInit =>
    simp only [step, doSendInit] at h
    split at h
    · cases h
    · rename_i p hp
      split at h
      · cases h
      · rename_i hr
        split at h
        · cases h
        · rename_i hneg
          simp only [Except.ok.injEq, Prod.mk.injEq] at h
          obtain ⟨rfl, rfl⟩ := h
          refine Trans.sendInit s p hp ?_ ?_
          · intro hc
            apply hr
            rw [hc, zero_eq_q]
            simp [Num.eqb]
          · rw [zero_eq_q] at hneg; exact not_lt.mp hneg
  | sendFire =>
    simp only [step, doSendFire] at h
    split at h
    · cases h
    · rename_i p due htx
      split at h
      · cases h
      · rename_i h1
        split at h
        · cases h
        · rename_i h2
          simp only [Except.ok.injEq, Prod.mk.injEq] at h
          obtain ⟨rfl, rfl⟩ := h
          exact Trans.sendFire s p due htx (le_antisymm (not_lt.mp h2) (not_lt.mp h1))
  | sendDone c =>
    simp only [step, doSendDone] at h
    split at h
    · cases h
    · rename_i p hf
      split at h
      · cases h
      · rename_i sch hd
        split at h
        · cases h
        · rename_i s1 hg
          simp only [Except.ok.injEq, Prod.mk.injEq] at h
          obtain ⟨rfl, rfl⟩ := h
          rcases issueGet_spec _ _ _ hg with ⟨rfl, hi, rfl⟩ | ⟨id, it, rest, rfl, hp, rfl⟩
          · exact Trans.doneBlock s p sch hf hd hi
          · exact Trans.doneServe s p sch id it rest hf hd hp
  | tick t =>
    simp only [step, doTick] at h
    split at h
    · cases h
    · rename_i ht
      simp only [Except.ok.injEq, Prod.mk.injEq] at h
      obtain ⟨rfl, rfl⟩ := h
      exact Trans.tick s t ((tickOk_iff s t).mp ht)
  | sample b =>
    simp only [step, Except.ok.injEq, Prod.mk.injEq] at h
    obtain ⟨rfl, rfl⟩ := h
    exact Trans.sample s b

/-! ### runs -/

/-- the packet accepted by one step -/
def entered (a : StAct ℚ) (o : StOut) : List SPkt :=
  match a, o with
  | .put p, .accepted => [p]
  | _, _ => []

/-- the packet forwarded by one step -/
def left (o : StOut) : List SPkt :=
  match o with
  | .depart p => [p]
  | _ => []

/-- run an action sequence; the result collects the accepted and the departed packets, in order -/
def runActs (d : Sched ℚ σ) : StState ℚ σ → List (StAct ℚ) → Except SErr (StState ℚ σ × List SPkt × List SPkt)
  | s, [] => .ok (s, [], [])
  | s, a :: as =>
    match step d s a with
    | .error e => .error e
    | .ok (s1, o) =>
      match runActs d s1 as with
      | .error e => .error e
      | .ok (s2, ins, outs) => .ok (s2, entered a o ++ ins, left o ++ outs)

/-- `Run d s0 s ins outs`: `s` is reached from `s0` by accepted steps that took in `ins` and sent out `outs` -/
inductive Run (d : Sched ℚ σ) (s0 : StState ℚ σ) : StState ℚ σ → List SPkt → List SPkt → Prop
  | nil : Run d s0 s0 [] []
  | snoc {s s' ins outs a o} : Run d s0 s ins outs → Trans d s a s' o → Run d s0 s' (ins ++ entered a o) (outs ++ left o)

theorem Run.cons {d : Sched ℚ σ} {s0 s1 s2 : StState ℚ σ} {a : StAct ℚ} {o : StOut} {ins outs : List SPkt}
    (h1 : Trans d s0 a s1 o) (h2 : Run d s1 s2 ins outs) : Run d s0 s2 (entered a o ++ ins) (left o ++ outs) := by
  induction h2 with
  | nil =>
    have := Run.snoc (Run.nil (d := d) (s0 := s0)) h1
    simpa using this
  | snoc _ ht ih =>
    have := Run.snoc ih ht
    simpa [List.append_assoc] using this

theorem Run.trans {d : Sched ℚ σ} {s0 s1 s2 : StState ℚ σ} {i1 o1 i2 o2 : List SPkt}
    (h1 : Run d s0 s1 i1 o1) (h2 : Run d s1 s2 i2 o2) : Run d s0 s2 (i1 ++ i2) (o1 ++ o2) := by
  induction h2 with
  | nil => simpa using h1
  | snoc _ ht ih =>
    have := Run.snoc ih ht
    simpa [List.append_assoc] using this

theorem runActs_run (d : Sched ℚ σ) (as : List (StAct ℚ)) (s s' : StState ℚ σ) (ins outs : List SPkt)
    (h : runActs d s as = .ok (s', ins, outs)) : Run d s s' ins outs := by
  induction as generalizing s ins outs with
  | nil =>
    simp only [runActs, Except.ok.injEq, Prod.mk.injEq] at h
    obtain ⟨rfl, rfl, rfl⟩ := h
    exact Run.nil
  | cons a as ih =>
    simp only [runActs] at h
    split at h
    · cases h
    · rename_i s1 o h1
      split at h
      · cases h
      · rename_i s2 ins2 outs2 h2
        simp only [Except.ok.injEq, Prod.mk.injEq] at h
        obtain ⟨rfl, rfl, rfl⟩ := h
        exact Run.cons (step_trans d _ _ _ _ h1) (ih s1 ins2 outs2 h2)

theorem runActs_append (d : Sched ℚ σ) (as bs : List (StAct ℚ)) (s s' : StState ℚ σ) (ins outs : List SPkt)
    (h : runActs d s (as ++ bs) = .ok (s', ins, outs)) :
    ∃ s1 i1 o1 i2 o2, runActs d s as = .ok (s1, i1, o1) ∧ runActs d s1 bs = .ok (s', i2, o2) ∧
      ins = i1 ++ i2 ∧ outs = o1 ++ o2 := by
  induction as generalizing s ins outs with
  | nil => exact ⟨s, [], [], ins, outs, rfl, h, rfl, rfl⟩
  | cons a as ih =>
    simp only [List.cons_append, runActs] at h
    split at h
    · cases h
    · rename_i s1 o h1
      split at h
      · cases h
      · rename_i s2 ins2 outs2 h2
        simp only [Except.ok.injEq, Prod.mk.injEq] at h
        obtain ⟨rfl, rfl, rfl⟩ := h
        obtain ⟨s3, i1, o1, i2, o2, ha, hb, rfl, rfl⟩ := ih s1 ins2 outs2 h2
        refine ⟨s3, entered a o ++ i1, left o ++ o1, i2, o2, ?_, hb, by simp, by simp⟩
        simp only [runActs, h1, ha]

/-- the initial state of a scheduler -/
def init (sch : σ) (t0 : ℚ) : StState ℚ σ := { now := t0, sch := sch }

end Stamp
