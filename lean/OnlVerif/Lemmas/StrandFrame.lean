import Mathlib.Data.List.Basic
import OnlVerif.Lemmas.StrandDefs
/-!
# Frame lemmas for the "never strand a request" invariant

How the structural invariant `Pkg` and the frame relations `Fr` / `NR` behave under the leaf updates of the model.
-/

variable {σ : Type}

/-! ## in-bounds facts -/

theorem KState.ev_of_size_le (s : KState ℚ σ) (x : EvId) (h : s.events.size ≤ x) : s.ev x = default := by
  unfold KState.ev
  simp only [Array.getD_eq_getD_getElem?]
  rw [Array.getElem?_eq_none h]; rfl

theorem KState.lt_of_out {s : KState ℚ σ} {x : EvId} (h : (s.ev x).out ≠ none) : x < s.events.size := by
  by_contra hc
  rw [KState.ev_of_size_le s x (Nat.le_of_not_lt hc)] at h
  exact h rfl

theorem KState.lt_of_cbs {s : KState ℚ σ} {x : EvId} {l : List Cb} (h : (s.ev x).cbs = some l) : x < s.events.size := by
  by_contra hc
  rw [KState.ev_of_size_le s x (Nat.le_of_not_lt hc)] at h
  cases h

theorem KState.lt_of_kind {s : KState ℚ σ} {x : EvId} (h : (s.ev x).kind ≠ .plain) : x < s.events.size := by
  by_contra hc
  rw [KState.ev_of_size_le s x (Nat.le_of_not_lt hc)] at h
  exact h rfl

theorem isCond_congr {s s' : KState ℚ σ} {c : EvId} (h : (s'.ev c).kind = (s.ev c).kind) : isCond s' c = isCond s c := by
  unfold isCond; rw [h]

theorem isCond_lt {s : KState ℚ σ} {c : EvId} (h : isCond s c = true) : c < s.events.size := by
  apply KState.lt_of_kind
  intro hk
  unfold isCond at h
  rw [hk] at h
  cases h

theorem reqOf_congr {s s' : KState ℚ σ} {x : EvId} (h : (s'.ev x).req = (s.ev x).req) : reqOf s' x = reqOf s x := by
  unfold reqOf; rw [h]

/-! ## `Fr`, `NR` are preorders -/

namespace Fr

theorem refl (s : KState ℚ σ) : Fr s s :=
  ⟨rfl, ⟨[], rfl⟩, Nat.le_refl _, fun _ _ => rfl, fun _ l h => ⟨l, h, fun _ _ hm => hm⟩, fun _ h => h,
    fun _ _ => rfl, fun _ h => h, fun _ => ⟨rfl, rfl⟩⟩

theorem trans {s1 s2 s3 : KState ℚ σ} (a : Fr s1 s2) (b : Fr s2 s3) : Fr s1 s3 := by
  refine ⟨b.now_eq.trans a.now_eq, ?_, Nat.le_trans a.size_le b.size_le, ?_, ?_, ?_, ?_, ?_, ?_⟩
  · obtain ⟨n1, h1⟩ := a.agenda
    obtain ⟨n2, h2⟩ := b.agenda
    exact ⟨n2 ++ n1, by rw [h2, h1, List.append_assoc]⟩
  · intro x hx
    exact (b.kind x (Nat.lt_of_lt_of_le hx a.size_le)).trans (a.kind x hx)
  · intro x l hl
    obtain ⟨l2, hl2, m2⟩ := a.cbs x l hl
    obtain ⟨l3, hl3, m3⟩ := b.cbs x l2 hl2
    exact ⟨l3, hl3, fun cb ht hm => m3 cb ht (m2 cb ht hm)⟩
  · intro x h; exact b.out x (a.out x h)
  · intro x hx
    exact (b.req x (Nat.lt_of_lt_of_le hx a.size_le)).trans (a.req x hx)
  · intro p h; exact b.procs p (a.procs p h)
  · intro r
    exact ⟨(b.resKind r).1.trans (a.resKind r).1, (b.resKind r).2.trans (a.resKind r).2⟩

end Fr

namespace NR

theorem refl (s : KState ℚ σ) : NR s s := ⟨Fr.refl s, rfl⟩
theorem trans {s1 s2 s3 : KState ℚ σ} (a : NR s1 s2) (b : NR s2 s3) : NR s1 s3 :=
  ⟨a.fr.trans b.fr, b.res.trans a.res⟩

theorem res_eq {s s' : KState ℚ σ} (h : NR s s') (r : ResId) : s'.res r = s.res r := by
  unfold KState.res; rw [h.res]

end NR

/-! ## updates that touch neither events, agenda, process table nor resources -/

theorem Pkg.congr {s s' : KState ℚ σ} {ex : Option EvId} (ha : s'.agenda = s.agenda) (he : s'.events = s.events)
    (hp : s'.procs = s.procs) (hr : s'.resources = s.resources) (h : Pkg s ex) : Pkg s' ex := by
  have hev : ∀ x, s'.ev x = s.ev x := fun x => by unfold KState.ev; rw [he]
  have hres : ∀ r, s'.res r = s.res r := fun r => by unfold KState.res; rw [hr]
  have hpr : ∀ p, s'.proc? p = s.proc? p := fun p => by unfold KState.proc?; rw [hp]
  have hc : ∀ c, isCond s' c = isCond s c := fun c => isCond_congr (by rw [hev])
  refine ⟨?_, ?_, ?_, ?_, ?_, ?_, ?_, ?_, ?_⟩
  · intro q hq; rw [hev]; exact h.agTrig q (ha ▸ hq)
  · intro p hpp; rw [hev]; exact h.procKind p (by rwa [hpr] at hpp)
  · intro x l c hl hm; rw [hc]; rw [hev] at hl; exact h.checkKind x l c hl hm
  · intro r e hm; rw [hev]; rw [hres] at hm; exact h.putQ r e hm
  · intro r e hm; rw [hev]; rw [hres] at hm; exact h.getQ r e hm
  · intro r; rw [hres]; exact h.nodupP r
  · intro r; rw [hres]; exact h.nodupG r
  · intro r w hm; rw [hres] at hm; rw [he]; exact h.usersIn r w hm
  · intro r c; rw [hres]; exact h.usersLe r c

theorem NR.of_same {s s' : KState ℚ σ} (hn : s'.now = s.now) (ha : s'.agenda = s.agenda) (he : s'.events = s.events)
    (hp : s'.procs = s.procs) (hr : s'.resources = s.resources) : NR s s' := by
  have hev : ∀ x, s'.ev x = s.ev x := fun x => by unfold KState.ev; rw [he]
  have hres : ∀ r, s'.res r = s.res r := fun r => by unfold KState.res; rw [hr]
  have hpr : ∀ p, s'.proc? p = s.proc? p := fun p => by unfold KState.proc?; rw [hp]
  refine ⟨⟨hn, ⟨[], by simp [ha]⟩, by rw [he], ?_, ?_, ?_, ?_, ?_, ?_⟩, hr⟩
  · intro x _; rw [hev]
  · intro x l hl; exact ⟨l, by rw [hev]; exact hl, fun _ _ hm => hm⟩
  · intro x hx; rw [hev]; exact hx
  · intro x _; exact congrArg ReqData.strip (reqOf_congr (by rw [hev]))
  · intro p hpp; rw [hpr]; exact hpp
  · intro r; rw [hres]; exact ⟨rfl, rfl⟩

theorem Pkg.weaken {s : KState ℚ σ} {ex : Option EvId} (h : Pkg s none) : Pkg s ex :=
  ⟨h.agTrig, h.procKind, h.checkKind,
    fun r e hm => ⟨(h.putQ r e hm).1, Or.inl ((h.putQ r e hm).2.1.resolve_right (by simp)), (h.putQ r e hm).2.2⟩,
    fun r e hm => ⟨(h.getQ r e hm).1, Or.inl ((h.getQ r e hm).2.1.resolve_right (by simp)), (h.getQ r e hm).2.2⟩,
    h.nodupP, h.nodupG, h.usersIn, h.usersLe⟩

/-- the exemption can be dropped once the exempted request has left every queue -/
theorem Pkg.unexempt {s : KState ℚ σ} {e : EvId} (h : Pkg s (some e)) (hq : NoQ s e) : Pkg s none :=
  ⟨h.agTrig, h.procKind, h.checkKind,
    fun r x hm => ⟨(h.putQ r x hm).1, Or.inl ((h.putQ r x hm).2.1.resolve_right (by
      intro hc; cases hc; exact (hq r).1 hm)), (h.putQ r x hm).2.2⟩,
    fun r x hm => ⟨(h.getQ r x hm).1, Or.inl ((h.getQ r x hm).2.1.resolve_right (by
      intro hc; cases hc; exact (hq r).2 hm)), (h.getQ r x hm).2.2⟩,
    h.nodupP, h.nodupG, h.usersIn, h.usersLe⟩

/-! ## rewriting one event record -/

theorem Pkg.setEv {s : KState ℚ σ} {ex : Option EvId} (h : Pkg s ex) (x : EvId) (rec : EvRec ℚ)
    (hk : rec.kind = (s.ev x).kind)
    (hcbs : ∀ l, (s.ev x).cbs = some l → ∃ l', rec.cbs = some l' ∧ ∀ cb, cb.isTrig = true → cb ∈ l → cb ∈ l')
    (hchk : ∀ l' c, rec.cbs = some l' → Cb.check c ∈ l' →
      (∃ l, (s.ev x).cbs = some l ∧ Cb.check c ∈ l) ∨ isCond s c = true)
    (hout : (s.ev x).out ≠ none → rec.out ≠ none)
    (hq : (s.ev x).out = none → rec.out ≠ none → NoQ s x ∨ ex = some x) :
    Pkg (s.setEv x rec) ex := by
  have hkind : ∀ y, ((s.setEv x rec).ev y).kind = (s.ev y).kind := by
    intro y; rw [KState.ev_setEv]; split
    · rename_i hc; rw [hc.1]; exact hk
    · rfl
  have hc : ∀ c, isCond (s.setEv x rec) c = isCond s c := fun c => isCond_congr (hkind c)
  have hqueue : ∀ (r : ResId) (e : EvId) (cb : Cb), cb.isTrig = true → (e ∈ (s.res r).putQ ∨ e ∈ (s.res r).getQ) →
      ((s.ev e).out = none ∨ ex = some e) → (∃ l, (s.ev e).cbs = some l ∧ cb ∈ l) →
      (((s.setEv x rec).ev e).out = none ∨ ex = some e) ∧ ∃ l, ((s.setEv x rec).ev e).cbs = some l ∧ cb ∈ l := by
    intro r e cb ht hm ho hl
    rw [KState.ev_setEv]
    split
    · rename_i hcx
      obtain ⟨rfl, _⟩ := hcx
      refine ⟨?_, ?_⟩
      · by_cases hro : rec.out = none
        · exact Or.inl hro
        · rcases ho with ho | ho
          · rcases hq ho hro with hn | hn
            · exact absurd hm (by rintro (hm | hm); exact (hn r).1 hm; exact (hn r).2 hm)
            · exact Or.inr hn
          · exact Or.inr ho
      · obtain ⟨l, hl, hml⟩ := hl
        obtain ⟨l', hl', hm'⟩ := hcbs l hl
        exact ⟨l', hl', hm' cb ht hml⟩
    · exact ⟨ho, hl⟩
  refine ⟨?_, ?_, ?_, ?_, ?_, ?_, ?_, ?_, ?_⟩
  · intro q hqm
    have := h.agTrig q hqm
    rw [KState.ev_setEv]; split
    · rename_i hcx; rw [hcx.1] at this; exact hout this
    · exact this
  · intro p hp; rw [hkind]; exact h.procKind p hp
  · intro y l c hl hm
    rw [hc]
    rw [KState.ev_setEv] at hl
    split at hl
    · rename_i hcx
      rcases hchk l c hl hm with ⟨l0, hl0, hm0⟩ | hcc
      · exact h.checkKind x l0 c hl0 hm0
      · exact hcc
    · exact h.checkKind y l c hl hm
  · intro r e hm
    have := h.putQ r e hm
    exact ⟨by rw [hkind]; exact this.1, hqueue r e _ rfl (Or.inl hm) this.2.1 this.2.2⟩
  · intro r e hm
    have := h.getQ r e hm
    exact ⟨by rw [hkind]; exact this.1, hqueue r e _ rfl (Or.inr hm) this.2.1 this.2.2⟩
  · exact h.nodupP
  · exact h.nodupG
  · intro r w hm
    have := h.usersIn r w hm
    simpa [KState.setEv] using this
  · exact h.usersLe

theorem NR.setEv (s : KState ℚ σ) (x : EvId) (rec : EvRec ℚ)
    (hk : rec.kind = (s.ev x).kind)
    (hcbs : ∀ l, (s.ev x).cbs = some l → ∃ l', rec.cbs = some l' ∧ ∀ cb, cb.isTrig = true → cb ∈ l → cb ∈ l')
    (hout : (s.ev x).out ≠ none → rec.out ≠ none)
    (hreq : (rec.req.getD { res := 0, time := Num.zero }).strip = (reqOf s x).strip) :
    NR s (s.setEv x rec) := by
  refine ⟨⟨rfl, ⟨[], rfl⟩, by simp [KState.setEv], ?_, ?_, ?_, ?_, fun _ hp => hp, fun _ => ⟨rfl, rfl⟩⟩, rfl⟩
  · intro y _; rw [KState.ev_setEv]; split
    · rename_i hc; rw [hc.1]; exact hk
    · rfl
  · intro y l hl
    rw [KState.ev_setEv]; split
    · rename_i hc; rw [hc.1] at hl; exact hcbs l hl
    · exact ⟨l, hl, fun _ _ hm => hm⟩
  · intro y hy
    rw [KState.ev_setEv]; split
    · rename_i hc; rw [hc.1] at hy; exact hout hy
    · exact hy
  · intro y _
    unfold reqOf
    rw [KState.ev_setEv]; split
    · rename_i hc; rw [hc.1]; exact hreq
    · rfl

/-! ## allocating an event -/

/-- `s'` is `s` with one more event record (`newEv` / `newLabelled`) -/
structure Pushed (s s' : KState ℚ σ) (rec : EvRec ℚ) : Prop where
  now_eq : s'.now = s.now
  agenda : s'.agenda = s.agenda
  events : s'.events = s.events.push rec
  procs : s'.procs = s.procs
  resources : s'.resources = s.resources

theorem Pushed.newEv (s : KState ℚ σ) (rec : EvRec ℚ) : Pushed s (s.newEv rec).1 rec := ⟨rfl, rfl, rfl, rfl, rfl⟩
theorem Pushed.newLabelled (s : KState ℚ σ) (rec : EvRec ℚ) :
    Pushed s (s.newLabelled rec).1 { rec with label := s.nlabel + 1 } := ⟨rfl, rfl, rfl, rfl, rfl⟩

theorem Pushed.ev {s s' : KState ℚ σ} {rec : EvRec ℚ} (hp : Pushed s s' rec) (y : EvId) :
    s'.ev y = if y = s.events.size then rec else s.ev y := by
  unfold KState.ev; rw [hp.events, getD_push]

theorem Pushed.ev_old {s s' : KState ℚ σ} {rec : EvRec ℚ} (hp : Pushed s s' rec) {y : EvId} (hy : y < s.events.size) :
    s'.ev y = s.ev y := by
  rw [hp.ev, if_neg (Nat.ne_of_lt hy)]

theorem Pushed.ev_new {s s' : KState ℚ σ} {rec : EvRec ℚ} (hp : Pushed s s' rec) : s'.ev s.events.size = rec := by
  rw [hp.ev, if_pos rfl]

theorem Pushed.res {s s' : KState ℚ σ} {rec : EvRec ℚ} (hp : Pushed s s' rec) (r : ResId) : s'.res r = s.res r := by
  unfold KState.res; rw [hp.resources]

theorem Pushed.size {s s' : KState ℚ σ} {rec : EvRec ℚ} (hp : Pushed s s' rec) : s'.events.size = s.events.size + 1 := by
  rw [hp.events]; simp

theorem Pushed.pkg {s s' : KState ℚ σ} {rec : EvRec ℚ} {ex : Option EvId} (hp : Pushed s s' rec) (h : Pkg s ex)
    (hchk : ∀ l c, rec.cbs = some l → Cb.check c ∉ l) : Pkg s' ex := by
  have hpr : ∀ p, s'.proc? p = s.proc? p := fun p => by unfold KState.proc?; rw [hp.procs]
  have hcond : ∀ c, isCond s c = true → isCond s' c = true := by
    intro c hc
    rw [isCond_congr (s := s) (by rw [hp.ev_old (isCond_lt hc)])]; exact hc
  refine ⟨?_, ?_, ?_, ?_, ?_, ?_, ?_, ?_, ?_⟩
  · intro q hq
    rw [hp.agenda] at hq
    have := h.agTrig q hq
    rw [hp.ev_old (KState.lt_of_out this)]; exact this
  · intro p hpp
    rw [hpr] at hpp
    have := h.procKind p hpp
    rw [hp.ev_old (KState.lt_of_kind (by rw [this]; simp))]; exact this
  · intro y l c hl hm
    rw [hp.ev] at hl
    split at hl
    · exact absurd hm (hchk l c hl)
    · exact hcond c (h.checkKind y l c hl hm)
  · intro r e hm
    rw [hp.res] at hm
    have := h.putQ r e hm
    obtain ⟨l, hl, _⟩ := this.2.2
    rw [hp.ev_old (KState.lt_of_cbs hl)]; exact this
  · intro r e hm
    rw [hp.res] at hm
    have := h.getQ r e hm
    obtain ⟨l, hl, _⟩ := this.2.2
    rw [hp.ev_old (KState.lt_of_cbs hl)]; exact this
  · intro r; rw [hp.res]; exact h.nodupP r
  · intro r; rw [hp.res]; exact h.nodupG r
  · intro r w hm
    rw [hp.res] at hm
    rw [hp.size]; exact Nat.lt_succ_of_lt (h.usersIn r w hm)
  · intro r c; rw [hp.res]; exact h.usersLe r c

theorem Pushed.nr {s s' : KState ℚ σ} {rec : EvRec ℚ} (hp : Pushed s s' rec) : NR s s' := by
  have hpr : ∀ p, s'.proc? p = s.proc? p := fun p => by unfold KState.proc?; rw [hp.procs]
  refine ⟨⟨hp.now_eq, ⟨[], by simp [hp.agenda]⟩, by rw [hp.size]; exact Nat.le_succ _, ?_, ?_, ?_, ?_, ?_, ?_⟩,
    hp.resources⟩
  · intro y hy; rw [hp.ev_old hy]
  · intro y l hl; exact ⟨l, by rw [hp.ev_old (KState.lt_of_cbs hl)]; exact hl, fun _ _ hm => hm⟩
  · intro y hy; rw [hp.ev_old (KState.lt_of_out hy)]; exact hy
  · intro y hy; exact congrArg ReqData.strip (reqOf_congr (by rw [hp.ev_old hy]))
  · intro p hpp; rw [hpr]; exact hpp
  · intro r; rw [hp.res]; exact ⟨rfl, rfl⟩

/-! ## scheduling -/

theorem Pkg.schedule {s : KState ℚ σ} {ex : Option EvId} (h : Pkg s ex) (x : EvId) (p : Nat) (d : ℚ)
    (hx : (s.ev x).out ≠ none) : Pkg (s.schedule x p d) ex := by
  refine ⟨?_, h.procKind, h.checkKind, h.putQ, h.getQ, h.nodupP, h.nodupG, h.usersIn, h.usersLe⟩
  intro q hq
  rcases List.mem_cons.mp hq with rfl | hq
  · exact hx
  · exact h.agTrig q hq

theorem NR.schedule (s : KState ℚ σ) (x : EvId) (p : Nat) (d : ℚ) : NR s (s.schedule x p d) :=
  ⟨⟨rfl, ⟨[_], rfl⟩, Nat.le_refl _, fun _ _ => rfl, fun _ l hl => ⟨l, hl, fun _ _ hm => hm⟩, fun _ h => h,
    fun _ _ => rfl, fun _ h => h, fun _ => ⟨rfl, rfl⟩⟩, rfl⟩

/-! ## the process table -/

theorem proc?_setProc (s : KState ℚ σ) (p p' : EvId) (r : ProcRec σ) :
    (s.setProc p r).proc? p' = if p' = p then some r else s.proc? p' := by
  unfold KState.proc? KState.setProc
  simp only [List.find?_cons]
  by_cases h : p' = p
  · subst h; simp
  · have h1 : (p == p') = false := by simpa using fun hc => h hc.symm
    simp only [h1, if_neg h]
    congr 1
    induction s.procs with
    | nil => rfl
    | cons a l ih =>
      simp only [List.filter_cons]
      by_cases ha : a.1 = p
      · have : (a.1 != p) = false := by simp [ha]
        have h2 : (a.1 == p') = false := by simpa [ha] using fun hc => h hc.symm
        simp only [this, List.find?_cons, h2]
        exact ih
      · have : (a.1 != p) = true := by simp [ha]
        simp only [this, if_true, List.find?_cons]
        split
        · rfl
        · exact ih

theorem Pkg.setProc {s : KState ℚ σ} {ex : Option EvId} (h : Pkg s ex) (p : EvId) (r : ProcRec σ)
    (hk : (s.ev p).kind = .proc) : Pkg (s.setProc p r) ex := by
  refine ⟨h.agTrig, ?_, h.checkKind, h.putQ, h.getQ, h.nodupP, h.nodupG, h.usersIn, h.usersLe⟩
  intro p' hp'
  rw [proc?_setProc] at hp'
  split at hp'
  · rename_i hc; subst hc; exact hk
  · exact h.procKind p' hp'

theorem NR.setProc (s : KState ℚ σ) (p : EvId) (r : ProcRec σ) : NR s (s.setProc p r) := by
  refine ⟨⟨rfl, ⟨[], rfl⟩, Nat.le_refl _, fun _ _ => rfl, fun _ l hl => ⟨l, hl, fun _ _ hm => hm⟩, fun _ h => h,
    fun _ _ => rfl, ?_, fun _ => ⟨rfl, rfl⟩⟩, rfl⟩
  intro p' hp'
  rw [proc?_setProc]
  split
  · simp
  · exact hp'

/-! ## rewriting one resource record -/

theorem Fr.setRes (s : KState ℚ σ) (r : ResId) (x : ResRec) (hk : x.kind = (s.res r).kind)
    (hc : x.capacity = (s.res r).capacity) : Fr s (s.setRes r x) := by
  refine ⟨rfl, ⟨[], rfl⟩, Nat.le_refl _, fun _ _ => rfl, fun _ l hl => ⟨l, hl, fun _ _ hm => hm⟩, fun _ h => h,
    fun _ _ => rfl, fun _ h => h, ?_⟩
  intro r'
  rw [KState.res_setRes]
  split
  · rename_i hcx; rw [hcx.1]; exact ⟨hk, hc⟩
  · exact ⟨rfl, rfl⟩

theorem Pkg.setRes {s : KState ℚ σ} {ex : Option EvId} (h : Pkg s ex) (r : ResId) (x : ResRec)
    (hk : x.kind = (s.res r).kind) (hc : x.capacity = (s.res r).capacity)
    (hp : ∀ e ∈ x.putQ, e ∈ (s.res r).putQ ∨ ((s.ev e).kind = .put r ∧ (s.ev e).out = none ∧
      ∃ l, (s.ev e).cbs = some l ∧ Cb.trigGet r ∈ l))
    (hnp : x.putQ.Nodup)
    (hg : ∀ e ∈ x.getQ, e ∈ (s.res r).getQ ∨ ((s.ev e).kind = .get r ∧ (s.ev e).out = none ∧
      ∃ l, (s.ev e).cbs = some l ∧ Cb.trigPut r ∈ l))
    (hng : x.getQ.Nodup)
    (hu : ∀ w ∈ x.users, w < s.events.size)
    (hle : ∀ c, isResKind x.kind = true → x.capacity = some c → x.users.length ≤ c) :
    Pkg (s.setRes r x) ex := by
  refine ⟨h.agTrig, h.procKind, h.checkKind, ?_, ?_, ?_, ?_, ?_, ?_⟩
  · intro r' e hm
    rw [KState.res_setRes] at hm
    split at hm
    · rename_i hcx
      obtain ⟨rfl, _⟩ := hcx
      rcases hp e hm with h1 | ⟨h1, h2, h3⟩
      · exact h.putQ _ e h1
      · exact ⟨h1, Or.inl h2, h3⟩
    · exact h.putQ r' e hm
  · intro r' e hm
    rw [KState.res_setRes] at hm
    split at hm
    · rename_i hcx
      obtain ⟨rfl, _⟩ := hcx
      rcases hg e hm with h1 | ⟨h1, h2, h3⟩
      · exact h.getQ _ e h1
      · exact ⟨h1, Or.inl h2, h3⟩
    · exact h.getQ r' e hm
  · intro r'
    rw [KState.res_setRes]; split
    · exact hnp
    · exact h.nodupP r'
  · intro r'
    rw [KState.res_setRes]; split
    · exact hng
    · exact h.nodupG r'
  · intro r' w hm
    rw [KState.res_setRes] at hm
    split at hm
    · exact hu w hm
    · exact h.usersIn r' w hm
  · intro r' c
    rw [KState.res_setRes]; split
    · exact hle c
    · exact h.usersLe r' c
