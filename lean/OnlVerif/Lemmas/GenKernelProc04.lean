import OnlVerif.Lemmas.GenKernelDefs
import OnlVerif.Lemmas.KAccess
import OnlVerif.Generated.KernelProc04
/-!
# Bridge lemmas (C04): generated `Initialize.__init__` / `Interruption.__init__` (`Generated/KernelProc04.lean`) = `spawn` / `mkInterrupt`
of model `K`
-/

namespace GenKernel
variable {τ σ : Type} [Num τ]

/-! ## `Initialize.__init__` (`Process.__init__`) -/

theorem spawn_call (s : KState τ σ) (self : EvId) (st : σ) :
    doCall s self (.spawn st) =
      (match buildEvent (fun _ => Cb.resume s.events.size) (Gen.Initialize.init (evObj (τ := τ))).eff {} with
       | some o =>
         let p := s.events.size
         let s1 := (s.newLabelled { kind := .proc, cbs := some [], out := none }).1
         let s2 := s1.setProc p { st, target := some (p + 1) }
         (schedAll (s2.newEv (o.toRec (.init p) .none default)).1 (p + 1) (schedOf (Gen.Initialize.init (evObj (τ := τ))).eff), .ev p)
       | none => (s, .unit)) := rfl

/-! ## `Interruption.__init__` (`Process.interrupt`) -/

theorem interrupt_init (s : KState τ σ) (p : EvId) (cause : Val) :
    mkInterrupt s p cause =
      (if (Gen.Interruption.init (evObj (τ := τ)) (s.triggered p) (s.active == some p)).raised = 5 then
         (s, some (if (Gen.Interruption.init (evObj (τ := τ)) (s.triggered p) (s.active == some p)).raise_site = 1
                   then runtimeErr "terminated" else runtimeErr "self"))
       else match buildEvent (fun _ => Cb.intr s.events.size)
           (Gen.Interruption.init (evObj (τ := τ)) (s.triggered p) (s.active == some p)).eff {} with
         | some o =>
           (schedAll (s.newEv (o.toRec (.intr p) .none ⟨"Interrupt", [cause]⟩)).1 s.events.size
              (schedOf (Gen.Interruption.init (evObj (τ := τ)) (s.triggered p) (s.active == some p)).eff), none)
         | none => (s, none)) := by
  unfold Gen.Interruption.init mkInterrupt
  by_cases h : s.triggered p = true
  · simp only [h, if_true]
  · simp only [h, Bool.false_eq_true, if_false]
    by_cases h2 : (s.active == some p) = true
    · simp only [h2, if_true]; rfl
    · simp only [h2, Bool.false_eq_true, if_false]; rfl

end GenKernel
