import OnlVerif.Lemmas.RouteFib
/-! # Lemmas about a network of `FIBDemux` switches driven by generated tables (`hop`, `follow`) -/

namespace FatTree
open Route

theorem dget_sinks (l : List Nat) (x : Nat) :
    dget (l.map fun (key : Nat) => ((key : Int), sinkDev key)) (x : Int) = if x ∈ l then some (sinkDev x) else none := by
  induction l with
  | nil => simp [dget]
  | cons a r ih =>
    by_cases e : a = x
    · subst e; simp [dget]
    · have e' : ¬ ((a : Int) = (x : Int)) := by exact_mod_cast e
      have e'' : ¬ x = a := fun h => e h.symm
      simp [dget, e', e'', ih]

theorem dget_castFib (d : Dict) (k : Nat) :
    dget (d.map fun fp => ((fp.1 : Int), (fp.2 : Int))) (k : Int) = (dget d k).map fun v => (v : Int) := by
  induction d with
  | nil => simp [dget]
  | cons x r ih =>
    obtain ⟨a, b⟩ := x
    by_cases e : a = k
    · subst e; simp [dget]
    · have e' : ¬ ((a : Int) = (k : Int)) := by exact_mod_cast e
      simp [dget, e, e', ih]

theorem switch_put_table (tab : NodeTab) (nports : Nat) (sinksHere : List Nat) (key i : Nat) (r : PktRef)
    (hnot : key ∉ sinksHere) (hp : dget tab.flowToPort key = some i) (hi : i < nports) :
    FIBDemux.put (switchCfg tab nports sinksHere) { ref := r, flowId := (key : Int) } = .ok [(egressDev i, r)] := by
  apply FIBDemux.put_table _ _ _ ((List.range nports).map egressDev) (i : Int) (egressDev i) rfl rfl
  · simp only [switchCfg]; rw [dget_sinks, if_neg hnot]
  · rw [dget_castFib, hp]; rfl
  · exact Int.natCast_nonneg i
  · simp [hi]

theorem switch_put_sink (tab : NodeTab) (nports : Nat) (sinksHere : List Nat) (key : Nat) (r : PktRef)
    (hin : key ∈ sinksHere) :
    FIBDemux.put (switchCfg tab nports sinksHere) { ref := r, flowId := (key : Int) } = .ok [(sinkDev key, r)] := by
  apply FIBDemux.put_end _ _ _ _ rfl
  simp only [switchCfg]; rw [dget_sinks, if_pos hin]

theorem hop_forward (t : Tables) (nports : Nat) (sinks : Nat → List Nat) (key a i z : Nat)
    (hnot : key ∉ sinks a) (hport : portOf t a key = some i) (hptn : portToNexthop t a i = some z) (hi : i < nports) :
    hop t nports sinks key a = .forward z := by
  unfold portOf at hport
  unfold portToNexthop at hptn
  unfold hop
  cases hta : dget t a with
  | none => simp [hta] at hport
  | some tab =>
    simp only [hta] at hport hptn ⊢
    rw [switch_put_table tab nports (sinks a) key i _ hnot hport hi]
    have h1 : ¬ egressDev i % 2 = 1 := by show ¬ (2 * i) % 2 = 1; omega
    have h2 : egressDev i / 2 = i := by show (2 * i) / 2 = i; omega
    simp only [if_neg h1, h2, hptn]

theorem hop_deliver (t : Tables) (nports : Nat) (sinks : Nat → List Nat) (key a : Nat)
    (hnode : (dget t a).isSome) (hin : key ∈ sinks a) : hop t nports sinks key a = .deliver key := by
  unfold hop
  cases hta : dget t a with
  | none => simp [hta] at hnode
  | some tab =>
    simp only
    rw [switch_put_sink tab nports (sinks a) key _ hin]
    have h1 : sinkDev key % 2 = 1 := by show (2 * key + 1) % 2 = 1; omega
    have h2 : sinkDev key / 2 = key := by show (2 * key + 1) / 2 = key; omega
    simp only [if_pos h1, h2]

theorem follow_path (h : Nat → Hop) (key : Nat) (rest : List Nat) :
    ∀ src fuel, (∀ a z, (a, z) ∈ segments (src :: rest) → h a = .forward z) →
      (∀ d, (src :: rest).getLast? = some d → h d = .deliver key) →
      (src :: rest).length ≤ fuel → follow h fuel src = (src :: rest, .deliver key) := by
  induction rest with
  | nil =>
    intro src fuel _ hlast hf
    cases fuel with
    | zero => simp at hf
    | succ f =>
      have := hlast src (by simp)
      simp [follow, this]
  | cons z r ih =>
    intro src fuel hseg hlast hf
    cases fuel with
    | zero => simp at hf
    | succ f =>
      have h1 : h src = .forward z := hseg src z (by simp [segments])
      have ih' := ih z f
        (fun a b hab => hseg a b (by simp only [segments, List.mem_cons]; exact Or.inr hab))
        (fun d hd => hlast d (by simpa [List.getLast?_cons_cons] using hd))
        (by simp only [List.length_cons] at hf ⊢; omega)
      simp only [follow, h1, ih']

theorem last_segment (rest : List Nat) : ∀ src d, (src :: rest).getLast? = some d → rest ≠ [] →
    ∃ a, (a, d) ∈ segments (src :: rest) := by
  induction rest with
  | nil => intro _ _ _ h; exact absurd rfl h
  | cons z r ih =>
    intro src d hd _
    cases r with
    | nil =>
      simp at hd
      subst hd
      exact ⟨src, by simp [segments]⟩
    | cons y r' =>
      have hd' : (z :: y :: r').getLast? = some d := by simpa [List.getLast?_cons_cons] using hd
      obtain ⟨a, ha⟩ := ih z d hd' (by simp)
      exact ⟨a, by simp only [segments, List.mem_cons] at ha ⊢; exact Or.inr ha⟩

theorem node_of_ntp (t : Tables) (n z i : Nat) (h : nexthopToPort t n z = some i) : (dget t n).isSome := by
  unfold nexthopToPort at h
  cases hd : dget t n with
  | none => simp [hd] at h
  | some _ => rfl

theorem segments_snoc (q : List Nat) (a : Nat) (hq : q ≠ []) :
    segments (q ++ [a]) = segments q ++ [(q.getLast hq, a)] := by
  induction q with
  | nil => exact absurd rfl hq
  | cons x r ih =>
    cases r with
    | nil => simp [segments]
    | cons y r' =>
      have := ih (by simp)
      simp only [List.cons_append, segments, List.getLast_cons_cons] at this ⊢
      rw [this]

theorem segments_reverse (p : List Nat) (x y : Nat) : (x, y) ∈ segments p.reverse ↔ (y, x) ∈ segments p := by
  induction p with
  | nil => simp [segments]
  | cons a r ih =>
    cases r with
    | nil => simp [segments]
    | cons z r' =>
      have hne : (z :: r').reverse ≠ [] := by simp
      rw [List.reverse_cons, segments_snoc _ _ hne]
      have hl : (z :: r').reverse.getLast hne = z := by simp
      rw [hl, List.mem_append, ih, List.mem_singleton]
      show _ ↔ (y, x) ∈ (a, z) :: segments (z :: r')
      rw [List.mem_cons]
      constructor
      · rintro (h | h)
        · exact Or.inr h
        · left; cases h; rfl
      · rintro (h | h)
        · right; cases h; rfl
        · exact Or.inl h

end FatTree
