import OnlVerif.Lemmas.KernelStep
import OnlVerif.Lemmas.KAccess
import OnlVerif.Lemmas.ResStep
/-!
# "Exactly once": the domain hypothesis and the invariants

* `SafeCall`, `SafeBurst`, `SafeResume`, `SafeIntr`, `SafeCb`, `SafeCbs`, `SafeStep`, `SafeRun`: the domain
  hypothesis of the "scheduled at most once" theorems (DESIGN §3), as a predicate over what a step *executes*.  It
  mirrors the control flow of `resume` / `deliverInterrupt` / `runCb` / `step` and demands of every executed API call
  `succeed e` / `fail e` that its target is an existing plain event or condition (or already triggered, in which case
  the call is refused), and of every executed `yield e` that `e` exists and is not an `Interruption` aimed at the
  yielding process itself (user code cannot get hold of such an object in the implementation; in the model event ids
  can be guessed).  Targets that are excluded because the kernel triggers them later *without* checking `triggered`:
  process events (`finishProc`), put/get requests (`_do_put`/`_do_get` inside the queue scans), non-existent ids.
  `SafeProg` is a sufficient condition on the program text; `Lemmas/OnceDec.lean` makes `SafeStep` decidable.
* `NoHangResume` … `NoHangRun`: "no `_resume` loop runs out of fuel" (strict mode), the hypothesis under which no
  process can be stuck on an already processed target.
* `InvC` (core), `InvQ` (request queues), `InvL` (no live process is lost): the invariant, parametrised by a ghost
  value that describes where inside a step we are (callbacks still to run, the event they belong to, the process
  whose burst is running).  Proof structure: `OnceAccess` (reading back after leaf updates), `OnceCore`/`OnceQL`
  (each *shape* of state change keeps the invariant), `OnceRes` (interrupt creation, resource scans, requests),
  `OnceCall` (conditions, every API call, whole bursts for every program), `OnceStep` (`register`, `finishProc`,
  `_resume`, interrupt delivery, the callback loop), `OnceRun` (the pop, a step, whole runs, initial states).
-/

namespace Once
variable {σ : Type}

/-! ## The domain hypothesis -/

/-- a `succeed`/`fail` on `e` is harmless: refused because `e` is already triggered, or `e` is an existing plain
event or condition (the kernel never triggers those behind the caller's back without checking `triggered`) -/
def SafeTarget (s : KState ℚ σ) (e : EvId) : Prop :=
  s.triggered e = true ∨ (e < s.events.size ∧ ((s.ev e).kind = .plain ∨ isCond s e = true))

def SafeCall (s : KState ℚ σ) : Call ℚ σ → Prop
  | .succeed e _ => SafeTarget s e
  | .fail e _ => SafeTarget s e
  | _ => True

/-- a process yields only events that exist, and never an `Interruption` aimed at itself -/
def SafeYield (s : KState ℚ σ) (self e : EvId) : Prop :=
  e < s.events.size ∧ (s.ev e).kind ≠ .intr self

/-- every API call executed by burst `b` of process `self`, started in state `s`, is safe, and so is its final yield -/
def SafeBurst (self : EvId) : Burst ℚ σ → KState ℚ σ → Prop
  | .call c k, s => SafeCall s c ∧ SafeBurst self (k (doCall s self c).2) (noteErr self (doCall s self c))
  | .yield e _, s => SafeYield s self e
  | .ret _, _ => True
  | .raise _, _ => True

/-- mirrors `resume`: every burst it runs is safe -/
def SafeResume (body : σ → Resume → Burst ℚ σ) (p : EvId) : Nat → EvId → KState ℚ σ → Prop
  | 0, _, _ => True
  | fuel + 1, e, s =>
    match s.proc? p with
    | none => True
    | some pr =>
      SafeBurst p (body pr.st (deliver s p e).2) ((deliver s p e).1.emit (.resumed p (deliver s p e).2 (deliver s p e).1.now)) ∧
      match (runBurst p (body pr.st (deliver s p e).2)
          ((deliver s p e).1.emit (.resumed p (deliver s p e).2 (deliver s p e).1.now))).2 with
      | .yielded e' st' =>
        match register ((runBurst p (body pr.st (deliver s p e).2)
            ((deliver s p e).1.emit (.resumed p (deliver s p e).2 (deliver s p e).1.now))).1.setProc p
              { st := st', target := some e' }) p e' with
        | some _ => True
        | none => SafeResume body p fuel e' ((runBurst p (body pr.st (deliver s p e).2)
            ((deliver s p e).1.emit (.resumed p (deliver s p e).2 (deliver s p e).1.now))).1.setProc p
              { st := st', target := some e' })
      | _ => True

/-- mirrors `deliverInterrupt` -/
def SafeIntr (body : σ → Resume → Burst ℚ σ) (fuel : Nat) (iv p : EvId) (s : KState ℚ σ) : Prop :=
  if s.triggered p then True else
  match s.proc? p with
  | none => True
  | some pr =>
    match pr.target with
    | some t => SafeResume body p fuel iv (s.eraseCb t (.resume p))
    | none => SafeResume body p fuel iv s

/-- mirrors `runCb` -/
def SafeCb (body : σ → Resume → Burst ℚ σ) (fuel : Nat) (e : EvId) (s : KState ℚ σ) : Cb → Prop
  | .resume p => SafeResume body p fuel e s
  | .intr iv =>
    match (s.ev iv).kind with
    | .intr p => SafeIntr body fuel iv p s
    | _ => True
  | _ => True

/-- mirrors the callback loop of `step` -/
def SafeCbs (body : σ → Resume → Burst ℚ σ) (fuel : Nat) (e : EvId) : List Cb → LoopSt ℚ σ → Prop
  | [], _ => True
  | cb :: cbs, l => SafeCb body fuel e l.s cb ∧ SafeCbs body fuel e cbs (runCb body fuel e l cb)

/-- **the step taken from `s` executes only safe calls and yields** -/
def SafeStep (body : σ → Resume → Burst ℚ σ) (fuel : Nat) (s : KState ℚ σ) : Prop :=
  match popMin s.agenda with
  | none => True
  | some (q, rest) =>
    match (s.ev q.ev).cbs with
    | none => True
    | some cbs => SafeCbs body fuel q.ev cbs { s := openEvent s q rest }

/-- the hypothesis on a run: every step taken from a reachable state is safe -/
def SafeRun (body : σ → Resume → Burst ℚ σ) (fuel : Nat) (s0 : KState ℚ σ) : Prop :=
  ∀ s, KReach body fuel s0 s → SafeStep body fuel s

/-- a sufficient condition on the program text alone: whatever the state, every burst is safe -/
def SafeProg (body : σ → Resume → Burst ℚ σ) : Prop :=
  ∀ (p : EvId) (st : σ) (r : Resume) (s : KState ℚ σ), SafeBurst p (body st r) s

/-! ## "The `_resume` loop does not run out of fuel" (a process that yields processed events for ever is a Python hang) -/

/-- mirrors `resume`: the loop over already processed events ends before the fuel does -/
def NoHangResume (body : σ → Resume → Burst ℚ σ) (p : EvId) : Nat → EvId → KState ℚ σ → Prop
  | 0, _, _ => False
  | fuel + 1, e, s =>
    match s.proc? p with
    | none => True
    | some pr =>
      match (runBurst p (body pr.st (deliver s p e).2)
          ((deliver s p e).1.emit (.resumed p (deliver s p e).2 (deliver s p e).1.now))).2 with
      | .yielded e' st' =>
        match register ((runBurst p (body pr.st (deliver s p e).2)
            ((deliver s p e).1.emit (.resumed p (deliver s p e).2 (deliver s p e).1.now))).1.setProc p
              { st := st', target := some e' }) p e' with
        | some _ => True
        | none => NoHangResume body p fuel e' ((runBurst p (body pr.st (deliver s p e).2)
            ((deliver s p e).1.emit (.resumed p (deliver s p e).2 (deliver s p e).1.now))).1.setProc p
              { st := st', target := some e' })
      | _ => True

def NoHangIntr (body : σ → Resume → Burst ℚ σ) (fuel : Nat) (iv p : EvId) (s : KState ℚ σ) : Prop :=
  if s.triggered p then True else
  match s.proc? p with
  | none => True
  | some pr =>
    match pr.target with
    | some t => NoHangResume body p fuel iv (s.eraseCb t (.resume p))
    | none => NoHangResume body p fuel iv s

def NoHangCb (body : σ → Resume → Burst ℚ σ) (fuel : Nat) (e : EvId) (s : KState ℚ σ) : Cb → Prop
  | .resume p => NoHangResume body p fuel e s
  | .intr iv =>
    match (s.ev iv).kind with
    | .intr p => NoHangIntr body fuel iv p s
    | _ => True
  | _ => True

def NoHangCbs (body : σ → Resume → Burst ℚ σ) (fuel : Nat) (e : EvId) : List Cb → LoopSt ℚ σ → Prop
  | [], _ => True
  | cb :: cbs, l => NoHangCb body fuel e l.s cb ∧ NoHangCbs body fuel e cbs (runCb body fuel e l cb)

/-- the step taken from `s` never exhausts the fuel of a `_resume` loop -/
def NoHangStep (body : σ → Resume → Burst ℚ σ) (fuel : Nat) (s : KState ℚ σ) : Prop :=
  match popMin s.agenda with
  | none => True
  | some (q, rest) =>
    match (s.ev q.ev).cbs with
    | none => True
    | some cbs => NoHangCbs body fuel q.ev cbs { s := openEvent s q rest }

/-- no step of the run hangs in a `_resume` loop (with the given fuel) -/
def NoHangRun (body : σ → Resume → Burst ℚ σ) (fuel : Nat) (s0 : KState ℚ σ) : Prop :=
  ∀ s, KReach body fuel s0 s → NoHangStep body fuel s

/-! ## The invariant -/

/-- where inside a step we are -/
structure Ghost where
  /-- callbacks of the event being processed that have not run yet -/
  rem : List Cb := []
  /-- the event being processed -/
  e0 : EvId := 0
  /-- the process whose burst is running -/
  run : Option EvId := none
  /-- is the "no live process is lost" clause tracked?  (It needs `0 < fuel`.) -/
  lv : Bool := false
  /-- strict mode: the `_resume` loop never runs out of fuel (`NoHangStep`), so no process can be stuck on a processed target -/
  strict : Bool := false

/-- process `p` is registered nowhere -/
def Unreg (s : KState ℚ σ) (p : EvId) : Prop := ∀ e L, (s.ev e).cbs = some L → Cb.resume p ∉ L

/-- core invariant: the agenda holds each event at most once, and only triggered unprocessed ones; a `_resume`
callback in a list means: that process is alive, waits for exactly that event, and is in the list exactly once -/
structure InvC (g : Ghost) (s : KState ℚ σ) : Prop where
  ag_distinct : s.agenda.Pairwise (fun a b => a.ev ≠ b.ev)
  ag_live : ∀ q ∈ s.agenda, (s.ev q.ev).out ≠ none ∧ (s.ev q.ev).cbs ≠ none
  done_trig : ∀ e, e < s.events.size → (s.ev e).cbs = none → (s.ev e).out ≠ none
  procs : ∀ p pr, s.proc? p = some pr → (s.ev p).kind = .proc
  reg : ∀ e L p, (s.ev e).cbs = some L → Cb.resume p ∈ L →
    (s.ev p).out = none ∧ (∃ pr, s.proc? p = some pr ∧ pr.target = some e) ∧ L.count (.resume p) = 1 ∧
      (s.ev e).kind ≠ .intr p
  intr : ∀ e L iv, (s.ev e).cbs = some L → Cb.intr iv ∈ L → iv = e
  check : ∀ e L c, (s.ev e).cbs = some L → Cb.check c ∈ L → isCond s c = true
  pend : ∀ p, (Cb.resume p ∈ g.rem ∨ g.run = some p) → (s.ev p).out = none ∧ (s.ev p).kind = .proc ∧ Unreg s p
  pend_intr : ∀ p, Cb.resume p ∈ g.rem → g.e0 < s.events.size ∧ (s.ev g.e0).kind ≠ .intr p
  rem_check : ∀ c, Cb.check c ∈ g.rem → isCond s c = true
  rem_intr : ∀ iv, Cb.intr iv ∈ g.rem → iv = g.e0
  rem_count : ∀ p, g.rem.count (.resume p) ≤ 1

/-- a queued request is a pending request event of that resource, queued once -/
structure InvQ (s : KState ℚ σ) : Prop where
  putQ : ∀ r, (s.res r).putQ.Nodup ∧ ∀ e ∈ (s.res r).putQ, (s.ev e).kind = .put r ∧ (s.ev e).out = none
  getQ : ∀ r, (s.res r).getQ.Nodup ∧ ∀ e ∈ (s.res r).getQ, (s.ev e).kind = .get r ∧ (s.ev e).out = none

/-- how process `p` is held by its target `t`: its `_resume` is among the callbacks of `t` that are being run right
now, or it is in the callback list of `t`, or (only if fuel may run out) `t` is processed and `p` is stuck -/
def Held (g : Ghost) (s : KState ℚ σ) (p t : EvId) : Prop :=
  (t = g.e0 ∧ Cb.resume p ∈ g.rem) ∨ (∃ L, (s.ev t).cbs = some L ∧ Cb.resume p ∈ L) ∨
    (g.strict = false ∧ (s.ev t).cbs = none)

/-- no live process is lost: unless its burst is running, a process that has not finished has a target that exists,
and it is held by it -/
structure InvL (g : Ghost) (s : KState ℚ σ) : Prop where
  live : g.lv = true → ∀ p pr, s.proc? p = some pr → (s.ev p).out = none → g.run ≠ some p →
    ∃ t, pr.target = some t ∧ t < s.events.size ∧ Held g s p t

/-- the converse of `InvC.ag_live`: **every triggered, unprocessed event is in the agenda** (so it will be processed,
and its waiters resumed, if the run goes on) -/
def InvS (s : KState ℚ σ) : Prop :=
  ∀ e, (s.ev e).out ≠ none → (s.ev e).cbs ≠ none → ∃ q ∈ s.agenda, q.ev = e

/-- the same, except for event `x` (the state between `_ok/_value = …` and `env.schedule(…)`) -/
def InvSx (x : EvId) (s : KState ℚ σ) : Prop :=
  ∀ e, e ≠ x → (s.ev e).out ≠ none → (s.ev e).cbs ≠ none → ∃ q ∈ s.agenda, q.ev = e

structure Inv (g : Ghost) (s : KState ℚ σ) : Prop where
  c : InvC g s
  q : InvQ s
  l : InvL g s
  s : InvS s

/-- the invariant in the middle of a trigger: event `x` has its outcome but is not scheduled yet -/
structure InvX (x : EvId) (g : Ghost) (s : KState ℚ σ) : Prop where
  c : InvC g s
  q : InvQ s
  l : InvL g s
  sx : InvSx x s

end Once
