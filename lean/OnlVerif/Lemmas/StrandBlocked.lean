import OnlVerif.Lemmas.StrandFrame
/-!
# What "blocked" depends on

`putOk` / `getItem` read only the contents of the resource record (not its queues) and the key fields of the request
records involved; pending rescans stay pending along frame steps.
-/

variable {σ : Type}

/-! ## pending rescans persist -/

theorem Pend.mono {s s' : KState ℚ σ} (f : Fr s s') {rem : List Cb} {cb : Cb} (ht : cb.isTrig = true)
    (h : Pend s rem cb) : Pend s' rem cb := by
  rcases h with h | ⟨q, hq, htime, l, hl, hm⟩
  · exact Or.inl h
  · obtain ⟨new, hnew⟩ := f.agenda
    obtain ⟨l', hl', hm'⟩ := f.cbs q.ev l hl
    exact Or.inr ⟨q, by rw [hnew]; exact List.mem_append_right _ hq, by rw [f.now_eq]; exact htime, l', hl', hm' cb ht hm⟩

theorem Pend.tail {s : KState ℚ σ} {rem : List Cb} {cb c0 : Cb} (hne : cb ≠ c0) (h : Pend s (c0 :: rem) cb) :
    Pend s rem cb := by
  rcases h with h | h
  · rcases List.mem_cons.mp h with h | h
    · exact absurd h hne
    · exact Or.inl h
  · exact Or.inr h

/-! ## the eviction step of a `PreemptiveResource` -/

theorem res_mkInterrupt (s : KState ℚ σ) (p : EvId) (c : Val) (r : ResId) : (mkInterrupt s p c).1.res r = s.res r := by
  unfold mkInterrupt
  split
  · rfl
  · split <;> rfl

theorem prePut_of_ne (s : KState ℚ σ) (r : ResId) (e : EvId) (h : (s.res r).kind ≠ .preemptive) : prePut s r e = s := by
  unfold prePut
  cases hk : (s.res r).kind <;> first | rfl | exact absurd hk h

theorem prePut_of_eq (s : KState ℚ σ) (r : ResId) (e : EvId) (h : (s.res r).kind = .preemptive) :
    prePut s r e = preemptStep s r e := by
  unfold prePut
  rw [h]; rfl

theorem worstUser_mem (s : KState ℚ σ) : ∀ (l : List EvId) (w : EvId), worstUser s l = some w → w ∈ l
  | [], w, h => by simp [worstUser] at h
  | u :: us, w, h => by
    unfold worstUser at h
    cases hw : worstUser s us with
    | none =>
      rw [hw] at h
      simp only [Option.some.injEq] at h
      subst h; exact List.mem_cons_self
    | some w' =>
      rw [hw] at h
      simp only at h
      split at h
      · simp only [Option.some.injEq] at h; subst h; exact List.mem_cons_self
      · simp only [Option.some.injEq] at h; subst h
        exact List.mem_cons_of_mem _ (worstUser_mem s us _ hw)

/-- the users after the eviction attempt of request `e` -/
def evictUsers (s : KState ℚ σ) (r : ResId) (e : EvId) : List EvId :=
  if (s.res r).capacity.any (fun c => decide (c ≤ (s.res r).users.length)) && (reqOf s e).preempt then
    match worstUser s (s.res r).users with
    | none => (s.res r).users
    | some w => if keyLt (reqOf s e) (reqOf s w) then (s.res r).users.erase w else (s.res r).users
  else (s.res r).users

theorem res_preemptStep (s : KState ℚ σ) (r : ResId) (e : EvId) (hin : r < s.resources.size) (r' : ResId) :
    (preemptStep s r e).res r' = if r' = r then { s.res r with users := evictUsers s r e } else s.res r' := by
  have hsame : s.res r' = if r' = r then { s.res r with users := (s.res r).users } else s.res r' := by
    split
    · rename_i h; rw [h]
    · rfl
  unfold preemptStep evictUsers
  simp only
  by_cases hcnd : ((s.res r).capacity.any (fun c => decide (c ≤ (s.res r).users.length)) && (reqOf s e).preempt) = true
  · simp only [hcnd, if_true]
    cases hw : worstUser s (s.res r).users with
    | none => exact hsame
    | some w =>
      simp only
      by_cases hlt : keyLt (reqOf s e) (reqOf s w) = true
      · simp only [hlt, if_true]
        cases hp : (reqOf s w).proc with
        | none =>
          simp only
          unfold KState.setUsers
          rw [KState.res_setRes]
          simp only [hin, and_true]
        | some vp =>
          simp only
          rw [res_mkInterrupt]
          unfold KState.setUsers
          rw [KState.res_setRes]
          simp only [hin, and_true]
      · simp only [hlt]
        exact hsame
  · simp only [hcnd]
    exact hsame

theorem putOk_preemptive (s : KState ℚ σ) (r : ResId) (e : EvId) (hk : (s.res r).kind = .preemptive)
    (hin : r < s.resources.size) :
    putOk s r e = hasRoom (s.res r).capacity (evictUsers s r e).length := by
  unfold putOk
  rw [prePut_of_eq s r e hk]
  unfold canPut
  simp only [res_preemptStep s r e hin, if_true, hk]

/-- kinds other than the default one live inside the resource table -/
theorem res_lt_of_kind {s : KState ℚ σ} {r : ResId} (h : (s.res r).kind ≠ .resource) : r < s.resources.size := by
  by_contra hc
  apply h
  unfold KState.res
  simp only [Array.getD_eq_getD_getElem?]
  rw [Array.getElem?_eq_none (Nat.le_of_not_lt hc)]; rfl

theorem res_lt_of_putQ {s : KState ℚ σ} {r : ResId} (h : (s.res r).putQ ≠ []) : r < s.resources.size := by
  by_contra hc
  apply h
  unfold KState.res
  simp only [Array.getD_eq_getD_getElem?]
  rw [Array.getElem?_eq_none (Nat.le_of_not_lt hc)]; rfl

theorem res_lt_of_getQ {s : KState ℚ σ} {r : ResId} (h : (s.res r).getQ ≠ []) : r < s.resources.size := by
  by_contra hc
  apply h
  unfold KState.res
  simp only [Array.getD_eq_getD_getElem?]
  rw [Array.getElem?_eq_none (Nat.le_of_not_lt hc)]; rfl

/-! ## congruence -/

/-- same contents (the queues may differ) -/
structure SameContents (a b : ResRec) : Prop where
  kind : a.kind = b.kind
  capacity : a.capacity = b.capacity
  users : a.users = b.users
  level : a.level = b.level
  items : a.items = b.items

theorem SameContents.rfl' (a : ResRec) : SameContents a a := ⟨rfl, rfl, rfl, rfl, rfl⟩
theorem SameContents.of_eq {a b : ResRec} (h : a = b) : SameContents a b := h ▸ SameContents.rfl' a

theorem strip_preempt {a b : ReqData ℚ} (h : a.strip = b.strip) : a.preempt = b.preempt :=
  (congrArg ReqData.preempt h : a.strip.preempt = b.strip.preempt)
theorem strip_amount {a b : ReqData ℚ} (h : a.strip = b.strip) : a.amount = b.amount :=
  (congrArg ReqData.amount h : a.strip.amount = b.strip.amount)
theorem strip_filter {a b : ReqData ℚ} (h : a.strip = b.strip) : a.filter = b.filter :=
  (congrArg ReqData.filter h : a.strip.filter = b.strip.filter)

theorem keyLt_congr {a a' b b' : ReqData ℚ} (ha : a'.strip = a.strip) (hb : b'.strip = b.strip) :
    keyLt a' b' = keyLt a b := by
  show keyLt a'.strip b'.strip = keyLt a.strip b.strip
  rw [ha, hb]

theorem worstUser_congr {s s' : KState ℚ σ} : ∀ (l : List EvId),
    (∀ w ∈ l, (reqOf s' w).strip = (reqOf s w).strip) → worstUser s' l = worstUser s l
  | [], _ => rfl
  | u :: us, h => by
    have ih := worstUser_congr us (fun w hw => h w (List.mem_cons_of_mem _ hw))
    unfold worstUser
    rw [ih]
    cases hw : worstUser s us with
    | none => rfl
    | some w =>
      simp only
      rw [keyLt_congr (h w (List.mem_cons_of_mem _ (worstUser_mem s us w hw))) (h u List.mem_cons_self)]

theorem evictUsers_congr {s s' : KState ℚ σ} {r : ResId} {e : EvId} (hc : SameContents (s'.res r) (s.res r))
    (he : (reqOf s' e).strip = (reqOf s e).strip)
    (hu : ∀ w ∈ (s.res r).users, (reqOf s' w).strip = (reqOf s w).strip) :
    evictUsers s' r e = evictUsers s r e := by
  unfold evictUsers
  rw [hc.capacity, hc.users, worstUser_congr _ hu]
  have hp : (reqOf s' e).preempt = (reqOf s e).preempt := strip_preempt he
  rw [hp]
  split
  · cases hw : worstUser s (s.res r).users with
    | none => rfl
    | some w =>
      simp only
      rw [keyLt_congr he (hu w (worstUser_mem s _ w hw))]
  · rfl

theorem putOk_congr {s s' : KState ℚ σ} {r : ResId} {e : EvId} (hc : SameContents (s'.res r) (s.res r))
    (he : (reqOf s' e).strip = (reqOf s e).strip)
    (hu : ∀ w ∈ (s.res r).users, (reqOf s' w).strip = (reqOf s w).strip) :
    putOk s' r e = putOk s r e := by
  by_cases hk : (s.res r).kind = .preemptive
  · have hk' : (s'.res r).kind = .preemptive := hc.kind.trans hk
    rw [putOk_preemptive s r e hk (res_lt_of_kind (by rw [hk]; simp)),
      putOk_preemptive s' r e hk' (res_lt_of_kind (by rw [hk']; simp)), evictUsers_congr hc he hu, hc.capacity]
  · have hk' : (s'.res r).kind ≠ .preemptive := by rw [hc.kind]; exact hk
    unfold putOk
    rw [prePut_of_ne s r e hk, prePut_of_ne s' r e hk']
    unfold canPut
    have ha : (reqOf s' e).amount = (reqOf s e).amount := strip_amount he
    simp only [hc.kind, hc.capacity, hc.users, hc.level, hc.items, ha]

theorem getItem_congr {s s' : KState ℚ σ} {r : ResId} {e : EvId} (hc : SameContents (s'.res r) (s.res r))
    (he : (reqOf s' e).strip = (reqOf s e).strip) : getItem s' r e = getItem s r e := by
  unfold getItem
  have ha : (reqOf s' e).amount = (reqOf s e).amount := strip_amount he
  have hf : (reqOf s' e).filter = (reqOf s e).filter := strip_filter he
  simp only [hc.kind, hc.level, hc.items, ha, hf]

theorem PutBlocked.congr {s s' : KState ℚ σ} {r : ResId} (h : Pkg s none) (f : Fr s s')
    (hc : SameContents (s'.res r) (s.res r)) (hq : (s'.res r).putQ = (s.res r).putQ) (hb : PutBlocked s r) :
    PutBlocked s' r := by
  intro e he
  rw [hq] at he
  have hm : e ∈ (s.res r).putQ := List.mem_of_mem_head? he
  obtain ⟨l, hl, _⟩ := (h.putQ r e hm).2.2
  rw [putOk_congr hc (f.req e (KState.lt_of_cbs hl)) (fun w hw => f.req w (h.usersIn r w hw))]
  exact hb e he

theorem GetBlocked.congr {s s' : KState ℚ σ} {r : ResId} (h : Pkg s none) (f : Fr s s')
    (hc : SameContents (s'.res r) (s.res r)) (hq : (s'.res r).getQ = (s.res r).getQ) (hb : GetBlocked s r) :
    GetBlocked s' r := by
  have key : ∀ e ∈ (s.res r).getQ, getItem s' r e = getItem s r e := by
    intro e hm
    obtain ⟨l, hl, _⟩ := (h.getQ r e hm).2.2
    exact getItem_congr hc (f.req e (KState.lt_of_cbs hl))
  constructor
  · intro e he
    rw [hq] at he
    rw [key e (List.mem_of_mem_head? he)]
    exact hb.1 e he
  · intro hk e hm
    rw [hq] at hm
    rw [key e hm]
    exact hb.2 (hc.kind ▸ hk) e hm

theorem MainP.mono {s s' : KState ℚ σ} {rem : List Cb} {r : ResId} (h : Pkg s none) (f : Fr s s')
    (hc : SameContents (s'.res r) (s.res r)) (hq : (s'.res r).putQ = (s.res r).putQ) (hm : MainP s rem r) :
    MainP s' rem r := by
  rcases hm with hm | hm
  · exact Or.inl (hm.congr h f hc hq)
  · exact Or.inr (hm.mono f rfl)

theorem MainG.mono {s s' : KState ℚ σ} {rem : List Cb} {r : ResId} (h : Pkg s none) (f : Fr s s')
    (hc : SameContents (s'.res r) (s.res r)) (hq : (s'.res r).getQ = (s.res r).getQ) (hm : MainG s rem r) :
    MainG s' rem r := by
  rcases hm with hm | hm
  · exact Or.inl (hm.congr h f hc hq)
  · exact Or.inr (hm.mono f rfl)

/-- a step that leaves all resources alone keeps `Main` -/
theorem Main.nr {s s' : KState ℚ σ} {rem : List Cb} (h : Pkg s none) (n : NR s s') (hm : Main s rem) : Main s' rem := by
  intro r
  have hr := n.res_eq r
  exact ⟨(hm r).1.mono h n.fr (SameContents.of_eq hr) (by rw [hr]), (hm r).2.mono h n.fr (SameContents.of_eq hr) (by rw [hr])⟩

theorem ChkRem.fr {s s' : KState ℚ σ} {rem : List Cb} (f : Fr s s') (h : ChkRem s rem) : ChkRem s' rem := by
  intro c hc
  have := h c hc
  rw [isCond_congr (f.kind c (isCond_lt this))]; exact this

/-- **non-resource steps keep the loop invariant** -/
theorem J.nr {s s' : KState ℚ σ} {rem : List Cb} (h : J s rem) (hp : Pkg s' none) (n : NR s s') : J s' rem :=
  ⟨hp, h.chk.fr n.fr, h.main.nr h.pkg n⟩
